(* PolicyL.v — facts about the table-choosing policy model (Model/Policy.v), for ALL
   oracle values. *)
From QCo.Model Require Import Base Consts Codec Policy.
From QCo.Lemmas Require Import Tactics.
From Coq Require Import Sorting.Sorted Sorting.Permutation.
Open Scope N_scope.

(* ================= A. gcd ================= *)

Lemma pair_gcd_spec fuel : forall a b, 0 < b -> b < 2 ^ N.of_nat fuel ->
  pair_gcd fuel a b = N.gcd a b.
Proof.
  induction fuel as [|f IH]; intros a b Hb Hlt.
  - change (2 ^ N.of_nat 0) with 1 in Hlt. lia.
  - cbn [pair_gcd].
    assert (Hab : N.gcd a b = N.gcd (a mod b) b).
    { rewrite N.gcd_mod by lia. apply N.gcd_comm. }
    destruct (N.eqb_spec (a mod b) 0) as [E|E].
    + rewrite Hab, E. apply eq_sym, N.gcd_0_l.
    + assert (Ha' : a mod b < b) by (apply N.mod_lt; lia).
      assert (Hb' : N.gcd (a mod b) b = N.gcd (b mod (a mod b)) (a mod b)).
      { rewrite (N.gcd_mod b (a mod b)) by lia. reflexivity. }
      destruct (N.eqb_spec (b mod (a mod b)) 0) as [E2|E2].
      * rewrite Hab, Hb', E2. apply eq_sym, N.gcd_0_l.
      * rewrite Hab, Hb', N.gcd_comm. apply IH; [lia|].
        rewrite Nat2N.inj_succ, N.pow_succ_r' in Hlt.
        set (a' := a mod b) in *. clearbody a'.
        assert (b mod a' < a') by (apply N.mod_lt; lia).
        assert (b = a' * (b / a') + b mod a') by (apply N.div_mod; lia).
        assert (1 <= b / a') by (apply N.div_le_lower_bound; lia).
        nia.
Qed.

Theorem pgcd_spec a b : 0 < b -> pgcd a b = N.gcd a b.
Proof.
  intros Hb. unfold pgcd. apply pair_gcd_spec; [exact Hb|].
  rewrite Nat2N.inj_succ, N2Nat.id, N.pow_succ_r'.
  pose proof (N.size_gt b). lia.
Qed.

(* gcd of a list *)
Definition lgcd (l : list N) : N := fold_right N.gcd 0 l.

Lemma lgcd_divides l : forall d, (d | lgcd l) <-> Forall (fun x => (d | x)) l.
Proof.
  induction l as [|x t IH]; intros d; cbn [lgcd fold_right].
  - split; [constructor | intros _; apply N.divide_0_r].
  - fold (lgcd t). rewrite N.gcd_divide_iff, IH. split.
    + intros [A B]. constructor; assumption.
    + intros H. inversion H; subst. split; assumption.
Qed.

Lemma lgcd_ext l l' :
  (forall d, Forall (fun x => (d | x)) l <-> Forall (fun x => (d | x)) l') -> lgcd l = lgcd l'.
Proof.
  intros H. apply N.divide_antisym.
  - apply lgcd_divides, H, lgcd_divides, N.divide_refl.
  - apply lgcd_divides, H, lgcd_divides, N.divide_refl.
Qed.

Lemma lgcd_app l1 l2 : lgcd (l1 ++ l2) = N.gcd (lgcd l1) (lgcd l2).
Proof.
  induction l1 as [|x t IH]; cbn [app lgcd fold_right].
  - rewrite N.gcd_0_l. reflexivity.
  - fold (lgcd (t ++ l2)) (lgcd t). rewrite IH, N.gcd_assoc. reflexivity.
Qed.

Lemma lgcd_In l x : In x l -> (lgcd l | x).
Proof.
  intros H. pose proof (proj1 (lgcd_divides l (lgcd l)) (N.divide_refl _)) as F.
  rewrite Forall_forall in F. apply F, H.
Qed.

Lemma lgcd_zero l : lgcd l = 0 <-> Forall (fun x => x = 0) l.
Proof.
  induction l as [|x t IH]; cbn [lgcd fold_right].
  - split; [constructor|reflexivity].
  - fold (lgcd t). split.
    + intros H. apply N.gcd_eq_0 in H. destruct H as [A B]. constructor; [exact A|apply IH, B].
    + intros H. inversion H; subst. rewrite (proj2 IH) by assumption. reflexivity.
Qed.

(* the loop of gcd(), early exit included *)
Lemma gcd_loop_spec lower : forall l res, 0 < res ->
  gcd_loop lower res l = N.gcd res (lgcd (map (fun x => x - lower) l)).
Proof.
  induction l as [|x t IH]; intros res Hres; cbn [gcd_loop map lgcd fold_right].
  - rewrite N.gcd_0_r. reflexivity.
  - fold (lgcd (map (fun x => x - lower) t)).
    destruct (N.eqb_spec res 1) as [E|E].
    + subst. rewrite N.gcd_1_l. reflexivity.
    + rewrite IH.
      * rewrite pgcd_spec by exact Hres.
        rewrite (N.gcd_comm (x - lower) res), N.gcd_assoc. reflexivity.
      * rewrite pgcd_spec by exact Hres.
        destruct (N.eq_dec (N.gcd (x - lower) res) 0) as [Z|Z]; [|lia].
        apply N.gcd_eq_0 in Z. lia.
Qed.

Lemma last_In {A} (l : list A) d : l <> [] -> In (last l d) l.
Proof.
  induction l as [|x [|y t] IH]; intros H; [congruence|left; reflexivity|].
  right. apply IH. discriminate.
Qed.

Lemma last_indep {A} (l : list A) d d' : l <> [] -> last l d = last l d'.
Proof.
  induction l as [|x [|y t] IH]; intros H; [congruence|reflexivity|].
  apply IH. discriminate.
Qed.

Lemma last_cons {A} (x : A) l d : l <> [] -> last (x :: l) d = last l d.
Proof. destruct l; [congruence|reflexivity]. Qed.

(* distances from the first element *)
Definition dists (l : list N) : list N := map (fun x => x - hd 0 l) l.

Theorem gcd_sorted_spec l : l <> [] -> hd 0 l <= last l 0 ->
  gcd_sorted l = if hd 0 l =? last l 0 then 1 else lgcd (dists l).
Proof.
  destruct l as [|lo t]; [congruence|]. intros _ Hle. unfold gcd_sorted, dists.
  cbn [hd] in *. rewrite (last_indep (lo :: t) lo 0) by discriminate.
  set (up := last (lo :: t) 0) in *.
  destruct (N.eqb_spec lo up) as [E|E]; [reflexivity|].
  rewrite gcd_loop_spec by lia.
  cbn [map lgcd fold_right]. fold (lgcd (map (fun x => x - lo) t)).
  rewrite N.sub_diag, N.gcd_0_l, N.gcd_comm.
  apply N.divide_gcd_iff'. apply lgcd_In.
  assert (Ht : t <> []) by (intros ->; apply E; reflexivity).
  apply in_map_iff. exists up. split; [reflexivity|].
  subst up. rewrite last_cons by exact Ht. apply last_In, Ht.
Qed.

Corollary gcd_sorted_pos l : l <> [] -> hd 0 l <= last l 0 -> 0 < gcd_sorted l.
Proof.
  intros Hne Hle. rewrite gcd_sorted_spec by assumption.
  destruct (N.eqb_spec (hd 0 l) (last l 0)) as [E|E]; [lia|].
  destruct (N.eq_dec (lgcd (dists l)) 0) as [Z|Z]; [|lia].
  apply lgcd_zero in Z. rewrite Forall_forall in Z.
  assert (last l 0 - hd 0 l = 0).
  { apply Z. unfold dists. apply in_map_iff. exists (last l 0). split; [reflexivity|].
    apply last_In, Hne. }
  lia.
Qed.

(* every member is lower + a multiple of the gcd *)
Corollary gcd_sorted_divides l x : l <> [] -> hd 0 l <= last l 0 -> In x l ->
  (x - hd 0 l) mod gcd_sorted l = 0.
Proof.
  intros Hne Hle Hin. apply N.mod_divide.
  - pose proof (gcd_sorted_pos l Hne Hle). lia.
  - rewrite gcd_sorted_spec by assumption.
    destruct (N.eqb_spec (hd 0 l) (last l 0)) as [E|E]; [apply N.divide_1_l|].
    apply lgcd_In. unfold dists. apply in_map_iff. exists x. split; [reflexivity|exact Hin].
Qed.

(* and it is the greatest such divisor when the range is not a single value *)
Corollary gcd_sorted_greatest l d : l <> [] -> hd 0 l < last l 0 ->
  (forall x, In x l -> (d | x - hd 0 l)) -> (d | gcd_sorted l) /\ d <= gcd_sorted l.
Proof.
  intros Hne Hlt Hd.
  assert (D : (d | gcd_sorted l)).
  { rewrite gcd_sorted_spec by (try assumption; lia).
    destruct (N.eqb_spec (hd 0 l) (last l 0)) as [E|E]; [lia|].
    apply lgcd_divides. unfold dists. rewrite Forall_forall. intros y Hy.
    apply in_map_iff in Hy. destruct Hy as (x & <- & Hx). apply Hd, Hx. }
  split; [exact D|].
  apply N.divide_pos_le; [|exact D]. apply gcd_sorted_pos; [exact Hne|lia].
Qed.

(* ================= list helpers ================= *)
Lemma skipn_skipn' {A} : forall a b (l : list A), skipn a (skipn b l) = skipn (b + a) l.
Proof.
  intros a b. induction b as [|b IH]; intros l; [reflexivity|].
  destruct l as [|x t]; [rewrite !skipn_nil; reflexivity|]. cbn [Nat.add skipn]. apply IH.
Qed.

Lemma skipn_nth_cons {A} : forall k (l : list A) x t d,
  skipn k l = x :: t -> nth k l d = x /\ skipn (S k) l = t /\ (k < length l)%nat.
Proof.
  induction k as [|k IH]; intros l x t d H.
  - cbn in H. subst l. cbn. repeat split. lia.
  - destruct l as [|y l]; [discriminate|]. cbn [skipn] in H.
    destruct (IH l x t d H) as (A1 & A2 & A3). cbn [nth length]. repeat split; try assumption. lia.
Qed.

Lemma hd_skipn {A} : forall k (l : list A) d, hd d (skipn k l) = nth k l d.
Proof.
  induction k as [|k IH]; intros [|x t] d; try reflexivity. cbn [skipn nth]. apply IH.
Qed.

Lemma nth_skipn' {A} : forall a k (l : list A) d, nth k (skipn a l) d = nth (a + k) l d.
Proof.
  induction a as [|a IH]; intros k [|x t] d; try reflexivity.
  - destruct k; reflexivity.
  - cbn [skipn Nat.add nth]. apply IH.
Qed.

Lemma last_firstn {A} : forall k (l : list A) d, (k < length l)%nat ->
  last (firstn (S k) l) d = nth k l d.
Proof.
  induction k as [|k IH]; intros [|x t] d H; cbn [length] in H; try lia.
  - reflexivity.
  - rewrite firstn_cons. destruct t as [|y t']; [cbn [length] in H; lia|].
    rewrite last_cons by (rewrite firstn_cons; discriminate).
    cbn [nth]. apply IH. cbn [length] in *. lia.
Qed.

Lemma hd_firstn {A} : forall k (l : list A) d, hd d (firstn (S k) l) = hd d l.
Proof. intros k [|x t] d; reflexivity. Qed.

Lemma hd_app {A} (l1 l2 : list A) d : l1 <> [] -> hd d (l1 ++ l2) = hd d l1.
Proof. destruct l1; [congruence|reflexivity]. Qed.

Lemma last_app {A} (l1 l2 : list A) d : l2 <> [] -> last (l1 ++ l2) d = last l2 d.
Proof.
  intros H. induction l1 as [|x t IH]; [reflexivity|].
  cbn [app]. rewrite last_cons; [exact IH|]. destruct t; [exact H|discriminate].
Qed.

(* ================= B. the unoptimised prefixes partition the sorted list ========= *)

(* index k starts a new value *)
Definition bd (sorted : list N) (k : N) : Prop :=
  nthN sorted k <> nthN sorted (k - 1).

(* the (i, j) of successive push_pref calls: consecutive non-empty index ranges from
   [start] to [n]; every interior cut is placed where the value changes *)
Fixpoint chain (sorted : list N) (start n : N) (cuts : list (N * N)) : Prop :=
  match cuts with
  | [] => start = n
  | c :: t => fst c = start /\ fst c < snd c /\ (snd c = n \/ bd sorted (snd c))
              /\ chain sorted (snd c) n t
  end.

(* the same for the reversed list kept by the loop *)
Fixpoint rchain (sorted : list N) (cuts : list (N * N)) (i : N) : Prop :=
  match cuts with
  | [] => i = 0
  | c :: t => snd c = i /\ fst c < snd c /\ bd sorted (snd c) /\ rchain sorted t (fst c)
  end.

Lemma rchain_chain sorted n : forall cuts i tl,
  rchain sorted cuts i -> chain sorted i n tl -> chain sorted 0 n (rev cuts ++ tl).
Proof.
  induction cuts as [|c t IH]; intros i tl R C; cbn [rchain] in R.
  - subst. exact C.
  - destruct R as (E & Hlt & Hbd & R). cbn [rev]. rewrite <- app_assoc. cbn [app].
    apply (IH (fst c)); [exact R|]. cbn [chain]. repeat split; try assumption.
    + right. exact Hbd.
    + rewrite E. exact C.
Qed.

(* loop invariant before iteration j (1 <= j <= n) *)
Record UInv (sorted : list N) (n maxp : N) (st : ust) (j : N) : Prop := {
  ui_chain : rchain sorted (u_cuts st) (u_i st);
  ui_le : u_i st <= u_backup st;
  ui_lt : u_backup st < j;
  ui_bd : u_backup st = 0 \/ bd sorted (u_backup st);
  ui_len : Nlen (u_cuts st) <= u_pidx st;
  ui_pidx : u_pidx st + 1 <= maxp;
  ui_target : u_backup st <= u_target n maxp st   (* target_j - backup_j never underflows *)
}.

Lemma arith_L1 n maxp p j : 0 < n -> 0 < maxp -> ((p + 1) * n) / maxp <= j -> j < n ->
  p + 2 <= maxp.
Proof.
  intros Hn Hm H1 H2.
  destruct (N.le_gt_cases maxp (p + 1)) as [C|C]; [|lia].
  assert (n <= ((p + 1) * n) / maxp) by (apply N.div_le_lower_bound; nia). lia.
Qed.

Lemma arith_L2 n maxp b : 0 < maxp -> b < n -> (b * maxp) / n + 1 <= maxp.
Proof.
  intros Hm Hb. assert ((b * maxp) / n < maxp) by (apply N.div_lt_upper_bound; nia). lia.
Qed.

Lemma arith_L3 n maxp p b : 0 < n -> 0 < maxp ->
  b <= ((N.max (p + 1) ((b * maxp) / n) + 1) * n) / maxp.
Proof.
  intros Hn Hm. apply N.div_le_lower_bound; [lia|].
  pose proof (N.mul_succ_div_gt (b * maxp) n ltac:(lia)) as G.
  set (q := (b * maxp) / n) in *. clearbody q.
  assert (q <= N.max (p + 1) q) by lia.
  set (q' := N.max (p + 1) q) in *. clearbody q'. nia.
Qed.

Lemma u_step_inv sorted n maxp st j :
  0 < n -> 0 < maxp -> 1 <= j -> j < n ->
  UInv sorted n maxp st j ->
  UInv sorted n maxp (u_step n maxp st j (nthN sorted j =? nthN sorted (j - 1))) (j + 1).
Proof.
  intros Hn Hm Hj1 Hjn [Hc Hle Hlt Hbd Hlen Hp Ht].
  unfold u_step.
  destruct (N.eqb_spec (nthN sorted j) (nthN sorted (j - 1))) as [Same|Diff].
  - destruct ((u_target n maxp st <=? j) && (u_target n maxp st - u_backup st <=? j - u_target n maxp st)
              && (u_i st <? u_backup st)) eqn:Cond.
    + apply andb_true_iff in Cond. destruct Cond as [Cond C3].
      apply andb_true_iff in Cond. destruct Cond as [C1 C2].
      apply N.leb_le in C1. apply N.ltb_lt in C3. unfold u_target in C1.
      pose proof (arith_L1 n maxp (u_pidx st) j Hn Hm C1 Hjn) as P2.
      pose proof (arith_L2 n maxp (u_backup st) Hm ltac:(lia)) as P3.
      destruct Hbd as [Z|Hbd]; [lia|].
      constructor; cbn [u_push u_cuts u_i u_backup u_pidx].
      * cbn [rchain fst snd]. repeat split; assumption.
      * lia.
      * lia.
      * right. exact Hbd.
      * unfold Nlen in *. cbn [length]. lia.
      * lia.
      * unfold u_target. cbn [u_pidx]. apply arith_L3; assumption.
    + constructor; try assumption. lia.
  - destruct (N.leb_spec (u_target n maxp st) j) as [C1|C1].
    + unfold u_target in C1.
      pose proof (arith_L1 n maxp (u_pidx st) j Hn Hm C1 Hjn) as P2.
      pose proof (arith_L2 n maxp j Hm Hjn) as P3.
      constructor; cbn [u_push u_cuts u_i u_backup u_pidx].
      * cbn [rchain fst snd]. repeat split; try assumption. lia.
      * lia.
      * lia.
      * right. exact Diff.
      * unfold Nlen in *. cbn [length]. lia.
      * lia.
      * unfold u_target. cbn [u_pidx]. apply arith_L3; assumption.
    + constructor; cbn [u_cuts u_i u_backup u_pidx]; try assumption.
      * lia.
      * lia.
      * right. exact Diff.
      * unfold u_target in *. cbn [u_pidx]. lia.
Qed.

Lemma u_loop_inv sorted n maxp : 0 < n -> 0 < maxp -> n = Nlen sorted ->
  forall l st j, 1 <= j -> j <= n -> skipn (N.to_nat j) sorted = l ->
  UInv sorted n maxp st j ->
  UInv sorted n maxp (u_loop n maxp st j (nthN sorted (j - 1)) l) n.
Proof.
  intros Hn Hm En. induction l as [|x t IH]; intros st j Hj Hjn Hs Inv.
  - cbn [u_loop].
    assert (n <= j).
    { assert (L : length (skipn (N.to_nat j) sorted) = O) by (rewrite Hs; reflexivity).
      rewrite skipn_length in L. unfold Nlen in En. lia. }
    assert (j = n) by lia. subst j. exact Inv.
  - cbn [u_loop].
    destruct (skipn_nth_cons _ _ _ _ 0 Hs) as (Hx & Ht & Hlen).
    assert (Hjn' : j < n) by (unfold Nlen in En; lia).
    assert (Ex : x = nthN sorted j) by (unfold nthN; congruence).
    replace x with (nthN sorted (j + 1 - 1)) at 2 by (rewrite N.add_sub; congruence).
    rewrite Ex at 1.
    apply IH; [lia|lia| |].
    + replace (N.to_nat (j + 1)) with (S (N.to_nat j)) by lia. exact Ht.
    + apply u_step_inv; assumption.
Qed.

(* the cut list of choose_unoptimized_prefixes *)
Theorem unopt_cuts_chain sorted maxp :
  1 <= maxp <= Nlen sorted ->
  chain sorted 0 (Nlen sorted) (unopt_cuts sorted maxp) /\
  Nlen (unopt_cuts sorted maxp) <= maxp.
Proof.
  intros Hm. unfold unopt_cuts. destruct sorted as [|x0 t] eqn:Es.
  - unfold Nlen in Hm. cbn in Hm. lia.
  - rewrite <- Es in *. set (n := Nlen sorted) in *.
    assert (Hn : 0 < n) by lia.
    assert (St0 : u_step n maxp u_init 0 false = u_init).
    { unfold u_step, u_target, u_init. cbn [u_pidx u_i u_backup u_cuts].
      destruct (N.leb_spec ((0 + 1) * n / maxp) 0) as [C|C]; [|reflexivity].
      exfalso. assert (1 <= (0 + 1) * n / maxp) by (apply N.div_le_lower_bound; lia). lia. }
    rewrite St0.
    assert (I1 : UInv sorted n maxp u_init 1).
    { constructor; unfold u_init, u_target; cbn [u_pidx u_i u_backup u_cuts rchain];
        try lia; try reflexivity; try (left; reflexivity); try (unfold Nlen; cbn; lia). }
    assert (Hx0 : x0 = nthN sorted (1 - 1)) by (rewrite Es; reflexivity).
    rewrite Hx0.
    pose proof (u_loop_inv sorted n maxp Hn ltac:(lia) eq_refl t u_init 1 ltac:(lia) ltac:(lia)
                  ltac:(rewrite Es; reflexivity) I1) as Inv.
    set (st := u_loop n maxp u_init 1 (nthN sorted (1 - 1)) t) in *. clearbody st.
    destruct Inv as [Hc Hle Hlt Hbd Hlen Hp Ht]. split.
    + change (rev ((u_i st, n) :: u_cuts st)) with (rev (u_cuts st) ++ [(u_i st, n)]).
      apply (rchain_chain sorted n _ (u_i st)); [exact Hc|].
      cbn [chain fst snd]. repeat split; try lia.
    + unfold Nlen in *. rewrite rev_length. cbn [length]. lia.
Qed.

(* ---- slices ---- *)
(* prefix w describes the non-empty slice s *)
Definition covers1 (w : wpref) (s : list N) : Prop :=
  s <> [] /\ w_count w = Nlen s /\ w_lower w = hd 0 s /\ w_upper w = last s 0.
Definition covers (ws : list wpref) (sl : list (list N)) : Prop := Forall2 covers1 ws sl.

(* consecutive slices are disjoint, ordered value intervals *)
Fixpoint separated (sl : list (list N)) : Prop :=
  match sl with
  | s :: ((s' :: _) as t) => last s 0 < hd 0 s' /\ separated t
  | _ => True
  end.

Definition cut_slices (sorted : list N) (cuts : list (N * N)) : list (list N) :=
  map (fun c => slice (fst c) (snd c) sorted) cuts.

Lemma chain_le sorted n : forall cuts start, chain sorted start n cuts -> start <= n.
Proof.
  induction cuts as [|c t IH]; intros start H; cbn [chain] in H.
  - lia.
  - destruct H as (E & Hlt & _ & H). apply IH in H. lia.
Qed.

Lemma slice_facts sorted a b : a < b -> b <= Nlen sorted ->
  slice a b sorted <> [] /\ Nlen (slice a b sorted) = b - a /\
  hd 0 (slice a b sorted) = nthN sorted a /\ last (slice a b sorted) 0 = nthN sorted (b - 1).
Proof.
  intros Hab Hb. unfold slice, nthN, Nlen in *.
  assert (L : length (firstn (N.to_nat (b - a)) (skipn (N.to_nat a) sorted)) = N.to_nat (b - a)).
  { rewrite firstn_length, skipn_length. lia. }
  destruct (N.to_nat (b - a)) as [|k] eqn:Ek; [lia|].
  repeat split.
  - intros E. rewrite E in L. discriminate.
  - lia.
  - rewrite hd_firstn, hd_skipn. reflexivity.
  - rewrite last_firstn by (rewrite skipn_length; lia).
    rewrite nth_skipn'. f_equal. lia.
Qed.

Lemma slice_split sorted a b : a <= b ->
  slice a b sorted ++ skipn (N.to_nat b) sorted = skipn (N.to_nat a) sorted.
Proof.
  intros H. unfold slice.
  replace (skipn (N.to_nat b) sorted)
    with (skipn (N.to_nat (b - a)) (skipn (N.to_nat a) sorted)).
  - apply firstn_skipn.
  - rewrite skipn_skipn'. f_equal. lia.
Qed.

Lemma chain_concat sorted : forall cuts start,
  chain sorted start (Nlen sorted) cuts ->
  concat (cut_slices sorted cuts) = skipn (N.to_nat start) sorted.
Proof.
  induction cuts as [|c t IH]; intros start H; cbn [chain] in H.
  - subst. unfold Nlen. rewrite Nat2N.id, skipn_all. reflexivity.
  - destruct H as (E & Hlt & _ & H). cbn [cut_slices map concat].
    fold (cut_slices sorted t). rewrite (IH _ H). subst start. apply slice_split. lia.
Qed.

Lemma chain_covers sorted use_gcd rl : forall cuts start,
  chain sorted start (Nlen sorted) cuts ->
  covers (map (fun c => push_pref sorted (Nlen sorted) use_gcd rl (fst c) (snd c)) cuts)
         (cut_slices sorted cuts).
Proof.
  induction cuts as [|c t IH]; intros start H; cbn [chain] in H; [constructor|].
  destruct H as (E & Hlt & _ & H). cbn [map cut_slices]. constructor; [|apply (IH _ H)].
  pose proof (chain_le _ _ _ _ H) as Hle.
  destruct (slice_facts sorted (fst c) (snd c) Hlt Hle) as (F1 & F2 & F3 & F4).
  unfold covers1, push_pref. rewrite F2, F3, F4.
  destruct (rl (snd c - fst c) (Nlen sorted)) as [[w js]|]; cbn; repeat split; assumption.
Qed.

Lemma chain_gcds sorted (use_gcd : bool) rl : forall cuts,
  Forall2 (fun w s => w_gcd w = if use_gcd then gcd_sorted s else 1)
          (map (fun c => push_pref sorted (Nlen sorted) use_gcd rl (fst c) (snd c)) cuts)
          (cut_slices sorted cuts).
Proof.
  induction cuts as [|c t IH]; cbn [map cut_slices]; constructor; [|exact IH].
  unfold push_pref. destruct (rl (snd c - fst c) (Nlen sorted)) as [[w js]|]; reflexivity.
Qed.

Lemma ss_nth : forall l, StronglySorted N.le l ->
  forall a b, (a <= b < length l)%nat -> nth a l 0 <= nth b l 0.
Proof.
  induction 1 as [|x l SS IH Hx]; intros a b Hab; cbn [length] in Hab; [lia|].
  destruct a as [|a], b as [|b]; cbn [nth]; try lia.
  - rewrite Forall_forall in Hx. apply Hx, nth_In. lia.
  - apply IH. lia.
Qed.

Lemma chain_separated sorted : StronglySorted N.le sorted -> forall cuts start,
  chain sorted start (Nlen sorted) cuts -> separated (cut_slices sorted cuts).
Proof.
  intros SS. induction cuts as [|c t IH]; intros start H; [exact I|].
  cbn [chain] in H. destruct H as (E & Hlt & Hbd & H).
  destruct t as [|c' t']; [exact I|].
  cbn [cut_slices map separated]. split; [|apply (IH _ H)].
  cbn [chain] in H. destruct H as (E' & Hlt' & _ & H').
  pose proof (chain_le _ _ _ _ H') as Hle'.
  destruct (slice_facts sorted (fst c) (snd c) Hlt ltac:(lia)) as (_ & _ & _ & F4).
  destruct (slice_facts sorted (fst c') (snd c') Hlt' Hle') as (_ & _ & F3 & _).
  rewrite F4, F3, E'. destruct Hbd as [Z|Hbd]; [lia|].
  unfold bd, nthN in *.
  assert (nth (N.to_nat (snd c - 1)) sorted 0 <= nth (N.to_nat (snd c)) sorted 0).
  { apply ss_nth; [exact SS|]. unfold Nlen in *. lia. }
  lia.
Qed.

(* Theorem B *)
Theorem choose_unoptimized_partition sorted maxp (use_gcd : bool) rl :
  1 <= maxp <= Nlen sorted ->
  let cuts := unopt_cuts sorted maxp in
  let raws := choose_unoptimized sorted maxp use_gcd rl in
  let sl := cut_slices sorted cuts in
  raws = map (fun c => push_pref sorted (Nlen sorted) use_gcd rl (fst c) (snd c)) cuts /\
  chain sorted 0 (Nlen sorted) cuts /\
  concat sl = sorted /\
  covers raws sl /\
  Forall2 (fun w s => w_gcd w = if use_gcd then gcd_sorted s else 1) raws sl /\
  Nlen raws <= maxp /\
  (Sorted N.le sorted -> separated sl).
Proof.
  intros Hm cuts raws sl.
  destruct (unopt_cuts_chain sorted maxp Hm) as [Hc Hl]. fold cuts in Hc, Hl.
  assert (Er : raws = map (fun c => push_pref sorted (Nlen sorted) use_gcd rl (fst c) (snd c)) cuts)
    by reflexivity.
  split; [exact Er|]. split; [exact Hc|]. split; [|split; [|split; [|split]]].
  - unfold sl. rewrite (chain_concat _ _ _ Hc). reflexivity.
  - rewrite Er. apply (chain_covers _ _ _ _ _ Hc).
  - rewrite Er. apply chain_gcds.
  - rewrite Er. unfold Nlen in *. rewrite map_length. exact Hl.
  - intros S. apply (chain_separated sorted (Sorted_StronglySorted N.le_trans S) _ _ Hc).
Qed.

(* ================= C. merging along a path ================= *)

(* ---- ranges of a tiled path ---- *)
Lemma Forall2_firstn {A B} (R : A -> B -> Prop) : forall k l l',
  Forall2 R l l' -> Forall2 R (firstn k l) (firstn k l').
Proof.
  induction k as [|k IH]; intros l l' H; [constructor|].
  destruct H; cbn [firstn]; constructor; auto.
Qed.

Lemma Forall2_skipn {A B} (R : A -> B -> Prop) : forall k l l',
  Forall2 R l l' -> Forall2 R (skipn k l) (skipn k l').
Proof.
  induction k as [|k IH]; intros l l' H; [exact H|].
  destruct H; cbn [skipn]; [constructor|auto].
Qed.

Lemma Forall2_range {A B} (R : A -> B -> Prop) l l' ji :
  Forall2 R l l' -> Forall2 R (range l ji) (range l' ji).
Proof. intros H. unfold range. apply Forall2_firstn, Forall2_skipn, H. Qed.

Lemma Forall2_cons_inv {A B} (R : A -> B -> Prop) x y l l' :
  Forall2 R (x :: l) (y :: l') -> R x y /\ Forall2 R l l'.
Proof. intros H. inversion H; subst. split; assumption. Qed.

Lemma Forall2_len {A B} (R : A -> B -> Prop) l l' : Forall2 R l l' -> length l = length l'.
Proof. induction 1; cbn; congruence. Qed.

Lemma range_facts {A} (l : list A) j i d : (j <= i < length l)%nat ->
  range l (j, i) <> [] /\ length (range l (j, i)) = (S i - j)%nat /\
  hd d (range l (j, i)) = nth j l d /\ last (range l (j, i)) d = nth i l d.
Proof.
  intros H. unfold range. cbn [fst snd].
  replace (S i - j)%nat with (S (i - j)) by lia.
  assert (L : length (firstn (S (i - j)) (skipn j l)) = S (i - j)).
  { rewrite firstn_length, skipn_length. lia. }
  repeat split.
  - intros E. rewrite E in L. discriminate.
  - exact L.
  - rewrite hd_firstn, hd_skipn. reflexivity.
  - rewrite last_firstn by (rewrite skipn_length; lia). rewrite nth_skipn'. f_equal. lia.
Qed.

Lemma range_split {A} (l : list A) j i : (j <= i)%nat ->
  range l (j, i) ++ skipn (S i) l = skipn j l.
Proof.
  intros H. unfold range. cbn [fst snd].
  replace (skipn (S i) l) with (skipn (S i - j) (skipn j l)).
  - apply firstn_skipn.
  - rewrite skipn_skipn'. f_equal. lia.
Qed.

Lemma tiles_inv start n j i t : tiles start n ((j, i) :: t) = true ->
  j = start /\ (j <= i < n)%nat /\ tiles (S i) n t = true.
Proof.
  cbn [tiles]. intros H.
  apply andb_true_iff in H. destruct H as [H H4].
  apply andb_true_iff in H. destruct H as [H H3].
  apply andb_true_iff in H. destruct H as [H1 H2].
  apply Nat.eqb_eq in H1. apply Nat.leb_le in H2. apply Nat.ltb_lt in H3. repeat split; try lia.
  exact H4.
Qed.

Lemma tiles_concat {A} (l : list A) : forall path start,
  tiles start (length l) path = true -> concat (map (range l) path) = skipn start l.
Proof.
  induction path as [|[j i] t IH]; intros start H.
  - cbn in H. apply Nat.eqb_eq in H. subst. rewrite skipn_all. reflexivity.
  - apply tiles_inv in H. destruct H as (-> & Hji & H). cbn [map concat].
    rewrite (IH _ H). apply range_split. lia.
Qed.

(* ---- merge_members on covered slices ---- *)
Lemma sum_counts ms ss : covers ms ss -> sumN (map w_count ms) = Nlen (concat ss).
Proof.
  induction 1 as [|w s ms ss (_ & Hc & _) H IH]; [reflexivity|].
  cbn [map sumN fold_right concat]. fold (sumN (map w_count ms)).
  rewrite IH, Hc. unfold Nlen. rewrite app_length. lia.
Qed.

Lemma concat_nonempty ms ss : covers ms ss -> ms <> [] -> concat ss <> [].
Proof.
  intros H Hne. destruct H as [|w s ms ss (Hs & _) H]; [congruence|].
  cbn [concat]. destruct s; [congruence|discriminate].
Qed.

Lemma lower_hd ms ss dflt : covers ms ss -> ms <> [] ->
  w_lower (hd dflt ms) = hd 0 (concat ss).
Proof.
  intros H Hne. destruct H as [|w s ms ss (Hs & _ & Hl & _) H]; [congruence|].
  cbn [hd concat]. rewrite hd_app by exact Hs. exact Hl.
Qed.

Lemma upper_last ms ss dflt : covers ms ss -> ms <> [] ->
  w_upper (last ms dflt) = last (concat ss) 0.
Proof.
  induction 1 as [|w s ms ss (Hs & _ & _ & Hu) H IH]; intros Hne; [congruence|].
  destruct H as [|w' s' ms' ss' C' H'].
  - cbn [last concat]. rewrite app_nil_r. exact Hu.
  - rewrite last_cons by discriminate. cbn [concat] in *.
    rewrite last_app.
    + apply IH. discriminate.
    + destruct C' as (Hs' & _). destruct s'; [congruence|discriminate].
Qed.

Lemma merge_covers fg ms ss : covers ms ss -> ms <> [] ->
  covers1 (merge_members fg ms) (concat ss).
Proof.
  intros H Hne. unfold covers1, merge_members. cbn [w_count w_lower w_upper].
  repeat split.
  - apply (concat_nonempty ms ss H Hne).
  - apply sum_counts, H.
  - apply lower_hd; assumption.
  - apply upper_last; assumption.
Qed.

(* ---- the folded gcd ---- *)
Definition accN (o : option N) : N := match o with Some g => g | None => 0 end.

Lemma fold_left_gcd_spec ll lu lg ru acc :
  ll <= lu -> lu <= ru -> acc <> Some 0 -> (lu <> ll -> 0 < lg) ->
  fold_left_gcd ll lu lg ru acc <> Some 0 /\
  accN (fold_left_gcd ll lu lg ru acc)
  = N.gcd (ru - lu) (N.gcd (if lu =? ll then 0 else lg) (accN acc)).
Proof.
  intros H1 H2 Hacc Hlg. unfold fold_left_gcd.
  set (acc1 := if negb (lu =? ru) then _ else acc).
  assert (A1 : acc1 <> Some 0 /\ accN acc1 = N.gcd (ru - lu) (accN acc)).
  { unfold acc1. destruct (N.eqb_spec lu ru) as [E|E]; cbn [negb].
    - subst. rewrite N.sub_diag, N.gcd_0_l. split; [exact Hacc|reflexivity].
    - destruct acc as [g|]; cbn [accN].
      + assert (0 < g) by (destruct (N.eq_dec g 0); [subst; congruence|lia]).
        rewrite pgcd_spec by assumption. split; [|reflexivity].
        intros Z. injection Z as Z. apply N.gcd_eq_0 in Z. lia.
      + rewrite N.gcd_0_r. split; [|reflexivity]. intros Z. injection Z as Z. lia. }
  clearbody acc1. destruct A1 as [A1 A2].
  rewrite (N.gcd_comm (ru - lu)), <- N.gcd_assoc, (N.gcd_comm (accN acc)), <- A2.
  destruct (N.eqb_spec lu ll) as [E|E]; cbn [negb].
  - rewrite N.gcd_0_l. split; [exact A1|reflexivity].
  - specialize (Hlg E). destruct acc1 as [g|]; cbn [accN].
    + assert (0 < g) by (destruct (N.eq_dec g 0); [subst; congruence|lia]).
      rewrite pgcd_spec by assumption. split; [|reflexivity].
      intros Z. injection Z as Z. apply N.gcd_eq_0 in Z. lia.
    + rewrite N.gcd_0_r. split; [|reflexivity]. intros Z. injection Z as Z. lia.
Qed.

(* all members lie between the first and the last *)
Definition bounded (s : list N) : Prop := forall x, In x s -> hd 0 s <= x <= last s 0.

Lemma ss_app l1 l2 : StronglySorted N.le (l1 ++ l2) ->
  StronglySorted N.le l1 /\ StronglySorted N.le l2 /\
  (forall x y, In x l1 -> In y l2 -> x <= y).
Proof.
  induction l1 as [|a l1 IH]; cbn [app]; intros H.
  - repeat split; [constructor|exact H|intros x y []].
  - inversion H as [|? ? SS Hall]; subst. destruct (IH SS) as (S1 & S2 & Hxy).
    rewrite Forall_forall in Hall. repeat split.
    + constructor; [exact S1|]. rewrite Forall_forall. intros x Hx. apply Hall, in_or_app. left. exact Hx.
    + exact S2.
    + intros x y [<-|Hx] Hy; [apply Hall, in_or_app; right; exact Hy|apply Hxy; assumption].
Qed.

Lemma ss_bounded s : StronglySorted N.le s -> bounded s.
Proof.
  intros SS x Hx. destruct (In_nth _ _ 0 Hx) as (k & Hk & <-).
  destruct s as [|a t]; [cbn in Hk; lia|].
  assert (Hl : last (a :: t) 0 = nth (length t) (a :: t) 0).
  { rewrite <- (last_firstn (length t) (a :: t) 0) by (cbn; lia).
    rewrite firstn_all2 by (cbn; lia). reflexivity. }
  rewrite Hl. change (hd 0 (a :: t)) with (nth 0 (a :: t) 0). cbn [length] in Hk.
  split; apply ss_nth; try exact SS; cbn [length]; lia.
Qed.

(* distances from a bound U above the slice vs. distances from the slice's own lower *)
Lemma lgcd_from_above s U : s <> [] -> bounded s -> last s 0 <= U ->
  lgcd (map (fun x => U - x) s) = N.gcd (U - last s 0) (lgcd (dists s)).
Proof.
  intros Hne Hb HU.
  change (N.gcd (U - last s 0) (lgcd (dists s))) with (lgcd ((U - last s 0) :: dists s)).
  pose proof (last_In s 0 Hne) as Hlast.
  assert (Hhd : In (hd 0 s) s) by (destruct s; [congruence|left; reflexivity]).
  apply lgcd_ext. intros d. rewrite !Forall_forall. unfold dists. split.
  - intros H y Hy. destruct Hy as [<-|Hy].
    + apply H, in_map_iff. exists (last s 0). split; [reflexivity|exact Hlast].
    + apply in_map_iff in Hy. destruct Hy as (x & <- & Hx).
      replace (x - hd 0 s) with ((U - hd 0 s) - (U - x)).
      * apply N.divide_sub_r; apply H, in_map_iff; eexists; split; try reflexivity; assumption.
      * pose proof (Hb x Hx). lia.
  - intros H y Hy. apply in_map_iff in Hy. destruct Hy as (x & <- & Hx).
    replace (U - x) with ((U - last s 0) + ((last s 0 - hd 0 s) - (x - hd 0 s)))
      by (pose proof (Hb x Hx); lia).
    apply N.divide_add_r; [apply H; left; reflexivity|].
    apply N.divide_sub_r; apply H; right; apply in_map_iff; eexists; split; try reflexivity;
      assumption.
Qed.

(* what fold_prefix_gcds_left sees of one raw prefix with an exact gcd *)
Lemma raw_gcd_or_zero s : s <> [] -> bounded s ->
  (if last s 0 =? hd 0 s then 0 else gcd_sorted s) = lgcd (dists s).
Proof.
  intros Hne Hb.
  assert (Hle : hd 0 s <= last s 0) by (apply (Hb (last s 0)), last_In, Hne).
  rewrite gcd_sorted_spec by assumption. rewrite (N.eqb_sym (hd 0 s)).
  destruct (N.eqb_spec (last s 0) (hd 0 s)) as [E|E]; [|reflexivity].
  apply eq_sym, lgcd_zero. unfold dists. rewrite Forall_forall. intros y Hy.
  apply in_map_iff in Hy. destruct Hy as (x & <- & Hx). pose proof (Hb x Hx). lia.
Qed.

Definition gcd_exact (w : wpref) (s : list N) : Prop := w_gcd w = gcd_sorted s.

(* invariant of the right-to-left fold: the accumulator is the gcd of the distances of all
   members seen so far from the merged upper bound *)
Lemma fold_acc_spec U : forall ms ss,
  covers ms ss -> Forall2 gcd_exact ms ss ->
  Forall (fun s => bounded s /\ last s 0 <= U) ss ->
  let acc := fold_right (fun p acc => fold_left_gcd (w_lower p) (w_upper p) (w_gcd p) U acc)
                        None ms in
  acc <> Some 0 /\ accN acc = lgcd (map (fun x => U - x) (concat ss)).
Proof.
  induction ms as [|w ms IH]; intros ss Hc Hg Hb.
  - inversion Hc; subst. cbn. split; [discriminate|reflexivity].
  - destruct ss as [|s ss]; [inversion Hc|].
    apply Forall2_cons_inv in Hc. destruct Hc as [Hc1 Hc].
    apply Forall2_cons_inv in Hg. destruct Hg as [Hgx Hg].
    apply Forall_cons_iff in Hb. destruct Hb as [[Hbd HU] Hb].
    unfold gcd_exact in Hgx. destruct Hc1 as (Hne & _ & Hl & Hu).
    cbn [fold_right].
    destruct (IH ss Hc Hg Hb) as (A1 & A2).
    assert (Hle : hd 0 s <= last s 0) by (apply (Hbd (last s 0)), last_In, Hne).
    destruct (fold_left_gcd_spec (w_lower w) (w_upper w) (w_gcd w) U _
                ltac:(lia) ltac:(lia) A1) as (B1 & B2).
    { intros _. rewrite Hgx. apply gcd_sorted_pos; assumption. }
    split; [exact B1|]. rewrite B2, A2. cbn [concat]. rewrite map_app, lgcd_app.
    rewrite (lgcd_from_above s U Hne Hbd HU), <- (raw_gcd_or_zero s Hne Hbd).
    rewrite Hl, Hu, Hgx, N.gcd_assoc. reflexivity.
Qed.

(* the gcd of a merged range is the gcd of its whole slice *)
Lemma merge_gcd_exact ms ss : covers ms ss -> Forall2 gcd_exact ms ss -> ms <> [] ->
  StronglySorted N.le (concat ss) ->
  w_gcd (merge_members true ms) = gcd_sorted (concat ss).
Proof.
  intros Hc Hg Hne SS.
  pose proof (concat_nonempty _ _ Hc Hne) as HSne.
  pose proof (ss_bounded _ SS) as HSb.
  set (S := concat ss) in *.
  assert (Hle : hd 0 S <= last S 0) by (apply (HSb (last S 0)), last_In, HSne).
  unfold merge_members. cbn [w_gcd w_upper].
  rewrite (upper_last ms ss _ Hc Hne). fold S.
  assert (Hb : Forall (fun s => bounded s /\ last s 0 <= last S 0) ss).
  { clear - SS Hc. unfold S in *. clear S. revert SS.
    induction Hc as [|w s ms ss (Hs & _) H IH]; intros SS; [constructor|].
    cbn [concat] in *. destruct (ss_app _ _ SS) as (S1 & S2 & Hxy).
    assert (Bs : bounded s) by (apply ss_bounded, S1).
    destruct H as [|w' s' ms' ss' C' H'].
    - constructor; [|constructor]. cbn [concat]. rewrite app_nil_r. split; [exact Bs|lia].
    - assert (Hne2 : concat (s' :: ss') <> []).
      { destruct C' as (Hs' & _). cbn [concat]. destruct s'; [congruence|discriminate]. }
      rewrite last_app by exact Hne2.
      constructor.
      + split; [exact Bs|]. apply Hxy; apply last_In; assumption.
      + apply IH. exact S2. }
  destruct (fold_acc_spec (last S 0) ms ss Hc Hg Hb) as (A1 & A2). cbn zeta in A1, A2.
  fold S in A2. rewrite (lgcd_from_above S (last S 0) HSne HSb (N.le_refl _)) in A2.
  rewrite N.sub_diag, N.gcd_0_l in A2.
  rewrite gcd_sorted_spec by assumption.
  set (acc := fold_right _ None ms) in *. clearbody acc.
  destruct (N.eqb_spec (hd 0 S) (last S 0)) as [E|E].
  - assert (Z : lgcd (dists S) = 0).
    { apply lgcd_zero. unfold dists. rewrite Forall_forall. intros y Hy.
      apply in_map_iff in Hy. destruct Hy as (x & <- & Hx). pose proof (HSb x Hx). lia. }
    rewrite Z in A2. destruct acc as [g|]; [|reflexivity]. cbn in A2. congruence.
  - destruct acc as [g|]; [exact A2|]. cbn [accN] in A2. exfalso.
    apply eq_sym, lgcd_zero in A2. rewrite Forall_forall in A2.
    assert (last S 0 - hd 0 S = 0).
    { apply A2. unfold dists. apply in_map_iff. exists (last S 0). split; [reflexivity|].
      apply last_In, HSne. }
    lia.
Qed.

(* ---- along a tiled path ---- *)
Lemma in_firstn' {A} : forall k (l : list A) x, In x (firstn k l) -> In x l.
Proof.
  induction k as [|k IH]; intros [|y t] x H; cbn [firstn] in H; try contradiction.
  destruct H as [<-|H]; [left; reflexivity|right; apply IH, H].
Qed.
Lemma in_skipn' {A} : forall k (l : list A) x, In x (skipn k l) -> In x l.
Proof.
  induction k as [|k IH]; intros [|y t] x H; cbn [skipn] in H; try contradiction; try exact H.
  right. apply IH, H.
Qed.
Lemma in_range {A} (l : list A) ji x : In x (range l ji) -> In x l.
Proof. unfold range. intros H. eapply in_skipn', in_firstn', H. Qed.

Lemma range_decomp {A} (l : list A) j i : (j <= i)%nat ->
  l = firstn j l ++ range l (j, i) ++ skipn (S i) l.
Proof. intros H. rewrite range_split by exact H. apply eq_sym, firstn_skipn. Qed.

Lemma ss_range sl j i : (j <= i)%nat -> StronglySorted N.le (concat sl) ->
  StronglySorted N.le (concat (range sl (j, i))).
Proof.
  intros H SS. rewrite (range_decomp sl j i H), !concat_app in SS.
  apply ss_app in SS. destruct SS as (_ & SS & _). apply ss_app in SS. apply SS.
Qed.

Lemma path_Forall2 (P : wpref -> list N -> Prop) fg raws sl n :
  (forall j i, (j <= i < n)%nat ->
               P (merge_members fg (range raws (j, i))) (concat (range sl (j, i)))) ->
  forall path start, tiles start n path = true ->
  Forall2 P (apply_path fg raws path) (map (@concat N) (map (range sl) path)).
Proof.
  intros HP. induction path as [|[j i] t IH]; intros start H; [constructor|].
  apply tiles_inv in H. destruct H as (-> & Hji & H). cbn [apply_path map].
  constructor; [apply HP, Hji|apply (IH _ H)].
Qed.

Lemma hd_concat (ss : list (list N)) d : Forall (fun s => s <> []) ss ->
  hd d (concat ss) = hd d (hd [] ss).
Proof.
  intros H. destruct H as [|s ss Hs H]; [reflexivity|]. cbn [concat hd]. apply hd_app, Hs.
Qed.

Lemma last_concat (ss : list (list N)) d : Forall (fun s => s <> []) ss -> ss <> [] ->
  last (concat ss) d = last (last ss []) d.
Proof.
  induction 1 as [|s ss Hs H IH]; intros Hne; [congruence|].
  destruct ss as [|s' ss'].
  - cbn [concat last]. rewrite app_nil_r. reflexivity.
  - rewrite last_cons by discriminate. cbn [concat] in *. rewrite last_app.
    + apply IH. discriminate.
    + inversion H; subst. destruct s'; [congruence|discriminate].
Qed.

Lemma separated_nth : forall sl, separated sl -> forall m, (S m < length sl)%nat ->
  last (nth m sl []) 0 < hd 0 (nth (S m) sl []).
Proof.
  induction sl as [|s [|s' t] IH]; intros H m Hm; cbn [length] in Hm; try lia.
  destruct H as [H1 H2]. destruct m as [|m]; [exact H1|].
  change (nth (S m) (s :: s' :: t) []) with (nth m (s' :: t) []).
  change (nth (S (S m)) (s :: s' :: t) []) with (nth (S m) (s' :: t) []).
  apply IH; [exact H2|cbn [length]; lia].
Qed.

Lemma separated_path sl : Forall (fun s => s <> []) sl -> separated sl ->
  forall path start, tiles start (length sl) path = true ->
  separated (map (@concat N) (map (range sl) path)).
Proof.
  intros Hne Hsep. induction path as [|[j i] t IH]; intros start H; [exact I|].
  apply tiles_inv in H. destruct H as (-> & Hji & H).
  destruct t as [|[j' i'] t']; [exact I|].
  cbn [map separated]. split; [|apply (IH _ H)].
  apply tiles_inv in H. destruct H as (-> & Hji' & _).
  assert (F : forall ji, Forall (fun s : list N => s <> []) (range sl ji)).
  { intros ji. rewrite Forall_forall in *. intros x Hx. apply Hne, (in_range _ _ _ Hx). }
  destruct (range_facts sl start i [] Hji) as (R1 & _ & _ & R4).
  destruct (range_facts sl (S i) i' [] Hji') as (_ & _ & R3' & _).
  rewrite last_concat by (try apply F; exact R1). rewrite hd_concat by apply F.
  rewrite R4, R3'. apply separated_nth; [exact Hsep|lia].
Qed.

Lemma concat_concat {A} (L : list (list (list A))) :
  concat (map (@concat A) L) = concat (concat L).
Proof.
  induction L as [|a l IH]; [reflexivity|]. cbn [map concat]. rewrite concat_app, IH. reflexivity.
Qed.

Lemma covers_nonempty ws sl : covers ws sl -> Forall (fun s => s <> []) sl.
Proof. induction 1 as [|w s ws sl (Hs & _) H IH]; constructor; assumption. Qed.

(* Theorem C.  [raws] are prefixes describing the consecutive slices [sl] of a sorted list
   (as delivered by Theorem B); [path] tiles them. *)
Theorem apply_path_partition (fg use_gcd : bool) raws sl path :
  covers raws sl ->
  Forall2 (fun w s => w_gcd w = if use_gcd then gcd_sorted s else 1) raws sl ->
  Sorted N.le (concat sl) ->
  tiles 0 (length raws) path = true ->
  let merged := apply_path fg raws path in
  let sl' := map (@concat N) (map (range sl) path) in
  concat sl' = concat sl /\
  covers merged sl' /\
  (separated sl -> separated sl') /\
  (fg = true -> use_gcd = true -> Forall2 gcd_exact merged sl') /\
  (fg = false -> Forall (fun w => w_gcd w = 1) merged) /\
  ((fg = true -> use_gcd = true) ->
   Forall2 (fun w s => forall x, In x s -> (x - w_lower w) mod w_gcd w = 0) merged sl').
Proof.
  intros Hc Hg Hsorted Ht merged sl'.
  pose proof (Sorted_StronglySorted N.le_trans Hsorted) as SS.
  pose proof (Forall2_len _ _ _ Hc) as Hlen.
  assert (Hcov : forall j i, (j <= i < length raws)%nat ->
             covers1 (merge_members fg (range raws (j, i))) (concat (range sl (j, i)))).
  { intros j i Hji. apply merge_covers; [apply Forall2_range, Hc|].
    apply (range_facts raws j i (mkW 0 0 0 0 None 1) Hji). }
  assert (Hex : fg = true -> use_gcd = true -> forall j i, (j <= i < length raws)%nat ->
             gcd_exact (merge_members fg (range raws (j, i))) (concat (range sl (j, i)))).
  { intros -> -> j i Hji. unfold gcd_exact. apply merge_gcd_exact.
    - apply Forall2_range, Hc.
    - apply Forall2_range, Hg.
    - apply (range_facts raws j i (mkW 0 0 0 0 None 1) Hji).
    - apply ss_range; [lia|exact SS]. }
  split; [|split; [|split; [|split; [|split]]]].
  - unfold sl'. rewrite concat_concat. rewrite Hlen in Ht.
    rewrite (tiles_concat sl path 0 Ht). reflexivity.
  - apply (path_Forall2 covers1 fg raws sl (length raws) Hcov path 0 Ht).
  - intros Hsep. rewrite Hlen in Ht.
    apply (separated_path sl (covers_nonempty _ _ Hc) Hsep path 0 Ht).
  - intros Hfg Hug.
    apply (path_Forall2 gcd_exact fg raws sl (length raws) (Hex Hfg Hug) path 0 Ht).
  - intros ->. unfold merged, apply_path. rewrite Forall_forall. intros w Hw.
    apply in_map_iff in Hw. destruct Hw as (ji & <- & _). reflexivity.
  - intros Himp.
    refine (path_Forall2 (fun w s => forall x, In x s -> (x - w_lower w) mod w_gcd w = 0)
                        fg raws sl (length raws) _ path 0 Ht).
    intros j i Hji x Hx. destruct fg.
    + pose proof (Hex eq_refl (Himp eq_refl) j i Hji) as G. unfold gcd_exact in G.
      destruct (Hcov j i Hji) as (Hne & _ & Hl & _).
      pose proof (ss_bounded _ (ss_range sl j i ltac:(lia) SS)) as Hb.
      rewrite G, Hl. apply gcd_sorted_divides; [exact Hne| |exact Hx].
      apply (Hb (last (concat (range sl (j, i))) 0)), last_In, Hne.
    + cbn [merge_members w_gcd]. apply N.mod_1_r.
Qed.

(* ================= E. vanishing deltas: all values equal ================= *)
Lemma u_loop_same n maxp prev : forall l st j, u_i st = u_backup st ->
  Forall (fun x => x = prev) l -> u_loop n maxp st j prev l = st.
Proof.
  induction l as [|x t IH]; intros st j E H; [reflexivity|].
  inversion H; subst. cbn [u_loop]. rewrite N.eqb_refl.
  unfold u_step at 1. rewrite E, N.ltb_irrefl, andb_false_r. apply IH; assumption.
Qed.

Lemma unopt_cuts_const v t maxp : Forall (fun x => x = v) t ->
  1 <= maxp <= Nlen (v :: t) -> unopt_cuts (v :: t) maxp = [(0, Nlen (v :: t))].
Proof.
  intros H Hm. unfold unopt_cuts. set (n := Nlen (v :: t)) in *.
  assert (St0 : u_step n maxp u_init 0 false = u_init).
  { unfold u_step, u_target, u_init. cbn [u_pidx u_i u_backup u_cuts].
    destruct (N.leb_spec ((0 + 1) * n / maxp) 0) as [C|C]; [|reflexivity].
    exfalso. assert (1 <= (0 + 1) * n / maxp) by (apply N.div_le_lower_bound; lia). lia. }
  rewrite St0, u_loop_same by (try exact H; reflexivity). reflexivity.
Qed.

Lemma const_nth v : forall l k, Forall (fun x => x = v) l -> (k < length l)%nat -> nth k l 0 = v.
Proof.
  induction l as [|x t IH]; intros k H Hk; cbn [length] in Hk; [lia|].
  inversion H; subst. destruct k; [reflexivity|]. cbn [nth]. apply IH; [assumption|lia].
Qed.

Lemma const_last v : forall l, Forall (fun x => x = v) l -> l <> [] -> last l 0 = v.
Proof.
  intros l H Hne. pose proof (last_In l 0 Hne) as Hin. rewrite Forall_forall in H. apply H, Hin.
Qed.

Theorem choose_unoptimized_const v t maxp use_gcd (rl : rl_oracle) :
  let sorted := v :: t in let n := Nlen sorted in
  Forall (fun x => x = v) t -> 1 <= maxp <= n ->
  rl n n = None ->                         (* the `count == n_unsigneds` test *)
  choose_unoptimized sorted maxp use_gcd rl = [mkW n n v v None 1].
Proof.
  intros sorted n H Hm Hrl. unfold choose_unoptimized. fold sorted. fold n.
  unfold sorted at 2. rewrite (unopt_cuts_const v t maxp H Hm). fold sorted. fold n.
  cbn [map fst snd]. unfold push_pref. rewrite N.sub_0_r, Hrl.
  assert (Hall : Forall (fun x => x = v) sorted) by (constructor; [reflexivity|exact H]).
  assert (E1 : nthN sorted 0 = v) by reflexivity.
  assert (E2 : nthN sorted (n - 1) = v).
  { unfold nthN. apply const_nth; [exact Hall|]. unfold n, Nlen in *. lia. }
  assert (E3 : slice 0 n sorted = sorted).
  { unfold slice. rewrite N.sub_0_r. cbn [N.to_nat skipn]. unfold n, Nlen.
    rewrite Nat2N.id. apply firstn_all. }
  rewrite E1, E2, E3. f_equal. destruct use_gcd; [|reflexivity].
  unfold gcd_sorted, sorted.
  rewrite (last_indep (v :: t) v 0) by discriminate.
  rewrite (const_last v (v :: t) Hall) by discriminate. rewrite N.eqb_refl. reflexivity.
Qed.

Lemma tiles_single path : tiles 0 1 path = true -> path = [(0, 0)]%nat.
Proof.
  destruct path as [|[j i] t]; [discriminate|]. intros H.
  apply tiles_inv in H. destruct H as (-> & Hji & H).
  assert (i = O) by lia. subst. destruct t as [|[j' i'] t']; [reflexivity|].
  apply tiles_inv in H. lia.
Qed.

Lemma apply_path_single fg c w v : 
  apply_path fg [mkW c w v v None 1] [(0, 0)]%nat = [mkW c w v v None 1].
Proof.
  unfold apply_path, range, merge_members. cbn [map fst snd Nat.sub skipn firstn hd last
    w_count w_weight w_lower w_upper w_jump w_gcd sumN fold_right].
  rewrite !N.add_0_r. destruct fg; [|reflexivity].
  unfold fold_left_gcd. rewrite N.eqb_refl. reflexivity.
Qed.

Lemma hstep_single x m : hstep [x] m = [x].
Proof.
  unfold hstep, pop. destruct m as [[|a] b]; cbn [fst snd nth_error].
  - destruct x as [w0 t0]. cbn [firstn skipn app]. destruct b; reflexivity.
  - destruct a; reflexivity.
Qed.

Lemma huffman_single w merges : huffman [w] merges = [[]].
Proof.
  unfold huffman, hrun, hinit. cbn [length seq map combine].
  induction merges as [|m t IH]; [reflexivity|]. cbn [fold_left]. rewrite hstep_single. exact IH.
Qed.

(* the whole table for constant data, for every oracle *)
Theorem train_table_const v t maxp use_gcd (rl : rl_oracle) fg path merges :
  let sorted := v :: t in let n := Nlen sorted in
  Forall (fun x => x = v) t -> 1 <= maxp <= n -> rl n n = None ->
  valid_path (choose_unoptimized sorted maxp use_gcd rl) path = true ->
  train_table sorted maxp use_gcd rl fg path merges = [mkPrefix n v v [] None 1].
Proof.
  intros sorted n H Hm Hrl Hv. unfold train_table. fold sorted.
  pose proof (choose_unoptimized_const v t maxp use_gcd rl H Hm Hrl) as E.
  fold sorted n in E. cbv zeta in E. rewrite E in *.
  unfold valid_path in Hv. apply andb_true_iff in Hv. destruct Hv as [Hv _].
  cbn [length] in Hv. apply tiles_single in Hv. subst path.
  rewrite apply_path_single. cbn [map w_weight]. rewrite huffman_single. reflexivity.
Qed.

(* ================= D. Huffman codes from any merge oracle ================= *)
Fixpoint hleaves (t : htree) : list nat :=
  match t with HLeaf k => [k] | HNode l r => hleaves l ++ hleaves r end.
Definition forest_leaves (live : list (N * htree)) : list nat :=
  flat_map (fun x => hleaves (snd x)) live.

Lemma firstn_len_app {A} (l1 l2 : list A) : firstn (length l1) (l1 ++ l2) = l1.
Proof. induction l1 as [|a l1 IH]; [reflexivity|]. cbn [length app firstn]. f_equal. exact IH. Qed.
Lemma skipn_len_app {A} (l1 l2 : list A) y : skipn (S (length l1)) (l1 ++ y :: l2) = l2.
Proof. induction l1 as [|a l1 IH]; [reflexivity|]. cbn [length app]. rewrite skipn_cons. exact IH. Qed.

Lemma pop_spec {A} k (l : list A) x l' : pop k l = Some (x, l') ->
  Permutation (x :: l') l /\ length l = S (length l').
Proof.
  unfold pop. destruct (nth_error l k) as [y|] eqn:E; [|discriminate].
  remember (firstn k l ++ skipn (S k) l) as r eqn:Er.
  intros H. injection H as <- <-.
  destruct (nth_error_split l k E) as (l1 & l2 & -> & Hk). subst k.
  rewrite firstn_len_app, skipn_len_app in Er. subst r. split.
  - apply Permutation_middle.
  - rewrite !app_length. cbn [length]. lia.
Qed.

Lemma pop_some {A} k (l : list A) : (k < length l)%nat -> exists x l', pop k l = Some (x, l').
Proof.
  intros H. unfold pop. destruct (nth_error l k) as [y|] eqn:E.
  - eauto.
  - apply nth_error_None in E. lia.
Qed.

Lemma forest_perm l l' : Permutation l l' -> Permutation (forest_leaves l) (forest_leaves l').
Proof.
  unfold forest_leaves. induction 1; cbn [flat_map].
  - constructor.
  - apply Permutation_app_head. assumption.
  - rewrite !app_assoc. apply Permutation_app_tail, Permutation_app_comm.
  - eapply Permutation_trans; eassumption.
Qed.

Lemma hstep_valid live m : (fst m < length live)%nat -> (S (snd m) < length live)%nat ->
  Permutation (forest_leaves (hstep live m)) (forest_leaves live) /\
  S (length (hstep live m)) = length live.
Proof.
  intros H1 H2. unfold hstep.
  destruct (pop_some (fst m) live H1) as ([w0 t0] & live1 & P1). rewrite P1.
  destruct (pop_spec _ _ _ _ P1) as (Q1 & L1).
  destruct (pop_some (snd m) live1 ltac:(lia)) as ([w1 t1] & live2 & P2). rewrite P2.
  destruct (pop_spec _ _ _ _ P2) as (Q2 & L2). split.
  - eapply Permutation_trans; [|apply forest_perm, Q1].
    eapply Permutation_trans;
      [|apply (forest_perm ((w0, t0) :: (w1, t1) :: live2)); constructor; exact Q2].
    unfold forest_leaves. rewrite flat_map_app. cbn [flat_map snd hleaves].
    rewrite app_nil_r. eapply Permutation_trans; [apply Permutation_app_comm|].
    rewrite <- app_assoc. apply Permutation_refl.
  - rewrite app_length. cbn [length]. lia.
Qed.

Lemma hrun_valid : forall merges live, hvalid live merges = true ->
  Permutation (forest_leaves (fold_left hstep merges live)) (forest_leaves live) /\
  (length (fold_left hstep merges live) + length merges = length live)%nat.
Proof.
  induction merges as [|m t IH]; intros live H; cbn [fold_left hvalid] in *.
  - split; [apply Permutation_refl|cbn [length]; lia].
  - apply andb_true_iff in H. destruct H as [H H3]. apply andb_true_iff in H.
    destruct H as [H1 H2]. apply Nat.ltb_lt in H1. apply Nat.ltb_lt in H2.
    destruct (hstep_valid live m H1 H2) as (P & L). destruct (IH _ H3) as (P' & L'). split.
    + eapply Permutation_trans; eassumption.
    + cbn [length]. lia.
Qed.

Lemma hinit_leaves : forall ws ids, length ws = length ids ->
  forest_leaves (combine ws (map HLeaf ids)) = ids.
Proof.
  induction ws as [|w ws IH]; intros [|i ids] H; try discriminate; [reflexivity|].
  cbn [map combine forest_leaves flat_map snd hleaves app]. f_equal. apply IH.
  cbn [length] in H. lia.
Qed.

Definition code_of (t : htree) (id : nat) : bits :=
  match hcode t id with Some c => c | None => [] end.
Definition has_code (t : htree) (id : nat) : bool :=
  match hcode t id with Some _ => true | None => false end.

Lemma has_code_iff t id : has_code t id = true <-> In id (hleaves t).
Proof.
  unfold has_code. induction t as [k|l IHl r IHr]; cbn [hcode hleaves].
  - destruct (Nat.eqb_spec k id); split; intros H; try reflexivity; try discriminate.
    + left. assumption.
    + destruct H as [H|[]]. congruence.
  - rewrite in_app_iff, <- IHl, <- IHr.
    destruct (hcode l id); [tauto|]. destruct (hcode r id); split; intros H; try reflexivity.
    + right. reflexivity.
    + discriminate.
    + destruct H; discriminate.
Qed.

Lemma hleaves_nonempty t : hleaves t <> [].
Proof.
  induction t as [k|l IHl r IHr]; cbn [hleaves]; [discriminate|].
  destruct (hleaves l); [congruence|discriminate].
Qed.

Lemma tails_false_node l r : forall ids,
  tails_with false (map (code_of (HNode l r)) ids) = map (code_of l) (filter (has_code l) ids).
Proof.
  induction ids as [|id t IH]; [reflexivity|]. cbn [map filter].
  unfold code_of at 1, has_code at 1. cbn [hcode].
  destruct (hcode l id) as [c|] eqn:E.
  - cbn [tails_with Bool.eqb map]. unfold code_of at 2. rewrite E, IH. reflexivity.
  - destruct (hcode r id); cbn [tails_with Bool.eqb]; exact IH.
Qed.

Lemma tails_true_node l r : forall ids,
  tails_with true (map (code_of (HNode l r)) ids)
  = map (code_of r) (filter (fun id => negb (has_code l id) && has_code r id) ids).
Proof.
  induction ids as [|id t IH]; [reflexivity|]. cbn [map filter].
  unfold code_of at 1, has_code at 1 2. cbn [hcode].
  destruct (hcode l id) as [c|] eqn:E; cbn [negb andb].
  - cbn [tails_with Bool.eqb]. exact IH.
  - destruct (hcode r id) as [c|] eqn:E2.
    + cbn [tails_with Bool.eqb map]. unfold code_of at 2. rewrite E2, IH. reflexivity.
    + cbn [tails_with]. exact IH.
Qed.

Lemma tree_ok_step f codes : codes <> [] -> Forall (fun c => c <> []) codes ->
  tree_ok (S f) codes = tree_ok f (tails_with false codes) && tree_ok f (tails_with true codes).
Proof.
  intros Hne Hall.
  assert (E : existsb is_nil codes = false).
  { clear Hne. induction Hall as [|c t Hc H IH]; [reflexivity|].
    cbn [existsb]. rewrite IH. destruct c; [congruence|reflexivity]. }
  destruct codes as [|[|b c] rest]; [congruence|inversion Hall; congruence|].
  cbn [tree_ok]. rewrite E. reflexivity.
Qed.

Lemma NoDup_app_inv {A} (l1 l2 : list A) : NoDup (l1 ++ l2) ->
  NoDup l1 /\ NoDup l2 /\ (forall x, In x l1 -> In x l2 -> False).
Proof.
  induction l1 as [|a l1 IH]; cbn [app]; intros H.
  - repeat split; [constructor|exact H|intros x []].
  - inversion H as [|? ? Hn Hd]; subst. destruct (IH Hd) as (N1 & N2 & Dj). repeat split.
    + constructor; [|exact N1]. intros Hin. apply Hn, in_or_app. left. exact Hin.
    + exact N2.
    + intros x [<-|Hx] Hy; [apply Hn, in_or_app; right; exact Hy|apply (Dj x); assumption].
Qed.

(* the codes of the leaves of one tree, listed in any order, form a complete prefix-free tree *)
Lemma tree_codes_ok : forall t ids fuel,
  NoDup ids -> NoDup (hleaves t) -> (forall id, In id ids <-> In id (hleaves t)) ->
  Forall (fun c => (length c < fuel)%nat) (map (code_of t) ids) ->
  tree_ok fuel (map (code_of t) ids) = true.
Proof.
  induction t as [k|l IHl r IHr]; intros ids fuel Nd Nl Hin Hlen.
  - cbn [hleaves] in Hin.
    assert (ids = [k]).
    { destruct ids as [|a [|b t]].
      - exfalso. apply (proj2 (Hin k)). left. reflexivity.
      - f_equal. destruct (proj1 (Hin a)) as [E|[]]; [left; reflexivity|]. congruence.
      - exfalso. inversion Nd as [|? ? Hn _]; subst. apply Hn.
        destruct (proj1 (Hin a)) as [E|[]]; [left; reflexivity|].
        destruct (proj1 (Hin b)) as [E'|[]]; [right; left; reflexivity|].
        left. congruence. }
    subst. unfold code_of. cbn [map hcode]. rewrite Nat.eqb_refl. destruct fuel; reflexivity.
  - cbn [hleaves] in *. destruct (NoDup_app_inv _ _ Nl) as (Nl1 & Nl2 & Dj).
    assert (Hcons : forall id, In id ids -> exists b c, code_of (HNode l r) id = b :: c).
    { intros id Hid. apply Hin, in_app_iff in Hid. unfold code_of. cbn [hcode].
      destruct Hid as [Hid|Hid]; apply has_code_iff in Hid; unfold has_code in Hid.
      - destruct (hcode l id); [eauto|discriminate].
      - destruct (hcode l id); [eauto|]. destruct (hcode r id); [eauto|discriminate]. }
    assert (Hne : ids <> []).
    { intros ->. pose proof (hleaves_nonempty l) as Hl. destruct (hleaves l) as [|a ?]; [congruence|].
      apply (proj2 (Hin a)). left. reflexivity. }
    assert (Hall : Forall (fun c => c <> []) (map (code_of (HNode l r)) ids)).
    { rewrite Forall_forall. intros c Hc. apply in_map_iff in Hc. destruct Hc as (id & <- & Hid).
      destruct (Hcons id Hid) as (b & c' & ->). discriminate. }
    destruct fuel as [|f].
    { exfalso. destruct ids as [|a ?]; [congruence|]. inversion Hlen; subst. lia. }
    rewrite tree_ok_step; [|destruct ids; [congruence|discriminate]|exact Hall].
    rewrite tails_false_node, tails_true_node.
    rewrite Forall_forall in Hlen.
    rewrite IHl, IHr; try reflexivity.
    + apply NoDup_filter, Nd.
    + exact Nl2.
    + intros id. rewrite filter_In, andb_true_iff, negb_true_iff, Hin, in_app_iff,
        has_code_iff. split.
      * intros (_ & _ & H). exact H.
      * intros H. repeat split; [right; exact H| |exact H].
        destruct (has_code l id) eqn:E; [|reflexivity].
        exfalso. apply has_code_iff in E. apply (Dj id); assumption.
    + rewrite Forall_forall. intros c Hc. apply in_map_iff in Hc. destruct Hc as (id & <- & Hid).
      apply filter_In in Hid. destruct Hid as (Hid & Hf).
      apply andb_true_iff in Hf. destruct Hf as (Hf1 & Hf2). apply negb_true_iff in Hf1.
      assert (L : (length (code_of (HNode l r) id) < S f)%nat)
        by (apply Hlen, in_map_iff; eauto).
      unfold code_of, has_code in *. cbn [hcode] in L.
      destruct (hcode l id); [discriminate|]. destruct (hcode r id); [|discriminate].
      cbn [length] in L. lia.
    + apply NoDup_filter, Nd.
    + exact Nl1.
    + intros id. rewrite filter_In, Hin, in_app_iff, has_code_iff. tauto.
    + rewrite Forall_forall. intros c Hc. apply in_map_iff in Hc. destruct Hc as (id & <- & Hid).
      apply filter_In in Hid. destruct Hid as (Hid & Hf).
      assert (L : (length (code_of (HNode l r) id) < S f)%nat)
        by (apply Hlen, in_map_iff; eauto).
      unfold code_of, has_code in *. cbn [hcode] in L.
      destruct (hcode l id); [|discriminate]. cbn [length] in L. lia.
Qed.

(* Theorem D *)
Theorem huffman_tree_ok weights merges :
  weights <> [] ->
  hvalid (hinit weights) merges = true ->
  S (length merges) = length weights ->
  let codes := huffman weights merges in
  length codes = length weights /\
  forall fuel, Forall (fun c => (length c < fuel)%nat) codes -> tree_ok fuel codes = true.
Proof.
  intros Hne Hv Hlen codes. split.
  - unfold codes, huffman. rewrite map_length, seq_length. reflexivity.
  - intros fuel Hf. unfold codes, huffman, hrun in *.
    destruct (hrun_valid merges (hinit weights) Hv) as (P & L).
    assert (Li : length (hinit weights) = length weights).
    { unfold hinit. rewrite combine_length, map_length, seq_length. lia. }
    assert (Fi : forest_leaves (hinit weights) = seq 0 (length weights)).
    { unfold hinit. apply hinit_leaves. rewrite seq_length. reflexivity. }
    rewrite Fi in P.
    set (live := fold_left hstep merges (hinit weights)) in *. clearbody live.
    destruct live as [|[w t] [|y rest]]; cbn [length] in L; try lia.
    unfold forest_leaves in P. cbn [flat_map snd] in P. rewrite app_nil_r in P.
    assert (E : forall ids, map (fcode [(w, t)]) ids = map (code_of t) ids).
    { intros ids. apply map_ext. intros id. unfold code_of. cbn [fcode].
      destruct (hcode t id); reflexivity. }
    rewrite E in *. apply tree_codes_ok.
    + apply seq_NoDup.
    + apply (Permutation_NoDup (Permutation_sym P)), seq_NoDup.
    + intros id. split; intros H.
      * apply (Permutation_in _ (Permutation_sym P) H).
      * apply (Permutation_in _ P H).
    + exact Hf.
Qed.

Lemma assign_codes_codes : forall ws codes, length ws = length codes ->
  map p_code (assign_codes ws codes) = codes.
Proof.
  induction ws as [|w ws IH]; intros [|c cs] H; try discriminate; [reflexivity|].
  cbn [assign_codes map hd tl to_prefix p_code]. f_equal. apply IH. cbn [length] in H. lia.
Qed.

Lemma max_code_len_ge ps : Forall (fun c => (length c < S (max_code_len ps))%nat) (map p_code ps).
Proof.
  induction ps as [|p t IH]; [constructor|]. cbn [map max_code_len fold_right].
  fold (max_code_len t). constructor; [lia|].
  rewrite Forall_forall in *. intros c Hc. specialize (IH c Hc). lia.
Qed.

(* the table built from any admissible merge oracle passes the reader's validation *)
Corollary huffman_table_ok ws merges :
  ws <> [] ->
  hvalid (hinit (map w_weight ws)) merges = true ->
  S (length merges) = length ws ->
  table_ok (assign_codes ws (huffman (map w_weight ws) merges)) = true.
Proof.
  intros Hne Hv Hlen.
  destruct (huffman_tree_ok (map w_weight ws) merges) as (L & T).
  - destruct ws; [congruence|discriminate].
  - exact Hv.
  - rewrite map_length. exact Hlen.
  - rewrite map_length in L. cbv zeta in *.
    set (codes := huffman (map w_weight ws) merges) in *.
    unfold table_ok. destruct (assign_codes ws codes) as [|p ps] eqn:E.
    + destruct ws; [congruence|discriminate].
    + rewrite <- E. pose proof (max_code_len_ge (assign_codes ws codes)) as M.
      rewrite assign_codes_codes in * by congruence. apply T, M.
Qed.

(* ================= the whole of train_prefixes ================= *)
Lemma choose_max_n_prefixes_bounds level n : 1 <= n ->
  1 <= choose_max_n_prefixes level n <= n.
Proof.
  intros Hn. unfold choose_max_n_prefixes.
  set (r := level - _). clearbody r. pose proof (N.pow_nonzero 2 r ltac:(lia)). lia.
Qed.

Lemma use_gcd_prefix_optimize_flag use_gcds ps :
  use_gcd_prefix_optimize use_gcds ps = true -> use_gcds = true.
Proof. unfold use_gcd_prefix_optimize. destruct use_gcds; [reflexivity|discriminate]. Qed.

(* table entry p describes the non-empty slice s of the sorted data *)
Definition describes (p : prefix) (s : list N) : Prop :=
  s <> [] /\ p_count p = Nlen s /\ p_lower p = hd 0 s /\ p_upper p = last s 0 /\
  (forall x, In x s -> contains p x = true /\ (x - p_lower p) mod p_gcd p = 0).

Lemma assign_codes_Forall2 (R : wpref -> list N -> Prop) (R' : prefix -> list N -> Prop) :
  (forall w s c, R w s -> R' (to_prefix w c) s) ->
  forall ws sl codes, Forall2 R ws sl -> Forall2 R' (assign_codes ws codes) sl.
Proof.
  intros HR. induction ws as [|w ws IH]; intros sl codes H; inversion H; subst;
    cbn [assign_codes]; constructor; auto.
Qed.

Lemma Forall2_and {A B} (R1 R2 : A -> B -> Prop) l l' :
  Forall2 R1 l l' -> Forall2 R2 l l' -> Forall2 (fun a b => R1 a b /\ R2 a b) l l'.
Proof.
  intros H. induction H; intros H2; inversion H2; subst; constructor; auto.
Qed.

Lemma Forall2_In_r {A B} (R : A -> B -> Prop) l l' b :
  Forall2 R l l' -> In b l' -> exists a, In a l /\ R a b.
Proof.
  induction 1 as [|a0 b0 l l' H0 H IH]; intros Hin; [contradiction|].
  destruct Hin as [<-|Hin].
  - exists a0. split; [left; reflexivity|exact H0].
  - destruct (IH Hin) as (a & Ha & HR). exists a. split; [right; exact Ha|exact HR].
Qed.

Lemma Forall2_Forall_r {A B} (R : A -> B -> Prop) (P : B -> Prop) l l' :
  Forall2 R l l' -> Forall P l' -> Forall2 (fun a b => R a b /\ P b) l l'.
Proof.
  intros H. induction H; intros H2; inversion H2; subst; constructor; auto.
Qed.

Lemma ss_concat_bounded : forall L, StronglySorted N.le (concat L) -> Forall bounded L.
Proof.
  induction L as [|s L IH]; intros SS; [constructor|]. cbn [concat] in SS.
  destruct (ss_app _ _ SS) as (S1 & S2 & _). constructor; [apply ss_bounded, S1|apply IH, S2].
Qed.

Theorem train_table_spec sorted maxp (use_gcd : bool) (rl : rl_oracle) (fg : bool) path merges :
  Sorted N.le sorted ->
  1 <= maxp <= Nlen sorted ->
  (fg = true -> use_gcd = true) ->
  let raws := choose_unoptimized sorted maxp use_gcd rl in
  tiles 0 (length raws) path = true ->
  hvalid (hinit (map w_weight (apply_path fg raws path))) merges = true ->
  S (length merges) = length path ->
  let table := train_table sorted maxp use_gcd rl fg path merges in
  table_ok table = true /\
  (exists sl, concat sl = sorted /\ Forall2 describes table sl /\ separated sl) /\
  (forall x, In x sorted -> exists p, In p table /\ contains p x = true /\
                                      (x - p_lower p) mod p_gcd p = 0).
Proof.
  intros Hs Hm Himp raws Ht Hv Hl table.
  destruct (choose_unoptimized_partition sorted maxp use_gcd rl Hm)
    as (_ & _ & Hcat & Hcov & Hg & _ & Hsep).
  fold raws in Hcov, Hg. set (sl := cut_slices sorted (unopt_cuts sorted maxp)) in *.
  assert (Hs' : Sorted N.le (concat sl)) by (rewrite Hcat; exact Hs).
  destruct (apply_path_partition fg use_gcd raws sl path Hcov Hg Hs' Ht)
    as (Hcat' & Hcov' & Hsep' & _ & _ & Hdiv).
  set (merged := apply_path fg raws path) in *.
  set (sl' := map (@concat N) (map (range sl) path)) in *.
  assert (Hlen : length merged = length path) by (unfold merged, apply_path; apply map_length).
  assert (Hbd : Forall bounded sl').
  { apply ss_concat_bounded. rewrite Hcat'. apply Sorted_StronglySorted; [exact N.le_trans|exact Hs']. }
  assert (Hdesc : Forall2 describes table sl').
  { unfold table, train_table. fold raws. fold merged.
    apply (assign_codes_Forall2
             (fun w s => (covers1 w s /\ forall x, In x s -> (x - w_lower w) mod w_gcd w = 0)
                         /\ bounded s)).
    - intros w s c (((Hne & Hc & Hlo & Hup) & Hd) & Hb). unfold describes, to_prefix, contains.
      cbn [p_count p_lower p_upper p_gcd]. repeat split; try assumption; [|apply Hd; assumption].
      rewrite Hlo, Hup. pose proof (Hb x H). apply andb_true_iff. split; apply N.leb_le; lia.
    - apply Forall2_Forall_r; [|exact Hbd].
      apply Forall2_and; [exact Hcov'|apply Hdiv, Himp]. }
  split; [|split].
  - unfold table, train_table. fold raws. fold merged. apply huffman_table_ok.
    + intros E. rewrite E in Hlen. cbn [length] in Hlen.
      destruct path; [|discriminate]. cbn [tiles] in Ht. apply Nat.eqb_eq in Ht.
      assert (Z : raws = []) by (destruct raws; [reflexivity|discriminate]).
      pose proof (Forall2_len _ _ _ Hcov) as L2. rewrite Z in L2. cbn [length] in L2.
      assert (Z2 : sl = []) by (destruct sl; [reflexivity|discriminate]).
      rewrite Z2 in Hcat. cbn [concat] in Hcat.
      rewrite <- Hcat in Hm. unfold Nlen in Hm. cbn in Hm. lia.
    + exact Hv.
    + rewrite Hlen. exact Hl.
  - exists sl'. split; [rewrite Hcat'; exact Hcat|]. split; [exact Hdesc|].
    apply Hsep', Hsep, Hs.
  - intros x Hx. rewrite <- Hcat, <- Hcat' in Hx. apply in_concat in Hx.
    destruct Hx as (s & Hs1 & Hs2).
    destruct (Forall2_In_r _ _ _ _ Hdesc Hs1) as (p & Hp & (_ & _ & _ & _ & Hd)).
    exists p. split; [exact Hp|]. apply Hd, Hs2.
Qed.

(* the run-length prefix is never merged with a neighbour *)
Lemma valid_path_tiles raws path : valid_path raws path = true ->
  tiles 0 (length raws) path = true.
Proof. unfold valid_path. intros H. apply andb_true_iff in H. apply H. Qed.

Lemma valid_path_rep raws path r j i :
  valid_path raws path = true -> rep_idx raws = Some r -> In (j, i) path ->
  (j <= r <= i)%nat -> j = r /\ i = r.
Proof.
  unfold valid_path, rep_alone. intros H Hr Hin Hji.
  apply andb_true_iff in H. destruct H as [_ H]. rewrite Hr in H.
  rewrite forallb_forall in H. specialize (H _ Hin). cbn [fst snd] in H.
  apply orb_true_iff in H. destruct H as [H|H].
  - apply negb_true_iff, andb_false_iff in H.
    destruct H as [H|H]; apply Nat.leb_gt in H; lia.
  - apply andb_true_iff in H. destruct H as [H1 H2].
    apply Nat.eqb_eq in H1. apply Nat.eqb_eq in H2. split; assumption.
Qed.

Print Assumptions pgcd_spec.
Print Assumptions gcd_sorted_spec.
Print Assumptions gcd_sorted_divides.
Print Assumptions gcd_sorted_greatest.
Print Assumptions choose_unoptimized_partition.
Print Assumptions apply_path_partition.
Print Assumptions huffman_tree_ok.
Print Assumptions huffman_table_ok.
Print Assumptions choose_unoptimized_const.
Print Assumptions train_table_const.
Print Assumptions train_table_spec.
