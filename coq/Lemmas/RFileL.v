(* RFileL.v — the decompressor's header / chunk-metadata parse as a program over the
   64-bit-word BitReader (Model/RFile.v) returns exactly what the bit-list parser
   (Reader.read_header, Reader.read_chunk_meta over Codec.parse_flags / parse_meta) returns
   on the reader's abstract stream: the same value, the same new position, the same error
   kind; and it never reaches the one out-of-bounds index the word-level `read` has.
   No axioms, nothing admitted. *)
From Coq Require Import Lia ZifyBool ZifyN ZifyNat.
From QCo.Lemmas Require Import Tactics BitsL DTypeL CodecL FileL NoPanicL WordsL.
From QCo.Model Require Import Base Consts DType Codec Words Writer Reader RFile.
Open Scope N_scope.

(* ================================================================== *)
(* 0. the contract                                                     *)
(* ================================================================== *)
(* the reader invariant: well-formed words, total_bits within them and a whole number of
   bytes (the Decompressor only ever holds whole bytes), position within total_bits *)
Definition rd_inv (ws : list N) (tb i j : N) : Prop :=
  words_ok ws /\ tb <= 64 * Nlen ws /\ tb mod 8 = 0 /\ j <= 64 /\ 64 * i + j <= tb.

Definition pos (st : rpos) : N := 64 * fst st + snd st.            (* BitReader::bit_idx *)
Definition inv (ws : list N) (tb : N) (st : rpos) : Prop := rd_inv ws tb (fst st) (snd st).

(* a word-level parse [r] started at [st] agrees with the bit-list parse [m] *)
Definition agrees {A} (ws : list N) (tb : N) (st : rpos)
           (r : res (A * rpos)) (m : bits -> res (A * bits)) : Prop :=
  match r with
  | Ok (a, st') =>
      m (rd_stream ws tb (pos st)) = Ok (a, rd_stream ws tb (pos st')) /\ inv ws tb st'
  | Err k => m (rd_stream ws tb (pos st)) = Err k
  | Panic => False
  end.

(* the form with explicit (i, j), as used in the statements of the main theorems *)
Lemma agrees_ij {A} ws tb i j (r : res (A * rpos)) m :
  agrees ws tb (i, j) r m <->
  match r with
  | Ok (a, (i', j')) =>
      m (rd_stream ws tb (64 * i + j)) = Ok (a, rd_stream ws tb (64 * i' + j')) /\
      rd_inv ws tb i' j'
  | Err k => m (rd_stream ws tb (64 * i + j)) = Err k
  | Panic => False
  end.
Proof. unfold agrees. destruct r as [[a [i' j']]|k|]; reflexivity. Qed.

Lemma inv_ij ws tb i j : inv ws tb (i, j) <-> rd_inv ws tb i j.
Proof. reflexivity. Qed.

(* one step of a parse: [H : agrees ws tb st R M] where the goal is the contract of
   [bind R K] against [fun s => bind (M s) KM] *)
Ltac rstep H a st' Hm Hi :=
  unfold agrees in H;
  match type of H with
  | match ?R with _ => _ end =>
    let k := fresh "k" in
    destruct R as [[a st']|k|];
    [ destruct H as [Hm Hi]; cbn [bind]; rewrite Hm; cbn [bind]
    | cbn [bind]; rewrite H; reflexivity
    | contradiction ]
  end.

(* ================================================================== *)
(* 1. BitReader methods                                                *)
(* ================================================================== *)
Lemma get1_ok_len s b r : get1 s = Ok (b, r) -> (1 <= length s)%nat.
Proof. destruct s; [discriminate|]. cbn [length]. lia. Qed.

Lemma get_ok_len n s v r : get n s = Ok (v, r) -> (N.to_nat n <= length s)%nat.
Proof.
  intros H. destruct (Nat.le_gt_cases (N.to_nat n) (length s)) as [Hl|Hl]; [exact Hl|].
  rewrite get_short in H by lia. discriminate.
Qed.

Lemma get_bits_ok_len n s l r : get_bits n s = Ok (l, r) -> (N.to_nat n <= length s)%nat.
Proof.
  intros H. destruct (Nat.le_gt_cases (N.to_nat n) (length s)) as [Hl|Hl]; [exact Hl|].
  unfold get_bits in H. rewrite take_bits_short in H by lia. discriminate.
Qed.

Lemma ag_read_one ws tb st :
  inv ws tb st -> agrees ws tb st (rf_read_one ws tb st) get1.
Proof.
  destruct st as [i j]. intros (Hok & Htb & Hal & Hj & Hp). cbn [fst snd] in *.
  pose proof (rd_read_one_spec ws tb i j Hok Hj Htb Hp) as H.
  unfold agrees, rf_read_one, pos. cbn [fst snd].
  destruct (rd_read_one ws i j tb) as [[b [i' j']]|k|]; [|exact H|exact H].
  destruct H as (Hg & Hpos & Hj'). cbn [fst snd]. rewrite Hpos. split; [exact Hg|].
  apply get1_ok_len in Hg. rewrite rd_stream_length in Hg by exact Htb.
  unfold inv, rd_inv. cbn [fst snd]. repeat split; try assumption. lia.
Qed.

Lemma ag_read ws tb st n :
  inv ws tb st -> n <> 0 \/ snd st <> 0 ->
  agrees ws tb st (rf_read ws tb st n) (get_bits n).
Proof.
  destruct st as [i j]. intros (Hok & Htb & Hal & Hj & Hp) Hnz. cbn [fst snd] in *.
  pose proof (rd_read_spec ws tb i j n Hok Hj Htb Hp) as H.
  unfold agrees, rf_read, pos. cbn [fst snd].
  destruct (rd_read ws i j tb n) as [[l [i' j']]|k|]; [|exact H|lia].
  destruct H as (Hg & Hpos & Hj'). cbn [fst snd]. rewrite Hpos. split; [exact Hg|].
  apply get_bits_ok_len in Hg. rewrite rd_stream_length in Hg by exact Htb.
  unfold inv, rd_inv. cbn [fst snd]. repeat split; try assumption. lia.
Qed.

(* the U-typed checked read is the unbounded one as long as n <= U::BITS *)
Lemma rf_read_diff_eq ub ws tb i j n :
  words_ok ws -> j <= 64 -> tb <= 64 * Nlen ws -> n <= ub ->
  rf_read_diff ub ws tb (i, j) n = rd_read_diff ws i j tb n.
Proof.
  intros Hok Hj Htb Hn. unfold rf_read_diff, rd_read_diff. cbn [fst snd].
  destruct (rd_insufficient i j n tb) eqn:E; [reflexivity|].
  unfold rd_insufficient, rd_bit_idx, WORD_SIZE in E.
  rewrite rd_unchecked_read_diff_u_spec by (try assumption; lia). reflexivity.
Qed.

Lemma ag_read_diff ub ws tb st n :
  inv ws tb st -> n <= ub ->
  agrees ws tb st (rf_read_diff ub ws tb st n) (get n).
Proof.
  destruct st as [i j]. intros (Hok & Htb & Hal & Hj & Hp) Hn. cbn [fst snd] in *.
  rewrite rf_read_diff_eq by assumption.
  pose proof (rd_read_diff_spec ws tb i j n Hok Hj Htb Hp) as H.
  unfold agrees, pos. cbn [fst snd].
  destruct (rd_read_diff ws i j tb n) as [[v [i' j']]|k|]; [|exact H|exact H].
  destruct H as (Hg & Hpos & Hj'). cbn [fst snd]. rewrite Hpos. split; [exact Hg|].
  apply get_ok_len in Hg. rewrite rd_stream_length in Hg by exact Htb.
  unfold inv, rd_inv. cbn [fst snd]. repeat split; try assumption. lia.
Qed.

Lemma ag_read_usize ws tb st n :
  inv ws tb st -> n <= 64 ->
  agrees ws tb st (rf_read_usize ws tb st n) (get n).
Proof. apply ag_read_diff. Qed.

(* a read of at least one bit never leaves the reader at bit 0 of a word (it leaves
   j = 64 rather than moving on): this is what keeps the following `read(0)` in bounds *)
Lemma rd_unchecked_read_diff_jpos ws i j n :
  n <> 0 -> snd (snd (rd_unchecked_read_diff ws i j n)) <> 0.
Proof.
  intros Hn. unfold rd_unchecked_read_diff.
  destruct (N.eqb_spec n 0) as [E|_]; [contradiction|].
  destruct (rd_refresh i j) as [i1 j1]. unfold WORD_SIZE.
  destruct (N.leb_spec (n + j1) 64) as [Hle|Hgt]; [cbn [snd]; lia|].
  destruct (rd_diff_loop _ ws i1 _ _) as [[i2 rem2] res2].
  destruct (N.ltb_spec 0 rem2) as [Hr|Hr]; cbn [snd]; lia.
Qed.

Lemma rf_read_diff_jpos ub ws tb st n v st' :
  n <> 0 -> rf_read_diff ub ws tb st n = Ok (v, st') -> snd st' <> 0.
Proof.
  intros Hn H. unfold rf_read_diff in H.
  destruct (rd_insufficient (fst st) (snd st) n tb); [discriminate|].
  rewrite rd_unchecked_read_diff_u_eq in H.
  pose proof (rd_unchecked_read_diff_jpos ws (fst st) (snd st) n Hn) as Hj.
  destruct (rd_unchecked_read_diff ws (fst st) (snd st) n) as [v0 st0].
  inversion H; subst. exact Hj.
Qed.

Lemma read_aligned_bit a b n s : a mod 8 = b mod 8 -> read_aligned a n s = read_aligned b n s.
Proof. intros H. unfold read_aligned. rewrite H. reflexivity. Qed.

Lemma read_aligned_ok_facts bit n s bs r :
  read_aligned bit n s = Ok (bs, r) ->
  bit mod 8 = 0 /\ Nlen bs = n /\ (N.to_nat (8 * n) <= length s)%nat.
Proof.
  unfold read_aligned. destruct (N.eqb_spec (bit mod 8) 0) as [E|E]; cbn [negb]; [|discriminate].
  destruct (get_bits (8 * n) s) as [[bl s']|k|] eqn:G; cbn [bind]; try discriminate.
  intros H. inversion H; subst bs r; clear H.
  split; [exact E|]. split; [|eapply get_bits_ok_len; exact G].
  apply get_bits_taken in G.
  pose proof (bits_to_bytes_Nlen bl ltac:(rewrite G; lia)) as L. lia.
Qed.

Lemma ag_read_aligned ws tb st n :
  inv ws tb st ->
  match rf_read_aligned_bytes ws tb st n with
  | Ok (bs, st') =>
      read_aligned (pos st) n (rd_stream ws tb (pos st)) = Ok (bs, rd_stream ws tb (pos st')) /\
      inv ws tb st' /\ pos st' = pos st + 8 * n /\ pos st mod 8 = 0 /\ Nlen bs = n
  | Err k => read_aligned (pos st) n (rd_stream ws tb (pos st)) = Err k
  | Panic => False
  end.
Proof.
  destruct st as [i j]. intros (Hok & Htb & Hal & Hj & Hp). cbn [fst snd] in *.
  pose proof (rd_read_aligned_bytes_spec ws tb i j n Hok Hj Htb Hal Hp) as H.
  unfold rf_read_aligned_bytes, pos. cbn [fst snd].
  destruct (rd_read_aligned_bytes ws i j tb n) as [[bs [i' j']]|k|]; [|exact H|exact H].
  destruct H as (Hg & Hpos & Hj'). cbn [fst snd]. rewrite Hpos. split; [exact Hg|].
  apply read_aligned_ok_facts in Hg. destruct Hg as (Hm & Hl & Hlen).
  rewrite rd_stream_length in Hlen by exact Htb.
  unfold inv, rd_inv. cbn [fst snd]. repeat split; try assumption; lia.
Qed.

Lemma ag_drain ws tb st :
  inv ws tb st ->
  match rf_drain_empty_byte ws st with
  | Ok st' =>
      drain_pad (rd_stream ws tb (pos st)) = Ok (rd_stream ws tb (pos st')) /\ inv ws tb st'
  | Err k => drain_pad (rd_stream ws tb (pos st)) = Err k
  | Panic => False
  end.
Proof.
  destruct st as [i j]. intros (Hok & Htb & Hal & Hj & Hp). cbn [fst snd] in *.
  pose proof (rd_drain_empty_byte_spec ws tb i j Hok Hj Htb Hal Hp) as H.
  unfold rf_drain_empty_byte, pos. cbn [fst snd].
  destruct (rd_drain_empty_byte ws i j) as [[i' j']|k|]; [|exact H|exact H].
  destruct H as (Hg & Hj' & Hm & Hle). cbn [fst snd]. split; [exact Hg|].
  unfold inv, rd_inv. cbn [fst snd]. repeat split; assumption.
Qed.

(* ================================================================== *)
(* 2. flags and header                                                 *)
(* ================================================================== *)
(* TryFrom<Vec<bool>> for Flags, iterator style, is Codec.flags_of_payload *)
Lemma rf_flags_try_from_eq p : rf_flags_try_from p = flags_of_payload p.
Proof.
  destruct p as [|b0 [|b1 [|b2 [|b3 [|b4 [|b5 r]]]]]];
    repeat match goal with b : bool |- _ => destruct b end; reflexivity.
Qed.

Lemma ag_flags_loop ws tb : forall fuel acc st,
  inv ws tb st ->
  agrees ws tb st (rf_flags_loop fuel ws tb acc st) (read_flag_payload fuel acc).
Proof.
  induction fuel as [|f IH]; intros acc st Hi; [reflexivity|].
  unfold agrees. cbn [rf_flags_loop read_flag_payload].
  pose proof (ag_read ws tb st Consts.FLAG_PAYLOAD_BITS_PER_BYTE Hi
                ltac:(left; discriminate)) as H1.
  rstep H1 c st1 Hm1 Hi1.
  pose proof (ag_read_one ws tb st1 Hi1) as H2.
  rstep H2 more st2 Hm2 Hi2.
  destruct more.
  - exact (IH (acc ++ c) st2 Hi2).
  - split; [reflexivity|exact Hi2].
Qed.

(* positions: a successful read(n) / read_one advances bit_idx by n / 1 *)
Lemma rf_read_pos ws tb st n l st' :
  inv ws tb st -> rf_read ws tb st n = Ok (l, st') -> pos st' = pos st + n.
Proof.
  destruct st as [i j], st' as [i' j']. intros (Hok & Htb & Hal & Hj & Hp) E. cbn [fst snd] in *.
  pose proof (rd_read_spec ws tb i j n Hok Hj Htb Hp) as H.
  unfold rf_read in E. cbn [fst snd] in E. rewrite E in H.
  destruct H as (_ & Hpos & _). exact Hpos.
Qed.

Lemma rf_read_one_pos ws tb st b st' :
  inv ws tb st -> rf_read_one ws tb st = Ok (b, st') -> pos st' = pos st + 1.
Proof.
  destruct st as [i j], st' as [i' j']. intros (Hok & Htb & Hal & Hj & Hp) E. cbn [fst snd] in *.
  pose proof (rd_read_one_spec ws tb i j Hok Hj Htb Hp) as H.
  unfold rf_read_one in E. cbn [fst snd] in E. rewrite E in H.
  destruct H as (_ & Hpos & _). exact Hpos.
Qed.

(* the loop of Flags::parse_from has no bound in the Rust; every iteration consumes 8 bits,
   so any fuel above bits_remaining / 8 gives the same result: the fuel of rf_parse_flags
   (bits_remaining + 1) is never exhausted *)
Lemma rf_flags_loop_fuel ws tb : forall f1 f2 acc st,
  inv ws tb st ->
  (tb - pos st) / 8 < N.of_nat f1 -> (tb - pos st) / 8 < N.of_nat f2 ->
  rf_flags_loop f1 ws tb acc st = rf_flags_loop f2 ws tb acc st.
Proof.
  induction f1 as [|f1 IH]; intros f2 acc st Hi H1 H2; [lia|].
  destruct f2 as [|f2]; [lia|]. cbn [rf_flags_loop].
  pose proof (ag_read ws tb st Consts.FLAG_PAYLOAD_BITS_PER_BYTE Hi
                ltac:(left; discriminate)) as A1. unfold agrees in A1.
  destruct (rf_read ws tb st Consts.FLAG_PAYLOAD_BITS_PER_BYTE) as [[c st1]|k|] eqn:E1;
    cbn [bind]; try reflexivity.
  destruct A1 as [_ Hi1]. pose proof (rf_read_pos _ _ _ _ _ _ Hi E1) as P1.
  pose proof (ag_read_one ws tb st1 Hi1) as A2. unfold agrees in A2.
  destruct (rf_read_one ws tb st1) as [[more st2]|k|] eqn:E2; cbn [bind]; try reflexivity.
  destruct A2 as [_ Hi2]. pose proof (rf_read_one_pos _ _ _ _ _ Hi1 E2) as P2.
  destruct more; [|reflexivity].
  assert (Hle : pos st2 <= tb) by apply Hi2.
  unfold Consts.FLAG_PAYLOAD_BITS_PER_BYTE in P1.
  apply IH; [exact Hi2|lia|lia].
Qed.

Lemma ag_parse_flags ws tb st :
  inv ws tb st -> pos st mod 8 = 0 ->
  agrees ws tb st (rf_parse_flags ws tb st) parse_flags.
Proof.
  intros Hi Hal. unfold agrees, rf_parse_flags, parse_flags, rf_aligned_byte_idx.
  assert (Hj : snd st mod 8 = 0) by (unfold pos in Hal; lia).
  rewrite Hj. cbn [N.eqb bind].
  rewrite rd_stream_length by apply Hi.
  change (rd_bit_idx (fst st) (snd st)) with (pos st).
  pose proof (ag_flags_loop ws tb (S (N.to_nat (tb - pos st))) [] st Hi) as H1.
  rstep H1 bools st1 Hm1 Hi1.
  rewrite rf_flags_try_from_eq.
  destruct (flags_of_payload bools) as [fl|k|] eqn:E; cbn [bind].
  - split; [reflexivity|exact Hi1].
  - reflexivity.
  - unfold flags_of_payload in E. destruct (existsb _ _) in E; discriminate.
Qed.

Lemma Nlen1 {A} (l : list A) : Nlen l = 1 -> exists b, l = [b].
Proof.
  destruct l as [|b [|c t]]; unfold Nlen; cbn [length]; intros H; try lia.
  exists b. reflexivity.
Qed.

(* decompressor.rs::read_header *)
Theorem ag_header ws tb d st :
  inv ws tb st -> agrees ws tb st (rf_header ws tb d st) (read_header d (pos st)).
Proof.
  intros Hi. unfold agrees, rf_header, read_header.
  change (Nlen Consts.MAGIC_HEADER) with 4.
  pose proof (ag_read_aligned ws tb st 4 Hi) as H1.
  destruct (rf_read_aligned_bytes ws tb st 4) as [[mg st1]|k|]; cbn [bind];
    [|rewrite H1; reflexivity|contradiction].
  destruct H1 as (Hm1 & Hi1 & Hp1 & Hal & _). rewrite Hm1. cbn [bind].
  destruct (negb (list_eqb N.eqb mg Consts.MAGIC_HEADER)); cbn [bind]; [reflexivity|].
  rewrite (read_aligned_bit (pos st) (pos st1)) by lia.
  pose proof (ag_read_aligned ws tb st1 1 Hi1) as H2.
  destruct (rf_read_aligned_bytes ws tb st1 1) as [[tbs st2]|k|]; cbn [bind];
    [|rewrite H2; reflexivity|contradiction].
  destruct H2 as (Hm2 & Hi2 & Hp2 & _ & Hl2). rewrite Hm2. cbn [bind].
  destruct (Nlen1 tbs Hl2) as [b ->]. cbn [nth list_eqb]. rewrite andb_true_r.
  destruct (negb (b =? hdr d)); cbn [bind]; [reflexivity|].
  exact (ag_parse_flags ws tb st2 Hi2 ltac:(lia)).
Qed.

(* ================================================================== *)
(* 3. numbers, delta moments, gcds                                     *)
(* ================================================================== *)
Lemma phys_nz d : phys d <> 0.
Proof. destruct d; discriminate. Qed.

(* NumberLike::read_from *)
Lemma ag_read_num ws tb d st :
  inv ws tb st -> agrees ws tb st (rf_read_num ws tb d st) (read_num d).
Proof.
  intros Hi. unfold agrees, rf_read_num, read_num.
  pose proof (ag_read ws tb st (phys d) Hi (or_introl (phys_nz d))) as H1.
  rstep H1 bools st1 Hm1 Hi1.
  destruct (of_bytes d (bits_to_bytes bools)) as [x|k|] eqn:E; cbn [bind].
  - split; [reflexivity|exact Hi1].
  - reflexivity.
  - exact (of_bytes_np _ _ E).
Qed.

(* DeltaMoments::parse_from *)
Lemma ag_read_moments ws tb sd : forall cnt st,
  inv ws tb st -> agrees ws tb st (rf_read_moments ws tb sd cnt st) (read_moments sd cnt).
Proof.
  induction cnt as [|c IH]; intros st Hi.
  - split; [reflexivity|exact Hi].
  - unfold agrees. cbn [rf_read_moments read_moments].
    pose proof (ag_read_num ws tb sd st Hi) as H1. rstep H1 m st1 Hm1 Hi1.
    pose proof (IH st1 Hi1) as H2. rstep H2 r st2 Hm2 Hi2.
    split; [reflexivity|exact Hi2].
Qed.

Lemma gcd_bits_le range ub : range <= 2 ^ ub -> gcd_bits range <= ub.
Proof.
  intros H. unfold gcd_bits. destruct (N.eqb_spec range 0) as [E|E]; [lia|].
  apply N.log2_up_le_pow2; [lia|exact H].
Qed.

(* gcd_utils::read_gcd::<U>: gcd_bits_required(range) <= U::BITS as range is a U *)
Lemma ag_read_gcd ws tb ub range st :
  inv ws tb st -> range <= 2 ^ ub ->
  agrees ws tb st (rf_read_gcd ws tb ub range st) (read_gcd range).
Proof.
  intros Hi Hr. unfold agrees, rf_read_gcd, read_gcd.
  pose proof (ag_read_one ws tb st Hi) as H1. rstep H1 b st1 Hm1 Hi1.
  destruct b; [|split; [reflexivity|exact Hi1]].
  pose proof (ag_read_diff ub ws tb st1 (gcd_bits range) Hi1 (gcd_bits_le _ _ Hr)) as H2.
  rstep H2 g1 st2 Hm2 Hi2.
  destruct (range <=? g1); cbn [bind]; [reflexivity|].
  split; [reflexivity|exact Hi2].
Qed.

(* ================================================================== *)
(* 4. parse_prefixes                                                   *)
(* ================================================================== *)
Lemma count_bits_le f n : n < 2 ^ 24 -> count_bits f n <= 64.
Proof.
  intros H. unfold count_bits. destruct (fmin f); [|unfold Consts.BITS_TO_ENCODE_N_ENTRIES; lia].
  apply N.le_trans with 24; [|lia]. apply N.log2_up_le_pow2; lia.
Qed.

Lemma code_len_bits_facts f : code_len_bits f <> 0 /\ code_len_bits f <= 64.
Proof.
  unfold code_len_bits, Consts.CODE_LEN_BITS_5, Consts.CODE_LEN_BITS_4. destruct (f5 f); lia.
Qed.

Lemma read_num_u_bound pd s x s' : read_num pd s = Ok (x, s') -> to_u pd x < 2 ^ ubits pd.
Proof.
  intros H. pose proof (read_unum_bound pd s (to_u pd x) s') as B.
  unfold read_unum in B. rewrite H in B. cbn [bind] in B. specialize (B eq_refl).
  unfold umax, pow2 in B. pose proof (WordsL.pow2_pos (ubits pd)). lia.
Qed.

(* the `for _ in 0..n_pref` loop *)
Lemma ag_prefix_loop ws tb f pd n common : n < 2 ^ 24 -> forall cnt st,
  inv ws tb st ->
  agrees ws tb st (rf_prefix_loop ws tb f pd n common cnt st)
                  (read_prefix_list f pd n common cnt).
Proof.
  intros Hn. induction cnt as [|c IH]; intros st Hi.
  - split; [reflexivity|exact Hi].
  - unfold agrees. cbn [rf_prefix_loop read_prefix_list]. unfold read_unum.
    pose proof (ag_read_usize ws tb st (count_bits f n) Hi (count_bits_le f n Hn)) as H1.
    rstep H1 count st1 Hm1 Hi1.
    pose proof (ag_read_num ws tb pd st1 Hi1) as H2. rstep H2 lower st2 Hm2 Hi2.
    pose proof (ag_read_num ws tb pd st2 Hi2) as H3. rstep H3 upper st3 Hm3 Hi3.
    destruct (to_u pd upper <? to_u pd lower) eqn:Elu; cbn [bind]; [reflexivity|].
    apply N.ltb_ge in Elu.
    destruct (code_len_bits_facts f) as [Hcl0 Hcl64].
    pose proof (ag_read_usize ws tb st3 (code_len_bits f) Hi3 Hcl64) as H4.
    destruct (rf_read_usize ws tb st3 (code_len_bits f)) as [[code_len st4]|k|] eqn:E4;
      [|cbn [bind]; rewrite H4; reflexivity|contradiction].
    destruct H4 as [Hm4 Hi4]. cbn [bind]. rewrite Hm4. cbn [bind].
    (* read(code_len), possibly read(0): in bounds since j > 0 *)
    pose proof (rf_read_diff_jpos 64 ws tb st3 (code_len_bits f) code_len st4 Hcl0 E4) as Hj4.
    pose proof (ag_read ws tb st4 code_len Hi4 (or_intror Hj4)) as H5.
    rstep H5 code st5 Hm5 Hi5.
    pose proof (ag_read_one ws tb st5 Hi5) as H6. rstep H6 hasj st6 Hm6 Hi6.
    assert (Hj : (exists jump st7,
      (if hasj then do '(j, st) <- rf_read_usize ws tb st6 Consts.BITS_TO_ENCODE_JUMPSTART;
                    Ok (Some j, st) else Ok (None, st6)) = Ok (jump, st7) /\
      (if hasj then do '(j, s7) <- get Consts.BITS_TO_ENCODE_JUMPSTART (rd_stream ws tb (pos st6));
                    Ok (Some j, s7) else Ok (None, rd_stream ws tb (pos st6)))
      = Ok (jump, rd_stream ws tb (pos st7)) /\ inv ws tb st7)
      \/ exists k,
      (if hasj then do '(j, st) <- rf_read_usize ws tb st6 Consts.BITS_TO_ENCODE_JUMPSTART;
                    Ok (Some j, st) else Ok (None, st6)) = Err k /\
      (if hasj then do '(j, s7) <- get Consts.BITS_TO_ENCODE_JUMPSTART (rd_stream ws tb (pos st6));
                    Ok (Some j, s7) else Ok (None, rd_stream ws tb (pos st6))) = Err k).
    { destruct hasj.
      - pose proof (ag_read_usize ws tb st6 Consts.BITS_TO_ENCODE_JUMPSTART Hi6
                      ltac:(unfold Consts.BITS_TO_ENCODE_JUMPSTART; lia)) as H7.
        unfold agrees in H7.
        destruct (rf_read_usize ws tb st6 Consts.BITS_TO_ENCODE_JUMPSTART) as [[j st7]|k|];
          [|right; exists k; cbn [bind]; rewrite H7; split; reflexivity|contradiction].
        destruct H7 as [Hm7 Hi7]. left. exists (Some j), st7. cbn [bind]. rewrite Hm7.
        cbn [bind]. split; [reflexivity|split; [reflexivity|exact Hi7]].
      - left. exists None, st6. split; [reflexivity|split; [reflexivity|exact Hi6]]. }
    destruct Hj as [(jump & st7 & Er & Em & Hi7)|(k & Er & Em)];
      rewrite Er, Em; cbn [bind]; [|reflexivity].
    assert (Hrange : to_u pd upper - to_u pd lower <= 2 ^ ubits pd).
    { pose proof (read_num_u_bound pd _ _ _ Hm3). lia. }
    destruct common as [g|]; cbn [bind].
    + pose proof (IH st7 Hi7) as H9. rstep H9 rest st9 Hm9 Hi9.
      split; [reflexivity|exact Hi9].
    + pose proof (ag_read_gcd ws tb (ubits pd) _ st7 Hi7 Hrange) as H8.
      rstep H8 g st8 Hm8 Hi8.
      pose proof (IH st8 Hi8) as H9. rstep H9 rest st9 Hm9 Hi9.
      split; [reflexivity|exact Hi9].
Qed.

(* chunk_metadata.rs::parse_prefixes *)
Lemma ag_parse_prefixes ws tb f pd n st :
  n < 2 ^ 24 -> inv ws tb st ->
  agrees ws tb st (rf_parse_prefixes ws tb f pd n st) (read_prefixes f pd n).
Proof.
  intros Hn Hi. unfold agrees, rf_parse_prefixes, read_prefixes.
  pose proof (ag_read_usize ws tb st Consts.BITS_TO_ENCODE_N_PREFIXES Hi
                ltac:(unfold Consts.BITS_TO_ENCODE_N_PREFIXES; lia)) as H1.
  rstep H1 npf st1 Hm1 Hi1.
  destruct (fgcd f); cbn [bind].
  - pose proof (ag_read_one ws tb st1 Hi1) as H2. rstep H2 b st2 Hm2 Hi2.
    destruct b; cbn [bind].
    + assert (Hr : umax (ubits pd) <= 2 ^ ubits pd) by (unfold umax, pow2; lia).
      pose proof (ag_read_gcd ws tb (ubits pd) _ st2 Hi2 Hr) as H3.
      rstep H3 g st3 Hm3 Hi3.
      exact (ag_prefix_loop ws tb f pd n (Some g) Hn (N.to_nat npf) st3 Hi3).
    + exact (ag_prefix_loop ws tb f pd n None Hn (N.to_nat npf) st2 Hi2).
  - exact (ag_prefix_loop ws tb f pd n (Some 1) Hn (N.to_nat npf) st1 Hi1).
Qed.

(* ================================================================== *)
(* 5. chunk metadata                                                   *)
(* ================================================================== *)
(* Codec.parse_meta = ChunkMetadata::parse_from, then drain_empty_byte *)
Definition parse_meta_fields (f : flags) (d : dtype) (s : bits) : res (meta * bits) :=
  do '(n, s1) <- get Consts.BITS_TO_ENCODE_N_ENTRIES s;
  do '(body, s2) <- get Consts.BITS_TO_ENCODE_COMPRESSED_BODY_SIZE s1;
  do '(mo, s3) <- (if ford f =? 0 then Ok ([], s2)
                   else read_moments (sdt d) (N.to_nat (ford f)) s2);
  do '(ps, s4) <- read_prefixes f (pdt f d) n s3;
  Ok (mkMeta n body mo ps, s4).

Lemma parse_meta_split f d s :
  parse_meta f d s = do '(m, s4) <- parse_meta_fields f d s; do s5 <- drain_pad s4; Ok (m, s5).
Proof.
  unfold parse_meta, parse_meta_fields.
  destruct (get Consts.BITS_TO_ENCODE_N_ENTRIES s) as [[n s1]|k|]; cbn [bind]; try reflexivity.
  destruct (get Consts.BITS_TO_ENCODE_COMPRESSED_BODY_SIZE s1) as [[body s2]|k|];
    cbn [bind]; try reflexivity.
  destruct (if ford f =? 0 then Ok ([], s2) else read_moments (sdt d) (N.to_nat (ford f)) s2)
    as [[mo s3]|k|]; cbn [bind]; try reflexivity.
  destruct (read_prefixes f (pdt f d) n s3) as [[ps s4]|k|]; cbn [bind]; reflexivity.
Qed.

(* ChunkMetadata::parse_from *)
Lemma ag_parse_meta ws tb f d st :
  inv ws tb st -> agrees ws tb st (rf_parse_meta ws tb f d st) (parse_meta_fields f d).
Proof.
  intros Hi. unfold agrees, rf_parse_meta, parse_meta_fields, pdt.
  pose proof (ag_read_usize ws tb st Consts.BITS_TO_ENCODE_N_ENTRIES Hi
                ltac:(unfold Consts.BITS_TO_ENCODE_N_ENTRIES; lia)) as H1.
  rstep H1 n st1 Hm1 Hi1.
  assert (Hn : n < 2 ^ 24) by (apply get_lt in Hm1; exact Hm1).
  pose proof (ag_read_usize ws tb st1 Consts.BITS_TO_ENCODE_COMPRESSED_BODY_SIZE Hi1
                ltac:(unfold Consts.BITS_TO_ENCODE_COMPRESSED_BODY_SIZE; lia)) as H2.
  rstep H2 body st2 Hm2 Hi2.
  destruct (ford f =? 0); cbn [bind].
  - pose proof (ag_parse_prefixes ws tb f d n st2 Hn Hi2) as H3. rstep H3 ps st3 Hm3 Hi3.
    split; [reflexivity|exact Hi3].
  - pose proof (ag_read_moments ws tb (sdt d) (N.to_nat (ford f)) st2 Hi2) as H3.
    rstep H3 mo st3 Hm3 Hi3.
    pose proof (ag_parse_prefixes ws tb f (sdt d) n st3 Hn Hi3) as H4. rstep H4 ps st4 Hm4 Hi4.
    split; [reflexivity|exact Hi4].
Qed.

(* decompressor.rs::read_chunk_meta *)
Theorem ag_chunk_meta ws tb d f st :
  inv ws tb st ->
  agrees ws tb st (rf_chunk_meta ws tb d f st) (read_chunk_meta d f (pos st)).
Proof.
  intros Hi. unfold agrees, rf_chunk_meta, read_chunk_meta.
  pose proof (ag_read_aligned ws tb st 1 Hi) as H1.
  destruct (rf_read_aligned_bytes ws tb st 1) as [[mb st1]|k|]; cbn [bind];
    [|rewrite H1; reflexivity|contradiction].
  destruct H1 as (Hm1 & Hi1 & Hp1 & Hal & Hl1). rewrite Hm1. cbn [bind].
  destruct (Nlen1 mb Hl1) as [b ->]. cbn [nth list_eqb]. rewrite !andb_true_r.
  destruct (b =? Consts.MAGIC_TERMINATION_BYTE); cbn [bind].
  { split; [reflexivity|exact Hi1]. }
  destruct (negb (b =? Consts.MAGIC_CHUNK_BYTE)); cbn [bind]; [reflexivity|].
  rewrite parse_meta_split.
  pose proof (ag_parse_meta ws tb f d st1 Hi1) as H2. rstep H2 m st2 Hm2 Hi2.
  pose proof (ag_drain ws tb st2 Hi2) as H3.
  destruct (rf_drain_empty_byte ws st2) as [st3|k|]; cbn [bind];
    [|rewrite H3; reflexivity|contradiction].
  destruct H3 as [Hm3 Hi3]. rewrite Hm3. cbn [bind].
  split; [reflexivity|exact Hi3].
Qed.

(* ================================================================== *)
(* 6. main theorems, with explicit (i, j)                              *)
(* ================================================================== *)
(* the word-level header parse is Reader.read_header on the reader's abstract stream:
   same flags and same new position on success (and the invariant is kept), the same
   error kind on failure, and no panic (no out-of-bounds word index) *)
Theorem rf_header_eq ws tb d i j :
  rd_inv ws tb i j ->
  match rf_header ws tb d (i, j) with
  | Ok (f, (i', j')) =>
      read_header d (64 * i + j) (rd_stream ws tb (64 * i + j))
      = Ok (f, rd_stream ws tb (64 * i' + j')) /\
      rd_inv ws tb i' j'
  | Err k => read_header d (64 * i + j) (rd_stream ws tb (64 * i + j)) = Err k
  | Panic => False
  end.
Proof.
  intros H.
  exact (proj1 (agrees_ij ws tb i j _ (read_header d (64 * i + j))) (ag_header ws tb d (i, j) H)).
Qed.

(* the word-level chunk start + metadata parse (+ drain_empty_byte) is
   Reader.read_chunk_meta *)
Theorem rf_chunk_meta_eq ws tb d f i j :
  rd_inv ws tb i j ->
  match rf_chunk_meta ws tb d f (i, j) with
  | Ok (m, (i', j')) =>
      read_chunk_meta d f (64 * i + j) (rd_stream ws tb (64 * i + j))
      = Ok (m, rd_stream ws tb (64 * i' + j')) /\
      rd_inv ws tb i' j'
  | Err k => read_chunk_meta d f (64 * i + j) (rd_stream ws tb (64 * i + j)) = Err k
  | Panic => False
  end.
Proof.
  intros H.
  exact (proj1 (agrees_ij ws tb i j _ (read_chunk_meta d f (64 * i + j)))
               (ag_chunk_meta ws tb d f (i, j) H)).
Qed.

(* the same for every component parser, in one statement each *)
Definition rf_spec {A} (ws : list N) (tb i j : N) (r : res (A * rpos))
           (m : bits -> res (A * bits)) : Prop :=
  match r with
  | Ok (a, (i', j')) =>
      m (rd_stream ws tb (64 * i + j)) = Ok (a, rd_stream ws tb (64 * i' + j')) /\
      rd_inv ws tb i' j'
  | Err k => m (rd_stream ws tb (64 * i + j)) = Err k
  | Panic => False
  end.

Lemma rf_spec_of {A} ws tb i j (r : res (A * rpos)) m : agrees ws tb (i, j) r m -> rf_spec ws tb i j r m.
Proof. apply agrees_ij. Qed.

Theorem rf_read_one_spec ws tb i j : rd_inv ws tb i j ->
  rf_spec ws tb i j (rf_read_one ws tb (i, j)) get1.
Proof. intros H. apply rf_spec_of, ag_read_one, H. Qed.

Theorem rf_read_spec ws tb i j n : rd_inv ws tb i j -> n <> 0 \/ j <> 0 ->
  rf_spec ws tb i j (rf_read ws tb (i, j) n) (get_bits n).
Proof. intros H Hn. apply rf_spec_of, ag_read; assumption. Qed.

Theorem rf_read_diff_spec ub ws tb i j n : rd_inv ws tb i j -> n <= ub ->
  rf_spec ws tb i j (rf_read_diff ub ws tb (i, j) n) (get n).
Proof. intros H Hn. apply rf_spec_of, ag_read_diff; assumption. Qed.

Theorem rf_read_usize_spec ws tb i j n : rd_inv ws tb i j -> n <= 64 ->
  rf_spec ws tb i j (rf_read_usize ws tb (i, j) n) (get n).
Proof. intros H Hn. apply rf_spec_of, ag_read_usize; assumption. Qed.

Theorem rf_read_aligned_bytes_spec ws tb i j n : rd_inv ws tb i j ->
  rf_spec ws tb i j (rf_read_aligned_bytes ws tb (i, j) n) (read_aligned (64 * i + j) n).
Proof.
  intros H. apply rf_spec_of. pose proof (ag_read_aligned ws tb (i, j) n H) as H1.
  unfold agrees. destruct (rf_read_aligned_bytes ws tb (i, j) n) as [[bs st']|k|]; [|exact H1|exact H1].
  destruct H1 as (Hm & Hi & _). split; assumption.
Qed.

Theorem rf_drain_empty_byte_spec ws tb i j : rd_inv ws tb i j ->
  match rf_drain_empty_byte ws (i, j) with
  | Ok (i', j') =>
      drain_pad (rd_stream ws tb (64 * i + j)) = Ok (rd_stream ws tb (64 * i' + j')) /\
      rd_inv ws tb i' j'
  | Err k => drain_pad (rd_stream ws tb (64 * i + j)) = Err k
  | Panic => False
  end.
Proof.
  intros H. pose proof (ag_drain ws tb (i, j) H) as H1.
  destruct (rf_drain_empty_byte ws (i, j)) as [[i' j']|k|]; exact H1.
Qed.

Theorem rf_flags_loop_spec ws tb fuel acc i j : rd_inv ws tb i j ->
  rf_spec ws tb i j (rf_flags_loop fuel ws tb acc (i, j)) (read_flag_payload fuel acc).
Proof. intros H. apply rf_spec_of, ag_flags_loop, H. Qed.

(* Flags::parse_from asserts alignment first (InvalidArgument otherwise); the bit-list
   parse_flags has no such check, it is only ever called aligned *)
Theorem rf_parse_flags_spec ws tb i j : rd_inv ws tb i j -> j mod 8 = 0 ->
  rf_spec ws tb i j (rf_parse_flags ws tb (i, j)) parse_flags.
Proof. intros H Hj. apply rf_spec_of, ag_parse_flags; [exact H|]. unfold pos. cbn [fst snd]. lia. Qed.

Theorem rf_parse_flags_misaligned ws tb i j : j mod 8 <> 0 ->
  rf_parse_flags ws tb (i, j) = Err InvalidArgument.
Proof.
  intros Hj. unfold rf_parse_flags, rf_aligned_byte_idx. cbn [fst snd].
  destruct (N.eqb_spec (j mod 8) 0); [contradiction|reflexivity].
Qed.

Theorem rf_header_spec ws tb d i j : rd_inv ws tb i j ->
  rf_spec ws tb i j (rf_header ws tb d (i, j)) (read_header d (64 * i + j)).
Proof. apply rf_header_eq. Qed.

Theorem rf_read_num_spec ws tb d i j : rd_inv ws tb i j ->
  rf_spec ws tb i j (rf_read_num ws tb d (i, j)) (read_num d).
Proof. intros H. apply rf_spec_of, ag_read_num, H. Qed.

Theorem rf_read_moments_spec ws tb sd cnt i j : rd_inv ws tb i j ->
  rf_spec ws tb i j (rf_read_moments ws tb sd cnt (i, j)) (read_moments sd cnt).
Proof. intros H. apply rf_spec_of, ag_read_moments, H. Qed.

Theorem rf_read_gcd_spec ws tb ub range i j : rd_inv ws tb i j -> range <= 2 ^ ub ->
  rf_spec ws tb i j (rf_read_gcd ws tb ub range (i, j)) (read_gcd range).
Proof. intros H Hr. apply rf_spec_of, ag_read_gcd; assumption. Qed.

Theorem rf_prefix_loop_spec ws tb f pd n common cnt i j : n < 2 ^ 24 -> rd_inv ws tb i j ->
  rf_spec ws tb i j (rf_prefix_loop ws tb f pd n common cnt (i, j))
                    (read_prefix_list f pd n common cnt).
Proof. intros Hn H. apply rf_spec_of, ag_prefix_loop; assumption. Qed.

Theorem rf_parse_prefixes_spec ws tb f pd n i j : n < 2 ^ 24 -> rd_inv ws tb i j ->
  rf_spec ws tb i j (rf_parse_prefixes ws tb f pd n (i, j)) (read_prefixes f pd n).
Proof. intros Hn H. apply rf_spec_of, ag_parse_prefixes; assumption. Qed.

Theorem rf_parse_meta_spec ws tb f d i j : rd_inv ws tb i j ->
  rf_spec ws tb i j (rf_parse_meta ws tb f d (i, j)) (parse_meta_fields f d).
Proof. intros H. apply rf_spec_of, ag_parse_meta, H. Qed.

Theorem rf_chunk_meta_spec ws tb d f i j : rd_inv ws tb i j ->
  rf_spec ws tb i j (rf_chunk_meta ws tb d f (i, j)) (read_chunk_meta d f (64 * i + j)).
Proof. apply rf_chunk_meta_eq. Qed.

(* ================================================================== *)
(* 7. on a byte list: BitWords::from(bytes), seek_to(bit_idx)          *)
(* ================================================================== *)
Lemma bytes_reader bytes :
  Forall (fun b => b < 256) bytes ->
  let '(ws, tb) := bw_extend [] 0 bytes in
  tb = 8 * Nlen bytes /\ words_ok ws /\ tb <= 64 * Nlen ws /\ tb mod 8 = 0 /\
  forall p, rd_stream ws tb p = skipn (N.to_nat p) (bytes_to_bits bytes).
Proof.
  intros Hb. pose proof (bw_from_bytes_spec bytes Hb) as H.
  destruct (bw_extend [] 0 bytes) as [ws tb]. destruct H as (Htb & (Hok & Hlen & _) & Hbits).
  split; [exact Htb|]. split; [exact Hok|].
  split; [rewrite Hlen; unfold ceil_div; lia|]. split; [lia|].
  intros p. unfold rd_stream. rewrite Hbits. reflexivity.
Qed.

Lemma seek_inv ws tb p :
  words_ok ws -> tb <= 64 * Nlen ws -> tb mod 8 = 0 -> p <= tb ->
  rd_inv ws tb (fst (rd_seek_to p)) (snd (rd_seek_to p)) /\
  64 * fst (rd_seek_to p) + snd (rd_seek_to p) = p.
Proof.
  intros Hok Htb Hal Hp. unfold rd_seek_to, rd_inv, WORD_SIZE. cbn [fst snd].
  repeat split; try assumption; lia.
Qed.

Theorem rf_header_bytes_eq d bytes p :
  Forall (fun b => b < 256) bytes -> p <= 8 * Nlen bytes ->
  match rf_header_bytes d bytes p with
  | Ok (f, (i', j')) =>
      read_header d p (skipn (N.to_nat p) (bytes_to_bits bytes))
      = Ok (f, skipn (N.to_nat (64 * i' + j')) (bytes_to_bits bytes)) /\
      j' <= 64 /\ 64 * i' + j' <= 8 * Nlen bytes
  | Err k => read_header d p (skipn (N.to_nat p) (bytes_to_bits bytes)) = Err k
  | Panic => False
  end.
Proof.
  intros Hb Hp. unfold rf_header_bytes. pose proof (bytes_reader bytes Hb) as H.
  destruct (bw_extend [] 0 bytes) as [ws tb]. destruct H as (Htb & Hok & Hle & Hal & Hs).
  destruct (seek_inv ws tb p Hok Hle Hal ltac:(lia)) as [Hi Hpos].
  destruct (rd_seek_to p) as [i j]. cbn [fst snd] in Hi, Hpos.
  pose proof (rf_header_eq ws tb d i j Hi) as H. rewrite Hpos, !Hs in H.
  destruct (rf_header ws tb d (i, j)) as [[f [i' j']]|k|]; [|exact H|exact H].
  destruct H as (Hm & _ & _ & _ & Hj' & Hp'). rewrite Hs in Hm.
  split; [exact Hm|]. split; [exact Hj'|lia].
Qed.

Theorem rf_chunk_meta_bytes_eq d f bytes p :
  Forall (fun b => b < 256) bytes -> p <= 8 * Nlen bytes ->
  match rf_chunk_meta_bytes d f bytes p with
  | Ok (m, (i', j')) =>
      read_chunk_meta d f p (skipn (N.to_nat p) (bytes_to_bits bytes))
      = Ok (m, skipn (N.to_nat (64 * i' + j')) (bytes_to_bits bytes)) /\
      j' <= 64 /\ 64 * i' + j' <= 8 * Nlen bytes
  | Err k => read_chunk_meta d f p (skipn (N.to_nat p) (bytes_to_bits bytes)) = Err k
  | Panic => False
  end.
Proof.
  intros Hb Hp. unfold rf_chunk_meta_bytes. pose proof (bytes_reader bytes Hb) as H.
  destruct (bw_extend [] 0 bytes) as [ws tb]. destruct H as (Htb & Hok & Hle & Hal & Hs).
  destruct (seek_inv ws tb p Hok Hle Hal ltac:(lia)) as [Hi Hpos].
  destruct (rd_seek_to p) as [i j]. cbn [fst snd] in Hi, Hpos.
  pose proof (rf_chunk_meta_eq ws tb d f i j Hi) as H. rewrite Hpos, !Hs in H.
  destruct (rf_chunk_meta ws tb d f (i, j)) as [[m [i' j']]|k|]; [|exact H|exact H].
  destruct H as (Hm & _ & _ & _ & Hj' & Hp'). rewrite Hs in Hm.
  split; [exact Hm|]. split; [exact Hj'|lia].
Qed.

(* a whole file from its first byte *)
Corollary rf_header_file_eq d bytes :
  Forall (fun b => b < 256) bytes ->
  match rf_header_bytes d bytes 0 with
  | Ok (f, (i', j')) =>
      read_header d 0 (bytes_to_bits bytes)
      = Ok (f, skipn (N.to_nat (64 * i' + j')) (bytes_to_bits bytes)) /\
      j' <= 64 /\ 64 * i' + j' <= 8 * Nlen bytes
  | Err k => read_header d 0 (bytes_to_bits bytes) = Err k
  | Panic => False
  end.
Proof. intros Hb. exact (rf_header_bytes_eq d bytes 0 Hb ltac:(lia)). Qed.

(* in the terms of the Reader.v state machine: what r_step's RHeader / RMeta / RNext
   compute on (stream st), and the bit_idx they commit (pos_after) *)
Lemma pos_after_skipn st p' :
  p' <= total_bits st ->
  pos_after st (skipn (N.to_nat p') (bytes_to_bits (r_bytes st))) = p'.
Proof.
  intros H. unfold pos_after, total_bits, Nlen in *.
  rewrite skipn_length, bytes_to_bits_length. lia.
Qed.

Theorem rf_header_rstate d st :
  Forall (fun b => b < 256) (r_bytes st) -> r_bit st <= total_bits st ->
  match rf_header_bytes d (r_bytes st) (r_bit st) with
  | Ok (f, (i', j')) =>
      exists s', read_header d (r_bit st) (stream st) = Ok (f, s') /\
                 pos_after st s' = 64 * i' + j'
  | Err k => read_header d (r_bit st) (stream st) = Err k
  | Panic => False
  end.
Proof.
  intros Hb Hp. pose proof (rf_header_bytes_eq d (r_bytes st) (r_bit st) Hb Hp) as H.
  fold (stream st) in H.
  destruct (rf_header_bytes d (r_bytes st) (r_bit st)) as [[f [i' j']]|k|]; [|exact H|exact H].
  destruct H as (Hm & _ & Hle). eexists. split; [exact Hm|]. apply pos_after_skipn. exact Hle.
Qed.

Theorem rf_chunk_meta_rstate d f st :
  Forall (fun b => b < 256) (r_bytes st) -> r_bit st <= total_bits st ->
  match rf_chunk_meta_bytes d f (r_bytes st) (r_bit st) with
  | Ok (m, (i', j')) =>
      exists s', read_chunk_meta d f (r_bit st) (stream st) = Ok (m, s') /\
                 pos_after st s' = 64 * i' + j'
  | Err k => read_chunk_meta d f (r_bit st) (stream st) = Err k
  | Panic => False
  end.
Proof.
  intros Hb Hp. pose proof (rf_chunk_meta_bytes_eq d f (r_bytes st) (r_bit st) Hb Hp) as H.
  fold (stream st) in H.
  destruct (rf_chunk_meta_bytes d f (r_bytes st) (r_bit st)) as [[m [i' j']]|k|]; [|exact H|exact H].
  destruct H as (Hm & _ & Hle). eexists. split; [exact Hm|]. apply pos_after_skipn. exact Hle.
Qed.

(* ================================================================== *)
(* 8. non-vacuity                                                      *)
(* ================================================================== *)
From QCo.Lemmas Require WFileL.

(* the two-chunk i16 file of WFileL.wfile_example (delta order 1, gcds on, a run-length
   prefix, a common gcd 3, an empty Huffman code in the second chunk) *)
Definition rx_bytes : list N := WFileL.wx_bytes.
Definition rx_bits : bits := bytes_to_bits rx_bytes.
Definition rx_flags : flags := writer_flags 1 true.
Definition rx_meta1 : meta :=
  mkMeta 10 2 [10%Z] [mkPrefix 6 32778 32778 [true] (Some 1) 3; mkPrefix 3 32768 32774 [false] None 3].
Definition rx_meta2 : meta := mkMeta 4 1 [5%Z] [mkPrefix 3 32768 32768 [] (Some 1) 1].

Example rfile_example :
  file_bytes DI16 rx_flags WFileL.wx_chunks = Ok rx_bytes /\
  (* header: 6 bytes *)
  rf_header_bytes DI16 rx_bytes 0 = Ok (rx_flags, (0, 48)) /\
  read_header DI16 0 rx_bits = Ok (rx_flags, skipn 48 rx_bits) /\
  (* first chunk's metadata: ends at bit 256, left as (i, j) = (3, 64) *)
  rf_chunk_meta_bytes DI16 rx_flags rx_bytes 48 = Ok (Some rx_meta1, (3, 64)) /\
  read_chunk_meta DI16 rx_flags 48 (skipn 48 rx_bits) = Ok (Some rx_meta1, skipn 256 rx_bits) /\
  (* second chunk's metadata, after the 2 body bytes; its prefix has code_len 0: read(0) *)
  rf_chunk_meta_bytes DI16 rx_flags rx_bytes 272 = Ok (Some rx_meta2, (6, 32)) /\
  read_chunk_meta DI16 rx_flags 272 (skipn 272 rx_bits) = Ok (Some rx_meta2, skipn 416 rx_bits) /\
  (* footer, after the 1 body byte *)
  rf_chunk_meta_bytes DI16 rx_flags rx_bytes 424 = Ok (None, (6, 48)) /\
  read_chunk_meta DI16 rx_flags 424 (skipn 424 rx_bits) = Ok (None, skipn 432 rx_bits).
Proof. vm_compute. repeat split; reflexivity. Qed.

(* truncated inside the first chunk's metadata: insufficient data on both sides *)
Example rfile_example_truncated :
  rf_chunk_meta_bytes DI16 rx_flags (firstn 20 rx_bytes) 48 = Err InsufficientData /\
  read_chunk_meta DI16 rx_flags 48 (skipn 48 (bytes_to_bits (firstn 20 rx_bytes)))
  = Err InsufficientData /\
  rf_header_bytes DI16 (firstn 5 rx_bytes) 0 = Err InsufficientData /\
  read_header DI16 0 (bytes_to_bits (firstn 5 rx_bytes)) = Err InsufficientData.
Proof. vm_compute. repeat split; reflexivity. Qed.

(* a corrupted magic chunk byte (44 -> 45), a wrong magic header, another data type's
   header byte: corruption on both sides; unknown flag bits: compatibility on both sides;
   a misaligned start: invalid argument on both sides; a nonzero padding bit after the
   (unchanged) metadata of the second chunk: corruption on both sides *)
Definition set_byte (k : nat) (v : N) (l : list N) : list N := firstn k l ++ [v] ++ skipn (S k) l.

Example rfile_example_corrupted :
  rf_chunk_meta_bytes DI16 rx_flags (set_byte 6 45 rx_bytes) 48 = Err Corruption /\
  read_chunk_meta DI16 rx_flags 48 (skipn 48 (bytes_to_bits (set_byte 6 45 rx_bytes))) = Err Corruption /\
  rf_header_bytes DI16 (set_byte 2 0 rx_bytes) 0 = Err Corruption /\
  read_header DI16 0 (bytes_to_bits (set_byte 2 0 rx_bytes)) = Err Corruption /\
  rf_header_bytes DI32 rx_bytes 0 = Err Corruption /\
  read_header DI32 0 rx_bits = Err Corruption /\
  rf_header_bytes DI16 (set_byte 5 158 rx_bytes) 0 = Err Compatibility /\
  read_header DI16 0 (bytes_to_bits (set_byte 5 158 rx_bytes)) = Err Compatibility /\
  rf_chunk_meta_bytes DI16 rx_flags rx_bytes 51 = Err InvalidArgument /\
  read_chunk_meta DI16 rx_flags 51 (skipn 51 rx_bits) = Err InvalidArgument /\
  rf_chunk_meta_bytes DI16 rx_flags (set_byte 51 67 rx_bytes) 272 = Err Corruption /\
  read_chunk_meta DI16 rx_flags 272 (skipn 272 (bytes_to_bits (set_byte 51 67 rx_bytes))) = Err Corruption.
Proof. vm_compute. repeat split; reflexivity. Qed.

(* every truncation of the file, at the header and at each of the three chunk starts: the
   two sides give the same outcome (value, position, error kind) *)
Definition prefix_eqb (a b : prefix) : bool :=
  (p_count a =? p_count b) && (p_lower a =? p_lower b) && (p_upper a =? p_upper b)
  && list_eqb Bool.eqb (p_code a) (p_code b) && opt_eqb N.eqb (p_jump a) (p_jump b)
  && (p_gcd a =? p_gcd b).
Definition meta_eqb (a b : meta) : bool :=
  (m_n a =? m_n b) && (m_body a =? m_body b) && list_eqb Z.eqb (m_moments a) (m_moments b)
  && list_eqb prefix_eqb (m_table a) (m_table b).
Definition same_outcome {A} (eqb : A -> A -> bool) (total : N)
           (r : res (A * rpos)) (m : res (A * bits)) : bool :=
  match r, m with
  | Ok (a, (i, j)), Ok (a', s') => eqb a a' && (64 * i + j =? total - Nlen s')
  | Err k, Err k' => ekind_eqb k k'
  | _, _ => false
  end.
Definition rx_same (bs : list N) (p : N) : bool :=
  same_outcome flags_eqb (8 * Nlen bs) (rf_header_bytes DI16 bs p)
               (read_header DI16 p (skipn (N.to_nat p) (bytes_to_bits bs)))
  && same_outcome (opt_eqb meta_eqb) (8 * Nlen bs) (rf_chunk_meta_bytes DI16 rx_flags bs p)
                  (read_chunk_meta DI16 rx_flags p (skipn (N.to_nat p) (bytes_to_bits bs))).

Example rfile_example_all_truncations :
  forallb (fun k => let bs := firstn k rx_bytes in
                    forallb (fun p => (8 * Nlen bs <? p) || rx_same bs p) [0; 48; 272; 424; 3])
          (seq 0 (S (length rx_bytes))) = true.
Proof. vm_compute. reflexivity. Qed.

(* and the theorem applies to the example: its hypotheses hold *)
Example rfile_example_thm :
  exists s', read_chunk_meta DI16 rx_flags 272 (skipn 272 rx_bits) = Ok (Some rx_meta2, s').
Proof.
  assert (Hb : Forall (fun b => b < 256) rx_bytes) by (repeat constructor).
  pose proof (rf_chunk_meta_bytes_eq DI16 rx_flags rx_bytes 272 Hb ltac:(vm_compute; discriminate)) as H.
  replace (rf_chunk_meta_bytes DI16 rx_flags rx_bytes 272) with
    (@Ok (option meta * rpos) (Some rx_meta2, (6, 32))) in H by (vm_compute; reflexivity).
  destruct H as (Hm & _). eexists. exact Hm.
Qed.

(* ================================================================== *)
(* assumptions                                                         *)
(* ================================================================== *)
Print Assumptions rf_header_eq.
Print Assumptions rf_chunk_meta_eq.
Print Assumptions rf_header_bytes_eq.
Print Assumptions rf_chunk_meta_bytes_eq.
Print Assumptions rf_header_file_eq.
Print Assumptions rf_header_rstate.
Print Assumptions rf_chunk_meta_rstate.
Print Assumptions rf_parse_prefixes_spec.
Print Assumptions rf_parse_meta_spec.
