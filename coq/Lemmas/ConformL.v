(* ConformL.v — the writer conforms to the frozen format: what [file_bytes] produces is
   exactly the serialisation [enc_file] of a well-formed grammar AST, so the independent
   decoder [dec_file] of Spec.v recovers the same flags, the same chunk metadata and the
   same numbers, and consumes the file to its last bit. *)
From QCo.Lemmas Require Import Tactics BitsL DTypeL DeltaL FlagsL CodecL MetaL SpecL BodyL HeaderL FileL.
From QCo.Model Require Import Base Consts Frozen DType Codec Writer Spec.
Open Scope N_scope.

(* ================================================================== *)
(* 1. component encoders: writer = grammar                             *)
(* ================================================================== *)

Lemma Ok_inj {A} (a b : A) : Ok a = Ok b -> a = b.
Proof. congruence. Qed.

(* ---- fixed-width fields only look at the low bits ---- *)
Lemma putn_ext n : forall x y,
  (forall m, m < N.of_nat n -> N.testbit x m = N.testbit y m) -> putn n x = putn n y.
Proof.
  induction n as [|n IH]; intros x y H; [reflexivity|].
  cbn [putn]. rewrite (H (N.of_nat n)) by lia. f_equal.
  apply IH. intros m Hm. apply H. lia.
Qed.

Lemma put_mod k x : put k (x mod 2 ^ k) = put k x.
Proof.
  unfold put. apply putn_ext. intros m Hm. rewrite N2Nat.id in Hm.
  apply N.mod_pow2_bits_low. exact Hm.
Qed.

(* ---- padding ---- *)
Lemma pad8_s_pad s : pad8 s = s_pad s.
Proof. reflexivity. Qed.

(* ---- widths ---- *)
Lemma count_bits_eq f n : count_bits f n = s_count_bits f n.
Proof. reflexivity. Qed.
Lemma code_len_bits_eq f : code_len_bits f = s_code_len_bits f.
Proof. reflexivity. Qed.
Lemma pdt_eq f d : pdt f d = s_pdt f d.
Proof. reflexivity. Qed.
Lemma p_range_eq p : p_range p = s_range p.
Proof. reflexivity. Qed.

(* ---- varint ---- *)
Lemma varint_cont_enc left : forall x, varint_cont left x = enc_varint_pairs left x.
Proof.
  induction left as [|l IH]; intros x; [reflexivity|].
  cbn [varint_cont enc_varint_pairs]. rewrite IH, N.div2_div. reflexivity.
Qed.

Theorem write_varint_enc x j : write_varint x j = enc_varint x j.
Proof.
  unfold write_varint, enc_varint. rewrite varint_cont_enc, N.shiftr_div_pow2. reflexivity.
Qed.

(* ---- offsets ---- *)
Theorem write_offset_enc r off : off <= r -> write_offset r off = enc_offset r off.
Proof.
  intros Hoff. unfold write_offset, enc_offset. cbv zeta. unfold k_of_range, pow2.
  set (k := N.log2 (r + 1)).
  assert (Hk : 2 ^ k <= r + 1 < 2 ^ (k + 1)).
  { unfold k. rewrite N.add_1_r with (n := N.log2 (r + 1)). apply N.log2_spec. lia. }
  pose proof (pow2_pos k) as HP1.
  rewrite <- (put_mod k off).
  destruct (N.lt_ge_cases off (2 ^ k)) as [Hlo|Hhi].
  - rewrite (N.mod_small off (2 ^ k)) by exact Hlo.
    rewrite (testbit_low off k Hlo).
    rewrite N.pow_add_r, N.pow_1_r in Hk.
    set (P := 2 ^ k) in *. clearbody P.
    destruct ((off <? r - (P - 1)) || (P - 1 <? off)) eqn:E1;
      destruct (P <=? r - off) eqn:E2; try (exfalso; lia).
    + destruct (P <=? off) eqn:E3; [exfalso; lia|reflexivity].
    + reflexivity.
  - assert (Hhi2 : 2 ^ k <= off < 2 ^ (k + 1)) by lia.
    destruct (high_div_mod off k Hhi2) as [_ Hmod]. rewrite Hmod.
    rewrite (testbit_high off k Hhi2).
    rewrite N.pow_add_r, N.pow_1_r in Hk.
    set (P := 2 ^ k) in *. clearbody P.
    destruct ((off <? r - (P - 1)) || (P - 1 <? off)) eqn:E1; [|exfalso; lia].
    destruct (P <=? r - (off - P)) eqn:E2; [|exfalso; lia].
    destruct (P <=? off) eqn:E3; [reflexivity|exfalso; lia].
Qed.

Lemma offset_of_le p u : contains p u = true -> offset_of p u <= s_range p.
Proof.
  intros Hc. unfold contains in Hc. apply andb_true_iff in Hc. destruct Hc as [H1 H2].
  apply N.leb_le in H1. apply N.leb_le in H2.
  unfold offset_of, s_range. destruct (N.eq_dec (p_gcd p) 0) as [E|E].
  - rewrite E. destruct (u - p_lower p), (p_upper p - p_lower p); cbn; lia.
  - apply N.div_le_mono; [exact E|lia].
Qed.

Lemma write_num_offset_enc p u : contains p u = true ->
  write_num_offset p u = enc_offset (s_range p) (offset_of p u).
Proof.
  intros Hc. unfold write_num_offset. rewrite p_range_eq.
  apply write_offset_enc. apply offset_of_le. exact Hc.
Qed.

(* ---- gcd field ---- *)
Theorem write_gcd_enc range g : write_gcd range g = enc_gcd range g.
Proof. reflexivity. Qed.

(* ---- raw numbers ---- *)
Theorem write_unum_enc pd u b : write_unum pd u = Ok b -> b = enc_unum pd u.
Proof.
  unfold write_unum, write_num, enc_unum.
  destruct (to_bytes pd (of_u pd u)); cbn [bind]; intros H; inversion H; reflexivity.
Qed.

Theorem write_snum_enc sd x b : write_num sd x = Ok b -> b = enc_snum sd x.
Proof.
  unfold write_num, enc_snum.
  destruct (to_bytes sd x); cbn [bind]; intros H; inversion H; reflexivity.
Qed.

Theorem write_moments_enc sd : forall ms b,
  write_moments sd ms = Ok b -> b = flat_map (enc_snum sd) ms.
Proof.
  induction ms as [|m t IH]; intros b H.
  - inversion H. reflexivity.
  - cbn [write_moments] in H.
    destruct (write_num sd m) as [bm| |] eqn:Em; cbn [bind] in H; try discriminate.
    destruct (write_moments sd t) as [r| |] eqn:Er; cbn [bind] in H; try discriminate.
    inversion H; subst b. cbn [flat_map].
    rewrite (write_snum_enc _ _ _ Em), (IH r eq_refl). reflexivity.
Qed.

(* ---- flags: the 16 flag bytes the writer can emit ---- *)
Theorem write_flags_enc order gcds : order <= 7 ->
  write_flags (writer_flags order gcds) = Ok (enc_flags (writer_flags order gcds) 0).
Proof.
  intros Ho.
  assert (Hc : order = 0 \/ order = 1 \/ order = 2 \/ order = 3 \/ order = 4 \/
               order = 5 \/ order = 6 \/ order = 7) by lia.
  destruct gcds; destruct Hc as [->|[->|[->|[->|[->|[->|[->| ->]]]]]]]; vm_compute; reflexivity.
Qed.

(* ---- prefixes ---- *)
Theorem write_prefix_list_enc f pd n common : forall ps b,
  write_prefix_list f pd n common ps = Ok b -> b = flat_map (enc_prefix f pd n common) ps.
Proof.
  induction ps as [|p t IH]; intros b H.
  - inversion H. reflexivity.
  - cbn [write_prefix_list] in H.
    destruct (write_unum pd (p_lower p)) as [lo| |] eqn:El; cbn [bind] in H; try discriminate.
    destruct (write_unum pd (p_upper p)) as [up| |] eqn:Eu; cbn [bind] in H; try discriminate.
    destruct (write_prefix_list f pd n common t) as [r| |] eqn:Er; cbn [bind] in H; try discriminate.
    inversion H; subst b. cbn [flat_map].
    rewrite (write_unum_enc _ _ _ El), (write_unum_enc _ _ _ Eu), (IH r eq_refl).
    unfold enc_prefix. rewrite <- !app_assoc. reflexivity.
Qed.

(* the gcd of a prefix is not written under a common gcd: the normalised table has the
   same serialisation *)
Lemma enc_prefix_set_gcd f pd n g0 g p :
  enc_prefix f pd n (Some g0) (set_gcd g p) = enc_prefix f pd n (Some g0) p.
Proof. reflexivity. Qed.

Lemma enc_prefixes_norm f pd n ps :
  flat_map (enc_prefix f pd n (table_common f pd ps)) (norm_table f pd ps)
  = flat_map (enc_prefix f pd n (table_common f pd ps)) ps.
Proof.
  rewrite norm_table_common. destruct (table_common f pd ps) as [g0|]; [|reflexivity].
  cbn [norm_common]. induction ps as [|p t IH]; [reflexivity|].
  cbn [map flat_map]. rewrite IH. reflexivity.
Qed.

Lemma Nlen_norm_table f pd ps : Nlen (norm_table f pd ps) = Nlen ps.
Proof.
  rewrite norm_table_common. destruct (table_common f pd ps); [|reflexivity].
  cbn [norm_common]. unfold Nlen. rewrite map_length. reflexivity.
Qed.

(* the gcd header of a prefix table, as the grammar writes it *)
Definition s_gcd_hdr (f : flags) (pd : dtype) (common : option N) : bits :=
  if fgcd f then
    match common with
    | None => [false]
    | Some g => true :: enc_gcd (2 ^ ubits pd - 1) g
    end
  else [].

Theorem write_prefixes_enc f pd n ps b :
  write_prefixes f pd n ps = Ok b ->
  b = put Frozen.BITS_TO_ENCODE_N_PREFIXES (Nlen ps)
      ++ s_gcd_hdr f pd (table_common f pd ps)
      ++ flat_map (enc_prefix f pd n (table_common f pd ps)) ps.
Proof.
  unfold write_prefixes. cbv zeta. fold (table_common f pd ps).
  destruct (write_prefix_list f pd n (table_common f pd ps) ps) as [r| |] eqn:Er;
    cbn [bind]; intros H; try discriminate.
  apply Ok_inj in H. subst b. rewrite (write_prefix_list_enc _ _ _ _ _ _ Er).
  rewrite <- app_assoc. reflexivity.
Qed.

(* ---- chunk metadata ---- *)
Theorem write_meta_enc f d m b : write_meta f d m = Ok b ->
  b = s_pad (put Frozen.BITS_TO_ENCODE_N_ENTRIES (m_n m)
             ++ put Frozen.BITS_TO_ENCODE_COMPRESSED_BODY_SIZE (m_body m)
             ++ flat_map (enc_snum (sdt d)) (m_moments m)
             ++ put Frozen.BITS_TO_ENCODE_N_PREFIXES (Nlen (m_table m))
             ++ s_gcd_hdr f (s_pdt f d) (table_common f (s_pdt f d) (m_table m))
             ++ flat_map (enc_prefix f (s_pdt f d) (m_n m)
                            (table_common f (s_pdt f d) (m_table m))) (m_table m)).
Proof.
  unfold write_meta.
  destruct (write_moments (sdt d) (m_moments m)) as [mo| |] eqn:Em; cbn [bind]; try discriminate.
  destruct (write_prefixes f (pdt f d) (m_n m) (m_table m)) as [ps| |] eqn:Ep; cbn [bind];
    try discriminate.
  intros H. apply Ok_inj in H. subst b.
  rewrite (write_moments_enc _ _ _ Em), (write_prefixes_enc _ _ _ _ _ Ep), pad8_s_pad.
  reflexivity.
Qed.

(* ---- number blocks ---- *)
(* position in the table of the prefix [find_prefix] selects *)
Fixpoint index_of (ps : list prefix) (u : N) : nat :=
  match ps with
  | [] => O
  | p :: t => if contains p u then O else S (index_of t u)
  end.

Lemma index_of_find ps u p : find_prefix ps u = Some p -> nth_error ps (index_of ps u) = Some p.
Proof.
  unfold find_prefix. induction ps as [|q t IH]; intros H; [discriminate|].
  cbn [find index_of] in *. destruct (contains q u); [exact H|]. cbn [nth_error]. exact (IH H).
Qed.

(* the greedy block decomposition [write_body_fuel] performs: one block per number, or per
   maximal run for a prefix with a jumpstart *)
Fixpoint blocks_of (fuel : nat) (ps : list prefix) (us : list N) : list sblock :=
  match fuel with
  | O => []
  | S f =>
    match us with
    | [] => []
    | u :: t =>
      match find_prefix ps u with
      | None => []
      | Some p =>
        match p_jump p with
        | None => mkBlock (index_of ps u) [offset_of p u] :: blocks_of f ps t
        | Some _ =>
          let extra := run_len p t in
          mkBlock (index_of ps u) (map (offset_of p) (u :: firstn extra t))
          :: blocks_of f ps (skipn extra t)
        end
      end
    end
  end.

Lemma flat_map_map {A B C} (g : A -> B) (f : B -> list C) l :
  flat_map f (map g l) = flat_map (fun x => f (g x)) l.
Proof. induction l as [|a l IH]; [reflexivity|]. cbn [map flat_map]. rewrite IH. reflexivity. Qed.

Lemma run_offsets_enc p run : Forall (fun x => contains p x = true) run ->
  flat_map (write_num_offset p) run = flat_map (enc_offset (s_range p)) (map (offset_of p) run).
Proof.
  intros H. rewrite flat_map_map.
  apply (flat_map_ext_Forall _ _ (fun x => contains p x = true)); [|exact H].
  intros x Hx. apply write_num_offset_enc. exact Hx.
Qed.

Theorem write_body_fuel_enc ps : forall fuel us b,
  write_body_fuel fuel ps us = Ok b -> b = flat_map (enc_block ps) (blocks_of fuel ps us).
Proof.
  induction fuel as [|fuel IH]; intros us b H.
  - cbn [write_body_fuel] in H. apply Ok_inj in H. subst b. reflexivity.
  - destruct us as [|u t].
    + cbn [write_body_fuel] in H. apply Ok_inj in H. subst b. reflexivity.
    + cbn [write_body_fuel blocks_of] in *.
      destruct (find_prefix ps u) as [p|] eqn:Ef; [|discriminate].
      destruct (find_prefix_some _ _ _ Ef) as [Hin Hc].
      pose proof (index_of_find _ _ _ Ef) as Hnth.
      destruct (p_jump p) as [j|] eqn:Ej.
      * cbv zeta.
        destruct (write_body_fuel fuel ps (skipn (run_len p t) t)) as [r| |] eqn:Er;
          cbn [bind] in H; try discriminate.
        apply Ok_inj in H. subst b. rewrite (IH _ _ Er).
        rewrite run_offsets_enc by (constructor; [exact Hc|apply run_len_contains]).
        rewrite write_varint_enc.
        cbn [flat_map]. unfold enc_block at 2. cbn [sb_idx sb_offsets].
        rewrite Hnth, Ej.
        assert (El : Nlen (map (offset_of p) (u :: firstn (run_len p t) t)) - 1
                     = N.of_nat (run_len p t)).
        { unfold Nlen. rewrite map_length. cbn [length]. rewrite firstn_length.
          pose proof (run_len_le p t). lia. }
        rewrite El, <- !app_assoc. reflexivity.
      * destruct (write_body_fuel fuel ps t) as [r| |] eqn:Er; cbn [bind] in H; try discriminate.
        apply Ok_inj in H. subst b. rewrite (IH _ _ Er).
        cbn [flat_map]. unfold enc_block at 2. cbn [sb_idx sb_offsets].
        rewrite Hnth, Ej. cbn [flat_map app]. rewrite app_nil_r.
        rewrite (write_num_offset_enc p u Hc), <- !app_assoc. reflexivity.
Qed.

(* ================================================================== *)
(* 2. the AST the writer's output denotes                              *)
(* ================================================================== *)
(* The table is the normalised one: under a common gcd the per-prefix gcds are not in the
   file, so the grammar's table carries the common gcd in every prefix. *)
Definition ast_chunk (d : dtype) (f : flags) (c : list Z * list prefix) : schunk :=
  let xs := fst c in
  let pd := pdt f d in
  let qs := norm_table f pd (snd c) in
  let us := Writer.chunk_unsigneds d (ford f) xs in
  mkChunk (Nlen xs) (chunk_moments d (ford f) xs) (table_common f pd (snd c)) qs
          (blocks_of (length us) qs us).

Definition ast_of (d : dtype) (f : flags) (chunks : list (list Z * list prefix)) : sfile :=
  mkFile d f O (map (ast_chunk d f) chunks).

Lemma table_common_if f pd ps :
  (if fgcd f then table_common f pd ps else Some 1) = table_common f pd ps.
Proof. unfold table_common. destruct (fgcd f); reflexivity. Qed.

Lemma Nlen_div8 s : Nlen s mod 8 = 0 -> Nlen s / 8 = Nlen (bits_to_bytes s).
Proof.
  intros H. pose proof (bits_to_bytes_Nlen s H) as E.
  set (A := Nlen s) in *. set (B := Nlen (bits_to_bytes s)) in *. clearbody A B. lia.
Qed.

(* the written body, over the normalised table *)
Lemma chunk_body_enc d f xs table body :
  chunk_ok d f (xs, table) ->
  write_body table (Writer.chunk_unsigneds d (ford f) xs) = Ok body ->
  body = enc_body (ast_chunk d f (xs, table)).
Proof.
  intros Hok Hb. unfold chunk_ok in Hok. cbn [fst snd] in Hok.
  destruct Hok as (Hn & Hrep & Hwf & Hg & Hnt & Hmp & Hno & Hcg).
  set (us := Writer.chunk_unsigneds d (ford f) xs) in *.
  assert (Hpos : Forall (fun p => 1 <= p_gcd p) table).
  { destruct Hwf as (_ & Hwp & _). eapply Forall_impl; [|exact Hwp].
    intros p (Hp1 & _). lia. }
  destruct (norm_table_body f (pdt f d) (ubits (pdt f d)) table us Hpos Hno Hwf Hg)
    as (_ & _ & _ & Hsame).
  unfold write_body in Hb.
  destruct (write_body_fuel (length us) table us) as [b| |] eqn:Ebf; cbn [bind] in Hb;
    try discriminate.
  apply Ok_inj in Hb. subst body.
  rewrite <- Hsame in Ebf. apply write_body_fuel_enc in Ebf. rewrite Ebf.
  reflexivity.
Qed.

Theorem chunk_payload_enc d f xs table m bs :
  chunk_ok d f (xs, table) -> chunk_payload d f table xs = Ok (m, bs) ->
  bytes_to_bits bs = enc_chunk_tail f d (ast_chunk d f (xs, table)) /\
  m = mkMeta (Nlen xs) (Nlen (enc_body (ast_chunk d f (xs, table))) / 8)
             (chunk_moments d (ford f) xs) table.
Proof.
  intros Hok Hp. unfold chunk_payload in Hp.
  set (us := Writer.chunk_unsigneds d (ford f) xs) in *.
  destruct (write_body table us) as [body| |] eqn:Eb; cbn [bind] in Hp; try discriminate.
  pose proof (chunk_body_enc d f xs table body Hok Eb) as Hbody.
  assert (Hb8 : Nlen body mod 8 = 0) by (rewrite Hbody; apply enc_body_len).
  set (m0 := mkMeta (Nlen xs) (Nlen (bits_to_bytes body)) (chunk_moments d (ford f) xs) table) in *.
  destruct (write_meta f d m0) as [mb| |] eqn:Em; cbn [bind] in Hp; try discriminate.
  apply Ok_inj in Hp. injection Hp as Hm Hbs. subst m bs.
  pose proof (write_meta_aligned f d m0 mb Em) as Hmb8.
  split.
  - rewrite bytes_to_bits_app.
    rewrite (bytes_to_bits_to_bytes mb Hmb8), (bytes_to_bits_to_bytes body Hb8).
    rewrite (write_meta_enc _ _ _ _ Em).
    unfold enc_chunk_tail. cbv zeta. rewrite <- Hbody. f_equal.
    unfold m0. cbn [m_n m_body m_moments m_table].
    cbn [ast_chunk sc_n sc_moments sc_common sc_table fst snd].
    rewrite table_common_if, <- pdt_eq, enc_prefixes_norm, Nlen_norm_table.
    rewrite (Nlen_div8 body Hb8). reflexivity.
  - unfold m0. rewrite <- Hbody, (Nlen_div8 body Hb8). reflexivity.
Qed.

Lemma bytes_to_bits_single b : bytes_to_bits [b] = put 8 b.
Proof. unfold bytes_to_bits. cbn [flat_map]. apply app_nil_r. Qed.

Lemma chunks_bytes_enc d f : forall chunks cb,
  Forall (chunk_ok d f) chunks -> chunks_bytes d f chunks = Ok cb ->
  bytes_to_bits cb = flat_map (enc_chunk f d) (map (ast_chunk d f) chunks).
Proof.
  induction chunks as [|[xs table] t IH]; intros cb Hok H.
  - cbn [chunks_bytes] in H. apply Ok_inj in H. subst cb. reflexivity.
  - cbn [chunks_bytes] in H.
    destruct (chunk_payload d f table xs) as [[m bs]| |] eqn:Ep; cbn [bind] in H; try discriminate.
    destruct (chunks_bytes d f t) as [r| |] eqn:Er; cbn [bind] in H; try discriminate.
    apply Ok_inj in H. subst cb.
    inversion Hok as [|? ? Hok1 Hokt]; subst.
    destruct (chunk_payload_enc d f xs table m bs Hok1 Ep) as [Hbs _].
    rewrite !bytes_to_bits_app, bytes_to_bits_single, Hbs, (IH r Hokt eq_refl).
    cbn [map flat_map]. rewrite enc_chunk_split, <- app_assoc. reflexivity.
Qed.

(* the writer's output is the grammar's serialisation of [ast_of] *)
Theorem writer_is_grammar : forall d order gcds chunks bytes,
  order <= 7 ->
  Forall (chunk_ok d (writer_flags order gcds)) chunks ->
  file_bytes d (writer_flags order gcds) chunks = Ok bytes ->
  bytes_to_bits bytes = enc_file (ast_of d (writer_flags order gcds) chunks).
Proof.
  intros d order gcds chunks bytes Ho Hok Hfb.
  set (f := writer_flags order gcds) in *.
  unfold file_bytes, header_bytes in Hfb.
  unfold f in Hfb at 1. rewrite (write_flags_enc order gcds Ho) in Hfb. fold f in Hfb.
  cbn [bind] in Hfb.
  destruct (chunks_bytes d f chunks) as [cb| |] eqn:Ec; cbn [bind] in Hfb; try discriminate.
  apply Ok_inj in Hfb. subst bytes.
  rewrite !bytes_to_bits_app, !bytes_to_bits_single.
  rewrite (chunks_bytes_enc d f chunks cb Hok Ec).
  rewrite bytes_to_bits_to_bytes
    by (rewrite enc_flags_length; reflexivity).
  unfold enc_file, ast_of. cbn [sf_dt sf_flags sf_extra_flag_bytes sf_chunks].
  rewrite <- !app_assoc. reflexivity.
Qed.

(* ================================================================== *)
(* 3. the AST is well formed                                           *)
(* ================================================================== *)

(* ---- a validated Huffman table is a complete prefix-free tree for the grammar ---- *)
Lemma s_is_prefix_eq a : forall b, s_is_prefix a b = is_prefix_of a b.
Proof.
  induction a as [|x a IH]; intros [|y b]; cbn [s_is_prefix is_prefix_of]; try reflexivity;
    rewrite IH; reflexivity.
Qed.

Lemma pairwise_prefix_free codes : pairwise_nonprefix codes -> prefix_free codes = true.
Proof.
  induction codes as [|c t IH]; intros H; [reflexivity|].
  cbn [pairwise_nonprefix] in H. destruct H as [HF HP].
  cbn [prefix_free]. apply andb_true_iff. split; [|exact (IH HP)].
  apply forallb_forall. intros c' Hc'. rewrite Forall_forall in HF.
  destruct (HF c' Hc') as [N1 N2].
  assert (E1 : s_is_prefix c c' = false) by (rewrite s_is_prefix_eq; exact N1).
  assert (E2 : s_is_prefix c' c = false) by (rewrite s_is_prefix_eq; exact N2).
  rewrite E1, E2. reflexivity.
Qed.

(* Kraft sum scaled by 2^D *)
Definition ksum (D : N) (codes : list bits) : N :=
  fold_right (fun c acc => acc + 2 ^ (D - Nlen c)) 0 codes.

Lemma ksum_cons D c t : ksum D (c :: t) = ksum D t + 2 ^ (D - Nlen c).
Proof. reflexivity. Qed.

Lemma ksum_tails D : forall codes, existsb is_nil codes = false ->
  ksum D codes = ksum (D - 1) (tails_with false codes) + ksum (D - 1) (tails_with true codes).
Proof.
  induction codes as [|a t IH]; intros H; [reflexivity|].
  cbn [existsb] in H. apply orb_false_iff in H. destruct H as [Ha Ht].
  destruct a as [|x c]; [discriminate|].
  rewrite ksum_cons, (IH Ht), Nlen_cons.
  replace (D - (1 + Nlen c)) with (D - 1 - Nlen c) by lia.
  cbn [tails_with]. destruct x; cbn [Bool.eqb]; rewrite ksum_cons; lia.
Qed.

Lemma tails_with_len b D : forall codes, Forall (fun c => Nlen c <= D) codes ->
  Forall (fun c => Nlen c <= D - 1) (tails_with b codes) /\ (tails_with b codes <> [] -> 1 <= D).
Proof.
  induction codes as [|a t IH]; intros H; [cbn [tails_with]; split; [constructor|congruence]|].
  inversion H as [|? ? Ha Ht]; subst. destruct (IH Ht) as [IH1 IH2].
  destruct a as [|x c]; cbn [tails_with]; [split; assumption|].
  rewrite Nlen_cons in Ha.
  destruct (Bool.eqb x b); [|split; assumption].
  split; [constructor; [lia|exact IH1]|intros _; lia].
Qed.

Lemma tree_ok_nonnil fuel codes : tree_ok fuel codes = true -> codes <> [].
Proof. intros H ->. destruct fuel; discriminate. Qed.

Lemma tree_ok_kraft : forall fuel D codes,
  tree_ok fuel codes = true -> Forall (fun c => Nlen c <= D) codes -> ksum D codes = 2 ^ D.
Proof.
  induction fuel as [|f IH]; intros D codes H HF;
    destruct (tree_ok_inv _ _ H) as [->|(f' & Hf & Hn & H0 & H1)].
  - unfold ksum. cbn [fold_right]. change (Nlen (@nil bool)) with 0. rewrite N.sub_0_r. lia.
  - discriminate.
  - unfold ksum. cbn [fold_right]. change (Nlen (@nil bool)) with 0. rewrite N.sub_0_r. lia.
  - inversion Hf; subst f'.
    destruct (tails_with_len false D codes HF) as [F0 D0].
    destruct (tails_with_len true D codes HF) as [F1 _].
    specialize (D0 (tree_ok_nonnil _ _ H0)).
    rewrite (ksum_tails D codes Hn), (IH _ _ H0 F0), (IH _ _ H1 F1).
    replace D with (D - 1 + 1) at 3 by lia. rewrite N.pow_add_r, N.pow_1_r. lia.
Qed.

Theorem table_ok_s_tree_ok ps :
  table_ok ps = true -> Forall (fun p => Nlen (p_code p) <= 31) ps -> s_tree_ok ps = true.
Proof.
  intros Hok Hlen. destruct ps as [|p t]; [reflexivity|].
  set (ps := p :: t) in *. unfold s_tree_ok.
  change (match ps with [] => true | _ :: _ => ?x end) with x.
  cbv zeta. apply andb_true_iff. split; [apply andb_true_iff; split|].
  - apply forallb_forall. intros c Hc. apply in_map_iff in Hc. destruct Hc as (q & <- & Hq).
    rewrite Forall_forall in Hlen. apply N.leb_le. exact (Hlen q Hq).
  - unfold kraft_ok. apply N.eqb_eq. apply (tree_ok_kraft (S (max_code_len ps)) 32).
    + exact Hok.
    + apply Forall_forall. intros c Hc. apply in_map_iff in Hc. destruct Hc as (q & <- & Hq).
      rewrite Forall_forall in Hlen. specialize (Hlen q Hq). lia.
  - apply pairwise_prefix_free. apply table_ok_pairwise. exact Hok.
Qed.

(* ---- prefixes of the normalised table ---- *)
Lemma table_common_pos f pd ps g :
  Forall (fun p => 1 <= p_gcd p) ps -> table_common f pd ps = Some g -> 1 <= g.
Proof.
  intros Hpos. unfold table_common. destruct (fgcd f).
  - apply common_gcd_pos. exact Hpos.
  - intros H. inversion H. lia.
Qed.

Lemma code_len_le_31 (f : flags) (c : bits) : Nlen c < 2 ^ code_len_bits f -> Nlen c <= 31.
Proof.
  unfold code_len_bits. destruct (f5 f).
  - change (2 ^ Consts.CODE_LEN_BITS_5) with 32. lia.
  - change (2 ^ Consts.CODE_LEN_BITS_4) with 16. lia.
Qed.

Lemma norm_prefixes_wf f pd w n ps :
  Forall (BodyL.wf_prefix w) ps ->
  Forall (MetaL.wf_prefix f pd n (table_common f pd ps)) ps ->
  Forall (SpecL.wf_prefix f pd n (table_common f pd ps)) (norm_table f pd ps).
Proof.
  intros Hb Hm.
  assert (Hpos : Forall (fun p => 1 <= p_gcd p) ps).
  { eapply Forall_impl; [|exact Hb]. intros p (Hp1 & _). lia. }
  rewrite norm_table_common.
  destruct (table_common f pd ps) as [g|] eqn:Ec.
  - pose proof (table_common_pos f pd ps g Hpos Ec) as Hg.
    cbn [norm_common]. apply Forall_forall. intros q Hq.
    apply in_map_iff in Hq. destruct Hq as (p & <- & Hp).
    rewrite Forall_forall in Hb, Hm.
    destruct (Hb p Hp) as (_ & _ & _ & Hj).
    destruct (Hm p Hp) as (H1 & H2 & H3 & H4 & H5 & H6 & H7 & _).
    unfold SpecL.wf_prefix. cbn [set_gcd p_count p_lower p_upper p_code p_jump p_gcd].
    repeat (split; [assumption|]).
    split; [exact (code_len_le_31 f _ H7)|].
    split; [exact H7|]. split; [exact Hj|]. split; [exact Hg|reflexivity].
  - cbn [norm_common]. apply Forall_forall. intros p Hp.
    rewrite Forall_forall in Hb, Hm.
    destruct (Hb p Hp) as (_ & _ & _ & Hj).
    destruct (Hm p Hp) as (H1 & H2 & H3 & H4 & H5 & H6 & H7 & _ & H9 & H10).
    unfold SpecL.wf_prefix.
    repeat (split; [assumption|]).
    split; [exact (code_len_le_31 f _ H7)|].
    split; [exact H7|]. split; [exact Hj|]. split; [exact H9|exact H10].
Qed.

(* ---- blocks ---- *)
Definition found (ps : list prefix) (u : N) : Prop := exists p, find_prefix ps u = Some p.

Lemma good_found ps us : Forall (good ps) us -> Forall (found ps) us.
Proof. intros H. eapply Forall_impl; [|exact H]. intros u [Hf _]. exact Hf. Qed.

Lemma Forall_offsets_le p run : Forall (fun x => contains p x = true) run ->
  Forall (fun o => o <= s_range p) (map (offset_of p) run).
Proof.
  intros H. apply Forall_forall. intros o Ho. apply in_map_iff in Ho.
  destruct Ho as (x & <- & Hx). rewrite Forall_forall in H. apply offset_of_le. exact (H x Hx).
Qed.

Theorem blocks_of_wf ps : forall fuel us,
  Forall (found ps) us -> Nlen us <= 2 ^ 24 -> Forall (wf_block ps) (blocks_of fuel ps us).
Proof.
  induction fuel as [|fuel IH]; intros us Hf Hlen; [constructor|].
  destruct us as [|u t]; [constructor|].
  inversion Hf as [|? ? [p Ef] Hft]; subst.
  cbn [blocks_of]. rewrite Ef.
  destruct (find_prefix_some _ _ _ Ef) as [Hin Hc].
  pose proof (index_of_find _ _ _ Ef) as Hnth.
  rewrite Nlen_cons in Hlen.
  destruct (p_jump p) as [j|] eqn:Ej.
  - cbv zeta. pose proof (run_len_le p t) as Hrl.
    constructor.
    + exists p. cbn [sb_idx sb_offsets]. split; [exact Hnth|]. rewrite Ej.
      assert (El : Nlen (map (offset_of p) (u :: firstn (run_len p t) t))
                   = 1 + N.of_nat (run_len p t)).
      { unfold Nlen. rewrite map_length. cbn [length]. rewrite firstn_length. lia. }
      rewrite El. split; [lia|]. split; [unfold Nlen in Hlen; lia|].
      apply Forall_offsets_le. constructor; [exact Hc|apply run_len_contains].
    + apply IH; [apply Forall_skipn; exact Hft|].
      unfold Nlen in *. rewrite skipn_length. lia.
  - constructor.
    + exists p. cbn [sb_idx sb_offsets]. split; [exact Hnth|]. rewrite Ej.
      split; [rewrite Nlen_cons, Nlen_nil; lia|]. split; [reflexivity|].
      constructor; [apply offset_of_le; exact Hc|constructor].
    + apply IH; [exact Hft|lia].
Qed.

Theorem blocks_of_total ps : forall fuel us,
  (length us <= fuel)%nat -> Forall (found ps) us ->
  length (flat_map sb_offsets (blocks_of fuel ps us)) = length us.
Proof.
  induction fuel as [|fuel IH]; intros us Hfu Hf.
  - destruct us; [reflexivity|cbn [length] in Hfu; lia].
  - destruct us as [|u t]; [reflexivity|].
    inversion Hf as [|? ? [p Ef] Hft]; subst.
    cbn [blocks_of]. rewrite Ef. cbn [length] in Hfu.
    destruct (p_jump p) as [j|].
    + cbv zeta. pose proof (run_len_le p t) as Hrl.
      cbn [flat_map sb_offsets]. rewrite app_length, map_length.
      rewrite IH by (try (apply Forall_skipn; exact Hft); rewrite skipn_length; lia).
      cbn [length]. rewrite firstn_length, skipn_length. lia.
    + cbn [flat_map sb_offsets app length]. rewrite IH by (try exact Hft; lia). reflexivity.
Qed.

(* ---- one chunk ---- *)
Theorem ast_chunk_wf d f xs table :
  chunk_ok d f (xs, table) -> wf_chunk f d (ast_chunk d f (xs, table)).
Proof.
  intros Hok. pose proof Hok as Hok'. unfold chunk_ok in Hok'. cbn [fst snd] in Hok'.
  destruct Hok' as (Hn & Hrep & Hwf & Hg & Hnt & Hmp & Hno & Hcg).
  set (us := Writer.chunk_unsigneds d (ford f) xs) in *.
  set (pd := pdt f d) in *.
  assert (Hpos : Forall (fun p => 1 <= p_gcd p) table).
  { destruct Hwf as (_ & Hwp & _). eapply Forall_impl; [|exact Hwp].
    intros p (Hp1 & _). lia. }
  destruct (norm_table_body f pd (ubits pd) table us Hpos Hno Hwf Hg)
    as (Hwfq & Hgq & Hnil & Hsame).
  assert (Hul : Nlen us = Nlen xs - ford f) by apply chunk_unsigneds_Nlen.
  pose proof (norm_prefixes_wf f pd (ubits pd) (Nlen xs) table
                (proj1 (proj2 Hwf)) Hmp) as Hpre.
  unfold wf_chunk. cbv zeta.
  cbn [ast_chunk sc_n sc_moments sc_common sc_table sc_blocks fst snd].
  fold pd. fold us. set (qs := norm_table f pd table) in *.
  rewrite table_common_if. change (s_pdt f d) with pd.
  split; [exact Hn|].
  split; [apply chunk_moments_length|].
  split; [apply chunk_moments_valid; exact Hrep|].
  split; [unfold qs; rewrite Nlen_norm_table; exact Hnt|].
  split.
  { apply table_ok_s_tree_ok; [exact (proj1 Hwfq)|].
    eapply Forall_impl; [|exact Hpre]. intros p Hp. unfold SpecL.wf_prefix in Hp. tauto. }
  split.
  { intros Eq. apply Hnil in Eq. rewrite Eq in Hg. apply good_nil_table in Hg.
    rewrite <- Hul, Hg. reflexivity. }
  split.
  { unfold table_common. destruct (fgcd f) eqn:Ef; [|reflexivity].
    destruct (common_gcd pd table) as [g|] eqn:Ec; [|exact I].
    split; [exact (common_gcd_pos pd table g Hpos Ec)|].
    exact (Hcg g eq_refl eq_refl). }
  split; [exact Hpre|].
  split.
  { apply blocks_of_wf; [apply good_found; exact Hgq|]. lia. }
  split.
  { unfold Nlen at 1. rewrite blocks_of_total by (try apply good_found; try exact Hgq; lia).
    exact Hul. }
  destruct (write_body_fuel_ok table (length us) us Hg) as (b & Hb).
  assert (Hwb : write_body table us = Ok (pad8 b)) by (unfold write_body; rewrite Hb; reflexivity).
  pose proof (chunk_body_enc d f xs table (pad8 b) Hok Hwb) as Hbody.
  rewrite <- Hbody.
  destruct (body_bytes_bound (ubits pd) table us (pad8 b) Hwf) as [H8 Hlt];
    [apply ubits_le_128|lia|exact Hwb|].
  rewrite (Nlen_div8 _ H8). exact Hlt.
Qed.

Theorem ast_of_wf d f chunks :
  ford f <= 7 -> Forall (chunk_ok d f) chunks -> wf_file (ast_of d f chunks).
Proof.
  intros Ho Hok. split; [exact Ho|].
  cbn [ast_of sf_flags sf_dt sf_chunks].
  induction Hok as [|[xs table] t Hc _ IH]; cbn [map]; constructor; [|exact IH].
  apply ast_chunk_wf. exact Hc.
Qed.

(* ================================================================== *)
(* 4. the numbers the AST denotes; conformance                         *)
(* ================================================================== *)
Lemma offset_lattice p x : in_range p x -> p_lower p + offset_of p x * p_gcd p = x.
Proof.
  intros [Hc Hm]. unfold contains in Hc. apply andb_true_iff in Hc. destruct Hc as [H1 _].
  apply N.leb_le in H1. unfold offset_of.
  pose proof (N.div_mod' (x - p_lower p) (p_gcd p)) as E. rewrite Hm in E.
  rewrite N.mul_comm.
  set (q := p_gcd p * ((x - p_lower p) / p_gcd p)) in *. clearbody q. lia.
Qed.

Lemma map_lattice p run : Forall (in_range p) run ->
  map (fun o => p_lower p + o * p_gcd p) (map (offset_of p) run) = run.
Proof.
  induction 1 as [|x l Hx _ IH]; [reflexivity|].
  cbn [map]. rewrite IH, (offset_lattice p x Hx). reflexivity.
Qed.

Theorem blocks_of_unsigneds ps : forall fuel us,
  (length us <= fuel)%nat -> Forall (good ps) us ->
  flat_map (block_unsigneds ps) (blocks_of fuel ps us) = us.
Proof.
  induction fuel as [|fuel IH]; intros us Hfu Hg.
  - destruct us; [reflexivity|cbn [length] in Hfu; lia].
  - destruct us as [|u t]; [reflexivity|].
    inversion Hg as [|? ? [[p Ef] Hlat] Hgt]; subst.
    cbn [blocks_of]. rewrite Ef. cbn [length] in Hfu.
    destruct (find_prefix_some _ _ _ Ef) as [Hin Hc].
    pose proof (index_of_find _ _ _ Ef) as Hnth.
    assert (Hu : in_range p u) by (split; [exact Hc|exact (Hlat p Hin Hc)]).
    destruct (p_jump p) as [j|].
    + cbv zeta. pose proof (run_len_le p t) as Hrl.
      cbn [flat_map]. unfold block_unsigneds at 1. cbn [sb_idx sb_offsets]. rewrite Hnth.
      rewrite map_lattice by (constructor; [exact Hu|apply (run_in_range ps); assumption]).
      rewrite IH by (try (apply Forall_skipn; exact Hgt); rewrite skipn_length; lia).
      cbn [app]. rewrite firstn_skipn. reflexivity.
    + cbn [flat_map]. unfold block_unsigneds at 1. cbn [sb_idx sb_offsets]. rewrite Hnth.
      cbn [map app]. rewrite (offset_lattice p u Hu), IH by (try exact Hgt; lia). reflexivity.
Qed.

Theorem ast_chunk_nums d f xs table :
  chunk_ok d f (xs, table) -> chunk_nums f d (ast_chunk d f (xs, table)) = xs.
Proof.
  intros Hok. unfold chunk_ok in Hok. cbn [fst snd] in Hok.
  destruct Hok as (Hn & Hrep & Hwf & Hg & Hnt & Hmp & Hno & Hcg).
  set (us := Writer.chunk_unsigneds d (ford f) xs) in *.
  set (pd := pdt f d) in *.
  assert (Hpos : Forall (fun p => 1 <= p_gcd p) table).
  { destruct Hwf as (_ & Hwp & _). eapply Forall_impl; [|exact Hwp].
    intros p (Hp1 & _). lia. }
  destruct (norm_table_body f pd (ubits pd) table us Hpos Hno Hwf Hg)
    as (_ & Hgq & _ & _).
  assert (Hus : Spec.chunk_unsigneds (ast_chunk d f (xs, table)) = us).
  { unfold Spec.chunk_unsigneds. cbn [ast_chunk sc_table sc_blocks fst snd].
    apply blocks_of_unsigneds; [apply le_n|exact Hgq]. }
  unfold chunk_nums. rewrite Hus.
  cbn [ast_chunk sc_n sc_moments fst snd].
  unfold us, Writer.chunk_unsigneds, chunk_moments.
  destruct (ford f =? 0) eqn:Eo.
  - apply map_of_u_to_u. exact Hrep.
  - unfold delta_unsigneds. rewrite map_of_u_to_u
      by (apply deltas_n_srep; apply Forall_srep_to_s; exact Hrep).
    rewrite Nlen_to_nat. unfold delta_moments.
    exact (integrate_roundtrip d (N.to_nat (ford f)) xs Hrep).
Qed.

Theorem ast_of_nums d f chunks :
  Forall (chunk_ok d f) chunks -> file_nums (ast_of d f chunks) = concat (map fst chunks).
Proof.
  intros Hok. unfold file_nums. cbn [ast_of sf_flags sf_dt sf_chunks].
  induction Hok as [|[xs table] t Hc _ IH]; [reflexivity|].
  cbn [map flat_map concat fst]. rewrite IH, (ast_chunk_nums d f xs table Hc). reflexivity.
Qed.

(* the metadata the writer reports for each chunk *)
Fixpoint chunk_metas (d : dtype) (f : flags) (chunks : list (list Z * list prefix)) : list meta :=
  match chunks with
  | [] => []
  | (xs, table) :: t =>
    match chunk_payload d f table xs with
    | Ok (m, _) => m :: chunk_metas d f t
    | _ => chunk_metas d f t
    end
  end.

(* the grammar's view of the chunk metadata is the writer's, with the table normalised
   exactly as the library's reader normalises it (FileL.chunk_roundtrip) *)
Theorem ast_of_metas d f chunks :
  Forall (chunk_ok d f) chunks ->
  map (fun c => chunk_meta c (Nlen (enc_body c) / 8)) (sf_chunks (ast_of d f chunks))
  = map (fun m => mkMeta (m_n m) (m_body m) (m_moments m) (norm_table f (pdt f d) (m_table m)))
        (chunk_metas d f chunks).
Proof.
  intros Hok. cbn [ast_of sf_chunks].
  induction Hok as [|[xs table] t Hc _ IH]; [reflexivity|].
  destruct (chunk_payload_ok d f xs table Hc) as (m & bs & Hp).
  destruct (chunk_payload_enc d f xs table m bs Hc Hp) as [_ Hm].
  cbn [map chunk_metas]. rewrite Hp. cbn [map]. rewrite IH. f_equal.
  rewrite Hm. reflexivity.
Qed.

(* ---- conformance: the independent decoder on the writer's output ---- *)
Theorem conformance : forall d order gcds chunks bytes,
  order <= 7 ->
  Forall (chunk_ok d (writer_flags order gcds)) chunks ->
  file_bytes d (writer_flags order gcds) chunks = Ok bytes ->
  let f := writer_flags order gcds in
  let a := ast_of d f chunks in
  dec_file d (bytes_to_bits bytes)
  = Some (a, map (fun c => Nlen (enc_body c) / 8) (sf_chunks a), [])
  /\ file_nums a = concat (map fst chunks)
  /\ map (fun c => chunk_meta c (Nlen (enc_body c) / 8)) (sf_chunks a)
     = map (fun m => mkMeta (m_n m) (m_body m) (m_moments m) (norm_table f (pdt f d) (m_table m)))
           (chunk_metas d f chunks).
Proof.
  intros d order gcds chunks bytes Ho Hok Hfb f a.
  split; [|split].
  - rewrite (writer_is_grammar d order gcds chunks bytes Ho Hok Hfb).
    apply (dec_enc_file_nil (ast_of d f chunks)).
    apply ast_of_wf; [exact Ho|exact Hok].
  - apply ast_of_nums. exact Hok.
  - apply ast_of_metas. exact Hok.
Qed.

(* with existence of the written file *)
Corollary conformance_ex : forall d order gcds chunks,
  order <= 7 ->
  Forall (chunk_ok d (writer_flags order gcds)) chunks ->
  exists bytes a sizes,
    file_bytes d (writer_flags order gcds) chunks = Ok bytes /\
    dec_file d (bytes_to_bits bytes) = Some (a, sizes, []) /\
    sf_flags a = writer_flags order gcds /\ sf_extra_flag_bytes a = O /\
    file_nums a = concat (map fst chunks).
Proof.
  intros d order gcds chunks Ho Hok.
  destruct (file_bytes_ok d order gcds chunks Ho Hok) as (bytes & Hb).
  destruct (conformance d order gcds chunks bytes Ho Hok Hb) as (H1 & H2 & _).
  eexists. eexists. eexists. split; [exact Hb|]. split; [exact H1|].
  split; [reflexivity|]. split; [reflexivity|exact H2].
Qed.

(* the hypotheses are satisfiable (FileL.chunk_ok_example: a run-length prefix and a
   single-valued range whose recorded gcd differs from the common gcd) *)
Example conformance_example :
  exists bytes a sizes,
    file_bytes DI32 (writer_flags 0 true) [(ex_xs, ex_table); (ex_xs, ex_table)] = Ok bytes /\
    dec_file DI32 (bytes_to_bits bytes) = Some (a, sizes, []) /\
    sf_flags a = writer_flags 0 true /\ sf_extra_flag_bytes a = O /\
    file_nums a = ex_xs ++ ex_xs.
Proof.
  apply (conformance_ex DI32 0 true [(ex_xs, ex_table); (ex_xs, ex_table)]); [lia|].
  constructor; [apply chunk_ok_example|]. constructor; [apply chunk_ok_example|constructor].
Qed.

Print Assumptions write_varint_enc.
Print Assumptions write_offset_enc.
Print Assumptions write_flags_enc.
Print Assumptions write_meta_enc.
Print Assumptions write_body_fuel_enc.
Print Assumptions writer_is_grammar.
Print Assumptions table_ok_s_tree_ok.
Print Assumptions ast_of_wf.
Print Assumptions ast_of_nums.
Print Assumptions conformance.
Print Assumptions conformance_ex.
