(* Tactics.v — shared proof automation. *)
From Coq Require Export List NArith ZArith Bool Lia.
From Coq Require Export ZifyBool ZifyNat ZifyN.
Ltac Zify.zify_post_hook ::= Z.div_mod_to_equations.

(* replace closed powers of two by their values *)
Ltac norm_pows :=
  repeat match goal with
  | |- context [(2 ^ ?k)%Z] =>
      let c := eval vm_compute in (2 ^ k)%Z in
      progress change (2 ^ k)%Z with c
  | |- context [(2 ^ ?k)%N] =>
      let c := eval vm_compute in (2 ^ k)%N in
      progress change (2 ^ k)%N with c
  | H : context [(2 ^ ?k)%Z] |- _ =>
      let c := eval vm_compute in (2 ^ k)%Z in
      progress change (2 ^ k)%Z with c in H
  | H : context [(2 ^ ?k)%N] |- _ =>
      let c := eval vm_compute in (2 ^ k)%N in
      progress change (2 ^ k)%N with c in H
  end.

Ltac destr_if :=
  match goal with
  | |- context [if ?b then _ else _] => destruct b eqn:?
  end.
