(* DeltaL.v — delta encoding: wrapped signed arithmetic, successive differences,
   and the round trip  moments/deltas -> reconstruct / integrate. *)
From QCo.Lemmas Require Import Tactics DTypeL.
From QCo.Model Require Import Base Consts DType Codec.
From QCo.Model Require Spec.
Local Open Scope nat_scope.

(* ------------------------------------------------------------------ *)
(* 1. the signed companion type and its wrapped arithmetic             *)
(* ------------------------------------------------------------------ *)

Lemma ubits_sdt d : ubits (sdt d) = ubits d.
Proof. destruct d; reflexivity. Qed.

Lemma kind_sdt d :
  kind (sdt d) = match kind d with KBool => KBool | _ => KSigned end.
Proof. destruct d; reflexivity. Qed.

(* representable (sdt d) is {0,1} for bool, and the signed range of width [ubits d]
   for every other type *)
Lemma representable_sdt d x :
  representable (sdt d) x =
  match kind d with
  | KBool => (x =? 0)%Z || (x =? 1)%Z
  | _ => (- zpow2 (ubits d - 1) <=? x)%Z && (x <? zpow2 (ubits d - 1))%Z
  end.
Proof. destruct d; reflexivity. Qed.

Lemma representable_sdt_zero d : representable (sdt d) 0%Z = true.
Proof. destruct d; unfold_dt; lia. Qed.

(* closure: holds for arbitrary arguments, the result is always wrapped *)
Lemma s_add_representable d a b : representable (sdt d) (s_add d a b) = true.
Proof. destruct d; unfold_dt; lia. Qed.

Lemma s_sub_representable d a b : representable (sdt d) (s_sub d a b) = true.
Proof. destruct d; unfold_dt; lia. Qed.

(* closure in the form asked for (hypotheses are not needed) *)
Lemma s_add_closed d a b :
  representable (sdt d) a = true -> representable (sdt d) b = true ->
  representable (sdt d) (s_add d a b) = true.
Proof. intros _ _. apply s_add_representable. Qed.

Lemma s_sub_closed d a b :
  representable (sdt d) a = true -> representable (sdt d) b = true ->
  representable (sdt d) (s_sub d a b) = true.
Proof. intros _ _. apply s_sub_representable. Qed.

(* a + (b - a) = b *)
Lemma s_add_s_sub d a b :
  representable (sdt d) a = true -> representable (sdt d) b = true ->
  s_add d a (s_sub d b a) = b.
Proof. destruct d; unfold_dt; intros Ha Hb; lia. Qed.

(* (a + b) - a = b *)
Lemma s_sub_s_add d a b :
  representable (sdt d) a = true -> representable (sdt d) b = true ->
  s_sub d (s_add d a b) a = b.
Proof. destruct d; unfold_dt; intros Ha Hb; lia. Qed.

(* a - a = 0 *)
Lemma s_sub_diag d a : representable (sdt d) a = true -> s_sub d a a = 0%Z.
Proof. destruct d; unfold_dt; intros Ha; lia. Qed.

(* a + 0 = a *)
Lemma s_add_zero_r d a : representable (sdt d) a = true -> s_add d a 0%Z = a.
Proof. destruct d; unfold_dt; intros Ha; lia. Qed.

(* ------------------------------------------------------------------ *)
(* list predicates                                                     *)
(* ------------------------------------------------------------------ *)

Definition srep (d : dtype) (x : Z) : Prop := representable (sdt d) x = true.

Lemma Forall_srep_to_s d xs :
  Forall (fun x => representable d x = true) xs -> Forall (srep d) (map (to_s d) xs).
Proof.
  induction 1; cbn [map]; constructor; auto. apply to_s_representable; assumption.
Qed.

Lemma map_of_s_to_s d xs :
  Forall (fun x => representable d x = true) xs -> map (of_s d) (map (to_s d) xs) = xs.
Proof.
  induction 1; cbn [map]; [reflexivity|]. rewrite of_s_to_s by assumption. congruence.
Qed.

(* ------------------------------------------------------------------ *)
(* 3. deltas1 / deltas_n / moments_of : structure                      *)
(* ------------------------------------------------------------------ *)

Lemma deltas1_cons2 d a b t : deltas1 d (a :: b :: t) = s_sub d b a :: deltas1 d (b :: t).
Proof. reflexivity. Qed.

Lemma deltas1_length d l : length (deltas1 d l) = length l - 1.
Proof.
  induction l as [|a t IH]; [reflexivity|].
  destruct t as [|b t']; [reflexivity|].
  rewrite deltas1_cons2. cbn [length] in *. rewrite IH. lia.
Qed.

Lemma deltas1_length_cons d a t : length (deltas1 d (a :: t)) = length t.
Proof. rewrite deltas1_length. cbn [length]. lia. Qed.

Lemma deltas1_srep d l : Forall (srep d) (deltas1 d l).
Proof.
  induction l as [|a t IH]; [constructor|].
  destruct t as [|b t']; [constructor|].
  rewrite deltas1_cons2. constructor; [apply s_sub_representable | exact IH].
Qed.

Lemma deltas1_firstn d l : forall n, deltas1 d (firstn (S n) l) = firstn n (deltas1 d l).
Proof.
  induction l as [|a t IH]; intros n.
  - destruct n; reflexivity.
  - destruct t as [|b t'].
    + destruct n; reflexivity.
    + destruct n as [|n']; [reflexivity|].
      rewrite deltas1_cons2.
      change (firstn (S (S n')) (a :: b :: t')) with (a :: b :: firstn n' t').
      rewrite deltas1_cons2.
      change (b :: firstn n' t') with (firstn (S n') (b :: t')).
      rewrite IH. reflexivity.
Qed.

Lemma deltas_n_length d order : forall l, length (deltas_n d order l) = length l - order.
Proof.
  induction order as [|o IH]; intros l; cbn [deltas_n].
  - lia.
  - rewrite IH, deltas1_length. lia.
Qed.

Lemma deltas_n_srep d order : forall l, Forall (srep d) l -> Forall (srep d) (deltas_n d order l).
Proof.
  induction order as [|o IH]; intros l H; cbn [deltas_n]; [exact H|].
  apply IH, deltas1_srep.
Qed.

Lemma moments_of_length d order : forall l, length (moments_of d order l) = order.
Proof.
  induction order as [|o IH]; intros l; [reflexivity|].
  destruct l; cbn [moments_of length]; rewrite IH; reflexivity.
Qed.

Lemma moments_of_srep d order : forall l, Forall (srep d) l -> Forall (srep d) (moments_of d order l).
Proof.
  induction order as [|o IH]; intros l H; [constructor|].
  destruct l as [|a t]; cbn [moments_of].
  - constructor; [apply representable_sdt_zero | apply IH; constructor].
  - constructor; [inversion H; assumption | apply IH, deltas1_srep].
Qed.

Lemma delta_moments_length d order xs : length (delta_moments d order xs) = N.to_nat order.
Proof. apply moments_of_length. Qed.

Lemma delta_unsigneds_length d order xs :
  length (delta_unsigneds d order xs) = length xs - N.to_nat order.
Proof. unfold delta_unsigneds. rewrite map_length, deltas_n_length, map_length. reflexivity. Qed.

(* ------------------------------------------------------------------ *)
(* integrate                                                           *)
(* ------------------------------------------------------------------ *)

Notation integrate := Spec.integrate.

(* n-level integration: integrate m0 (integrate m1 (... (integrate m_{k-1} ds))) *)
Definition integ_n (d : dtype) (ms ds : list Z) : list Z :=
  fold_right (fun m acc => integrate d m acc) ds ms.

Lemma integ_n_nil d ds : integ_n d [] ds = ds.
Proof. reflexivity. Qed.

Lemma integ_n_cons d m ms ds : integ_n d (m :: ms) ds = integrate d m (integ_n d ms ds).
Proof. reflexivity. Qed.

Lemma integrate_length d : forall l a, length (integrate d a l) = S (length l).
Proof.
  induction l as [|x t IH]; intros a; cbn [Spec.integrate length]; [reflexivity|].
  rewrite IH. reflexivity.
Qed.

Lemma integ_n_length d : forall ms ds, length (integ_n d ms ds) = length ms + length ds.
Proof.
  induction ms as [|m t IH]; intros ds; [reflexivity|].
  rewrite integ_n_cons, integrate_length, IH. reflexivity.
Qed.

Lemma integrate_hd_tl d a X : integrate d a X = a :: tl (integrate d a X).
Proof. destruct X; reflexivity. Qed.

Lemma firstn_integrate d : forall X n a,
  firstn (S n) (integrate d a X) = integrate d a (firstn n X).
Proof.
  induction X as [|x X' IH]; intros n a.
  - destruct n; reflexivity.
  - destruct n as [|n']; [reflexivity|].
    cbn [Spec.integrate]. change (firstn (S n') (x :: X')) with (x :: firstn n' X').
    cbn [Spec.integrate].
    change (firstn (S (S n')) (a :: integrate d (s_add d a x) X'))
      with (a :: firstn (S n') (integrate d (s_add d a x) X')).
    rewrite IH. reflexivity.
Qed.

(* one level: integrating the first differences from the first element gives the list back *)
Lemma integrate_deltas1 d : forall t a,
  Forall (srep d) (a :: t) -> integrate d a (deltas1 d (a :: t)) = a :: t.
Proof.
  induction t as [|b t' IH]; intros a H; [reflexivity|].
  rewrite deltas1_cons2. cbn [Spec.integrate].
  inversion H as [|? ? Ha Ht]; subst. inversion Ht as [|? ? Hb Ht']; subst.
  rewrite s_add_s_sub by assumption.
  rewrite IH by assumption. reflexivity.
Qed.

Lemma integrate_deltas1_hd d l :
  l <> [] -> Forall (srep d) l ->
  firstn (length l) (integrate d (hd 0%Z l) (deltas1 d l)) = l.
Proof.
  destruct l as [|a t]; [congruence|]. intros _ H. cbn [hd].
  rewrite integrate_deltas1 by assumption. apply firstn_all.
Qed.

(* n levels (signed values) *)
Lemma integ_n_roundtrip d order : forall l,
  Forall (srep d) l ->
  firstn (length l) (integ_n d (moments_of d order (firstn order l)) (deltas_n d order l)) = l.
Proof.
  induction order as [|k IH]; intros l H.
  - cbn [firstn moments_of deltas_n]. rewrite integ_n_nil. apply firstn_all.
  - destruct l as [|a t]; [reflexivity|].
    change (firstn (S k) (a :: t)) with (a :: firstn k t).
    cbn [moments_of deltas_n].
    change (a :: firstn k t) with (firstn (S k) (a :: t)).
    rewrite deltas1_firstn, integ_n_cons.
    cbn [length]. rewrite firstn_integrate.
    rewrite <- (deltas1_length_cons d a t).
    rewrite IH by apply deltas1_srep.
    apply integrate_deltas1; assumption.
Qed.

(* ------------------------------------------------------------------ *)
(* reconstruct vs. integ_n                                             *)
(* ------------------------------------------------------------------ *)

Definition hd_opt (l : list Z) : option Z := match l with [] => None | a :: _ => Some a end.

Lemma advance_moments_cons2 d m m2 t dl :
  advance_moments d (m :: m2 :: t) dl = s_add d m m2 :: advance_moments d (m2 :: t) dl.
Proof. reflexivity. Qed.

Lemma advance_moments_length d dl : forall ms, length (advance_moments d ms dl) = length ms.
Proof.
  induction ms as [|m t IH]; [reflexivity|].
  destruct t as [|m2 t']; [reflexivity|].
  rewrite advance_moments_cons2. cbn [length] in *. rewrite IH. reflexivity.
Qed.

Lemma advance_moments_nonnil d dl ms : ms <> [] -> advance_moments d ms dl <> [].
Proof.
  intros H E. apply (f_equal (@length Z)) in E. rewrite advance_moments_length in E.
  destruct ms; [congruence|discriminate].
Qed.

Lemma integ_n_hd d ms ds : ms <> [] -> integ_n d ms ds = hd 0%Z ms :: tl (integ_n d ms ds).
Proof.
  destruct ms as [|m t]; [congruence|]. intros _.
  rewrite integ_n_cons. cbn [hd]. apply integrate_hd_tl.
Qed.

(* dropping the first output = advancing the moments by one step (up to the final length) *)
Lemma integ_n_tl d : forall ms ds,
  ms <> [] ->
  tl (integ_n d ms ds) =
  firstn (length ms + length ds - 1) (integ_n d (advance_moments d ms (hd_opt ds)) (tl ds)).
Proof.
  induction ms as [|m t IH]; intros ds Hne; [congruence|].
  destruct t as [|m2 t'].
  - destruct ds as [|a rest].
    + reflexivity.
    + cbn [advance_moments hd_opt tl]. rewrite !integ_n_cons, !integ_n_nil.
      cbn [Spec.integrate tl].
      symmetry. apply firstn_all2. rewrite integrate_length. cbn [length]. lia.
  - rewrite advance_moments_cons2.
    rewrite (integ_n_cons d m), (integ_n_cons d (s_add d m m2)).
    rewrite (integ_n_hd d (m2 :: t') ds) by discriminate.
    cbn [hd Spec.integrate tl].
    rewrite IH by discriminate.
    replace (length (m :: m2 :: t') + length ds - 1)
      with (S (length (m2 :: t') + length ds - 1)) by (cbn [length]; lia).
    rewrite firstn_integrate. reflexivity.
Qed.

Lemma reconstruct_S d c ms ds :
  reconstruct d (S c) ms ds =
  (of_s d (hd 0%Z ms) :: fst (reconstruct d c (advance_moments d ms (hd_opt ds)) (tl ds)),
   snd (reconstruct d c (advance_moments d ms (hd_opt ds)) (tl ds))).
Proof.
  cbn [reconstruct]. destruct ds as [|a rest]; cbn [hd_opt tl];
  destruct (reconstruct d c _ _); reflexivity.
Qed.

Lemma reconstruct_integ_n d : forall cnt ms ds,
  ms <> [] -> cnt <= length ms + length ds ->
  fst (reconstruct d cnt ms ds) = map (of_s d) (firstn cnt (integ_n d ms ds)).
Proof.
  induction cnt as [|c IH]; intros ms ds Hne Hle; [reflexivity|].
  rewrite reconstruct_S. cbn [fst].
  rewrite (integ_n_hd d ms ds Hne).
  change (firstn (S c) (hd 0%Z ms :: tl (integ_n d ms ds)))
    with (hd 0%Z ms :: firstn c (tl (integ_n d ms ds))).
  cbn [map]. f_equal.
  rewrite integ_n_tl by assumption.
  rewrite firstn_firstn, Nat.min_l by lia.
  apply IH.
  - apply advance_moments_nonnil; assumption.
  - rewrite advance_moments_length. destruct ds; cbn [length tl] in *; lia.
Qed.

Lemma reconstruct_length d : forall cnt ms ds, length (fst (reconstruct d cnt ms ds)) = cnt.
Proof.
  induction cnt as [|c IH]; intros ms ds; [reflexivity|].
  rewrite reconstruct_S. cbn [fst length]. rewrite IH. reflexivity.
Qed.

(* ------------------------------------------------------------------ *)
(* 2. the round-trip theorems                                          *)
(* ------------------------------------------------------------------ *)

(* (b) Spec-style integration; holds for every order including 0 *)
Theorem integrate_roundtrip d order xs :
  Forall (fun x => representable d x = true) xs ->
  let ss := map (to_s d) xs in
  let ms := moments_of d order (firstn order ss) in
  let ds := deltas_n d order ss in
  map (of_s d)
      (firstn (length xs) (fold_right (fun m acc => Spec.integrate d m acc) ds ms)) = xs.
Proof.
  intros H ss ms ds.
  change (fold_right (fun m acc => Spec.integrate d m acc) ds ms) with (integ_n d ms ds).
  subst ms ds.
  replace (length xs) with (length ss) by apply map_length.
  rewrite integ_n_roundtrip by (apply Forall_srep_to_s; assumption).
  apply map_of_s_to_s; assumption.
Qed.

(* (a) reconstruct (order >= 1) *)
Theorem reconstruct_roundtrip d order xs :
  1 <= order ->
  Forall (fun x => representable d x = true) xs ->
  let ss := map (to_s d) xs in
  let ms := moments_of d order (firstn order ss) in
  let ds := deltas_n d order ss in
  fst (reconstruct d (length xs) ms ds) = xs.
Proof.
  intros Ho H ss ms ds.
  rewrite reconstruct_integ_n.
  - apply (integrate_roundtrip d order xs H).
  - intros E. apply (f_equal (@length Z)) in E. subst ms.
    rewrite moments_of_length in E. cbn [length] in E. lia.
  - subst ms ds. rewrite moments_of_length, deltas_n_length. subst ss. rewrite map_length. lia.
Qed.

(* the same, phrased with the writer-side definitions (order : N) *)
Corollary reconstruct_delta_roundtrip d (order : N) xs :
  (1 <= order)%N ->
  Forall (fun x => representable d x = true) xs ->
  fst (reconstruct d (length xs) (delta_moments d order xs)
         (deltas_n d (N.to_nat order) (map (to_s d) xs))) = xs.
Proof.
  intros Ho H. unfold delta_moments.
  apply (reconstruct_roundtrip d (N.to_nat order) xs); [lia | assumption].
Qed.

(* order = 0: reconstruct with no moments ignores the deltas and emits [of_s d 0];
   so the statement of [reconstruct_roundtrip] is false for order = 0 (e.g. DU16, xs = [0]) *)
Lemma reconstruct_order0_counterexample :
  fst (reconstruct DU16 1 (moments_of DU16 0 (firstn 0 (map (to_s DU16) [0%Z])))
         (deltas_n DU16 0 (map (to_s DU16) [0%Z]))) = [32768%Z].
Proof. vm_compute. reflexivity. Qed.

(* ------------------------------------------------------------------ *)
(* 4. vanishing differences                                            *)
(* ------------------------------------------------------------------ *)

Lemma map_const_repeat {A B} (f : A -> B) (a : A) l :
  Forall (fun x => x = a) l -> map f l = repeat (f a) (length l).
Proof.
  induction 1; cbn [map length repeat]; [reflexivity|]. subst. congruence.
Qed.

Lemma delta_unsigneds_vanishing d (order : nat) xs :
  Forall (fun s => s = 0%Z) (deltas_n d order (map (to_s d) xs)) ->
  delta_unsigneds d (N.of_nat order) xs = repeat (to_u (sdt d) 0%Z) (length xs - order).
Proof.
  intros H. unfold delta_unsigneds. rewrite Nat2N.id.
  rewrite (map_const_repeat _ 0%Z _ H), deltas_n_length, map_length. reflexivity.
Qed.

Lemma delta_unsigneds_vanishing_Forall d (order : nat) xs :
  Forall (fun s => s = 0%Z) (deltas_n d order (map (to_s d) xs)) ->
  Forall (fun u => u = to_u (sdt d) 0%Z) (delta_unsigneds d (N.of_nat order) xs).
Proof.
  intros H. rewrite delta_unsigneds_vanishing by assumption.
  apply Forall_forall. intros u Hu. apply repeat_spec in Hu. exact Hu.
Qed.

Print Assumptions s_add_s_sub.
Print Assumptions integrate_roundtrip.
Print Assumptions delta_unsigneds_vanishing.
Print Assumptions reconstruct_roundtrip.
