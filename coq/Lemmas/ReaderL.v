(* ReaderL.v — the decompressor state machine: failure atomicity, protocol enforcement,
   free_compressed_memory transparency. *)
From QCo.Lemmas Require Import Tactics BitsL CodecL HeaderL.
From QCo.Model Require Import Base Consts DType Codec Reader.
Open Scope N_scope.

(* ------------------------------------------------------------------ *)
(* 1. failure atomicity                                                *)
(* ------------------------------------------------------------------ *)

Definition rfail (o : rout) : bool :=
  match o with
  | ROErr _ | ROPanic | RONone => true
  | _ => false
  end.

(* destruct the scrutinee of some match in the goal / a hypothesis *)
Ltac brk1 :=
  match goal with
  | |- context [match ?x with _ => _ end] => destruct x eqn:?
  | H : context [match ?x with _ => _ end] |- _ => destruct x eqn:?
  end.

Ltac brk_simpl := cbn [fst snd rfail r_term r_flags r_cbd r_bit r_bytes set_pos] in *.
Ltac brk :=
  repeat (brk_simpl; try discriminate; try reflexivity; brk1);
  brk_simpl; try discriminate; try reflexivity; try congruence.

Lemma next_meta_atomic d st f :
  rfail (snd (next_meta d st f)) = true -> fst (next_meta d st f) = st.
Proof.
  unfold next_meta.
  generalize (read_chunk_meta d f (r_bit st) (stream st)); intros r.
  generalize (new_cbd f); intros nc.
  brk.
Qed.

Lemma r_step_atomic d st o :
  rfail (snd (r_step d st o)) = true -> fst (r_step d st o) = st.
Proof.
  destruct o; unfold r_step.
  - brk.
  - generalize (read_header d (r_bit st) (stream st)); intros r. brk.
  - generalize (new_cbd); intros nc.
    brk.
  - brk.
  - brk.
  - generalize (read_header d (r_bit st) (stream st)); intros r.
    destruct (r_term st); [reflexivity|].
    destruct (r_flags st) as [f|]; [|brk].
    destruct (r_cbd st) as [c|]; [|apply next_meta_atomic].
    generalize (cbd_batch d f (total_bits st) c limit false (stream st)); intros cb.
    destruct cb as [[[[xs fin] c'] s']|k|]; try reflexivity.
    destruct (is_nil xs); [|discriminate].
    destruct fin; [|reflexivity].
    destruct (next_meta d _ f) as [st2 out]. destruct out; cbn; try reflexivity; discriminate.
  - brk.
  - reflexivity.
Qed.

Lemma simple_decompress_atomic d st :
  (exists xs, snd (simple_decompress d st) = Ok xs) \/ fst (simple_decompress d st) = st.
Proof.
  unfold simple_decompress.
  destruct (r_step d st RHeader) as [st1 o1].
  destruct o1; try (right; reflexivity).
  destruct (simple_loop _ d st1 []) as [st2 r].
  destruct r; [left; eexists; reflexivity | right; reflexivity | right; reflexivity].
Qed.

Theorem r_failure_atomic : forall d st o,
  rfail (snd (r_do d st o)) = true -> fst (r_do d st o) = st.
Proof.
  intros d st o.
  destruct o; try apply r_step_atomic.
  cbn [r_do].
  destruct (simple_decompress_atomic d st) as [[xs H]|H];
    destruct (simple_decompress d st) as [st' r]; cbn [fst snd] in *.
  - subst r. discriminate.
  - subst st'. destruct r; reflexivity.
Qed.

(* ------------------------------------------------------------------ *)
(* 2. failed operations can be removed from a run                      *)
(* ------------------------------------------------------------------ *)

Fixpoint drop_failed (d : dtype) (st : rstate) (ops : list rop) : list rop :=
  match ops with
  | [] => []
  | o :: t =>
    if rfail (snd (r_do d st o))
    then drop_failed d (fst (r_do d st o)) t
    else o :: drop_failed d (fst (r_do d st o)) t
  end.

Theorem r_failed_ops_removable : forall d st ops,
  r_run d st (drop_failed d st ops) =
  (fst (r_run d st ops), filter (fun o => negb (rfail o)) (snd (r_run d st ops))).
Proof.
  intros d st ops. revert st.
  induction ops as [|o t IH]; intros st; [reflexivity|].
  cbn [drop_failed r_run].
  pose proof (r_failure_atomic d st o) as A.
  destruct (r_do d st o) as [st1 out] eqn:E. cbn [fst snd] in *.
  destruct (rfail out) eqn:F.
  - rewrite (A eq_refl) in *. rewrite IH.
    destruct (r_run d st t) as [st2 outs]. cbn [fst snd filter]. rewrite F. reflexivity.
  - cbn [r_run]. rewrite E, IH.
    destruct (r_run d st1 t) as [st2 outs]. cbn [fst snd filter]. rewrite F. reflexivity.
Qed.

(* ------------------------------------------------------------------ *)
(* 3. protocol enforcement                                             *)
(* ------------------------------------------------------------------ *)

Theorem second_header_refused d st f :
  r_flags st = Some f -> r_step d st RHeader = (st, ROErr InvalidArgument).
Proof. intros H. unfold r_step. rewrite H. destruct (r_term st); reflexivity. Qed.

Theorem meta_before_header_refused d st :
  r_flags st = None -> r_term st = false -> r_step d st RMeta = (st, ROErr InvalidArgument).
Proof. intros H T. unfold r_step. rewrite H, T. reflexivity. Qed.

Theorem meta_inside_body_refused d st c f :
  r_cbd st = Some c -> r_flags st = Some f -> r_term st = false ->
  r_step d st RMeta = (st, ROErr InvalidArgument).
Proof. intros C H T. unfold r_step. rewrite C, H, T. reflexivity. Qed.

Theorem body_outside_chunk_refused d st :
  r_cbd st = None -> r_step d st RBody = (st, ROErr InvalidArgument).
Proof.
  intros C. unfold r_step. rewrite C.
  destruct (r_term st); [reflexivity|]. destruct (r_flags st); reflexivity.
Qed.

Theorem skip_outside_chunk_refused d st :
  r_cbd st = None -> r_step d st RSkip = (st, ROErr InvalidArgument).
Proof. intros C. unfold r_step. rewrite C. destruct (r_term st); reflexivity. Qed.

Theorem after_footer_refused d st :
  r_term st = true ->
  r_step d st RHeader = (st, ROErr InvalidArgument) /\
  r_step d st RMeta = (st, ROErr InvalidArgument) /\
  r_step d st RBody = (st, ROErr InvalidArgument) /\
  r_step d st RSkip = (st, ROErr InvalidArgument) /\
  (forall limit, r_step d st (RNext limit) = (st, RONone)) /\
  r_do d st RSimple = (st, ROErr InvalidArgument).
Proof.
  intros T. unfold r_do, simple_decompress, r_step. rewrite T. repeat split; reflexivity.
Qed.

(* r_term is changed by no r_step other than RNext *)
Lemma r_step_term_unchanged d st o :
  (forall limit, o <> RNext limit) -> r_term (fst (r_step d st o)) = r_term st.
Proof.
  intros Hn. destruct o; unfold r_step.
  - reflexivity.
  - generalize (read_header d (r_bit st) (stream st)); intros r. brk.
  - generalize (new_cbd); intros nc. brk.
  - brk.
  - brk.
  - exfalso. eapply Hn. reflexivity.
  - reflexivity.
  - reflexivity.
Qed.

Lemma next_meta_term d st f :
  r_term st = false -> r_term (fst (next_meta d st f)) = true ->
  snd (next_meta d st f) = ROItem IFooter.
Proof.
  unfold next_meta.
  generalize (read_chunk_meta d f (r_bit st) (stream st)); intros r.
  generalize (new_cbd f); intros nc.
  intros T. brk.
Qed.

Lemma r_step_term_set d st o :
  r_term st = false -> r_term (fst (r_step d st o)) = true ->
  snd (r_step d st o) = ROItem IFooter.
Proof.
  intros T H.
  destruct o; try (rewrite r_step_term_unchanged in H by discriminate; congruence).
  revert H. unfold r_step. rewrite T.
  generalize (read_header d (r_bit st) (stream st)); intros r.
  destruct (r_flags st) as [f|]; [|brk].
  destruct (r_cbd st) as [c|]; [|apply next_meta_term; exact T].
  generalize (cbd_batch d f (total_bits st) c limit false (stream st)); intros cb.
  destruct cb as [[[[xs fin] c'] s']|k|]; cbn [fst snd]; try congruence.
  destruct (is_nil xs); cbn [fst snd r_term]; [|congruence].
  destruct fin; cbn [fst snd]; [|congruence].
  match goal with |- context [next_meta d ?s f] =>
    pose proof (next_meta_term d s f eq_refl) as A end.
  destruct (next_meta d _ f) as [st2 out]. cbn [fst snd] in *.
  destruct out; cbn [fst snd]; try congruence. exact A.
Qed.

Lemma simple_loop_term fuel d : forall st acc,
  r_term (fst (simple_loop fuel d st acc)) = r_term st.
Proof.
  induction fuel as [|fuel IH]; intros st acc; [reflexivity|].
  cbn [simple_loop].
  pose proof (r_step_term_unchanged d st RMeta) as A.
  destruct (r_step d st RMeta) as [st1 o1]. cbn [fst] in A.
  destruct o1; try reflexivity.
  destruct m; [|cbn [fst]; apply A; discriminate].
  pose proof (r_step_term_unchanged d st1 RBody) as B.
  destruct (r_step d st1 RBody) as [st2 o2]. cbn [fst] in B.
  destruct o2; try reflexivity.
  rewrite IH, B, A by discriminate. reflexivity.
Qed.

Lemma simple_decompress_term d st :
  r_term (fst (simple_decompress d st)) = r_term st.
Proof.
  unfold simple_decompress.
  pose proof (r_step_term_unchanged d st RHeader) as A.
  destruct (r_step d st RHeader) as [st1 o1]. cbn [fst] in A.
  destruct o1; try reflexivity.
  pose proof (simple_loop_term (S (length (r_bytes st))) d st1 []) as B.
  destruct (simple_loop _ d st1 []) as [st2 r]. cbn [fst] in B.
  destruct r; try reflexivity. cbn [fst]. rewrite B, A by discriminate. reflexivity.
Qed.

Theorem term_only_set_by_footer d st o :
  r_term st = false -> r_term (fst (r_do d st o)) = true ->
  snd (r_do d st o) = ROItem IFooter.
Proof.
  destruct o; try apply r_step_term_set.
  cbn [r_do]. intros T H. exfalso.
  pose proof (simple_decompress_term d st) as A.
  destruct (simple_decompress d st) as [st' r]. cbn [fst] in A.
  destruct r; cbn [fst] in H; congruence.
Qed.

(* ------------------------------------------------------------------ *)
(* 4. RWrite / RFree never fail; RFree is invisible                    *)
(* ------------------------------------------------------------------ *)

Theorem write_never_fails d st bs :
  r_do d st (RWrite bs) =
  (mkR (r_bytes st ++ bs) (r_bit st) (r_flags st) (r_cbd st) (r_term st), ROUnit).
Proof. reflexivity. Qed.

Theorem free_step_facts d st :
  let st' := fst (r_step d st RFree) in
  r_do d st RFree = (st', ROUnit) /\
  r_step d st RFree = (st', ROUnit) /\
  r_flags st' = r_flags st /\ r_cbd st' = r_cbd st /\ r_term st' = r_term st /\
  r_bit st' = r_bit st - 64 * (r_bit st / 64) /\
  r_bytes st' = skipn (N.to_nat (8 * (r_bit st / 64))) (r_bytes st).
Proof. cbn. repeat split; reflexivity. Qed.

Definition pos_ok (st : rstate) : Prop := r_bit st <= total_bits st.

Lemma skipn_add {A} (a b : nat) : forall l : list A, skipn (a + b) l = skipn b (skipn a l).
Proof.
  induction a as [|a IH]; intros l; [reflexivity|].
  destruct l as [|x l]; [cbn; rewrite skipn_nil; reflexivity|]. cbn. apply IH.
Qed.

(* dropping whole 64-bit words of consumed bytes does not change what remains to be read *)
Lemma skipn_bytes_dropped (bs : list N) (a w : N) :
  64 * w <= a ->
  skipn (N.to_nat (a - 64 * w)) (bytes_to_bits (skipn (N.to_nat (8 * w)) bs)) =
  skipn (N.to_nat a) (bytes_to_bits bs).
Proof.
  intros Hw.
  destruct (Nat.le_gt_cases (N.to_nat (8 * w)) (length bs)) as [Hk|Hk].
  - rewrite <- (firstn_skipn (N.to_nat (8 * w)) bs) at 2.
    rewrite bytes_to_bits_app, skipn_app.
    rewrite (skipn_all2 (n := N.to_nat a)).
    + cbn [app]. f_equal. rewrite bytes_to_bits_length, firstn_length_le by exact Hk. lia.
    + rewrite bytes_to_bits_length, firstn_length_le by exact Hk. lia.
  - rewrite (skipn_all2 (n := N.to_nat (8 * w)) bs) by lia.
    cbn. rewrite skipn_nil. symmetry. apply skipn_all2.
    rewrite bytes_to_bits_length. lia.
Qed.

(* holds in every state; in particular in every pos_ok state *)
Theorem free_stream_unchanged d st : stream (fst (r_step d st RFree)) = stream st.
Proof.
  unfold stream. cbn [r_step fst r_bit r_bytes].
  apply skipn_bytes_dropped.
  pose proof (N.mul_div_le (r_bit st) 64). lia.
Qed.

Corollary free_stream_unchanged_pos_ok d st :
  pos_ok st -> stream (fst (r_step d st RFree)) = stream st.
Proof. intros _. apply free_stream_unchanged. Qed.

Lemma Nlen_skipn {A} n (l : list A) : Nlen (skipn n l) = Nlen l - N.of_nat n.
Proof. unfold Nlen. rewrite skipn_length. lia. Qed.

Theorem free_remaining_unchanged d st :
  let st' := fst (r_step d st RFree) in
  total_bits st' - r_bit st' = total_bits st - r_bit st /\
  r_bit st' mod 64 = r_bit st mod 64.
Proof.
  cbn [r_step fst]. unfold total_bits. cbn [r_bit r_bytes].
  rewrite Nlen_skipn.
  pose proof (N.mul_div_le (r_bit st) 64).
  set (w := r_bit st / 64) in *. clearbody w.
  split; lia.
Qed.

(* ---- pos_ok is an invariant ---- *)

Lemma pos_after_le st s' : pos_after st s' <= total_bits st.
Proof. unfold pos_after. apply N.le_sub_l. Qed.

Lemma pos_ok_init : pos_ok r_init.
Proof. unfold pos_ok, total_bits, r_init. cbn. lia. Qed.

Ltac pos_fin :=
  try assumption;
  unfold pos_ok, total_bits in *; brk_simpl;
  try (unfold pos_after, total_bits; lia).

Lemma next_meta_pos_ok d st f : pos_ok st -> pos_ok (fst (next_meta d st f)).
Proof.
  unfold next_meta.
  generalize (read_chunk_meta d f (r_bit st) (stream st)); intros r.
  generalize (new_cbd f); intros nc.
  intros P. brk; pos_fin.
Qed.

Lemma r_step_pos_ok d st o : pos_ok st -> pos_ok (fst (r_step d st o)).
Proof.
  intros P. destruct o; unfold r_step.
  - unfold pos_ok, total_bits in *. cbn [fst r_bit r_bytes]. rewrite Nlen_app. lia.
  - generalize (read_header d (r_bit st) (stream st)); intros r. brk; pos_fin.
  - generalize (new_cbd); intros nc. brk; pos_fin.
  - brk; pos_fin.
  - brk; pos_fin.
  - generalize (read_header d (r_bit st) (stream st)); intros r.
    destruct (r_term st); [exact P|].
    destruct (r_flags st) as [f|]; [|brk; pos_fin].
    destruct (r_cbd st) as [c|]; [|apply next_meta_pos_ok; exact P].
    generalize (cbd_batch d f (total_bits st) c limit false (stream st)); intros cb.
    destruct cb as [[[[xs fin] c'] s']|k|]; try exact P.
    destruct (is_nil xs); [|pos_fin].
    destruct fin; [|exact P].
    match goal with |- context [next_meta d ?s f] =>
      assert (A : pos_ok (fst (next_meta d s f))) by (apply next_meta_pos_ok; pos_fin) end.
    destruct (next_meta d _ f) as [st2 out]. destruct out; assumption.
  - cbn [fst]. unfold pos_ok, total_bits in *. cbn [r_bit r_bytes].
    rewrite Nlen_skipn.
    pose proof (N.mul_div_le (r_bit st) 64).
    set (w := r_bit st / 64) in *. clearbody w. lia.
  - exact P.
Qed.

Lemma simple_loop_pos_ok fuel d : forall st acc,
  pos_ok st -> pos_ok (fst (simple_loop fuel d st acc)).
Proof.
  induction fuel as [|fuel IH]; intros st acc P; [exact P|].
  cbn [simple_loop].
  pose proof (r_step_pos_ok d st RMeta P) as A.
  destruct (r_step d st RMeta) as [st1 o1]. cbn [fst] in A.
  destruct o1; try exact P.
  destruct m; [|exact A].
  pose proof (r_step_pos_ok d st1 RBody A) as B.
  destruct (r_step d st1 RBody) as [st2 o2]. cbn [fst] in B.
  destruct o2; try exact P.
  apply IH. exact B.
Qed.

Theorem r_do_pos_ok d st o : pos_ok st -> pos_ok (fst (r_do d st o)).
Proof.
  intros P. destruct o; try (apply r_step_pos_ok; exact P).
  cbn [r_do]. unfold simple_decompress.
  pose proof (r_step_pos_ok d st RHeader P) as A.
  destruct (r_step d st RHeader) as [st1 o1]. cbn [fst] in A.
  destruct o1; try exact P.
  pose proof (simple_loop_pos_ok (S (length (r_bytes st))) d st1 [] A) as B.
  destruct (simple_loop _ d st1 []) as [st2 r]. cbn [fst] in B.
  destruct r; assumption.
Qed.

Theorem r_run_pos_ok d : forall ops st, pos_ok st -> pos_ok (fst (r_run d st ops)).
Proof.
  induction ops as [|o t IH]; intros st P; [exact P|].
  cbn [r_run].
  pose proof (r_do_pos_ok d st o P) as A.
  destruct (r_do d st o) as [st1 out]. cbn [fst] in A.
  specialize (IH st1 A). destruct (r_run d st1 t) as [st2 outs]. exact IH.
Qed.

Corollary reachable_pos_ok d ops : pos_ok (fst (r_run d r_init ops)).
Proof. apply r_run_pos_ok, pos_ok_init. Qed.

(* ------------------------------------------------------------------ *)
(* 5. decoders never lengthen the stream                               *)
(* ------------------------------------------------------------------ *)

(* decompose a hypothesis built from binds / matches *)
Ltac inv1 :=
  match goal with
  | H : Ok _ = Ok _ |- _ => inversion H; subst; clear H
  | H : Some _ = Some _ |- _ => inversion H; subst; clear H
  | H : (_, _) = (_, _) |- _ => inversion H; subst; clear H
  | H : Err _ = Ok _ |- _ => discriminate H
  | H : Panic = Ok _ |- _ => discriminate H
  | H : None = Some _ |- _ => discriminate H
  | H : context [match ?x with _ => _ end] |- _ => destruct x eqn:?
  end.
Ltac inv := unfold bind in *; repeat inv1.

Lemma take_bits_len n : forall s h r,
  take_bits n s = Some (h, r) -> (length r + n = length s)%nat.
Proof.
  induction n as [|n IH]; intros s h r H; cbn in H.
  - inv. lia.
  - destruct s as [|b t]; [discriminate|].
    destruct (take_bits n t) as [[h' r']|] eqn:E; [|discriminate].
    inv. apply IH in E. cbn. lia.
Qed.

Lemma get_bits_len n s h r :
  get_bits n s = Ok (h, r) -> (length r + N.to_nat n = length s)%nat.
Proof.
  unfold get_bits. intros H.
  destruct (take_bits (N.to_nat n) s) as [[h' r']|] eqn:E; [|discriminate].
  inv. eapply take_bits_len; eassumption.
Qed.

Lemma getn_acc_len n : forall acc s v r,
  getn_acc n acc s = Some (v, r) -> (length r + n = length s)%nat.
Proof.
  induction n as [|n IH]; intros acc s v r H; cbn in H.
  - inv. lia.
  - destruct s as [|b t]; [discriminate|]. apply IH in H. cbn. lia.
Qed.

Lemma get_len n s v r : get n s = Ok (v, r) -> (length r <= length s)%nat.
Proof.
  unfold get, getn. intros H.
  destruct (getn_acc (N.to_nat n) 0 s) as [[v' r']|] eqn:E; [|discriminate].
  inv. apply getn_acc_len in E. lia.
Qed.

Lemma get1_len s b r : get1 s = Ok (b, r) -> (S (length r) = length s)%nat.
Proof. destruct s; cbn; intros H; inv. reflexivity. Qed.

Ltac inv ::= cbv zeta in *; unfold bind in *; repeat inv1.

Ltac lenH H := first
  [ apply get_len in H | apply get1_len in H | apply get_bits_len in H ].
Ltac lens := repeat match goal with H : _ = _ |- _ => lenH H end.

Lemma read_aligned_len bit n s bs r :
  read_aligned bit n s = Ok (bs, r) -> (length r + N.to_nat (8 * n) = length s)%nat.
Proof. unfold read_aligned. intros H. inv. lens. lia. Qed.

Lemma read_flag_payload_len fuel : forall acc s p r,
  read_flag_payload fuel acc s = Ok (p, r) -> (length r <= length s)%nat.
Proof.
  induction fuel as [|fuel IH]; intros acc s p r H; cbn [read_flag_payload] in H; [discriminate|].
  inv; lens; try (apply IH in H); lia.
Qed.

Lemma parse_flags_len s f r : parse_flags s = Ok (f, r) -> (length r <= length s)%nat.
Proof.
  unfold parse_flags. intros H.
  destruct (read_flag_payload (S (length s)) [] s) as [[p s']|k|] eqn:E; cbn [bind] in H;
    try discriminate.
  apply read_flag_payload_len in E. inv. lia.
Qed.

Lemma read_header_len d bit s f r :
  read_header d bit s = Ok (f, r) -> (length r <= length s)%nat.
Proof.
  unfold read_header. intros H. inv.
  repeat match goal with H : read_aligned _ _ _ = _ |- _ => apply read_aligned_len in H end.
  apply parse_flags_len in H. lia.
Qed.

Lemma read_num_len d s x r : read_num d s = Ok (x, r) -> (length r <= length s)%nat.
Proof. unfold read_num. intros H. inv. lens. lia. Qed.

Lemma read_unum_len d s x r : read_unum d s = Ok (x, r) -> (length r <= length s)%nat.
Proof.
  unfold read_unum. intros H. inv.
  match goal with H : read_num _ _ = _ |- _ => apply read_num_len in H end. lia.
Qed.

Lemma read_moments_len sd cnt : forall s ms r,
  read_moments sd cnt s = Ok (ms, r) -> (length r <= length s)%nat.
Proof.
  induction cnt as [|cnt IH]; intros s ms r H; cbn [read_moments] in H.
  - inv. lia.
  - inv.
    match goal with H : read_num _ _ = _ |- _ => apply read_num_len in H end.
    match goal with H : read_moments _ _ _ = _ |- _ => apply IH in H end. lia.
Qed.

Lemma read_gcd_len range s g r : read_gcd range s = Ok (g, r) -> (length r <= length s)%nat.
Proof. unfold read_gcd. intros H. inv; lens; lia. Qed.

Ltac lenH H ::= first
  [ apply get_len in H | apply get1_len in H | apply get_bits_len in H
  | apply read_aligned_len in H | apply parse_flags_len in H | apply read_header_len in H
  | apply read_num_len in H | apply read_unum_len in H | apply read_moments_len in H
  | apply read_gcd_len in H ].

Lemma read_prefix_list_len f pd n common cnt : forall s ps r,
  read_prefix_list f pd n common cnt s = Ok (ps, r) -> (length r <= length s)%nat.
Proof.
  induction cnt as [|cnt IH]; intros s ps r H; cbn [read_prefix_list] in H.
  - inv. lia.
  - inv;
    match goal with H : read_prefix_list _ _ _ _ _ _ = _ |- _ => apply IH in H end;
    lens; lia.
Qed.

Lemma read_prefixes_len f pd n s ps r :
  read_prefixes f pd n s = Ok (ps, r) -> (length r <= length s)%nat.
Proof.
  unfold read_prefixes. intros H. inv;
  match goal with H : read_prefix_list _ _ _ _ _ _ = _ |- _ => apply read_prefix_list_len in H end;
  lens; lia.
Qed.

Lemma drain_pad_len s r : drain_pad s = Ok r -> (length r <= length s)%nat.
Proof. unfold drain_pad. intros H. inv. rewrite skipn_length. lia. Qed.

Ltac lenH H ::= first
  [ apply get_len in H | apply get1_len in H | apply get_bits_len in H
  | apply read_aligned_len in H | apply parse_flags_len in H | apply read_header_len in H
  | apply read_num_len in H | apply read_unum_len in H | apply read_moments_len in H
  | apply read_gcd_len in H | apply read_prefixes_len in H | apply drain_pad_len in H ].

Lemma parse_meta_len f d s m r : parse_meta f d s = Ok (m, r) -> (length r <= length s)%nat.
Proof. unfold parse_meta. intros H. inv; lens; lia. Qed.

(* a chunk's metadata (or the footer) takes at least its magic byte *)
Lemma read_chunk_meta_len d f bit s m r :
  read_chunk_meta d f bit s = Ok (m, r) -> (length r + 8 <= length s)%nat.
Proof.
  unfold read_chunk_meta. intros H. inv; lens;
  try match goal with H : parse_meta _ _ _ = _ |- _ => apply parse_meta_len in H end; lia.
Qed.

(* ---- number blocks ---- *)

Lemma read_offset_len w p s u r : read_offset w p s = Ok (u, r) -> (length r <= length s)%nat.
Proof. unfold read_offset. intros H. inv; lens; lia. Qed.

Lemma read_offsets_len w p reps : forall s l r st,
  read_offsets w p reps s = (l, r, st) -> (length r <= length s)%nat.
Proof.
  induction reps as [|reps IH]; intros s l r st H; cbn [read_offsets] in H.
  - inv. lia.
  - inv; try lia.
    match goal with H : read_offset _ _ _ = _ |- _ => apply read_offset_len in H end.
    match goal with H : read_offsets _ _ _ _ = _ |- _ => apply IH in H end. lia.
Qed.

Lemma read_varint_cont_len left : forall i acc s v r,
  read_varint_cont left i acc s = Ok (v, r) -> (length r <= length s)%nat.
Proof.
  induction left as [|left IH]; intros i acc s v r H; cbn [read_varint_cont] in H.
  - inv. lia.
  - inv; lens; try (apply IH in H); lia.
Qed.

Lemma read_varint_len j s v r : read_varint j s = Ok (v, r) -> (length r <= length s)%nat.
Proof.
  unfold read_varint. intros H. inv. apply read_varint_cont_len in H. lens. lia.
Qed.

Lemma read_code_len ps s p r : read_code ps s = Ok (p, r) -> (length r <= length s)%nat.
Proof. unfold read_code. intros H. inv. rewrite skipn_length. lia. Qed.

Lemma read_code_at_len tb ps s p r :
  read_code_at tb ps s = Ok (p, r) -> (length r <= length s)%nat.
Proof.
  unfold read_code_at. intros H.
  destruct (tsearch 33 tb ps 0 s) as [q|k|]; cbn [bind] in H; try discriminate.
  destruct (Nat.leb (length (p_code q)) _); [|discriminate].
  inversion H; subst; clear H. rewrite skipn_length. lia.
Qed.

Ltac lenH H ::= first
  [ apply get_len in H | apply get1_len in H | apply get_bits_len in H
  | apply read_aligned_len in H | apply parse_flags_len in H | apply read_header_len in H
  | apply read_num_len in H | apply read_unum_len in H | apply read_moments_len in H
  | apply read_gcd_len in H | apply read_prefixes_len in H | apply drain_pad_len in H
  | apply read_offset_len in H | apply read_offsets_len in H | apply read_varint_len in H
  | apply read_code_len in H | apply read_code_at_len in H ].

Lemma read_blocks_len w tb ps fuel : forall room s l r inc st,
  read_blocks fuel w tb ps room s = (l, r, inc, st) -> (length r <= length s)%nat.
Proof.
  induction fuel as [|fuel IH]; intros room s l r inc st H; cbn [read_blocks] in H.
  - inv. lia.
  - inv; try lia;
    repeat match goal with H : read_blocks _ _ _ _ _ _ = _ |- _ => apply IH in H end;
    lens; lia.
Qed.

Lemma read_batch_len w tb ps n_left inc limit eoi s :
  (length (b_rest (read_batch w tb ps n_left inc limit eoi s)) <= length s)%nat.
Proof.
  unfold read_batch. cbv zeta beta.
  repeat match goal with
  | |- context [match ?x with _ => _ end] => destruct x eqn:?
  end; cbn [b_rest];
  repeat match goal with H : read_blocks _ _ _ _ _ _ = _ |- _ => apply read_blocks_len in H end;
  lens; lia.
Qed.

Lemma nd_batch_len w tb c limit eoi s us fin nd' r :
  nd_batch w tb c limit eoi s = Ok (us, fin, nd', r) -> (length r <= length s)%nat.
Proof.
  unfold nd_batch. intros H. cbv zeta in H.
  pose proof (read_batch_len w tb (c_table c) (c_n c - nd_nproc (c_nd c))
                (nd_incomplete (c_nd c)) limit eoi s) as B.
  set (out := read_batch _ _ _ _ _ _ _ _) in *. clearbody out.
  inv; lens; lia.
Qed.

Lemma cbd_batch_len d f tb c limit eoi s xs fin c' r :
  cbd_batch d f tb c limit eoi s = Ok (xs, fin, c', r) -> (length r <= length s)%nat.
Proof.
  unfold cbd_batch. intros H.
  destruct (nd_batch (ubits (pdt f d)) tb c limit eoi s) as [[[[us fin0] nd'] s1]|k|] eqn:E;
    cbn [bind] in H; try discriminate.
  apply nd_batch_len in E. inv; lia.
Qed.

(* ---- the Huffman lookup depends on the held-bit count only through the word
        alignment of the position ---- *)

Definition cong64 (tb1 tb2 : N) (n : nat) : Prop :=
  N.of_nat n <= tb1 /\ N.of_nat n <= tb2 /\ tb1 mod 64 = tb2 mod 64.

Lemma cong64_le tb1 tb2 n m : cong64 tb1 tb2 n -> (m <= n)%nat -> cong64 tb1 tb2 m.
Proof. unfold cong64. intros (A&B&C) L. repeat split; try lia. Qed.

Lemma cong64_pos tb1 tb2 (s : bits) :
  cong64 tb1 tb2 (length s) -> (tb1 - Nlen s) mod 64 = (tb2 - Nlen s) mod 64.
Proof. unfold cong64, Nlen. intros (A&B&C). lia. Qed.

Lemma tsearch_cong tb1 tb2 : forall fuel cands dpt s,
  cong64 tb1 tb2 (length s) ->
  tsearch fuel tb1 cands dpt s = tsearch fuel tb2 cands dpt s.
Proof.
  induction fuel as [|fuel IH]; intros cands dpt s C.
  - destruct cands as [|p [|q l]]; reflexivity.
  - pose proof (cong64_pos tb1 tb2 s C) as E.
    destruct cands as [|p [|q l]]; cbn [tsearch]; try reflexivity; cbv zeta; rewrite E;
      repeat destr_if; try reflexivity;
      apply IH; (eapply cong64_le; [exact C|rewrite skipn_length; lia]).
Qed.

Lemma read_code_at_cong tb1 tb2 ps s :
  cong64 tb1 tb2 (length s) -> read_code_at tb1 ps s = read_code_at tb2 ps s.
Proof. intros C. unfold read_code_at. rewrite (tsearch_cong tb1 tb2 33 ps 0 s C). reflexivity. Qed.

Lemma read_blocks_cong w tb1 tb2 ps : forall fuel room s,
  cong64 tb1 tb2 (length s) ->
  read_blocks fuel w tb1 ps room s = read_blocks fuel w tb2 ps room s.
Proof.
  induction fuel as [|fuel IH]; intros room s C; [reflexivity|].
  cbn [read_blocks]. rewrite (read_code_at_cong tb1 tb2 ps s C).
  destruct (room =? 0); [reflexivity|].
  destruct (read_code_at tb2 ps s) as [[p s1]|k|] eqn:E1; try reflexivity.
  apply read_code_at_len in E1.
  destruct (p_jump p) as [j|].
  - destruct (read_varint j s1) as [[v s2]|k|] eqn:E2; try reflexivity.
    apply read_varint_len in E2. cbv zeta.
    destruct (read_offsets w p (N.to_nat (N.min (v + 1) room)) s2) as [[l s3] st] eqn:E3.
    apply read_offsets_len in E3.
    destruct st; try reflexivity.
    destruct (room <? v + 1); [reflexivity|].
    rewrite (IH (room - N.min (v + 1) room) s3); [reflexivity|].
    eapply cong64_le; [exact C|lia].
  - destruct (read_offsets w p 1 s1) as [[l s2] st] eqn:E3.
    apply read_offsets_len in E3.
    destruct st; try reflexivity.
    rewrite (IH (room - 1) s2); [reflexivity|].
    eapply cong64_le; [exact C|lia].
Qed.

Lemma read_batch_cong w tb1 tb2 ps n_left inc limit eoi s :
  cong64 tb1 tb2 (length s) ->
  read_batch w tb1 ps n_left inc limit eoi s = read_batch w tb2 ps n_left inc limit eoi s.
Proof.
  intros C. unfold read_batch. cbv zeta.
  destruct (N.min n_left limit =? 0); [reflexivity|].
  destruct inc as [[p remaining]|].
  - destruct (read_offsets w p (N.to_nat (N.min remaining (N.min n_left limit))) s)
      as [[l s1] st] eqn:E.
    apply read_offsets_len in E.
    destruct st; try reflexivity.
    rewrite (read_blocks_cong w tb1 tb2 ps _ _ s1); [reflexivity|].
    eapply cong64_le; [exact C|lia].
  - rewrite (read_blocks_cong w tb1 tb2 ps _ _ s C). reflexivity.
Qed.

Lemma nd_batch_cong w tb1 tb2 c limit eoi s :
  cong64 tb1 tb2 (length s) ->
  nd_batch w tb1 c limit eoi s = nd_batch w tb2 c limit eoi s.
Proof.
  intros C. unfold nd_batch. rewrite (read_batch_cong w tb1 tb2 _ _ _ _ _ s C). reflexivity.
Qed.

Lemma cbd_batch_cong d f tb1 tb2 c limit eoi s :
  cong64 tb1 tb2 (length s) ->
  cbd_batch d f tb1 c limit eoi s = cbd_batch d f tb2 c limit eoi s.
Proof.
  intros C. unfold cbd_batch. rewrite (nd_batch_cong _ tb1 tb2 c limit eoi s C). reflexivity.
Qed.

(* ------------------------------------------------------------------ *)
(* 6. simulation: states that look alike to the reader behave alike    *)
(* ------------------------------------------------------------------ *)

Definition same_view (st1 st2 : rstate) : Prop :=
  stream st1 = stream st2 /\
  r_bit st1 mod 64 = r_bit st2 mod 64 /\
  r_flags st1 = r_flags st2 /\
  r_cbd st1 = r_cbd st2 /\
  r_term st1 = r_term st2 /\
  total_bits st1 - r_bit st1 = total_bits st2 - r_bit st2.

Lemma same_view_refl st : same_view st st.
Proof. unfold same_view. repeat split; reflexivity. Qed.

Lemma same_view_sym a b : same_view a b -> same_view b a.
Proof. unfold same_view. intros (?&?&?&?&?&?). repeat split; congruence. Qed.

Lemma same_view_trans a b c : same_view a b -> same_view b c -> same_view a c.
Proof. unfold same_view. intros (?&?&?&?&?&?) (?&?&?&?&?&?). repeat split; congruence. Qed.

Theorem free_same_view d st : same_view (fst (r_step d st RFree)) st.
Proof.
  pose proof (free_stream_unchanged d st) as S.
  pose proof (free_remaining_unchanged d st) as [R M].
  unfold same_view. repeat split; try assumption; reflexivity.
Qed.

Lemma stream_len st : length (stream st) = N.to_nat (total_bits st - r_bit st).
Proof.
  unfold stream, total_bits, Nlen. rewrite skipn_length, bytes_to_bits_length. lia.
Qed.

Lemma stream_shift st k fl cb tm :
  stream (mkR (r_bytes st) (r_bit st + k) fl cb tm) = skipn (N.to_nat k) (stream st).
Proof.
  unfold stream. cbn [r_bit r_bytes]. rewrite N2Nat.inj_add. apply skipn_add.
Qed.

Lemma shift_view st1 st2 k fl cb tm :
  same_view st1 st2 ->
  same_view (mkR (r_bytes st1) (r_bit st1 + k) fl cb tm)
            (mkR (r_bytes st2) (r_bit st2 + k) fl cb tm).
Proof.
  intros (Hs&Hm&Hf&Hc&Ht&Hr). unfold same_view.
  rewrite !stream_shift, Hs. unfold total_bits in *. cbn [r_bit r_bytes r_flags r_cbd r_term].
  repeat split; lia.
Qed.

Lemma pos_after_shift st s' :
  pos_ok st -> (length s' <= length (stream st))%nat ->
  pos_after st s' = r_bit st + (total_bits st - r_bit st - Nlen s').
Proof.
  intros P L. rewrite stream_len in L. unfold pos_after, pos_ok, Nlen in *. lia.
Qed.

Lemma advance_view st1 st2 s' fl cb tm :
  same_view st1 st2 -> pos_ok st1 -> pos_ok st2 ->
  (length s' <= length (stream st1))%nat ->
  same_view (mkR (r_bytes st1) (pos_after st1 s') fl cb tm)
            (mkR (r_bytes st2) (pos_after st2 s') fl cb tm).
Proof.
  intros V P1 P2 L.
  assert (L2 : (length s' <= length (stream st2))%nat)
    by (destruct V as (Hs&_); rewrite <- Hs; exact L).
  rewrite (pos_after_shift st1 s' P1 L), (pos_after_shift st2 s' P2 L2).
  destruct V as (Hs&Hm&Hf&Hc&Ht&Hr). rewrite <- Hr.
  apply shift_view. unfold same_view. repeat split; assumption.
Qed.

Lemma pos_after_stream_len st s' fl cb tm :
  (length s' <= length (stream st))%nat ->
  length (stream (mkR (r_bytes st) (pos_after st s') fl cb tm)) = length s'.
Proof.
  intros L. rewrite stream_len in *. unfold pos_after, total_bits, Nlen in *.
  cbn [r_bit r_bytes]. lia.
Qed.

Lemma read_aligned_mod b1 b2 n s :
  b1 mod 8 = b2 mod 8 -> read_aligned b1 n s = read_aligned b2 n s.
Proof. intros H. unfold read_aligned. rewrite H. reflexivity. Qed.

Lemma read_header_mod d b1 b2 s :
  b1 mod 8 = b2 mod 8 -> read_header d b1 s = read_header d b2 s.
Proof.
  intros H. unfold read_header. rewrite (read_aligned_mod b1 b2 4 s H).
  destruct (read_aligned b2 4 s) as [[mg s1]|k|]; cbn [bind]; try reflexivity.
  rewrite (read_aligned_mod b1 b2 1 s1 H). reflexivity.
Qed.

Lemma read_chunk_meta_mod d f b1 b2 s :
  b1 mod 8 = b2 mod 8 -> read_chunk_meta d f b1 s = read_chunk_meta d f b2 s.
Proof. intros H. unfold read_chunk_meta. rewrite (read_aligned_mod b1 b2 1 s H). reflexivity. Qed.

Lemma same_view_cong st1 st2 :
  same_view st1 st2 -> pos_ok st1 -> pos_ok st2 ->
  cong64 (total_bits st2) (total_bits st1) (length (stream st1)).
Proof.
  intros (Hs&Hm&Hf&Hc&Ht&Hr) P1 P2. rewrite stream_len. unfold cong64, pos_ok in *.
  repeat split; lia.
Qed.

Definition sim_res (r1 r2 : rstate * rout) : Prop :=
  snd r1 = snd r2 /\ same_view (fst r1) (fst r2).

Lemma next_meta_sim d st1 st2 f :
  same_view st1 st2 -> pos_ok st1 -> pos_ok st2 ->
  sim_res (next_meta d st1 f) (next_meta d st2 f).
Proof.
  intros V P1 P2. pose proof V as (Hs&Hm64&Hf&Hc&Ht&Hr).
  assert (Hm : r_bit st1 mod 8 = r_bit st2 mod 8) by lia.
  unfold next_meta. rewrite <- Hs, <- Hf, <- Ht.
  rewrite (read_chunk_meta_mod d f (r_bit st2) (r_bit st1)) by (symmetry; exact Hm).
  destruct (read_chunk_meta d f (r_bit st1) (stream st1)) as [[[m|] s']|k|] eqn:E.
  - apply read_chunk_meta_len in E.
    destruct (new_cbd f m) as [c|k|]; (split; [reflexivity|cbn [fst]]); try exact V.
    apply advance_view; try assumption; lia.
  - apply read_chunk_meta_len in E. split; [reflexivity|cbn [fst]].
    apply advance_view; try assumption; lia.
  - destruct k; (split; [reflexivity|exact V]).
  - split; [reflexivity|exact V].
Qed.

Lemma r_step_sim d st1 st2 o :
  same_view st1 st2 -> pos_ok st1 -> pos_ok st2 ->
  sim_res (r_step d st1 o) (r_step d st2 o).
Proof.
  intros V P1 P2. pose proof V as (Hs&Hm64&Hf&Hc&Ht&Hr).
  assert (Hm : r_bit st1 mod 8 = r_bit st2 mod 8) by lia.
  destruct o; unfold r_step, set_pos.
  - (* RWrite *)
    split; [reflexivity|cbn [fst]].
    unfold same_view, stream, total_bits, pos_ok in *.
    cbn [r_bit r_bytes r_flags r_cbd r_term].
    rewrite !bytes_to_bits_app, !skipn_app, !Nlen_app, !bytes_to_bits_length.
    unfold total_bits, Nlen in *.
    replace (N.to_nat (r_bit st1) - 8 * length (r_bytes st1))%nat with O by lia.
    replace (N.to_nat (r_bit st2) - 8 * length (r_bytes st2))%nat with O by lia.
    rewrite Hs. repeat split; try assumption; lia.
  - (* RHeader *)
    rewrite <- Hs, <- Hf, <- Ht, <- Hc.
    rewrite (read_header_mod d (r_bit st2) (r_bit st1)) by (symmetry; exact Hm).
    destruct (r_term st1); [split; [reflexivity|exact V]|].
    destruct (r_flags st1); [split; [reflexivity|exact V]|].
    destruct (read_header d (r_bit st1) (stream st1)) as [[f s']|k|] eqn:E;
      (split; [reflexivity|cbn [fst]]); try exact V.
    apply read_header_len in E. apply advance_view; assumption.
  - (* RMeta *)
    rewrite <- Hs, <- Hf, <- Ht, <- Hc.
    destruct (r_term st1); [split; [reflexivity|exact V]|].
    destruct (r_flags st1) as [f|]; [|split; [reflexivity|exact V]].
    destruct (r_cbd st1); [split; [reflexivity|exact V]|].
    rewrite (read_chunk_meta_mod d f (r_bit st2) (r_bit st1)) by (symmetry; exact Hm).
    destruct (read_chunk_meta d f (r_bit st1) (stream st1)) as [[[m|] s']|k|] eqn:E.
    + apply read_chunk_meta_len in E.
      destruct (new_cbd f m) as [c|k|]; (split; [reflexivity|cbn [fst]]); try exact V.
      apply advance_view; try assumption; lia.
    + apply read_chunk_meta_len in E. split; [reflexivity|cbn [fst]].
      apply advance_view; try assumption; lia.
    + split; [reflexivity|exact V].
    + split; [reflexivity|exact V].
  - (* RBody *)
    rewrite <- Hs, <- Hf, <- Ht, <- Hc.
    destruct (r_term st1); [split; [reflexivity|exact V]|].
    destruct (r_flags st1) as [f|]; [|split; [reflexivity|exact V]].
    destruct (r_cbd st1) as [c|]; [|split; [reflexivity|exact V]].
    rewrite (cbd_batch_cong d f (total_bits st2) (total_bits st1) c _ _ (stream st1))
      by (apply same_view_cong; assumption).
    destruct (cbd_batch d f (total_bits st1) c (pow2 64 - 1) true (stream st1)) as [[[[xs fin] c'] s']|k|] eqn:E;
      (split; [reflexivity|cbn [fst]]); try exact V.
    apply cbd_batch_len in E. apply advance_view; assumption.
  - (* RSkip *)
    rewrite <- Hf, <- Ht, <- Hc.
    destruct (r_term st1); [split; [reflexivity|exact V]|].
    destruct (r_cbd st1) as [c|]; [|split; [reflexivity|exact V]].
    destruct (c_body c * 8 <? nd_bproc (c_nd c)); [split; [reflexivity|exact V]|].
    set (k := c_body c * 8 - nd_bproc (c_nd c)).
    unfold pos_ok in *.
    destruct (N.leb_spec (r_bit st1 + k) (total_bits st1));
      destruct (N.leb_spec (r_bit st2 + k) (total_bits st2)); try lia;
      (split; [reflexivity|cbn [fst]]); try exact V.
    apply shift_view. exact V.
  - (* RNext *)
    rewrite <- Hs, <- Hf, <- Ht, <- Hc.
    rewrite (read_header_mod d (r_bit st2) (r_bit st1)) by (symmetry; exact Hm).
    destruct (r_term st1) eqn:T; [split; [reflexivity|exact V]|].
    destruct (r_flags st1) as [f|] eqn:F.
    + destruct (r_cbd st1) as [c|] eqn:C; [|apply next_meta_sim; assumption].
      rewrite (cbd_batch_cong d f (total_bits st2) (total_bits st1) c _ _ (stream st1))
        by (apply same_view_cong; assumption).
      destruct (cbd_batch d f (total_bits st1) c limit false (stream st1)) as [[[[xs fin] c'] s']|k|] eqn:E;
        try (split; [reflexivity|exact V]).
      apply cbd_batch_len in E.
      destruct (is_nil xs).
      * destruct fin; [|split; [reflexivity|exact V]].
        match goal with |- sim_res (let (_, _) := next_meta d ?a f in _)
                                   (let (_, _) := next_meta d ?b f in _) =>
          assert (A : sim_res (next_meta d a f) (next_meta d b f)) end.
        { apply next_meta_sim.
          - apply advance_view; assumption.
          - unfold pos_ok, total_bits. cbn [r_bit r_bytes]. apply pos_after_le.
          - unfold pos_ok, total_bits. cbn [r_bit r_bytes]. apply pos_after_le. }
        destruct (next_meta d _ f) as [a1 o1]. destruct (next_meta d _ f) as [a2 o2].
        destruct A as [A1 A2]. cbn [fst snd] in A1, A2. subst o2.
        destruct o1; (split; [reflexivity|cbn [fst]]); assumption.
      * split; [reflexivity|cbn [fst]]. apply advance_view; assumption.
    + destruct (read_header d (r_bit st1) (stream st1)) as [[f s']|k|] eqn:E.
      * split; [reflexivity|cbn [fst]].
        apply read_header_len in E. apply advance_view; assumption.
      * destruct k; (split; [reflexivity|exact V]).
      * split; [reflexivity|exact V].
  - (* RFree *)
    split; [reflexivity|].
    exact (same_view_trans _ _ _ (free_same_view d st1)
             (same_view_trans _ _ _ V (same_view_sym _ _ (free_same_view d st2)))).
  - split; [reflexivity|exact V].
Qed.

(* successful steps of simple_decompress consume input *)
Lemma rheader_consumes d st st' f :
  r_step d st RHeader = (st', ROFlags f) -> (length (stream st') <= length (stream st))%nat.
Proof.
  unfold r_step. intros H.
  destruct (r_term st); [discriminate|]. destruct (r_flags st); [discriminate|].
  destruct (read_header d (r_bit st) (stream st)) as [[f' s']|k|] eqn:E; try discriminate.
  apply read_header_len in E. inversion H; subst; clear H.
  rewrite pos_after_stream_len by exact E. exact E.
Qed.

Lemma rmeta_consumes d st st' m :
  r_step d st RMeta = (st', ROMeta m) -> (length (stream st') + 8 <= length (stream st))%nat.
Proof.
  unfold r_step, set_pos. intros H.
  destruct (r_term st); [discriminate|]. destruct (r_flags st) as [f|]; [|discriminate].
  destruct (r_cbd st); [discriminate|].
  destruct (read_chunk_meta d f (r_bit st) (stream st)) as [[[m'|] s']|k|] eqn:E; try discriminate;
    apply read_chunk_meta_len in E.
  - destruct (new_cbd f m'); try discriminate. inversion H; subst; clear H.
    rewrite pos_after_stream_len by lia. exact E.
  - inversion H; subst; clear H. rewrite pos_after_stream_len by lia. exact E.
Qed.

Lemma rbody_consumes d st st' xs :
  r_step d st RBody = (st', RONums xs) -> (length (stream st') <= length (stream st))%nat.
Proof.
  unfold r_step. intros H.
  destruct (r_term st); [discriminate|]. destruct (r_flags st) as [f|]; [|discriminate].
  destruct (r_cbd st) as [c|]; [|discriminate].
  destruct (cbd_batch d f (total_bits st) c (pow2 64 - 1) true (stream st)) as [[[[xs' fin] c'] s']|k|] eqn:E;
    try discriminate.
  apply cbd_batch_len in E. inversion H; subst; clear H.
  rewrite pos_after_stream_len by exact E. exact E.
Qed.

(* the loop of simple_decompress does not depend on its fuel once there is enough of it *)
Lemma simple_loop_sim d : forall fuel1 fuel2 st1 st2 acc,
  same_view st1 st2 -> pos_ok st1 -> pos_ok st2 ->
  (length (stream st1) < 8 * fuel1)%nat -> (length (stream st2) < 8 * fuel2)%nat ->
  snd (simple_loop fuel1 d st1 acc) = snd (simple_loop fuel2 d st2 acc) /\
  same_view (fst (simple_loop fuel1 d st1 acc)) (fst (simple_loop fuel2 d st2 acc)).
Proof.
  induction fuel1 as [|fuel1 IH]; intros fuel2 st1 st2 acc V P1 P2 L1 L2; [lia|].
  destruct fuel2 as [|fuel2]; [lia|].
  cbn [simple_loop].
  pose proof (r_step_sim d st1 st2 RMeta V P1 P2) as [O1 V1].
  pose proof (r_step_pos_ok d st1 RMeta P1) as Q1.
  pose proof (r_step_pos_ok d st2 RMeta P2) as Q2.
  pose proof (rmeta_consumes d st1) as C1. pose proof (rmeta_consumes d st2) as C2.
  destruct (r_step d st1 RMeta) as [a1 o1]. destruct (r_step d st2 RMeta) as [a2 o2].
  cbn [fst snd] in *. subst o2.
  destruct o1; try (split; [reflexivity|exact V]).
  specialize (C1 _ _ eq_refl). specialize (C2 _ _ eq_refl).
  destruct m as [m|]; [|split; [reflexivity|exact V1]].
  pose proof (r_step_sim d a1 a2 RBody V1 Q1 Q2) as [O2 V2].
  pose proof (r_step_pos_ok d a1 RBody Q1) as R1.
  pose proof (r_step_pos_ok d a2 RBody Q2) as R2.
  pose proof (rbody_consumes d a1) as D1. pose proof (rbody_consumes d a2) as D2.
  destruct (r_step d a1 RBody) as [b1 p1]. destruct (r_step d a2 RBody) as [b2 p2].
  cbn [fst snd] in *. subst p2.
  destruct p1; try (split; [reflexivity|exact V]).
  specialize (D1 _ _ eq_refl). specialize (D2 _ _ eq_refl).
  apply IH; try assumption; lia.
Qed.

Theorem r_do_sim d st1 st2 o :
  same_view st1 st2 -> pos_ok st1 -> pos_ok st2 ->
  snd (r_do d st1 o) = snd (r_do d st2 o) /\
  same_view (fst (r_do d st1 o)) (fst (r_do d st2 o)).
Proof.
  intros V P1 P2.
  destruct o; try (apply r_step_sim; assumption).
  cbn [r_do]. unfold simple_decompress.
  pose proof (r_step_sim d st1 st2 RHeader V P1 P2) as [O1 V1].
  pose proof (r_step_pos_ok d st1 RHeader P1) as Q1.
  pose proof (r_step_pos_ok d st2 RHeader P2) as Q2.
  pose proof (rheader_consumes d st1) as C1. pose proof (rheader_consumes d st2) as C2.
  destruct (r_step d st1 RHeader) as [a1 o1]. destruct (r_step d st2 RHeader) as [a2 o2].
  cbn [fst snd] in *. subst o2.
  destruct o1; try (split; [reflexivity|exact V]).
  specialize (C1 _ _ eq_refl). specialize (C2 _ _ eq_refl).
  assert (L1 : (length (stream a1) < 8 * S (length (r_bytes st1)))%nat).
  { rewrite (stream_len st1) in C1. unfold total_bits, Nlen in C1. lia. }
  assert (L2 : (length (stream a2) < 8 * S (length (r_bytes st2)))%nat).
  { rewrite (stream_len st2) in C2. unfold total_bits, Nlen in C2. lia. }
  pose proof (simple_loop_sim d _ _ a1 a2 [] V1 Q1 Q2 L1 L2) as [O2 V2].
  destruct (simple_loop _ d a1 []) as [b1 r1]. destruct (simple_loop _ d a2 []) as [b2 r2].
  cbn [fst snd] in *. subst r2.
  destruct r1; (split; [reflexivity|cbn [fst]]); assumption.
Qed.

Theorem r_run_sim d : forall ops st1 st2,
  same_view st1 st2 -> pos_ok st1 -> pos_ok st2 ->
  snd (r_run d st1 ops) = snd (r_run d st2 ops) /\
  same_view (fst (r_run d st1 ops)) (fst (r_run d st2 ops)).
Proof.
  induction ops as [|o t IH]; intros st1 st2 V P1 P2; [split; [reflexivity|exact V]|].
  cbn [r_run].
  pose proof (r_do_sim d st1 st2 o V P1 P2) as [O1 V1].
  pose proof (r_do_pos_ok d st1 o P1) as Q1. pose proof (r_do_pos_ok d st2 o P2) as Q2.
  destruct (r_do d st1 o) as [a1 o1]. destruct (r_do d st2 o) as [a2 o2].
  cbn [fst snd] in *. subst o2.
  specialize (IH a1 a2 V1 Q1 Q2).
  destruct (r_run d a1 t) as [b1 l1]. destruct (r_run d a2 t) as [b2 l2].
  cbn [fst snd] in *. destruct IH as [E W]. subst l2. split; [reflexivity|exact W].
Qed.

(* free_compressed_memory is invisible: every later operation gives the same output *)
Theorem free_transparent d st o :
  pos_ok st ->
  snd (r_do d (fst (r_step d st RFree)) o) = snd (r_do d st o) /\
  same_view (fst (r_do d (fst (r_step d st RFree)) o)) (fst (r_do d st o)).
Proof.
  intros P. apply r_do_sim; [apply free_same_view| |exact P].
  apply (r_step_pos_ok d st RFree P).
Qed.

Theorem free_transparent_run d st ops :
  pos_ok st ->
  snd (r_run d st (RFree :: ops)) = ROUnit :: snd (r_run d st ops) /\
  same_view (fst (r_run d st (RFree :: ops))) (fst (r_run d st ops)).
Proof.
  intros P. cbn [r_run r_do].
  pose proof (r_run_sim d ops (fst (r_step d st RFree)) st (free_same_view d st)
                (r_step_pos_ok d st RFree P) P) as [E W].
  cbn [r_step fst] in *.
  destruct (r_run d _ ops) as [b1 l1]. destruct (r_run d st ops) as [b2 l2].
  cbn [fst snd] in *. subst. split; [reflexivity|exact W].
Qed.

Print Assumptions r_failure_atomic.
Print Assumptions r_failed_ops_removable.
Print Assumptions second_header_refused.
Print Assumptions meta_before_header_refused.
Print Assumptions meta_inside_body_refused.
Print Assumptions body_outside_chunk_refused.
Print Assumptions skip_outside_chunk_refused.
Print Assumptions after_footer_refused.
Print Assumptions term_only_set_by_footer.
Print Assumptions write_never_fails.
Print Assumptions free_step_facts.
Print Assumptions free_stream_unchanged.
Print Assumptions free_remaining_unchanged.
Print Assumptions free_same_view.
Print Assumptions r_do_pos_ok.
Print Assumptions reachable_pos_ok.
Print Assumptions r_do_sim.
Print Assumptions r_run_sim.
Print Assumptions free_transparent.
Print Assumptions free_transparent_run.
