(* WFileL.v — the word-level writer program (Model/WFile.v: the BitWriter calls of the real
   compressor, on 64-bit words) drains exactly the bytes of the bit-list model
   (Writer.file_bytes).  Each [wf_write_xxx] appends [write_xxx] to the writer's bits
   (contracts of the BitWriter operations: WordsL.v); the compressed-body-size
   placeholder is back-patched by overwrite_usize at the position the real code computes
   (WordsL.wr_overwrite_placeholder). *)
From QCo.Lemmas Require Import Tactics BitsL DTypeL DeltaL FlagsL CodecL MetaL BodyL HeaderL FileL
     NoPanicL WordsL.
From QCo.Model Require Import Base Consts DType Codec Words Writer WFile.
Open Scope N_scope.

(* ================================================================== *)
(* 0. composing contracts                                              *)
(* ================================================================== *)
(* [w'] is a sound writer state holding the bits of [w] followed by [b] *)
Definition appends (w w' : wr) (b : bits) : Prop :=
  wr_ok w' /\ wr_bits w' = wr_bits w ++ b.

(* the writer is at a byte boundary (BitWriter: j % 8 == 0) *)
Definition aligned (w : wr) : Prop := w_j w mod 8 = 0.

Lemma Ok_inj {A} (a b : A) : Ok a = Ok b -> a = b.
Proof. congruence. Qed.

Lemma appends_refl w : wr_ok w -> appends w w [].
Proof. intros H. split; [exact H|]. rewrite app_nil_r. reflexivity. Qed.

Lemma appends_trans w w1 w2 a b :
  appends w w1 a -> appends w1 w2 b -> appends w w2 (a ++ b).
Proof.
  intros (_ & E1) (H2 & E2). split; [exact H2|]. rewrite E2, E1, app_assoc. reflexivity.
Qed.

Lemma appends_ok w w' b : appends w w' b -> wr_ok w'.
Proof. intros (H & _). exact H. Qed.

Lemma appends_eq w w' b b' : appends w w' b -> b = b' -> appends w w' b'.
Proof. intros H <-. exact H. Qed.

Lemma app_one w b : wr_ok w -> appends w (wr_write_one w b) [b].
Proof. intros H. exact (wr_write_one_spec w b H). Qed.

Lemma app_write w bs : wr_ok w -> appends w (wr_write w bs) bs.
Proof. intros H. exact (wr_write_spec bs w H). Qed.

Lemma app_diff w x n : wr_ok w -> appends w (wr_write_diff w x n) (put n x).
Proof. intros H. exact (wr_write_diff_spec w x n H). Qed.

Lemma app_usize w x n : wr_ok w -> appends w (wr_write_usize w x n) (put n x).
Proof. intros H. exact (wr_write_diff_spec w x n H). Qed.

(* alignment seen on the bits *)
Lemma Nlen_wr_bits w : Nlen (wr_bits w) = wr_bit_size w.
Proof. unfold Nlen. rewrite wr_bits_length, N2Nat.id. reflexivity. Qed.

Lemma aligned_bits w : wr_ok w -> (aligned w <-> Nlen (wr_bits w) mod 8 = 0).
Proof.
  intros H. unfold aligned. rewrite Nlen_wr_bits. symmetry. apply wr_aligned_iff. exact H.
Qed.

Lemma appends_aligned w w' b :
  wr_ok w -> aligned w -> appends w w' b -> Nlen b mod 8 = 0 -> aligned w'.
Proof.
  intros Hw Ha (Hw' & E) Hb.
  apply (aligned_bits w' Hw'). rewrite E, Nlen_app.
  apply (aligned_bits w Hw) in Ha.
  set (x := Nlen (wr_bits w)) in *. set (y := Nlen b) in *. clearbody x y. lia.
Qed.

Lemma pad8_app_aligned (a b : bits) : Nlen a mod 8 = 0 -> pad8 (a ++ b) = a ++ pad8 b.
Proof.
  intros Ha. unfold pad8. rewrite <- app_assoc. f_equal. f_equal. f_equal. f_equal.
  rewrite app_length, Nat2N.inj_add. unfold Nlen in Ha.
  set (x := N.of_nat (length a)) in *. set (y := N.of_nat (length b)). clearbody x y.
  unfold pad_len. lia.
Qed.

(* finish_byte after an aligned start pads what was written since *)
Lemma app_finish w w' b :
  wr_ok w -> aligned w -> appends w w' b ->
  appends w (wr_finish_byte w') (pad8 b) /\ aligned (wr_finish_byte w').
Proof.
  intros Hw Ha (Hw' & E).
  destruct (wr_finish_byte_spec w' Hw') as (Hok & Hb & Hj).
  split; [|exact Hj]. split; [exact Hok|].
  rewrite Hb, E. apply pad8_app_aligned. apply (aligned_bits w Hw). exact Ha.
Qed.

(* aligned bytes *)
Lemma app_aligned_bytes w bytes :
  wr_ok w -> aligned w -> Forall (fun b => b < 256) bytes ->
  exists w', wr_write_aligned_bytes w bytes = Ok w' /\
             appends w w' (bytes_to_bits bytes) /\ aligned w'.
Proof.
  intros Hw Ha Hb.
  destruct (wr_write_aligned_bytes_spec bytes w Hw Ha Hb) as (w' & E & Hok & Hbits & Hj).
  exists w'. split; [exact E|]. split; [split; assumption|exact Hj].
Qed.

Lemma app_aligned_byte w b :
  wr_ok w -> aligned w -> b < 256 ->
  exists w', wf_aligned_byte w b = Ok w' /\ appends w w' (bytes_to_bits [b]) /\ aligned w'.
Proof.
  intros Hw Ha Hb. unfold wf_aligned_byte. apply app_aligned_bytes; try assumption.
  constructor; [exact Hb|constructor].
Qed.

(* 8 * byte_size = number of bits, at a byte boundary *)
Lemma byte_size_aligned w : wr_ok w -> aligned w -> 8 * wr_byte_size w = Nlen (wr_bits w).
Proof.
  intros Hw Ha.
  assert (Hbs : wr_bit_size w mod 8 = 0) by (apply wr_aligned_iff; assumption).
  destruct (wr_drain_bytes_spec w Hw Hbs) as (_ & E & L).
  rewrite <- E, bytes_to_bits_Nlen, L. reflexivity.
Qed.

(* ================================================================== *)
(* 1. NumberLike::write_to                                             *)
(* ================================================================== *)
Lemma wf_write_num_spec w d x b :
  wr_ok w -> write_num d x = Ok b ->
  exists w', wf_write_num w d x = Ok w' /\ appends w w' b.
Proof.
  intros Hw H. unfold write_num in H. unfold wf_write_num.
  destruct (to_bytes d x) as [bs| |]; cbn [bind] in *; try discriminate.
  inversion H; subst b. eexists. split; [reflexivity|]. apply app_write. exact Hw.
Qed.

(* ================================================================== *)
(* 2. Flags::write                                                     *)
(* ================================================================== *)
Lemma wf_flags_loop_done bools : forall cnt i w,
  Nlen bools <= 7 * i -> wf_flags_loop cnt i bools w = w.
Proof.
  induction cnt as [|c IH]; intros i w Hi; [reflexivity|].
  cbn [wf_flags_loop]. cbv zeta.
  assert (Hs : skipn (N.to_nat (i * 7)) bools = []).
  { apply skipn_all2. unfold Nlen in Hi. lia. }
  rewrite Hs, firstn_nil. cbn [wr_write].
  assert (Hlt : (N.min (i * 7 + 7) (Nlen bools) <? Nlen bools) = false) by lia.
  rewrite Hlt. apply IH. lia.
Qed.

Lemma wf_flags_loop_spec bools : forall cnt i w fuel,
  wr_ok w -> 7 * i <= Nlen bools -> Nlen bools < 7 * (i + N.of_nat cnt) ->
  Nlen bools - 7 * i < 7 * N.of_nat fuel ->
  appends w (wf_flags_loop cnt i bools w)
          (flag_chunks fuel (skipn (N.to_nat (7 * i)) bools)).
Proof.
  induction cnt as [|c IH]; intros i w fuel Hw Hi Hc Hf; [lia|].
  destruct fuel as [|fl]; [lia|].
  cbn [wf_flags_loop flag_chunks]. cbv zeta.
  replace (i * 7) with (7 * i) by lia.
  set (r := skipn (N.to_nat (7 * i)) bools).
  assert (Hr : Nlen r = Nlen bools - 7 * i).
  { unfold r, Nlen. rewrite skipn_length. lia. }
  assert (Hfirst : firstn (N.to_nat (N.min (7 * i + 7) (Nlen bools) - 7 * i)) r = firstn 7 r).
  { destruct (N.le_gt_cases (7 * i + 7) (Nlen bools)) as [Hle|Hgt].
    - replace (N.to_nat (N.min (7 * i + 7) (Nlen bools) - 7 * i)) with 7%nat by lia. reflexivity.
    - replace (N.to_nat (N.min (7 * i + 7) (Nlen bools) - 7 * i)) with (length r)
        by (unfold Nlen in *; lia).
      rewrite firstn_all. symmetry. apply firstn_all2. unfold Nlen in *. lia. }
  rewrite Hfirst.
  assert (Hskip : skipn 7 r = skipn (N.to_nat (7 * (i + 1))) bools).
  { unfold r. rewrite skipn_skipn'. f_equal. lia. }
  pose proof (app_write w (firstn 7 r) Hw) as H1.
  destruct (N.min (7 * i + 7) (Nlen bools) <? Nlen bools) eqn:Elt.
  - (* a further byte follows *)
    assert (Hne : skipn 7 r <> []).
    { intros E. apply (f_equal (@length bool)) in E. rewrite skipn_length in E.
      unfold Nlen in *. cbn [length] in E. lia. }
    destruct (skipn 7 r) as [|x r'] eqn:Er; [congruence|]. rewrite Hskip.
    eapply appends_trans; [exact H1|].
    pose proof (app_one _ true (appends_ok _ _ _ H1)) as H2.
    eapply appends_trans; [exact H2|].
    apply IH; [exact (appends_ok _ _ _ H2)|lia|lia|lia].
  - (* last payload byte *)
    assert (He : skipn 7 r = []).
    { apply skipn_all2. unfold Nlen in *. lia. }
    rewrite He. rewrite wf_flags_loop_done by lia. exact H1.
Qed.

Lemma wf_write_flags_spec w f fb :
  wr_ok w -> aligned w -> write_flags f = Ok fb ->
  exists w', wf_write_flags w f = Ok w' /\ appends w w' fb /\ aligned w'.
Proof.
  intros Hw Ha H. unfold write_flags in H. unfold wf_write_flags.
  destruct (flags_payload f) as [p| |]; cbn [bind] in *; try discriminate.
  inversion H; subst fb. eexists. split; [reflexivity|].
  apply app_finish; try assumption.
  pose proof (wf_flags_loop_spec p (N.to_nat (Nlen p / 7 + 1)) 0 w (S (length p)) Hw) as L.
  change (N.to_nat (7 * 0)) with 0%nat in L. cbn [skipn] in L.
  apply L; unfold Nlen; lia.
Qed.

(* ================================================================== *)
(* 3. Compressor::header                                               *)
(* ================================================================== *)
Lemma magic_header_range : Forall (fun b => b < 256) Consts.MAGIC_HEADER.
Proof. repeat constructor. Qed.

Theorem wf_header_spec w d f hb :
  wr_ok w -> aligned w -> header_bytes d f = Ok hb ->
  exists w', wf_header w d f = Ok w' /\ appends w w' (bytes_to_bits hb) /\ aligned w'.
Proof.
  intros Hw Ha H. unfold header_bytes in H.
  destruct (write_flags f) as [fb| |] eqn:Ef; cbn [bind] in H; try discriminate.
  assert (Ehb : hb = Consts.MAGIC_HEADER ++ [hdr d] ++ bits_to_bytes fb) by congruence.
  subst hb. clear H. unfold wf_header.
  assert (Hp : exists p, flags_payload f = Ok p).
  { unfold write_flags in Ef. destruct (flags_payload f) as [p| |]; cbn [bind] in Ef;
      try discriminate. eexists; reflexivity. }
  destruct Hp as (p & Hp). rewrite Hp. cbn [bind].
  destruct (app_aligned_bytes w _ Hw Ha magic_header_range) as (w1 & E1 & A1 & L1).
  rewrite E1. cbn [bind].
  destruct (app_aligned_byte w1 (hdr d) (appends_ok _ _ _ A1) L1 (hdr_lt_256 d))
    as (w2 & E2 & A2 & L2).
  rewrite E2. cbn [bind].
  destruct (wf_write_flags_spec w2 f fb (appends_ok _ _ _ A2) L2 Ef) as (w3 & E3 & A3 & L3).
  exists w3. split; [exact E3|]. split; [|exact L3].
  eapply appends_eq; [exact (appends_trans _ _ _ _ _ A1 (appends_trans _ _ _ _ _ A2 A3))|].
  rewrite !bytes_to_bits_app. f_equal. f_equal.
  rewrite bytes_to_bits_to_bytes; [reflexivity|].
  unfold write_flags in Ef. rewrite Hp in Ef. cbn [bind] in Ef. inversion Ef. apply pad8_length.
Qed.

(* ================================================================== *)
(* 4. chunk metadata                                                   *)
(* ================================================================== *)
Lemma wf_write_gcd_spec w range g :
  wr_ok w -> appends w (wf_write_gcd w range g) (write_gcd range g).
Proof.
  intros Hw. unfold wf_write_gcd, write_gcd. cbv zeta.
  destruct (g =? 1); cbn [negb].
  - apply app_one. exact Hw.
  - pose proof (app_one w true Hw) as H1.
    exact (appends_trans _ _ _ _ _ H1 (app_diff _ _ _ (appends_ok _ _ _ H1))).
Qed.

Lemma wf_write_jump_spec w j :
  wr_ok w -> appends w (wf_write_jump w j) (write_jump j).
Proof.
  intros Hw. unfold wf_write_jump, write_jump. destruct j as [v|].
  - pose proof (app_one w true Hw) as H1.
    exact (appends_trans _ _ _ _ _ H1 (app_usize _ _ _ (appends_ok _ _ _ H1))).
  - apply app_one. exact Hw.
Qed.

Lemma wf_write_prefix_list_spec f pd n common : forall ps w b,
  wr_ok w -> write_prefix_list f pd n common ps = Ok b ->
  exists w', wf_write_prefix_list w f pd n common ps = Ok w' /\ appends w w' b.
Proof.
  induction ps as [|p t IH]; intros w b Hw H.
  - cbn [write_prefix_list] in H. inversion H; subst b.
    exists w. split; [reflexivity|]. apply appends_refl. exact Hw.
  - cbn [write_prefix_list] in H. unfold write_unum in H.
    destruct (write_num pd (of_u pd (p_lower p))) as [lo| |] eqn:Elo; cbn [bind] in H; try discriminate.
    destruct (write_num pd (of_u pd (p_upper p))) as [up| |] eqn:Eup; cbn [bind] in H; try discriminate.
    destruct (write_prefix_list f pd n common t) as [rest| |] eqn:Er; cbn [bind] in H; try discriminate.
    assert (Eb : b = put (count_bits f n) (p_count p) ++ lo ++ up
                 ++ put (code_len_bits f) (Nlen (p_code p)) ++ p_code p
                 ++ write_jump (p_jump p)
                 ++ (match common with
                     | None => write_gcd (p_upper p - p_lower p) (p_gcd p)
                     | Some _ => []
                     end) ++ rest) by congruence.
    clear H. subst b.
    cbn [wf_write_prefix_list]. cbv zeta.
    pose proof (app_usize w (p_count p) (count_bits f n) Hw) as A1.
    destruct (wf_write_num_spec _ pd _ lo (appends_ok _ _ _ A1) Elo) as (w2 & E2 & A2).
    rewrite E2. cbn [bind].
    destruct (wf_write_num_spec _ pd _ up (appends_ok _ _ _ A2) Eup) as (w3 & E3 & A3).
    rewrite E3. cbn [bind].
    pose proof (app_usize w3 (Nlen (p_code p)) (code_len_bits f) (appends_ok _ _ _ A3)) as A4.
    pose proof (app_write _ (p_code p) (appends_ok _ _ _ A4)) as A5.
    pose proof (wf_write_jump_spec _ (p_jump p) (appends_ok _ _ _ A5)) as A6.
    set (w6 := wf_write_jump _ _) in *.
    set (w7 := match common with
               | None => wf_write_gcd w6 (p_upper p - p_lower p) (p_gcd p)
               | Some _ => w6
               end).
    assert (A7 : appends w6 w7 (match common with
                                | None => write_gcd (p_upper p - p_lower p) (p_gcd p)
                                | Some _ => []
                                end)).
    { unfold w7. destruct common.
      - apply appends_refl. exact (appends_ok _ _ _ A6).
      - apply wf_write_gcd_spec. exact (appends_ok _ _ _ A6). }
    destruct (IH w7 rest (appends_ok _ _ _ A7) eq_refl) as (w8 & E8 & A8).
    exists w8. split; [exact E8|].
    exact (appends_trans _ _ _ _ _ A1 (appends_trans _ _ _ _ _ A2 (appends_trans _ _ _ _ _ A3
           (appends_trans _ _ _ _ _ A4 (appends_trans _ _ _ _ _ A5 (appends_trans _ _ _ _ _ A6
           (appends_trans _ _ _ _ _ A7 A8))))))).
Qed.

Lemma wf_write_prefixes_spec w f pd n ps b :
  wr_ok w -> write_prefixes f pd n ps = Ok b ->
  exists w', wf_write_prefixes w f pd n ps = Ok w' /\ appends w w' b.
Proof.
  intros Hw H. unfold write_prefixes in H. cbv zeta in H.
  destruct (write_prefix_list f pd n (if fgcd f then common_gcd pd ps else Some 1) ps)
    as [body| |] eqn:Eb; cbn [bind] in H; try discriminate.
  apply Ok_inj in H; subst b.
  unfold wf_write_prefixes. cbv zeta.
  pose proof (app_usize w (Nlen ps) Consts.BITS_TO_ENCODE_N_PREFIXES Hw) as A1.
  set (w1 := wr_write_usize w (Nlen ps) Consts.BITS_TO_ENCODE_N_PREFIXES) in *.
  destruct (fgcd f).
  - destruct (common_gcd pd ps) as [g|].
    + pose proof (app_one w1 true (appends_ok _ _ _ A1)) as A2.
      pose proof (wf_write_gcd_spec _ (umax (ubits pd)) g (appends_ok _ _ _ A2)) as A3.
      destruct (wf_write_prefix_list_spec f pd n (Some g) ps _ body (appends_ok _ _ _ A3) Eb)
        as (w4 & E4 & A4).
      exists w4. split; [exact E4|].
      eapply appends_eq;
        [exact (appends_trans _ _ _ _ _ A1 (appends_trans _ _ _ _ _ A2 (appends_trans _ _ _ _ _ A3 A4)))|].
      rewrite <- !app_assoc. reflexivity.
    + pose proof (app_one w1 false (appends_ok _ _ _ A1)) as A2.
      destruct (wf_write_prefix_list_spec f pd n None ps _ body (appends_ok _ _ _ A2) Eb)
        as (w4 & E4 & A4).
      exists w4. split; [exact E4|].
      eapply appends_eq;
        [exact (appends_trans _ _ _ _ _ A1 (appends_trans _ _ _ _ _ A2 A4))|].
      rewrite <- !app_assoc. reflexivity.
  - destruct (wf_write_prefix_list_spec f pd n (Some 1) ps _ body (appends_ok _ _ _ A1) Eb)
      as (w4 & E4 & A4).
    exists w4. split; [exact E4|].
    eapply appends_eq; [exact (appends_trans _ _ _ _ _ A1 A4)|].
    rewrite app_nil_r. reflexivity.
Qed.

Lemma wf_write_moments_spec sd : forall ms w b,
  wr_ok w -> write_moments sd ms = Ok b ->
  exists w', wf_write_moments w sd ms = Ok w' /\ appends w w' b.
Proof.
  induction ms as [|m t IH]; intros w b Hw H; cbn [write_moments] in H.
  - inversion H; subst b. exists w. split; [reflexivity|]. apply appends_refl. exact Hw.
  - destruct (write_num sd m) as [b1| |] eqn:E1; cbn [bind] in H; try discriminate.
    destruct (write_moments sd t) as [r| |] eqn:Er; cbn [bind] in H; try discriminate.
    inversion H; subst b; clear H.
    cbn [wf_write_moments].
    destruct (wf_write_num_spec w sd m b1 Hw E1) as (w1 & Ew1 & A1). rewrite Ew1. cbn [bind].
    destruct (IH w1 r (appends_ok _ _ _ A1) eq_refl) as (w2 & Ew2 & A2).
    exists w2. split; [exact Ew2|]. exact (appends_trans _ _ _ _ _ A1 A2).
Qed.

(* the unpadded metadata bits: everything around the 32-bit body-size field *)
Lemma write_meta_shape f d m mb :
  write_meta f d m = Ok mb ->
  exists mo ps,
    write_moments (sdt d) (m_moments m) = Ok mo /\
    write_prefixes f (pdt f d) (m_n m) (m_table m) = Ok ps /\
    mb = pad8 (put Consts.BITS_TO_ENCODE_N_ENTRIES (m_n m)
               ++ put Consts.BITS_TO_ENCODE_COMPRESSED_BODY_SIZE (m_body m) ++ mo ++ ps).
Proof.
  intros H. unfold write_meta in H.
  destruct (write_moments (sdt d) (m_moments m)) as [mo| |]; cbn [bind] in H; try discriminate.
  destruct (write_prefixes f (pdt f d) (m_n m) (m_table m)) as [ps| |]; cbn [bind] in H;
    try discriminate.
  exists mo, ps. split; [reflexivity|]. split; [reflexivity|]. congruence.
Qed.

Theorem wf_write_meta_spec w f d m mb :
  wr_ok w -> aligned w -> write_meta f d m = Ok mb ->
  exists w', wf_write_meta w f d m = Ok w' /\ appends w w' mb /\ aligned w'.
Proof.
  intros Hw Ha H. destruct (write_meta_shape f d m mb H) as (mo & ps & Emo & Eps & ->).
  unfold wf_write_meta. cbv zeta.
  pose proof (app_usize w (m_n m) Consts.BITS_TO_ENCODE_N_ENTRIES Hw) as A1.
  pose proof (app_usize _ (m_body m) Consts.BITS_TO_ENCODE_COMPRESSED_BODY_SIZE (appends_ok _ _ _ A1)) as A2.
  destruct (wf_write_moments_spec (sdt d) (m_moments m) _ mo (appends_ok _ _ _ A2) Emo)
    as (w3 & E3 & A3).
  rewrite E3. cbn [bind].
  destruct (wf_write_prefixes_spec w3 f (pdt f d) (m_n m) (m_table m) ps (appends_ok _ _ _ A3) Eps)
    as (w4 & E4 & A4).
  rewrite E4. cbn [bind].
  eexists. split; [reflexivity|].
  apply app_finish; try assumption.
  exact (appends_trans _ _ _ _ _ A1 (appends_trans _ _ _ _ _ A2 (appends_trans _ _ _ _ _ A3 A4))).
Qed.

(* ================================================================== *)
(* 5. the chunk body                                                   *)
(* ================================================================== *)
Lemma land_bit_pos off k : (0 <? N.land off (N.shiftl 1 k)) = N.testbit off k.
Proof.
  rewrite land_single_bit. destruct (N.testbit off k); [|reflexivity].
  rewrite N.shiftl_1_l. pose proof (pow2_pos k) as H. apply N.ltb_lt. exact H.
Qed.

(* the offset the selected GcdOperator computes is the model's (u - lower) / gcd *)
Definition offsets_agree (general : bool) (ps : list prefix) : Prop :=
  forall p u, In p ps -> contains p u = true ->
              gcd_get_offset general (u - p_lower p) (p_gcd p) = offset_of p u.

Lemma gcd_get_offset_ok pd ps :
  Forall (fun q => 1 <= p_gcd q) ps -> offsets_agree (use_gcd_arith pd ps) ps.
Proof.
  intros Hg p u Hin Hc. unfold gcd_get_offset, offset_of.
  destruct (use_gcd_arith pd ps) eqn:E; [reflexivity|].
  assert (Hp : (1 <? p_gcd p) && val_neq pd (p_lower p) (p_upper p) = false).
  { destruct ((1 <? p_gcd p) && val_neq pd (p_lower p) (p_upper p)) eqn:Ep; [|reflexivity].
    unfold use_gcd_arith in E.
    assert (X : existsb (fun p => (1 <? p_gcd p) && val_neq pd (p_lower p) (p_upper p)) ps = true)
      by (apply existsb_exists; exists p; split; assumption).
    congruence. }
  rewrite Forall_forall in Hg. specialize (Hg p Hin).
  apply andb_false_iff in Hp. destruct Hp as [Hp|Hp].
  - assert (Eg : p_gcd p = 1) by lia. rewrite Eg, N.div_1_r. reflexivity.
  - unfold val_neq in Hp. apply negb_false_iff, N.eqb_eq in Hp.
    apply contains_iff in Hc. replace (u - p_lower p) with 0 by lia.
    symmetry. apply N.div_0_l. lia.
Qed.

Lemma wf_write_offset_spec w general p u :
  wr_ok w -> gcd_get_offset general (u - p_lower p) (p_gcd p) = offset_of p u ->
  appends w (wf_write_offset w general p u) (write_num_offset p u).
Proof.
  intros Hw Hoff. unfold wf_write_offset, write_num_offset, write_offset. cbv zeta.
  rewrite Hoff. set (off := offset_of p u). set (k := k_of_range (p_range p)).
  pose proof (app_diff w off k Hw) as A1.
  destruct ((off <? p_range p - (pow2 k - 1)) || (pow2 k - 1 <? off)).
  - rewrite land_bit_pos.
    exact (appends_trans _ _ _ _ _ A1 (app_one _ _ (appends_ok _ _ _ A1))).
  - rewrite app_nil_r. exact A1.
Qed.

Lemma wf_offsets_spec general p : forall l w,
  wr_ok w ->
  Forall (fun u => gcd_get_offset general (u - p_lower p) (p_gcd p) = offset_of p u) l ->
  appends w (fold_left (fun w u' => wf_write_offset w general p u') l w)
          (flat_map (write_num_offset p) l).
Proof.
  induction l as [|u t IH]; intros w Hw Hl; cbn [fold_left flat_map].
  - apply appends_refl. exact Hw.
  - inversion Hl as [|? ? Hu Ht]; subst.
    pose proof (wf_write_offset_spec w general p u Hw Hu) as A1.
    exact (appends_trans _ _ _ _ _ A1 (IH _ (appends_ok _ _ _ A1) Ht)).
Qed.

(* write_usize(p.code, p.code_len) *)
Lemma app_code w c : wr_ok w -> appends w (wr_write_usize w (bits_to_usize c) (Nlen c)) c.
Proof.
  intros Hw. eapply appends_eq; [apply app_usize; exact Hw|].
  unfold put, Nlen, bits_to_usize. rewrite Nat2N.id. apply putn_bits_val.
Qed.

Lemma In_skipn_in {A} n (l : list A) x : In x (skipn n l) -> In x l.
Proof. intros H. rewrite <- (firstn_skipn n l). apply in_or_app. right. exact H. Qed.

Lemma wf_body_loop_spec ps search general :
  offsets_agree general ps ->
  forall fuel us w b,
  (forall u, In u us -> search u = find_prefix ps u) ->
  wr_ok w -> Nlen us <= Consts.MAX_ENTRIES + 1 -> write_body_fuel fuel ps us = Ok b ->
  exists w', wf_body_loop fuel search general w us = Ok w' /\ appends w w' b.
Proof.
  intros Hoff.
  induction fuel as [|fl IH]; intros us w b Hsearch Hw Hlen H.
  - cbn [write_body_fuel] in H. apply Ok_inj in H. subst b.
    exists w. split; [reflexivity|]. apply appends_refl. exact Hw.
  - destruct us as [|u t].
    { cbn [write_body_fuel] in H. apply Ok_inj in H. subst b.
      exists w. split; [reflexivity|]. apply appends_refl. exact Hw. }
    cbn [write_body_fuel] in H. cbn [wf_body_loop]. rewrite (Hsearch u (or_introl eq_refl)).
    destruct (find_prefix ps u) as [p|] eqn:Ef; [|discriminate].
    destruct (find_prefix_some ps u p Ef) as (Hin & Hcu).
    cbv zeta.
    pose proof (app_code w (p_code p) Hw) as A1.
    set (w1 := wr_write_usize w (bits_to_usize (p_code p)) (Nlen (p_code p))) in *.
    rewrite Nlen_cons in Hlen.
    destruct (p_jump p) as [j|].
    + set (extra := run_len p t) in *.
      destruct (write_body_fuel fl ps (skipn extra t)) as [r| |] eqn:Er; cbn [bind] in H;
        try discriminate.
      apply Ok_inj in H. subst b.
      pose proof (run_len_le p t) as Hle. fold extra in Hle.
      assert (Hx : N.of_nat extra <= Consts.MAX_ENTRIES) by (unfold Nlen in Hlen; lia).
      destruct (wr_write_varint_spec w1 (N.of_nat extra) j (appends_ok _ _ _ A1) Hx)
        as (w2 & E2 & Hok2 & Hb2).
      rewrite E2. cbn [bind].
      assert (A2 : appends w1 w2 (write_varint (N.of_nat extra) j)) by (split; assumption).
      assert (Hrun : Forall (fun u' => gcd_get_offset general (u' - p_lower p) (p_gcd p)
                                       = offset_of p u') (u :: firstn extra t)).
      { constructor; [apply Hoff; assumption|].
        eapply Forall_impl; [|exact (run_len_contains p t)].
        intros u' Hc'. apply Hoff; assumption. }
      pose proof (wf_offsets_spec general p _ w2 Hok2 Hrun) as A3.
      set (w3 := fold_left _ _ w2) in *.
      assert (Hlen' : Nlen (skipn extra t) <= Consts.MAX_ENTRIES + 1).
      { unfold Nlen in *. rewrite skipn_length. lia. }
      assert (Hs' : forall u', In u' (skipn extra t) -> search u' = find_prefix ps u').
      { intros u' Hu'. apply Hsearch. right. exact (In_skipn_in _ _ _ Hu'). }
      destruct (IH (skipn extra t) w3 r Hs' (appends_ok _ _ _ A3) Hlen' Er) as (w4 & E4 & A4).
      exists w4. split; [exact E4|].
      exact (appends_trans _ _ _ _ _ A1 (appends_trans _ _ _ _ _ A2
             (appends_trans _ _ _ _ _ A3 A4))).
    + destruct (write_body_fuel fl ps t) as [r| |] eqn:Er; cbn [bind] in H; try discriminate.
      apply Ok_inj in H. subst b.
      pose proof (wf_write_offset_spec w1 general p u (appends_ok _ _ _ A1)
                    (Hoff p u Hin Hcu)) as A2.
      assert (Hlen' : Nlen t <= Consts.MAX_ENTRIES + 1) by lia.
      assert (Hs' : forall u', In u' t -> search u' = find_prefix ps u').
      { intros u' Hu'. apply Hsearch. right. exact Hu'. }
      destruct (IH t _ r Hs' (appends_ok _ _ _ A2) Hlen' Er) as (w4 & E4 & A4).
      exists w4. split; [exact E4|].
      exact (appends_trans _ _ _ _ _ A1 (appends_trans _ _ _ _ _ A2 A4)).
Qed.

Theorem wf_write_body_with_spec search w pd ps us body :
  (forall u, In u us -> search u = find_prefix ps u) ->
  wr_ok w -> aligned w -> Forall (fun q => 1 <= p_gcd q) ps ->
  Nlen us <= Consts.MAX_ENTRIES + 1 -> write_body ps us = Ok body ->
  exists w', wf_write_body_with search w pd ps us = Ok w' /\ appends w w' body /\ aligned w'.
Proof.
  intros Hs Hw Ha Hg Hlen H. unfold write_body in H.
  destruct (write_body_fuel (length us) ps us) as [b| |] eqn:Eb; cbn [bind] in H; try discriminate.
  apply Ok_inj in H. subst body. unfold wf_write_body_with.
  destruct (wf_body_loop_spec ps search (use_gcd_arith pd ps) (gcd_get_offset_ok pd ps Hg)
              (length us) us w b Hs Hw Hlen Eb) as (w1 & E1 & A1).
  rewrite E1. cbn [bind]. eexists. split; [reflexivity|].
  apply app_finish; assumption.
Qed.

Corollary wf_write_body_spec w pd ps us body :
  wr_ok w -> aligned w -> Forall (fun q => 1 <= p_gcd q) ps ->
  Nlen us <= Consts.MAX_ENTRIES + 1 -> write_body ps us = Ok body ->
  exists w', wf_write_body w pd ps us = Ok w' /\ appends w w' body /\ aligned w'.
Proof. apply wf_write_body_with_spec. reflexivity. Qed.

(* the same through the transcription of CompressionTable (table sorted by upper bound,
   ranges disjoint, counts positive: what CompressionTable::from works on) *)
Corollary wf_write_body_ct_spec w pd ps us body :
  wr_ok w -> aligned w -> Forall (fun q => 1 <= p_gcd q) ps ->
  ct_valid ps -> ct_pos ps ->
  Nlen us <= Consts.MAX_ENTRIES + 1 -> write_body ps us = Ok body ->
  exists w', wf_write_body_ct w pd ps us = Ok w' /\ appends w w' body /\ aligned w'.
Proof.
  intros Hw Ha Hg Hv Hp Hlen H. apply wf_write_body_with_spec; try assumption.
  intros u Hu. destruct ps as [|p0 ps'].
  - (* no prefix: the body is empty *)
    exfalso. unfold write_body in H. destruct us as [|u0 t]; [destruct Hu|].
    cbn in H. discriminate.
  - apply ct_search_correct; try assumption. discriminate.
Qed.


(* ================================================================== *)
(* 6. Compressor::chunk: placeholder, body, back-patch                 *)
(* ================================================================== *)
(* the padding after a field does not depend on the field's value *)
Lemma pad8_field (X Q : bits) (a c n : N) :
  exists pad,
    pad8 (X ++ put n a ++ Q) = X ++ put n a ++ Q ++ pad /\
    pad8 (X ++ put n c ++ Q) = X ++ put n c ++ Q ++ pad.
Proof.
  exists (repeat false (N.to_nat (pad_len (Nlen (X ++ put n a ++ Q))))).
  split; unfold pad8; rewrite <- !app_assoc; [reflexivity|].
  do 3 f_equal. f_equal. f_equal. f_equal.
  change (N.of_nat (length (X ++ put n c ++ Q))) with (Nlen (X ++ put n c ++ Q)).
  rewrite !Nlen_app, !put_length. reflexivity.
Qed.

Lemma write_body_aligned ps us body : write_body ps us = Ok body -> Nlen body mod 8 = 0.
Proof.
  unfold write_body. destruct (write_body_fuel (length us) ps us); cbn [bind]; try discriminate.
  intros H. apply Ok_inj in H. subst body. apply pad8_length.
Qed.

Lemma write_meta_aligned f d m mb : write_meta f d m = Ok mb -> Nlen mb mod 8 = 0.
Proof.
  intros H. destruct (write_meta_shape f d m mb H) as (mo & ps & _ & _ & ->). apply pad8_length.
Qed.

(* what the chunk needs from the body writer (wf_write_body, wf_write_body_ct) *)
Definition body_contract (bf : wr -> dtype -> list prefix -> list N -> res wr)
           (pd : dtype) (ps : list prefix) (us : list N) : Prop :=
  forall w body, wr_ok w -> aligned w -> write_body ps us = Ok body ->
  exists w', bf w pd ps us = Ok w' /\ appends w w' body /\ aligned w'.

Theorem wf_chunk_with_spec bf w d f table xs m bs :
  wr_ok w -> aligned w ->
  body_contract bf (pdt f d) table (chunk_unsigneds d (ford f) xs) ->
  chunk_payload d f table xs = Ok (m, bs) ->
  exists w', wf_chunk_with bf w d f table xs = Ok w' /\
             appends w w' (bytes_to_bits ([Consts.MAGIC_CHUNK_BYTE] ++ bs)) /\ aligned w'.
Proof.
  intros Hw Ha Hbf H. unfold chunk_payload in H. cbv zeta in H.
  set (us := chunk_unsigneds d (ford f) xs) in *.
  destruct (write_body table us) as [body| |] eqn:Ebody; cbn [bind] in H; try discriminate.
  set (sz := Nlen (bits_to_bytes body)) in *.
  destruct (write_meta f d (mkMeta (Nlen xs) sz (chunk_moments d (ford f) xs) table))
    as [mb| |] eqn:Emeta; cbn [bind] in H; try discriminate.
  assert (Ebs : bs = bits_to_bytes mb ++ bits_to_bytes body) by congruence.
  clear H. subst bs.
  (* shape of the metadata, final and with the placeholder *)
  destruct (write_meta_shape _ _ _ _ Emeta) as (mo & ps & Emo & Eps & Emb).
  cbn [m_n m_body m_moments m_table] in Emo, Eps, Emb.
  set (X := put Consts.BITS_TO_ENCODE_N_ENTRIES (Nlen xs)) in *.
  destruct (pad8_field X (mo ++ ps) sz 0 Consts.BITS_TO_ENCODE_COMPRESSED_BODY_SIZE)
    as (pad & Epad & Epad0).
  rewrite Epad in Emb.
  assert (Emeta0 : write_meta f d (mkMeta (Nlen xs) 0 (chunk_moments d (ford f) xs) table)
                   = Ok (X ++ put Consts.BITS_TO_ENCODE_COMPRESSED_BODY_SIZE 0 ++ (mo ++ ps) ++ pad)).
  { unfold write_meta. cbn [m_n m_body m_moments m_table]. rewrite Emo, Eps. cbn [bind].
    fold X. rewrite Epad0. reflexivity. }
  (* the calls *)
  unfold wf_chunk_with. cbv zeta. fold us.
  destruct (app_aligned_byte w Consts.MAGIC_CHUNK_BYTE Hw Ha eq_refl) as (w1 & E1 & A1 & L1).
  rewrite E1. cbn [bind].
  destruct (wf_write_meta_spec w1 f d _ _ (appends_ok _ _ _ A1) L1 Emeta0) as (w2 & E2 & A2 & L2).
  rewrite E2. cbn [bind].
  destruct (Hbf w2 body (appends_ok _ _ _ A2) L2 Ebody) as (w3 & E3 & A3 & L3).
  rewrite E3. cbn [bind].
  eexists. split; [reflexivity|].
  pose proof (appends_ok _ _ _ A1) as Hw1. pose proof (appends_ok _ _ _ A2) as Hw2.
  pose proof (appends_ok _ _ _ A3) as Hw3.
  pose proof (write_body_aligned _ _ _ Ebody) as Hbody8.
  (* the body size the real code computes *)
  assert (Hsz : wr_byte_size w3 - wr_byte_size w2 = sz).
  { pose proof (byte_size_aligned w2 Hw2 L2) as B2.
    pose proof (byte_size_aligned w3 Hw3 L3) as B3.
    destruct A3 as (_ & A3). rewrite A3, Nlen_app in B3.
    pose proof (bits_to_bytes_Nlen body Hbody8) as B. fold sz in B.
    set (x := wr_byte_size w2) in *. set (y := wr_byte_size w3) in *.
    set (l2 := Nlen (wr_bits w2)) in *. set (lb := Nlen body) in *. clearbody x y l2 lb sz. lia. }
  rewrite Hsz.
  (* the placeholder sits right after the n field *)
  set (P := wr_bits w1 ++ X).
  set (Q := ((mo ++ ps) ++ pad) ++ body).
  assert (HP : Nlen P = wr_bit_size w1 + Consts.BITS_TO_ENCODE_N_ENTRIES).
  { unfold P, X. rewrite Nlen_app, put_length, Nlen_wr_bits. reflexivity. }
  assert (Hb3 : wr_bits w3 = P ++ put Consts.BITS_TO_ENCODE_COMPRESSED_BODY_SIZE 0 ++ Q).
  { destruct A3 as (_ & ->). destruct A2 as (_ & ->). unfold P, Q.
    rewrite <- !app_assoc. reflexivity. }
  destruct (wr_overwrite_placeholder w3 P Q sz _ Hw3 Hb3) as (Hw4 & Hb4).
  rewrite HP in Hw4, Hb4.
  split; [|exact L3].
  split; [exact Hw4|].
  rewrite Hb4. unfold P, Q. destruct A1 as (_ & ->).
  rewrite !bytes_to_bits_app.
  rewrite (bytes_to_bits_to_bytes mb) by (exact (write_meta_aligned _ _ _ _ Emeta)).
  rewrite (bytes_to_bits_to_bytes body) by exact Hbody8.
  rewrite Emb. rewrite <- !app_assoc. reflexivity.
Qed.
(* ================================================================== *)
(* 7. chunks, footer, drain_bytes: the whole file                      *)
(* ================================================================== *)
(* the guard: what the word-level program needs beyond [file_bytes = Ok].
   - at most MAX_ENTRIES + 1 = 2^24 numbers in a chunk: write_varint panics on a run
     count above MAX_ENTRIES (Compressor::chunk / train_prefixes reject n > MAX_ENTRIES);
   - no prefix has gcd 0: with TrivialGcdOp the real code does not divide at all, the
     model divides by the gcd (and Prefix::k_info divides by it: a panic for 0). *)
Definition wchunk_ok (c : list Z * list prefix) : Prop :=
  Nlen (fst c) <= Consts.MAX_ENTRIES + 1 /\ Forall (fun q => 1 <= p_gcd q) (snd c).

Lemma chunk_ok_wchunk_ok d f c : chunk_ok d f c -> wchunk_ok c.
Proof.
  intros (Hn & _ & (_ & Hwf & _) & _). split.
  - change (2 ^ 24) with 16777216 in Hn. unfold Consts.MAX_ENTRIES. lia.
  - eapply Forall_impl; [|exact Hwf]. intros q (Hq & _). lia.
Qed.

Lemma body_contract_find d f xs table :
  wchunk_ok (xs, table) ->
  body_contract wf_write_body (pdt f d) table (chunk_unsigneds d (ford f) xs).
Proof.
  intros (Hn & Hg) w body Hw Ha H. cbn [fst snd] in *.
  apply wf_write_body_spec; try assumption.
  rewrite chunk_unsigneds_Nlen. lia.
Qed.

Lemma body_contract_ct d f xs table :
  wchunk_ok (xs, table) -> ct_valid table -> ct_pos table ->
  body_contract wf_write_body_ct (pdt f d) table (chunk_unsigneds d (ford f) xs).
Proof.
  intros (Hn & Hg) Hv Hp w body Hw Ha H. cbn [fst snd] in *.
  apply wf_write_body_ct_spec; try assumption.
  rewrite chunk_unsigneds_Nlen. lia.
Qed.

Theorem wf_chunk_spec w d f table xs m bs :
  wr_ok w -> aligned w -> wchunk_ok (xs, table) ->
  chunk_payload d f table xs = Ok (m, bs) ->
  exists w', wf_chunk w d f table xs = Ok w' /\
             appends w w' (bytes_to_bits ([Consts.MAGIC_CHUNK_BYTE] ++ bs)) /\ aligned w'.
Proof.
  intros Hw Ha Hc. apply wf_chunk_with_spec; try assumption. apply body_contract_find. exact Hc.
Qed.

Lemma wf_chunks_with_spec (G : list Z * list prefix -> Prop) cf d f :
  (forall w table xs m bs, wr_ok w -> aligned w -> G (xs, table) ->
     chunk_payload d f table xs = Ok (m, bs) ->
     exists w', cf w d f table xs = Ok w' /\
                appends w w' (bytes_to_bits ([Consts.MAGIC_CHUNK_BYTE] ++ bs)) /\ aligned w') ->
  forall chunks w cb,
  wr_ok w -> aligned w -> Forall G chunks -> chunks_bytes d f chunks = Ok cb ->
  exists w', wf_chunks_with cf w d f chunks = Ok w' /\
             appends w w' (bytes_to_bits cb) /\ aligned w'.
Proof.
  intros Hcf. induction chunks as [|[xs table] t IH]; intros w cb Hw Ha HG H.
  - cbn [chunks_bytes] in H. apply Ok_inj in H. subst cb.
    exists w. split; [reflexivity|]. split; [apply appends_refl; exact Hw|exact Ha].
  - inversion HG as [|? ? HG1 HGt]; subst.
    cbn [chunks_bytes] in H.
    destruct (chunk_payload d f table xs) as [[m bs]| |] eqn:Ec; cbn [bind] in H; try discriminate.
    destruct (chunks_bytes d f t) as [r| |] eqn:Er; cbn [bind] in H; try discriminate.
    assert (Ecb : cb = ([Consts.MAGIC_CHUNK_BYTE] ++ bs) ++ r).
    { apply Ok_inj in H. subst cb. rewrite <- !app_assoc. reflexivity. }
    clear H. subst cb.
    cbn [wf_chunks_with].
    destruct (Hcf w table xs m bs Hw Ha HG1 Ec) as (w1 & E1 & A1 & L1).
    rewrite E1. cbn [bind].
    destruct (IH w1 r (appends_ok _ _ _ A1) L1 HGt eq_refl) as (w2 & E2 & A2 & L2).
    exists w2. split; [exact E2|]. split; [|exact L2].
    rewrite bytes_to_bits_app. exact (appends_trans _ _ _ _ _ A1 A2).
Qed.

Lemma wf_footer_spec w :
  wr_ok w -> aligned w ->
  exists w', wf_footer w = Ok w' /\
             appends w w' (bytes_to_bits [Consts.MAGIC_TERMINATION_BYTE]) /\ aligned w'.
Proof. intros Hw Ha. unfold wf_footer. apply app_aligned_byte; [assumption|assumption|reflexivity]. Qed.

(* every byte of the model's file is a byte *)
Lemma bits_to_bytes_range s : Forall (fun b => b < 256) (bits_to_bytes s).
Proof. apply bits_to_bytes_fuel_range. Qed.

Lemma header_bytes_range d f hb : header_bytes d f = Ok hb -> Forall (fun b => b < 256) hb.
Proof.
  unfold header_bytes. destruct (write_flags f) as [fb| |]; cbn [bind]; try discriminate.
  intros H. apply Ok_inj in H. subst hb.
  apply Forall_app. split; [apply magic_header_range|].
  apply Forall_app. split; [constructor; [apply hdr_lt_256|constructor]|apply bits_to_bytes_range].
Qed.

Lemma chunk_payload_range d f table xs m bs :
  chunk_payload d f table xs = Ok (m, bs) -> Forall (fun b => b < 256) bs.
Proof.
  unfold chunk_payload. cbv zeta.
  destruct (write_body table (chunk_unsigneds d (ford f) xs)) as [body| |]; cbn [bind];
    try discriminate.
  destruct (write_meta f d _) as [mb| |]; cbn [bind]; try discriminate.
  intros H. assert (E : bs = bits_to_bytes mb ++ bits_to_bytes body) by congruence. subst bs.
  apply Forall_app. split; apply bits_to_bytes_range.
Qed.

Lemma chunks_bytes_range d f : forall chunks cb,
  chunks_bytes d f chunks = Ok cb -> Forall (fun b => b < 256) cb.
Proof.
  induction chunks as [|[xs table] t IH]; intros cb H; cbn [chunks_bytes] in H.
  - apply Ok_inj in H. subst cb. constructor.
  - destruct (chunk_payload d f table xs) as [[m bs]| |] eqn:Ec; cbn [bind] in H; try discriminate.
    destruct (chunks_bytes d f t) as [r| |] eqn:Er; cbn [bind] in H; try discriminate.
    apply Ok_inj in H. subst cb.
    apply Forall_app. split; [constructor; [reflexivity|constructor]|].
    apply Forall_app. split; [exact (chunk_payload_range _ _ _ _ _ _ Ec)|exact (IH r eq_refl)].
Qed.

(* header, chunks, footer, drain_bytes for any chunk writer meeting the chunk contract *)
Theorem wfile_bytes_with_eq (G : list Z * list prefix -> Prop) cf d f :
  (forall w table xs m bs, wr_ok w -> aligned w -> G (xs, table) ->
     chunk_payload d f table xs = Ok (m, bs) ->
     exists w', cf w d f table xs = Ok w' /\
                appends w w' (bytes_to_bits ([Consts.MAGIC_CHUNK_BYTE] ++ bs)) /\ aligned w') ->
  forall chunks bytes,
  Forall G chunks -> file_bytes d f chunks = Ok bytes -> wfile_bytes_with cf d f chunks = Ok bytes.
Proof.
  intros Hcf chunks bytes HG H. unfold file_bytes in H.
  destruct (header_bytes d f) as [hb| |] eqn:Eh; cbn [bind] in H; try discriminate.
  destruct (chunks_bytes d f chunks) as [cb| |] eqn:Ec; cbn [bind] in H; try discriminate.
  apply Ok_inj in H. subst bytes.
  destruct wr_default_ok as (Hw0 & Hb0).
  assert (Ha0 : aligned wr_default) by reflexivity.
  unfold wfile_bytes_with.
  destruct (wf_header_spec wr_default d f hb Hw0 Ha0 Eh) as (w1 & E1 & A1 & L1).
  rewrite E1. cbn [bind].
  destruct (wf_chunks_with_spec G cf d f Hcf chunks w1 cb (appends_ok _ _ _ A1) L1 HG Ec)
    as (w2 & E2 & A2 & L2).
  rewrite E2. cbn [bind].
  destruct (wf_footer_spec w2 (appends_ok _ _ _ A2) L2) as (w3 & E3 & A3 & L3).
  rewrite E3. cbn [bind]. f_equal.
  pose proof (appends_trans _ _ _ _ _ A1 (appends_trans _ _ _ _ _ A2 A3)) as (Hw3 & Hb3).
  rewrite Hb0 in Hb3. cbn [app] in Hb3. rewrite <- !bytes_to_bits_app in Hb3.
  assert (Hbs : wr_bit_size w3 mod 8 = 0) by (apply wr_aligned_iff; assumption).
  destruct (wr_drain_bytes_spec w3 Hw3 Hbs) as (Ed & _ & _).
  rewrite Ed, Hb3. apply bits_to_bytes_bytes.
  apply Forall_app. split; [exact (header_bytes_range _ _ _ Eh)|].
  apply Forall_app. split; [exact (chunks_bytes_range _ _ _ _ Ec)|].
  constructor; [reflexivity|constructor].
Qed.

(* ---- main theorems ---- *)
(* under the exact guard *)
Theorem wfile_bytes_eq_guard : forall d f chunks bytes,
  Forall wchunk_ok chunks ->
  file_bytes d f chunks = Ok bytes -> wfile_bytes d f chunks = Ok bytes.
Proof.
  intros d f. apply (wfile_bytes_with_eq wchunk_ok). intros w table xs m bs. apply wf_chunk_spec.
Qed.

(* under the hypotheses of the file-level theorems (FileL.file_roundtrip), any flags *)
Theorem wfile_bytes_eq : forall d f chunks bytes,
  Forall (chunk_ok d f) chunks ->
  file_bytes d f chunks = Ok bytes -> wfile_bytes d f chunks = Ok bytes.
Proof.
  intros d f chunks bytes Hok. apply wfile_bytes_eq_guard.
  eapply Forall_impl; [|exact Hok]. intros c. apply chunk_ok_wchunk_ok.
Qed.

(* the flags the compressor produces: the word-level program always succeeds and what it
   drains decodes to the numbers *)
Corollary wfile_bytes_writer : forall d order gcds chunks,
  order <= 7 ->
  Forall (chunk_ok d (writer_flags order gcds)) chunks ->
  exists bytes, wfile_bytes d (writer_flags order gcds) chunks = Ok bytes /\
                file_bytes d (writer_flags order gcds) chunks = Ok bytes /\
                Reader.decode_file d bytes = Ok (concat (map fst chunks)).
Proof.
  intros d order gcds chunks Ho Hok.
  destruct (file_roundtrip_ex d order gcds chunks Ho Hok) as (bytes & Hb & Hd).
  exists bytes. split; [exact (wfile_bytes_eq _ _ _ _ Hok Hb)|]. split; assumption.
Qed.

(* the table lookup done by the transcription of CompressionTable, for tables sorted by
   upper bound with disjoint ranges and positive counts *)
Theorem wfile_bytes_ct_eq : forall d f chunks bytes,
  Forall (fun c => wchunk_ok c /\ ct_valid (snd c) /\ ct_pos (snd c)) chunks ->
  file_bytes d f chunks = Ok bytes -> wfile_bytes_ct d f chunks = Ok bytes.
Proof.
  intros d f.
  apply (wfile_bytes_with_eq (fun c => wchunk_ok c /\ ct_valid (snd c) /\ ct_pos (snd c))).
  intros w table xs m bs Hw Ha (Hc & Hv & Hp). cbn [snd] in Hv, Hp.
  apply wf_chunk_with_spec; try assumption. apply body_contract_ct; assumption.
Qed.

(* ================================================================== *)
(* 7b. the converse: the word-level program succeeds only where the    *)
(*     bit-list model does                                             *)
(* ================================================================== *)
Lemma wf_write_num_inv w d x w' : wf_write_num w d x = Ok w' -> exists b, write_num d x = Ok b.
Proof.
  unfold wf_write_num, write_num. destruct (to_bytes d x); cbn [bind]; try discriminate.
  intros _. eexists. reflexivity.
Qed.

Lemma wf_write_prefix_list_inv f pd n common : forall ps w w',
  wf_write_prefix_list w f pd n common ps = Ok w' ->
  exists b, write_prefix_list f pd n common ps = Ok b.
Proof.
  induction ps as [|p t IH]; intros w w' H; cbn [write_prefix_list].
  - eexists. reflexivity.
  - cbn [wf_write_prefix_list] in H. cbv zeta in H.
    destruct (wf_write_num _ pd (of_u pd (p_lower p))) as [w1| |] eqn:E1; cbn [bind] in H;
      try discriminate.
    destruct (wf_write_num w1 pd (of_u pd (p_upper p))) as [w2| |] eqn:E2; cbn [bind] in H;
      try discriminate.
    destruct (wf_write_num_inv _ _ _ _ E1) as (lo & Elo).
    destruct (wf_write_num_inv _ _ _ _ E2) as (up & Eup).
    destruct (IH _ _ H) as (r & Er).
    unfold write_unum. rewrite Elo, Eup. cbn [bind]. rewrite Er. cbn [bind].
    eexists. reflexivity.
Qed.

Lemma wf_write_prefixes_inv w f pd n ps w' :
  wf_write_prefixes w f pd n ps = Ok w' -> exists b, write_prefixes f pd n ps = Ok b.
Proof.
  unfold wf_write_prefixes, write_prefixes. cbv zeta. intros H.
  destruct (fgcd f).
  - destruct (common_gcd pd ps) as [g|];
      destruct (wf_write_prefix_list_inv _ _ _ _ _ _ _ H) as (b & ->); cbn [bind];
      eexists; reflexivity.
  - destruct (wf_write_prefix_list_inv _ _ _ _ _ _ _ H) as (b & ->); cbn [bind].
    eexists. reflexivity.
Qed.

Lemma wf_write_moments_inv sd : forall ms w w',
  wf_write_moments w sd ms = Ok w' -> exists b, write_moments sd ms = Ok b.
Proof.
  induction ms as [|m t IH]; intros w w' H; cbn [write_moments].
  - eexists. reflexivity.
  - cbn [wf_write_moments] in H.
    destruct (wf_write_num w sd m) as [w1| |] eqn:E1; cbn [bind] in H; try discriminate.
    destruct (wf_write_num_inv _ _ _ _ E1) as (b1 & ->).
    destruct (IH _ _ H) as (r & ->). cbn [bind]. eexists. reflexivity.
Qed.

(* success of the metadata does not depend on the body-size field *)
Lemma wf_write_meta_inv w f d m w' sz :
  wf_write_meta w f d m = Ok w' ->
  exists mb, write_meta f d (mkMeta (m_n m) sz (m_moments m) (m_table m)) = Ok mb.
Proof.
  unfold wf_write_meta, write_meta. cbv zeta. cbn [m_n m_body m_moments m_table]. intros H.
  destruct (wf_write_moments _ (sdt d) (m_moments m)) as [w1| |] eqn:E1; cbn [bind] in H;
    try discriminate.
  destruct (wf_write_prefixes w1 f (pdt f d) (m_n m) (m_table m)) as [w2| |] eqn:E2;
    cbn [bind] in H; try discriminate.
  destruct (wf_write_moments_inv _ _ _ _ E1) as (mo & ->).
  destruct (wf_write_prefixes_inv _ _ _ _ _ _ E2) as (ps & ->). cbn [bind].
  eexists. reflexivity.
Qed.

Lemma wf_body_loop_inv ps general : forall fuel us w w',
  wf_body_loop fuel (find_prefix ps) general w us = Ok w' ->
  exists b, write_body_fuel fuel ps us = Ok b.
Proof.
  induction fuel as [|fl IH]; intros us w w' H; cbn [write_body_fuel].
  - eexists. reflexivity.
  - destruct us as [|u t]; [eexists; reflexivity|].
    cbn [wf_body_loop] in H.
    destruct (find_prefix ps u) as [p|]; [|discriminate].
    cbv zeta in H. destruct (p_jump p) as [j|].
    + destruct (wr_write_varint _ (N.of_nat (run_len p t)) j) as [w2| |]; cbn [bind] in H;
        try discriminate.
      destruct (IH _ _ _ H) as (r & ->). cbn [bind]. eexists. reflexivity.
    + destruct (IH _ _ _ H) as (r & ->). cbn [bind]. eexists. reflexivity.
Qed.

Lemma wf_write_body_inv w pd ps us w' :
  wf_write_body w pd ps us = Ok w' -> exists body, write_body ps us = Ok body.
Proof.
  unfold wf_write_body, wf_write_body_with, write_body. intros H.
  destruct (wf_body_loop _ _ _ w us) as [w1| |] eqn:E1; cbn [bind] in H; try discriminate.
  destruct (wf_body_loop_inv _ _ _ _ _ _ E1) as (b & ->). cbn [bind]. eexists. reflexivity.
Qed.

Lemma wf_chunk_inv w d f table xs w' :
  wf_chunk w d f table xs = Ok w' -> exists m bs, chunk_payload d f table xs = Ok (m, bs).
Proof.
  unfold wf_chunk, wf_chunk_with, chunk_payload. cbv zeta. intros H.
  destruct (wf_aligned_byte w Consts.MAGIC_CHUNK_BYTE) as [w1| |]; cbn [bind] in H; try discriminate.
  destruct (wf_write_meta w1 f d _) as [w2| |] eqn:E2; cbn [bind] in H; try discriminate.
  destruct (wf_write_body w2 _ table _) as [w3| |] eqn:E3; cbn [bind] in H; try discriminate.
  destruct (wf_write_body_inv _ _ _ _ _ E3) as (body & ->). cbn [bind].
  destruct (wf_write_meta_inv _ _ _ _ _ (Nlen (bits_to_bytes body)) E2) as (mb & Emb).
  cbn [m_n m_moments m_table] in Emb. rewrite Emb. cbn [bind]. eexists. eexists. reflexivity.
Qed.

Lemma wf_chunks_inv d f : forall chunks w w',
  wf_chunks w d f chunks = Ok w' -> exists cb, chunks_bytes d f chunks = Ok cb.
Proof.
  induction chunks as [|[xs table] t IH]; intros w w' H; cbn [chunks_bytes].
  - eexists. reflexivity.
  - unfold wf_chunks in H. cbn [wf_chunks_with] in H.
    destruct (wf_chunk w d f table xs) as [w1| |] eqn:E1; cbn [bind] in H; try discriminate.
    destruct (wf_chunk_inv _ _ _ _ _ _ E1) as (m & bs & ->). cbn [bind].
    destruct (IH _ _ H) as (r & ->). cbn [bind]. eexists. reflexivity.
Qed.

Lemma wf_header_inv w d f w' : wf_header w d f = Ok w' -> exists hb, header_bytes d f = Ok hb.
Proof.
  unfold wf_header, header_bytes, write_flags. intros H.
  destruct (flags_payload f) as [p| |]; cbn [bind] in *; try discriminate.
  eexists. reflexivity.
Qed.

Theorem wfile_bytes_inv d f chunks bytes :
  wfile_bytes d f chunks = Ok bytes -> exists bytes', file_bytes d f chunks = Ok bytes'.
Proof.
  unfold wfile_bytes, wfile_bytes_with, file_bytes. intros H.
  destruct (wf_header wr_default d f) as [w1| |] eqn:E1; cbn [bind] in H; try discriminate.
  destruct (wf_chunks_with wf_chunk w1 d f chunks) as [w2| |] eqn:E2; cbn [bind] in H;
    try discriminate.
  destruct (wf_header_inv _ _ _ _ E1) as (hb & ->). cbn [bind].
  destruct (wf_chunks_inv _ _ _ _ _ E2) as (cb & ->). cbn [bind]. eexists. reflexivity.
Qed.

(* both directions: under the guard the two programs succeed on the same inputs, with the
   same bytes *)
Theorem wfile_bytes_iff : forall d f chunks bytes,
  Forall wchunk_ok chunks ->
  (wfile_bytes d f chunks = Ok bytes <-> file_bytes d f chunks = Ok bytes).
Proof.
  intros d f chunks bytes HG. split; [|apply wfile_bytes_eq_guard; exact HG].
  intros H. destruct (wfile_bytes_inv _ _ _ _ H) as (bytes' & H').
  pose proof (wfile_bytes_eq_guard _ _ _ _ HG H') as H2. congruence.
Qed.

(* ================================================================== *)
(* 8. non-vacuity                                                      *)
(* ================================================================== *)
(* a two-chunk i16 file, delta order 1, gcds on.  First chunk: deltas 10 10 10 10 3 10 10 6 0;
   the prefix of 10 is a run-length prefix (jumpstart 1), the other prefix has gcd 3 (so the
   offsets are divided, and the common gcd 3 is written once).  Second chunk: a single
   run-length prefix with an empty code. *)
Definition wx_xs1 : list Z := [10; 20; 30; 40; 50; 53; 63; 73; 79; 79]%Z.
Definition wx_table1 : list prefix :=
  [mkPrefix 6 32778 32778 [true] (Some 1) 1; mkPrefix 3 32768 32774 [false] None 3].
Definition wx_xs2 : list Z := [5; 5; 5; 5]%Z.
Definition wx_table2 : list prefix := [mkPrefix 3 32768 32768 [] (Some 1) 1].
Definition wx_chunks := [(wx_xs1, wx_table1); (wx_xs2, wx_table2)].
Definition wx_bytes : list N :=
  [113; 99; 111; 33; 13; 156; 44; 0; 0; 10; 0; 0; 0; 2; 0; 10; 0; 5;
   128; 1; 48; 0; 80; 0; 80; 112; 152; 0; 0; 0; 48; 64; 243; 136; 44;
   0; 0; 4; 0; 0; 0; 1; 0; 5; 0; 3; 48; 0; 0; 0; 0; 66; 96; 46].

Example wfile_example :
  wfile_bytes DI16 (writer_flags 1 true) wx_chunks = Ok wx_bytes /\
  file_bytes DI16 (writer_flags 1 true) wx_chunks = Ok wx_bytes /\
  wfile_bytes_ct DI16 (writer_flags 1 true) [(wx_xs1, rev wx_table1); (wx_xs2, wx_table2)]
  = file_bytes DI16 (writer_flags 1 true) [(wx_xs1, rev wx_table1); (wx_xs2, wx_table2)].
Proof. vm_compute. repeat split; reflexivity. Qed.

(* the guard holds for it, so the theorem applies *)
Example wfile_example_guard : Forall wchunk_ok wx_chunks.
Proof.
  repeat constructor; cbn [fst snd p_gcd]; try lia; vm_compute; discriminate.
Qed.

Example wfile_example_thm : wfile_bytes DI16 (writer_flags 1 true) wx_chunks = Ok wx_bytes.
Proof.
  apply wfile_bytes_eq_guard; [exact wfile_example_guard|]. vm_compute. reflexivity.
Qed.

(* and the hypotheses of [wfile_bytes_eq] ([chunk_ok]) are satisfiable: FileL's example *)
Example wfile_example_chunk_ok :
  exists bytes,
    wfile_bytes DI32 (writer_flags 0 true) [(ex_xs, ex_table); ([], []); (ex_xs, ex_table)] = Ok bytes /\
    file_bytes DI32 (writer_flags 0 true) [(ex_xs, ex_table); ([], []); (ex_xs, ex_table)] = Ok bytes /\
    Reader.decode_file DI32 bytes = Ok (ex_xs ++ ex_xs).
Proof.
  apply (wfile_bytes_writer DI32 0 true [(ex_xs, ex_table); ([], []); (ex_xs, ex_table)]); [lia|].
  constructor; [apply chunk_ok_example|]. constructor; [|constructor; [apply chunk_ok_example|constructor]].
  unfold chunk_ok. cbn [fst snd]. split; [vm_compute; reflexivity|]. split; [constructor|].
  split; [split; [reflexivity|split; [constructor|vm_compute; lia]]|].
  split; [constructor|]. split; [vm_compute; reflexivity|]. split; [constructor|].
  split; [intros; constructor|]. intros g _ H. discriminate H.
Qed.

Print Assumptions wf_header_spec.
Print Assumptions wf_write_meta_spec.
Print Assumptions wf_write_body_spec.
Print Assumptions wf_chunk_spec.
Print Assumptions wfile_bytes_ct_eq.
Print Assumptions wfile_bytes_iff.
Print Assumptions wfile_bytes_writer.
Print Assumptions wfile_bytes_eq.
