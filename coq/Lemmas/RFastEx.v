(* Non-vacuity examples and exhaustive sweeps for RFastL.v (closed vm_compute computations).
   Kept out of RFastL.v so that the independent checker (coqchk), which re-evaluates them with its
   own slow reduction, does not have to re-run them when it re-checks the property theorems. *)
(* RFastL.v — the COMPLETE decompress_unsigneds_limited_dirty, unchecked fast path included,
   as a program over the 64-bit-word BitReader and the literal HuffmanTable
   (Model/RFast.v: rfa_batch) returns exactly what the bit-list model of the complete
   function (Fast.fast_batch) returns on the reader's abstract stream — the same numbers,
   the same incomplete prefix, the same finished flag, the same status, the same new
   position — and it never panics: in particular every `words[i]` of an unchecked read is
   inside the word buffer (rfa_batch_in_bounds).  With FastL.fast_batch_eq it is also
   Codec.read_batch, the checked-only semantics, on every chunk whose metadata parsed.
   No axioms, nothing admitted. *)
From Coq Require Import Lia ZifyBool ZifyN ZifyNat.
From QCo.Lemmas Require Import Tactics BitsL CodecL BodyL TruncL NoPanicL FastL WordsL RFileL HuffL RBodyL.
From QCo.Model Require Import Base Consts DType Codec Reader Fast Words Huff Writer RFile RBody RFast.
Open Scope N_scope.

(* Reader.v has its own [stream]; here it is the abstract stream of a reader position *)
From QCo.Lemmas Require Import RFastL.
(* ================================================================== *)
(* 11. non-vacuity                                                     *)
(* ================================================================== *)
(* the model does panic on an out-of-range word index: an unchecked read at the end of the
   buffer, and one that starts inside and runs over the end *)
Example unchecked_reads_oob :
  rfa_unchecked_read_one [5; 6] (1, 64) = Panic /\
  rfa_unchecked_read_diff 32 [5; 6] (1, 40) 30 = Panic /\
  rfa_unchecked_read_diff 128 [5; 6] (0, 10) 128 = Panic /\
  rfa_unchecked_read_varint [5; 7] (1, 60) 3 = Panic /\
  rfa_unchecked_read_diff 32 [5; 6] (1, 40) 24 = Ok (6, (1, 64)).
Proof. vm_compute. repeat split; reflexivity. Qed.

(* A u16 file with one chunk of 400 numbers (no delta encoding) over three prefixes:
     [true]         the single value 7 with run lengths (jumpstart 2): k = 0, the
                    `reps > 1 && p.k == 0` branch of unchecked_decompress_offsets,
     [false; true]  1000..1200 (k = 7, most offsets take an eighth bit),
     [false; false] the whole type (k = 16 = U::BITS: no extra bit).
   max_bits_per_num_block = 49 (code + 48 varint bits of the run prefix),
   max_overshoot_per_num_block = 5, use_gcd = false (TrivialGcdOp).  The body is 419 bytes at
   bit 288 of the file (the middle of word 4): 30 blocks are guaranteed safe as long as
   30 * 49 + 5 = 1475 bits remain (5 = MAX_PREFIX_TABLE_SIZE_LOG - 1 at its value 6). *)
Definition fx_pA : prefix := mkPrefix 60 7 7 [true] (Some 2) 1.
Definition fx_pB : prefix := mkPrefix 90 1000 1200 [false; true] None 1.
Definition fx_pC : prefix := mkPrefix 90 0 65535 [false; false] None 1.
Definition fx_table : list prefix := [fx_pA; fx_pB; fx_pC].

(* pseudo-random numbers: runs of 1..4 sevens, values of 1000..1200, arbitrary u16 *)
Fixpoint fx_gen (n : nat) (seed : N) : list Z :=
  match n with
  | O => []
  | S m =>
    let seed' := (seed * 1103515245 + 12345) mod 2147483648 in
    let c := (seed / 65536) mod 8 in
    (if c <? 2 then repeat 7%Z (N.to_nat (1 + (seed / 1024) mod 4))
     else if c <? 5 then [Z.of_N (1000 + (seed / 8) mod 201)]
     else [Z.of_N ((seed / 8) mod 65536)]) ++ fx_gen m seed'
  end.
Definition fx_xs : list Z := firstn 400 (fx_gen 400 42).
Definition fx_us : list N := map Z.to_N fx_xs.
Definition fx_flags : flags := writer_flags 0 true.
Definition fx_bytes : list N :=
  match file_bytes DU16 fx_flags [(fx_xs, fx_table)] with Ok b => b | _ => [] end.

(* word level against BOTH bit-list models on the same bytes at the same position:
   everything equal, no panic *)
Definition fx_out_eqb (bytes : list N) (o : rb_out) (m : batch_out) : bool :=
  list_eqb N.eqb (rb_nums o) (b_nums m) && bx_inc_eqb (rb_incomplete o) (b_incomplete m)
  && Bool.eqb (rb_finished o) (b_finished m) && bx_status_eqb (rb_status o) (b_status m)
  && list_eqb Bool.eqb (b_rest m) (skipn (N.to_nat (pos (rb_pos o))) (bytes_to_bits bytes))
  && negb (bx_status_eqb (rb_status o) SPanic).

Definition fx_same (bytes : list N) (p n_left : N) (inc : option (prefix * N))
           (limit : N) (eoi : bool) : bool :=
  match rfa_batch_bytes 16 16 fx_table bytes p n_left inc limit eoi with
  | Ok o =>
    let s := skipn (N.to_nat p) (bytes_to_bits bytes) in
    fx_out_eqb bytes o (fast_batch 16 16 (8 * Nlen bytes) fx_table n_left inc limit eoi s)
    && fx_out_eqb bytes o (read_batch 16 (8 * Nlen bytes) fx_table n_left inc limit eoi s)
  | _ => false
  end.

(* what the guarded loop of unchecked blocks decodes by itself: (how many numbers, where it
   stops, how many are left to the checked loop) *)
Definition fx_unchecked (bytes : list N) (p room : N) : res (N * rpos * N) :=
  let '(ws, tb) := bw_extend [] 0 bytes in
  do table <- hfrom 16 fx_table;
  do '(l, st, _, room1) <-
     rfa_fast_loop (S (N.to_nat room)) 16 16 (rfa_use_gcd fx_table) ws tb table
                   (rfa_max_bits_per_num_block 16 fx_table)
                   (rfa_max_overshoot_per_num_block fx_table) None room (rb_seek_to p);
  Ok (Nlen l, st, room1).

(* Conjuncts that pin how far the loop of unchecked blocks gets depend on the guard's
   max_overshoot = MAX_PREFIX_TABLE_SIZE_LOG - 1 - k: they are stated for the value 6 of the
   repository and are vacuous when the generated constant differs.  Everything else in these
   examples is computed with whatever the constant is. *)
Definition at_stride6 (P : Prop) : Prop :=
  if Consts.MAX_PREFIX_TABLE_SIZE_LOG =? 6 then P else True.

Example rfast_example :
  file_bytes DU16 fx_flags [(fx_xs, fx_table)] = Ok fx_bytes /\ Nlen fx_bytes = 456 /\
  rf_header_bytes DU16 fx_bytes 0 = Ok (fx_flags, (0, 48)) /\
  rf_chunk_meta_bytes DU16 fx_flags fx_bytes 48 = Ok (Some (mkMeta 400 419 [] fx_table), (4, 32)) /\
  rfa_max_bits_per_num_block 16 fx_table = 49 /\ rfa_max_overshoot_per_num_block fx_table = Consts.MAX_PREFIX_TABLE_SIZE_LOG - 1 /\
  rfa_use_gcd fx_table = false /\
  (* the whole body in one batch: 258 numbers by unchecked blocks (up to word 39), the other
     142 by checked blocks; ends at bit 3634 of 3648 *)
  rfa_batch_bytes 16 16 fx_table fx_bytes 288 400 None 1000 true
  = Ok (mkRb fx_us (56, 50) None true SOk) /\
  at_stride6 (fx_unchecked fx_bytes 288 400 = Ok (258, (39, 4), 142)) /\
  fx_same fx_bytes 288 400 None 1000 true = true /\
  (* limit 50: the whole batch by unchecked blocks *)
  rfa_batch_bytes 16 16 fx_table fx_bytes 288 400 None 50 true
  = Ok (mkRb (firstn 50 fx_us) (11, 5) None false SOk) /\
  at_stride6 (fx_unchecked fx_bytes 288 50 = Ok (50, (11, 5), 0)) /\
  fx_same fx_bytes 288 400 None 50 true = true /\
  (* the next 50 from (11, 5): an unchecked block cuts a run at the batch end (limit_reps) *)
  rfa_batch_bytes 16 16 fx_table fx_bytes 709 350 None 50 true
  = Ok (mkRb (firstn 50 (skipn 50 fx_us)) (17, 21) (Some (fx_pA, 5)) false SOk) /\
  fx_same fx_bytes 709 350 None 50 true = true /\
  (* ... and the next call, with the incomplete prefix carried over *)
  fx_same fx_bytes 1109 300 (Some (fx_pA, 5)) 50 true = true /\
  fx_same fx_bytes 1109 300 (Some (fx_pA, 5)) 1000 false = true.
Proof. vm_compute. repeat split; reflexivity. Qed.

(* truncated data: the loop of unchecked blocks stops when fewer than 30 blocks are
   guaranteed safe, the checked loop goes on to the end of the data and reports
   InsufficientData (or a short batch) at the end of the last complete number *)
Example rfast_example_truncated :
  (* 300 bytes held: 112 numbers unchecked, 137 checked *)
  rfa_batch_bytes 16 16 fx_table (firstn 300 fx_bytes) 288 400 None 1000 true
  = Ok (mkRb (firstn 249 fx_us) (37, 30) None true (SErr InsufficientData)) /\
  rfa_batch_bytes 16 16 fx_table (firstn 300 fx_bytes) 288 400 None 1000 false
  = Ok (mkRb (firstn 249 fx_us) (37, 30) None false SOk) /\
  at_stride6 (fx_unchecked (firstn 300 fx_bytes) 288 400 = Ok (112, (18, 33), 288)) /\
  fx_same (firstn 300 fx_bytes) 288 400 None 1000 true = true /\
  fx_same (firstn 300 fx_bytes) 288 400 None 1000 false = true /\
  fx_same (firstn 300 fx_bytes) 288 400 None 50 false = true /\
  (* 230 bytes held: 47 unchecked, 135 checked *)
  rfa_batch_bytes 16 16 fx_table (firstn 230 fx_bytes) 288 400 None 1000 false
  = Ok (mkRb (firstn 182 fx_us) (28, 41) None false SOk) /\
  at_stride6 (fx_unchecked (firstn 230 fx_bytes) 288 400 = Ok (47, (10, 32), 353)) /\
  fx_same (firstn 230 fx_bytes) 288 400 None 1000 false = true /\
  (* 200 bytes held: fewer than 1475 bits from the start, no unchecked block at all *)
  rfa_batch_bytes 16 16 fx_table (firstn 200 fx_bytes) 288 400 None 1000 false
  = Ok (mkRb (firstn 151 fx_us) (24, 62) None false SOk) /\
  at_stride6 (fx_unchecked (firstn 200 fx_bytes) 288 400 = Ok (0, (4, 32), 400)) /\
  fx_same (firstn 200 fx_bytes) 288 400 None 1000 false = true.
Proof. vm_compute. repeat split; reflexivity. Qed.

(* the guard is what keeps the unchecked reads in bounds: the same decompressor with a
   max_bits_per_num_block that is too small (1 instead of 49) runs unchecked blocks over the
   end of the truncated data and indexes past the last word *)
Definition fx_batch_with (mb mo : N) (bytes : list N) (p n_left limit : N) : res status :=
  let '(ws, tb) := bw_extend [] 0 bytes in
  do table <- hfrom 16 fx_table;
  Ok (rb_status (rfa_batch 16 16 ws tb table mb mo false n_left None limit false (rb_seek_to p))).

Example rfast_example_bad_guard :
  fx_batch_with 49 5 (firstn 230 fx_bytes) 288 400 1000 = Ok SOk /\
  fx_batch_with 1 0 (firstn 230 fx_bytes) 288 400 1000 = Ok SPanic.
Proof. vm_compute. repeat split; reflexivity. Qed.

(* every truncation point of the file (from inside the metadata padding to the whole file),
   limit 1000, both flags: one call, the three sides agree *)
Example rfast_example_all_truncations :
  forallb (fun k => let bs := firstn k fx_bytes in
             fx_same bs 288 400 None 1000 true && fx_same bs 288 400 None 1000 false)
          (seq 36 421) = true.
Proof. vm_cast_no_check (eq_refl true). Qed.

(* every truncation point, limit 50: decode batch after batch at word level (position and
   incomplete prefix threaded from the word-level side) until nothing more comes out; at
   every step the three sides agree *)
Fixpoint fx_iter (fuel : nat) (bytes : list N) (p n_left : N) (inc : option (prefix * N))
         (limit : N) (eoi : bool) : bool :=
  match fuel with
  | O => true
  | S f =>
    fx_same bytes p n_left inc limit eoi &&
    match rfa_batch_bytes 16 16 fx_table bytes p n_left inc limit eoi with
    | Ok o =>
      match rb_status o, rb_nums o with
      | SOk, _ :: _ => fx_iter f bytes (pos (rb_pos o)) (n_left - Nlen (rb_nums o))
                               (rb_incomplete o) limit eoi
      | _, _ => true
      end
    | _ => false
    end
  end.

Example rfast_example_all_truncations_batches :
  forallb (fun k => fx_iter 60 (firstn k fx_bytes) 288 400 None 50 false) (seq 36 421) = true.
Proof. vm_cast_no_check (eq_refl true). Qed.

(* hostile starts: 70 consecutive bit positions (so every j of a word and positions at and
   across word boundaries), with and without a carried-over incomplete prefix of each of
   the three prefixes, on the whole file and on a truncation *)
Example rfast_example_positions :
  forallb (fun bs =>
     forallb (fun p => fx_same bs p 400 None 1000 false
                       && fx_same bs p 400 (Some (fx_pB, 3)) 45 true
                       && fx_same bs p 400 (Some (fx_pC, 2)) 1000 true
                       && fx_same bs p 35 (Some (fx_pA, 9)) 1000 false)
             (map N.of_nat (seq 288 70)))
          [fx_bytes; firstn 300 fx_bytes] = true.
Proof. vm_cast_no_check (eq_refl true). Qed.

(* and the theorem applies to the example: its hypotheses hold *)
Example rfast_example_thm :
  b_nums (read_batch 16 (8 * Nlen fx_bytes) fx_table 400 None 1000 true
                     (skipn 288 (bytes_to_bits fx_bytes))) = fx_us.
Proof.
  assert (Hb : Forall (fun b => b < 256) fx_bytes).
  { apply Forall_forall. intros b Hin.
    assert (E : forallb (fun b => b <? 256) fx_bytes = true) by (vm_compute; reflexivity).
    rewrite forallb_forall in E. apply N.ltb_lt. apply E. exact Hin. }
  assert (HT : fast_table 16 16 fx_table).
  { split; [vm_compute; reflexivity|]. split; [vm_compute; lia|].
    repeat constructor; cbn [p_gcd p_lower p_upper p_jump fx_pA fx_pB fx_pC];
      try (vm_compute; discriminate); try (apply quirk_ok_phys; lia);
      intros j E; inversion E; vm_compute; discriminate. }
  pose proof (rfa_batch_bytes_eq 16 16 fx_table fx_bytes 288 400 None 1000 true Hb
                ltac:(vm_compute; discriminate) HT ltac:(discriminate)
                ltac:(vm_compute; discriminate) ltac:(intros p k E; discriminate)) as H.
  replace (rfa_batch_bytes 16 16 fx_table fx_bytes 288 400 None 1000 true)
    with (@Ok rb_out (mkRb fx_us (56, 50) None true SOk)) in H by (vm_compute; reflexivity).
  cbv zeta in H. destruct H as (Hn & _). cbn [rb_nums] in Hn. symmetry. exact Hn.
Qed.

