(* TimeL.v — SystemTime <-> timestamp conversions (Model/Time.v, the fixed code):
   exact values and error sets for all inputs; no panics.

   Proof structure: each small function of the model gets one specification lemma
   (few case splits, small lia goals); the theorems are obtained by rewriting. *)
From QCo.Lemmas Require Import Tactics DTypeL.
From QCo.Model Require Import Base Consts DType Time.
Open Scope Z_scope.

(* the mathematical part count of the instant (sec,nanos), rounded down to a whole part,
   and the sub-second nanoseconds rounded down to a whole part *)
Definition parts_of (d : dtype) (sec nanos : Z) : Z :=
  sec * pps d + nanos / (BILLION / pps d).
Definition floor_nanos (d : dtype) (nanos : Z) : Z :=
  nanos / (BILLION / pps d) * (BILLION / pps d).

(* the (sec, nanos) a part count stands for *)
Definition secs_of (d : dtype) (parts : Z) : Z := parts / pps d.
Definition nanos_of (d : dtype) (parts : Z) : Z := (parts mod pps d) * (BILLION / pps d).

Definition is_ts (d : dtype) : Prop := kind d = KTs64 \/ kind d = KTs96.

Ltac unfold_ints :=
  unfold neg_i64, wrapping_neg_i64, unsigned_abs, dbg, checked,
    st_ok, in_i64, in_u64, in_u32, in_i128, as_i64, as_u64, as_u32 in *.

(* replace pps / ns_per_part / BILLION by literals once d is a constructor *)
Ltac conc :=
  unfold parts_of, floor_nanos, secs_of, nanos_of, BILLION in *;
  change (ns_per_part DTsNanos) with 1 in *; change (ns_per_part DTsNanos96) with 1 in *;
  change (ns_per_part DTsMicros) with 1000 in *; change (ns_per_part DTsMicros96) with 1000 in *;
  change (pps DTsNanos) with 1000000000 in *; change (pps DTsNanos96) with 1000000000 in *;
  change (pps DTsMicros) with 1000000 in *; change (pps DTsMicros96) with 1000000 in *;
  change (Z.of_N 1000000000) with 1000000000 in *; change (Z.of_N 1000000) with 1000000 in *;
  change (1000000000 / 1000000000) with 1 in *; change (1000000000 / 1000000) with 1000 in *.

(* split the goal on every `if`, reducing binds; close leaves by lia *)
Ltac crunch :=
  repeat (destr_if; cbn [bind negb]); try discriminate; try lia;
  try (f_equal; lia); try (f_equal; f_equal; lia).

(* all timestamp cases of d *)
Ltac ts_cases d :=
  match goal with
  | K : kind d = _ |- _ => destruct d; try discriminate K; clear K
  | T : is_ts d |- _ => destruct T as [T|T]; destruct d; try discriminate T; clear T
  end.

(* ================= arithmetic helpers ================= *)

Lemma parts_of_split d sec nanos :
  is_ts d -> 0 <= nanos < BILLION ->
  secs_of d (parts_of d sec nanos) = sec
  /\ nanos_of d (parts_of d sec nanos) = floor_nanos d nanos.
Proof. intros T H. ts_cases d; conc; lia. Qed.

Lemma split_parts_of d parts :
  is_ts d ->
  parts_of d (secs_of d parts) (nanos_of d parts) = parts
  /\ 0 <= nanos_of d parts < BILLION
  /\ nanos_of d parts mod (BILLION / pps d) = 0.
Proof. intros T. ts_cases d; conc; lia. Qed.

Lemma secs_of_i64 d parts :
  kind d = KTs64 -> in_i64 parts = true ->
  - 9223372036855 <= secs_of d parts <= 9223372036854.
Proof. intros K H. ts_cases d; unfold_ints; conc; norm_pows; lia. Qed.

Lemma secs_of_valid d parts :
  kind d = KTs96 -> valid d parts = true -> in_i64 (secs_of d parts) = true.
Proof. intros K H. ts_cases d; unfold_ints; unfold_dt; conc; norm_pows; lia. Qed.

Lemma valid_parts_of d sec nanos :
  kind d = KTs96 -> st_ok sec nanos = true -> valid d (parts_of d sec nanos) = true.
Proof. intros K H. ts_cases d; unfold_ints; unfold_dt; conc; norm_pows; lia. Qed.

Lemma st_ok_split sec nanos :
  st_ok sec nanos = true <-> in_i64 sec = true /\ 0 <= nanos < BILLION.
Proof. unfold st_ok, in_i64, BILLION. lia. Qed.

(* ================= the small functions ================= *)

(* the `match duration_since(UNIX_EPOCH)` block just recovers (sec, nanos) *)
Lemma st_split64_ok sec nanos :
  st_ok sec nanos = true -> st_split64 sec nanos = Ok (sec, nanos).
Proof.
  intros H. unfold st_split64, duration_since_epoch. unfold_ints. unfold BILLION in *.
  norm_pows. crunch.
Qed.

Lemma st_split96_ok sec nanos :
  st_ok sec nanos = true -> st_split96 sec nanos = Ok (sec, nanos).
Proof.
  intros H. unfold st_split96, duration_since_epoch. unfold_ints. unfold BILLION in *.
  norm_pows. crunch.
Qed.

Lemma from64_spec d s n :
  kind d = KTs64 -> in_i64 s = true -> 0 <= n < BILLION ->
  from_secs_and_nanos64 d s n =
    if in_i64 (parts_of d s n) then Ok (parts_of d s n) else Err InvalidArgument.
Proof.
  intros K H N. unfold from_secs_and_nanos64.
  assert (M : dbg in_i128 (s * pps d) = Ok (s * pps d)).
  { ts_cases d; unfold_ints; conc; norm_pows; (destr_if; [reflexivity | lia]). }
  rewrite M; cbn [bind].
  assert (Q : Z.quot n (ns_per_part d) = n / (BILLION / pps d)).
  { ts_cases d; conc; apply Z.quot_div_nonneg; lia. }
  rewrite Q. fold (parts_of d s n).
  assert (P : dbg in_i128 (parts_of d s n) = Ok (parts_of d s n)).
  { ts_cases d; unfold_ints; conc; norm_pows; (destr_if; [reflexivity | lia]). }
  rewrite P; cbn [bind]. reflexivity.
Qed.

Lemma from96_spec d s n :
  kind d = KTs96 -> in_i64 s = true -> 0 <= n < BILLION ->
  from_secs_and_nanos96 d s n = Ok (parts_of d s n).
Proof.
  intros K H N. unfold from_secs_and_nanos96.
  assert (M : dbg in_i128 (s * pps d) = Ok (s * pps d)).
  { ts_cases d; unfold_ints; conc; norm_pows; (destr_if; [reflexivity | lia]). }
  rewrite M; cbn [bind].
  assert (Q : Z.quot n (ns_per_part d) = n / (BILLION / pps d)).
  { ts_cases d; conc; apply Z.quot_div_nonneg; lia. }
  rewrite Q. fold (parts_of d s n).
  ts_cases d; unfold_ints; conc; norm_pows; (destr_if; [reflexivity | lia]).
Qed.

Lemma to64_spec d parts :
  kind d = KTs64 -> in_i64 parts = true ->
  to_secs_and_nanos64 d parts = Ok (secs_of d parts, nanos_of d parts).
Proof.
  intros K H. unfold to_secs_and_nanos64.
  ts_cases d; unfold_ints; conc; norm_pows; crunch.
Qed.

Lemma to96_spec d parts :
  kind d = KTs96 -> valid d parts = true ->
  to_secs_and_nanos96 d parts = Ok (secs_of d parts, nanos_of d parts).
Proof.
  intros K H. unfold to_secs_and_nanos96.
  ts_cases d; unfold_ints; unfold_dt; conc; norm_pows; crunch.
Qed.

(* From<$t> for SystemTime, 64-bit: `-seconds` needs seconds <> i64::MIN *)
Lemma st_build64_ok s n :
  - 2 ^ 63 < s < 2 ^ 63 -> 0 <= n < BILLION -> st_build64 s n = Ok (s, n).
Proof.
  intros H N. unfold st_build64, duration_new, epoch_add, epoch_sub. unfold_ints.
  unfold BILLION in *. norm_pows. crunch.
Qed.

(* TryFrom<$t> for SystemTime, 96-bit (fixed): every i64 second count is fine *)
Lemma st_build96_ok s n :
  in_i64 s = true -> 0 <= n < BILLION -> st_build96 s n = Ok (s, n).
Proof.
  intros H N. unfold st_build96, duration_new, epoch_add, epoch_sub. unfold_ints.
  unfold BILLION in *. norm_pows. crunch.
Qed.

(* ================= master specifications ================= *)

(* TryFrom<SystemTime> for TimestampMicros / TimestampNanos *)
Theorem st2ts64_spec d sec nanos :
  kind d = KTs64 -> st_ok sec nanos = true ->
  st2ts d sec nanos =
    if in_i64 (parts_of d sec nanos) then Ok (parts_of d sec nanos)
    else Err InvalidArgument.
Proof.
  intros K H. unfold st2ts. rewrite K, st_split64_ok by assumption. cbn [bind].
  apply st_ok_split in H. apply from64_spec; tauto.
Qed.

(* From<SystemTime> for TimestampMicros96 / TimestampNanos96 *)
Theorem st2ts96_spec d sec nanos :
  kind d = KTs96 -> st_ok sec nanos = true ->
  st2ts d sec nanos = Ok (parts_of d sec nanos).
Proof.
  intros K H. unfold st2ts. rewrite K, st_split96_ok by assumption. cbn [bind].
  apply st_ok_split in H. apply from96_spec; tauto.
Qed.

(* From<TimestampMicros / TimestampNanos> for SystemTime *)
Theorem ts2st64_spec d parts :
  kind d = KTs64 -> in_i64 parts = true ->
  ts2st d parts = Ok (secs_of d parts, nanos_of d parts).
Proof.
  intros K H. unfold ts2st, ts2st64. rewrite K, to64_spec by assumption. cbn [bind].
  apply st_build64_ok.
  - pose proof (secs_of_i64 d parts K H). norm_pows. lia.
  - apply split_parts_of. left; assumption.
Qed.

(* TryFrom<TimestampMicros96 / TimestampNanos96> for SystemTime *)
Theorem ts2st96_spec d parts :
  kind d = KTs96 ->
  ts2st d parts =
    if valid d parts then Ok (secs_of d parts, nanos_of d parts) else Err Corruption.
Proof.
  intros K. unfold ts2st, ts2st96. rewrite K.
  destruct (valid d parts) eqn:V; cbn [negb]; [|reflexivity].
  rewrite to96_spec by assumption. cbn [bind].
  apply st_build96_ok.
  - apply secs_of_valid; assumption.
  - apply split_parts_of. right; assumption.
Qed.

(* ================= (a) 64-bit types ================= *)

Theorem st2ts64_ok d sec nanos :
  kind d = KTs64 -> st_ok sec nanos = true -> in_i64 (parts_of d sec nanos) = true ->
  st2ts d sec nanos = Ok (parts_of d sec nanos).
Proof. intros K H R. rewrite st2ts64_spec, R by assumption. reflexivity. Qed.

Theorem st2ts64_out_of_range d sec nanos :
  kind d = KTs64 -> st_ok sec nanos = true -> in_i64 (parts_of d sec nanos) = false ->
  st2ts d sec nanos = Err InvalidArgument.
Proof. intros K H R. rewrite st2ts64_spec, R by assumption. reflexivity. Qed.

(* never a wrapped Ok *)
Theorem st2ts64_ok_exact d sec nanos p :
  kind d = KTs64 -> st_ok sec nanos = true -> st2ts d sec nanos = Ok p ->
  p = parts_of d sec nanos /\ in_i64 p = true.
Proof.
  intros K H. rewrite st2ts64_spec by assumption.
  destruct (in_i64 (parts_of d sec nanos)) eqn:R; [|discriminate].
  intros E. injection E as <-. auto.
Qed.

Theorem ts64_roundtrip d sec nanos :
  kind d = KTs64 -> st_ok sec nanos = true -> in_i64 (parts_of d sec nanos) = true ->
  ts2st d (parts_of d sec nanos) = Ok (sec, floor_nanos d nanos).
Proof.
  intros K H R. rewrite ts2st64_spec by assumption.
  apply st_ok_split in H.
  destruct (parts_of_split d sec nanos (or_introl K)) as [-> ->]; tauto.
Qed.

(* no panic, every st_ok input, every data type *)
Theorem st2ts_not_panic d sec nanos :
  st_ok sec nanos = true -> st2ts d sec nanos <> Panic.
Proof.
  intros H. destruct (kind d) eqn:K.
  1-4: (unfold st2ts; rewrite K; discriminate).
  - rewrite st2ts64_spec by assumption. destr_if; discriminate.
  - rewrite st2ts96_spec by assumption. discriminate.
Qed.

(* the literal forms *)
Theorem nanos64_st2ts sec nanos :
  st_ok sec nanos = true -> - 2 ^ 63 <= sec * 1000000000 + nanos < 2 ^ 63 ->
  st2ts DTsNanos sec nanos = Ok (sec * 1000000000 + nanos).
Proof.
  intros H R. rewrite st2ts64_ok; [| reflexivity | assumption |];
    unfold_ints; conc; norm_pows; [f_equal|]; lia.
Qed.

Theorem nanos64_roundtrip sec nanos :
  st_ok sec nanos = true -> - 2 ^ 63 <= sec * 1000000000 + nanos < 2 ^ 63 ->
  ts2st DTsNanos (sec * 1000000000 + nanos) = Ok (sec, nanos).
Proof.
  intros H R. replace (sec * 1000000000 + nanos) with (parts_of DTsNanos sec nanos)
    by (conc; lia).
  rewrite ts64_roundtrip; [| reflexivity | assumption |];
    unfold_ints; conc; norm_pows; [f_equal; f_equal|]; lia.
Qed.

Theorem micros64_st2ts sec nanos :
  st_ok sec nanos = true -> - 2 ^ 63 <= sec * 1000000 + nanos / 1000 < 2 ^ 63 ->
  st2ts DTsMicros sec nanos = Ok (sec * 1000000 + nanos / 1000).
Proof.
  intros H R. rewrite st2ts64_ok; [| reflexivity | assumption |];
    unfold_ints; conc; norm_pows; [reflexivity | lia].
Qed.

Theorem micros64_roundtrip sec nanos :
  st_ok sec nanos = true -> - 2 ^ 63 <= sec * 1000000 + nanos / 1000 < 2 ^ 63 ->
  ts2st DTsMicros (sec * 1000000 + nanos / 1000) = Ok (sec, nanos / 1000 * 1000).
Proof.
  intros H R. change (sec * 1000000 + nanos / 1000) with (parts_of DTsMicros sec nanos).
  rewrite ts64_roundtrip; [reflexivity | reflexivity | assumption |].
  unfold_ints; conc; norm_pows; lia.
Qed.

(* ================= (b) timestamp -> SystemTime ================= *)

Theorem ts2st64_exact d parts :
  kind d = KTs64 -> in_i64 parts = true ->
  exists sec nanos,
    ts2st d parts = Ok (sec, nanos)
    /\ sec = parts / pps d /\ nanos = (parts mod pps d) * (BILLION / pps d)
    /\ st_ok sec nanos = true
    /\ sec * pps d + nanos / (BILLION / pps d) = parts
    /\ nanos mod (BILLION / pps d) = 0.
Proof.
  intros K H. exists (secs_of d parts), (nanos_of d parts).
  split; [apply ts2st64_spec; assumption|].
  split; [reflexivity|]. split; [reflexivity|].
  destruct (split_parts_of d parts (or_introl K)) as (A & B & C).
  split; [|split; assumption].
  apply st_ok_split. split; [|assumption].
  pose proof (secs_of_i64 d parts K H). unfold in_i64. norm_pows. lia.
Qed.

Theorem ts2st96_corruption_iff d parts :
  kind d = KTs96 -> (ts2st d parts = Err Corruption <-> valid d parts = false).
Proof.
  intros K. rewrite ts2st96_spec by assumption.
  destruct (valid d parts); split; congruence.
Qed.

Theorem ts2st96_valid_ok d parts :
  kind d = KTs96 -> valid d parts = true ->
  exists sec nanos,
    ts2st d parts = Ok (sec, nanos)
    /\ sec = parts / pps d /\ nanos = (parts mod pps d) * (BILLION / pps d)
    /\ st_ok sec nanos = true
    /\ sec * pps d + nanos / (BILLION / pps d) = parts
    /\ nanos mod (BILLION / pps d) = 0.
Proof.
  intros K V. exists (secs_of d parts), (nanos_of d parts).
  split; [rewrite ts2st96_spec, V by assumption; reflexivity|].
  split; [reflexivity|]. split; [reflexivity|].
  destruct (split_parts_of d parts (or_intror K)) as (A & B & C).
  split; [|split; assumption].
  apply st_ok_split. split; [|assumption]. apply secs_of_valid; assumption.
Qed.

(* no panic: every i64 part count (64-bit types), every integer (96-bit types) *)
Theorem ts2st_not_panic d parts :
  (kind d = KTs64 -> in_i64 parts = true) -> ts2st d parts <> Panic.
Proof.
  intros H. destruct (kind d) eqn:K.
  1-4: (unfold ts2st; rewrite K; discriminate).
  - rewrite ts2st64_spec by auto. discriminate.
  - rewrite ts2st96_spec by assumption. destr_if; discriminate.
Qed.

Corollary ts2st64_not_panic d parts :
  kind d = KTs64 -> in_i64 parts = true -> ts2st d parts <> Panic.
Proof. intros K H. apply ts2st_not_panic; auto. Qed.

Corollary ts2st96_not_panic d parts :
  kind d = KTs96 -> ts2st d parts <> Panic.
Proof. intros K. apply ts2st_not_panic. rewrite K. discriminate. Qed.

(* ================= (c) 96-bit types ================= *)

Theorem st2ts96_ok d sec nanos :
  kind d = KTs96 -> st_ok sec nanos = true ->
  st2ts d sec nanos = Ok (parts_of d sec nanos)
  /\ valid d (parts_of d sec nanos) = true.
Proof.
  intros K H. split; [apply st2ts96_spec | apply valid_parts_of]; assumption.
Qed.

Theorem ts96_roundtrip d sec nanos :
  kind d = KTs96 -> st_ok sec nanos = true ->
  ts2st d (parts_of d sec nanos) = Ok (sec, floor_nanos d nanos).
Proof.
  intros K H. rewrite ts2st96_spec, valid_parts_of by assumption.
  apply st_ok_split in H.
  destruct (parts_of_split d sec nanos (or_intror K)) as [-> ->]; tauto.
Qed.

Theorem nanos96_st2ts sec nanos :
  st_ok sec nanos = true ->
  st2ts DTsNanos96 sec nanos = Ok (sec * 1000000000 + nanos)
  /\ valid DTsNanos96 (sec * 1000000000 + nanos) = true.
Proof.
  intros H. destruct (st2ts96_ok DTsNanos96 sec nanos eq_refl H) as [A B].
  conc. rewrite Z.div_1_r in *. auto.
Qed.

Theorem nanos96_roundtrip sec nanos :
  st_ok sec nanos = true ->
  ts2st DTsNanos96 (sec * 1000000000 + nanos) = Ok (sec, nanos).
Proof.
  intros H. pose proof (ts96_roundtrip DTsNanos96 sec nanos eq_refl H) as A.
  conc. rewrite Z.div_1_r, Z.mul_1_r in A. exact A.
Qed.

Theorem micros96_st2ts sec nanos :
  st_ok sec nanos = true ->
  st2ts DTsMicros96 sec nanos = Ok (sec * 1000000 + nanos / 1000)
  /\ valid DTsMicros96 (sec * 1000000 + nanos / 1000) = true.
Proof.
  intros H. destruct (st2ts96_ok DTsMicros96 sec nanos eq_refl H) as [A B].
  conc. auto.
Qed.

Theorem micros96_roundtrip sec nanos :
  st_ok sec nanos = true ->
  ts2st DTsMicros96 (sec * 1000000 + nanos / 1000) = Ok (sec, nanos / 1000 * 1000).
Proof.
  intros H. pose proof (ts96_roundtrip DTsMicros96 sec nanos eq_refl H) as A.
  conc. exact A.
Qed.

(* ================= (d) Timestamp96::new ================= *)

Theorem ts96_new_err_iff d parts :
  kind d = KTs96 -> (ts96_new d parts = Err InvalidArgument <-> valid d parts = false).
Proof.
  intros K. unfold ts96_new. rewrite K. destruct (valid d parts); split; congruence.
Qed.

Theorem ts96_new_ok_iff d parts :
  kind d = KTs96 -> (ts96_new d parts = Ok parts <-> valid d parts = true).
Proof.
  intros K. unfold ts96_new. rewrite K. destruct (valid d parts); split; congruence.
Qed.

(* ================= examples ================= *)

(* one nanosecond less than one second before the epoch: 1969-12-31T23:59:59.000000001 *)
Example ex_before_epoch_1 : st2ts DTsNanos (-1) 1 = Ok (-999999999).
Proof. vm_compute. reflexivity. Qed.
Example ex_before_epoch_2 : ts2st DTsNanos (-999999999) = Ok (-1, 1).
Proof. vm_compute. reflexivity. Qed.
Example ex_before_epoch_3 : st2ts DTsMicros (-1) 999999999 = Ok (-1).
Proof. vm_compute. reflexivity. Qed.
Example ex_before_epoch_4 : ts2st DTsMicros (-1) = Ok (-1, 999999000).
Proof. vm_compute. reflexivity. Qed.
Example ex_whole_second_before : st2ts DTsNanos (-1) 0 = Ok (-1000000000).
Proof. vm_compute. reflexivity. Qed.
Example ex_whole_second_before' : ts2st DTsNanos (-1000000000) = Ok (-1, 0).
Proof. vm_compute. reflexivity. Qed.
Example ex_96_before_epoch : st2ts DTsMicros96 (-1) 1 = Ok (-1000000).
Proof. vm_compute. reflexivity. Qed.

(* extreme representable instants of the 64-bit types *)
Example ex_nanos_max : st2ts DTsNanos 9223372036 854775807 = Ok (2 ^ 63 - 1).
Proof. vm_compute. reflexivity. Qed.
Example ex_nanos_max' : ts2st DTsNanos (2 ^ 63 - 1) = Ok (9223372036, 854775807).
Proof. vm_compute. reflexivity. Qed.
Example ex_nanos_max_plus_1 : st2ts DTsNanos 9223372036 854775808 = Err InvalidArgument.
Proof. vm_compute. reflexivity. Qed.
Example ex_micros_max : st2ts DTsMicros 9223372036854 775807999 = Ok (2 ^ 63 - 1).
Proof. vm_compute. reflexivity. Qed.
Example ex_micros_max' : ts2st DTsMicros (2 ^ 63 - 1) = Ok (9223372036854, 775807000).
Proof. vm_compute. reflexivity. Qed.
Example ex_micros_max_plus_1 : st2ts DTsMicros 9223372036854 775808000 = Err InvalidArgument.
Proof. vm_compute. reflexivity. Qed.

(* former defect G (bottom sliver refused by checked_mul): now accepted, exact round trip *)
Example ex_nanos_min_back : ts2st DTsNanos (- 2 ^ 63) = Ok (-9223372037, 145224192).
Proof. vm_compute. reflexivity. Qed.
Example ex_nanos_min_accepted : st2ts DTsNanos (-9223372037) 145224192 = Ok (- 2 ^ 63).
Proof. vm_compute. reflexivity. Qed.
Example ex_nanos_gap_top : st2ts DTsNanos (-9223372037) 999999999 = Ok (-9223372036000000001).
Proof. vm_compute. reflexivity. Qed.
Example ex_nanos_min_minus_1 : st2ts DTsNanos (-9223372037) 145224191 = Err InvalidArgument.
Proof. vm_compute. reflexivity. Qed.
Example ex_micros_min_back : ts2st DTsMicros (- 2 ^ 63) = Ok (-9223372036855, 224192000).
Proof. vm_compute. reflexivity. Qed.
Example ex_micros_min_accepted : st2ts DTsMicros (-9223372036855) 224192000 = Ok (- 2 ^ 63).
Proof. vm_compute. reflexivity. Qed.
Example ex_micros_min_minus_1 : st2ts DTsMicros (-9223372036855) 224191999 = Err InvalidArgument.
Proof. vm_compute. reflexivity. Qed.

(* former defect P1 (negation of i64::MIN at the earliest SystemTime): no panic any more *)
Example ex_p1_nanos : st2ts DTsNanos (- 2 ^ 63) 0 = Err InvalidArgument.
Proof. vm_compute. reflexivity. Qed.
Example ex_p1_micros : st2ts DTsMicros (- 2 ^ 63) 0 = Err InvalidArgument.
Proof. vm_compute. reflexivity. Qed.
Example ex_p1_nanos96 : st2ts DTsNanos96 (- 2 ^ 63) 0 = Ok (ts96_min DTsNanos96).
Proof. vm_compute. reflexivity. Qed.
Example ex_p1_micros96 : st2ts DTsMicros96 (- 2 ^ 63) 0 = Ok (ts96_min DTsMicros96).
Proof. vm_compute. reflexivity. Qed.
Example ex_p1_next : st2ts DTsNanos (- 2 ^ 63) 1 = Err InvalidArgument.
Proof. vm_compute. reflexivity. Qed.

(* former defect P2 (valid Timestamp96 with seconds = i64::MIN panicked): exact values now *)
Example ex_p2_min : ts2st DTsNanos96 (ts96_min DTsNanos96) = Ok (- 2 ^ 63, 0).
Proof. vm_compute. reflexivity. Qed.
Example ex_p2_min_plus_1 : ts2st DTsNanos96 (ts96_min DTsNanos96 + 1) = Ok (- 2 ^ 63, 1).
Proof. vm_compute. reflexivity. Qed.
Example ex_p2_last : ts2st DTsNanos96 (ts96_min DTsNanos96 + 999999999) = Ok (- 2 ^ 63, 999999999).
Proof. vm_compute. reflexivity. Qed.
Example ex_p2_next : ts2st DTsNanos96 (ts96_min DTsNanos96 + 1000000000) = Ok (- 2 ^ 63 + 1, 0).
Proof. vm_compute. reflexivity. Qed.
Example ex_p2_micros_min : ts2st DTsMicros96 (ts96_min DTsMicros96) = Ok (- 2 ^ 63, 0).
Proof. vm_compute. reflexivity. Qed.
Example ex_p2_micros_min_plus_1 :
  ts2st DTsMicros96 (ts96_min DTsMicros96 + 1) = Ok (- 2 ^ 63, 1000).
Proof. vm_compute. reflexivity. Qed.
Example ex_p2_forward : st2ts DTsNanos96 (- 2 ^ 63) 1 = Ok (ts96_min DTsNanos96 + 1).
Proof. vm_compute. reflexivity. Qed.

(* extreme instants of the 96-bit types; errors *)
Example ex_96_max : st2ts DTsNanos96 (2 ^ 63 - 1) 999999999 = Ok (ts96_max DTsNanos96).
Proof. vm_compute. reflexivity. Qed.
Example ex_96_max' : ts2st DTsNanos96 (ts96_max DTsNanos96) = Ok (2 ^ 63 - 1, 999999999).
Proof. vm_compute. reflexivity. Qed.
Example ex_96_corrupt_hi : ts2st DTsNanos96 (ts96_max DTsNanos96 + 1) = Err Corruption.
Proof. vm_compute. reflexivity. Qed.
Example ex_96_corrupt_lo : ts2st DTsNanos96 (ts96_min DTsNanos96 - 1) = Err Corruption.
Proof. vm_compute. reflexivity. Qed.
Example ex_96_new_bad : ts96_new DTsMicros96 (ts96_min DTsMicros96 - 1) = Err InvalidArgument.
Proof. vm_compute. reflexivity. Qed.
Example ex_96_new_ok : ts96_new DTsMicros96 (ts96_min DTsMicros96) = Ok (ts96_min DTsMicros96).
Proof. vm_compute. reflexivity. Qed.

Print Assumptions st2ts64_spec.
Print Assumptions st2ts96_spec.
Print Assumptions ts2st64_spec.
Print Assumptions ts2st96_spec.
Print Assumptions st2ts64_ok.
Print Assumptions st2ts64_out_of_range.
Print Assumptions st2ts64_ok_exact.
Print Assumptions ts64_roundtrip.
Print Assumptions st2ts_not_panic.
Print Assumptions nanos64_st2ts.
Print Assumptions nanos64_roundtrip.
Print Assumptions micros64_st2ts.
Print Assumptions micros64_roundtrip.
Print Assumptions ts2st64_exact.
Print Assumptions ts2st96_corruption_iff.
Print Assumptions ts2st96_valid_ok.
Print Assumptions ts2st_not_panic.
Print Assumptions ts2st64_not_panic.
Print Assumptions ts2st96_not_panic.
Print Assumptions st2ts96_ok.
Print Assumptions ts96_roundtrip.
Print Assumptions nanos96_st2ts.
Print Assumptions nanos96_roundtrip.
Print Assumptions micros96_st2ts.
Print Assumptions micros96_roundtrip.
Print Assumptions ts96_new_err_iff.
Print Assumptions ts96_new_ok_iff.
