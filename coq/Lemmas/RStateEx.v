(* Non-vacuity examples and exhaustive sweeps for RStateL.v (closed vm_compute computations).
   Kept out of RStateL.v so that the independent checker (coqchk), which re-evaluates them with its
   own slow reduction, does not have to re-run them when it re-checks the property theorems. *)
(* RStateL.v — the word-level Decompressor (Model/RState.v) simulates the bit-list
   Decompressor (Model/Reader.v): for every operation, from corresponding states, the two
   produce the same output — the same numbers, the same metadata, the same ROErr kind, the
   same RONone — and corresponding states again; the word-level machine never panics.

     abs         : wstate -> rstate       the bytes are the bytes of the BitWords
     winv d      : wstate -> Prop         the invariant (established by ws_init, kept by every
                                          operation)
     ws_step_sim : winv d st -> op_ok o ->          (op_ok: the bytes of a write are < 256)
                   let (st', out) := ws_step d st o in
                   winv d st' /\ r_step d (abs st) o = (abs st', out)
     ws_simple_sim, ws_do_sim, ws_run_sim, ws_run_init_sim, ws_decode_file_eq

   Sections: 1 extra facts about the bit-list body decoder (Codec.read_blocks / read_batch,
   Reader.nd_batch / cbd_batch) that the commit discipline of Iterator::next relies on;
   2 the abstraction; 3 one batch at word level = one batch at bit level; 4 the invariant;
   5 one lemma per operation; 6 runs; 7 examples. *)
From Coq Require Import Lia ZifyBool ZifyN ZifyNat.
From QCo.Lemmas Require Import Tactics BitsL CodecL FileL TruncL ReaderL NoPanicL FastL WordsL
     RFileL HuffL RBodyL RFastL.
From QCo.Model Require Import Base Consts DType Codec Reader Fast Words Huff Writer RFile RBody
     RFast RState.
Open Scope N_scope.

From QCo.Lemmas Require Import RStateL RFastEx.
(* ================================================================== *)
(* 7. examples (non-vacuity)                                           *)
(* ================================================================== *)
(* decidable comparison of outputs and of abstract states, to run whole batteries of
   scripts through both machines *)
Definition nd_eqb (a b : nd_state) : bool :=
  (nd_nproc a =? nd_nproc b) && (nd_bproc a =? nd_bproc b)
  && bx_inc_eqb (nd_incomplete a) (nd_incomplete b).
Definition cbd_eqb (a b : cbd) : bool :=
  (c_n a =? c_n b) && (c_total a =? c_total b) && (c_body a =? c_body b)
  && list_eqb prefix_eqb (c_table a) (c_table b) && list_eqb Z.eqb (c_moments a) (c_moments b)
  && (c_numsproc a =? c_numsproc b) && nd_eqb (c_nd a) (c_nd b).
Definition rstate_eqb (a b : rstate) : bool :=
  list_eqb N.eqb (r_bytes a) (r_bytes b) && (r_bit a =? r_bit b)
  && opt_eqb flags_eqb (r_flags a) (r_flags b) && opt_eqb cbd_eqb (r_cbd a) (r_cbd b)
  && Bool.eqb (r_term a) (r_term b).
Definition item_eqb (a b : item) : bool :=
  match a, b with
  | IFlags f, IFlags g => flags_eqb f g
  | IMeta m, IMeta n => meta_eqb m n
  | INums x, INums y => list_eqb Z.eqb x y
  | IFooter, IFooter => true
  | _, _ => false
  end.
Definition rout_eqb (a b : rout) : bool :=
  match a, b with
  | ROUnit, ROUnit => true
  | ROFlags f, ROFlags g => flags_eqb f g
  | ROMeta m, ROMeta n => opt_eqb meta_eqb m n
  | RONums x, RONums y => list_eqb Z.eqb x y
  | ROItem i, ROItem j => item_eqb i j
  | RONone, RONone => true
  | ROErr k, ROErr l => ekind_eqb k l
  | _, _ => false                                  (* ROPanic is never accepted *)
  end.
(* run both machines: every output and every intermediate state must correspond *)
Fixpoint same_run (d : dtype) (w : wstate) (r : rstate) (ops : list rop) : bool :=
  match ops with
  | [] => true
  | o :: t =>
    let '(w1, ow) := ws_do d w o in
    let '(r1, or) := r_do d r o in
    rout_eqb ow or && rstate_eqb (abs w1) r1 && same_run d w1 r1 t
  end.
Definition same_script (d : dtype) (ops : list rop) : bool := same_run d ws_init r_init ops.

(* a file fed in three pieces [0, a), [a, b), [b, end): after each piece the iterator is
   called four times with numbers_limit_per_item = lim, and compressed memory is freed
   between the pieces *)
Definition sx_nexts (lim : N) : list rop := [RNext lim; RNext lim; RNext lim; RNext lim].
Definition sx_script (bytes : list N) (a b : nat) (lim : N) : list rop :=
  [RWrite (firstn a bytes)] ++ sx_nexts lim ++ [RFree] ++
  [RWrite (firstn (b - a) (skipn a bytes))] ++ sx_nexts lim ++ [RFree] ++
  [RWrite (skipn b bytes)] ++ sx_nexts lim.
(* outputs at a glance *)
Definition out_summary (o : rout) : list Z :=
  match o with
  | ROUnit => [-1]%Z | ROFlags _ => [-2]%Z | ROMeta _ => [-3]%Z | RONums xs => xs
  | ROItem (IFlags _) => [-4]%Z | ROItem (IMeta m) => [-5; Z.of_N (m_n m)]%Z
  | ROItem (INums xs) => xs | ROItem IFooter => [-6]%Z | RONone => [-7]%Z
  | ROErr Corruption => [-8]%Z | ROErr InsufficientData => [-9]%Z | ROErr _ => [-10]%Z
  | ROPanic => [-99]%Z
  end.
Definition sx_agree (d : dtype) (ops : list rop) : Prop :=
  r_run d r_init ops = (abs (fst (ws_run d ws_init ops)), snd (ws_run d ws_init ops)).

(* the two-chunk file of WFileL.wfile_example / RFileL.rfile_example (i16, delta order 1,
   chunks of 10 and 4 numbers, 54 bytes), pieces [0,20) [20,40) [40,54), limit 50 *)
Example rstate_example :
  let ops := sx_script rx_bytes 20 40 50 in
  map out_summary (snd (ws_run DI16 ws_init ops))
  = [[-1]; [-4]; [-7]; [-7]; [-7]; [-1];                       (* header; no more data *)
     [-1]; [-5; 10]; [10; 20; 30; 40; 50; 53; 63; 73; 79; 79]; [-7]; [-7]; [-1];
     [-1]; [-5; 4]; [5; 5; 5; 5]; [-6]; [-7]]%Z /\
  (* four words were freed on the way: 432 - 256 bits are left in 3 words, all consumed *)
  (let st := fst (ws_run DI16 ws_init ops) in
   (ws_tb st, ws_bit st, length (ws_words st), ws_cbd st, ws_term st)
   = (176, 176, 3%nat, None, true)) /\
  sx_agree DI16 ops /\ same_script DI16 ops = true.
Proof. vm_compute. repeat split; reflexivity. Qed.

(* corrupted: byte 30 (inside the first chunk's metadata) is overwritten *)
Example rstate_example_corrupted :
  let ops := sx_script (set_byte 30 200 rx_bytes) 20 40 50 in
  map out_summary (snd (ws_run DI16 ws_init ops))
  = [[-1]; [-4]; [-7]; [-7]; [-7]; [-1];
     [-1]; [-5; 10]; [-8]; [-8]; [-8]; [-1];                   (* Corruption, state kept *)
     [-1]; [-8]; [-8]; [-8]; [-8]]%Z /\
  sx_agree DI16 ops /\ same_script DI16 ops = true.
Proof. vm_compute. repeat split; reflexivity. Qed.

(* truncated: only the first 45 bytes arrive; the second chunk's metadata is incomplete *)
Example rstate_example_truncated :
  let ops := sx_script (firstn 45 rx_bytes) 20 40 50 in
  map out_summary (snd (ws_run DI16 ws_init ops))
  = [[-1]; [-4]; [-7]; [-7]; [-7]; [-1];
     [-1]; [-5; 10]; [10; 20; 30; 40; 50; 53; 63; 73; 79; 79]; [-7]; [-7]; [-1];
     [-1]; [-7]; [-7]; [-7]; [-7]]%Z /\
  sx_agree DI16 ops /\ same_script DI16 ops = true /\
  (* and simple_decompress on the truncated bytes fails without consuming anything *)
  same_script DI16 [RWrite (firstn 45 rx_bytes); RSimple; RNext 50; RSimple] = true /\
  snd (ws_run DI16 ws_init [RWrite (firstn 45 rx_bytes); RSimple])
  = [ROUnit; ROErr InsufficientData] /\
  ws_decode_file DI16 rx_bytes = Ok [10; 20; 30; 40; 50; 53; 63; 73; 79; 79; 5; 5; 5; 5]%Z.
Proof. vm_compute. repeat split; reflexivity. Qed.

(* the hypotheses of the theorems are satisfiable: the example is an instance *)
Example rstate_example_thm :
  let ops := sx_script rx_bytes 20 40 50 in
  let '(st', outs) := ws_run DI16 ws_init ops in
  winv DI16 st' /\ r_run DI16 r_init ops = (abs st', outs).
Proof.
  apply ws_run_init_sim. unfold sx_script, sx_nexts.
  repeat (apply Forall_cons || apply Forall_nil || apply Forall_app || split);
    try exact I; cbn [op_ok].
  all: vm_compute; repeat constructor.
Qed.

(* every first split point of the two-chunk file with second pieces of 0, 1, 5, 8, 13 and 21
   bytes, limits 50 and 3 *)
Example rstate_example_all_splits :
  forallb (fun a => forallb (fun b =>
             same_script DI16 (sx_script rx_bytes a (a + b) 50)
             && same_script DI16 (sx_script rx_bytes a (a + b) 3))
           [0; 1; 5; 8; 13; 21]%nat) (seq 0 55) = true.
Proof. vm_cast_no_check (eq_refl true). Qed.

(* protocol violations and mixed use: every sequence of three calls out of
   header / chunk_metadata / chunk_body / skip_chunk_body / next(0) / next(2) /
   free_compressed_memory / simple_decompress / write(the rest), after a prefix of the file
   has been written and [pre] run, followed by a drain *)
Definition px_alphabet (rest : list N) : list rop :=
  [RHeader; RMeta; RBody; RSkip; RNext 0; RNext 2; RFree; RSimple; RWrite rest].
Definition px_seqs3 (a : list rop) : list (list rop) :=
  flat_map (fun x => flat_map (fun y => map (fun z => [x; y; z]) a) a) a.
Definition px_seqs2 (a : list rop) : list (list rop) :=
  flat_map (fun x => map (fun y => [x; y]) a) a.
Definition px_battery (seqs : list rop -> list (list rop)) (d : dtype) (bytes : list N)
           (k : nat) (pre : list rop) : bool :=
  forallb (fun s => same_script d ([RWrite (firstn k bytes)] ++ pre ++ s ++ sx_nexts 4 ++ sx_nexts 4))
          (seqs (px_alphabet (skipn k bytes))).
Example rstate_example_protocol :
  px_battery px_seqs3 DI16 rx_bytes 40 [RHeader; RMeta]
  && px_battery px_seqs2 DI16 rx_bytes 20 []
  && px_battery px_seqs2 DI16 rx_bytes 54 [RNext 2; RNext 2; RNext 2] = true.
Proof. vm_cast_no_check (eq_refl true). Qed.

(* the 456-byte file of RFastL.rfast_example (u16, one chunk of 400 numbers): the body is
   decoded by the unchecked fast path while enough data is held and by checked blocks near
   the end of each piece; pieces [0,150) [150,300) [300,456), limit 50.  The third call
   after the first piece runs out of data inside the body (49 numbers, then None). *)
Example rstate_example_fast :
  let ops := sx_script fx_bytes 150 300 50 in
  map (fun o => length (out_summary o)) (snd (ws_run DU16 ws_init ops))
  = [1; 1; 2; 50; 50; 1; 1; 50; 50; 49; 1; 1; 1; 50; 50; 50; 1]%nat /\
  (let st := fst (ws_run DU16 ws_init ops) in
   (ws_tb st, ws_bit st, length (ws_words st)) = (1280, 1272, 20%nat)) /\
  sx_agree DU16 ops /\ same_script DU16 ops = true /\
  ws_decode_file DU16 fx_bytes = Ok fx_xs.
Proof. vm_compute. repeat split; reflexivity. Qed.

(* The invariant matters.  A state no run reaches: an (empty) chunk body whose numbers are
   all decoded although bit_idx = 3 is not a byte boundary.  next() finishes the body in
   place — drain_empty_byte moves the reader to bit 8 and bits_processed becomes 8 — then
   fails on what follows; the chunk body decompressor it restores is the one it has just
   worked on, while bit_idx stays 3.  Reader.r_step leaves the state untouched.  Both report
   the same error; the states differ in bits_processed.  At a byte boundary (bit_idx = 8)
   the two agree. *)
Definition cx_cbd (bproc : N) : wcbd :=
  mkWcbd (mkCbd 0 0 1 [] [] 0 (mkNd 0 bproc None))
         (mkWnum (HLeaf (hdefault_prefix 16)) usize_max usize_max false).
Definition cx_state (bit : N) : wstate :=
  mkWs [0] 64 bit (Some (writer_flags 0 true)) (Some (cx_cbd bit)) false.
Example rstate_commit_corner :
  ws_step DU16 (cx_state 3) (RNext 5)
  = (mkWs [0] 64 3 (Some (writer_flags 0 true)) (Some (cx_cbd 8)) false, ROErr Corruption) /\
  r_step DU16 (abs (cx_state 3)) (RNext 5) = (abs (cx_state 3), ROErr Corruption) /\
  ~ winv DU16 (cx_state 3) /\
  ws_step DU16 (cx_state 8) (RNext 5) = (cx_state 8, ROErr Corruption) /\
  r_step DU16 (abs (cx_state 8)) (RNext 5) = (abs (cx_state 8), ROErr Corruption).
Proof.
  split; [vm_compute; reflexivity|]. split; [vm_compute; reflexivity|].
  split; [|split; vm_compute; reflexivity].
  intros (_ & _ & _ & f & _ & _ & _ & _ & _ & _ & _ & Hal).
  cbn [cx_state cx_cbd ws_cbd ws_bit wc_pure c_nd c_n nd_nproc] in Hal.
  specialize (Hal eq_refl). vm_compute in Hal. discriminate.
Qed.
