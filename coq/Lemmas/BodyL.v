(* BodyL.v — number blocks: prefix-freeness of a validated table, Huffman lookup on a
   written code, whole-body round trip through the block loop, one-batch corollary and
   streaming (splitting the body into batches of at most [limit] numbers). *)
From QCo.Lemmas Require Import Tactics BitsL CodecL.
From QCo.Model Require Import Base Consts DType Codec.
Open Scope N_scope.

Local Opaque read_offset write_num_offset read_varint write_varint.

(* ---------------- list helpers ---------------- *)
Lemma firstn_app_le {A} : forall (k : nat) (a b : list A),
  (k <= length a)%nat -> firstn k (a ++ b) = firstn k a.
Proof.
  induction k as [|k IH]; intros a b H; [reflexivity|].
  destruct a as [|x a]; cbn [length] in H; [lia|].
  cbn [app firstn]. f_equal. apply IH. lia.
Qed.

Lemma skipn_app_le {A} : forall (k : nat) (a b : list A),
  (k <= length a)%nat -> skipn k (a ++ b) = skipn k a ++ b.
Proof.
  induction k as [|k IH]; intros a b H; [reflexivity|].
  destruct a as [|x a]; cbn [length] in H; [lia|].
  cbn [app skipn]. apply IH. lia.
Qed.

Lemma firstn_app_ge {A} : forall (a b : list A) (k : nat),
  (length a <= k)%nat -> firstn k (a ++ b) = a ++ firstn (k - length a) b.
Proof.
  induction a as [|x a IH]; intros b k H.
  - cbn [app length]. rewrite Nat.sub_0_r. reflexivity.
  - cbn [length] in *. destruct k as [|k]; [lia|].
    cbn [app firstn Nat.sub]. f_equal. apply IH. lia.
Qed.

Lemma skipn_app_ge {A} : forall (a b : list A) (k : nat),
  (length a <= k)%nat -> skipn k (a ++ b) = skipn (k - length a) b.
Proof.
  induction a as [|x a IH]; intros b k H.
  - cbn [app length]. rewrite Nat.sub_0_r. reflexivity.
  - cbn [length] in *. destruct k as [|k]; [lia|].
    cbn [app skipn Nat.sub]. apply IH. lia.
Qed.

Lemma skipn_length_app {A} (c s : list A) : skipn (length c) (c ++ s) = s.
Proof. induction c as [|x c IH]; [reflexivity|]. cbn [length app skipn]. exact IH. Qed.

Lemma Forall_skipn {A} (P : A -> Prop) : forall (k : nat) (l : list A),
  Forall P l -> Forall P (skipn k l).
Proof.
  induction k as [|k IH]; intros l H; [exact H|].
  destruct l as [|x l]; [exact H|]. cbn [skipn]. apply IH. inversion H; assumption.
Qed.

Lemma Forall_firstn {A} (P : A -> Prop) : forall (k : nat) (l : list A),
  Forall P l -> Forall P (firstn k l).
Proof.
  induction k as [|k IH]; intros l H; [constructor|].
  destruct l as [|x l]; [constructor|]. cbn [firstn]. inversion H; subst.
  constructor; [assumption|]. apply IH. assumption.
Qed.

Lemma Nlen_to_nat {A} (l : list A) : N.to_nat (Nlen l) = length l.
Proof. unfold Nlen. apply Nat2N.id. Qed.

(* ---------------- 1. prefix-freeness from validation ---------------- *)
Lemma is_prefix_of_app c s : is_prefix_of c (c ++ s) = true.
Proof.
  induction c as [|x c IH]; [reflexivity|].
  cbn [app is_prefix_of]. rewrite Bool.eqb_reflx, IH. reflexivity.
Qed.

Lemma is_prefix_of_refl c : is_prefix_of c c = true.
Proof. rewrite <- (app_nil_r c) at 2. apply is_prefix_of_app. Qed.

(* a prefix of [b ++ s] is comparable with [b] *)
Lemma is_prefix_of_app_cases : forall a b s,
  is_prefix_of a (b ++ s) = true -> is_prefix_of a b = true \/ is_prefix_of b a = true.
Proof.
  induction a as [|x a IH]; intros b s H.
  - left. reflexivity.
  - destruct b as [|y b].
    + right. reflexivity.
    + cbn [app is_prefix_of] in H. apply andb_true_iff in H. destruct H as [Hxy H].
      apply Bool.eqb_prop in Hxy. subst y.
      cbn [is_prefix_of]. rewrite Bool.eqb_reflx. cbn [andb].
      exact (IH b s H).
Qed.

Definition nonprefix2 (c d : bits) : Prop :=
  is_prefix_of c d = false /\ is_prefix_of d c = false.

Fixpoint pairwise_nonprefix (l : list bits) : Prop :=
  match l with
  | [] => True
  | c :: t => Forall (nonprefix2 c) t /\ pairwise_nonprefix t
  end.

Lemma In_tails_with b c : forall t, In (b :: c) t -> In c (tails_with b t).
Proof.
  induction t as [|a t IH]; intros H; [destruct H|].
  destruct H as [H|H].
  - subst a. cbn [tails_with]. rewrite Bool.eqb_reflx. left. reflexivity.
  - destruct a as [|x a]; cbn [tails_with]; [exact (IH H)|].
    destruct (Bool.eqb x b); [right|]; exact (IH H).
Qed.

Lemma no_nil_In : forall (t : list bits) d, existsb is_nil t = false -> In d t -> d <> [].
Proof.
  intros t d H Hin ->.
  assert (existsb is_nil t = true) by (apply existsb_exists; exists []; split; [assumption|reflexivity]).
  congruence.
Qed.

Lemma pairwise_tails_cons b x c t :
  pairwise_nonprefix (tails_with b ((x :: c) :: t)) -> pairwise_nonprefix (tails_with b t).
Proof.
  cbn [tails_with]. destruct (Bool.eqb x b); [|trivial]. intros [_ H]. exact H.
Qed.

Lemma pairwise_of_tails : forall codes,
  existsb is_nil codes = false ->
  pairwise_nonprefix (tails_with false codes) ->
  pairwise_nonprefix (tails_with true codes) ->
  pairwise_nonprefix codes.
Proof.
  induction codes as [|a t IH]; intros Hnil Hf Ht; [exact I|].
  cbn [existsb] in Hnil. apply orb_false_iff in Hnil. destruct Hnil as [Ha Hnil].
  destruct a as [|x c]; [discriminate|].
  split.
  - apply Forall_forall. intros d Hd.
    pose proof (no_nil_In t d Hnil Hd) as Hdn.
    destruct d as [|y d]; [congruence|].
    unfold nonprefix2. cbn [is_prefix_of].
    destruct x, y; cbn [Bool.eqb andb]; try (split; reflexivity).
    + cbn [tails_with Bool.eqb] in Ht. destruct Ht as [Ht _].
      rewrite Forall_forall in Ht. exact (Ht d (In_tails_with true d t Hd)).
    + cbn [tails_with Bool.eqb] in Hf. destruct Hf as [Hf _].
      rewrite Forall_forall in Hf. exact (Hf d (In_tails_with false d t Hd)).
  - apply IH; [assumption| |].
    + exact (pairwise_tails_cons false x c t Hf).
    + exact (pairwise_tails_cons true x c t Ht).
Qed.

Lemma tree_ok_inv fuel codes : tree_ok fuel codes = true ->
  codes = [[]] \/
  exists f, fuel = S f /\ existsb is_nil codes = false /\
            tree_ok f (tails_with false codes) = true /\
            tree_ok f (tails_with true codes) = true.
Proof.
  intros H.
  assert (G : forall cs, match fuel with
                         | O => false
                         | S f => negb (existsb is_nil cs) && tree_ok f (tails_with false cs)
                                  && tree_ok f (tails_with true cs)
                         end = true ->
          exists f, fuel = S f /\ existsb is_nil cs = false /\
            tree_ok f (tails_with false cs) = true /\ tree_ok f (tails_with true cs) = true).
  { intros cs G. destruct fuel as [|f]; [discriminate|].
    apply andb_true_iff in G. destruct G as [G G3].
    apply andb_true_iff in G. destruct G as [G1 G2].
    apply negb_true_iff in G1. exists f. auto. }
  destruct codes as [|[|x c] [|d t]]; destruct fuel as [|f]; cbn [tree_ok] in H;
    try discriminate; try (left; reflexivity); right; apply G; exact H.
Qed.

Lemma tree_ok_pairwise : forall fuel codes,
  tree_ok fuel codes = true -> pairwise_nonprefix codes.
Proof.
  induction fuel as [|f IH]; intros codes H;
    destruct (tree_ok_inv _ _ H) as [->|(f' & Hf & Hn & H0 & H1)].
  - cbn. auto.
  - discriminate.
  - cbn. auto.
  - inversion Hf; subst f'. apply pairwise_of_tails; auto.
Qed.

Lemma table_ok_pairwise ps : table_ok ps = true -> pairwise_nonprefix (map p_code ps).
Proof.
  destruct ps as [|p t]; [intros _; exact I|].
  unfold table_ok. apply tree_ok_pairwise.
Qed.

Lemma pairwise_nth : forall l, pairwise_nonprefix l ->
  forall i j, i <> j -> (i < length l)%nat -> (j < length l)%nat ->
  is_prefix_of (nth i l []) (nth j l []) = false.
Proof.
  induction l as [|c t IH]; intros HPW i j Hij Hi Hj; cbn [length] in *; [lia|].
  destruct HPW as [HF HP]. rewrite Forall_forall in HF.
  destruct i as [|i], j as [|j]; cbn [nth]; [congruence| | |].
  - apply (HF (nth j t [])). apply nth_In. lia.
  - apply (HF (nth i t [])). apply nth_In. lia.
  - apply IH; [assumption|congruence|lia|lia].
Qed.

(* codes of a validated table are pairwise non-prefix, hence pairwise distinct *)
Theorem table_ok_prefix_free : forall ps, table_ok ps = true ->
  forall i j d, i <> j -> (i < length ps)%nat -> (j < length ps)%nat ->
  is_prefix_of (p_code (nth i ps d)) (p_code (nth j ps d)) = false.
Proof.
  intros ps H i j d Hij Hi Hj.
  pose proof (pairwise_nth _ (table_ok_pairwise ps H) i j Hij) as P.
  rewrite map_length in P. specialize (P Hi Hj).
  rewrite (nth_indep (map p_code ps) [] (p_code d)) in P by (rewrite map_length; exact Hi).
  rewrite (nth_indep (map p_code ps) [] (p_code d)) in P by (rewrite map_length; exact Hj).
  rewrite !map_nth in P. exact P.
Qed.

Corollary table_ok_codes_distinct : forall ps, table_ok ps = true ->
  forall i j d, i <> j -> (i < length ps)%nat -> (j < length ps)%nat ->
  p_code (nth i ps d) <> p_code (nth j ps d).
Proof.
  intros ps H i j d Hij Hi Hj E.
  pose proof (table_ok_prefix_free ps H i j d Hij Hi Hj) as P.
  rewrite E, is_prefix_of_refl in P. discriminate.
Qed.

Lemma find_code_app : forall ps p s,
  pairwise_nonprefix (map p_code ps) -> In p ps ->
  find_code ps (p_code p ++ s) = Some p.
Proof.
  induction ps as [|q t IH]; intros p s HP Hin; [destruct Hin|].
  cbn [map pairwise_nonprefix] in HP. destruct HP as [HF HP].
  cbn [find_code]. destruct Hin as [->|Hin].
  - rewrite is_prefix_of_app. reflexivity.
  - rewrite Forall_forall in HF.
    destruct (HF (p_code p) (in_map p_code t p Hin)) as [N1 N2].
    destruct (is_prefix_of (p_code q) (p_code p ++ s)) eqn:E.
    + apply is_prefix_of_app_cases in E. destruct E; congruence.
    + apply IH; assumption.
Qed.

Theorem read_code_app : forall ps p s, table_ok ps = true -> In p ps ->
  read_code ps (p_code p ++ s) = Ok (p, s).
Proof.
  intros ps p s H Hin. unfold read_code.
  rewrite (find_code_app ps p s (table_ok_pairwise ps H) Hin).
  rewrite skipn_length_app. reflexivity.
Qed.

(* ---------------- 1b. the real table search (tsearch / read_code_at) ---------------- *)
(* When every stride finds enough real bits the stride search walks the code exactly and
   returns the prefix whose code heads the stream, whatever [tb] (hence whatever the
   position of the 64-bit word boundary). *)
Lemma skipn_skipn' {A} : forall (a b : nat) (l : list A), skipn b (skipn a l) = skipn (a + b) l.
Proof.
  induction a as [|a IH]; intros b l; [reflexivity|].
  destruct l as [|x l]; [destruct b; reflexivity|]. cbn [skipn Nat.add]. apply IH.
Qed.

Lemma compatible_nil_r c : compatible c [] = true.
Proof. destruct c; reflexivity. Qed.

Lemma is_prefix_compatible : forall c l, is_prefix_of c l = true -> compatible c l = true.
Proof.
  induction c as [|x c IH]; intros l H; [reflexivity|].
  destruct l as [|y l]; [reflexivity|]. cbn [is_prefix_of compatible] in *.
  apply andb_true_iff in H. destruct H as [-> H]. cbn [andb]. auto.
Qed.

Lemma compatible_skipn : forall d c l, compatible c l = true ->
  compatible (skipn d c) (skipn d l) = true.
Proof.
  induction d as [|d IH]; intros c l H; [exact H|].
  destruct c as [|x c]; [reflexivity|]. destruct l as [|y l]; [apply compatible_nil_r|].
  cbn [compatible] in H. apply andb_true_iff in H. cbn [skipn]. apply IH. tauto.
Qed.

Lemma compatible_firstn : forall t c l, compatible c l = true -> compatible c (firstn t l) = true.
Proof.
  induction t as [|t IH]; intros c l H; [apply compatible_nil_r|].
  destruct c as [|x c]; [reflexivity|]. destruct l as [|y l]; [reflexivity|].
  cbn [compatible firstn] in *. apply andb_true_iff in H. destruct H as [-> H]. cbn [andb]. auto.
Qed.

(* agreement on the first d bits and then on the next t bits *)
Lemma compatible_step : forall d t c l,
  compatible c (firstn d l) = true ->
  compatible (skipn d c) (firstn t (skipn d l)) = true ->
  compatible c (firstn (d + t) l) = true.
Proof.
  induction d as [|d IH]; intros t c l H1 H2; [exact H2|].
  destruct c as [|x c]; [reflexivity|]. destruct l as [|y l]; [reflexivity|].
  cbn [Nat.add firstn skipn compatible] in *.
  apply andb_true_iff in H1. destruct H1 as [-> H1]. cbn [andb]. auto.
Qed.

(* a prefix of P and a word compatible with P are comparable *)
Lemma prefix_compatible_cases : forall P a b,
  is_prefix_of a P = true -> compatible b P = true ->
  is_prefix_of a b = true \/ is_prefix_of b a = true.
Proof.
  induction P as [|z P IH]; intros a b Ha Hb.
  - destruct a; [left; reflexivity|discriminate].
  - destruct a as [|x a]; [left; reflexivity|]. destruct b as [|y b]; [right; reflexivity|].
    cbn [is_prefix_of compatible] in *.
    apply andb_true_iff in Ha. destruct Ha as [Hx Ha]. apply Bool.eqb_prop in Hx. subst x.
    apply andb_true_iff in Hb. destruct Hb as [Hy Hb]. apply Bool.eqb_prop in Hy. subst y.
    rewrite Bool.eqb_reflx. cbn [andb]. exact (IH a b Ha Hb).
Qed.

Lemma is_prefix_of_firstn_app : forall c d s, (length c <= d)%nat ->
  is_prefix_of c (firstn d (c ++ s)) = true.
Proof.
  induction c as [|x c IH]; intros d s H; [reflexivity|].
  cbn [length] in H. destruct d as [|d]; [lia|].
  cbn [app firstn is_prefix_of]. rewrite Bool.eqb_reflx. cbn [andb]. apply IH. lia.
Qed.

Lemma max_code_len_cons q t :
  max_code_len (q :: t) = Nat.max (length (p_code q)) (max_code_len t).
Proof. reflexivity. Qed.

Lemma max_code_len_In : forall ps p, In p ps -> (length (p_code p) <= max_code_len ps)%nat.
Proof.
  induction ps as [|q t IH]; intros p H; [destruct H|].
  rewrite max_code_len_cons. destruct H as [->|H]; [lia|]. specialize (IH p H). lia.
Qed.

Lemma max_code_len_bound : forall ps k,
  Forall (fun p => (length (p_code p) <= k)%nat) ps -> (max_code_len ps <= k)%nat.
Proof.
  induction ps as [|q t IH]; intros k H; [cbn; lia|].
  inversion H; subst. rewrite max_code_len_cons. specialize (IH k H3). lia.
Qed.

Lemma max_code_len_filter f : forall l, (max_code_len (filter f l) <= max_code_len l)%nat.
Proof.
  induction l as [|q t IH]; [cbn; lia|].
  cbn [filter]. destruct (f q); rewrite ?max_code_len_cons; lia.
Qed.

Lemma pairwise_filter f : forall l,
  pairwise_nonprefix (map p_code l) -> pairwise_nonprefix (map p_code (filter f l)).
Proof.
  induction l as [|q t IH]; intros H; [exact I|].
  cbn [map pairwise_nonprefix] in H. destruct H as [HF HP].
  cbn [filter]. destruct (f q); [|exact (IH HP)].
  cbn [map pairwise_nonprefix]. split; [|exact (IH HP)].
  rewrite Forall_forall in *. intros c Hc. apply HF.
  apply in_map_iff in Hc. destruct Hc as (r & <- & Hr). apply filter_In in Hr.
  apply in_map. tauto.
Qed.

(* in a pairwise non-prefix list with at least two entries every entry has a rival *)
Lemma pairwise_other : forall cands p,
  pairwise_nonprefix (map p_code cands) -> In p cands -> (2 <= length cands)%nat ->
  exists q, In q cands /\ nonprefix2 (p_code p) (p_code q).
Proof.
  intros [|c1 [|c2 r]] p HP Hin Hl; cbn [length] in Hl; try lia.
  cbn [map pairwise_nonprefix] in HP. destruct HP as [HF _]. rewrite Forall_forall in HF.
  destruct Hin as [->|Hin].
  - exists c2. split; [right; left; reflexivity|]. apply HF. left. reflexivity.
  - exists c1. split; [left; reflexivity|].
    destruct (HF (p_code p) (in_map p_code (c2 :: r) p Hin)) as [A B]. split; assumption.
Qed.

(* while several candidates remain the search has not reached the end of p's code *)
Lemma several_cands_depth p s0 cands dpt :
  In p cands -> pairwise_nonprefix (map p_code cands) ->
  Forall (fun q => compatible (p_code q) (firstn dpt (p_code p ++ s0)) = true) cands ->
  (2 <= length cands)%nat -> (dpt < length (p_code p))%nat.
Proof.
  intros Hin HP HC Hl.
  destruct (pairwise_other cands p HP Hin Hl) as (q & Hq & N1 & N2).
  destruct (Nat.lt_ge_cases dpt (length (p_code p))) as [H|H]; [exact H|exfalso].
  rewrite Forall_forall in HC. specialize (HC q Hq).
  pose proof (is_prefix_of_firstn_app (p_code p) dpt s0 H) as Hp.
  destruct (prefix_compatible_cases _ _ _ Hp HC); congruence.
Qed.

Lemma tsearch_single fuel tb q dpt s : tsearch fuel tb [q] dpt s = Ok q.
Proof. destruct fuel; reflexivity. Qed.

Lemma tsearch_ok tb p s0 : forall fuel cands dpt,
  In p cands -> pairwise_nonprefix (map p_code cands) ->
  Forall (fun q => compatible (p_code q) (firstn dpt (p_code p ++ s0)) = true) cands ->
  (max_code_len cands - dpt <= stride * fuel)%nat ->
  (Nat.min stride (max_code_len cands - length (p_code p)) <= length s0)%nat ->
  tsearch fuel tb cands dpt (skipn dpt (p_code p ++ s0)) = Ok p.
Proof.
  pose proof stride_pos as Hs1.
  induction fuel as [|f IH]; intros cands dpt Hin HP HC Hfuel Hen.
  - destruct cands as [|q [|q2 r]]; [destruct Hin| |].
    + destruct Hin as [->|[]]. reflexivity.
    + pose proof (several_cands_depth p s0 _ dpt Hin HP HC) as Hd. cbn [length] in Hd.
      pose proof (max_code_len_In _ p Hin). lia.
  - destruct cands as [|q [|q2 r]]; [destruct Hin| |].
    + destruct Hin as [->|[]]. reflexivity.
    + cbn [tsearch]. set (cands := q :: q2 :: r) in *.
      assert (Hd : (dpt < length (p_code p))%nat).
      { apply (several_cands_depth p s0 cands dpt Hin HP HC). unfold cands. cbn [length]. lia. }
      pose proof (max_code_len_In _ p Hin) as HM.
      clearbody cands. cbv zeta.
      set (full := p_code p ++ s0) in *.
      assert (Ha : length (skipn dpt full) = (length (p_code p) + length s0 - dpt)%nat).
      { rewrite skipn_length. unfold full. rewrite app_length. reflexivity. }
      set (t := Nat.min stride (max_code_len cands - dpt)) in *.
      assert (Ht : (1 <= t <= length (skipn dpt full))%nat) by lia.
      assert (Ht6 : (t <= stride)%nat) by lia.
      assert (Ha70 : length (firstn (64 + stride) (skipn dpt full))
                     = Nat.min (64 + stride) (length (skipn dpt full)))
        by apply firstn_length.
      set (a := length (firstn (64 + stride) (skipn dpt full))) in *.
      destruct (Nat.eqb a 0) eqn:Ea; [apply Nat.eqb_eq in Ea; lia|].
      set (j := if Nat.ltb a (64 + stride)
                then N.to_nat ((tb - Nlen (skipn dpt full)) mod 64) else O).
      clearbody j.
      assert (Hbr : (if Nat.leb (t + j) 64 then Nat.min t a else t) = t).
      { destruct (Nat.leb (t + j) 64); [lia|reflexivity]. }
      assert (Hchk : negb (Nat.leb (t + j) 64) && negb (Nat.ltb (64 - j) a) = false).
      { destruct (Nat.leb (t + j) 64) eqn:E1; [reflexivity|]. apply Nat.leb_gt in E1.
        cbn [negb andb]. apply negb_false_iff. apply Nat.ltb_lt. lia. }
      rewrite Hchk, Hbr, Nat.eqb_refl.
      rewrite firstn_app_le by (rewrite firstn_length; lia).
      rewrite firstn_firstn, Nat.min_id. rewrite skipn_skipn'.
      apply IH.
      * apply filter_In. split; [exact Hin|].
        apply compatible_firstn. apply compatible_skipn. apply is_prefix_compatible.
        apply is_prefix_of_app.
      * apply pairwise_filter. exact HP.
      * rewrite Forall_forall in *. intros c Hc. apply filter_In in Hc. destruct Hc as [Hc1 Hc2].
        apply compatible_step; [exact (HC c Hc1)|exact Hc2].
      * pose proof (max_code_len_filter
          (fun p0 => compatible (skipn dpt (p_code p0)) (firstn t (skipn dpt full))) cands). lia.
      * pose proof (max_code_len_filter
          (fun p0 => compatible (skipn dpt (p_code p0)) (firstn t (skipn dpt full))) cands). lia.
Qed.

(* the key lemma: enough real bits after the code -> the real search finds p, for every tb.
   "Enough" = min stride (longest code - this code): at least [stride] bits, or fewer when no
   stride can reach further than the longest code.  Codes longer than 40 bits are rejected by
   read_code_at's bounds check (and 40 <= stride * 33, the reach of the fuel: stride_reach). *)
Theorem read_code_at_enough : forall tb ps p s,
  table_ok ps = true -> (max_code_len ps <= 40)%nat -> In p ps ->
  (Nat.min stride (max_code_len ps - length (p_code p)) <= length s)%nat ->
  read_code_at tb ps (p_code p ++ s) = Ok (p, s).
Proof.
  intros tb ps p s Hok HM Hin Hen. unfold read_code_at.
  pose proof (tsearch_ok tb p s 33 ps 0 Hin (table_ok_pairwise ps Hok)) as T.
  cbn [skipn firstn] in T. rewrite T.
  - cbn [bind]. rewrite skipn_length_app.
    replace (Nat.leb (length (p_code p)) (length (firstn 40 (p_code p ++ s)))) with true;
      [reflexivity|].
    symmetry. apply Nat.leb_le. rewrite firstn_length, app_length.
    pose proof (max_code_len_In ps p Hin). lia.
  - apply Forall_forall. intros q _. apply compatible_nil_r.
  - pose proof stride_reach. lia.
  - exact Hen.
Qed.

Corollary read_code_at_6 : forall tb ps p s,
  table_ok ps = true -> (max_code_len ps <= 40)%nat -> In p ps -> (stride <= length s)%nat ->
  read_code_at tb ps (p_code p ++ s) = Ok (p, s).
Proof. intros. apply read_code_at_enough; try assumption. lia. Qed.

(* ---------------- 2. well-formed tables, coverage ---------------- *)
Definition wf_prefix (w : N) (p : prefix) : Prop :=
  p_gcd p >= 1 /\ p_lower p <= p_upper p /\ p_upper p <= umax w /\
  (forall j, p_jump p = Some j -> j <= 24).

(* code lengths <= 40: read_code_at's bounds check looks at no more than 40 bits (and the
   stride search, fuel 33 with strides of [stride], reaches them: stride_reach).  Every
   parsed table satisfies it (5-bit code length field: lengths <= 31). *)
Definition wf_table (w : N) (ps : list prefix) : Prop :=
  table_ok ps = true /\ Forall (wf_prefix w) ps /\ (max_code_len ps <= 40)%nat.

Lemma wf_table_of_code_lens w ps :
  table_ok ps = true -> Forall (wf_prefix w) ps ->
  Forall (fun p => (length (p_code p) <= 31)%nat) ps -> wf_table w ps.
Proof.
  intros H1 H2 H3. split; [exact H1|]. split; [exact H2|].
  pose proof (max_code_len_bound ps 31 H3). lia.
Qed.

(* enough real bits follow the body for the last table lookup of the body: [stride] bits, or
   fewer when the longest code is shorter than a stride *)
Definition enough_rest (ps : list prefix) (rest : bits) : Prop :=
  (Nat.min stride (max_code_len ps) <= length rest)%nat.

Lemma enough_rest_6 ps rest : N.of_nat stride <= Nlen rest -> enough_rest ps rest.
Proof. unfold enough_rest, Nlen. lia. Qed.

(* the footer byte: stride_le_footer *)
Lemma enough_rest_8 ps rest : 8 <= Nlen rest -> enough_rest ps rest.
Proof. pose proof stride_le_footer. unfold enough_rest, Nlen. lia. Qed.

Lemma read_code_at_rest w tb ps rest p s :
  wf_table w ps -> enough_rest ps rest -> In p ps -> (length rest <= length s)%nat ->
  read_code_at tb ps (p_code p ++ s) = Ok (p, s).
Proof.
  intros (H1 & _ & H3) He Hin Hl. apply read_code_at_enough; try assumption.
  unfold enough_rest in He. lia.
Qed.

Definition covered (ps : list prefix) (u : N) : Prop :=
  exists p, find_prefix ps u = Some p /\ (u - p_lower p) mod p_gcd p = 0.

(* no number lies in the range of two different prefixes *)
Definition disjoint_table (ps : list prefix) : Prop :=
  forall p q u, In p ps -> In q ps -> contains p u = true -> contains q u = true -> p = q.

(* what the proofs really use: u has a prefix, and u is on the gcd lattice of EVERY
   prefix of the table whose range contains it (a run may encode u with a prefix that
   is not the first one containing it) *)
Definition good (ps : list prefix) (u : N) : Prop :=
  (exists p, find_prefix ps u = Some p) /\
  (forall p, In p ps -> contains p u = true -> (u - p_lower p) mod p_gcd p = 0).

Definition in_range (p : prefix) (x : N) : Prop :=
  contains p x = true /\ (x - p_lower p) mod p_gcd p = 0.

Lemma find_prefix_some ps u p : find_prefix ps u = Some p -> In p ps /\ contains p u = true.
Proof. unfold find_prefix. intros H. apply find_some in H. exact H. Qed.

Lemma find_prefix_disjoint ps p x :
  disjoint_table ps -> In p ps -> contains p x = true -> find_prefix ps x = Some p.
Proof.
  intros D Hin Hc. destruct (find_prefix ps x) as [q|] eqn:E.
  - destruct (find_prefix_some _ _ _ E) as [Hq Hcq]. f_equal. exact (D q p x Hq Hin Hcq Hc).
  - unfold find_prefix in E. pose proof (find_none _ _ E p Hin) as H. cbv beta in H. congruence.
Qed.

Lemma covered_good ps u : disjoint_table ps -> covered ps u -> good ps u.
Proof.
  intros D (q & Hf & Hm). split; [exists q; exact Hf|].
  intros p Hin Hc. destruct (find_prefix_some _ _ _ Hf) as [Hq Hcq].
  rewrite (D p q u Hin Hq Hc Hcq). exact Hm.
Qed.

Lemma Forall_covered_good ps us :
  disjoint_table ps -> Forall (covered ps) us -> Forall (good ps) us.
Proof. intros D H. eapply Forall_impl; [|exact H]. intros u. apply covered_good. exact D. Qed.

(* ---------------- runs ---------------- *)
Lemma run_len_le p : forall t, (run_len p t <= length t)%nat.
Proof.
  induction t as [|x t IH]; cbn [run_len length]; [lia|].
  destruct (contains p x); lia.
Qed.

Lemma run_len_contains p : forall t,
  Forall (fun x => contains p x = true) (firstn (run_len p t) t).
Proof.
  induction t as [|x t IH]; cbn [run_len]; [constructor|].
  destruct (contains p x) eqn:E; cbn [firstn]; constructor; assumption.
Qed.

Lemma run_in_range ps p t :
  In p ps -> Forall (good ps) t -> Forall (in_range p) (firstn (run_len p t) t).
Proof.
  intros Hin Hg.
  pose proof (run_len_contains p t) as Hc.
  pose proof (Forall_firstn _ (run_len p t) t Hg) as Hg'.
  rewrite Forall_forall in *. intros x Hx. split; [exact (Hc x Hx)|].
  destruct (Hg' x Hx) as [_ H]. exact (H p Hin (Hc x Hx)).
Qed.

(* reading k offsets out of the offsets of a run *)
Lemma read_offsets_flat w p s : wf_prefix w p ->
  forall run, Forall (in_range p) run -> forall k, (k <= length run)%nat ->
  read_offsets w p k (flat_map (write_num_offset p) run ++ s)
  = (firstn k run, flat_map (write_num_offset p) (skipn k run) ++ s, SOk).
Proof.
  intros (Hg & Hlu & Hu & _). induction run as [|x run IH]; intros HF k Hk.
  - cbn [length] in Hk. assert (k = O) by lia. subst k. reflexivity.
  - destruct k as [|k]; [reflexivity|]. cbn [length] in Hk.
    inversion HF as [|? ? [Hc Hm] HF']; subst.
    unfold contains in Hc. apply andb_true_iff in Hc. destruct Hc as [Hl Hh].
    apply N.leb_le in Hl. apply N.leb_le in Hh.
    cbn [flat_map read_offsets]. rewrite <- app_assoc.
    rewrite num_offset_roundtrip by assumption.
    rewrite (IH HF' k) by lia. reflexivity.
Qed.

Lemma read_offsets_all w p s run : wf_prefix w p -> Forall (in_range p) run ->
  read_offsets w p (length run) (flat_map (write_num_offset p) run ++ s) = (run, s, SOk).
Proof.
  intros Hw HF. rewrite (read_offsets_flat w p s Hw run HF (length run)) by lia.
  rewrite firstn_all, skipn_all. reflexivity.
Qed.

(* ---------------- 3/5. the block loop on a written body ---------------- *)
(* b is the writer's encoding of us (with enough fuel) *)
Definition enc (ps : list prefix) (us : list N) (b : bits) : Prop :=
  exists f, (length us <= f)%nat /\ write_body_fuel f ps us = Ok b.

(* reader state between batches: [us] is what remains to be produced, [s] the stream.
   With an incomplete run (p, rem) the next rem numbers are in p's range and on p's
   lattice and their offsets come next in the stream. *)
Definition stream_inv (ps : list prefix) (inc : option (prefix * N)) (us : list N)
           (s rest : bits) : Prop :=
  match inc with
  | None => exists b, enc ps us b /\ s = b ++ rest
  | Some (p, rem) =>
      exists run tl b, us = run ++ tl /\ Nlen run = rem /\ 0 < rem /\ In p ps /\
        Forall (in_range p) run /\ enc ps tl b /\
        s = flat_map (write_num_offset p) run ++ b ++ rest
  end.

Lemma enc_nil ps b : enc ps [] b -> b = [].
Proof. intros (f & _ & H). destruct f; cbn [write_body_fuel] in H; congruence. Qed.

Lemma stream_inv_nil ps inc s rest : stream_inv ps inc [] s rest -> inc = None /\ s = rest.
Proof.
  destruct inc as [[p rem]|]; cbn [stream_inv].
  - intros (run & tl & b & E & Hl & Hr & _). symmetry in E. apply app_eq_nil in E.
    destruct E as [-> _]. rewrite Nlen_nil in Hl. lia.
  - intros (b & He & ->). rewrite (enc_nil _ _ He). auto.
Qed.

Lemma read_blocks_zero fuel w tb ps s : read_blocks fuel w tb ps 0 s = ([], s, None, SOk).
Proof. destruct fuel; reflexivity. Qed.

Lemma read_blocks_gen w tb ps rest : wf_table w ps -> enough_rest ps rest ->
  forall fuel room us b,
  Forall (good ps) us -> Nlen us < 2 ^ 24 -> enc ps us b ->
  room <= Nlen us -> (N.to_nat room <= fuel)%nat ->
  exists s' inc',
    read_blocks fuel w tb ps room (b ++ rest) = (firstn (N.to_nat room) us, s', inc', SOk)
    /\ stream_inv ps inc' (skipn (N.to_nat room) us) s' rest.
Proof.
  intros Hwft Hrest. pose proof Hwft as (Htab & Hwf & Hml).
  assert (Zero : forall fuel us b, enc ps us b -> exists s' inc',
    read_blocks fuel w tb ps 0 (b ++ rest) = (firstn (N.to_nat 0) us, s', inc', SOk)
    /\ stream_inv ps inc' (skipn (N.to_nat 0) us) s' rest).
  { intros fuel us b He. exists (b ++ rest), None. rewrite read_blocks_zero.
    split; [reflexivity|]. exists b. auto. }
  induction fuel as [|fuel IH]; intros room us b Hgood Hlen Henc Hroom Hfuel.
  { assert (room = 0) by lia. subst room. apply Zero. exact Henc. }
  destruct (N.eq_dec room 0) as [->|E0]; [apply Zero; exact Henc|].
  cbn [read_blocks]. apply N.eqb_neq in E0. rewrite E0. apply N.eqb_neq in E0.
  destruct us as [|u t]; [rewrite Nlen_nil in Hroom; lia|].
  rewrite Nlen_cons in Hlen, Hroom.
  destruct Henc as (f & Hf & Hw). cbn [length] in Hf. destruct f as [|f]; [lia|].
  cbn [write_body_fuel] in Hw.
  inversion Hgood as [|? ? Hgu Hgt]; subst.
  destruct Hgu as [[p Hfp] Hcong]. rewrite Hfp in Hw.
  destruct (find_prefix_some _ _ _ Hfp) as [Hin Hcont].
  pose proof (Hcong p Hin Hcont) as Hcu.
  assert (Hwp : wf_prefix w p) by (rewrite Forall_forall in Hwf; auto).
  assert (Hk : N.to_nat room = S (N.to_nat (room - 1))) by lia.
  destruct (p_jump p) as [j|] eqn:Ej.
  - (* a run *)
    pose proof (run_len_le p t) as Hrl.
    pose proof (run_in_range ps p t Hin Hgt) as Hrun.
    set (extra := run_len p t) in *.
    set (tl := skipn extra t) in *.
    assert (Hrun' : Forall (in_range p) (u :: firstn extra t)).
    { constructor; [split; assumption|exact Hrun]. }
    assert (Hsplit : u :: t = (u :: firstn extra t) ++ tl).
    { cbn [app]. f_equal. symmetry. apply firstn_skipn. }
    assert (Hrlen : length (u :: firstn extra t) = S extra).
    { cbn [length]. rewrite firstn_length. lia. }
    assert (Htl : Nlen t = N.of_nat extra + Nlen tl).
    { unfold tl, Nlen. rewrite skipn_length. lia. }
    set (run := u :: firstn extra t) in *. clearbody run.
    destruct (write_body_fuel f ps tl) as [r| |] eqn:Er; cbn [bind] in Hw; try discriminate.
    inversion Hw; subst b; clear Hw.
    assert (Henc' : enc ps tl r).
    { exists f. split; [|exact Er]. unfold tl. rewrite skipn_length. lia. }
    assert (Hgtl : Forall (good ps) tl) by (apply Forall_skipn; exact Hgt).
    rewrite <- !app_assoc.
    rewrite (read_code_at_rest w tb ps rest p) by (try assumption; rewrite !app_length; lia).
    rewrite Ej.
    rewrite varint_roundtrip; [| destruct Hwp as (_ & _ & _ & Hj); auto | lia].
    cbv zeta. rewrite Hsplit.
    destruct (room <? N.of_nat extra + 1) eqn:Elt.
    + apply N.ltb_lt in Elt. rewrite N.min_r by lia.
      rewrite (read_offsets_flat w p (r ++ rest) Hwp run Hrun' (N.to_nat room)) by lia.
      rewrite firstn_app_le, skipn_app_le by lia.
      eexists. eexists. split; [reflexivity|].
      cbn [stream_inv]. exists (skipn (N.to_nat room) run), tl, r.
      split; [reflexivity|]. split; [unfold Nlen; rewrite skipn_length; lia|].
      split; [lia|]. split; [assumption|]. split; [apply Forall_skipn; assumption|].
      split; [assumption|reflexivity].
    + apply N.ltb_ge in Elt. rewrite N.min_l by lia.
      replace (N.to_nat (N.of_nat extra + 1)) with (length run) by lia.
      rewrite (read_offsets_all w p (r ++ rest) run Hwp Hrun').
      destruct (IH (room - (N.of_nat extra + 1)) tl r) as (s' & inc' & Hrb & Hinv);
        try assumption; try lia.
      rewrite Hrb.
      rewrite firstn_app_ge, skipn_app_ge by lia.
      replace (N.to_nat room - length run)%nat with (N.to_nat (room - (N.of_nat extra + 1))) by lia.
      eexists. eexists. split; [reflexivity|exact Hinv].
  - (* a single number *)
    destruct (write_body_fuel f ps t) as [r| |] eqn:Er; cbn [bind] in Hw; try discriminate.
    inversion Hw; subst b; clear Hw.
    rewrite <- !app_assoc.
    rewrite (read_code_at_rest w tb ps rest p) by (try assumption; rewrite !app_length; lia).
    rewrite Ej.
    assert (Hu1 : Forall (in_range p) [u]) by (constructor; [split; assumption|constructor]).
    pose proof (read_offsets_all w p (r ++ rest) [u] Hwp Hu1) as R1.
    cbn [length flat_map] in R1. rewrite app_nil_r in R1. rewrite R1.
    destruct (IH (room - 1) t r) as (s' & inc' & Hrb & Hinv); try assumption; try lia.
    { exists f. split; [lia|exact Er]. }
    rewrite Hrb. rewrite Hk. cbn [firstn skipn app].
    eexists. eexists. split; [reflexivity|exact Hinv].
Qed.

(* whole body, stated with [good] (weaker than disjoint_table + covered) *)
Lemma body_roundtrip_good w ps us b :
  wf_table w ps -> Forall (good ps) us -> Nlen us < 2 ^ 24 ->
  enc ps us b ->
  forall tb rest fuel, enough_rest ps rest -> (length us <= fuel)%nat ->
  read_blocks fuel w tb ps (Nlen us) (b ++ rest) = (us, rest, None, SOk).
Proof.
  intros Hwf Hg Hlen He tb rest fuel Hrest Hfuel.
  destruct (read_blocks_gen w tb ps rest Hwf Hrest fuel (Nlen us) us b Hg Hlen He) as (s' & inc' & Hrb & Hinv).
  - lia.
  - rewrite Nlen_to_nat. exact Hfuel.
  - rewrite Nlen_to_nat, firstn_all in Hrb. rewrite Nlen_to_nat, skipn_all in Hinv.
    apply stream_inv_nil in Hinv. destruct Hinv as [-> ->]. exact Hrb.
Qed.

(* 3. whole-body round trip through the block loop *)
Theorem body_roundtrip : forall w ps us b,
  wf_table w ps -> disjoint_table ps -> Forall (covered ps) us -> Nlen us < 2 ^ 24 ->
  write_body_fuel (length us) ps us = Ok b ->
  forall tb rest fuel, enough_rest ps rest -> (length us <= fuel)%nat ->
  read_blocks fuel w tb ps (Nlen us) (b ++ rest) = (us, rest, None, SOk).
Proof.
  intros w ps us b Hwf D Hc Hlen Hw. apply body_roundtrip_good; try assumption.
  - apply Forall_covered_good; assumption.
  - exists (length us). split; [lia|exact Hw].
Qed.

(* the padded body as produced by write_body: the zero padding is left in the stream *)
Corollary write_body_roundtrip : forall w ps us bb,
  wf_table w ps -> disjoint_table ps -> Forall (covered ps) us -> Nlen us < 2 ^ 24 ->
  write_body ps us = Ok bb ->
  exists b, bb = pad8 b /\
  forall tb rest fuel, enough_rest ps rest -> (length us <= fuel)%nat ->
  read_blocks fuel w tb ps (Nlen us) (bb ++ rest)
  = (us, repeat false (N.to_nat (pad_len (Nlen b))) ++ rest, None, SOk).
Proof.
  intros w ps us bb Hwf D Hc Hlen Hw. unfold write_body in Hw.
  destruct (write_body_fuel (length us) ps us) as [b| |] eqn:E; cbn [bind] in Hw; try discriminate.
  inversion Hw; subst bb. exists b. split; [reflexivity|].
  intros tb rest fuel Hrest Hfuel. unfold pad8. rewrite <- app_assoc.
  apply body_roundtrip; try assumption.
  unfold enough_rest in *. rewrite app_length. lia.
Qed.

(* ---------------- 4/5. one batch from an arbitrary reader state ---------------- *)
Lemma read_batch_gen w tb ps rest : wf_table w ps -> enough_rest ps rest ->
  forall us inc s limit eoi,
  Forall (good ps) us -> Nlen us < 2 ^ 24 -> stream_inv ps inc us s rest ->
  0 < Nlen us -> 0 < limit ->
  let m := N.to_nat (N.min (Nlen us) limit) in
  exists s' inc',
    read_batch w tb ps (Nlen us) inc limit eoi s
    = mkBatch (firstn m us) s' inc' (Nlen us <=? limit) SOk
    /\ stream_inv ps inc' (skipn m us) s' rest.
Proof.
  intros Hwf Hrest us inc s limit eoi Hg Hlen Hinv Hn Hlim m.
  unfold read_batch. cbv zeta.
  set (bs := N.min (Nlen us) limit) in *.
  assert (Hbs : 0 < bs <= Nlen us) by lia.
  destruct (bs =? 0) eqn:E0; [apply N.eqb_eq in E0; lia|]. clear E0.
  destruct inc as [[p rem]|]; cbn [stream_inv] in Hinv.
  - destruct Hinv as (run & tl & b & Hus & Hrl & Hrem & Hin & Hrun & Henc & ->).
    assert (Hwp : wf_prefix w p).
    { destruct Hwf as (_ & Hwf & _). rewrite Forall_forall in Hwf. auto. }
    assert (Hrl' : length run = N.to_nat rem) by (unfold Nlen in Hrl; lia).
    assert (Hlt : Nlen us = rem + Nlen tl) by (rewrite Hus, Nlen_app; lia).
    rewrite (read_offsets_flat w p (b ++ rest) Hwp run Hrun (N.to_nat (N.min rem bs))) by lia.
    assert (Hfl : Nlen (firstn (N.to_nat (N.min rem bs)) run) = N.min rem bs).
    { unfold Nlen. rewrite firstn_length. lia. }
    rewrite Hfl.
    destruct (N.le_gt_cases rem bs) as [Hle|Hgt].
    + (* the incomplete run is finished in this batch *)
      rewrite N.min_l by lia. rewrite <- Hrl', firstn_all, skipn_all.
      cbn [flat_map app].
      replace (rem - rem =? 0) with true by (symmetry; apply N.eqb_eq; lia).
      assert (Hgtl : Forall (good ps) tl).
      { rewrite Hus in Hg. apply Forall_app in Hg. tauto. }
      destruct (read_blocks_gen w tb ps rest Hwf Hrest (N.to_nat (bs - rem)) (bs - rem) tl b)
        as (s' & inc' & Hrb & Hinv'); try assumption; try lia.
      rewrite Hrb. exists s', inc'. split.
      * f_equal.
        -- unfold m. rewrite Hus. rewrite firstn_app_ge by lia. rewrite Hrl'.
           replace (N.to_nat bs - N.to_nat rem)%nat with (N.to_nat (bs - rem)) by lia.
           reflexivity.
        -- destruct inc'; reflexivity.
      * unfold m. rewrite Hus. rewrite skipn_app_ge by lia. rewrite Hrl'.
        replace (N.to_nat bs - N.to_nat rem)%nat with (N.to_nat (bs - rem)) by lia.
        exact Hinv'.
    + (* the batch ends inside the incomplete run *)
      rewrite N.min_r by lia.
      replace (rem - bs =? 0) with false by (symmetry; apply N.eqb_neq; lia).
      replace (bs - bs) with 0 by lia. cbn [N.to_nat read_blocks]. rewrite app_nil_r.
      eexists. eexists. split.
      * unfold m. rewrite Hus. rewrite firstn_app_le by lia. reflexivity.
      * unfold m. rewrite Hus. rewrite skipn_app_le by lia.
        cbn [stream_inv]. exists (skipn (N.to_nat bs) run), tl, b.
        split; [reflexivity|]. split; [unfold Nlen; rewrite skipn_length; lia|].
        split; [lia|]. split; [assumption|]. split; [apply Forall_skipn; assumption|].
        split; [assumption|reflexivity].
  - destruct Hinv as (b & Henc & ->).
    destruct (read_blocks_gen w tb ps rest Hwf Hrest (N.to_nat bs) bs us b)
      as (s' & inc' & Hrb & Hinv'); try assumption; try lia.
    rewrite Hrb. exists s', inc'. split; [reflexivity|exact Hinv'].
Qed.

(* 4. one batch that holds the whole body *)
Theorem batch_roundtrip : forall w ps us b,
  wf_table w ps -> disjoint_table ps -> Forall (covered ps) us -> Nlen us < 2 ^ 24 ->
  write_body_fuel (length us) ps us = Ok b ->
  forall tb rest limit eoi, enough_rest ps rest -> Nlen us <= limit ->
  read_batch w tb ps (Nlen us) None limit eoi (b ++ rest) = mkBatch us rest None true SOk.
Proof.
  intros w ps us b Hwf D Hc Hlen Hw tb rest limit eoi Hrest Hlim.
  destruct us as [|u t].
  - cbn [length write_body_fuel] in Hw. inversion Hw; subst b.
    rewrite Nlen_nil. unfold read_batch. cbv zeta.
    replace (N.min 0 limit) with 0 by lia. cbn [N.eqb app]. 
    replace (0 <=? limit) with true by (symmetry; apply N.leb_le; lia). reflexivity.
  - set (us := u :: t) in *.
    assert (Hpos : 0 < Nlen us) by (unfold us; rewrite Nlen_cons; lia).
    destruct (read_batch_gen w tb ps rest Hwf Hrest us None (b ++ rest) limit eoi)
      as (s' & inc' & Hrb & Hinv); try assumption; try lia.
    + apply Forall_covered_good; assumption.
    + cbn [stream_inv]. exists b. split; [|reflexivity]. exists (length us). split; [lia|exact Hw].
    + rewrite N.min_l in Hrb, Hinv by lia. rewrite Nlen_to_nat in Hrb, Hinv.
      rewrite firstn_all in Hrb. rewrite skipn_all in Hinv.
      apply stream_inv_nil in Hinv. destruct Hinv as [-> ->]. rewrite Hrb.
      replace (Nlen us <=? limit) with true by (symmetry; apply N.leb_le; lia). reflexivity.
Qed.

(* ---------------- 5. streaming: the body read in batches of at most [limit] ---------------- *)
Fixpoint batches (fuel : nat) (w tb : N) (ps : list prefix) (n_left : N)
         (inc : option (prefix * N)) (limit : N) (s : bits) : list (list N) * bits :=
  match fuel with
  | O => ([], s)
  | S f =>
    if n_left =? 0 then ([], s) else
    let o := read_batch w tb ps n_left inc limit false s in
    match b_status o with
    | SOk => let '(l, s') := batches f w tb ps (n_left - Nlen (b_nums o)) (b_incomplete o)
                                     limit (b_rest o) in
             (b_nums o :: l, s')
    | _ => ([], s)
    end
  end.

Lemma batches_gen w tb ps rest limit : wf_table w ps -> enough_rest ps rest -> 1 <= limit ->
  forall fuel us inc s,
  Forall (good ps) us -> Nlen us < 2 ^ 24 -> stream_inv ps inc us s rest ->
  (length us < fuel)%nat ->
  concat (fst (batches fuel w tb ps (Nlen us) inc limit s)) = us /\
  snd (batches fuel w tb ps (Nlen us) inc limit s) = rest /\
  Forall (fun l => (0 < length l <= N.to_nat limit)%nat)
         (fst (batches fuel w tb ps (Nlen us) inc limit s)).
Proof.
  intros Hwf Hrest Hlim. induction fuel as [|fuel IH]; intros us inc s Hg Hlen Hinv Hfuel; [lia|].
  cbn [batches].
  destruct (Nlen us =? 0) eqn:E0.
  - apply N.eqb_eq in E0. destruct us as [|u t]; [|rewrite Nlen_cons in E0; lia].
    apply stream_inv_nil in Hinv. destruct Hinv as [_ ->]. cbn [fst snd concat]. auto.
  - apply N.eqb_neq in E0.
    destruct (read_batch_gen w tb ps rest Hwf Hrest us inc s limit false Hg Hlen Hinv)
      as (s' & inc' & Hrb & Hinv'); try lia.
    rewrite Hrb. cbn [b_status b_nums b_incomplete b_rest].
    set (m := N.to_nat (N.min (Nlen us) limit)) in *.
    assert (Hm : (0 < m <= length us)%nat /\ (m <= N.to_nat limit)%nat) by (unfold Nlen in *; lia).
    assert (Hfl : length (firstn m us) = m) by (rewrite firstn_length; lia).
    assert (Hleft : Nlen us - Nlen (firstn m us) = Nlen (skipn m us)).
    { unfold Nlen. rewrite Hfl, skipn_length. lia. }
    rewrite Hleft.
    destruct (IH (skipn m us) inc' s') as (H1 & H2 & H3).
    + apply Forall_skipn. exact Hg.
    + unfold Nlen in *. rewrite skipn_length. lia.
    + exact Hinv'.
    + rewrite skipn_length. lia.
    + destruct (batches fuel w tb ps (Nlen (skipn m us)) inc' limit s') as [l s2].
      cbn [fst snd] in *. cbn [concat]. rewrite H1, firstn_skipn.
      split; [reflexivity|]. split; [exact H2|].
      constructor; [rewrite Hfl; lia|exact H3].
Qed.

Theorem batches_roundtrip : forall w ps us b,
  wf_table w ps -> disjoint_table ps -> Forall (covered ps) us -> Nlen us < 2 ^ 24 ->
  write_body_fuel (length us) ps us = Ok b ->
  forall tb rest limit, enough_rest ps rest -> 1 <= limit ->
  let r := batches (S (length us)) w tb ps (Nlen us) None limit (b ++ rest) in
  concat (fst r) = us /\ snd r = rest /\
  Forall (fun l => (0 < length l <= N.to_nat limit)%nat) (fst r).
Proof.
  intros w ps us b Hwf D Hc Hlen Hw tb rest limit Hrest Hlim. cbv zeta.
  apply (batches_gen w tb ps rest limit Hwf Hrest Hlim); try assumption.
  - apply Forall_covered_good; assumption.
  - cbn [stream_inv]. exists b. split; [|reflexivity]. exists (length us). split; [lia|exact Hw].
  - lia.
Qed.

(* disjoint_table (or at least [good]) is necessary: with overlapping ranges a run
   encodes a number with a prefix whose gcd lattice it is not on; [8; 5] reads back as
   [8; 4] although the table is valid and both numbers are covered (tb = 8: the body
   padded to one byte). *)
Example overlap_counterexample :
  let p1 := mkPrefix 1 0 5 [false] None 1 in
  let p2 := mkPrefix 1 4 12 [true] (Some 0) 4 in
  let ps := [p1; p2] in
  wf_table 8 ps /\ Forall (covered ps) [8; 5] /\ ~ disjoint_table ps /\
  exists b, write_body_fuel 2 ps [8; 5] = Ok b /\
            read_blocks 2 8 8 ps 2 (b ++ [false]) = ([8; 4], [false], None, SOk).
Proof.
  cbv zeta. split; [|split; [|split]].
  - split; [vm_compute; reflexivity|]. split; [|vm_compute; lia].
    constructor; [|constructor; [|constructor]]; unfold wf_prefix;
      cbn [p_gcd p_lower p_upper p_jump]; (split; [lia|split; [lia|split; [vm_compute; discriminate|]]]).
    + intros j H. discriminate.
    + intros j H. inversion H. lia.
  - constructor; [|constructor; [|constructor]].
    + eexists. split; [vm_compute; reflexivity|vm_compute; reflexivity].
    + eexists. split; [vm_compute; reflexivity|vm_compute; reflexivity].
  - intros D.
    specialize (D (mkPrefix 1 0 5 [false] None 1) (mkPrefix 1 4 12 [true] (Some 0) 4) 5).
    assert (H : mkPrefix 1 0 5 [false] None 1 = mkPrefix 1 4 12 [true] (Some 0) 4).
    { apply D; [left; reflexivity|right; left; reflexivity|reflexivity|reflexivity]. }
    discriminate H.
  - eexists. split; [vm_compute; reflexivity|vm_compute; reflexivity].
Qed.

(* some side condition on the bits after the code is necessary: a 1-bit code as the last
   held bit, just before a 64-bit word boundary, in a table whose longest code has 2 bits
   (stride 2 crosses into a word that does not exist) *)
Example enough_rest_needed :
  let p := mkPrefix 1 0 0 [false] None 1 in
  let ps := [p; mkPrefix 1 1 1 [true; false] None 1; mkPrefix 1 2 2 [true; true] None 1] in
  table_ok ps = true /\ In p ps /\
  read_code ps (p_code p ++ []) = Ok (p, []) /\
  read_code_at 64 ps (p_code p ++ []) = Err InsufficientData.
Proof. cbv zeta. repeat split; try (vm_compute; reflexivity). left. reflexivity. Qed.

Print Assumptions table_ok_prefix_free.
Print Assumptions read_code_app.
Print Assumptions read_code_at_enough.
Print Assumptions body_roundtrip.
Print Assumptions write_body_roundtrip.
Print Assumptions batch_roundtrip.
Print Assumptions batches_roundtrip.
