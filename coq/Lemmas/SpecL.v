(* SpecL.v — the grammar's decoder inverts its serialiser on every well-formed AST. *)
From QCo.Lemmas Require Import Tactics BitsL DTypeL CodecL.
From QCo.Model Require Import Base Frozen DType Spec.
Open Scope N_scope.

(* ---------------- primitives ---------------- *)
Lemma rd_put n x s : x < 2 ^ n -> rd n (put n x ++ s) = Some (x, s).
Proof.
  intros H. unfold rd, put. rewrite getn_putn, N2Nat.id, N.mod_small by exact H. reflexivity.
Qed.

Lemma rd_put_mod n x s : rd n (put n x ++ s) = Some (x mod 2 ^ n, s).
Proof. unfold rd, put. rewrite getn_putn, N2Nat.id. reflexivity. Qed.

Lemma rd_bits_app l s n : n = Nlen l -> rd_bits n (l ++ s) = Some (l, s).
Proof. intros ->. unfold rd_bits, Nlen. rewrite Nat2N.id. apply take_bits_app. Qed.

Lemma Nlen_repeat {A} (x : A) n : Nlen (repeat x n) = N.of_nat n.
Proof. unfold Nlen. rewrite repeat_length. reflexivity. Qed.

Lemma Nlen_flat_map_const {A B} (f : A -> list B) k l :
  (forall x, In x l -> Nlen (f x) = k) -> Nlen (flat_map f l) = k * Nlen l.
Proof.
  induction l as [|a l IH]; intros H.
  - cbn [flat_map]. rewrite !Nlen_nil, N.mul_0_r. reflexivity.
  - cbn [flat_map]. rewrite Nlen_app, Nlen_cons.
    rewrite IH by (intros x Hx; apply H; right; exact Hx).
    rewrite H by (left; reflexivity). lia.
Qed.

(* ---------------- varint ---------------- *)
Lemma dec_varint_pairs_spec left : forall i acc x s,
  x < 2 ^ N.of_nat left ->
  dec_varint_pairs left i acc (enc_varint_pairs left x ++ s) = Some (acc + x * 2 ^ i, s).
Proof.
  induction left as [|l IH]; intros i acc x s Hx.
  - change (2 ^ N.of_nat 0) with 1 in Hx. assert (x = 0) by lia. subst x.
    cbn [enc_varint_pairs dec_varint_pairs app]. rewrite N.mul_0_l, N.add_0_r. reflexivity.
  - cbn [enc_varint_pairs]. destruct (x =? 0) eqn:E.
    + apply N.eqb_eq in E. subst x. cbn [app dec_varint_pairs rd1 obind].
      rewrite N.mul_0_l, N.add_0_r. reflexivity.
    + cbn [app dec_varint_pairs rd1 obind].
      pose proof (N.div2_odd x) as Hd. rewrite N.div2_div in Hd.
      rewrite IH.
      * f_equal. f_equal. rewrite N.pow_add_r, N.pow_1_r.
        set (P := 2 ^ i). clearbody P.
        set (q := x / 2) in *. clearbody q.
        destruct (N.odd x); cbn [N.b2n] in Hd; rewrite Hd; lia.
      * rewrite Nat2N.inj_succ, N.pow_succ_r' in Hx.
        set (P := 2 ^ N.of_nat l) in *. clearbody P.
        set (q := x / 2) in *. clearbody q.
        destruct (N.odd x); cbn [N.b2n] in Hd; lia.
Qed.

Lemma varint_rt j x s : j <= 24 -> x < 2 ^ 24 ->
  dec_varint j (enc_varint x j ++ s) = Some (x, s).
Proof.
  intros Hj Hx. unfold dec_varint, enc_varint.
  change Frozen.BITS_TO_ENCODE_N_ENTRIES with 24.
  rewrite <- app_assoc, rd_put_mod. cbn [obind].
  assert (HP : 2 ^ j <> 0) by (apply N.pow_nonzero; lia).
  rewrite dec_varint_pairs_spec.
  - f_equal. f_equal.
    pose proof (N.div_mod x (2 ^ j) HP) as Hdm.
    set (P := 2 ^ j) in *. clearbody P.
    set (q := x / P) in *. set (r := x mod P) in *. clearbody q r. lia.
  - rewrite N2Nat.id.
    apply N.div_lt_upper_bound; [exact HP|].
    rewrite <- N.pow_add_r. replace (j + (24 - j)) with 24 by lia. exact Hx.
Qed.

(* ---------------- offsets ---------------- *)
Lemma offset_rt r off s : off <= r -> dec_offset r (enc_offset r off ++ s) = Some (off, s).
Proof.
  intros Hoff. unfold dec_offset, enc_offset. cbv zeta.
  set (k := N.log2 (r + 1)).
  assert (Hk : 2 ^ k <= r + 1 < 2 ^ (k + 1)).
  { unfold k. rewrite N.add_1_r with (n := N.log2 (r + 1)). apply N.log2_spec. lia. }
  pose proof (pow2_pos k) as HP1.
  assert (HP0 : 2 ^ k <> 0) by lia.
  pose proof (N.mod_lt off (2 ^ k) HP0) as Hlt.
  rewrite <- app_assoc, rd_put by exact Hlt. cbn [obind].
  destruct (N.lt_ge_cases off (2 ^ k)) as [Hlo|Hhi].
  - rewrite (N.mod_small off (2 ^ k)) by exact Hlo.
    rewrite N.pow_add_r, N.pow_1_r in Hk.
    set (P := 2 ^ k) in *. clearbody P.
    destruct (r <? off) eqn:E2; [exfalso; lia|].
    destruct (P <=? r - off) eqn:E3.
    + destruct (P <=? off) eqn:E4; [exfalso; lia|].
      cbn [app rd1 obind]. reflexivity.
    + cbn [app]. reflexivity.
  - assert (Hhi2 : 2 ^ k <= off < 2 ^ (k + 1)) by lia.
    destruct (high_div_mod off k Hhi2) as [_ Hmod]. rewrite Hmod.
    rewrite N.pow_add_r, N.pow_1_r in Hk.
    set (P := 2 ^ k) in *. clearbody P.
    destruct (r <? off - P) eqn:E2; [exfalso; lia|].
    destruct (P <=? r - (off - P)) eqn:E3; [|exfalso; lia].
    destruct (P <=? off) eqn:E4; [|exfalso; lia].
    cbn [app rd1 obind]. f_equal. f_equal. lia.
Qed.

Lemma offsets_rt r offs : forall s,
  Forall (fun o => o <= r) offs ->
  dec_offsets (length offs) r (flat_map (enc_offset r) offs ++ s) = Some (offs, s).
Proof.
  induction offs as [|o offs IH]; intros s H.
  - reflexivity.
  - inversion H; subst. cbn [length flat_map dec_offsets].
    rewrite <- app_assoc, offset_rt by assumption. cbn [obind].
    rewrite IH by assumption. reflexivity.
Qed.

(* ---------------- gcd ---------------- *)
Lemma gcd_rt range g s : 1 <= g -> (g = 1 \/ g <= range) ->
  dec_gcd range (enc_gcd range g ++ s) = Some (g, s).
Proof.
  intros Hg Hor. unfold dec_gcd, enc_gcd.
  destruct (g =? 1) eqn:E.
  - apply N.eqb_eq in E. subst g. reflexivity.
  - apply N.eqb_neq in E. cbn [app rd1 obind].
    assert (Hgr : g <= range) by lia.
    assert (Hb : g - 1 < 2 ^ s_gcd_bits range).
    { unfold s_gcd_bits. destruct (range =? 0) eqn:E0.
      - apply N.eqb_eq in E0. lia.
      - assert (H1 : 1 < range) by lia.
        pose proof (N.log2_up_spec range H1) as [_ Hs].
        set (P := 2 ^ N.log2_up range) in *. clearbody P. lia. }
    rewrite rd_put by exact Hb. cbn [obind].
    destruct (g - 1 <? range) eqn:E1.
    + f_equal. f_equal. lia.
    + apply N.ltb_ge in E1. lia.
Qed.

(* ---------------- raw numbers ---------------- *)
Lemma phys_bytes d : (8 * N.to_nat (phys d / 8))%nat = N.to_nat (phys d).
Proof. destruct d; unfold_phys; reflexivity. Qed.

Lemma snum_rt sd x s : valid sd x = true ->
  dec_snum sd (enc_snum sd x ++ s) = Some (x, s).
Proof.
  intros Hv. destruct (to_bytes_ok sd x Hv) as (bs & E1 & E2 & E3 & E4).
  unfold dec_snum, enc_snum. rewrite E1.
  rewrite rd_bits_app.
  - cbn [obind]. rewrite bits_to_bytes_bytes by exact E3. rewrite E4. reflexivity.
  - unfold Nlen. rewrite bytes_to_bits_length, E2, phys_bytes, N2Nat.id. reflexivity.
Qed.

Lemma unum_rt pd u s : u_dom pd u -> valid pd (of_u pd u) = true ->
  dec_unum pd (enc_unum pd u ++ s) = Some (u, s).
Proof.
  intros Hd Hv. destruct (to_bytes_ok pd _ Hv) as (bs & E1 & E2 & E3 & E4).
  unfold dec_unum, enc_unum. rewrite E1.
  rewrite rd_bits_app.
  - cbn [obind]. rewrite bits_to_bytes_bytes by exact E3. rewrite E4.
    rewrite to_u_of_u by exact Hd. reflexivity.
  - unfold Nlen. rewrite bytes_to_bits_length, E2, phys_bytes, N2Nat.id. reflexivity.
Qed.

Lemma moments_rt sd ms : forall s,
  Forall (fun m => valid sd m = true) ms ->
  dec_moments (length ms) sd (flat_map (enc_snum sd) ms ++ s) = Some (ms, s).
Proof.
  induction ms as [|m ms IH]; intros s H.
  - reflexivity.
  - inversion H; subst. cbn [length flat_map dec_moments].
    rewrite <- app_assoc, snum_rt by assumption. cbn [obind].
    rewrite IH by assumption. reflexivity.
Qed.

(* ---------------- flags ---------------- *)
Lemma dec_flag_tail_stop fuel s : dec_flag_tail fuel false s = Some (O, s).
Proof. destruct fuel; reflexivity. Qed.

Lemma flag_tail_rt (l : list nat) : forall fuel s, (length l < fuel)%nat ->
  dec_flag_tail fuel true
    (flat_map (fun _ => repeat false 7 ++ [true]) l ++ repeat false 8 ++ s)
  = Some (S (length l), s).
Proof.
  induction l as [|a l IH]; intros fuel s Hf.
  - destruct fuel as [|fuel]; [cbn [length] in Hf; lia|].
    cbn [flat_map app dec_flag_tail negb].
    change (repeat false 8) with (put 7 0 ++ [false]).
    rewrite <- app_assoc, rd_put by reflexivity.
    cbn [obind app rd1]. rewrite N.eqb_refl. cbn [negb].
    rewrite dec_flag_tail_stop. reflexivity.
  - destruct fuel as [|fuel]; [cbn [length] in Hf; lia|].
    cbn [flat_map dec_flag_tail negb].
    change (repeat false 7) with (put 7 0).
    rewrite <- !app_assoc, rd_put by reflexivity.
    cbn [obind app rd1]. rewrite N.eqb_refl. cbn [negb].
    change (put 7 0) with (repeat false 7).
    rewrite IH by (cbn [length] in Hf; lia). reflexivity.
Qed.

Lemma enc_flags_length f extra : Nlen (enc_flags f extra) = 8 * (1 + N.of_nat extra).
Proof.
  unfold enc_flags. destruct extra as [|e].
  - rewrite !Nlen_app, put_length, !Nlen_cons, !Nlen_nil. lia.
  - rewrite !Nlen_app, put_length, !Nlen_cons, !Nlen_nil, Nlen_repeat.
    rewrite (Nlen_flat_map_const _ 8).
    + unfold Nlen. rewrite seq_length. lia.
    + intros x _. rewrite Nlen_app, Nlen_repeat, Nlen_cons, Nlen_nil. reflexivity.
Qed.

Lemma flags_rt f extra s : ford f <= 7 ->
  dec_flags (enc_flags f extra ++ s) = Some (f, extra, s).
Proof.
  intros Ho. destruct f as [b5 ord bmin bgcd]. cbn [Codec.ford] in Ho.
  unfold dec_flags, enc_flags. cbn [Codec.f5 Codec.ford Codec.fmin Codec.fgcd].
  assert (Ho' : ord < 2 ^ 3) by (change (2 ^ 3) with 8; lia).
  destruct extra as [|e].
  - rewrite <- !app_assoc. cbn [app rd1 obind].
    rewrite rd_put by exact Ho'. cbn [app rd1 obind].
    rewrite dec_flag_tail_stop. reflexivity.
  - rewrite <- !app_assoc. cbn [app rd1 obind].
    rewrite rd_put by exact Ho'. cbn [app rd1 obind].
    rewrite flag_tail_rt.
    + rewrite seq_length. reflexivity.
    + rewrite seq_length, !app_length, repeat_length.
      assert (H8 : (length (flat_map (fun _ : nat => repeat false 7 ++ [true]) (seq 0 e)) = 8 * e)%nat).
      { generalize (seq_length e 0). generalize (seq 0 e) as l. intros l <-.
        induction l as [|a l IH]; [reflexivity|].
        cbn [flat_map length]. rewrite app_length, IH. cbn. lia. }
      lia.
Qed.

(* ---------------- prefixes ---------------- *)
Definition wf_prefix (f : flags) (pd : dtype) (n : N) (common : option N) (p : prefix) : Prop :=
  p_count p < 2 ^ s_count_bits f n /\
  p_lower p <= p_upper p /\
  u_dom pd (p_lower p) /\ valid pd (of_u pd (p_lower p)) = true /\
  u_dom pd (p_upper p) /\ valid pd (of_u pd (p_upper p)) = true /\
  Nlen (p_code p) <= 31 /\ Nlen (p_code p) < 2 ^ s_code_len_bits f /\
  (forall j, p_jump p = Some j -> j <= 24) /\
  1 <= p_gcd p /\
  match common with
  | Some g => p_gcd p = g
  | None => p_gcd p = 1 \/ p_gcd p <= p_upper p - p_lower p
  end.

Lemma prefix_rt f pd n common p s : wf_prefix f pd n common p ->
  dec_prefix f pd n common (enc_prefix f pd n common p ++ s) = Some (p, s).
Proof.
  destruct p as [cnt lo up code jump g]. unfold wf_prefix.
  cbn [Codec.p_count Codec.p_lower Codec.p_upper Codec.p_code Codec.p_jump Codec.p_gcd].
  intros (Hc & Hlu & Hd1 & Hv1 & Hd2 & Hv2 & _ & Hcl & Hj & Hg & Hcom).
  unfold dec_prefix, enc_prefix.
  cbn [Codec.p_count Codec.p_lower Codec.p_upper Codec.p_code Codec.p_jump Codec.p_gcd].
  rewrite <- !app_assoc.
  rewrite rd_put by exact Hc. cbn [obind].
  rewrite unum_rt by assumption. cbn [obind].
  rewrite unum_rt by assumption. cbn [obind].
  destruct (up <? lo) eqn:E; [apply N.ltb_lt in E; lia|].
  rewrite rd_put by exact Hcl. cbn [obind].
  rewrite rd_bits_app by reflexivity. cbn [obind].
  destruct jump as [j|]; cbn [app rd1 obind].
  - rewrite rd_put by (specialize (Hj j eq_refl); change (2 ^ Frozen.BITS_TO_ENCODE_JUMPSTART) with 32; lia).
    cbn [obind]. destruct common as [g'|].
    + subst g'. reflexivity.
    + rewrite gcd_rt by assumption. reflexivity.
  - destruct common as [g'|].
    + subst g'. reflexivity.
    + rewrite gcd_rt by assumption. reflexivity.
Qed.

Lemma prefixes_rt f pd n common table : forall s,
  Forall (wf_prefix f pd n common) table ->
  dec_prefixes (length table) f pd n common
    (flat_map (enc_prefix f pd n common) table ++ s) = Some (table, s).
Proof.
  induction table as [|p table IH]; intros s H.
  - reflexivity.
  - inversion H; subst. cbn [length flat_map dec_prefixes].
    rewrite <- app_assoc, prefix_rt by assumption. cbn [obind].
    rewrite IH by assumption. reflexivity.
Qed.

(* ---------------- Huffman codes ---------------- *)
Lemma bits_eqb_eq a : forall b, bits_eqb a b = true <-> a = b.
Proof.
  unfold bits_eqb. induction a as [|x a IH]; intros [|y b]; cbn [list_eqb].
  - tauto.
  - split; discriminate.
  - split; discriminate.
  - rewrite andb_true_iff, IH, Bool.eqb_true_iff. split.
    + intros [-> ->]. reflexivity.
    + intros E. inversion E. tauto.
Qed.

Lemma s_is_prefix_app a : forall b, s_is_prefix a (a ++ b) = true.
Proof.
  induction a as [|x a IH]; intros b; cbn [app s_is_prefix]; [reflexivity|].
  rewrite IH, Bool.eqb_reflx. reflexivity.
Qed.

Definition codes_ok (table : list prefix) : Prop :=
  forall i j pi pj, i <> j -> nth_error table i = Some pi -> nth_error table j = Some pj ->
    s_is_prefix (p_code pi) (p_code pj) = false.

Lemma prefix_free_spec codes : prefix_free codes = true ->
  forall i j ci cj, i <> j -> nth_error codes i = Some ci -> nth_error codes j = Some cj ->
    s_is_prefix ci cj = false.
Proof.
  induction codes as [|c t IH]; intros H i j ci cj Hij Hi Hj.
  - destruct i; discriminate.
  - cbn [prefix_free] in H. apply andb_true_iff in H. destruct H as [Hall Hpf].
    rewrite forallb_forall in Hall.
    destruct i as [|i], j as [|j]; cbn [nth_error] in Hi, Hj.
    + congruence.
    + inversion Hi; subst. apply nth_error_In in Hj. apply Hall in Hj.
      apply andb_true_iff in Hj. destruct Hj as [Hj _].
      apply negb_true_iff in Hj. exact Hj.
    + inversion Hj; subst. apply nth_error_In in Hi. apply Hall in Hi.
      apply andb_true_iff in Hi. destruct Hi as [_ Hi].
      apply negb_true_iff in Hi. exact Hi.
    + apply (IH Hpf i j); [congruence|assumption|assumption].
Qed.

Lemma tree_ok_codes table : s_tree_ok table = true -> codes_ok table.
Proof.
  intros H i j pi pj Hij Hi Hj.
  destruct table as [|p0 t]; [destruct i; discriminate|].
  unfold s_tree_ok in H. apply andb_true_iff in H. destruct H as [_ H].
  apply (prefix_free_spec _ H i j); [exact Hij| |]; apply map_nth_error; assumption.
Qed.

Lemma index_of_code_none table c : forall i,
  (forall p, In p table -> p_code p <> c) -> index_of_code table c i = None.
Proof.
  induction table as [|q t IH]; intros i H; cbn [index_of_code]; [reflexivity|].
  destruct (bits_eqb (p_code q) c) eqn:E.
  - apply bits_eqb_eq in E. exfalso. apply (H q); [left; reflexivity|exact E].
  - apply IH. intros p Hp. apply H. right; exact Hp.
Qed.

Lemma index_of_code_found table : forall k i p,
  nth_error table k = Some p ->
  (forall k' q, (k' < k)%nat -> nth_error table k' = Some q -> p_code q <> p_code p) ->
  index_of_code table (p_code p) i = Some ((i + k)%nat, p).
Proof.
  induction table as [|q t IH]; intros k i p Hk Hlt.
  - destruct k; discriminate.
  - cbn [index_of_code]. destruct k as [|k]; cbn [nth_error] in Hk.
    + inversion Hk; subst.
      assert (E : bits_eqb (p_code p) (p_code p) = true) by (apply bits_eqb_eq; reflexivity).
      rewrite E, Nat.add_0_r. reflexivity.
    + destruct (bits_eqb (p_code q) (p_code p)) eqn:E.
      * apply bits_eqb_eq in E. exfalso. apply (Hlt O q); [lia|reflexivity|exact E].
      * rewrite (IH k (S i) p Hk).
        -- f_equal. f_equal. lia.
        -- intros k' q' Hk' Hq'. apply (Hlt (S k') q'); [lia|exact Hq'].
Qed.

Lemma code_rt table idx p : codes_ok table -> nth_error table idx = Some p ->
  forall code2 acc fuel s, acc ++ code2 = p_code p -> (length code2 <= fuel)%nat ->
  dec_code fuel table acc (code2 ++ s) = Some (idx, p, s).
Proof.
  intros Hok Hnth. induction code2 as [|b c2 IH]; intros acc fuel s Hacc Hf.
  - rewrite app_nil_r in Hacc. subst acc. cbn [app].
    assert (E : index_of_code table (p_code p) O = Some (idx, p)).
    { apply (index_of_code_found table idx O p Hnth).
      intros k' q Hk' Hq Heq.
      assert (Hne : k' <> idx) by lia.
      pose proof (Hok k' idx q p Hne Hq Hnth) as Hp.
      rewrite Heq in Hp. rewrite <- (app_nil_r (p_code p)) in Hp at 2.
      rewrite s_is_prefix_app in Hp. discriminate. }
    destruct fuel; cbn [dec_code]; rewrite E; reflexivity.
  - assert (E : index_of_code table acc O = None).
    { apply index_of_code_none. intros q Hq Heq.
      apply In_nth_error in Hq. destruct Hq as [kq Hq].
      destruct (Nat.eq_dec kq idx) as [->|Hne].
      - rewrite Hnth in Hq. inversion Hq; subst q.
        rewrite <- Hacc in Heq. apply (f_equal (@length bool)) in Heq.
        rewrite app_length in Heq. cbn [length] in Heq. lia.
      - pose proof (Hok kq idx q p Hne Hq Hnth) as Hp.
        rewrite Heq, <- Hacc, s_is_prefix_app in Hp. discriminate. }
    destruct fuel as [|fuel]; [cbn [length] in Hf; lia|].
    cbn [dec_code app]. rewrite E.
    apply IH.
    + rewrite <- app_assoc. exact Hacc.
    + cbn [length] in Hf. lia.
Qed.

(* ---------------- blocks ---------------- *)
Definition wf_block (table : list prefix) (b : sblock) : Prop :=
  exists p, nth_error table (sb_idx b) = Some p /\
    1 <= Nlen (sb_offsets b) /\
    match p_jump p with
    | None => Nlen (sb_offsets b) = 1
    | Some _ => Nlen (sb_offsets b) - 1 < 2 ^ 24
    end /\
    Forall (fun o => o <= s_range p) (sb_offsets b).

Lemma dec_blocks_S f table left s : left <> 0 ->
  dec_blocks (S f) table left s =
    (let? '(i, p, s1) := dec_code 32 table [] s in
     let? '(reps, s2) := (match p_jump p with
                          | None => Some (1, s1)
                          | Some j => let? '(v, s2) := dec_varint j s1 in Some (v + 1, s2)
                          end) in
     if left <? reps then None else
     let? '(offs, s3) := dec_offsets (N.to_nat reps) (s_range p) s2 in
     let? '(bl, s4) := dec_blocks f table (left - reps) s3 in
     Some (mkBlock i offs :: bl, s4)).
Proof.
  intros H. cbn [dec_blocks]. destruct (left =? 0) eqn:E; [apply N.eqb_eq in E; lia|reflexivity].
Qed.

Lemma blocks_rt table :
  codes_ok table ->
  (forall p, In p table -> Nlen (p_code p) <= 31) ->
  (forall p j, In p table -> p_jump p = Some j -> j <= 24) ->
  forall blocks fuel s,
  Forall (wf_block table) blocks -> (length blocks <= fuel)%nat ->
  dec_blocks fuel table (Nlen (flat_map sb_offsets blocks))
    (flat_map (enc_block table) blocks ++ s) = Some (blocks, s).
Proof.
  intros Hok Hlen Hjmp. induction blocks as [|b bs IH]; intros fuel s Hwf Hf.
  - destruct fuel; reflexivity.
  - inversion Hwf as [|? ? Hb Hbs]; subst.
    destruct b as [idx offs]. destruct Hb as (p & Hnth & H1 & Hj & Ho).
    cbn [sb_idx sb_offsets] in *.
    destruct fuel as [|fuel]; [cbn [length] in Hf; lia|].
    cbn [flat_map sb_offsets]. rewrite Nlen_app.
    rewrite dec_blocks_S by lia.
    unfold enc_block at 1. cbn [sb_idx sb_offsets]. rewrite Hnth.
    rewrite <- !app_assoc.
    pose proof (nth_error_In _ _ Hnth) as Hin.
    rewrite (code_rt table idx p Hok Hnth (p_code p) [] 32) by
      (try reflexivity; specialize (Hlen p Hin); unfold Nlen in Hlen; lia).
    cbn [obind].
    destruct (p_jump p) as [j|] eqn:EJ.
    + rewrite varint_rt by (try exact Hj; apply (Hjmp p j Hin EJ)).
      cbn [obind]. replace (Nlen offs - 1 + 1) with (Nlen offs) by lia.
      destruct (Nlen offs + Nlen (flat_map sb_offsets bs) <? Nlen offs) eqn:E;
        [apply N.ltb_lt in E; lia|].
      replace (N.to_nat (Nlen offs)) with (length offs) by (unfold Nlen; lia).
      rewrite offsets_rt by exact Ho. cbn [obind].
      replace (Nlen offs + Nlen (flat_map sb_offsets bs) - Nlen offs)
        with (Nlen (flat_map sb_offsets bs)) by lia.
      rewrite IH by (try assumption; cbn [length] in Hf; lia). reflexivity.
    + cbn [app]. cbn [obind]. rewrite Hj.
      destruct (1 + Nlen (flat_map sb_offsets bs) <? 1) eqn:E;
        [apply N.ltb_lt in E; lia|].
      assert (HL : length offs = N.to_nat 1) by (unfold Nlen in Hj; lia).
      rewrite <- HL, offsets_rt by exact Ho. cbn [obind].
      replace (1 + Nlen (flat_map sb_offsets bs) - 1)
        with (Nlen (flat_map sb_offsets bs)) by lia.
      rewrite IH by (try assumption; cbn [length] in Hf; lia). reflexivity.
Qed.

(* ---------------- padding ---------------- *)
Lemma firstn_repeat_app (n : nat) (r : bits) : firstn n (repeat false n ++ r) = repeat false n.
Proof. induction n as [|n IH]; cbn [repeat app firstn]; [reflexivity|]. rewrite IH. reflexivity. Qed.

Lemma skipn_repeat_app (n : nat) (r : bits) : skipn n (repeat false n ++ r) = r.
Proof. induction n as [|n IH]; cbn [repeat app skipn]; [reflexivity|]. exact IH. Qed.

Lemma existsb_repeat_false n : existsb (fun b : bool => b) (repeat false n) = false.
Proof. induction n as [|n IH]; cbn [repeat existsb orb]; [reflexivity|exact IH]. Qed.

Lemma aligned_skip_pad k r : k < 8 -> Nlen r mod 8 = 0 ->
  aligned_skip (repeat false (N.to_nat k) ++ r) = Some r.
Proof.
  intros Hk Hr. unfold aligned_skip.
  assert (E : Nlen (repeat false (N.to_nat k) ++ r) mod 8 = k).
  { rewrite Nlen_app, Nlen_repeat, N2Nat.id. set (L := Nlen r) in *. clearbody L. lia. }
  rewrite E, firstn_repeat_app, existsb_repeat_false, skipn_repeat_app. reflexivity.
Qed.

Lemma pad_lt (L : N) : (8 - L mod 8) mod 8 < 8.
Proof. lia. Qed.

Lemma s_pad_len s : Nlen (s_pad s) mod 8 = 0.
Proof.
  unfold s_pad. rewrite Nlen_app, Nlen_repeat, N2Nat.id.
  set (L := Nlen s). clearbody L. lia.
Qed.

Lemma enc_body_len c : Nlen (enc_body c) mod 8 = 0.
Proof. apply s_pad_len. Qed.

Definition enc_chunk_tail (f : flags) (d : dtype) (c : schunk) : bits :=
  let pd := s_pdt f d in
  let gcd_hdr :=
      if fgcd f then
        match sc_common c with
        | None => [false]
        | Some g => true :: enc_gcd (2 ^ ubits pd - 1) g
        end
      else [] in
  let common := if fgcd f then sc_common c else Some 1 in
  s_pad (put Frozen.BITS_TO_ENCODE_N_ENTRIES (sc_n c)
         ++ put Frozen.BITS_TO_ENCODE_COMPRESSED_BODY_SIZE (Nlen (enc_body c) / 8)
         ++ flat_map (enc_snum (sdt d)) (sc_moments c)
         ++ put Frozen.BITS_TO_ENCODE_N_PREFIXES (Nlen (sc_table c))
         ++ gcd_hdr
         ++ flat_map (enc_prefix f pd (sc_n c) common) (sc_table c))
  ++ enc_body c.

Lemma enc_chunk_split f d c :
  enc_chunk f d c = put 8 Frozen.MAGIC_CHUNK_BYTE ++ enc_chunk_tail f d c.
Proof. reflexivity. Qed.

Lemma enc_chunk_tail_len f d c : Nlen (enc_chunk_tail f d c) mod 8 = 0.
Proof.
  unfold enc_chunk_tail. cbv zeta. rewrite Nlen_app.
  match goal with |- (Nlen (s_pad ?x) + _) mod 8 = 0 => pose proof (s_pad_len x) as H1 end.
  pose proof (enc_body_len c) as H2.
  match goal with |- (?a + ?b) mod 8 = 0 => set (A := a) in *; set (B := b) in * end.
  clearbody A B. lia.
Qed.

Lemma enc_chunk_len f d c : Nlen (enc_chunk f d c) mod 8 = 0.
Proof.
  rewrite enc_chunk_split, Nlen_app, put_length.
  pose proof (enc_chunk_tail_len f d c) as H.
  set (A := Nlen (enc_chunk_tail f d c)) in *. clearbody A. lia.
Qed.

Lemma enc_chunks_len f d cs : Nlen (flat_map (enc_chunk f d) cs) mod 8 = 0.
Proof.
  induction cs as [|c cs IH]; [reflexivity|].
  cbn [flat_map]. rewrite Nlen_app.
  pose proof (enc_chunk_len f d c) as H.
  set (A := Nlen (enc_chunk f d c)) in *. set (B := Nlen (flat_map (enc_chunk f d) cs)) in *.
  clearbody A B. lia.
Qed.

(* ---------------- chunks ---------------- *)
Definition wf_chunk (f : flags) (d : dtype) (c : schunk) : Prop :=
  let pd := s_pdt f d in
  let common := if fgcd f then sc_common c else Some 1 in
  sc_n c < 2 ^ 24 /\
  length (sc_moments c) = N.to_nat (ford f) /\
  Forall (fun m => valid (sdt d) m = true) (sc_moments c) /\
  Nlen (sc_table c) < 2 ^ 15 /\
  s_tree_ok (sc_table c) = true /\
  (sc_table c = [] -> sc_n c - ford f = 0) /\
  (if fgcd f
   then match sc_common c with Some g => 1 <= g <= 2 ^ ubits pd - 1 | None => True end
   else sc_common c = Some 1) /\
  Forall (wf_prefix f pd (sc_n c) common) (sc_table c) /\
  Forall (wf_block (sc_table c)) (sc_blocks c) /\
  Nlen (flat_map sb_offsets (sc_blocks c)) = sc_n c - ford f /\
  Nlen (enc_body c) / 8 < 2 ^ 32.

Lemma blocks_count table blocks : Forall (wf_block table) blocks ->
  (length blocks <= length (flat_map sb_offsets blocks))%nat.
Proof.
  induction 1 as [|b bs Hb _ IH]; [cbn; lia|].
  cbn [flat_map length]. rewrite app_length.
  destruct Hb as (p & _ & H1 & _). unfold Nlen in H1. lia.
Qed.

Lemma body_rt f pd n common table blocks s :
  s_tree_ok table = true ->
  Forall (wf_prefix f pd n common) table ->
  Forall (wf_block table) blocks ->
  let n' := Nlen (flat_map sb_offsets blocks) in
  let raw := flat_map (enc_block table) blocks in
  dec_blocks (N.to_nat n') table n' (s_pad raw ++ s)
  = Some (blocks, repeat false (N.to_nat ((8 - Nlen raw mod 8) mod 8)) ++ s).
Proof.
  intros Htree Hpre Hblk n' raw. unfold s_pad. rewrite <- app_assoc.
  rewrite Forall_forall in Hpre.
  apply blocks_rt.
  - apply tree_ok_codes. exact Htree.
  - intros p Hp. apply Hpre in Hp. unfold wf_prefix in Hp. tauto.
  - intros p j Hp Hj. apply Hpre in Hp. unfold wf_prefix in Hp.
    destruct Hp as (_ & _ & _ & _ & _ & _ & _ & _ & H & _). apply H. exact Hj.
  - exact Hblk.
  - unfold n', Nlen. rewrite Nat2N.id. apply (blocks_count table). exact Hblk.
Qed.

Lemma chunk_rt f d c s : wf_chunk f d c -> Nlen s mod 8 = 0 ->
  dec_chunk f d (enc_chunk_tail f d c ++ s) = Some (c, Nlen (enc_body c) / 8, s).
Proof.
  unfold wf_chunk. cbv zeta.
  intros (Hn & Hml & Hmv & Htl & Htree & Hemp & Hcom & Hpre & Hblk & Htot & Hbsz) Hs.
  pose proof (enc_body_len c) as Hbl.
  assert (Hbody : forall t,
    dec_blocks (N.to_nat (sc_n c - ford f)) (sc_table c) (sc_n c - ford f) (enc_body c ++ t)
    = Some (sc_blocks c,
            repeat false (N.to_nat ((8 - Nlen (flat_map (enc_block (sc_table c)) (sc_blocks c)) mod 8) mod 8)) ++ t)).
  { intros t. rewrite <- Htot. unfold enc_body. eapply body_rt; eassumption. }
  unfold dec_chunk, enc_chunk_tail. cbv zeta.
  set (body := enc_body c) in *.
  set (common := if fgcd f then sc_common c else Some 1) in *.
  set (pd := s_pdt f d) in *.
  unfold s_pad at 1. rewrite <- !app_assoc.
  rewrite rd_put by exact Hn. cbn [obind].
  rewrite rd_put by exact Hbsz. cbn [obind].
  rewrite <- Hml, moments_rt by exact Hmv. cbn [obind].
  rewrite rd_put by exact Htl. cbn [obind].
  assert (Hc : forall t,
    (if fgcd f
     then let? '(b, s5) := rd1 ((if fgcd f then match sc_common c with
                                               | None => [false]
                                               | Some g => true :: enc_gcd (2 ^ ubits pd - 1) g
                                               end else []) ++ t) in
          if b then let? '(g, s6) := dec_gcd (2 ^ ubits pd - 1) s5 in Some (Some g, s6)
          else Some (None, s5)
     else Some (Some 1, (if fgcd f then match sc_common c with
                                       | None => [false]
                                       | Some g => true :: enc_gcd (2 ^ ubits pd - 1) g
                                       end else []) ++ t)) = Some (common, t)).
  { intros t. unfold common. destruct (fgcd f).
    - destruct (sc_common c) as [g|]; cbn [app rd1 obind]; [|reflexivity].
      rewrite gcd_rt by lia. reflexivity.
    - reflexivity. }
  rewrite Hc. cbn [obind]. clear Hc.
  unfold Nlen at 1. rewrite Nat2N.id.
  rewrite prefixes_rt by exact Hpre. cbn [obind].
  rewrite aligned_skip_pad.
  2: apply pad_lt.
  2: { rewrite Nlen_app. set (A := Nlen body) in *. set (B := Nlen s) in *. clearbody A B. lia. }
  cbn [obind]. rewrite Htree. cbn [negb].
  assert (Hz : (0 <? sc_n c - ford f) && (match sc_table c with [] => true | _ => false end) = false).
  { destruct (sc_table c) eqn:E.
    - rewrite Hemp by reflexivity. reflexivity.
    - apply andb_false_r. }
  rewrite Hz. rewrite Hbody. cbn [obind].
  rewrite aligned_skip_pad by (try apply pad_lt; exact Hs). cbn [obind].
  assert (Hsz : (Nlen (body ++ s) - Nlen s =? 8 * (Nlen body / 8)) = true).
  { apply N.eqb_eq. rewrite Nlen_app.
    set (A := Nlen body) in *. set (B := Nlen s) in *. clearbody A B. lia. }
  rewrite Hsz. cbn [negb].
  assert (Hcm : (if fgcd f then common else Some 1) = sc_common c).
  { unfold common. destruct (fgcd f); [reflexivity|]. symmetry. exact Hcom. }
  rewrite Hcm. destruct c; reflexivity.
Qed.

Lemma chunks_count f d cs : (length cs <= length (flat_map (enc_chunk f d) cs))%nat.
Proof.
  induction cs as [|c cs IH]; [cbn; lia|].
  cbn [flat_map length]. rewrite app_length, enc_chunk_split, app_length.
  unfold put. rewrite putn_length. change (N.to_nat 8) with 8%nat. lia.
Qed.

Lemma chunks_rt f d cs : forall fuel s,
  Forall (wf_chunk f d) cs -> Nlen s mod 8 = 0 -> (length cs < fuel)%nat ->
  dec_chunks fuel f d (flat_map (enc_chunk f d) cs ++ put 8 Frozen.MAGIC_TERMINATION_BYTE ++ s)
  = Some (map (fun c => (c, Nlen (enc_body c) / 8)) cs, s).
Proof.
  induction cs as [|c cs IH]; intros fuel s Hwf Hs Hf.
  - destruct fuel as [|fuel]; [cbn [length] in Hf; lia|].
    cbn [flat_map app dec_chunks map].
    rewrite rd_put by reflexivity. cbn [obind]. rewrite N.eqb_refl. reflexivity.
  - destruct fuel as [|fuel]; [cbn [length] in Hf; lia|].
    inversion Hwf as [|? ? Hc Hcs]; subst.
    cbn [flat_map dec_chunks map]. rewrite enc_chunk_split, <- !app_assoc.
    rewrite rd_put by reflexivity. cbn [obind].
    change (Frozen.MAGIC_CHUNK_BYTE =? Frozen.MAGIC_TERMINATION_BYTE) with false.
    rewrite N.eqb_refl. cbn [negb].
    rewrite chunk_rt.
    + cbn [obind]. rewrite IH by (try assumption; cbn [length] in Hf; lia). reflexivity.
    + exact Hc.
    + rewrite !Nlen_app, put_length.
      pose proof (enc_chunks_len f d cs) as H1.
      set (A := Nlen (flat_map (enc_chunk f d) cs)) in *. set (B := Nlen s) in *.
      clearbody A B. lia.
Qed.

(* ---------------- file ---------------- *)
Lemma magic_rt m : forall s, Forall (fun b => b < 256) m ->
  dec_magic m (flat_map (put 8) m ++ s) = Some s.
Proof.
  induction m as [|b m IH]; intros s H; [reflexivity|].
  inversion H; subst. cbn [flat_map dec_magic]. rewrite <- app_assoc.
  rewrite rd_put by (change (2 ^ 8) with 256; assumption). cbn [obind].
  rewrite N.eqb_refl. apply IH. assumption.
Qed.

Lemma hdr_lt d : hdr d < 2 ^ 8.
Proof. destruct d; reflexivity. Qed.

Definition wf_file (a : sfile) : Prop :=
  ford (sf_flags a) <= 7 /\
  Forall (wf_chunk (sf_flags a) (sf_dt a)) (sf_chunks a).

Lemma enc_file_len a : Nlen (enc_file a) mod 8 = 0.
Proof.
  unfold enc_file. rewrite !Nlen_app, !put_length, enc_flags_length.
  pose proof (enc_chunks_len (sf_flags a) (sf_dt a) (sf_chunks a)) as H.
  set (A := Nlen (flat_map (enc_chunk (sf_flags a) (sf_dt a)) (sf_chunks a))) in *.
  change (Nlen (flat_map (put 8) Frozen.MAGIC_HEADER)) with 32.
  set (B := N.of_nat (sf_extra_flag_bytes a)). clearbody A B. lia.
Qed.

Theorem dec_enc_file a rest : wf_file a -> Nlen rest mod 8 = 0 ->
  dec_file (sf_dt a) (enc_file a ++ rest)
  = Some (a, map (fun c => Nlen (enc_body c) / 8) (sf_chunks a), rest).
Proof.
  intros [Ho Hcs] Hr. unfold dec_file, enc_file. rewrite <- !app_assoc.
  rewrite magic_rt by (repeat constructor). cbn [obind].
  rewrite rd_put by apply hdr_lt. cbn [obind].
  rewrite N.eqb_refl. cbn [negb].
  rewrite flags_rt by exact Ho. cbn [obind].
  change Frozen.MAX_DELTA_ENCODING_ORDER with 7.
  destruct (7 <? ford (sf_flags a)) eqn:E; [apply N.ltb_lt in E; lia|].
  rewrite chunks_rt.
  - cbn [obind]. rewrite !map_map. cbn [fst snd]. rewrite map_id.
    destruct a; reflexivity.
  - exact Hcs.
  - exact Hr.
  - rewrite app_length.
    pose proof (chunks_count (sf_flags a) (sf_dt a) (sf_chunks a)). lia.
Qed.

Corollary dec_enc_file_nil a : wf_file a ->
  dec_file (sf_dt a) (enc_file a)
  = Some (a, map (fun c => Nlen (enc_body c) / 8) (sf_chunks a), []).
Proof.
  intros H. rewrite <- (app_nil_r (enc_file a)) at 1. apply dec_enc_file; [exact H|reflexivity].
Qed.

(* the numbers denoted by the decoded AST are those of the original *)
Corollary dec_enc_file_nums a rest : wf_file a -> Nlen rest mod 8 = 0 ->
  exists a' sizes, dec_file (sf_dt a) (enc_file a ++ rest) = Some (a', sizes, rest)
                   /\ file_nums a' = file_nums a.
Proof.
  intros H Hr. exists a, (map (fun c => Nlen (enc_body c) / 8) (sf_chunks a)).
  split; [apply dec_enc_file; assumption|reflexivity].
Qed.

(* a chunk that holds no numbers beyond its moments has no blocks *)
Lemma wf_chunk_no_blocks f d c : wf_chunk f d c -> sc_n c - ford f = 0 -> sc_blocks c = [].
Proof.
  unfold wf_chunk. cbv zeta.
  intros (_ & _ & _ & _ & _ & _ & _ & _ & Hblk & Htot & _) Hz.
  pose proof (blocks_count _ _ Hblk) as Hc. rewrite Hz in Htot. unfold Nlen in Htot.
  destruct (sc_blocks c); [reflexivity|cbn [length] in Hc; lia].
Qed.

(* wf_file is inhabited by a file exercising both gcd modes, a jumpstart, continuation flag
   bytes and an empty chunk *)
Module Example.
Definition p0 := mkPrefix 3 2147483648 2147483748 [false] (Some 1) 5.
Definition p1 := mkPrefix 1 0 4294967295 [true] None 1.
Definition c0 := mkChunk 4 [] None [p0; p1] [mkBlock 0 [3; 20; 0]; mkBlock 1 [4000000000]].
Definition c1 := mkChunk 0 [] (Some 7) [] [].
Definition a0 := mkFile DI32 (mkFlags true 0 true true) 2 [c0; c1].
Ltac vc := vm_compute;
  first [reflexivity | discriminate | exact I | (intros; discriminate) | (split; discriminate)].
Lemma wf_a0 : wf_file a0.
Proof.
  split; [vc|].
  apply Forall_cons; [|apply Forall_cons; [|apply Forall_nil]].
  - unfold wf_chunk. cbv zeta.
    split; [vc|]. split; [vc|]. split; [apply Forall_nil|]. split; [vc|]. split; [vc|].
    split; [intros; discriminate|]. split; [vc|].
    split.
    { apply Forall_cons; [|apply Forall_cons; [|apply Forall_nil]].
      - unfold wf_prefix. repeat split; try vc.
        + intros j H. inversion H. vc.
        + right. vc.
      - unfold wf_prefix. repeat split; try vc.
        left. reflexivity. }
    split.
    { apply Forall_cons; [|apply Forall_cons; [|apply Forall_nil]].
      - exists p0. split; [reflexivity|]. split; [vc|]. split; [vc|].
        repeat (apply Forall_cons; [vc|]). apply Forall_nil.
      - exists p1. split; [reflexivity|]. split; [vc|]. split; [vc|].
        repeat (apply Forall_cons; [vc|]). apply Forall_nil. }
    split; vc.
  - unfold wf_chunk. cbv zeta.
    split; [vc|]. split; [vc|]. split; [apply Forall_nil|]. split; [vc|]. split; [vc|].
    split; [intros; vc|]. split; [vc|].
    split; [apply Forall_nil|]. split; [apply Forall_nil|]. split; vc.
Qed.
End Example.

Print Assumptions enc_file_len.
Print Assumptions dec_enc_file_nums.
Print Assumptions dec_enc_file.
