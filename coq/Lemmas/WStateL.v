(* WStateL.v — the word-level Compressor state machine (Model/WState.v: the real struct's
   BitWriter and flags, every operation a sequence of BitWriter calls on 64-bit words,
   draining allowed at any time) simulates the bit/byte-list state machine of
   Model/Writer.v step by step, rejections included.

   Abstraction: the pending bytes are what drain_bytes would return now.
   Invariant:   the writer is sound (WordsL.wr_ok) and at a byte boundary.

   The back-patch of compressed_body_size is done at `pre_meta_bit_idx + 24` where
   pre_meta_bit_idx is the bit size of the writer at that moment, i.e. it depends on how
   many undrained bytes precede the chunk; WFileL.wf_chunk_with_spec is stated for ANY sound
   aligned writer, which is what makes the step below independent of the drain history. *)
From QCo.Lemmas Require Import Tactics BitsL DTypeL DeltaL FlagsL CodecL MetaL BodyL HeaderL FileL
     NoPanicL WordsL WFileL WriterL.
From QCo.Model Require Import Base Consts DType Codec Words Writer WFile WState.
Open Scope N_scope.

(* ================================================================== *)
(* 0. abstraction and invariant                                        *)
(* ================================================================== *)
Definition wabs (st : wwstate) : wstate :=
  mkW (ww_hdr st) (ww_ftr st) (wr_drain_bytes (ww_wr st)).

Definition wwinv (st : wwstate) : Prop :=
  wr_ok (ww_wr st) /\ aligned (ww_wr st).

(* the bit size is then a multiple of 8, and the pending bytes are the writer's bits *)
Lemma wwinv_bit_size st : wwinv st -> wr_bit_size (ww_wr st) mod 8 = 0.
Proof. intros (Hw & Ha). apply wr_aligned_iff; assumption. Qed.

Lemma wabs_pending_bits st :
  wwinv st ->
  w_pending (wabs st) = bits_to_bytes (wr_bits (ww_wr st)) /\
  bytes_to_bits (w_pending (wabs st)) = wr_bits (ww_wr st) /\
  Nlen (w_pending (wabs st)) = wr_byte_size (ww_wr st).
Proof.
  intros Hi. destruct Hi as (Hw & Ha).
  apply wr_drain_bytes_spec; [exact Hw|]. apply wr_aligned_iff; assumption.
Qed.

Lemma ww_init_inv : wwinv ww_init /\ wabs ww_init = w_init.
Proof.
  split; [|reflexivity]. split; [exact (proj1 wr_default_ok)|reflexivity].
Qed.

Lemma drain_bytes_range w : Forall (fun b => b < 256) (wr_drain_bytes w).
Proof. unfold wr_drain_bytes. apply Forall_firstn, words_to_bytes_range. Qed.

(* appending whole bytes to the writer appends them to what drain_bytes returns *)
Lemma drain_appends w w' X :
  wr_ok w -> aligned w -> appends w w' (bytes_to_bits X) -> aligned w' ->
  Forall (fun b => b < 256) X ->
  wr_drain_bytes w' = wr_drain_bytes w ++ X.
Proof.
  intros Hw Ha (Hw' & E) Ha' HX.
  assert (Hbs : wr_bit_size w mod 8 = 0) by (apply wr_aligned_iff; assumption).
  assert (Hbs' : wr_bit_size w' mod 8 = 0) by (apply wr_aligned_iff; assumption).
  destruct (wr_drain_bytes_spec w Hw Hbs) as (_ & Eb & _).
  destruct (wr_drain_bytes_spec w' Hw' Hbs') as (Ed' & _ & _).
  rewrite Ed', E, <- Eb, <- bytes_to_bits_app. apply bits_to_bytes_bytes.
  apply Forall_app. split; [apply drain_bytes_range|exact HX].
Qed.

(* ================================================================== *)
(* 1. Compressor::header never fails after it started writing          *)
(* ================================================================== *)
Lemma refresh_j_mod8 w : w_j w mod 8 = 0 -> w_j (wr_refresh w) mod 8 = 0.
Proof.
  intros H. unfold wr_refresh. destruct (w_j w =? WORD_SIZE); [reflexivity|exact H].
Qed.

Lemma aligned_byte_step_j w b : w_j w mod 8 = 0 -> w_j (wr_aligned_byte_step w b) mod 8 = 0.
Proof.
  intros H. unfold wr_aligned_byte_step. cbn [w_j].
  pose proof (refresh_j_mod8 w H) as H'. set (j := w_j (wr_refresh w)) in *. clearbody j. lia.
Qed.

Lemma aligned_bytes_fold_j bytes : forall w,
  w_j w mod 8 = 0 -> w_j (fold_left wr_aligned_byte_step bytes w) mod 8 = 0.
Proof.
  induction bytes as [|b t IH]; intros w H; cbn [fold_left]; [exact H|].
  apply IH, aligned_byte_step_j, H.
Qed.

Lemma write_aligned_bytes_cases w bytes :
  (w_j w mod 8 = 0 /\ exists w', wr_write_aligned_bytes w bytes = Ok w' /\ w_j w' mod 8 = 0) \/
  (w_j w mod 8 <> 0 /\ wr_write_aligned_bytes w bytes = Err InvalidArgument).
Proof.
  unfold wr_write_aligned_bytes. destruct (N.eqb_spec (w_j w mod 8) 0) as [E|E].
  - left. split; [exact E|]. eexists. split; [reflexivity|]. apply aligned_bytes_fold_j, E.
  - right. split; [exact E|reflexivity].
Qed.

(* wf_header (any writer, sound or not) fails only in the flag validation or in the
   alignment check of the first write_aligned_bytes, i.e. before anything is written; it
   never panics.  So "state unchanged" is what the Rust does on every header error. *)
Lemma wf_header_fails_early w d f :
  match wf_header w d f with
  | Ok _ => True
  | Err k => flags_payload f = Err k \/
             (w_j w mod 8 <> 0 /\ k = InvalidArgument /\
              wr_write_aligned_bytes w Consts.MAGIC_HEADER = Err InvalidArgument)
  | Panic => False
  end.
Proof.
  unfold wf_header.
  destruct (flags_payload f) as [p|k|] eqn:Ep; cbn [bind].
  - destruct (write_aligned_bytes_cases w Consts.MAGIC_HEADER) as [(_ & w1 & E1 & J1)|(J & E1)];
      rewrite E1; cbn [bind]; [|right; auto].
    unfold wf_aligned_byte.
    destruct (write_aligned_bytes_cases w1 [hdr d]) as [(_ & w2 & E2 & J2)|(J & _)];
      [|contradiction].
    rewrite E2. cbn [bind]. unfold wf_write_flags. rewrite Ep. cbn [bind]. exact I.
  - left. reflexivity.
  - exact (flags_payload_never_panics f Ep).
Qed.

(* ================================================================== *)
(* 2. Compressor::chunk                                                *)
(* ================================================================== *)
(* the writer of ww_chunk_with is the one of WFile.wf_chunk_with *)
Lemma ww_chunk_with_fst bf w d f table xs :
  wf_chunk_with bf w d f table xs =
  (do r <- ww_chunk_with bf w d f table xs; Ok (fst r)).
Proof.
  unfold wf_chunk_with, ww_chunk_with. cbv zeta.
  destruct (wf_aligned_byte w Consts.MAGIC_CHUNK_BYTE) as [w1| |]; cbn [bind]; try reflexivity.
  destruct (wf_write_meta w1 f d _) as [w2| |]; cbn [bind]; try reflexivity.
  destruct (bf w2 (pdt f d) table _) as [w3| |]; cbn [bind fst]; reflexivity.
Qed.

Lemma ww_chunk_fst w d f table xs :
  wf_chunk w d f table xs = (do r <- ww_chunk w d f table xs; Ok (fst r)).
Proof. apply ww_chunk_with_fst. Qed.

(* WFileL.wf_chunk_with_spec with the returned metadata: for ANY sound byte-aligned writer
   (whatever undrained output it still holds) the chunk appends magic byte, metadata and
   body with the back-patched size, and returns the metadata of the bit-list model *)
Theorem ww_chunk_with_spec bf w d f table xs m bs :
  wr_ok w -> aligned w ->
  body_contract bf (pdt f d) table (chunk_unsigneds d (ford f) xs) ->
  chunk_payload d f table xs = Ok (m, bs) ->
  exists w', ww_chunk_with bf w d f table xs = Ok (w', m) /\
             appends w w' (bytes_to_bits ([Consts.MAGIC_CHUNK_BYTE] ++ bs)) /\ aligned w'.
Proof.
  intros Hw Ha Hbf H. unfold chunk_payload in H. cbv zeta in H.
  set (us := chunk_unsigneds d (ford f) xs) in *.
  destruct (write_body table us) as [body| |] eqn:Ebody; cbn [bind] in H; try discriminate.
  set (sz := Nlen (bits_to_bytes body)) in *.
  destruct (write_meta f d (mkMeta (Nlen xs) sz (chunk_moments d (ford f) xs) table))
    as [mb| |] eqn:Emeta; cbn [bind] in H; try discriminate.
  assert (Em : m = mkMeta (Nlen xs) sz (chunk_moments d (ford f) xs) table) by congruence.
  assert (Ebs : bs = bits_to_bytes mb ++ bits_to_bytes body) by congruence.
  clear H. subst bs m.
  destruct (write_meta_shape _ _ _ _ Emeta) as (mo & ps & Emo & Eps & Emb).
  cbn [m_n m_body m_moments m_table] in Emo, Eps, Emb.
  set (X := put Consts.BITS_TO_ENCODE_N_ENTRIES (Nlen xs)) in *.
  destruct (pad8_field X (mo ++ ps) sz 0 Consts.BITS_TO_ENCODE_COMPRESSED_BODY_SIZE)
    as (pad & Epad & Epad0).
  rewrite Epad in Emb.
  assert (Emeta0 : write_meta f d (mkMeta (Nlen xs) 0 (chunk_moments d (ford f) xs) table)
                   = Ok (X ++ put Consts.BITS_TO_ENCODE_COMPRESSED_BODY_SIZE 0 ++ (mo ++ ps) ++ pad)).
  { unfold write_meta. cbn [m_n m_body m_moments m_table]. rewrite Emo, Eps. cbn [bind].
    fold X. rewrite Epad0. reflexivity. }
  unfold ww_chunk_with. cbv zeta. fold us.
  destruct (app_aligned_byte w Consts.MAGIC_CHUNK_BYTE Hw Ha eq_refl) as (w1 & E1 & A1 & L1).
  rewrite E1. cbn [bind].
  destruct (wf_write_meta_spec w1 f d _ _ (appends_ok _ _ _ A1) L1 Emeta0) as (w2 & E2 & A2 & L2).
  rewrite E2. cbn [bind].
  destruct (Hbf w2 body (appends_ok _ _ _ A2) L2 Ebody) as (w3 & E3 & A3 & L3).
  rewrite E3. cbn [bind].
  pose proof (appends_ok _ _ _ A1) as Hw1. pose proof (appends_ok _ _ _ A2) as Hw2.
  pose proof (appends_ok _ _ _ A3) as Hw3.
  pose proof (write_body_aligned _ _ _ Ebody) as Hbody8.
  (* the body size the real code computes from the two byte_size() calls *)
  assert (Hsz : wr_byte_size w3 - wr_byte_size w2 = sz).
  { pose proof (byte_size_aligned w2 Hw2 L2) as B2.
    pose proof (byte_size_aligned w3 Hw3 L3) as B3.
    destruct A3 as (_ & A3). rewrite A3, Nlen_app in B3.
    pose proof (bits_to_bytes_Nlen body Hbody8) as B. fold sz in B.
    set (x := wr_byte_size w2) in *. set (y := wr_byte_size w3) in *.
    set (l2 := Nlen (wr_bits w2)) in *. set (lb := Nlen body) in *. clearbody x y l2 lb sz. lia. }
  rewrite Hsz.
  eexists. split; [reflexivity|].
  set (P := wr_bits w1 ++ X).
  set (Q := ((mo ++ ps) ++ pad) ++ body).
  assert (HP : Nlen P = wr_bit_size w1 + Consts.BITS_TO_ENCODE_N_ENTRIES).
  { unfold P, X. rewrite Nlen_app, put_length, Nlen_wr_bits. reflexivity. }
  assert (Hb3 : wr_bits w3 = P ++ put Consts.BITS_TO_ENCODE_COMPRESSED_BODY_SIZE 0 ++ Q).
  { destruct A3 as (_ & ->). destruct A2 as (_ & ->). unfold P, Q.
    rewrite <- !app_assoc. reflexivity. }
  destruct (wr_overwrite_placeholder w3 P Q sz _ Hw3 Hb3) as (Hw4 & Hb4).
  rewrite HP in Hw4, Hb4.
  split; [|exact L3].
  split; [exact Hw4|].
  rewrite Hb4. unfold P, Q. destruct A1 as (_ & ->).
  rewrite !bytes_to_bits_app.
  rewrite (bytes_to_bits_to_bytes mb) by (exact (write_meta_aligned _ _ _ _ Emeta)).
  rewrite (bytes_to_bits_to_bytes body) by exact Hbody8.
  rewrite Emb. rewrite <- !app_assoc. reflexivity.
Qed.

Theorem ww_chunk_spec w d f table xs m bs :
  wr_ok w -> aligned w -> wchunk_ok (xs, table) ->
  chunk_payload d f table xs = Ok (m, bs) ->
  exists w', ww_chunk w d f table xs = Ok (w', m) /\
             appends w w' (bytes_to_bits ([Consts.MAGIC_CHUNK_BYTE] ++ bs)) /\ aligned w'.
Proof.
  intros Hw Ha Hc. apply ww_chunk_with_spec; try assumption. apply body_contract_find. exact Hc.
Qed.

(* the checks of Compressor::chunk + train_prefixes, in the order of the Rust, are
   Writer.chunk_args_ok *)
Lemma is_nil_true {A} (l : list A) : is_nil l = true <-> l = [].
Proof. destruct l; cbn; split; intros; congruence. Qed.

Lemma train_check_args c d xs :
  chunk_args_ok c d xs =
  negb (is_nil xs) &&
  match train_prefixes_check (w_level c) (Nlen xs)
          (chunk_unsigneds d (ford (cfg_flags c)) xs) with
  | Ok _ => true | _ => false end.
Proof.
  unfold chunk_args_ok, train_prefixes_check. rewrite cfg_flags_ford.
  destruct (is_nil xs); cbn [negb andb]; [reflexivity|].
  destruct (is_nil (chunk_unsigneds d (w_order c) xs)); cbn [orb]; [reflexivity|].
  rewrite N.leb_antisym.
  destruct (Consts.MAX_COMPRESSION_LEVEL <? w_level c); cbn [negb andb]; [reflexivity|].
  rewrite N.leb_antisym.
  destruct (Consts.MAX_ENTRIES <? Nlen xs); reflexivity.
Qed.

Lemma train_check_err level n us k :
  train_prefixes_check level n us = Err k -> k = InvalidArgument.
Proof.
  unfold train_prefixes_check.
  destruct (is_nil us); [discriminate|].
  destruct (_ <? level); [congruence|]. destruct (_ <? n); [congruence|discriminate].
Qed.

Lemma train_check_no_panic level n us : train_prefixes_check level n us <> Panic.
Proof.
  unfold train_prefixes_check.
  destruct (is_nil us); [discriminate|].
  destruct (_ <? level); [discriminate|]. destruct (_ <? n); discriminate.
Qed.

(* ================================================================== *)
(* 3. the guard and the per-operation simulation lemmas                *)
(* ================================================================== *)
(* Only chunks that pass the argument validation need a guard: the table handed over by
   the oracle must be encodable for the chunk (chunk_payload succeeds: every number is
   found in the table, ...) and satisfy WFileL.wchunk_ok (no gcd 0, <= 2^24 numbers).
   Implied by FileL.chunk_ok (wop_ok_of_chunk_ok), and by what train_prefixes returns.
   Excluded: an oracle table that does not cover the chunk — see the discrepancy
   [ww_late_failure_differs] at the end. *)
Definition wop_ok (c : wcfg) (d : dtype) (o : wop) : Prop :=
  match o with
  | WChunk xs table =>
      chunk_args_ok c d xs = true ->
      wchunk_ok (xs, table) /\
      exists m bs, chunk_payload d (cfg_flags c) table xs = Ok (m, bs)
  | _ => True
  end.

Lemma wop_ok_of_chunk_ok c d xs table :
  chunk_ok d (cfg_flags c) (xs, table) -> wop_ok c d (WChunk xs table).
Proof.
  intros H _. split; [exact (chunk_ok_wchunk_ok _ _ _ H)|exact (chunk_payload_ok _ _ _ _ H)].
Qed.

(* the guard of the bit-list theorems: chunk_ok for every chunk operation *)
Definition wop_chunk_ok (c : wcfg) (d : dtype) (o : wop) : Prop :=
  match o with
  | WChunk xs table => chunk_ok d (cfg_flags c) (xs, table)
  | _ => True
  end.

Lemma wop_chunk_ok_wop_ok c d o : wop_chunk_ok c d o -> wop_ok c d o.
Proof. destruct o; try (intros; exact I). apply wop_ok_of_chunk_ok. Qed.

Definition sim_step (c : wcfg) (d : dtype) (st : wwstate) (o : wop) : Prop :=
  wwinv (fst (ww_step c d st o)) /\
  w_step c d (wabs st) o = (wabs (fst (ww_step c d st o)), snd (ww_step c d st o)).

Local Opaque wf_header ww_chunk ww_chunk_failed_wr wf_footer chunk_payload header_bytes
      wr_drain_bytes wr_byte_size chunk_args_ok train_prefixes_check.

(* ---- header ---- *)
Lemma header_bytes_err_flags d f k : header_bytes d f = Err k -> flags_payload f = Err k.
Proof.
  Local Transparent header_bytes.
  unfold header_bytes, write_flags.
  destruct (flags_payload f) as [p|k'|]; cbn [bind]; congruence.
  Local Opaque header_bytes.
Qed.

Lemma wf_header_err_of_flags w d f k : flags_payload f = Err k -> wf_header w d f = Err k.
Proof.
  Local Transparent wf_header.
  intros H. unfold wf_header. rewrite H. reflexivity.
  Local Opaque wf_header.
Qed.

Lemma ww_header_sim c d st : wwinv st -> sim_step c d st WHeader.
Proof.
  destruct st as [w h f]. intros Hi. pose proof Hi as (Hw & Ha). cbn [ww_wr] in Hw, Ha.
  unfold sim_step, ww_step, w_step, wabs. cbn [ww_wr ww_hdr ww_ftr w_hdr w_ftr w_pending].
  destruct h; cbn [orb fst snd ww_wr ww_hdr ww_ftr]; [split; [exact Hi|reflexivity]|].
  destruct f; cbn [fst snd ww_wr ww_hdr ww_ftr]; [split; [exact Hi|reflexivity]|].
  destruct (header_bytes d (cfg_flags c)) as [hb|k|] eqn:Ehb.
  - destruct (wf_header_spec w d (cfg_flags c) hb Hw Ha Ehb) as (w' & E & A & L).
    rewrite E. cbn [fst snd ww_wr ww_hdr ww_ftr]. split.
    + split; cbn [ww_wr]; [exact (appends_ok _ _ _ A)|exact L].
    + rewrite (drain_appends _ _ hb Hw Ha A L (header_bytes_range _ _ _ Ehb)). reflexivity.
  - rewrite (wf_header_err_of_flags _ _ _ _ (header_bytes_err_flags _ _ _ Ehb)).
    cbn [fst snd ww_wr ww_hdr ww_ftr]. split; [exact Hi|reflexivity].
  - exfalso. exact (header_bytes_never_panics _ _ Ehb).
Qed.

(* ---- chunk ---- *)
Lemma ww_chunk_sim c d st xs table :
  wwinv st -> wop_ok c d (WChunk xs table) -> sim_step c d st (WChunk xs table).
Proof.
  destruct st as [w h f]. intros Hi Hg. pose proof Hi as (Hw & Ha). cbn [ww_wr] in Hw, Ha.
  unfold sim_step, ww_step, w_step, wabs. cbn [ww_wr ww_hdr ww_ftr w_hdr w_ftr w_pending].
  destruct h; cbn [negb orb fst snd ww_wr ww_hdr ww_ftr]; [|split; [exact Hi|reflexivity]].
  destruct f; cbn [fst snd ww_wr ww_hdr ww_ftr]; [split; [exact Hi|reflexivity]|].
  pose proof (train_check_args c d xs) as Eargs.
  destruct (is_nil xs) eqn:En; cbn [negb andb] in Eargs.
  { rewrite Eargs. cbn [negb fst snd ww_wr ww_hdr ww_ftr]. split; [exact Hi|reflexivity]. }
  destruct (train_prefixes_check (w_level c) (Nlen xs)
              (chunk_unsigneds d (ford (cfg_flags c)) xs)) as [u|k|] eqn:Et.
  - (* accepted by the validation *)
    rewrite Eargs. cbn [negb].
    destruct (Hg Eargs) as (Hc & m & bs & Ep).
    destruct (ww_chunk_spec w d (cfg_flags c) table xs m bs Hw Ha Hc Ep) as (w' & E & A & L).
    rewrite E, Ep. cbn [fst snd ww_wr ww_hdr ww_ftr]. split.
    + split; cbn [ww_wr]; [exact (appends_ok _ _ _ A)|exact L].
    + assert (Hr : Forall (fun b => b < 256) ([Consts.MAGIC_CHUNK_BYTE] ++ bs)).
      { apply Forall_app. split; [constructor; [reflexivity|constructor]|].
        exact (chunk_payload_range _ _ _ _ _ _ Ep). }
      rewrite (drain_appends _ _ _ Hw Ha A L Hr). reflexivity.
  - rewrite Eargs. cbn [negb fst snd ww_wr ww_hdr ww_ftr]. rewrite (train_check_err _ _ _ _ Et).
    split; [exact Hi|reflexivity].
  - exfalso. exact (train_check_no_panic _ _ _ Et).
Qed.

(* ---- footer ---- *)
Lemma ww_footer_sim c d st : wwinv st -> sim_step c d st WFooter.
Proof.
  destruct st as [w h f]. intros Hi. pose proof Hi as (Hw & Ha). cbn [ww_wr] in Hw, Ha.
  unfold sim_step, ww_step, w_step, wabs. cbn [ww_wr ww_hdr ww_ftr w_hdr w_ftr w_pending].
  destruct h; cbn [negb orb fst snd ww_wr ww_hdr ww_ftr]; [|split; [exact Hi|reflexivity]].
  destruct f; cbn [fst snd ww_wr ww_hdr ww_ftr]; [split; [exact Hi|reflexivity]|].
  destruct (wf_footer_spec w Hw Ha) as (w' & E & A & L).
  rewrite E. cbn [fst snd ww_wr ww_hdr ww_ftr]. split.
  - split; cbn [ww_wr]; [exact (appends_ok _ _ _ A)|exact L].
  - assert (Hr : Forall (fun b => b < 256) [Consts.MAGIC_TERMINATION_BYTE])
      by (constructor; [reflexivity|constructor]).
    rewrite (drain_appends _ _ _ Hw Ha A L Hr). reflexivity.
Qed.

(* ---- drain_bytes: the bytes, and a reset writer ---- *)
Lemma drain_default : wr_drain_bytes wr_default = [].
Proof. Local Transparent wr_drain_bytes. reflexivity. Local Opaque wr_drain_bytes. Qed.

Lemma ww_drain_sim c d st : sim_step c d st WDrain.
Proof.
  unfold sim_step, ww_step, w_step. cbn [fst snd wabs w_hdr w_ftr w_pending].
  split.
  - split; cbn [ww_wr]; [exact (proj1 wr_default_ok)|reflexivity].
  - unfold wabs. cbn [ww_wr ww_hdr ww_ftr]. rewrite drain_default. reflexivity.
Qed.

(* ---- byte_size ---- *)
Lemma ww_byte_size_sim c d st : wwinv st -> sim_step c d st WByteSize.
Proof.
  intros Hi. unfold sim_step, ww_step, w_step. cbn [fst snd].
  split; [exact Hi|].
  destruct (wabs_pending_bits st Hi) as (_ & _ & E). rewrite E. reflexivity.
Qed.

(* ================================================================== *)
(* 4. the simulation                                                   *)
(* ================================================================== *)
Theorem ww_step_sim c d st o :
  wwinv st -> wop_ok c d o ->
  let (st', out) := ww_step c d st o in
  wwinv st' /\ w_step c d (wabs st) o = (wabs st', out).
Proof.
  intros Hi Hg.
  assert (H : sim_step c d st o).
  { destruct o.
    - apply ww_header_sim; exact Hi.
    - apply ww_chunk_sim; assumption.
    - apply ww_footer_sim; exact Hi.
    - apply ww_drain_sim.
    - apply ww_byte_size_sim; exact Hi. }
  unfold sim_step in H. destruct (ww_step c d st o) as [st' out]. exact H.
Qed.

(* with the guard of the bit-list theorems *)
Corollary ww_step_sim_chunk_ok c d st o :
  wwinv st -> wop_chunk_ok c d o ->
  let (st', out) := ww_step c d st o in
  wwinv st' /\ w_step c d (wabs st) o = (wabs st', out).
Proof. intros Hi Hg. apply ww_step_sim; [exact Hi|apply wop_chunk_ok_wop_ok; exact Hg]. Qed.

(* every rejection is the rejection of Writer.v and changes nothing, not even the words *)
Corollary ww_reject_is_noop c d st o st' k :
  wwinv st -> wop_ok c d o ->
  ww_step c d st o = (st', WErr k) ->
  st' = st /\ k = InvalidArgument /\ w_step c d (wabs st) o = (wabs st, WErr InvalidArgument).
Proof.
  intros Hi Hg H.
  pose proof (ww_step_sim c d st o Hi Hg) as S. rewrite H in S. destruct S as (_ & S).
  pose proof (w_errors_are_invalid_argument _ _ _ _ _ _ S) as Ek. subst k.
  assert (Est : st' = st).
  { revert H. unfold ww_step. cbv zeta.
    destruct o.
    - destruct (ww_hdr st); [congruence|]. destruct (ww_ftr st); [congruence|].
      destruct (wf_header _ _ _); congruence.
    - destruct (negb (ww_hdr st)); [congruence|]. destruct (ww_ftr st); [congruence|].
      destruct (is_nil xs) eqn:En; [congruence|].
      destruct (train_prefixes_check _ _ _) eqn:Et; try congruence.
      intros H. exfalso.
      (* a late error is excluded by the guard *)
      pose proof (train_check_args c d xs) as Eargs. rewrite Et, En in Eargs.
      cbn [negb andb] in Eargs.
      destruct (Hg Eargs) as (Hc & m & bs & Ep).
      destruct Hi as (Hw & Ha).
      destruct (ww_chunk_spec (ww_wr st) d (cfg_flags c) table xs m bs Hw Ha Hc Ep)
        as (w' & E & _).
      rewrite E in H. congruence.
    - destruct (negb (ww_hdr st)); [congruence|]. destruct (ww_ftr st); [congruence|].
      destruct (wf_footer _); congruence.
    - congruence.
    - congruence. }
  subst st'. split; [reflexivity|]. split; [reflexivity|exact S].
Qed.

(* ---- runs ---- *)
Lemma ww_run_cons c d st o t :
  ww_run c d st (o :: t) =
  (fst (ww_run c d (fst (ww_step c d st o)) t),
   snd (ww_step c d st o) :: snd (ww_run c d (fst (ww_step c d st o)) t)).
Proof.
  cbn [ww_run]. destruct (ww_step c d st o) as [st1 out]. cbn [fst snd].
  destruct (ww_run c d st1 t) as [st2 outs]. reflexivity.
Qed.

Theorem ww_run_sim c d ops : forall st,
  wwinv st -> Forall (wop_ok c d) ops ->
  let (st', outs) := ww_run c d st ops in
  wwinv st' /\ w_run c d (wabs st) ops = (wabs st', outs).
Proof.
  induction ops as [|o t IH]; intros st Hi Hg.
  - cbn [ww_run w_run]. split; [exact Hi|reflexivity].
  - inversion Hg as [|? ? Ho Ht]; subst.
    pose proof (ww_step_sim c d st o Hi Ho) as S.
    cbn [ww_run w_run]. destruct (ww_step c d st o) as [st1 out]. destruct S as (Hi1 & S).
    rewrite S. specialize (IH st1 Hi1 Ht).
    destruct (ww_run c d st1 t) as [st2 outs]. destruct IH as (Hi2 & R).
    rewrite R. split; [exact Hi2|reflexivity].
Qed.

Corollary ww_run_sim_init c d ops st outs :
  Forall (wop_ok c d) ops ->
  ww_run c d ww_init ops = (st, outs) ->
  wwinv st /\ w_run c d w_init ops = (wabs st, outs).
Proof.
  intros Hg H. pose proof (ww_run_sim c d ops ww_init (proj1 ww_init_inv) Hg) as S.
  rewrite H in S. exact S.
Qed.

Corollary ww_run_sim_chunk_ok c d ops st outs :
  Forall (wop_chunk_ok c d) ops ->
  ww_run c d ww_init ops = (st, outs) ->
  wwinv st /\ w_run c d w_init ops = (wabs st, outs).
Proof.
  intros Hg. apply ww_run_sim_init.
  eapply Forall_impl; [|exact Hg]. intros o. apply wop_chunk_ok_wop_ok.
Qed.

(* ================================================================== *)
(* 5. drain independence at the word level                             *)
(* ================================================================== *)
Lemma Forall_strip_drains (P : wop -> Prop) ops : Forall P ops -> Forall P (strip_drains ops).
Proof.
  intros H. unfold strip_drains. induction H as [|o t Ho Ht IH]; cbn [filter]; [constructor|].
  destruct (negb (is_drain_op o)); [constructor; assumption|exact IH].
Qed.

(* draining (and asking for the size) at arbitrary moments: the concatenation of all drained
   byte vectors followed by what is still in the writer is what the writer holds when
   nothing is drained at all; the other outputs (errors included) are the same *)
Theorem ww_drain_independence : forall c d ops st1 outs1 st2 outs2,
  Forall (wop_ok c d) ops ->
  ww_run c d ww_init ops = (st1, outs1) ->
  ww_run c d ww_init (strip_drains ops) = (st2, outs2) ->
  total_out outs1 ++ wr_drain_bytes (ww_wr st1) = wr_drain_bytes (ww_wr st2) /\
  ww_hdr st1 = ww_hdr st2 /\ ww_ftr st1 = ww_ftr st2 /\
  strip_drain_outs outs1 = outs2.
Proof.
  intros c d ops st1 outs1 st2 outs2 Hg H1 H2.
  destruct (ww_run_sim_init c d ops st1 outs1 Hg H1) as (_ & R1).
  destruct (ww_run_sim_init c d _ st2 outs2 (Forall_strip_drains _ _ Hg) H2) as (_ & R2).
  exact (w_drain_independence c d ops _ _ _ _ R1 R2).
Qed.

(* any two interleavings of drain_bytes / byte_size calls into the same operations *)
Corollary ww_drain_interleavings : forall c d opsA opsB stA outsA stB outsB,
  Forall (wop_ok c d) opsA -> Forall (wop_ok c d) opsB ->
  strip_drains opsA = strip_drains opsB ->
  ww_run c d ww_init opsA = (stA, outsA) ->
  ww_run c d ww_init opsB = (stB, outsB) ->
  total_out outsA ++ wr_drain_bytes (ww_wr stA) = total_out outsB ++ wr_drain_bytes (ww_wr stB) /\
  ww_hdr stA = ww_hdr stB /\ ww_ftr stA = ww_ftr stB /\
  strip_drain_outs outsA = strip_drain_outs outsB.
Proof.
  intros c d opsA opsB stA outsA stB outsB HgA HgB Es HA HB.
  destruct (ww_run c d ww_init (strip_drains opsA)) as [st0 outs0] eqn:H0.
  destruct (ww_drain_independence c d opsA _ _ _ _ HgA HA H0) as (A1 & A2 & A3 & A4).
  rewrite Es in H0.
  destruct (ww_drain_independence c d opsB _ _ _ _ HgB HB H0) as (B1 & B2 & B3 & B4).
  repeat split; congruence.
Qed.

(* if everything is drained at the end, the drained bytes alone are equal *)
Corollary ww_drain_interleavings_final : forall c d opsA opsB stA outsA stB outsB,
  Forall (wop_ok c d) opsA -> Forall (wop_ok c d) opsB ->
  strip_drains opsA = strip_drains opsB ->
  ww_run c d ww_init (opsA ++ [WDrain]) = (stA, outsA) ->
  ww_run c d ww_init (opsB ++ [WDrain]) = (stB, outsB) ->
  total_out outsA = total_out outsB.
Proof.
  intros c d opsA opsB stA outsA stB outsB HgA HgB Es HA HB.
  assert (Hd : forall ops, Forall (wop_ok c d) ops -> Forall (wop_ok c d) (ops ++ [WDrain])).
  { intros ops H. apply Forall_app. split; [exact H|constructor; [exact I|constructor]]. }
  assert (Es' : strip_drains (opsA ++ [WDrain]) = strip_drains (opsB ++ [WDrain])).
  { unfold strip_drains in *. rewrite !filter_app, Es. reflexivity. }
  destruct (ww_drain_interleavings c d _ _ _ _ _ _ (Hd _ HgA) (Hd _ HgB) Es' HA HB) as (E & _).
  assert (Hlast : forall ops st outs,
             ww_run c d ww_init (ops ++ [WDrain]) = (st, outs) -> ww_wr st = wr_default).
  { intros ops. generalize ww_init. induction ops as [|o t IH]; intros s st outs H.
    - cbn in H. inversion H. reflexivity.
    - rewrite <- app_comm_cons, ww_run_cons in H.
      apply (IH (fst (ww_step c d s o)) st (snd (ww_run c d (fst (ww_step c d s o)) (t ++ [WDrain])))).
      rewrite (surjective_pairing (ww_run _ _ _ (t ++ [WDrain]))). cbn [fst snd].
      inversion H. reflexivity. }
  rewrite (Hlast _ _ _ HA), (Hlast _ _ _ HB), drain_default, !app_nil_r in E. exact E.
Qed.

(* ================================================================== *)
(* 6. C11 at the word level: any call sequence ending in the           *)
(*    "footer written" state has produced the file of the accepted     *)
(*    chunks, however the draining was interleaved                     *)
(* ================================================================== *)
Theorem ww_file_of_accepted : forall c d ops st outs,
  Forall (wop_ok c d) ops ->
  ww_run c d ww_init ops = (st, outs) ->
  ww_ftr st = true ->
  file_bytes d (cfg_flags c) (accepted_chunks ops outs)
  = Ok (total_out outs ++ wr_drain_bytes (ww_wr st)).
Proof.
  intros c d ops st outs Hg H Hf.
  destruct (ww_run_sim_init c d ops st outs Hg H) as (_ & R).
  exact (w_file_of_accepted c d ops (wabs st) outs R Hf).
Qed.

Theorem ww_valid_file : forall c d chunks st outs,
  Forall (chunk_ok d (cfg_flags c)) chunks ->
  ww_run c d ww_init (WHeader :: map (fun '(xs, t) => WChunk xs t) chunks ++ [WFooter])
    = (st, outs) ->
  forallb (fun o => negb (wfail o)) outs = true ->
  file_bytes d (cfg_flags c) chunks = Ok (wr_drain_bytes (ww_wr st)).
Proof.
  intros c d chunks st outs Hok H Hall.
  assert (Hg : Forall (wop_ok c d)
                 (WHeader :: map (fun '(xs, t) => WChunk xs t) chunks ++ [WFooter])).
  { constructor; [exact I|]. apply Forall_app. split; [|constructor; [exact I|constructor]].
    apply Forall_forall. intros o Ho. apply in_map_iff in Ho. destruct Ho as ([xs t] & <- & Hin).
    apply wop_ok_of_chunk_ok. exact (proj1 (Forall_forall _ _) Hok _ Hin). }
  destruct (ww_run_sim_init c d _ st outs Hg H) as (_ & R).
  exact (w_valid_file c d chunks (wabs st) outs R Hall).
Qed.

(* ================================================================== *)
(* 7. non-vacuity                                                      *)
(* ================================================================== *)
(* i32, delta order 0, gcds on.  Chunk A: 23 numbers, 5 offset bits each (body 15 bytes,
   chunk 35 bytes).  Chunk B: 300 numbers, two prefixes with 1-bit codes and 7 offset bits
   (body 300 = 0x012C bytes >= 256, so two bytes of the size field are non-zero). *)
Definition wsx_cfg : wcfg := mkWcfg 8 0 true.
Definition wsx_xsA : list Z := map Z.of_nat (seq 0 23).
Definition wsx_tblA : list prefix := [mkPrefix 23 2147483648 2147483679 [] None 1].
Definition wsx_xsB : list Z := map (fun i => Z.of_nat (Nat.modulo (i * 7) 256)) (seq 0 300).
Definition wsx_tblB : list prefix :=
  [mkPrefix 150 2147483648 2147483775 [false] None 1;
   mkPrefix 150 2147483776 2147483903 [true] None 1].
Definition wsx_chunks := [(wsx_xsA, wsx_tblA); (wsx_xsB, wsx_tblB)].

(* header, A, B, footer, drain — nothing drained in between *)
Definition wsx_ops1 : list wop :=
  [WHeader; WChunk wsx_xsA wsx_tblA; WChunk wsx_xsB wsx_tblB; WFooter; WDrain].
(* a drain after every operation *)
Definition wsx_ops2 : list wop :=
  [WHeader; WDrain; WChunk wsx_xsA wsx_tblA; WDrain; WChunk wsx_xsB wsx_tblB; WDrain;
   WFooter; WDrain].
(* rejected calls in between: a chunk before the header, an empty chunk, a second header,
   a footer before the header, a chunk and a header after the footer; byte_size calls *)
Definition wsx_ops3 : list wop :=
  [WChunk wsx_xsA wsx_tblA; WFooter; WByteSize; WHeader; WByteSize; WChunk [] [];
   WChunk wsx_xsA wsx_tblA; WByteSize; WHeader; WChunk [] wsx_tblA;
   WChunk wsx_xsB wsx_tblB; WByteSize; WFooter; WFooter; WChunk wsx_xsA wsx_tblA; WHeader;
   WByteSize; WDrain; WDrain].

(* When chunk B is written without draining, 6 + 35 = 41 bytes (= 1 mod 8) are pending: the
   chunk's magic byte is byte 41, pre_meta_bit_idx = 336, and the 32-bit placeholder is at
   bits 360..391 = word 5 bits 40..63 and word 6 bits 0..7. *)
Example ww_example_straddle :
  snd (ww_run wsx_cfg DI32 ww_init [WHeader; WChunk wsx_xsA wsx_tblA; WByteSize; WDrain])
  = [WUnit; WMeta (mkMeta 23 15 [] wsx_tblA); WSize 41;
     WBytes [113; 99; 111; 33; 3; 140; 44; 0; 0; 23; 0; 0; 0; 15; 0; 3; 92; 0;
             0; 0; 0; 0; 0; 0; 124; 0; 0; 68; 50; 20; 199; 66; 84; 182; 53;
             207; 132; 101; 58; 86; 192]] /\
  (41 + 1) * 8 + Consts.BITS_TO_ENCODE_N_ENTRIES = 5 * 64 + 40 /\
  (* the words 5 and 6 of the undrained writer after chunk B: bytes 40..55 of the file;
     the size field 00 00 01 2C is bytes 45..48 *)
  firstn 16 (skipn 40 (wr_drain_bytes (ww_wr (fst (ww_run wsx_cfg DI32 ww_init
       [WHeader; WChunk wsx_xsA wsx_tblA; WChunk wsx_xsB wsx_tblB])))))
  = [192; 44; 0; 1; 44; 0; 0; 1; 44; 0; 4; 75; 0; 0; 0; 0].
Proof. vm_compute. repeat split; reflexivity. Qed.

Example ww_example_nodrain :
  let '(st, outs) := ww_run wsx_cfg DI32 ww_init wsx_ops1 in
  w_run wsx_cfg DI32 w_init wsx_ops1 = (wabs st, outs) /\
  file_bytes DI32 (cfg_flags wsx_cfg) wsx_chunks = Ok (total_out outs) /\
  wfile_bytes DI32 (cfg_flags wsx_cfg) wsx_chunks = Ok (total_out outs) /\
  Nlen (total_out outs) = 373 /\
  Reader.decode_file DI32 (total_out outs) = Ok (wsx_xsA ++ wsx_xsB).
Proof. vm_compute. repeat split; reflexivity. Qed.

Example ww_example_drain_every_op :
  let '(st, outs) := ww_run wsx_cfg DI32 ww_init wsx_ops2 in
  w_run wsx_cfg DI32 w_init wsx_ops2 = (wabs st, outs) /\
  file_bytes DI32 (cfg_flags wsx_cfg) wsx_chunks = Ok (total_out outs) /\
  total_out outs = total_out (snd (ww_run wsx_cfg DI32 ww_init wsx_ops1)) /\
  map (fun o => match o with WBytes b => Nlen b | _ => 0 end) outs = [0; 6; 0; 35; 0; 331; 0; 1].
Proof. vm_compute. repeat split; reflexivity. Qed.

Example ww_example_rejections :
  let '(st, outs) := ww_run wsx_cfg DI32 ww_init wsx_ops3 in
  w_run wsx_cfg DI32 w_init wsx_ops3 = (wabs st, outs) /\
  file_bytes DI32 (cfg_flags wsx_cfg) wsx_chunks = Ok (total_out outs) /\
  map (fun o => match o with WErr InvalidArgument => 1 | WSize n => n | _ => 0 end) outs
  = [1; 1; 0; 0; 6; 1; 0; 41; 1; 1; 0; 372; 0; 1; 1; 1; 373; 0; 0].
Proof. vm_compute. repeat split; reflexivity. Qed.

(* other configurations: compression level too high (every non-empty chunk is rejected,
   nothing is written), delta order 1 with a run-length prefix and gcds (WFileL's example),
   a chunk shorter than the delta order (no unsigneds: accepted even at level 13) *)
Definition wsx_ops4 : list wop :=
  [WHeader; WChunk wx_xs1 wx_table1; WByteSize; WChunk wx_xs2 wx_table2; WChunk [7%Z] [];
   WDrain; WChunk wx_xs1 wx_table1; WFooter; WDrain].

Example ww_example_other_configs :
  (let '(st, outs) := ww_run (mkWcfg 13 0 true) DI32 ww_init wsx_ops3 in
   w_run (mkWcfg 13 0 true) DI32 w_init wsx_ops3 = (wabs st, outs) /\
   total_out outs = [113; 99; 111; 33; 3; 140; 46]) /\
  (let '(st, outs) := ww_run (mkWcfg 8 9 true) DI32 ww_init wsx_ops3 in   (* bad delta order *)
   w_run (mkWcfg 8 9 true) DI32 w_init wsx_ops3 = (wabs st, outs) /\ total_out outs = []) /\
  (let '(st, outs) := ww_run (mkWcfg 8 1 true) DI16 ww_init wsx_ops4 in
   w_run (mkWcfg 8 1 true) DI16 w_init wsx_ops4 = (wabs st, outs) /\
   file_bytes DI16 (writer_flags 1 true)
     [(wx_xs1, wx_table1); (wx_xs2, wx_table2); ([7%Z], []); (wx_xs1, wx_table1)]
   = Ok (total_out outs)) /\
  (let '(st, outs) := ww_run (mkWcfg 13 1 true) DI16 ww_init wsx_ops4 in
   w_run (mkWcfg 13 1 true) DI16 w_init wsx_ops4 = (wabs st, outs) /\
   file_bytes DI16 (writer_flags 1 true) [([7%Z], [])] = Ok (total_out outs)).
Proof. vm_compute. repeat split; reflexivity. Qed.

(* the guard of the theorems holds for the example scripts, so the theorems apply to them *)
Lemma wsx_guard_A : wop_ok wsx_cfg DI32 (WChunk wsx_xsA wsx_tblA).
Proof.
  intros _. split.
  - split; cbn [fst snd]; [vm_compute; discriminate|]. repeat constructor; vm_compute; discriminate.
  - eexists. eexists. vm_compute. reflexivity.
Qed.

Lemma wsx_guard_B : wop_ok wsx_cfg DI32 (WChunk wsx_xsB wsx_tblB).
Proof.
  intros _. split.
  - split; cbn [fst snd]; [vm_compute; discriminate|]. repeat constructor; vm_compute; discriminate.
  - eexists. eexists. vm_compute. reflexivity.
Qed.

Lemma wsx_guard_nil table : wop_ok wsx_cfg DI32 (WChunk [] table).
Proof. intros H. vm_compute in H. discriminate. Qed.

Example wsx_guard_ops3 : Forall (wop_ok wsx_cfg DI32) wsx_ops3.
Proof.
  unfold wsx_ops3.
  repeat match goal with
  | |- Forall _ [] => constructor
  | |- Forall _ (WChunk [] _ :: _) => constructor; [apply wsx_guard_nil|]
  | |- Forall _ (WChunk wsx_xsA _ :: _) => constructor; [exact wsx_guard_A|]
  | |- Forall _ (WChunk wsx_xsB _ :: _) => constructor; [exact wsx_guard_B|]
  | |- Forall _ (_ :: _) => constructor; [exact I|]
  end.
Qed.

Example ww_example_thm :
  let '(st, outs) := ww_run wsx_cfg DI32 ww_init wsx_ops3 in
  wwinv st /\ w_run wsx_cfg DI32 w_init wsx_ops3 = (wabs st, outs).
Proof. exact (ww_run_sim wsx_cfg DI32 wsx_ops3 ww_init (proj1 ww_init_inv) wsx_guard_ops3). Qed.

(* and FileL.chunk_ok is satisfiable together with draining in between (FileL's example
   chunk, which has a run-length prefix and a gcd) *)
Example ww_example_chunk_ok :
  let ops := [WHeader; WDrain; WChunk ex_xs ex_table; WChunk ex_xs ex_table; WDrain;
              WChunk ex_xs ex_table; WFooter; WDrain] in
  Forall (wop_chunk_ok (mkWcfg 8 0 true) DI32) ops /\
  let '(st, outs) := ww_run (mkWcfg 8 0 true) DI32 ww_init ops in
  file_bytes DI32 (writer_flags 0 true) [(ex_xs, ex_table); (ex_xs, ex_table); (ex_xs, ex_table)]
  = Ok (total_out outs).
Proof.
  split.
  - repeat (constructor; [first [exact I | exact chunk_ok_example]|]). constructor.
  - vm_compute. reflexivity.
Qed.

(* ================================================================== *)
(* 8. where the real code and Writer.v differ: a late failure          *)
(* ================================================================== *)
(* Writer.w_step leaves the state unchanged whenever chunk_payload fails.  The real chunk()
   validates state, emptiness, level and count before writing, but the table lookup of
   compress_nums can still fail after the magic byte, the metadata and part of the body
   have been written (`trained_compress_chunk_nums(..)?`), and then nothing is rolled back:
   the writer keeps the partial chunk and is left in the middle of a byte.  With the table
   returned by the real train_prefixes the lookup cannot fail (every unsigned lies in one
   of the trained ranges), so this is a property of the oracle interface, not a reachable
   defect; it is exactly what [wop_ok] excludes.
   Witness: chunk B encoded with the table of chunk A (the number 35 is in no range).
   Both machines return Err(InvalidArgument) for the chunk; afterwards the word-level
   machine reports 30 pending bytes instead of 6, rejects the footer (misaligned writer),
   and drains 30 bytes of a broken file. *)
Example ww_late_failure_differs :
  let ops := [WHeader; WChunk wsx_xsB wsx_tblA; WByteSize; WFooter; WDrain] in
  chunk_args_ok wsx_cfg DI32 wsx_xsB = true /\
  chunk_payload DI32 (cfg_flags wsx_cfg) wsx_tblA wsx_xsB = Err InvalidArgument /\
  snd (w_run wsx_cfg DI32 w_init ops)
  = [WUnit; WErr InvalidArgument; WSize 6; WUnit; WBytes [113; 99; 111; 33; 3; 140; 46]] /\
  snd (ww_run wsx_cfg DI32 ww_init ops)
  = [WUnit; WErr InvalidArgument; WSize 30; WErr InvalidArgument;
     WBytes [113; 99; 111; 33; 3; 140; 44; 0; 1; 44; 0; 0; 0; 0; 0; 3; 5; 192;
             0; 0; 0; 0; 0; 0; 7; 192; 1; 221; 94; 0]] /\
  w_j (ww_wr (fst (ww_run wsx_cfg DI32 ww_init [WHeader; WChunk wsx_xsB wsx_tblA]))) = 41.
Proof. vm_compute. repeat split; reflexivity. Qed.

Print Assumptions ww_init_inv.
Print Assumptions wf_header_fails_early.
Print Assumptions ww_chunk_with_spec.
Print Assumptions ww_step_sim.
Print Assumptions ww_step_sim_chunk_ok.
Print Assumptions ww_reject_is_noop.
Print Assumptions ww_run_sim.
Print Assumptions ww_run_sim_chunk_ok.
Print Assumptions ww_drain_independence.
Print Assumptions ww_drain_interleavings.
Print Assumptions ww_drain_interleavings_final.
Print Assumptions ww_file_of_accepted.
Print Assumptions ww_valid_file.
