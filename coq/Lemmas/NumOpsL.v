(* NumOpsL.v — the bit-level transcription of the NumberLike conversions (Model/NumOps.v)
   equals the arithmetic model of Model/DType.v on every value of every type. *)
From QCo.Lemmas Require Import Tactics BitsL DTypeL.
From QCo.Model Require Import Base Consts DType NumOps.
Open Scope N_scope.
Local Arguments N.pow : simpl never.
Local Arguments Z.pow : simpl never.

(* ================================================================== *)
(* 1. generic facts about w-bit words (any width w)                   *)
(* ================================================================== *)

Lemma pow2_pos k : 0 < 2 ^ k.
Proof. assert (H : 2 ^ k <> 0) by (apply N.pow_nonzero; lia). lia. Qed.

Lemma pow2_split w : 0 < w -> 2 ^ w = 2 * 2 ^ (w - 1).
Proof.
  intros Hw. rewrite <- N.pow_succ_r'. f_equal. lia.
Qed.

Lemma ones_arith w : N.ones w = 2 ^ w - 1.
Proof. rewrite N.ones_equiv. pose proof (pow2_pos w). lia. Qed.

Lemma testbit_high x k i : x < 2 ^ k -> k <= i -> N.testbit x i = false.
Proof.
  intros Hx Hi. rewrite <- (N.mod_small x (2 ^ k) Hx).
  apply N.mod_pow2_bits_high. exact Hi.
Qed.

(* the top bit of a w-bit word *)
Lemma testbit_top w x : 0 < w -> x < 2 ^ w -> N.testbit x (w - 1) = (2 ^ (w - 1) <=? x).
Proof.
  intros Hw Hx. rewrite (pow2_split w Hw) in Hx.
  set (P := 2 ^ (w - 1)) in *. pose proof (pow2_pos (w - 1)) as HP. fold P in HP.
  pose proof (N.testbit_spec' x (w - 1)) as Hs. fold P in Hs.
  assert (Hq : x / P < 2) by (apply N.div_lt_upper_bound; lia).
  rewrite (N.mod_small _ _ Hq) in Hs.
  destruct (P <=? x) eqn:Hc.
  - assert (H1 : 1 <= x / P) by (apply N.div_le_lower_bound; lia).
    destruct (N.testbit x (w - 1)); [reflexivity|]. cbn [N.b2n] in Hs. lia.
  - assert (H0 : x / P = 0) by (apply N.div_small; lia).
    destruct (N.testbit x (w - 1)); [|reflexivity]. cbn [N.b2n] in Hs. lia.
Qed.

Lemma land_pow2 x k : N.land x (2 ^ k) = if N.testbit x k then 2 ^ k else 0.
Proof.
  apply N.bits_inj. intros i. rewrite N.land_spec, N.pow2_bits_eqb.
  destruct (N.eqb_spec k i) as [E|E].
  - subst i. destruct (N.testbit x k) eqn:Hb.
    + rewrite N.pow2_bits_eqb, N.eqb_refl. reflexivity.
    + rewrite N.bits_0. reflexivity.
  - rewrite andb_false_r. destruct (N.testbit x k).
    + rewrite N.pow2_bits_eqb. symmetry. apply N.eqb_neq. exact E.
    + rewrite N.bits_0. reflexivity.
Qed.

(* x ^ 2^k on words without / with bit k *)
Lemma lxor_pow2_low x k : x < 2 ^ k -> N.lxor x (2 ^ k) = x + 2 ^ k.
Proof.
  intros Hx. symmetry. apply N.add_nocarry_lxor.
  rewrite land_pow2, (testbit_high x k k Hx) by lia. reflexivity.
Qed.

Lemma lxor_pow2_high x k : 2 ^ k <= x -> x < 2 * 2 ^ k -> N.lxor x (2 ^ k) = x - 2 ^ k.
Proof.
  intros Hl Hh.
  assert (Hx' : x - 2 ^ k < 2 ^ k) by lia.
  pose proof (lxor_pow2_low _ _ Hx') as E.
  replace (x - 2 ^ k + 2 ^ k) with x in E by lia.
  rewrite <- E at 1. rewrite N.lxor_assoc, N.lxor_nilpotent, N.lxor_0_r. reflexivity.
Qed.

(* x & 2^(w-1) > 0 : the sign test *)
Lemma land_sign_gt0 w x : 0 < w -> x < 2 ^ w ->
  wgt0 (wand x (2 ^ (w - 1))) = (2 ^ (w - 1) <=? x).
Proof.
  intros Hw Hx. unfold wgt0, wand. rewrite land_pow2, (testbit_top w x Hw Hx).
  pose proof (pow2_pos (w - 1)). destruct (2 ^ (w - 1) <=? x); lia.
Qed.

(* !x *)
Lemma wnot_arith w x : x < 2 ^ w -> wnot w x = 2 ^ w - 1 - x.
Proof.
  intros Hx. unfold wnot. destruct (N.eq_dec x 0) as [E|E].
  - subst x. rewrite N.lxor_0_l, ones_arith. lia.
  - change (N.lxor x (N.ones w)) with (N.lnot x w).
    rewrite N.lnot_sub_low, ones_arith; [reflexivity|].
    apply N.log2_lt_pow2; [lia | exact Hx].
Qed.

Lemma wnot_lt w x : x < 2 ^ w -> wnot w x < 2 ^ w.
Proof. intros Hx. rewrite (wnot_arith w x Hx). pose proof (pow2_pos w). lia. Qed.

Lemma wtrunc_arith w x : wtrunc w x = x mod 2 ^ w.
Proof. apply N.land_ones. Qed.

Lemma wshl1_arith k : wshl1 k = 2 ^ k.
Proof. apply N.shiftl_1_l. Qed.

Lemma sign_bit_mask_arith w : sign_bit_mask w = 2 ^ (w - 1).
Proof. apply wshl1_arith. Qed.

(* (a << n) | b for b below 2^n *)
Lemma lor_shiftl a n b : b < 2 ^ n -> N.lor (N.shiftl a n) b = a * 2 ^ n + b.
Proof.
  intros Hb.
  assert (H0 : N.land (N.shiftl a n) b = 0).
  { apply N.bits_inj. intros i. rewrite N.land_spec, N.bits_0.
    destruct (N.ltb_spec i n) as [Hi|Hi].
    - rewrite N.shiftl_spec_low by exact Hi. reflexivity.
    - rewrite (testbit_high b n i Hb Hi). apply andb_false_r. }
  rewrite <- (N.lxor_lor _ _ H0), <- (N.add_nocarry_lxor _ _ H0), N.shiftl_mul_pow2.
  reflexivity.
Qed.

Lemma wadd_lt w x y : wadd w x y < 2 ^ w.
Proof. apply N.mod_lt. pose proof (pow2_pos w). lia. Qed.
Lemma wsub_lt w x y : wsub w x y < 2 ^ w.
Proof. apply N.mod_lt. pose proof (pow2_pos w). lia. Qed.
Lemma wmul_lt w x y : wmul w x y < 2 ^ w.
Proof. apply N.mod_lt. pose proof (pow2_pos w). lia. Qed.

(* ---- signed values <-> words ---- *)

Lemma Zpow2_N w : (2 ^ Z.of_N w)%Z = Z.of_N (2 ^ w).
Proof. rewrite N2Z.inj_pow. reflexivity. Qed.

Lemma enc_lt w v : enc w v < 2 ^ w.
Proof.
  unfold enc. pose proof (pow2_pos w) as HP.
  assert (H : (0 <= v mod 2 ^ Z.of_N w < 2 ^ Z.of_N w)%Z)
    by (apply Z.mod_pos_bound; rewrite Zpow2_N; lia).
  rewrite Zpow2_N in *. set (m := (v mod Z.of_N (2 ^ w))%Z) in *. clearbody m. lia.
Qed.

Lemma dec_arith w p : 0 < w -> p < 2 ^ w ->
  dec w p = if 2 ^ (w - 1) <=? p then (Z.of_N p - 2 ^ Z.of_N w)%Z else Z.of_N p.
Proof.
  intros Hw Hp. unfold dec, wsign. rewrite (testbit_top w p Hw Hp). reflexivity.
Qed.

Lemma in_srange_spec w z :
  in_srange w z = true <-> (- 2 ^ Z.of_N (w - 1) <= z < 2 ^ Z.of_N (w - 1))%Z.
Proof. unfold in_srange. lia. Qed.

(* decoding the word of a signed value gives the value back *)
Lemma dec_enc w v : 0 < w -> in_srange w v = true -> dec w (enc w v) = v.
Proof.
  intros Hw Hv. apply in_srange_spec in Hv.
  rewrite (dec_arith w _ Hw (enc_lt w v)). unfold enc.
  assert (E2 : (2 ^ Z.of_N w = 2 * 2 ^ Z.of_N (w - 1))%Z).
  { rewrite !Zpow2_N, (pow2_split w Hw). lia. }
  assert (EP : (Z.of_N (2 ^ (w - 1)) = 2 ^ Z.of_N (w - 1))%Z) by (symmetry; apply Zpow2_N).
  set (P := (2 ^ Z.of_N (w - 1))%Z) in *. set (Pn := 2 ^ (w - 1)) in *.
  rewrite E2. clearbody P Pn.
  destruct (Z_lt_le_dec v 0) as [Hneg|Hpos].
  - assert (Em : (v mod (2 * P) = v + 2 * P)%Z).
    { symmetry. apply (Z.mod_unique v (2 * P) (-1)); lia. }
    rewrite Em. destruct (Pn <=? Z.to_N (v + 2 * P)) eqn:Hc; lia.
  - rewrite Z.mod_small by lia.
    destruct (Pn <=? Z.to_N v) eqn:Hc; lia.
Qed.

(* the word of $t::MIN is 100...0 *)
Lemma smin_arith w : 0 < w -> smin w = 2 ^ (w - 1).
Proof.
  intros Hw. unfold smin, enc.
  assert (E2 : (2 ^ Z.of_N w = 2 * 2 ^ Z.of_N (w - 1))%Z).
  { rewrite !Zpow2_N, (pow2_split w Hw). lia. }
  rewrite E2. rewrite (Zpow2_N (w - 1)).
  pose proof (pow2_pos (w - 1)) as HP. set (Pn := 2 ^ (w - 1)) in *. clearbody Pn.
  assert (Em : ((- Z.of_N Pn) mod (2 * Z.of_N Pn) = Z.of_N Pn)%Z).
  { symmetry. apply (Z.mod_unique _ _ (-1)); lia. }
  rewrite Em. lia.
Qed.

(* sign extension, arithmetically and on the denoted value *)
Lemma sext_arith w w' p : 0 < w -> w <= w' -> p < 2 ^ w ->
  sext w w' p = if 2 ^ (w - 1) <=? p then p + (2 ^ w' - 2 ^ w) else p.
Proof.
  intros Hw Hww Hp. unfold sext, wsign. rewrite (testbit_top w p Hw Hp).
  destruct (2 ^ (w - 1) <=? p); [|reflexivity].
  rewrite N.lor_comm, (lor_shiftl _ _ _ Hp), ones_arith.
  replace w' with ((w' - w) + w) at 2 by lia. rewrite N.pow_add_r.
  pose proof (pow2_pos (w' - w)). pose proof (pow2_pos w).
  set (A := 2 ^ (w' - w)) in *. set (B := 2 ^ w) in *. clearbody A B. nia.
Qed.

Lemma sext_dec w w' p : 0 < w -> w <= w' -> p < 2 ^ w -> dec w' (sext w w' p) = dec w p.
Proof.
  intros Hw Hww Hp.
  assert (Hle : 2 ^ w <= 2 ^ w') by (apply N.pow_le_mono_r; lia).
  assert (Hlt : sext w w' p < 2 ^ w').
  { rewrite (sext_arith w w' p Hw Hww Hp). destruct (2 ^ (w - 1) <=? p); lia. }
  rewrite (dec_arith w' _ ltac:(lia) Hlt), (dec_arith w p Hw Hp).
  rewrite (sext_arith w w' p Hw Hww Hp).
  pose proof (pow2_split w Hw) as E1. pose proof (pow2_split w' ltac:(lia)) as E2.
  assert (Hh : w = w' \/ 2 ^ w <= 2 ^ (w' - 1)).
  { destruct (N.eq_dec w w') as [E|E]; [left; exact E|right].
    apply N.pow_le_mono_r; lia. }
  rewrite !Zpow2_N.
  destruct Hh as [E|Hh].
  - subst w'. destruct (2 ^ (w - 1) <=? p) eqn:Hc.
    + replace (p + (2 ^ w - 2 ^ w)) with p by lia. rewrite Hc. reflexivity.
    + rewrite Hc. reflexivity.
  - set (A := 2 ^ w) in *. set (A' := 2 ^ w') in *.
    set (H1 := 2 ^ (w - 1)) in *. set (H1' := 2 ^ (w' - 1)) in *.
    clearbody A A' H1 H1'.
    destruct (H1 <=? p) eqn:Hc.
    + destruct (H1' <=? p + (A' - A)) eqn:Hc'; lia.
    + destruct (H1' <=? p) eqn:Hc'; lia.
Qed.

(* ---- bytes ---- *)

Lemma to_be_bytes_eq nb x : to_be_bytes nb x = be_bytes nb x.
Proof.
  unfold to_be_bytes. induction nb as [|nb IH]; [reflexivity|].
  rewrite seq_S, rev_unit. cbn [map be_bytes plus]. rewrite IH. f_equal.
  change 255 with (N.ones 8). rewrite N.land_ones. reflexivity.
Qed.

Lemma from_be_bytes_acc bs : forall acc, Forall (fun b => b < 256) bs ->
  fold_left (fun a b => N.lor (N.shiftl a 8) b) bs acc = be_val_acc acc bs.
Proof.
  induction bs as [|b bs IH]; intros acc Hb; [reflexivity|].
  inversion Hb as [|? ? Hb1 Hb2]; subst.
  cbn [fold_left be_val_acc]. rewrite (IH _ Hb2). f_equal.
  rewrite lor_shiftl by exact Hb1. change (2 ^ 8) with 256. lia.
Qed.

Lemma from_be_bytes_eq bs : Forall (fun b => b < 256) bs -> from_be_bytes bs = be_val bs.
Proof. apply from_be_bytes_acc. Qed.

Lemma be_val_acc_bound bs : forall acc, Forall (fun b => b < 256) bs ->
  be_val_acc acc bs < (acc + 1) * 2 ^ (8 * N.of_nat (length bs)).
Proof.
  induction bs as [|b bs IH]; intros acc Hb.
  - cbn [be_val_acc length]. change (2 ^ (8 * N.of_nat 0)) with 1. lia.
  - inversion Hb as [|? ? Hb1 Hb2]; subst.
    cbn [be_val_acc length]. specialize (IH (256 * acc + b) Hb2).
    replace (8 * N.of_nat (S (length bs))) with (8 + 8 * N.of_nat (length bs)) by lia.
    rewrite N.pow_add_r. change (2 ^ 8) with 256.
    pose proof (pow2_pos (8 * N.of_nat (length bs))) as HP.
    set (P := 2 ^ (8 * N.of_nat (length bs))) in *. clearbody P. nia.
Qed.

Lemma be_val_bound bs : Forall (fun b => b < 256) bs ->
  be_val bs < 2 ^ (8 * N.of_nat (length bs)).
Proof. intros Hb. pose proof (be_val_acc_bound bs 0 Hb) as H. unfold be_val. lia. Qed.

Lemma try_into_arr_ok nb bs : length bs = nb -> try_into_arr nb bs = Ok bs.
Proof. intros E. unfold try_into_arr. rewrite E, Nat.eqb_refl. reflexivity. Qed.

(* ================================================================== *)
(* 2. the float macro, generically in the width                       *)
(* ================================================================== *)

Lemma float_to_unsigned_arith w x : 0 < w -> (0 <= x < 2 ^ Z.of_N w)%Z ->
  float_to_unsigned w x =
  if 2 ^ (w - 1) <=? Z.to_N x then 2 ^ w - 1 - Z.to_N x else Z.to_N x + 2 ^ (w - 1).
Proof.
  intros Hw Hx. unfold float_to_unsigned. cbv zeta.
  assert (Hb : Z.to_N x < 2 ^ w) by (rewrite Zpow2_N in Hx; lia).
  set (b := Z.to_N x) in *. clearbody b.
  rewrite sign_bit_mask_arith, (land_sign_gt0 w b Hw Hb).
  destruct (2 ^ (w - 1) <=? b) eqn:Hc.
  - apply wnot_arith. exact Hb.
  - unfold wxor. apply lxor_pow2_low. lia.
Qed.

Lemma float_from_unsigned_arith w u : 0 < w -> u < 2 ^ w ->
  float_from_unsigned w u =
  if 2 ^ (w - 1) <=? u then Z.of_N (u - 2 ^ (w - 1)) else Z.of_N (2 ^ w - 1 - u).
Proof.
  intros Hw Hu. unfold float_from_unsigned.
  rewrite sign_bit_mask_arith, (land_sign_gt0 w u Hw Hu).
  destruct (2 ^ (w - 1) <=? u) eqn:Hc.
  - f_equal. unfold wxor. apply lxor_pow2_high; [lia|].
    rewrite <- (pow2_split w Hw). exact Hu.
  - f_equal. apply wnot_arith. exact Hu.
Qed.

Lemma float_to_signed_arith w x : 0 < w -> (0 <= x < 2 ^ Z.of_N w)%Z ->
  float_to_signed w x =
  if (2 ^ Z.of_N (w - 1) <=? x)%Z then (x - 2 ^ Z.of_N w)%Z else x.
Proof.
  intros Hw Hx. unfold float_to_signed, cast_same.
  assert (Hb : Z.to_N x < 2 ^ w) by (rewrite Zpow2_N in Hx; lia).
  rewrite (dec_arith w _ Hw Hb). rewrite !Zpow2_N in *.
  set (P := 2 ^ (w - 1)) in *. set (Q := 2 ^ w) in *. clearbody P Q.
  destruct (P <=? Z.to_N x) eqn:Hc; destruct (Z.of_N P <=? x)%Z eqn:Hc'; lia.
Qed.

(* ================================================================== *)
(* 3. main theorems: ops_* = DType.* on every value of every type     *)
(* ================================================================== *)

Lemma rbits_ubits d : rbits d = ubits d.
Proof. destruct d; reflexivity. Qed.

Lemma rpps_pps d : kind d = KTs96 -> Z.of_N (rpps d) = pps d.
Proof. destruct d; intros H; try discriminate H; reflexivity. Qed.

Ltac unfold_ops :=
  cbn [ops_to_unsigned ops_from_unsigned ops_to_signed ops_from_signed
       ops_to_bytes ops_from_bytes ops_s_add ops_s_sub rbits rpps];
  unfold signed_to_unsigned, signed_from_unsigned, signed_to_signed, signed_from_signed,
         signed_wrapping_add, signed_wrapping_sub,
         unsigned_to_unsigned, unsigned_from_unsigned, unsigned_to_signed, unsigned_from_signed,
         bool_to_unsigned, bool_from_unsigned, bool_to_signed, bool_from_signed, bool_wrapping,
         bool_as_u8, bool_of_raw, raw_of_bool, wgt0,
         ts64_to_unsigned, ts64_from_unsigned, ts64_to_signed, ts64_from_signed,
         ts96_to_unsigned, ts96_from_unsigned, ts96_to_signed, ts96_from_signed,
         cast_same, zext.

(* discharge the side conditions of dec_arith / smin_arith *)
Ltac word_side := first [ lia | apply wadd_lt | apply wsub_lt | apply enc_lt ].
Ltac to_arith :=
  repeat rewrite smin_arith by lia;
  repeat rewrite dec_arith by word_side;
  unfold wadd, wsub, enc.

(* NumberLike::to_unsigned *)
Theorem ops_to_unsigned_eq d x :
  representable d x = true -> ops_to_unsigned d x = to_u d x.
Proof.
  intros H.
  destruct d; unfold_ops.
  all: lazymatch goal with
       | |- float_to_unsigned _ _ = _ =>
           rewrite float_to_unsigned_arith by (try lia; unfold_dt; lia); reflexivity
       | |- _ => idtac
       end.
  all: to_arith; unfold_dt; repeat destr_if; lia.
Qed.

(* NumberLike::from_unsigned *)
Theorem ops_from_unsigned_eq d u :
  u < 2 ^ ubits d -> ops_from_unsigned d u = of_u d u.
Proof.
  intros H.
  destruct d; unfold_ops.
  all: lazymatch goal with
       | |- float_from_unsigned _ _ = _ =>
           rewrite float_from_unsigned_arith by (try lia; exact H); reflexivity
       | |- _ => idtac
       end.
  all: to_arith; unfold_dt; repeat destr_if; lia.
Qed.

(* NumberLike::to_signed *)
Theorem ops_to_signed_eq d x :
  representable d x = true -> ops_to_signed d x = to_s d x.
Proof.
  intros H.
  destruct d; unfold_ops; try reflexivity.
  all: lazymatch goal with
       | |- float_to_signed _ _ = _ =>
           rewrite float_to_signed_arith by (try lia; unfold_dt; lia); reflexivity
       | |- _ => idtac
       end.
  all: to_arith; unfold_dt; repeat destr_if; lia.
Qed.

(* NumberLike::from_signed *)
Theorem ops_from_signed_eq d s :
  representable (sdt d) s = true -> ops_from_signed d s = of_s d s.
Proof.
  intros H.
  destruct d; unfold_ops; try reflexivity;
  unfold float_from_signed, cast_same;
  to_arith; unfold_dt; repeat destr_if; lia.
Qed.

(* SignedLike::wrapping_add / wrapping_sub on T::Signed *)
Theorem ops_s_add_eq d a b :
  representable (sdt d) a = true -> representable (sdt d) b = true ->
  ops_s_add d a b = s_add d a b.
Proof.
  intros Ha Hb.
  destruct d; unfold_ops; to_arith; unfold_dt; repeat destr_if; lia.
Qed.

Theorem ops_s_sub_eq d a b :
  representable (sdt d) a = true -> representable (sdt d) b = true ->
  ops_s_sub d a b = s_sub d a b.
Proof.
  intros Ha Hb.
  destruct d; unfold_ops; to_arith; unfold_dt; repeat destr_if; lia.
Qed.

(* ---- the 96-bit timestamp constants and is_valid ---- *)

Lemma ts96_MIN_dec d : kind d = KTs96 -> dec 128 (ts96_MIN (rpps d)) = ts96_min d.
Proof. destruct d; intros H; try discriminate H; vm_compute; reflexivity. Qed.

Lemma ts96_MAX_dec d : kind d = KTs96 -> dec 128 (ts96_MAX (rpps d)) = ts96_max d.
Proof. destruct d; intros H; try discriminate H; vm_compute; reflexivity. Qed.

Lemma representable96 d x : kind d = KTs96 ->
  representable d x = in_srange 128 x.
Proof. destruct d; intros H; try discriminate H; reflexivity. Qed.

(* is_valid(parts) on the word of parts *)
Lemma ts96_is_valid_eq d x : kind d = KTs96 -> representable d x = true ->
  ts96_is_valid (rpps d) (enc 128 x) = valid d x.
Proof.
  intros Hk Hr. rewrite (representable96 d x Hk) in Hr.
  unfold ts96_is_valid, wsle.
  rewrite (ts96_MIN_dec d Hk), (ts96_MAX_dec d Hk), (dec_enc 128 x) by (lia || exact Hr).
  unfold valid. rewrite Hk. apply andb_comm.
Qed.

Theorem ops_is_valid96_eq d x : kind d = KTs96 -> representable d x = true ->
  ops_is_valid96 d x = valid d x.
Proof. apply ts96_is_valid_eq. Qed.

(* ---- to_bytes ---- *)

Lemma ts96_to_bytes_eq d x : kind d = KTs96 -> representable d x = true ->
  ts96_to_bytes (rpps d) x = to_bytes d x.
Proof.
  intros Hk Hr. rewrite (representable96 d x Hk) in Hr.
  unfold ts96_to_bytes, chk_ssub.
  rewrite (ts96_MIN_dec d Hk), (dec_enc 128 x) by (lia || exact Hr).
  unfold to_bytes. rewrite Hk.
  replace (ubits d) with 128 by (destruct d; try discriminate Hk; reflexivity).
  replace (N.to_nat (phys d / 8)) with 12%nat by (destruct d; try discriminate Hk; reflexivity).
  unfold in_srange, zpow2.
  rewrite (andb_comm (x - ts96_min d <? 2 ^ Z.of_N (128 - 1))%Z).
  destruct ((- 2 ^ Z.of_N (128 - 1) <=? x - ts96_min d)%Z && (x - ts96_min d <? 2 ^ Z.of_N (128 - 1))%Z);
    [|reflexivity].
  unfold cast_same, enc. rewrite to_be_bytes_eq. reflexivity.
Qed.

(* NumberLike::to_bytes.  (96-bit timestamps: on every i128 value, including those for
   which the checked subtraction overflows = Panic in both.) *)
Theorem ops_to_bytes_eq d x :
  representable d x = true -> ops_to_bytes d x = to_bytes d x.
Proof.
  intros H.
  destruct d; unfold_ops.
  all: match goal with
  | |- ts96_to_bytes _ _ = to_bytes ?d _ => exact (ts96_to_bytes_eq d x eq_refl H)
  | |- bool_to_bytes _ = _ => idtac
  | _ => unfold signed_to_bytes, unsigned_to_bytes, float_to_bytes, ts64_to_bytes;
         rewrite to_be_bytes_eq; reflexivity
  end.
  (* bool *)
  unfold bool_to_bytes, to_bytes; cbn [kind]. unfold bool_as_u8, bool_of_raw. f_equal. f_equal.
  unfold_dt. destruct (x =? 0)%Z eqn:E; cbn [negb]; lia.
Qed.

(* ---- from_bytes ---- *)

Lemma be_val_phys d bs :
  length bs = N.to_nat (phys d / 8) -> Forall (fun b => b < 256) bs ->
  be_val bs < 2 ^ phys d.
Proof.
  intros Hl Hb. pose proof (be_val_bound bs Hb) as B. rewrite Hl in B.
  destruct d; exact B.
Qed.

Lemma ts96_from_bytes_eq d bs : kind d = KTs96 ->
  length bs = N.to_nat (phys d / 8) -> Forall (fun b => b < 256) bs ->
  ts96_from_bytes (rpps d) bs = of_bytes d bs.
Proof.
  intros Hk Hl Hb.
  pose proof (be_val_phys d bs Hl Hb) as Hv.
  assert (Hp : phys d = 96) by (destruct d; try discriminate Hk; reflexivity).
  rewrite Hp in Hv, Hl. change (N.to_nat (96 / 8)) with 12%nat in Hl.
  unfold ts96_from_bytes. cbv zeta.
  rewrite try_into_arr_ok by (rewrite app_length, repeat_length, Hl; reflexivity).
  cbn [bind]. unfold cast_same.
  rewrite from_be_bytes_eq
    by (apply Forall_app; split; [repeat constructor | exact Hb]).
  change (be_val (repeat 0 4 ++ bs)) with (be_val bs).
  unfold of_bytes. rewrite Hk. cbv zeta.
  set (v := be_val bs) in *. clearbody v.
  assert (Hdv : dec 128 v = Z.of_N v).
  { rewrite dec_arith by (norm_pows; lia). norm_pows. destr_if; lia. }
  unfold chk_sadd. rewrite Hdv, (ts96_MIN_dec d Hk).
  assert (Hr : in_srange 128 (Z.of_N v + ts96_min d) = true).
  { apply in_srange_spec. destruct d; try discriminate Hk; unfold_dt; lia. }
  rewrite Hr. unfold ts96_new.
  rewrite (ts96_is_valid_eq d _ Hk) by (rewrite (representable96 d _ Hk); exact Hr).
  rewrite (dec_enc 128 _) by (lia || exact Hr).
  reflexivity.
Qed.

(* NumberLike::from_bytes on exactly PHYSICAL_BITS/8 bytes.  (96-bit timestamps: including
   the Err(InvalidArgument) outcome of Self::new for out-of-range parts.) *)
Theorem ops_from_bytes_eq d bs :
  length bs = N.to_nat (phys d / 8) -> Forall (fun b => b < 256) bs ->
  ops_from_bytes d bs = of_bytes d bs.
Proof.
  intros Hl Hb.
  pose proof (be_val_phys d bs Hl Hb) as Hv.
  destruct d; unfold_ops.
  all: match goal with
  | |- ts96_from_bytes _ _ = of_bytes ?d _ => exact (ts96_from_bytes_eq d bs eq_refl Hl Hb)
  | _ => idtac
  end.
  all: unfold signed_from_bytes, unsigned_from_bytes, float_from_bytes, ts64_from_bytes, bool_from_bytes;
    rewrite try_into_arr_ok by exact Hl; cbn [bind];
    rewrite from_be_bytes_eq by exact Hb;
    unfold of_bytes; cbn [kind]; try reflexivity.
  all: unfold_phys; set (v := be_val bs) in *; clearbody v;
    to_arith; unfold_dt; repeat destr_if; try reflexivity; f_equal; lia.
Qed.

(* a wrong number of bytes is the panic of `try_into().unwrap()` *)
Lemma ops_from_bytes_wrong_length d bs :
  length bs <> N.to_nat (phys d / 8) -> ops_from_bytes d bs = Panic.
Proof.
  intros Hl.
  destruct d; unfold_ops;
  unfold signed_from_bytes, unsigned_from_bytes, float_from_bytes, ts64_from_bytes, bool_from_bytes,
         ts96_from_bytes, try_into_arr; cbv zeta;
  try rewrite app_length, repeat_length;
  match goal with |- context [Nat.eqb ?a ?b] => destruct (Nat.eqb_spec a b) as [E|E] end;
  try reflexivity; exfalso; apply Hl; unfold_phys;
  repeat match goal with H : context [N.to_nat ?c] |- _ =>
    let v := eval vm_compute in (N.to_nat c) in change (N.to_nat c) with v in H end;
  match goal with |- context [N.to_nat ?c] =>
    let v := eval vm_compute in (N.to_nat c) in change (N.to_nat c) with v end;
  lia.
Qed.

(* the float cases above are closed by the width-generic lemmas alone:
   after them only the 13 non-float types are left for the arithmetic tactic *)
Goal forall x, representable DF64 x = true -> ops_to_unsigned DF64 x = to_u DF64 x.
Proof.
  intros x H. unfold_ops.
  rewrite float_to_unsigned_arith by (try lia; unfold_dt; lia). reflexivity.
Qed.

(* ================================================================== *)
(* 4. non-vacuity: boundary values, computed                          *)
(* ================================================================== *)
Open Scope Z_scope.

Definition res_eqb {A} (e : A -> A -> bool) (a b : res A) : bool :=
  match a, b with
  | Ok x, Ok y => e x y
  | Err k, Err k' => ekind_eqb k k'
  | Panic, Panic => true
  | _, _ => false
  end.

(* all eight functions agree at value x of d / word u / signed s / u as big-endian bytes *)
Definition agree_at (d : dtype) (x : Z) : bool :=
  representable d x &&
  N.eqb (ops_to_unsigned d x) (to_u d x) &&
  Z.eqb (ops_to_signed d x) (to_s d x) &&
  res_eqb (list_eqb N.eqb) (ops_to_bytes d x) (to_bytes d x) &&
  (* and back *)
  Z.eqb (ops_from_unsigned d (ops_to_unsigned d x)) x &&
  Z.eqb (ops_from_signed d (ops_to_signed d x)) x.
Definition agree_u (d : dtype) (u : N) : bool :=
  (u <? 2 ^ ubits d)%N &&
  Z.eqb (ops_from_unsigned d u) (of_u d u) &&
  let bs := be_bytes (N.to_nat (phys d / 8)) u in
  res_eqb Z.eqb (ops_from_bytes d bs) (of_bytes d bs).
Definition agree_s (d : dtype) (a b : Z) : bool :=
  representable (sdt d) a && representable (sdt d) b &&
  Z.eqb (ops_from_signed d a) (of_s d a) &&
  Z.eqb (ops_s_add d a b) (s_add d a b) && Z.eqb (ops_s_sub d a b) (s_sub d a b).

Definition imin (w : Z) := - 2 ^ (w - 1).
Definition imax (w : Z) := 2 ^ (w - 1) - 1.
Definition umax (w : Z) := 2 ^ w - 1.
Definition int_bounds (w : Z) : list Z := [imin w; imin w + 1; -1; 0; 1; imax w - 1; imax w].
Definition uint_bounds (w : Z) : list Z := [0; 1; imax w; imax w + 1; umax w - 1; umax w].

Example ex_bool : forallb (agree_at DBool) [0; 1] = true. Proof. vm_compute. reflexivity. Qed.
Example ex_i16 : forallb (agree_at DI16) (int_bounds 16) = true. Proof. vm_compute. reflexivity. Qed.
Example ex_i32 : forallb (agree_at DI32) (int_bounds 32) = true. Proof. vm_compute. reflexivity. Qed.
Example ex_i64 : forallb (agree_at DI64) (int_bounds 64) = true. Proof. vm_compute. reflexivity. Qed.
Example ex_i128 : forallb (agree_at DI128) (int_bounds 128) = true. Proof. vm_compute. reflexivity. Qed.
Example ex_u16 : forallb (agree_at DU16) (uint_bounds 16) = true. Proof. vm_compute. reflexivity. Qed.
Example ex_u32 : forallb (agree_at DU32) (uint_bounds 32) = true. Proof. vm_compute. reflexivity. Qed.
Example ex_u64 : forallb (agree_at DU64) (uint_bounds 64) = true. Proof. vm_compute. reflexivity. Qed.
Example ex_u128 : forallb (agree_at DU128) (uint_bounds 128) = true. Proof. vm_compute. reflexivity. Qed.
Example ex_ts64 : forallb (fun d => forallb (agree_at d) (int_bounds 64)) [DTsMicros; DTsNanos] = true.
Proof. vm_compute. reflexivity. Qed.
(* 96-bit timestamps: earliest / latest valid, their invalid neighbours, the i128 extremes *)
Example ex_ts96 :
  forallb (fun d => forallb (agree_at d)
     ([ts96_min d - 1; ts96_min d; ts96_min d + 1; ts96_max d - 1; ts96_max d; ts96_max d + 1]
      ++ int_bounds 128)) [DTsMicros96; DTsNanos96] = true.
Proof. vm_compute. reflexivity. Qed.

(* f32 bit patterns: +0.0, -0.0, min subnormals, 1.0, -1.0, f32::MAX, +inf, -inf,
   quiet / signalling NaNs of both signs, all-ones *)
Definition f32_specials : list Z :=
  [0x00000000; 0x80000000; 0x00000001; 0x80000001; 0x3F800000; 0xBF800000; 0x7F7FFFFF; 0xFF7FFFFF;
   0x7F800000; 0xFF800000; 0x7FC00000; 0xFFC00000; 0x7F800001; 0xFF800001; 0x7FFFFFFF; 0xFFFFFFFF].
Definition f64_specials : list Z :=
  [0x0000000000000000; 0x8000000000000000; 0x0000000000000001; 0x8000000000000001;
   0x3FF0000000000000; 0xBFF0000000000000; 0x7FEFFFFFFFFFFFFF; 0xFFEFFFFFFFFFFFFF;
   0x7FF0000000000000; 0xFFF0000000000000; 0x7FF8000000000000; 0xFFF8000000000000;
   0x7FF0000000000001; 0xFFF0000000000001; 0x7FFFFFFFFFFFFFFF; 0xFFFFFFFFFFFFFFFF].
Example ex_f32 : forallb (agree_at DF32) f32_specials = true. Proof. vm_compute. reflexivity. Qed.
Example ex_f64 : forallb (agree_at DF64) f64_specials = true. Proof. vm_compute. reflexivity. Qed.

(* the actual images:  +0.0  -0.0  1.0  -1.0  +inf  -inf  +qNaN  -qNaN  +NaN(max)  -NaN(max) *)
Example ex_f32_to_unsigned :
  map (ops_to_unsigned DF32)
    [0x00000000; 0x80000000; 0x3F800000; 0xBF800000; 0x7F800000; 0xFF800000;
     0x7FC00000; 0xFFC00000; 0x7FFFFFFF; 0xFFFFFFFF]
  = [0x80000000; 0x7FFFFFFF; 0xBF800000; 0x407FFFFF; 0xFF800000; 0x007FFFFF;
     0xFFC00000; 0x003FFFFF; 0xFFFFFFFF; 0x00000000]%N.
Proof. vm_compute. reflexivity. Qed.
Example ex_f32_to_signed :
  map (ops_to_signed DF32) [0x00000000; 0x80000000; 0x7F800000; 0xFF800000; 0x7FC00000; 0xFFC00000; 0xFFFFFFFF]
  = [0; -2147483648; 2139095040; -8388608; 2143289344; -4194304; -1].
Proof. vm_compute. reflexivity. Qed.
Example ex_f64_to_unsigned :
  map (ops_to_unsigned DF64)
    [0x0000000000000000; 0x8000000000000000; 0x7FF0000000000000; 0xFFF0000000000000;
     0x7FF8000000000000; 0xFFF8000000000000; 0xFFFFFFFFFFFFFFFF]
  = [0x8000000000000000; 0x7FFFFFFFFFFFFFFF; 0xFFF0000000000000; 0x000FFFFFFFFFFFFF;
     0xFFF8000000000000; 0x0007FFFFFFFFFFFF; 0x0000000000000000]%N.
Proof. vm_compute. reflexivity. Qed.
Example ex_i16_to_unsigned :
  map (ops_to_unsigned DI16) [-32768; -1; 0; 1; 32767] = [0; 32767; 32768; 32769; 65535]%N.
Proof. vm_compute. reflexivity. Qed.
Example ex_i16_to_bytes :
  map (ops_to_bytes DI16) [-32768; -1; 0; 1; 32767]
  = [Ok [128; 0]; Ok [255; 255]; Ok [0; 0]; Ok [0; 1]; Ok [127; 255]]%N.
Proof. vm_compute. reflexivity. Qed.
Example ex_u16_to_signed :
  map (ops_to_signed DU16) [0; 1; 32767; 32768; 65535] = [-32768; -32767; -1; 0; 32767].
Proof. vm_compute. reflexivity. Qed.
Example ex_bool_from_unsigned :
  map (ops_from_unsigned DBool) [0; 1; 2; 255]%N = [0; 1; 1; 1].
Proof. vm_compute. reflexivity. Qed.
Example ex_bool_from_bytes :
  map (ops_from_bytes DBool) [[0]; [1]; [2]; [255]; []; [0; 0]]%N
  = [Ok 0; Ok 1; Ok 1; Ok 1; Panic; Panic].
Proof. vm_compute. reflexivity. Qed.

(* TimestampNanos96: MIN / MAX as computed by the word operations *)
Example ex_ts96_consts :
  (dec 128 (ts96_MIN 1000000000), dec 128 (ts96_MAX 1000000000),
   dec 128 (ts96_MIN 1000000), dec 128 (ts96_MAX 1000000))
  = (-9223372036854775808000000000, 9223372036854775807999999999,
     -9223372036854775808000000, 9223372036854775807999999).
Proof. vm_compute. reflexivity. Qed.
(* to_bytes: earliest, latest, i128::MAX (checked subtraction overflows), MIN - 1 (wraps to ff..ff) *)
Example ex_ts96_to_bytes :
  map (ops_to_bytes DTsNanos96)
    [ts96_min DTsNanos96; ts96_max DTsNanos96; 2 ^ 127 - 1; ts96_min DTsNanos96 - 1]
  = [Ok [0; 0; 0; 0; 0; 0; 0; 0; 0; 0; 0; 0];
     Ok [0x3B; 0x9A; 0xC9; 255; 255; 255; 255; 255; 255; 255; 255; 255];
     Panic;
     Ok [255; 255; 255; 255; 255; 255; 255; 255; 255; 255; 255; 255]]%N.
Proof. vm_compute. reflexivity. Qed.
(* from_bytes: earliest, latest, latest + 1 (rejected by Self::new), all ones, 11 bytes *)
Example ex_ts96_from_bytes :
  map (ops_from_bytes DTsNanos96)
    [repeat 0 12; [0x3B; 0x9A; 0xC9; 255; 255; 255; 255; 255; 255; 255; 255; 255];
     [0x3B; 0x9A; 0xCA; 0; 0; 0; 0; 0; 0; 0; 0; 0]; repeat 255 12; repeat 0 11]%N
  = [Ok (ts96_min DTsNanos96); Ok (ts96_max DTsNanos96);
     Err InvalidArgument; Err InvalidArgument; Panic].
Proof. vm_compute. reflexivity. Qed.

(* words / bytes side: 0, 1, the sign bit and its neighbours, all ones *)
Definition word_bounds (w : N) : list N :=
  [0; 1; 2 ^ (w - 1) - 1; 2 ^ (w - 1); 2 ^ (w - 1) + 1; 2 ^ w - 2; 2 ^ w - 1]%N.
Example ex_words :
  forallb (fun d => forallb (agree_u d) (word_bounds (ubits d))) all_dtypes = true.
Proof. vm_compute. reflexivity. Qed.
(* from_bytes of the 96-bit timestamps on 96-bit words (ubits is 128 there) *)
Example ex_words96 :
  forallb (fun d => forallb (agree_u d)
     (word_bounds 96 ++ map (fun z => Z.to_N (z - ts96_min d)) [ts96_min d; ts96_max d; ts96_max d + 1]))
    [DTsMicros96; DTsNanos96] = true.
Proof. vm_compute. reflexivity. Qed.
Example ex_signed :
  forallb (fun d =>
     let bs := match d with DBool => [0; 1] | _ => int_bounds (Z.of_N (ubits d)) end in
     forallb (fun a => forallb (agree_s d a) bs) bs) all_dtypes = true.
Proof. vm_compute. reflexivity. Qed.

(* ================================================================== *)
Print Assumptions ops_to_unsigned_eq.
Print Assumptions ops_from_unsigned_eq.
Print Assumptions ops_to_signed_eq.
Print Assumptions ops_from_signed_eq.
Print Assumptions ops_to_bytes_eq.
Print Assumptions ops_from_bytes_eq.
Print Assumptions ops_from_bytes_wrong_length.
Print Assumptions ops_s_add_eq.
Print Assumptions ops_s_sub_eq.
Print Assumptions ops_is_valid96_eq.
Print Assumptions float_to_unsigned_arith.
Print Assumptions float_from_unsigned_arith.
Print Assumptions sext_dec.
