(* NoPanicL.v — corrupt or hostile bytes never panic any decode entry point.
   The reader model produces Panic exactly at the arithmetic hazard points of the real
   code.  We show that no sequence of operations, with arbitrary byte payloads, reaches
   one: a state invariant [sane] (every table prefix well formed, counters ordered) holds
   initially, is preserved by every operation, and excludes every hazard. *)
From QCo.Lemmas Require Import Tactics BitsL DTypeL CodecL ReaderL TruncL.
From QCo.Model Require Import Base Consts DType Codec Reader.
Open Scope N_scope.

(* ================= 1. decoders without any hazard point ================= *)

Lemma bind_np {A B} (r : res A) (k : A -> res B) :
  r <> Panic -> (forall a, r = Ok a -> k a <> Panic) -> bind r k <> Panic.
Proof.
  intros H1 H2. destruct r as [a|e|]; cbn [bind]; [apply H2; reflexivity|discriminate|congruence].
Qed.

Lemma get1_np s : get1 s <> Panic.
Proof. destruct s; cbn; discriminate. Qed.

Lemma get_bits_np n s : get_bits n s <> Panic.
Proof. unfold get_bits. destruct (take_bits _ _); discriminate. Qed.

Create HintDb np.
Local Hint Resolve get_not_panic get1_np get_bits_np : np.

(* split a goal [e <> Panic] along the binds / matches of e *)
Ltac np1 :=
  match goal with
  | |- bind _ _ <> Panic => apply bind_np; [|intros ? ?]
  | |- (match ?x with _ => _ end) <> Panic => destruct x eqn:?
  | |- Ok _ <> Panic => discriminate
  | |- Err _ <> Panic => discriminate
  end.
Ltac np := repeat np1; auto with np.

Lemma read_flag_payload_np fuel : forall acc s, read_flag_payload fuel acc s <> Panic.
Proof. induction fuel as [|f IH]; intros acc s; cbn [read_flag_payload]; np. Qed.

Lemma flags_of_payload_np p : flags_of_payload p <> Panic.
Proof. unfold flags_of_payload. cbv zeta. np. Qed.

Lemma parse_flags_np s : parse_flags s <> Panic.
Proof.
  unfold parse_flags. np; [apply read_flag_payload_np|apply flags_of_payload_np].
Qed.

Lemma read_varint_cont_np left : forall i acc s, read_varint_cont left i acc s <> Panic.
Proof. induction left as [|l IH]; intros i acc s; cbn [read_varint_cont]; np. Qed.

Lemma read_varint_np j s : read_varint j s <> Panic.
Proof. unfold read_varint. np. apply read_varint_cont_np. Qed.

Lemma read_gcd_np range s : read_gcd range s <> Panic.
Proof. intros H. pose proof (read_gcd_sound range s) as S. rewrite H in S. exact S. Qed.

Lemma of_bytes_np d bs : of_bytes d bs <> Panic.
Proof. unfold of_bytes. cbv zeta. np. Qed.

Lemma read_num_np d s : read_num d s <> Panic.
Proof. unfold read_num. np. apply of_bytes_np. Qed.

Lemma read_unum_np d s : read_unum d s <> Panic.
Proof. unfold read_unum. np. apply read_num_np. Qed.

Lemma read_moments_np sd cnt : forall s, read_moments sd cnt s <> Panic.
Proof.
  induction cnt as [|c IH]; intros s; cbn [read_moments]; np. apply read_num_np.
Qed.

Local Hint Resolve read_varint_np read_gcd_np read_num_np read_unum_np read_moments_np
  parse_flags_np : np.

Lemma read_prefix_list_np f pd n common cnt : forall s,
  read_prefix_list f pd n common cnt s <> Panic.
Proof. induction cnt as [|c IH]; intros s; cbn [read_prefix_list]; np. Qed.

Lemma read_prefixes_np f pd n s : read_prefixes f pd n s <> Panic.
Proof. unfold read_prefixes. np. apply read_prefix_list_np. Qed.

Lemma drain_pad_np s : drain_pad s <> Panic.
Proof. unfold drain_pad. cbv zeta. np. Qed.

Local Hint Resolve read_prefixes_np drain_pad_np : np.

Lemma parse_meta_np f d s : parse_meta f d s <> Panic.
Proof. unfold parse_meta. np. Qed.

Lemma read_aligned_np bit n s : read_aligned bit n s <> Panic.
Proof. unfold read_aligned. np. Qed.

Local Hint Resolve parse_meta_np read_aligned_np : np.

Lemma read_header_np d bit s : read_header d bit s <> Panic.
Proof. unfold read_header. np. Qed.

Lemma read_chunk_meta_np d f bit s : read_chunk_meta d f bit s <> Panic.
Proof. unfold read_chunk_meta. np. Qed.

Lemma new_cbd_np f m : new_cbd f m <> Panic.
Proof. unfold new_cbd. cbv zeta. np. Qed.

Lemma read_code_at_np tb ps s : read_code_at tb ps s <> Panic.
Proof. intros H. pose proof (read_code_at_fail tb ps s) as F. rewrite H in F. exact F. Qed.

(* ================= 2. parsed metadata is sane ================= *)

Definition sane_prefix (w : N) (p : prefix) : Prop :=
  p_gcd p >= 1 /\ p_lower p <= p_upper p /\ p_upper p <= umax w.

(* --- a raw number read from the stream has an unsigned image below 2^ubits --- *)
Lemma bits_val_acc_bound : forall l acc,
  bits_val_acc acc l < (acc + 1) * 2 ^ Nlen l.
Proof.
  induction l as [|b t IH]; intros acc; cbn [bits_val_acc].
  - change (2 ^ Nlen (@nil bool)) with 1. lia.
  - rewrite Nlen_cons, N.pow_add_r, N.pow_1_r.
    specialize (IH (2 * acc + N.b2n b)).
    set (P := 2 ^ Nlen t) in *. clearbody P.
    apply N.lt_le_trans with (1 := IH).
    replace ((acc + 1) * (2 * P)) with ((2 * acc + 2) * P) by lia.
    apply N.mul_le_mono_r. destruct b; cbn [N.b2n]; lia.
Qed.

Lemma bits_val_bound l : bits_val l < 2 ^ Nlen l.
Proof. unfold bits_val. pose proof (bits_val_acc_bound l 0). lia. Qed.

Lemma bits_to_bytes_fuel_range fuel : forall s,
  Forall (fun b => b < 256) (bits_to_bytes_fuel fuel s).
Proof.
  induction fuel as [|f IH]; intros s; cbn [bits_to_bytes_fuel]; [constructor|].
  destruct s as [|b t]; [constructor|]. cbv zeta. constructor; [|apply IH].
  set (c := firstn 8 (b :: t)).
  assert (L : Nlen (c ++ repeat false (8 - length c)) = 8).
  { unfold Nlen. rewrite app_length, repeat_length.
    assert (length c <= 8)%nat by (unfold c; apply firstn_le_length). lia. }
  pose proof (bits_val_bound (c ++ repeat false (8 - length c))) as B.
  rewrite L in B. exact B.
Qed.

Lemma bits_to_bytes_fuel_len fuel : forall s,
  (8 * length (bits_to_bytes_fuel fuel s) <= length s + 7)%nat.
Proof.
  induction fuel as [|f IH]; intros s; cbn [bits_to_bytes_fuel length]; [lia|].
  destruct s as [|b t]; [cbn [length]; lia|]. cbv zeta. cbn [length].
  specialize (IH (skipn 8 (b :: t))). rewrite skipn_length in IH. cbn [length] in IH. lia.
Qed.

Lemma be_val_acc_bound : forall bs acc, Forall (fun b => b < 256) bs ->
  be_val_acc acc bs < (acc + 1) * 2 ^ (8 * Nlen bs).
Proof.
  induction bs as [|b t IH]; intros acc F; cbn [be_val_acc].
  - change (8 * Nlen (@nil N)) with 0. change (2 ^ 0) with 1. lia.
  - inversion F as [|? ? Hb Ft]; subst.
    rewrite Nlen_cons, N.mul_add_distr_l, N.pow_add_r. change (2 ^ (8 * 1)) with 256.
    specialize (IH (256 * acc + b) Ft).
    set (P := 2 ^ (8 * Nlen t)) in *. clearbody P. nia.
Qed.

Lemma be_val_bits_to_bytes (bl : bits) (ph : N) :
  ph mod 8 = 0 -> Nlen bl = ph -> be_val (bits_to_bytes bl) < 2 ^ ph.
Proof.
  intros Hm HL. unfold bits_to_bytes.
  pose proof (bits_to_bytes_fuel_range (S (length bl)) bl) as R.
  pose proof (bits_to_bytes_fuel_len (S (length bl)) bl) as L.
  set (bs := bits_to_bytes_fuel _ _) in *. clearbody bs.
  unfold be_val. pose proof (be_val_acc_bound bs 0 R) as B.
  apply N.lt_le_trans with (2 ^ (8 * Nlen bs)); [lia|].
  apply N.pow_le_mono_r; [lia|]. unfold Nlen in *. lia.
Qed.

Lemma phys_mod8 d : phys d mod 8 = 0.
Proof. destruct d; reflexivity. Qed.

Lemma of_bytes_to_u_bound d bs x :
  be_val bs < 2 ^ phys d -> of_bytes d bs = Ok x -> to_u d x < 2 ^ ubits d.
Proof.
  unfold of_bytes. cbv zeta. set (v := be_val bs). clearbody v.
  destruct d; cbn [kind]; unfold_phys; intros Hv H;
    try (destruct (valid _ _) eqn:V; [|discriminate]);
    inversion H; subst x; clear H; unfold_dt; repeat destr_if; lia.
Qed.

Lemma take_bits_taken n : forall s h r, take_bits n s = Some (h, r) -> length h = n.
Proof.
  induction n as [|n IH]; intros s h r H; cbn [take_bits] in H.
  - inversion H. reflexivity.
  - destruct s as [|b t]; [discriminate|].
    destruct (take_bits n t) as [[h0 r0]|] eqn:E; [|discriminate].
    inversion H; subst. cbn [length]. f_equal. eapply IH. exact E.
Qed.

Lemma get_bits_taken n s h r : get_bits n s = Ok (h, r) -> Nlen h = n.
Proof.
  unfold get_bits. destruct (take_bits (N.to_nat n) s) as [[h0 r0]|] eqn:E; [|discriminate].
  intros H. inversion H; subst. apply take_bits_taken in E. unfold Nlen. lia.
Qed.

Lemma read_unum_bound pd s u s' : read_unum pd s = Ok (u, s') -> u <= umax (ubits pd).
Proof.
  unfold read_unum, read_num. intros H.
  destruct (get_bits (phys pd) s) as [[bl s1]|k|] eqn:G; cbn [bind] in H; try discriminate.
  destruct (of_bytes pd (bits_to_bytes bl)) as [x|k|] eqn:O; cbn [bind] in H; try discriminate.
  inversion H; subst u s'; clear H.
  apply get_bits_taken in G. rename G into HL.
  pose proof (of_bytes_to_u_bound pd _ x (be_val_bits_to_bytes bl _ (phys_mod8 pd) HL) O) as B.
  unfold umax, pow2. lia.
Qed.

(* --- every prefix of a parsed table is well formed --- *)
Lemma read_prefix_list_sane f pd n common :
  (forall g, common = Some g -> g >= 1) ->
  forall cnt s ps r, read_prefix_list f pd n common cnt s = Ok (ps, r) ->
  Forall (sane_prefix (ubits pd)) ps.
Proof.
  intros Hc. induction cnt as [|c IH]; intros s ps r H; cbn [read_prefix_list] in H.
  - inversion H. constructor.
  - destruct (get (count_bits f n) s) as [[count s1]|k|]; cbn [bind] in H; try discriminate.
    destruct (read_unum pd s1) as [[lo s2]|k|] eqn:Elo; cbn [bind] in H; try discriminate.
    destruct (read_unum pd s2) as [[up s3]|k|] eqn:Eup; cbn [bind] in H; try discriminate.
    destruct (up <? lo) eqn:Elu; [discriminate|]. apply N.ltb_ge in Elu.
    destruct (get (code_len_bits f) s3) as [[cl s4]|k|]; cbn [bind] in H; try discriminate.
    destruct (get_bits cl s4) as [[code s5]|k|]; cbn [bind] in H; try discriminate.
    destruct (get1 s5) as [[hasj s6]|k|]; cbn [bind] in H; try discriminate.
    match type of H with bind ?j _ = _ => destruct j as [[jump s7]|k|] end;
      cbn [bind] in H; try discriminate.
    match type of H with bind ?j _ = _ => destruct j as [[g s8]|k|] eqn:Eg end;
      cbn [bind] in H; try discriminate.
    destruct (read_prefix_list f pd n common c s8) as [[rest s9]|k|] eqn:Er;
      cbn [bind] in H; try discriminate.
    inversion H; subst ps r; clear H. constructor; [|eapply IH; exact Er].
    unfold sane_prefix. cbn [p_gcd p_lower p_upper].
    split; [|split; [exact Elu|eapply read_unum_bound; exact Eup]].
    destruct common as [g0|].
    + inversion Eg; subst. apply Hc. reflexivity.
    + pose proof (read_gcd_sound (up - lo) s7) as S. rewrite Eg in S. lia.
Qed.

Lemma read_prefixes_sane f pd n s ps r :
  read_prefixes f pd n s = Ok (ps, r) -> Forall (sane_prefix (ubits pd)) ps.
Proof.
  unfold read_prefixes. intros H.
  destruct (get Consts.BITS_TO_ENCODE_N_PREFIXES s) as [[np s1]|k|]; cbn [bind] in H;
    try discriminate.
  match type of H with bind ?j _ = _ => destruct j as [[common s2]|k|] eqn:Ec end;
    cbn [bind] in H; try discriminate.
  eapply read_prefix_list_sane; [|exact H].
  intros g ->. destruct (fgcd f).
  - destruct (get1 s1) as [[b s2']|k|]; cbn [bind] in Ec; try discriminate.
    destruct b; [|discriminate].
    pose proof (read_gcd_sound (umax (ubits pd)) s2') as S.
    destruct (read_gcd (umax (ubits pd)) s2') as [[g0 s3]|k|]; cbn [bind] in Ec;
      try discriminate.
    inversion Ec; subst. lia.
  - inversion Ec. lia.
Qed.

Theorem parse_meta_sane f d s m r :
  parse_meta f d s = Ok (m, r) -> Forall (sane_prefix (ubits (pdt f d))) (m_table m).
Proof.
  unfold parse_meta. intros H.
  destruct (get Consts.BITS_TO_ENCODE_N_ENTRIES s) as [[n s1]|k|]; cbn [bind] in H;
    try discriminate.
  destruct (get Consts.BITS_TO_ENCODE_COMPRESSED_BODY_SIZE s1) as [[body s2]|k|];
    cbn [bind] in H; try discriminate.
  match type of H with bind ?j _ = _ => destruct j as [[mo s3]|k|] end;
    cbn [bind] in H; try discriminate.
  destruct (read_prefixes f (pdt f d) n s3) as [[ps s4]|k|] eqn:E; cbn [bind] in H;
    try discriminate.
  destruct (drain_pad s4) as [s5|k|]; cbn [bind] in H; try discriminate.
  inversion H; subst. cbn [m_table]. eapply read_prefixes_sane. exact E.
Qed.

Lemma read_chunk_meta_sane d f bit s m r :
  read_chunk_meta d f bit s = Ok (Some m, r) ->
  Forall (sane_prefix (ubits (pdt f d))) (m_table m).
Proof.
  unfold read_chunk_meta. intros H.
  destruct (read_aligned bit 1 s) as [[mb s1]|k|]; cbn [bind] in H; try discriminate.
  destruct (list_eqb N.eqb mb [Consts.MAGIC_TERMINATION_BYTE]); [discriminate|].
  destruct (negb _); [discriminate|].
  destruct (parse_meta f d s1) as [[m0 s2]|k|] eqn:E; cbn [bind] in H; try discriminate.
  inversion H; subst. eapply parse_meta_sane. exact E.
Qed.

(* ================= 3. number blocks: no hazard, and exact counts ================= *)

Lemma read_offsets_count w p : forall reps s l r st,
  read_offsets w p reps s = (l, r, st) ->
  Nlen l <= N.of_nat reps /\ (st = SOk -> Nlen l = N.of_nat reps).
Proof.
  induction reps as [|n IH]; intros s l r st H; cbn [read_offsets] in H.
  - inversion H; subst. rewrite Nlen_nil. split; [lia|reflexivity].
  - destruct (read_offset w p s) as [[u s1]|k|].
    + destruct (read_offsets w p n s1) as [[l1 s2] st1] eqn:E.
      inversion H; subst. destruct (IH _ _ _ _ E) as [A B].
      rewrite Nlen_cons. split; [lia|]. intros Hs. specialize (B Hs). lia.
    + inversion H; subst. rewrite Nlen_nil. split; [lia|discriminate].
    + inversion H; subst. rewrite Nlen_nil. split; [lia|discriminate].
Qed.

Lemma read_offsets_np w p reps s l r st :
  sane_prefix w p -> read_offsets w p reps s = (l, r, st) -> st <> SPanic.
Proof.
  intros (Hg & Hlu & Hu) H.
  pose proof (read_offsets_no_panic w p reps s Hg Hlu Hu) as NP. rewrite H in NP. exact NP.
Qed.

Ltac four := split; [|split; [|split]].

Lemma read_blocks_facts w tb ps :
  Forall (sane_prefix w) ps -> table_ok ps = true ->
  forall fuel room s l r inc st, read_blocks fuel w tb ps room s = (l, r, inc, st) ->
  st <> SPanic /\ Nlen l <= room
  /\ (st = SOk -> room <= N.of_nat fuel -> Nlen l = room)
  /\ (forall p k, inc = Some (p, k) -> sane_prefix w p).
Proof.
  intros HF Hok. induction fuel as [|f IH]; intros room s l r inc st H; cbn [read_blocks] in H.
  - inversion H; subst. rewrite Nlen_nil.
    four; try discriminate; try lia.
  - destruct (room =? 0) eqn:R0.
    { apply N.eqb_eq in R0. inversion H; subst. rewrite Nlen_nil.
      four; try discriminate; try lia. }
    apply N.eqb_neq in R0.
    destruct (read_code_at tb ps s) as [[p s1]|k|] eqn:RC.
    2:{ inversion H; subst. rewrite Nlen_nil. four; try discriminate; try lia. }
    2:{ exfalso. exact (read_code_at_np _ _ _ RC). }
    destruct (read_code_at_sound _ _ _ _ _ Hok RC) as [Hin _].
    assert (Sp : sane_prefix w p) by (rewrite Forall_forall in HF; apply HF; exact Hin).
    destruct (p_jump p) as [j|].
    + destruct (read_varint j s1) as [[v s2]|k|] eqn:RV.
      2:{ inversion H; subst. rewrite Nlen_nil. four; try discriminate; try lia. }
      2:{ exfalso. exact (read_varint_np _ _ RV). }
      cbv zeta in H.
      destruct (read_offsets w p (N.to_nat (N.min (v + 1) room)) s2) as [[l0 s3] st0] eqn:RO.
      pose proof (read_offsets_np _ _ _ _ _ _ _ Sp RO) as NP0.
      destruct (read_offsets_count _ _ _ _ _ _ _ RO) as [C1 C2]. rewrite N2Nat.id in C1, C2.
      destruct st0 as [|k|]; [| |congruence].
      * specialize (C2 eq_refl).
        destruct (room <? v + 1) eqn:RF.
        -- apply N.ltb_lt in RF. inversion H; subst.
           four; try discriminate; try lia.
           intros p0 k0 E. inversion E; subst. exact Sp.
        -- apply N.ltb_ge in RF.
           destruct (read_blocks f w tb ps (room - N.min (v + 1) room) s3)
             as [[[l' s4] inc'] st'] eqn:RB.
           inversion H; subst. destruct (IH _ _ _ _ _ _ RB) as (A & B & C & D).
           rewrite Nlen_app. four; try assumption; try lia.
      * destruct l0 as [|u0 t0].
        -- inversion H; subst. rewrite Nlen_nil. four; try discriminate; try lia.
        -- inversion H; subst. four; try discriminate; try lia.
           intros p0 k0 E. inversion E; subst. exact Sp.
    + destruct (read_offsets w p 1 s1) as [[l0 s2] st0] eqn:RO.
      pose proof (read_offsets_np _ _ _ _ _ _ _ Sp RO) as NP0.
      destruct (read_offsets_count _ _ _ _ _ _ _ RO) as [C1 C2].
      change (N.of_nat 1) with 1 in C1, C2.
      destruct st0 as [|k|]; [| |congruence].
      * specialize (C2 eq_refl).
        destruct (read_blocks f w tb ps (room - 1) s2) as [[[l' s3] inc'] st'] eqn:RB.
        inversion H; subst. destruct (IH _ _ _ _ _ _ RB) as (A & B & C & D).
        rewrite Nlen_app. four; try assumption; try lia.
      * inversion H; subst. rewrite Nlen_nil. four; try discriminate; try lia.
Qed.

Definition sane_inc (w : N) (inc : option (prefix * N)) : Prop :=
  forall p k, inc = Some (p, k) -> sane_prefix w p.

Theorem read_batch_facts w tb ps n_left inc limit eoi s :
  Forall (sane_prefix w) ps -> table_ok ps = true -> sane_inc w inc ->
  let out := read_batch w tb ps n_left inc limit eoi s in
  b_status out <> SPanic /\ Nlen (b_nums out) <= n_left
  /\ (b_status out = SOk -> b_finished out = true -> Nlen (b_nums out) = n_left)
  /\ sane_inc w (b_incomplete out).
Proof.
  intros HF Hok Hinc. unfold read_batch. cbv zeta.
  destruct (N.min n_left limit =? 0) eqn:B0.
  { apply N.eqb_eq in B0. cbn [b_status b_nums b_finished b_incomplete]. rewrite Nlen_nil.
    four; try discriminate; try lia; try exact Hinc. }
  apply N.eqb_neq in B0.
  destruct inc as [[p remaining]|].
  - assert (Sp : sane_prefix w p) by (eapply Hinc; reflexivity).
    destruct (read_offsets w p (N.to_nat (N.min remaining (N.min n_left limit))) s)
      as [[l s1] st] eqn:RO.
    pose proof (read_offsets_np _ _ _ _ _ _ _ Sp RO) as NP0.
    destruct (read_offsets_count _ _ _ _ _ _ _ RO) as [C1 C2]. rewrite N2Nat.id in C1, C2.
    assert (Hinc1 : sane_inc w (if remaining - Nlen l =? 0 then None
                                else Some (p, remaining - Nlen l))).
    { intros p0 k0 E. destruct (_ =? 0); [discriminate|]. inversion E; subst. exact Sp. }
    destruct st as [|k|]; [| |congruence].
    + specialize (C2 eq_refl).
      destruct (read_blocks (N.to_nat (N.min n_left limit - Nlen l)) w tb ps
                  (N.min n_left limit - Nlen l) s1) as [[[l2 s2] inc2] st2] eqn:RB.
      destruct (read_blocks_facts w tb ps HF Hok _ _ _ _ _ _ _ RB) as (A & B & C & D).
      rewrite N2Nat.id in C.
      assert (Hinc2 : sane_inc w (match inc2 with Some _ => inc2 | None =>
                 if remaining - Nlen l =? 0 then None else Some (p, remaining - Nlen l) end)).
      { destruct inc2 as [[q kq]|]; [|exact Hinc1].
        intros p0 k0 E. inversion E; subst. eapply D. reflexivity. }
      destruct st2 as [|k|]; [| |congruence].
      * cbn [b_status b_nums b_finished b_incomplete]. rewrite Nlen_app.
        four; try discriminate; try lia; try exact Hinc2.
      * destruct k, eoi; cbn [b_status b_nums b_finished b_incomplete]; rewrite Nlen_app;
          (four; try discriminate; try lia; try exact Hinc2).
    + destruct k, eoi; cbn [b_status b_nums b_finished b_incomplete];
        (four; try discriminate; try lia; try exact Hinc1).
  - destruct (read_blocks (N.to_nat (N.min n_left limit)) w tb ps (N.min n_left limit) s)
      as [[[l s1] inc1] st] eqn:RB.
    destruct (read_blocks_facts w tb ps HF Hok _ _ _ _ _ _ _ RB) as (A & B & C & D).
    rewrite N2Nat.id in C.
    destruct st as [|k|]; [| |congruence].
    + cbn [b_status b_nums b_finished b_incomplete].
      four; try discriminate; try lia; try exact D.
    + destruct k, eoi; cbn [b_status b_nums b_finished b_incomplete];
        (four; try discriminate; try lia; try exact D).
Qed.

(* ================= 4. the chunk body decompressor ================= *)

(* w = ubits of the prefix type.  The two counter conditions exclude the two
   subtraction hazards: n - n_processed, and (in delta mode) total - nums_processed. *)
Definition cbd_sane (w : N) (c : cbd) : Prop :=
  Forall (sane_prefix w) (c_table c) /\ table_ok (c_table c) = true
  /\ sane_inc w (nd_incomplete (c_nd c))
  /\ nd_nproc (c_nd c) <= c_n c
  /\ c_numsproc c + c_n c <= nd_nproc (c_nd c) + c_total c.

Lemma nd_batch_facts w tb c limit eoi s : cbd_sane w c ->
  match nd_batch w tb c limit eoi s with
  | Panic => False
  | Err _ => True
  | Ok (us, fin, nd', s1) =>
      nd_nproc nd' = nd_nproc (c_nd c) + Nlen us /\ nd_nproc nd' <= c_n c
      /\ (fin = true -> nd_nproc nd' = c_n c) /\ sane_inc w (nd_incomplete nd')
  end.
Proof.
  intros (HF & Hok & Hinc & Hn & Ht). unfold nd_batch. cbv zeta.
  destruct (c_n c <? nd_nproc (c_nd c)) eqn:E; [apply N.ltb_lt in E; lia|]. clear E.
  pose proof (read_batch_facts w tb (c_table c) (c_n c - nd_nproc (c_nd c))
                (nd_incomplete (c_nd c)) limit eoi s HF Hok Hinc) as B.
  cbv zeta in B. set (out := read_batch _ _ _ _ _ _ _ _) in *. clearbody out.
  destruct B as (B1 & B2 & B3 & B4).
  destruct (b_status out) as [|k|]; [|exact I|congruence].
  specialize (B3 eq_refl).
  match goal with |- match bind ?r _ with _ => _ end =>
    assert (NP : r <> Panic) by (destruct (b_finished out); [apply drain_pad_np|discriminate]);
    destruct r as [s1|k|]; cbn [bind]; [|exact I|congruence] end.
  destruct (b_finished out && _); [exact I|].
  cbn [nd_nproc nd_incomplete].
  four; try reflexivity; try lia; try exact B4.
Qed.

Theorem cbd_batch_facts d f tb c limit eoi s : cbd_sane (ubits (pdt f d)) c ->
  match cbd_batch d f tb c limit eoi s with
  | Panic => False
  | Err _ => True
  | Ok (_, _, c', _) => cbd_sane (ubits (pdt f d)) c'
  end.
Proof.
  intros S. pose proof (nd_batch_facts (ubits (pdt f d)) tb c limit eoi s S) as NB.
  destruct S as (HF & Hok & Hinc & Hn & Ht).
  unfold cbd_batch. cbv zeta.
  destruct (nd_batch (ubits (pdt f d)) tb c limit eoi s) as [[[[us fin] nd'] s1]|k|];
    cbn [bind]; [|exact I|exact NB].
  destruct NB as (N1 & N2 & N3 & N4).
  destruct (ford f =? 0).
  - unfold cbd_sane. cbn [c_table c_nd c_n c_numsproc c_total].
    split; [exact HF|]. split; [exact Hok|]. split; [exact N4|]. lia.
  - destruct (c_total c <? c_numsproc c) eqn:E; [apply N.ltb_lt in E; lia|]. clear E.
    destruct (reconstruct d _ (c_moments c) _) as [xs ms'].
    unfold cbd_sane. cbn [c_table c_nd c_n c_numsproc c_total].
    split; [exact HF|]. split; [exact Hok|]. split; [exact N4|]. split; [exact N2|].
    destruct fin; [specialize (N3 eq_refl)|]; lia.
Qed.

Lemma new_cbd_sane f m w c :
  Forall (sane_prefix w) (m_table m) -> new_cbd f m = Ok c -> cbd_sane w c.
Proof.
  intros HF H. pose proof (new_cbd_table_ok f m c H) as Hok.
  unfold new_cbd in H. cbv zeta in H.
  destruct (is_nil (m_table m) && _); [discriminate|].
  destruct (negb _); [discriminate|]. inversion H; subst c; clear H.
  unfold cbd_sane in *. cbn [c_table c_nd c_n c_numsproc c_total nd_incomplete nd_nproc] in *.
  split; [exact HF|]. split; [exact Hok|]. split; [intros p k E; discriminate|]. lia.
Qed.

(* ================= 5. the state invariant ================= *)

Definition sane (d : dtype) (st : rstate) : Prop :=
  match r_cbd st with
  | None => True
  | Some c => exists f, r_flags st = Some f /\ cbd_sane (ubits (pdt f d)) c
  end.

Lemma sane_init d : sane d r_init.
Proof. exact I. Qed.

Lemma sane_same d st st' :
  r_flags st' = r_flags st -> r_cbd st' = r_cbd st -> sane d st -> sane d st'.
Proof. unfold sane. intros E1 E2. rewrite E1, E2. auto. Qed.

Lemma sane_none d st : r_cbd st = None -> sane d st.
Proof. unfold sane. intros ->. exact I. Qed.

Lemma sane_some d st f c :
  r_flags st = Some f -> r_cbd st = Some c -> cbd_sane (ubits (pdt f d)) c -> sane d st.
Proof. unfold sane. intros E1 E2 S. rewrite E2. exists f. split; assumption. Qed.

Lemma sane_inv d st f c :
  sane d st -> r_flags st = Some f -> r_cbd st = Some c -> cbd_sane (ubits (pdt f d)) c.
Proof.
  unfold sane. intros S E1 E2. rewrite E2 in S. destruct S as (f' & E & S).
  rewrite E1 in E. inversion E; subst. exact S.
Qed.

Lemma sane_noflags d st : sane d st -> r_flags st = None -> r_cbd st = None.
Proof.
  unfold sane. intros S E. destruct (r_cbd st); [|reflexivity].
  destruct S as (f & E' & _). congruence.
Qed.

Lemma next_meta_sane d st f : sane d st -> r_flags st = Some f ->
  sane d (fst (next_meta d st f)) /\ snd (next_meta d st f) <> ROPanic.
Proof.
  intros S Hf. unfold next_meta.
  destruct (read_chunk_meta d f (r_bit st) (stream st)) as [[[m|] s']|k|] eqn:E.
  - pose proof (read_chunk_meta_sane _ _ _ _ _ _ E) as HF.
    destruct (new_cbd f m) as [c|k|] eqn:NC.
    + cbn [fst snd]. split; [|discriminate].
      eapply sane_some; cbn [r_flags r_cbd]; [exact Hf|reflexivity|].
      eapply new_cbd_sane; eassumption.
    + cbn [fst snd]. split; [exact S|discriminate].
    + exfalso. exact (new_cbd_np _ _ NC).
  - cbn [fst snd]. split; [apply sane_none; reflexivity|discriminate].
  - destruct k; cbn [fst snd]; (split; [exact S|discriminate]).
  - exfalso. exact (read_chunk_meta_np _ _ _ _ E).
Qed.

Lemma r_step_sane d st o : sane d st ->
  sane d (fst (r_step d st o)) /\ snd (r_step d st o) <> ROPanic.
Proof.
  intros S. destruct o; unfold r_step.
  - (* RWrite *) cbn [fst snd]. split; [|discriminate]. eapply sane_same; [| |exact S]; reflexivity.
  - (* RHeader *)
    destruct (r_term st); [cbn [fst snd]; split; [exact S|discriminate]|].
    destruct (r_flags st) as [f|] eqn:Hf; [cbn [fst snd]; split; [exact S|discriminate]|].
    destruct (read_header d (r_bit st) (stream st)) as [[f s']|k|] eqn:E.
    + cbn [fst snd]. split; [|discriminate]. apply sane_none. cbn [r_cbd].
      apply (sane_noflags d st S Hf).
    + cbn [fst snd]. split; [exact S|discriminate].
    + exfalso. exact (read_header_np _ _ _ E).
  - (* RMeta *)
    destruct (r_term st); [cbn [fst snd]; split; [exact S|discriminate]|].
    destruct (r_flags st) as [f|] eqn:Hf; [|cbn [fst snd]; split; [exact S|discriminate]].
    destruct (r_cbd st) as [c|] eqn:Hc; [cbn [fst snd]; split; [exact S|discriminate]|].
    destruct (read_chunk_meta d f (r_bit st) (stream st)) as [[[m|] s']|k|] eqn:E.
    + pose proof (read_chunk_meta_sane _ _ _ _ _ _ E) as HF.
      destruct (new_cbd f m) as [c|k|] eqn:NC.
      * cbn [fst snd]. split; [|discriminate].
        eapply sane_some; cbn [r_flags r_cbd]; [first [exact Hf|reflexivity]|reflexivity|].
        eapply new_cbd_sane; eassumption.
      * cbn [fst snd]. split; [exact S|discriminate].
      * exfalso. exact (new_cbd_np _ _ NC).
    + cbn [fst snd]. split; [|discriminate]. apply sane_none. exact Hc.
    + cbn [fst snd]. split; [exact S|discriminate].
    + exfalso. exact (read_chunk_meta_np _ _ _ _ E).
  - (* RBody *)
    destruct (r_term st); [cbn [fst snd]; split; [exact S|discriminate]|].
    destruct (r_flags st) as [f|] eqn:Hf; [|cbn [fst snd]; split; [exact S|discriminate]].
    destruct (r_cbd st) as [c|] eqn:Hc; [|cbn [fst snd]; split; [exact S|discriminate]].
    pose proof (cbd_batch_facts d f (total_bits st) c (pow2 64 - 1) true (stream st)
                  (sane_inv d st f c S Hf Hc)) as CB.
    destruct (cbd_batch d f (total_bits st) c (pow2 64 - 1) true (stream st))
      as [[[[xs fin] c'] s']|k|].
    + cbn [fst snd]. split; [apply sane_none; reflexivity|discriminate].
    + cbn [fst snd]. split; [exact S|discriminate].
    + contradiction.
  - (* RSkip *)
    destruct (r_term st); [cbn [fst snd]; split; [exact S|discriminate]|].
    destruct (r_cbd st) as [c|] eqn:Hc; [|cbn [fst snd]; split; [exact S|discriminate]].
    destruct (_ <? _); [cbn [fst snd]; split; [exact S|discriminate]|]. cbv zeta.
    destruct (_ <=? _); cbn [fst snd]; (split; [|discriminate]);
      [apply sane_none; reflexivity|exact S].
  - (* RNext *)
    destruct (r_term st); [cbn [fst snd]; split; [exact S|discriminate]|].
    destruct (r_flags st) as [f|] eqn:Hf.
    + destruct (r_cbd st) as [c|] eqn:Hc; [|apply next_meta_sane; assumption].
      pose proof (cbd_batch_facts d f (total_bits st) c limit false (stream st)
                    (sane_inv d st f c S Hf Hc)) as CB.
      destruct (cbd_batch d f (total_bits st) c limit false (stream st))
        as [[[[xs fin] c'] s']|k|].
      * destruct (is_nil xs).
        -- destruct fin; [|cbn [fst snd]; split; [exact S|discriminate]].
           match goal with |- context [next_meta d ?st' f] =>
             pose proof (next_meta_sane d st' f (sane_none d st' eq_refl) eq_refl) as NM;
             destruct (next_meta d st' f) as [st2 out] end.
           cbn [fst snd] in NM. destruct NM as [NM1 NM2].
           destruct out; cbn [fst snd]; (split; [first [exact NM1|exact S]|]);
             first [discriminate|exact NM2].
        -- cbn [fst snd]. split; [|discriminate]. destruct fin.
           ++ apply sane_none. reflexivity.
           ++ eapply sane_some; cbn [r_flags r_cbd]; [first [exact Hf|reflexivity]|reflexivity|exact CB].
      * cbn [fst snd]. split; [exact S|discriminate].
      * contradiction.
    + destruct (read_header d (r_bit st) (stream st)) as [[f s']|k|] eqn:E.
      * cbn [fst snd]. split; [|discriminate]. apply sane_none. cbn [r_cbd].
        apply (sane_noflags d st S Hf).
      * destruct k; cbn [fst snd]; (split; [exact S|discriminate]).
      * exfalso. exact (read_header_np _ _ _ E).
  - (* RFree *) cbv zeta. cbn [fst snd]. split; [|discriminate].
    eapply sane_same; [| |exact S]; reflexivity.
  - (* RSimple *) cbn [fst snd]. split; [exact S|discriminate].
Qed.

(* ================= 6. simple_decompress and the main theorem ================= *)

(* simple_loop / simple_decompress turn an unexpected kind of output into Panic; the
   three steps they use only produce the expected kinds *)
Lemma r_step_header_shape d st :
  match snd (r_step d st RHeader) with ROFlags _ | ROErr _ | ROPanic => True | _ => False end.
Proof. unfold r_step. brk; exact I. Qed.

Lemma r_step_meta_shape d st :
  match snd (r_step d st RMeta) with ROMeta _ | ROErr _ | ROPanic => True | _ => False end.
Proof. unfold r_step. brk; exact I. Qed.

Lemma r_step_body_shape d st :
  match snd (r_step d st RBody) with RONums _ | ROErr _ | ROPanic => True | _ => False end.
Proof. unfold r_step. brk; exact I. Qed.

Lemma simple_loop_sane d : forall fuel st acc, sane d st ->
  sane d (fst (simple_loop fuel d st acc)) /\ snd (simple_loop fuel d st acc) <> Panic.
Proof.
  induction fuel as [|fuel IH]; intros st acc S; cbn [simple_loop].
  - cbn [fst snd]. split; [exact S|discriminate].
  - pose proof (r_step_sane d st RMeta S) as [S1 NP1].
    pose proof (r_step_meta_shape d st) as SH1.
    destruct (r_step d st RMeta) as [st1 o1]. cbn [fst snd] in *.
    destruct o1 as [|?|m|?|?| |k|]; try contradiction;
      [|cbn [fst snd]; split; [exact S|discriminate]].
    destruct m as [m|]; [|cbn [fst snd]; split; [exact S1|discriminate]].
    pose proof (r_step_sane d st1 RBody S1) as [S2 NP2].
    pose proof (r_step_body_shape d st1) as SH2.
    destruct (r_step d st1 RBody) as [st2 o2]. cbn [fst snd] in *.
    destruct o2 as [|?|?|xs|?| |k|]; try contradiction;
      [apply IH; exact S2|cbn [fst snd]; split; [exact S|discriminate]].
Qed.

Lemma simple_decompress_sane d st : sane d st ->
  sane d (fst (simple_decompress d st)) /\ snd (simple_decompress d st) <> Panic.
Proof.
  intros HS. unfold simple_decompress.
  pose proof (r_step_sane d st RHeader HS) as [S1 NP1].
  pose proof (r_step_header_shape d st) as SH1.
  destruct (r_step d st RHeader) as [st1 o1]. cbn [fst snd] in *.
  destruct o1 as [|f|?|?|?| |k|]; try contradiction;
    [|cbn [fst snd]; split; [exact HS|discriminate]].
  pose proof (simple_loop_sane d (S (length (r_bytes st))) st1 [] S1) as [S2 NP2].
  destruct (simple_loop (S (length (r_bytes st))) d st1 []) as [st2 [xs|k|]];
    cbn [fst snd] in *; [split; [exact S2|discriminate]|split; [exact HS|discriminate]|congruence].
Qed.

Theorem r_do_sane d st o : sane d st ->
  sane d (fst (r_do d st o)) /\ snd (r_do d st o) <> ROPanic.
Proof.
  intros S. destruct o; try (apply r_step_sane; exact S).
  unfold r_do. pose proof (simple_decompress_sane d st S) as [S1 NP].
  destruct (simple_decompress d st) as [st' [xs|k|]]; cbn [fst snd] in *;
    [split; [exact S1|discriminate]|split; [exact S1|discriminate]|congruence].
Qed.

Theorem r_run_sane d : forall ops st, sane d st ->
  sane d (fst (r_run d st ops)) /\ Forall (fun o => o <> ROPanic) (snd (r_run d st ops)).
Proof.
  induction ops as [|o t IH]; intros st S; cbn [r_run].
  - cbn [fst snd]. split; [exact S|constructor].
  - pose proof (r_do_sane d st o S) as [S1 NP].
    destruct (r_do d st o) as [st1 out]. cbn [fst snd] in *.
    specialize (IH st1 S1). destruct (r_run d st1 t) as [st2 outs]. cbn [fst snd] in *.
    destruct IH as [S2 F]. split; [exact S2|constructor; assumption].
Qed.

(* No sequence of decompressor calls, with any bytes whatever written in, reaches one of
   the arithmetic hazards. *)
Theorem no_panic : forall d ops, Forall (fun o => o <> ROPanic) (snd (r_run d r_init ops)).
Proof. intros d ops. apply (r_run_sane d ops r_init (sane_init d)). Qed.

(* the one-shot entry point and the iterator, on arbitrary bytes *)
Corollary decode_file_no_panic d bytes : decode_file d bytes <> Panic.
Proof.
  unfold decode_file. apply simple_decompress_sane. apply sane_none. reflexivity.
Qed.

Lemma drain_iter_sane d limit : forall fuel st, sane d st ->
  sane d (fst (drain_iter fuel d limit st))
  /\ Forall (fun o => o <> ROPanic) (snd (drain_iter fuel d limit st)).
Proof.
  induction fuel as [|fuel IH]; intros st S; cbn [drain_iter].
  - cbn [fst snd]. split; [exact S|constructor].
  - pose proof (r_step_sane d st (RNext limit) S) as [S1 NP].
    destruct (r_step d st (RNext limit)) as [st1 out]. cbn [fst snd] in *.
    destruct out; try congruence;
      try (cbn [fst snd]; split; [exact S1|repeat constructor; discriminate]);
      (specialize (IH st1 S1); destruct (drain_iter fuel d limit st1) as [st2 outs];
       cbn [fst snd] in *; destruct IH as [S2 F]; split; [exact S2|constructor; [discriminate|exact F]]).
Qed.

Corollary drain_iter_no_panic d limit fuel bytes :
  Forall (fun o => o <> ROPanic) (snd (drain_iter fuel d limit (mkR bytes 0 None None false))).
Proof. apply drain_iter_sane. apply sane_none. reflexivity. Qed.

Print Assumptions parse_meta_sane.
Print Assumptions read_batch_facts.
Print Assumptions cbd_batch_facts.
Print Assumptions r_do_sane.
Print Assumptions no_panic.
Print Assumptions decode_file_no_panic.
Print Assumptions drain_iter_no_panic.
