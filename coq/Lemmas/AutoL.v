(* AutoL.v — "automatic configuration is total": for every sequence (including the empty
   one) and every level the chooser returns, without panicking, a configuration with that
   level and a delta order in 0..=7; and the rule by which the order is chosen. *)
From QCo.Lemmas Require Import Tactics WriterL.
From QCo.Model Require Import Base Consts DType Codec Writer Auto.
Open Scope N_scope.

(* ------------------------------------------------------------------ *)
(* 0. the trial compression                                            *)
(* ------------------------------------------------------------------ *)

Lemma auto_head_eq xs : auto_head xs = firstn 1000 xs.
Proof. reflexivity. Qed.

Lemma trial_cfg_eq level order : trial_cfg level order = mkWcfg (N.min level 6) order false.
Proof. reflexivity. Qed.

Lemma auto_head_nonempty xs : xs <> [] -> auto_head xs <> [].
Proof. destruct xs; [congruence | rewrite auto_head_eq; cbn; discriminate]. Qed.

Lemma auto_head_len xs : Nlen (auto_head xs) <= 1000.
Proof.
  unfold Nlen, auto_head. rewrite firstn_length.
  change (N.to_nat Consts.AUTO_DELTA_LIMIT) with 1000%nat. lia.
Qed.

(* the trial's arguments always pass Compressor::chunk's validation *)
Lemma trial_args_ok d level order head :
  head <> [] -> Nlen head <= 16777215 ->
  chunk_args_ok (trial_cfg level order) d head = true.
Proof.
  intros Hne Hlen. apply chunk_args_ok_spec. split; [exact Hne|]. right.
  split; [|exact Hlen]. unfold trial_cfg; cbn [w_level].
  assert (Hmax : Consts.MAX_AUTO_DELTA_COMPRESSION_LEVEL <= Consts.MAX_COMPRESSION_LEVEL) by (apply N.leb_le; vm_compute; reflexivity).
  change Consts.MAX_COMPRESSION_LEVEL with 12 in Hmax. lia.
Qed.

(* a trial is Ok or Panic, never Err *)
Lemma trial_never_errs table_of d level order head k :
  trial table_of d level order head <> Err k.
Proof.
  unfold trial.
  destruct (w_step _ d w_init WHeader) as [st1 o1].
  destruct (wout_fails o1); [discriminate|].
  destruct (w_step _ d st1 _) as [st2 o2].
  destruct (wout_fails o2); [discriminate|].
  cbn [w_step snd]. discriminate.
Qed.

(* exact outcome of a trial whose header and chunk payload can be written *)
Lemma trial_ok table_of d level order head hb m bs :
  head <> [] -> Nlen head <= 16777215 ->
  header_bytes d (cfg_flags (trial_cfg level order)) = Ok hb ->
  chunk_payload d (cfg_flags (trial_cfg level order)) (table_of order) head = Ok (m, bs) ->
  trial table_of d level order head
  = Ok (Nlen (hb ++ [Consts.MAGIC_CHUNK_BYTE] ++ bs)).
Proof.
  intros Hne Hlen Hh Hp. unfold trial.
  unfold w_step at 1. cbn [w_init w_hdr w_ftr orb]. rewrite Hh. cbn [wout_fails].
  unfold w_step at 1. cbn [w_hdr w_ftr negb orb].
  rewrite (trial_args_ok d level order head Hne Hlen). cbn [negb].
  rewrite Hp. cbn [wout_fails w_step snd w_pending app]. reflexivity.
Qed.

(* a trial succeeds exactly when the order is encodable and the payload can be written *)
Theorem trial_ok_iff : forall table_of d level order head,
  head <> [] -> Nlen head <= 16777215 ->
  ((exists s, trial table_of d level order head = Ok s) <->
   order <= 7 /\
   exists m bs,
     chunk_payload d (cfg_flags (trial_cfg level order)) (table_of order) head = Ok (m, bs)).
Proof.
  intros table_of d level order head Hne Hlen. split.
  - intros [s H]. unfold trial in H.
    unfold w_step at 1 in H. cbn [w_init w_hdr w_ftr orb] in H.
    destruct (header_bytes d (cfg_flags (trial_cfg level order))) as [hb|k|] eqn:Hh;
      cbn [wout_fails] in H; try discriminate.
    split.
    { change order with (ford (cfg_flags (trial_cfg level order))).
      apply (header_bytes_ok_iff d). eauto. }
    unfold w_step at 1 in H. cbn [w_hdr w_ftr negb orb] in H.
    rewrite (trial_args_ok d level order head Hne Hlen) in H. cbn [negb] in H.
    destruct (chunk_payload d (cfg_flags (trial_cfg level order)) (table_of order) head)
      as [[m bs]|k|]; cbn [wout_fails] in H; try discriminate.
    eauto.
  - intros [Ho (m & bs & Hp)].
    assert (Hh : exists hb, header_bytes d (cfg_flags (trial_cfg level order)) = Ok hb).
    { apply header_bytes_ok_iff. exact Ho. }
    destruct Hh as [hb Hh]. eexists. eapply trial_ok; eauto.
Qed.

(* ------------------------------------------------------------------ *)
(* 1. the loop                                                         *)
(* ------------------------------------------------------------------ *)

Lemma auto_loop_S f n k bo bs :
  auto_loop f (S n) k bo bs =
  (do size <- f k;
   if improves size bs then auto_loop f n (k + 1) k (Some size) else Ok bo).
Proof. reflexivity. Qed.

(* the result is the incoming best order or one of the orders tried *)
Lemma auto_loop_range f : forall n k bo bs r,
  auto_loop f n k bo bs = Ok r -> r = bo \/ (k <= r /\ r < k + N.of_nat n).
Proof.
  induction n as [|n IH]; intros k bo bs r H.
  - cbn in H. inversion H. left; reflexivity.
  - rewrite auto_loop_S in H. destruct (f k) as [s| |]; cbn [bind] in H; try discriminate.
    destruct (improves s bs).
    + apply IH in H. right. destruct H as [H|H]; lia.
    + inversion H. left; reflexivity.
Qed.

(* the loop never fails when every trial it may run succeeds *)
Lemma auto_loop_total f : forall n k bo bs,
  (forall i, k <= i -> i < k + N.of_nat n -> exists s, f i = Ok s) ->
  exists r, auto_loop f n k bo bs = Ok r.
Proof.
  induction n as [|n IH]; intros k bo bs Hf.
  - eexists; reflexivity.
  - rewrite auto_loop_S. destruct (Hf k) as [s Hs]; try lia. rewrite Hs. cbn [bind].
    destruct (improves s bs); [|eexists; reflexivity].
    apply IH. intros i A B. apply Hf; lia.
Qed.

(* what the loop's answer means (forward): started at order k with a current best
   (bo, bsz), either the trial at k did not improve (answer bo), or the sizes strictly
   decreased from bsz through orders k..r and the loop ended (range exhausted) or the
   trial at r+1 did not improve *)
Lemma auto_loop_fwd f : forall n k bo bsz r,
  auto_loop f n k bo (Some bsz) = Ok r ->
  (r = bo /\ (n = 0%nat \/ exists s, f k = Ok s /\ bsz <= s)) \/
  (k <= r /\ r < k + N.of_nat n /\
   (forall i, k <= i -> i <= r -> exists s, f i = Ok s) /\
   (exists s, f k = Ok s /\ s < bsz) /\
   (forall i s s', k <= i -> i < r -> f i = Ok s -> f (i + 1) = Ok s' -> s' < s) /\
   (r + 1 = k + N.of_nat n \/ exists s s', f r = Ok s /\ f (r + 1) = Ok s' /\ s <= s')).
Proof.
  induction n as [|n IH]; intros k bo bsz r H.
  - cbn in H. inversion H. left. auto.
  - rewrite auto_loop_S in H. destruct (f k) as [s| |] eqn:Hk; cbn [bind] in H; try discriminate.
    cbn [improves] in H. destruct (N.ltb_spec s bsz) as [L|L].
    + right. apply IH in H. destruct H as [[-> Hstop] | (A & B & C & D & E & F)].
      * split; [lia|]. split; [lia|]. split; [|split; [|split]].
        -- intros i A B. assert (i = k) by lia. subst. eauto.
        -- eauto.
        -- intros; lia.
        -- destruct Hstop as [-> | (s' & Hs' & Hle)]; [left; lia|].
           right. exists s, s'. auto.
      * split; [lia|]. split; [lia|]. split; [|split; [|split]].
        -- intros i A' B'. destruct (N.eq_dec i k) as [->|]; [eauto|]. apply C; lia.
        -- eauto.
        -- intros i a a' A' B' Ha Ha'. destruct (N.eq_dec i k) as [->|].
           ++ destruct D as (s1 & Hs1 & Hlt). rewrite Hk in Ha. rewrite Hs1 in Ha'.
              inversion Ha; inversion Ha'; subst. exact Hlt.
           ++ apply (E i); auto; lia.
        -- destruct F as [F|F]; [left; lia | right; exact F].
    + inversion H; subst. left. split; [reflexivity|]. right. eauto.
Qed.

(* and backward *)
Lemma auto_loop_bwd f : forall n k bo bsz r,
  k <= r -> r < k + N.of_nat n ->
  (forall i, k <= i -> i <= r -> exists s, f i = Ok s) ->
  (exists s, f k = Ok s /\ s < bsz) ->
  (forall i s s', k <= i -> i < r -> f i = Ok s -> f (i + 1) = Ok s' -> s' < s) ->
  (r + 1 = k + N.of_nat n \/ exists s s', f r = Ok s /\ f (r + 1) = Ok s' /\ s <= s') ->
  auto_loop f n k bo (Some bsz) = Ok r.
Proof.
  induction n as [|n IH]; intros k bo bsz r A B C D E F; [lia|].
  rewrite auto_loop_S. destruct D as (s & Hk & Hlt). rewrite Hk. cbn [bind improves].
  destruct (N.ltb_spec s bsz) as [_|]; [|lia].
  destruct (N.eq_dec r k) as [->|Hne].
  - (* the loop must stop right after k *)
    destruct n as [|n]; [reflexivity|].
    destruct F as [F|(a & a' & Ha & Ha' & Hle)]; [lia|].
    rewrite auto_loop_S, Ha'. cbn [bind improves].
    rewrite Hk in Ha. inversion Ha; subst.
    destruct (N.ltb_spec a' a); [lia | reflexivity].
  - apply IH; try lia.
    + intros i A' B'. apply C; lia.
    + destruct (C (k + 1)) as [s1 Hs1]; try lia. exists s1. split; [exact Hs1|].
      apply (E k s s1); auto; lia.
    + intros i a a' A' B'. apply E; lia.
    + destruct F as [F|F]; [left; lia | right; exact F].
Qed.

(* ------------------------------------------------------------------ *)
(* 2. the chooser                                                      *)
(* ------------------------------------------------------------------ *)

Lemma auto_order_nil table_of d level : auto_order table_of d level [] = Ok 0.
Proof. reflexivity. Qed.

Lemma auto_order_cons table_of d level xs :
  xs <> [] ->
  auto_order table_of d level xs =
  (do s0 <- trial table_of d level 0 (auto_head xs);
   auto_loop (fun order => trial table_of d level order (auto_head xs)) 7 1 0 (Some s0)).
Proof. destruct xs; [congruence|]. intros _. reflexivity. Qed.

(* (1) the chosen order is a valid delta-encoding order *)
Theorem auto_order_range : forall table_of d level xs o,
  auto_order table_of d level xs = Ok o -> o <= 7.
Proof.
  intros table_of d level xs o H. destruct xs as [|x xs].
  - cbn in H. inversion H. lia.
  - rewrite auto_order_cons in H by discriminate.
    destruct (trial table_of d level 0 _) as [s0| |]; cbn [bind] in H; try discriminate.
    apply auto_loop_range in H. lia.
Qed.

(* the chooser never returns an error value: it returns or panics *)
Theorem auto_order_never_errs : forall table_of d level xs k,
  auto_order table_of d level xs <> Err k.
Proof.
  intros table_of d level xs k. destruct xs as [|x xs]; [discriminate|].
  unfold auto_order.
  generalize (auto_head (x :: xs)) USIZE_MAX (@None N) 0 8%nat.
  intros head bo bs ord n. revert ord bo bs.
  induction n as [|n IH]; intros ord bo bs; [discriminate|].
  rewrite auto_loop_S.
  destruct (trial table_of d level ord head) as [s|k'|] eqn:Ht; cbn [bind].
  - destruct (improves s bs); [apply IH | discriminate].
  - exfalso. eapply trial_never_errs; eauto.
  - discriminate.
Qed.

(* (2) totality *)
Theorem auto_total : forall table_of d level xs,
  (xs <> [] -> forall order, order <= 7 -> exists m bs,
     chunk_payload d (cfg_flags (mkWcfg (N.min level 6) order false)) (table_of order)
                   (firstn 1000 xs) = Ok (m, bs)) ->
  exists o, auto_order table_of d level xs = Ok o /\ o <= 7 /\
            auto_config table_of d level xs = Ok (level, o, true).
Proof.
  intros table_of d level xs Hp.
  assert (H : exists o, auto_order table_of d level xs = Ok o).
  { destruct xs as [|x xs]; [exists 0; reflexivity|].
    assert (Hne : x :: xs <> []) by discriminate. specialize (Hp Hne).
    unfold auto_order. apply auto_loop_total. intros i _ Hi.
    apply trial_ok_iff.
    - apply auto_head_nonempty; exact Hne.
    - pose proof (auto_head_len (x :: xs)). lia.
    - split; [lia|]. apply Hp. lia. }
  destruct H as [o H]. exists o. split; [exact H|]. split.
  - eapply auto_order_range; eauto.
  - unfold auto_config. rewrite H. reflexivity.
Qed.

(* the empty sequence needs no hypothesis at all *)
Corollary auto_total_nil : forall table_of d level,
  auto_order table_of d level [] = Ok 0 /\
  auto_config table_of d level [] = Ok (level, 0, true).
Proof. intros; split; reflexivity. Qed.

(* the form asked for: the payload hypothesis stated unconditionally *)
Corollary auto_total' : forall table_of d level xs,
  (forall order, order <= 7 -> exists m bs,
     chunk_payload d (cfg_flags (mkWcfg (N.min level 6) order false)) (table_of order)
                   (firstn 1000 xs) = Ok (m, bs)) ->
  exists o, auto_order table_of d level xs = Ok o /\ o <= 7 /\
            auto_config table_of d level xs = Ok (level, o, true).
Proof. intros table_of d level xs Hp. apply auto_total. intros _. exact Hp. Qed.

(* the configuration carries the requested level, whatever it is *)
Theorem auto_config_level : forall table_of d level xs l o g,
  auto_config table_of d level xs = Ok (l, o, g) ->
  l = level /\ g = true /\ o <= 7 /\ auto_order table_of d level xs = Ok o.
Proof.
  intros table_of d level xs l o g H. unfold auto_config in H.
  destruct (auto_order table_of d level xs) as [o'| |] eqn:E; cbn [bind] in H; try discriminate.
  inversion H; subst. repeat split. eapply auto_order_range; eauto.
Qed.

(* (3) the rule: o is returned exactly when every trial 0..o succeeded, the sizes
   strictly decrease along 0..o, and o = 7 or the trial at o+1 succeeded without
   improving on the one at o *)
Theorem auto_order_rule : forall table_of d level xs o,
  xs <> [] ->
  let size_of := fun order => trial table_of d level order (firstn 1000 xs) in
  (auto_order table_of d level xs = Ok o <->
   o <= 7 /\
   (forall i, i <= o -> exists s, size_of i = Ok s) /\
   (forall i s s', i < o -> size_of i = Ok s -> size_of (i + 1) = Ok s' -> s' < s) /\
   (o = 7 \/ exists s s', size_of o = Ok s /\ size_of (o + 1) = Ok s' /\ s <= s')).
Proof.
  intros table_of d level xs o Hne size_of.
  rewrite auto_order_cons by exact Hne. rewrite auto_head_eq. fold size_of.
  change (fun order => trial table_of d level order (firstn 1000 xs)) with size_of.
  change (trial table_of d level 0 (firstn 1000 xs)) with (size_of 0).
  split.
  - intros H. destruct (size_of 0) as [s0| |] eqn:H0; cbn [bind] in H; try discriminate.
    apply auto_loop_fwd in H.
    destruct H as [[-> Hstop] | (A & B & C & D & E & F)].
    + split; [lia|]. split; [|split].
      * intros i Hi. assert (i = 0) by lia. subst. eauto.
      * intros; lia.
      * destruct Hstop as [Hn | (s & Hs & Hle)]; [discriminate|].
        right. exists s0, s. auto.
    + split; [lia|]. split; [|split].
      * intros i Hi. destruct (N.eq_dec i 0) as [->|]; [eauto|]. apply C; lia.
      * intros i a a' Hi Ha Ha'. destruct (N.eq_dec i 0) as [->|].
        -- destruct D as (s1 & Hs1 & Hlt). change (0 + 1) with 1 in Ha'.
           rewrite H0 in Ha. rewrite Hs1 in Ha'. inversion Ha; inversion Ha'; subst. exact Hlt.
        -- apply (E i); auto; lia.
      * destruct F as [F|F]; [left; lia | right; exact F].
  - intros (Ho & C & E & F).
    destruct (C 0) as [s0 H0]; [lia|]. rewrite H0. cbn [bind].
    destruct (N.eq_dec o 0) as [->|Hpos].
    + destruct F as [F|(a & a' & Ha & Ha' & Hle)]; [discriminate|].
      change (0 + 1) with 1 in Ha'.
      change 7%nat with (S 6). rewrite auto_loop_S, Ha'. cbn [bind improves].
      rewrite H0 in Ha. inversion Ha; subst.
      destruct (N.ltb_spec a' a); [lia | reflexivity].
    + apply auto_loop_bwd; try lia.
      * intros i A B. apply C; lia.
      * destruct (C 1) as [s1 H1]; [lia|]. exists s1. split; [exact H1|].
        apply (E 0 s0 s1); auto; lia.
      * intros i a a' A B. apply E; lia.
      * destruct F as [F|F]; [left; lia | right; exact F].
Qed.

(* the same rule against a total list of trial sizes [sz 0 .. sz 7]: the answer is the
   first index o with sz (o+1) >= sz o, or 7 *)
Theorem auto_order_rule_sizes : forall table_of d level xs (sz : N -> N) o,
  xs <> [] ->
  (forall i, i <= 7 -> trial table_of d level i (firstn 1000 xs) = Ok (sz i)) ->
  (auto_order table_of d level xs = Ok o <->
   o <= 7 /\ (forall i, i < o -> sz (i + 1) < sz i) /\ (o = 7 \/ sz o <= sz (o + 1))).
Proof.
  intros table_of d level xs sz o Hne Hsz.
  rewrite (auto_order_rule table_of d level xs o Hne). cbv zeta. split.
  - intros (Ho & C & E & F). split; [exact Ho|]. split.
    + intros i Hi. apply (E i); try apply Hsz; lia.
    + destruct F as [F|(a & a' & Ha & Ha' & Hle)]; [left; exact F|].
      destruct (N.eq_dec o 7) as [->|]; [left; reflexivity|]. right.
      rewrite Hsz in Ha, Ha' by lia. inversion Ha; inversion Ha'; subst. exact Hle.
  - intros (Ho & E & F). split; [exact Ho|]. split; [|split].
    + intros i Hi. exists (sz i). apply Hsz; lia.
    + intros i a a' Hi Ha Ha'. rewrite Hsz in Ha, Ha' by lia.
      inversion Ha; inversion Ha'; subst. apply E; exact Hi.
    + destruct F as [F|F]; [left; exact F|].
      destruct (N.eq_dec o 7) as [->|]; [left; reflexivity|]. right.
      exists (sz o), (sz (o + 1)). repeat split; try apply Hsz; try lia.
Qed.

(* the rule determines the answer uniquely *)
Corollary auto_order_first_stop : forall table_of d level xs (sz : N -> N) o j,
  xs <> [] ->
  (forall i, i <= 7 -> trial table_of d level i (firstn 1000 xs) = Ok (sz i)) ->
  auto_order table_of d level xs = Ok o ->
  j < o -> sz (j + 1) < sz j.
Proof.
  intros table_of d level xs sz o j Hne Hsz H Hj.
  apply (auto_order_rule_sizes table_of d level xs sz o Hne Hsz) in H.
  destruct H as (_ & E & _). apply E; exact Hj.
Qed.

(* the chooser only looks at the first 1000 numbers *)
Theorem auto_order_head_only : forall table_of d level xs,
  auto_order table_of d level (firstn 1000 xs) = auto_order table_of d level xs.
Proof.
  intros table_of d level xs. destruct xs as [|x xs]; [reflexivity|].
  change (firstn 1000 (x :: xs)) with (x :: firstn 999 xs).
  unfold auto_order.
  replace (auto_head (x :: firstn 999 xs)) with (auto_head (x :: xs)); [reflexivity|].
  unfold auto_head. change (N.to_nat Consts.AUTO_DELTA_LIMIT) with 1000%nat.
  change (x :: firstn 999 xs) with (firstn 1000 (x :: xs)).
  rewrite firstn_firstn. reflexivity.
Qed.

Print Assumptions auto_order_range.
Print Assumptions auto_total.
Print Assumptions auto_total'.
Print Assumptions auto_config_level.
Print Assumptions auto_order_rule.
Print Assumptions auto_order_rule_sizes.
Print Assumptions trial_ok_iff.
Print Assumptions auto_order_head_only.
