(* BitsL.v — fixed-width put/get, bytes. *)
From QCo.Lemmas Require Import Tactics.
From QCo.Model Require Import Base.
Open Scope N_scope.

Lemma putn_length n x : length (putn n x) = n.
Proof. induction n; simpl; congruence. Qed.

Lemma put_length n x : Nlen (put n x) = n.
Proof. unfold Nlen, put. rewrite putn_length. lia. Qed.

Lemma b2n_testbit_split x m :
  x mod 2 ^ (N.succ m) = N.b2n (N.testbit x m) * 2 ^ m + x mod 2 ^ m.
Proof.
  rewrite N.testbit_spec' .
  rewrite N.pow_succ_r'.
  assert (Hp : 2 ^ m <> 0) by (apply N.pow_nonzero; lia).
  rewrite (N.mul_comm 2 (2 ^ m)).
  rewrite N.mod_mul_r by lia.
  lia.
Qed.

Lemma getn_acc_putn n : forall acc x s,
  getn_acc n acc (putn n x ++ s) = Some (acc * 2 ^ N.of_nat n + x mod 2 ^ N.of_nat n, s).
Proof.
  induction n as [|n IH]; intros acc x s.
  - simpl. rewrite N.mod_1_r. f_equal. f_equal. lia.
  - cbn [putn app getn_acc]. rewrite IH. f_equal. f_equal.
    rewrite Nat2N.inj_succ.
    rewrite (b2n_testbit_split x (N.of_nat n)).
    rewrite N.pow_succ_r'. 
    set (P := 2 ^ N.of_nat n). clearbody P.
    set (r := x mod P). clearbody r.
    destruct (N.testbit x (N.of_nat n)); simpl N.b2n; lia.
Qed.

Lemma getn_putn n x s : getn n (putn n x ++ s) = Some (x mod 2 ^ N.of_nat n, s).
Proof. unfold getn. rewrite getn_acc_putn. f_equal. Qed.

Lemma get_put n x s : get n (put n x ++ s) = Ok (x mod 2 ^ n, s).
Proof. unfold get, put. rewrite getn_putn, N2Nat.id. reflexivity. Qed.

Lemma get_put_small n x s : x < 2 ^ n -> get n (put n x ++ s) = Ok (x, s).
Proof. intros H. rewrite get_put, N.mod_small by exact H. reflexivity. Qed.

Lemma take_bits_app l s : take_bits (length l) (l ++ s) = Some (l, s).
Proof. induction l as [|b l IH]; simpl; [reflexivity|]. rewrite IH. reflexivity. Qed.

Lemma get_bits_app l s n : n = Nlen l -> get_bits n (l ++ s) = Ok (l, s).
Proof. intros ->. unfold get_bits, Nlen. rewrite Nat2N.id, take_bits_app. reflexivity. Qed.

Lemma bits_val_acc_putn n : forall acc x,
  bits_val_acc acc (putn n x) = acc * 2 ^ N.of_nat n + x mod 2 ^ N.of_nat n.
Proof.
  induction n as [|n IH]; intros acc x.
  - simpl. rewrite N.mod_1_r. lia.
  - cbn [putn bits_val_acc]. rewrite IH.
    rewrite Nat2N.inj_succ, (b2n_testbit_split x (N.of_nat n)), N.pow_succ_r'.
    set (P := 2 ^ N.of_nat n). clearbody P.
    set (r := x mod P). clearbody r.
    destruct (N.testbit x (N.of_nat n)); simpl N.b2n; lia.
Qed.

Lemma bits_val_putn n x : bits_val (putn n x) = x mod 2 ^ N.of_nat n.
Proof. unfold bits_val. rewrite bits_val_acc_putn. lia. Qed.

(* bytes <-> bits *)
Lemma bytes_to_bits_length bs : length (bytes_to_bits bs) = (8 * length bs)%nat.
Proof.
  induction bs as [|b bs IH]; [reflexivity|].
  unfold bytes_to_bits in *. cbn [flat_map]. rewrite app_length, IH.
  unfold byte_bits. rewrite putn_length. simpl. lia.
Qed.

Lemma bits_to_bytes_fuel_bytes bs : forall fuel,
  Forall (fun b => b < 256) bs -> (length bs < fuel)%nat ->
  bits_to_bytes_fuel fuel (bytes_to_bits bs) = bs.
Proof.
  induction bs as [|b bs IH]; intros fuel Hb Hf.
  - destruct fuel; reflexivity.
  - inversion Hb as [|? ? Hb1 Hb2]; subst.
    destruct fuel as [|fuel]; [simpl in Hf; lia|].
    unfold bytes_to_bits. cbn [flat_map]. fold (bytes_to_bits bs).
    unfold byte_bits. cbn [putn app bits_to_bytes_fuel firstn skipn length Nat.sub repeat].
    f_equal.
    + change ([N.testbit b (N.of_nat 7); N.testbit b (N.of_nat 6); N.testbit b (N.of_nat 5);
               N.testbit b (N.of_nat 4); N.testbit b (N.of_nat 3); N.testbit b (N.of_nat 2);
               N.testbit b (N.of_nat 1); N.testbit b (N.of_nat 0)]) with (putn 8 b).
      rewrite bits_val_putn. apply N.mod_small. exact Hb1.
    + apply IH; [exact Hb2 | simpl in Hf; lia].
Qed.

Lemma bits_to_bytes_bytes bs :
  Forall (fun b => b < 256) bs -> bits_to_bytes (bytes_to_bits bs) = bs.
Proof.
  intros H. unfold bits_to_bytes. apply bits_to_bytes_fuel_bytes; [exact H|].
  rewrite bytes_to_bits_length. lia.
Qed.

(* big-endian bytes *)
Lemma be_bytes_length nb x : length (be_bytes nb x) = nb.
Proof. induction nb; simpl; congruence. Qed.

Lemma be_bytes_range nb x : Forall (fun b => b < 256) (be_bytes nb x).
Proof.
  induction nb; simpl; constructor; [|assumption].
  apply N.mod_lt. lia.
Qed.

Lemma be_val_acc_be_bytes nb : forall acc x,
  be_val_acc acc (be_bytes nb x) = acc * 2 ^ (8 * N.of_nat nb) + x mod 2 ^ (8 * N.of_nat nb).
Proof.
  induction nb as [|nb IH]; intros acc x.
  - simpl. rewrite N.mod_1_r. lia.
  - cbn [be_bytes be_val_acc]. rewrite IH.
    rewrite N.shiftr_div_pow2.
    replace (8 * N.of_nat (S nb)) with (8 * N.of_nat nb + 8) by lia.
    rewrite N.pow_add_r.
    change (2 ^ 8) with 256.
    set (P := 2 ^ (8 * N.of_nat nb)).
    assert (HP : P <> 0) by (apply N.pow_nonzero; lia).
    rewrite (N.mod_mul_r x P 256) by lia.
    clearbody P. set (q := (x / P) mod 256). set (r := x mod P). clearbody q r. lia.
Qed.

Lemma be_val_be_bytes nb x : be_val (be_bytes nb x) = x mod 2 ^ (8 * N.of_nat nb).
Proof. unfold be_val. rewrite be_val_acc_be_bytes. lia. Qed.
