(* GrammarL.v — the reader model decodes every file of the grammar (Spec.v): for every
   well-formed AST [a], whatever legal choices it embodies, [decode_file] on the bytes of
   [enc_file a] returns [file_nums a]. *)
From QCo.Lemmas Require Import Tactics BitsL DTypeL DeltaL FlagsL CodecL MetaL BodyL HeaderL SpecL FileL.
From QCo.Model Require Import Base Consts Frozen DType Codec Reader Spec.
Open Scope N_scope.

(* ================================================================== *)
(* A. bridges: option-valued Spec readers vs res-valued Codec readers   *)
(* ================================================================== *)
Lemma get_rd n s r : get n s = Ok r <-> rd n s = Some r.
Proof.
  unfold get, rd. destruct (getn (N.to_nat n) s) as [r'|]; split; intros H;
    try discriminate; inversion H; reflexivity.
Qed.

Lemma get1_rd1 s r : get1 s = Ok r <-> rd1 s = Some r.
Proof.
  unfold get1, rd1. destruct s; split; intros H; try discriminate; inversion H; reflexivity.
Qed.

Lemma get_bits_rd_bits n s r : get_bits n s = Ok r <-> rd_bits n s = Some r.
Proof.
  unfold get_bits, rd_bits. destruct (take_bits (N.to_nat n) s) as [r'|]; split; intros H;
    try discriminate; inversion H; reflexivity.
Qed.

(* ---------------- 1. flags ---------------- *)
Definition zero7 : bits := repeat false 7.

Lemma enc_flags_tail_frame (l : list nat) :
  flat_map (fun _ => repeat false 7 ++ [true]) l ++ repeat false 8
  = frame (repeat zero7 (S (length l))).
Proof.
  induction l as [|a l IH]; [reflexivity|].
  cbn [flat_map length]. rewrite <- app_assoc, IH.
  change (repeat zero7 (S (S (length l)))) with (zero7 :: repeat zero7 (S (length l))).
  change (repeat zero7 (S (length l))) with (zero7 :: repeat zero7 (length l)).
  cbn [frame]. rewrite <- app_assoc. reflexivity.
Qed.

Lemma existsb_concat_zero7 k : existsb (fun b : bool => b) (concat (repeat zero7 k)) = false.
Proof. induction k as [|k IH]; [reflexivity|]. cbn [repeat concat]. rewrite existsb_app, IH. reflexivity. Qed.

Lemma Forall_repeat {A} (P : A -> Prop) x k : P x -> Forall P (repeat x k).
Proof. intros H. induction k; cbn [repeat]; constructor; assumption. Qed.

Theorem parse_enc_flags f extra s : ford f <= 7 ->
  parse_flags (enc_flags f extra ++ s) = Ok (f, s).
Proof.
  intros Ho. destruct f as [b5 ord bmin bgcd]. cbn [Codec.ford] in Ho.
  set (c0 := [b5; N.testbit ord 2; N.testbit ord 1; N.testbit ord 0; bmin; bgcd; false]).
  assert (E : enc_flags (mkFlags b5 ord bmin bgcd) extra = frame (c0 :: repeat zero7 extra)).
  { unfold enc_flags. cbn [Codec.f5 Codec.ford Codec.fmin Codec.fgcd].
    destruct extra as [|e].
    - reflexivity.
    - rewrite (enc_flags_tail_frame (seq 0 e)), seq_length.
      reflexivity. }
  rewrite E. rewrite parse_flags_frame.
  - unfold flags_of_payload. cbn [concat].
    change (skipn 6 (c0 ++ concat (repeat zero7 extra))) with (false :: concat (repeat zero7 extra)).
    cbn [existsb orb]. rewrite existsb_concat_zero7. cbn [bind].
    unfold nth_bit. cbn [c0 app nth].
    change [N.testbit ord 2; N.testbit ord 1; N.testbit ord 0] with (putn 3 ord).
    rewrite bits_val_putn. change (2 ^ N.of_nat 3) with 8.
    rewrite N.mod_small by lia. reflexivity.
  - split; [discriminate|]. constructor; [reflexivity|].
    apply Forall_repeat. reflexivity.
Qed.

(* ---------------- 2. varint ---------------- *)
Lemma enc_varint_pairs_cont l : forall x, enc_varint_pairs l x = varint_cont l x.
Proof.
  induction l as [|l IH]; intros x; [reflexivity|].
  cbn [enc_varint_pairs varint_cont]. rewrite IH, N.div2_div. reflexivity.
Qed.

Lemma enc_varint_write x j : enc_varint x j = write_varint x j.
Proof.
  unfold enc_varint, write_varint. rewrite enc_varint_pairs_cont, N.shiftr_div_pow2. reflexivity.
Qed.

Theorem read_enc_varint j x s : j <= 24 -> x < 2 ^ 24 ->
  read_varint j (enc_varint x j ++ s) = Ok (x, s).
Proof. intros Hj Hx. rewrite enc_varint_write. apply varint_roundtrip; assumption. Qed.

(* ---------------- 3. offsets ---------------- *)
Lemma putn_mod n : forall x, putn n (x mod 2 ^ N.of_nat n) = putn n x.
Proof.
  intros x. assert (G : forall m, (m <= n)%nat -> putn m (x mod 2 ^ N.of_nat n) = putn m x).
  { induction m as [|m IH]; intros Hm; [reflexivity|].
    cbn [putn]. rewrite IH by lia. f_equal. apply N.mod_pow2_bits_low. lia. }
  apply G. lia.
Qed.

Lemma put_mod k x : put k (x mod 2 ^ k) = put k x.
Proof. unfold put. rewrite <- (N2Nat.id k) at 2. apply putn_mod. Qed.

Lemma enc_offset_write r off : off <= r -> enc_offset r off = write_offset r off.
Proof.
  intros Hoff. unfold enc_offset, write_offset, k_of_range, pow2. cbv zeta.
  set (k := N.log2 (r + 1)).
  assert (Hk : 2 ^ k <= r + 1 < 2 ^ (k + 1)).
  { unfold k. rewrite N.add_1_r with (n := N.log2 (r + 1)). apply N.log2_spec. lia. }
  pose proof (pow2_pos k) as HP1.
  rewrite put_mod. f_equal.
  destruct (N.lt_ge_cases off (2 ^ k)) as [Hlo|Hhi].
  - rewrite (N.mod_small off (2 ^ k)) by exact Hlo.
    rewrite (testbit_low off k Hlo).
    rewrite N.pow_add_r, N.pow_1_r in Hk.
    set (P := 2 ^ k) in *. clearbody P.
    destruct (P <=? r - off) eqn:E3.
    + destruct ((off <? r - (P - 1)) || (P - 1 <? off)) eqn:E4; [|exfalso; lia].
      destruct (P <=? off) eqn:E5; [exfalso; lia|]. reflexivity.
    + destruct ((off <? r - (P - 1)) || (P - 1 <? off)) eqn:E4; [exfalso; lia|]. reflexivity.
  - assert (Hhi2 : 2 ^ k <= off < 2 ^ (k + 1)) by lia.
    destruct (high_div_mod off k Hhi2) as [_ Hmod]. rewrite Hmod.
    rewrite (testbit_high off k Hhi2).
    rewrite N.pow_add_r, N.pow_1_r in Hk.
    set (P := 2 ^ k) in *. clearbody P.
    destruct (P <=? r - (off - P)) eqn:E3; [|exfalso; lia].
    destruct ((off <? r - (P - 1)) || (P - 1 <? off)) eqn:E4; [|exfalso; lia].
    destruct (P <=? off) eqn:E5; [|exfalso; lia]. reflexivity.
Qed.

Lemma s_range_p_range p : s_range p = p_range p.
Proof. reflexivity. Qed.

Theorem read_enc_offset w p off s :
  p_gcd p >= 1 -> p_lower p <= p_upper p -> p_upper p <= umax w -> off <= s_range p ->
  read_offset w p (enc_offset (s_range p) off ++ s) = Ok (p_lower p + off * p_gcd p, s).
Proof.
  intros Hg Hlu Hu Hoff. rewrite enc_offset_write by exact Hoff.
  rewrite s_range_p_range in *. apply offset_roundtrip; assumption.
Qed.

(* ================================================================== *)
(* B1. a complete prefix-free code (Kraft sum 1) is a valid tree         *)
(* ================================================================== *)
Fixpoint kr (L : nat) (codes : list bits) : N :=
  match codes with
  | [] => 0
  | c :: t => kr L t + 2 ^ N.of_nat (L - length c)
  end.

Lemma kraft_fold_kr codes :
  fold_right (fun (c : bits) acc => acc + 2 ^ (32 - Nlen c)) 0 codes = kr 32 codes.
Proof.
  induction codes as [|c t IH]; [reflexivity|].
  cbn [fold_right kr]. rewrite IH. f_equal. f_equal. unfold Nlen. lia.
Qed.

Lemma In_tails_inv b d : forall codes, In d (tails_with b codes) -> In (b :: d) codes.
Proof.
  induction codes as [|c t IH]; intros H; [destruct H|].
  destruct c as [|x c]; cbn [tails_with] in H.
  - right. exact (IH H).
  - destruct (Bool.eqb x b) eqn:E.
    + apply Bool.eqb_prop in E. subst x. destruct H as [<-|H]; [left; reflexivity|right; exact (IH H)].
    + right. exact (IH H).
Qed.

Lemma pf_tails b : forall codes, prefix_free codes = true -> prefix_free (tails_with b codes) = true.
Proof.
  induction codes as [|c t IH]; intros H; [reflexivity|].
  cbn [prefix_free] in H. apply andb_true_iff in H. destruct H as [Hall Hpf].
  specialize (IH Hpf).
  destruct c as [|x c]; cbn [tails_with]; [exact IH|].
  destruct (Bool.eqb x b) eqn:E; [|exact IH].
  apply Bool.eqb_prop in E. subst x.
  cbn [prefix_free]. rewrite IH, andb_true_r.
  apply forallb_forall. intros d Hd. apply In_tails_inv in Hd.
  rewrite forallb_forall in Hall. specialize (Hall _ Hd).
  cbn [s_is_prefix] in Hall. rewrite Bool.eqb_reflx in Hall. exact Hall.
Qed.

Lemma s_is_prefix_nil_r c : s_is_prefix c [] = is_nil c.
Proof. destruct c; reflexivity. Qed.

Lemma pf_nil codes : prefix_free codes = true -> In [] codes -> codes = [[]].
Proof.
  destruct codes as [|c t]; intros H Hin; [destruct Hin|].
  cbn [prefix_free] in H. apply andb_true_iff in H. destruct H as [Hall _].
  rewrite forallb_forall in Hall.
  destruct c as [|x c].
  - destruct t as [|d t]; [reflexivity|].
    specialize (Hall d (or_introl eq_refl)). cbn [s_is_prefix negb andb] in Hall. discriminate.
  - destruct Hin as [Hin|Hin]; [discriminate|].
    specialize (Hall [] Hin). cbn [s_is_prefix negb andb] in Hall.
    discriminate.
Qed.

Lemma existsb_is_nil_true (codes : list bits) : existsb is_nil codes = true -> In [] codes.
Proof.
  intros H. apply existsb_exists in H. destruct H as (x & Hin & Hx).
  destruct x; [exact Hin|discriminate].
Qed.

Lemma kr_split L : forall codes, existsb is_nil codes = false ->
  kr (S L) codes = kr L (tails_with false codes) + kr L (tails_with true codes).
Proof.
  induction codes as [|c t IH]; intros H; [reflexivity|].
  cbn [existsb] in H. apply orb_false_iff in H. destruct H as [Hc Ht].
  destruct c as [|x c]; [discriminate|].
  cbn [kr tails_with length]. rewrite (IH Ht).
  replace (S L - S (length c))%nat with (L - length c)%nat by lia.
  destruct x; cbn [Bool.eqb kr]; lia.
Qed.

Lemma len_tails b L : forall codes,
  Forall (fun c : bits => (length c <= S L)%nat) codes ->
  Forall (fun c : bits => (length c <= L)%nat) (tails_with b codes).
Proof.
  induction codes as [|c t IH]; intros H; [constructor|].
  inversion H as [|? ? Hc Ht]; subst. specialize (IH Ht).
  destruct c as [|x c]; cbn [tails_with]; [exact IH|].
  destruct (Bool.eqb x b); [|exact IH]. constructor; [cbn [length] in Hc; lia|exact IH].
Qed.

Lemma kr_single L : kr L [[]] = 2 ^ N.of_nat L.
Proof. cbn [kr length]. rewrite Nat.sub_0_r. lia. Qed.

Lemma no_nil_len0 (codes : list bits) :
  existsb is_nil codes = false -> Forall (fun c : bits => (length c <= 0)%nat) codes -> codes = [].
Proof.
  destruct codes as [|c t]; intros H HF; [reflexivity|].
  inversion HF as [|? ? Hc _]; subst. destruct c; [discriminate|cbn [length] in Hc; lia].
Qed.

(* Kraft's inequality *)
Lemma kraft_le : forall L codes,
  Forall (fun c : bits => (length c <= L)%nat) codes -> prefix_free codes = true ->
  kr L codes <= 2 ^ N.of_nat L.
Proof.
  induction L as [|L IH]; intros codes HF Hpf;
    (destruct (existsb is_nil codes) eqn:E;
     [apply existsb_is_nil_true in E; rewrite (pf_nil codes Hpf E), kr_single; lia|]).
  - rewrite (no_nil_len0 codes E HF). cbn [kr]. lia.
  - rewrite (kr_split L codes E).
    pose proof (IH _ (len_tails false L codes HF) (pf_tails false codes Hpf)) as H0.
    pose proof (IH _ (len_tails true L codes HF) (pf_tails true codes Hpf)) as H1.
    rewrite Nat2N.inj_succ, N.pow_succ_r'.
    set (P := 2 ^ N.of_nat L) in *. clearbody P. lia.
Qed.

Lemma tree_ok_single fuel : tree_ok fuel [[]] = true.
Proof. destruct fuel; reflexivity. Qed.

Lemma tree_ok_step f (codes : list bits) : codes <> [] -> existsb is_nil codes = false ->
  tree_ok (S f) codes = tree_ok f (tails_with false codes) && tree_ok f (tails_with true codes).
Proof.
  intros Hne H. destruct codes as [|[|x c] t]; [congruence|discriminate|].
  cbn [tree_ok]. rewrite H. reflexivity.
Qed.

Lemma kraft_tree_ok : forall L codes fuel,
  Forall (fun c : bits => (length c <= L)%nat) codes ->
  Forall (fun c : bits => (length c <= fuel)%nat) codes ->
  prefix_free codes = true -> kr L codes = 2 ^ N.of_nat L ->
  tree_ok fuel codes = true.
Proof.
  induction L as [|L IH]; intros codes fuel HF Hfu Hpf Hk;
    (destruct (existsb is_nil codes) eqn:E;
     [apply existsb_is_nil_true in E; rewrite (pf_nil codes Hpf E); apply tree_ok_single|]).
  - rewrite (no_nil_len0 codes E HF) in Hk. cbn [kr] in Hk. change (2 ^ N.of_nat 0) with 1 in Hk. lia.
  - assert (Hne : codes <> []).
    { intros ->. cbn [kr] in Hk. pose proof (pow2_pos (N.of_nat (S L))). lia. }
    destruct fuel as [|f].
    { exfalso. destruct codes as [|c t]; [congruence|].
      inversion Hfu as [|? ? Hc _]; subst. cbn [existsb] in E. apply orb_false_iff in E.
      destruct c; [destruct E; discriminate|cbn [length] in Hc; lia]. }
    rewrite (tree_ok_step f codes Hne E).
    pose proof (kraft_le L _ (len_tails false L codes HF) (pf_tails false codes Hpf)) as H0.
    pose proof (kraft_le L _ (len_tails true L codes HF) (pf_tails true codes Hpf)) as H1.
    rewrite (kr_split L codes E) in Hk.
    rewrite Nat2N.inj_succ, N.pow_succ_r' in Hk.
    rewrite (IH (tails_with false codes) f), (IH (tails_with true codes) f); try reflexivity;
      try (apply len_tails; assumption); try (apply pf_tails; assumption).
    + set (P := 2 ^ N.of_nat L) in *. clearbody P. lia.
    + set (P := 2 ^ N.of_nat L) in *. clearbody P. lia.
Qed.

Lemma table_code_lens table : s_tree_ok table = true ->
  Forall (fun p => (length (p_code p) <= 31)%nat) table.
Proof.
  destruct table as [|p0 t]; [constructor|]. intros H.
  unfold s_tree_ok in H. apply andb_true_iff in H. destruct H as [H _].
  apply andb_true_iff in H. destruct H as [H _]. rewrite forallb_forall in H.
  apply Forall_forall. intros p Hp. specialize (H (p_code p) (in_map p_code _ _ Hp)).
  apply N.leb_le in H. unfold Nlen in H. lia.
Qed.

Theorem s_tree_ok_table_ok table : s_tree_ok table = true -> table_ok table = true.
Proof.
  intros H. pose proof (table_code_lens table H) as Hl.
  destruct table as [|p0 t]; [reflexivity|].
  unfold s_tree_ok in H. apply andb_true_iff in H. destruct H as [H Hpf].
  apply andb_true_iff in H. destruct H as [_ Hk].
  unfold kraft_ok in Hk. apply N.eqb_eq in Hk. rewrite kraft_fold_kr in Hk.
  unfold table_ok. apply (kraft_tree_ok 32).
  - apply Forall_forall. intros c Hc. apply in_map_iff in Hc. destruct Hc as (p & <- & Hp).
    rewrite Forall_forall in Hl. specialize (Hl p Hp). lia.
  - apply Forall_forall. intros c Hc. apply in_map_iff in Hc. destruct Hc as (p & <- & Hp).
    pose proof (max_code_len_In _ p Hp). lia.
  - exact Hpf.
  - exact Hk.
Qed.

Lemma s_tree_ok_max_len table : s_tree_ok table = true -> (max_code_len table <= 40)%nat.
Proof.
  intros H. pose proof (max_code_len_bound table 31 (table_code_lens table H)). lia.
Qed.

(* ================================================================== *)
(* B2. metadata: the Codec readers on the Spec encoders                  *)
(* ================================================================== *)
Lemma read_enc_unum pd u s : u_dom pd u -> valid pd (of_u pd u) = true ->
  read_unum pd (enc_unum pd u ++ s) = Ok (u, s).
Proof.
  intros Hd Hv. destruct (unum_roundtrip pd u Hd Hv) as (b & Hw & _ & Hr).
  assert (E : enc_unum pd u = b).
  { unfold enc_unum. unfold write_unum, write_num in Hw.
    destruct (to_bytes pd (of_u pd u)); cbn [bind] in Hw; inversion Hw; reflexivity. }
  rewrite E. apply Hr.
Qed.

Lemma read_enc_snum sd x s : valid sd x = true ->
  read_num sd (enc_snum sd x ++ s) = Ok (x, s).
Proof.
  intros Hv. destruct (num_roundtrip sd x Hv) as (b & Hw & _ & Hr).
  assert (E : enc_snum sd x = b).
  { unfold enc_snum. unfold write_num in Hw.
    destruct (to_bytes sd x); cbn [bind] in Hw; inversion Hw; reflexivity. }
  rewrite E. apply Hr.
Qed.

Lemma read_enc_moments sd ms : forall s,
  Forall (fun m => valid sd m = true) ms ->
  read_moments sd (length ms) (flat_map (enc_snum sd) ms ++ s) = Ok (ms, s).
Proof.
  induction ms as [|m ms IH]; intros s H; [reflexivity|].
  inversion H; subst. cbn [length flat_map read_moments].
  rewrite <- app_assoc, read_enc_snum by assumption. cbn [bind].
  rewrite IH by assumption. reflexivity.
Qed.

Lemma read_enc_gcd range g s : 1 <= g -> (g = 1 \/ g <= range) ->
  read_gcd range (enc_gcd range g ++ s) = Ok (g, s).
Proof.
  intros Hg Hor. change (enc_gcd range g) with (write_gcd range g).
  apply gcd_roundtrip; assumption.
Qed.

Lemma read_enc_prefix_list f pd n common table : forall s,
  Forall (SpecL.wf_prefix f pd n common) table ->
  read_prefix_list f pd n common (length table)
    (flat_map (enc_prefix f pd n common) table ++ s) = Ok (table, s).
Proof.
  induction table as [|p table IH]; intros s H; [reflexivity|].
  inversion H as [|? ? Hp Ht]; subst. specialize (IH s Ht).
  cbn [length flat_map read_prefix_list]. rewrite <- app_assoc.
  destruct p as [cnt lo up code jump g]. unfold SpecL.wf_prefix in Hp.
  cbn [Codec.p_count Codec.p_lower Codec.p_upper Codec.p_code Codec.p_jump Codec.p_gcd] in Hp.
  destruct Hp as (Hc & Hlu & Hd1 & Hv1 & Hd2 & Hv2 & _ & Hcl & Hj & Hg & Hcom).
  unfold enc_prefix at 1.
  cbn [Codec.p_count Codec.p_lower Codec.p_upper Codec.p_code Codec.p_jump Codec.p_gcd].
  change (s_count_bits f n) with (count_bits f n) in *.
  change (s_code_len_bits f) with (code_len_bits f) in *.
  rewrite <- !app_assoc.
  rewrite get_put_small by exact Hc. cbn [bind].
  rewrite read_enc_unum by assumption. cbn [bind].
  rewrite read_enc_unum by assumption. cbn [bind].
  destruct (up <? lo) eqn:E; [apply N.ltb_lt in E; lia|].
  rewrite get_put_small by exact Hcl. cbn [bind].
  rewrite get_bits_app by reflexivity. cbn [bind].
  change Frozen.BITS_TO_ENCODE_JUMPSTART with 5. change Consts.BITS_TO_ENCODE_JUMPSTART with 5.
  destruct jump as [j|]; cbn [app get1 bind].
  - rewrite get_put_small by (specialize (Hj j eq_refl); change (2 ^ 5) with 32; lia).
    cbn [bind]. destruct common as [g'|].
    + subst g'. cbn [app bind]. rewrite IH. reflexivity.
    + rewrite read_enc_gcd by assumption. cbn [bind]. rewrite IH. reflexivity.
  - destruct common as [g'|].
    + subst g'. cbn [app bind]. rewrite IH. reflexivity.
    + rewrite read_enc_gcd by assumption. cbn [bind]. rewrite IH. reflexivity.
Qed.

Lemma s_pdt_pdt f d : s_pdt f d = pdt f d.
Proof. reflexivity. Qed.

(* the metadata the reader obtains for a chunk of the grammar *)
Definition chunk_meta_of (c : schunk) : meta :=
  mkMeta (sc_n c) (Nlen (enc_body c) / 8) (sc_moments c) (sc_table c).

Theorem parse_enc_meta f d c rest : wf_chunk f d c -> Nlen rest mod 8 = 0 ->
  parse_meta f d (enc_chunk_tail f d c ++ rest) = Ok (chunk_meta_of c, enc_body c ++ rest).
Proof.
  unfold wf_chunk. cbv zeta.
  intros (Hn & Hml & Hmv & Htl & Htree & Hemp & Hcom & Hpre & Hblk & Htot & Hbsz) Hs.
  pose proof (enc_body_len c) as Hbl.
  unfold parse_meta, enc_chunk_tail. cbv zeta.
  set (body := enc_body c) in *.
  set (common := if fgcd f then sc_common c else Some 1) in *.
  rewrite s_pdt_pdt in *. set (pd := pdt f d) in *.
  unfold s_pad at 1. rewrite <- !app_assoc.
  change Frozen.BITS_TO_ENCODE_N_ENTRIES with 24.
  change Consts.BITS_TO_ENCODE_N_ENTRIES with 24.
  change Frozen.BITS_TO_ENCODE_COMPRESSED_BODY_SIZE with 32 in *.
  change Consts.BITS_TO_ENCODE_COMPRESSED_BODY_SIZE with 32.
  rewrite get_put_small by exact Hn. cbn [bind].
  rewrite get_put_small by exact Hbsz. cbn [bind].
  assert (Hmo : forall t,
    (if ford f =? 0 then Ok ([], flat_map (enc_snum (sdt d)) (sc_moments c) ++ t)
     else read_moments (sdt d) (N.to_nat (ford f)) (flat_map (enc_snum (sdt d)) (sc_moments c) ++ t))
    = Ok (sc_moments c, t)).
  { intros t. destruct (ford f =? 0) eqn:E0.
    - apply N.eqb_eq in E0. rewrite E0 in Hml. destruct (sc_moments c); [reflexivity|discriminate].
    - rewrite <- Hml. apply read_enc_moments. exact Hmv. }
  rewrite Hmo. cbn [bind]. clear Hmo.
  unfold read_prefixes.
  change Frozen.BITS_TO_ENCODE_N_PREFIXES with 15 in *.
  change Consts.BITS_TO_ENCODE_N_PREFIXES with 15.
  rewrite get_put_small by exact Htl. cbn [bind].
  assert (Hc : forall t,
    (if fgcd f
     then do '(b, s2) <- get1 ((if fgcd f then match sc_common c with
                                               | None => [false]
                                               | Some g => true :: enc_gcd (2 ^ ubits pd - 1) g
                                               end else []) ++ t);
          if b then do '(g, s3) <- read_gcd (umax (ubits pd)) s2; Ok (Some g, s3)
          else Ok (None, s2)
     else Ok (Some 1, (if fgcd f then match sc_common c with
                                       | None => [false]
                                       | Some g => true :: enc_gcd (2 ^ ubits pd - 1) g
                                       end else []) ++ t)) = Ok (common, t)).
  { intros t. unfold common. destruct (fgcd f).
    - destruct (sc_common c) as [g|]; cbn [app get1 bind]; [|reflexivity].
      change (umax (ubits pd)) with (2 ^ ubits pd - 1).
      rewrite read_enc_gcd by lia. reflexivity.
    - reflexivity. }
  rewrite Hc. cbn [bind]. clear Hc.
  unfold Nlen at 1. rewrite Nat2N.id.
  rewrite read_enc_prefix_list by exact Hpre. cbn [bind].
  rewrite drain_pad_pad.
  - reflexivity.
  - apply pad_lt.
  - rewrite Nlen_app. set (A := Nlen body) in *. set (B := Nlen rest) in *. clearbody A B. lia.
Qed.

(* ================================================================== *)
(* C1. the body: block loop on the blocks of the grammar                 *)
(* ================================================================== *)
Lemma read_enc_offsets w p : BodyL.wf_prefix w p -> forall offs s,
  Forall (fun o => o <= s_range p) offs ->
  read_offsets w p (length offs) (flat_map (enc_offset (s_range p)) offs ++ s)
  = (map (fun o => p_lower p + o * p_gcd p) offs, s, SOk).
Proof.
  intros (Hg & Hlu & Hu & _). induction offs as [|o offs IH]; intros s H; [reflexivity|].
  inversion H; subst. cbn [length flat_map read_offsets]. rewrite <- app_assoc.
  rewrite read_enc_offset by assumption. rewrite IH by assumption. reflexivity.
Qed.

Local Opaque read_offset read_varint read_code_at enc_varint enc_offset.

Lemma blocks_count_nat table blocks : Forall (wf_block table) blocks ->
  (length blocks <= length (flat_map sb_offsets blocks))%nat.
Proof. apply blocks_count. Qed.

Theorem read_enc_blocks w tb table rest :
  table_ok table = true -> (max_code_len table <= 40)%nat ->
  Forall (BodyL.wf_prefix w) table -> (stride <= length rest)%nat ->
  forall blocks fuel, Forall (wf_block table) blocks ->
  (length (flat_map sb_offsets blocks) <= fuel)%nat ->
  read_blocks fuel w tb table (Nlen (flat_map sb_offsets blocks))
              (flat_map (enc_block table) blocks ++ rest)
  = (flat_map (block_unsigneds table) blocks, rest, None, SOk).
Proof.
  intros Htab Hml Hwf Hrest. rewrite Forall_forall in Hwf.
  induction blocks as [|b bs IH]; intros fuel Hb Hfuel.
  - cbn [flat_map app]. rewrite Nlen_nil. apply read_blocks_zero.
  - inversion Hb as [|? ? Hb1 Hbs]; subst.
    destruct b as [idx offs]. destruct Hb1 as (p & Hnth & H1 & Hj & Ho).
    cbn [sb_idx sb_offsets] in *.
    pose proof (nth_error_In _ _ Hnth) as Hin.
    pose proof (Hwf p Hin) as Hwp.
    cbn [flat_map sb_offsets] in *. rewrite app_length in Hfuel. rewrite Nlen_app.
    set (R := Nlen (flat_map sb_offsets bs)) in *.
    assert (HR : R = N.of_nat (length (flat_map sb_offsets bs))) by reflexivity.
    assert (Hlo : Nlen offs = N.of_nat (length offs)) by reflexivity.
    destruct fuel as [|fuel]; [lia|].
    cbn [read_blocks].
    destruct (Nlen offs + R =? 0) eqn:E0; [apply N.eqb_eq in E0; lia|]. clear E0.
    unfold enc_block at 1, block_unsigneds at 1. cbn [sb_idx sb_offsets]. rewrite Hnth.
    rewrite <- !app_assoc.
    rewrite read_code_at_enough; try assumption; [|rewrite !app_length; lia].
    destruct (p_jump p) as [j|] eqn:EJ.
    + rewrite read_enc_varint; [| destruct Hwp as (_ & _ & _ & Hjj); auto | exact Hj].
      cbv zeta.
      replace (Nlen offs - 1 + 1) with (Nlen offs) by lia.
      rewrite N.min_l by lia.
      replace (N.to_nat (Nlen offs)) with (length offs) by lia.
      rewrite read_enc_offsets by assumption.
      destruct (Nlen offs + R <? Nlen offs) eqn:E1; [apply N.ltb_lt in E1; lia|]. clear E1.
      replace (Nlen offs + R - Nlen offs) with R by lia.
      rewrite IH by (try assumption; lia). reflexivity.
    + cbn [app].
      assert (HL : length offs = 1%nat) by lia.
      rewrite <- HL at 1. rewrite read_enc_offsets by assumption.
      replace (Nlen offs + R - 1) with R by lia.
      rewrite IH by (try assumption; lia). reflexivity.
Qed.

Definition body_pad (raw : bits) : bits := repeat false (N.to_nat ((8 - Nlen raw mod 8) mod 8)).

Lemma s_pad_split raw : s_pad raw = raw ++ body_pad raw.
Proof. reflexivity. Qed.

Lemma read_enc_batch w tb table rest blocks eoi :
  table_ok table = true -> (max_code_len table <= 40)%nat ->
  Forall (BodyL.wf_prefix w) table -> 8 <= Nlen rest ->
  Forall (wf_block table) blocks ->
  Nlen (flat_map sb_offsets blocks) < 2 ^ 24 ->
  let raw := flat_map (enc_block table) blocks in
  read_batch w tb table (Nlen (flat_map sb_offsets blocks)) None (pow2 64 - 1) eoi
             (s_pad raw ++ rest)
  = mkBatch (flat_map (block_unsigneds table) blocks) (body_pad raw ++ rest) None true SOk.
Proof.
  intros Htab Hml Hwf Hrest Hb Hn raw.
  unfold read_batch. cbv zeta.
  assert (Hlim : Nlen (flat_map sb_offsets blocks) <= pow2 64 - 1).
  { unfold pow2. change (2 ^ 64) with 18446744073709551616.
    change (2 ^ 24) with 16777216 in Hn. lia. }
  rewrite N.min_l by exact Hlim.
  replace (Nlen (flat_map sb_offsets blocks) <=? pow2 64 - 1) with true
    by (symmetry; apply N.leb_le; exact Hlim).
  rewrite s_pad_split, <- app_assoc.
  destruct (Nlen (flat_map sb_offsets blocks) =? 0) eqn:E0.
  - apply N.eqb_eq in E0. pose proof (blocks_count_nat table blocks Hb) as Hc.
    unfold Nlen in E0. destruct blocks as [|b bs]; [|cbn [length] in Hc; lia].
    reflexivity.
  - rewrite (read_enc_blocks w tb table (body_pad raw ++ rest) Htab Hml Hwf).
    + reflexivity.
    + pose proof stride_le_footer. rewrite app_length. unfold Nlen in Hrest. lia.
    + exact Hb.
    + unfold Nlen. lia.
Qed.

Lemma read_enc_nd_batch w tb table rest blocks total moments :
  table_ok table = true -> (max_code_len table <= 40)%nat ->
  Forall (BodyL.wf_prefix w) table -> 8 <= Nlen rest -> Nlen rest mod 8 = 0 ->
  Forall (wf_block table) blocks ->
  Nlen (flat_map sb_offsets blocks) < 2 ^ 24 ->
  let body := s_pad (flat_map (enc_block table) blocks) in
  exists nd',
  nd_batch w tb (mkCbd (Nlen (flat_map sb_offsets blocks)) total (Nlen body / 8) table moments 0
                       (mkNd 0 0 None))
           (pow2 64 - 1) true (body ++ rest)
  = Ok (flat_map (block_unsigneds table) blocks, true, nd', rest).
Proof.
  intros Htab Hml Hwf Hrest Hrm Hb Hn body.
  unfold nd_batch. cbn [c_nd c_n nd_nproc nd_incomplete nd_bproc c_table c_body].
  replace (Nlen (flat_map sb_offsets blocks) <? 0) with false by (symmetry; apply N.ltb_ge; lia).
  rewrite N.sub_0_r.
  pose proof (read_enc_batch w tb table rest blocks true Htab Hml Hwf Hrest Hb Hn) as HB.
  cbv zeta in HB. fold body in HB. rewrite HB. clear HB.
  cbn [b_status b_finished b_rest b_nums b_incomplete].
  unfold body_pad. rewrite drain_pad_pad by (try apply pad_lt; exact Hrm).
  cbn [bind].
  pose proof (s_pad_len (flat_map (enc_block table) blocks)) as Hbl. fold body in Hbl.
  assert (E : (Nlen body / 8 * 8 =? 0 + (Nlen (body ++ rest) - Nlen rest)) = true).
  { apply N.eqb_eq. rewrite Nlen_app.
    set (A := Nlen body) in *. set (B := Nlen rest) in *. clearbody A B. lia. }
  rewrite E. cbn [negb andb]. eexists. reflexivity.
Qed.

(* ================================================================== *)
(* C2. one chunk: decompressor construction and the whole body           *)
(* ================================================================== *)
Lemma u_dom_umax pd u : u_dom pd u -> u <= umax (ubits pd).
Proof.
  unfold umax, pow2. destruct pd; unfold u_dom; intros H;
    try (set (P := 2 ^ ubits _) in *; clearbody P; lia).
  change (2 ^ ubits DBool) with 256. lia.
Qed.

Lemma wf_prefix_body f pd n common p :
  SpecL.wf_prefix f pd n common p -> BodyL.wf_prefix (ubits pd) p.
Proof.
  unfold SpecL.wf_prefix, BodyL.wf_prefix.
  intros (_ & Hlu & _ & _ & Hd2 & _ & _ & _ & Hj & Hg & _).
  split; [lia|]. split; [exact Hlu|]. split; [apply u_dom_umax; exact Hd2|exact Hj].
Qed.

Lemma ubits_pdt' f d : ubits (pdt f d) = ubits d.
Proof. unfold pdt. destruct (ford f =? 0); [reflexivity|apply ubits_sdt]. Qed.

Theorem chunk_body_decoded f d c rest :
  wf_chunk f d c -> 8 <= Nlen rest -> Nlen rest mod 8 = 0 ->
  exists cb, new_cbd f (chunk_meta_of c) = Ok cb /\
  forall tb, exists fin c',
    cbd_batch d f tb cb (pow2 64 - 1) true (enc_body c ++ rest)
    = Ok (chunk_nums f d c, fin, c', rest).
Proof.
  intros Hwf Hr8 Hrm. pose proof Hwf as Hwf0. unfold wf_chunk in Hwf. cbv zeta in Hwf.
  destruct Hwf as (Hn & Hml & Hmv & Htl & Htree & Hemp & Hcom & Hpre & Hblk & Htot & Hbsz).
  rewrite s_pdt_pdt in *.
  pose proof (s_tree_ok_table_ok _ Htree) as Htab.
  pose proof (s_tree_ok_max_len _ Htree) as Hmax.
  assert (Hbw : Forall (BodyL.wf_prefix (ubits (pdt f d))) (sc_table c)).
  { eapply Forall_impl; [|exact Hpre]. intros p. apply wf_prefix_body. }
  eexists. split.
  { unfold new_cbd, chunk_meta_of. cbn [m_table m_n m_body m_moments].
    assert (E1 : is_nil (sc_table c) && (0 <? sc_n c - ford f) = false).
    { destruct (sc_table c) eqn:Et; [|reflexivity]. rewrite Hemp by reflexivity. reflexivity. }
    rewrite E1, Htab. cbn [negb]. reflexivity. }
  intros tb. unfold cbd_batch.
  assert (Hn' : Nlen (flat_map sb_offsets (sc_blocks c)) < 2 ^ 24) by lia.
  destruct (read_enc_nd_batch (ubits (pdt f d)) tb (sc_table c) rest (sc_blocks c) (sc_n c)
              (sc_moments c) Htab Hmax Hbw Hr8 Hrm Hblk Hn') as (nd' & Hnd).
  cbv zeta in Hnd. rewrite Htot in Hnd.
  change (s_pad (flat_map (enc_block (sc_table c)) (sc_blocks c))) with (enc_body c) in Hnd.
  rewrite Hnd. cbn [bind].
  fold (chunk_unsigneds c).
  unfold chunk_nums. destruct (ford f =? 0) eqn:Eo.
  - eexists. eexists. reflexivity.
  - apply N.eqb_neq in Eo. cbn [c_total c_numsproc c_moments c_n c_body c_table].
    replace (sc_n c <? 0) with false by (symmetry; apply N.ltb_ge; lia).
    rewrite N.sub_0_r, N.add_0_l.
    assert (Hmin : N.min (pow2 64 - 1) (sc_n c) = sc_n c).
    { unfold pow2. change (2 ^ 64) with 18446744073709551616.
      change (2 ^ 24) with 16777216 in Hn. lia. }
    rewrite Hmin.
    pose proof (reconstruct_integ_n d (N.to_nat (sc_n c)) (sc_moments c)
                  (map (of_u (sdt d)) (chunk_unsigneds c))) as Hrec.
    destruct (reconstruct d (N.to_nat (sc_n c)) (sc_moments c)
                (map (of_u (sdt d)) (chunk_unsigneds c))) as [xs ms'] eqn:R.
    cbn [fst] in Hrec. rewrite Hrec.
    + eexists. eexists. reflexivity.
    + intros E. rewrite E in Hml. cbn [length] in Hml. lia.
    + rewrite map_length. unfold chunk_unsigneds.
      assert (HL : length (flat_map (block_unsigneds (sc_table c)) (sc_blocks c))
                   = length (flat_map sb_offsets (sc_blocks c))).
      { clear - Hblk. induction Hblk as [|b bs Hb _ IH]; [reflexivity|].
        cbn [flat_map]. rewrite !app_length, IH. f_equal.
        destruct Hb as (p & Hnth & _). unfold block_unsigneds. rewrite Hnth.
        apply map_length. }
      rewrite HL. unfold Nlen in Htot. lia.
Qed.

(* ================================================================== *)
(* D. chunk and file level: the reader state machine                     *)
(* ================================================================== *)
Lemma enc_chunk_body_split f d c : exists mb, enc_chunk f d c = mb ++ enc_body c.
Proof. unfold enc_chunk. cbv zeta. eexists. rewrite app_assoc. reflexivity. Qed.

Lemma chunk_meta_read f d c rest bit :
  wf_chunk f d c -> bit mod 8 = 0 -> Nlen rest mod 8 = 0 ->
  read_chunk_meta d f bit (enc_chunk f d c ++ rest)
  = Ok (Some (chunk_meta_of c), enc_body c ++ rest).
Proof.
  intros Hwf Hbit Hrm. rewrite enc_chunk_split, <- app_assoc.
  change (put 8 Frozen.MAGIC_CHUNK_BYTE) with (bytes_to_bits [Consts.MAGIC_CHUNK_BYTE]).
  unfold read_chunk_meta.
  rewrite (read_aligned_bytes_at bit [Consts.MAGIC_CHUNK_BYTE] 1);
    [|exact Hbit|repeat constructor|reflexivity].
  cbn [bind].
  change (list_eqb N.eqb [Consts.MAGIC_CHUNK_BYTE] [Consts.MAGIC_TERMINATION_BYTE]) with false.
  change (list_eqb N.eqb [Consts.MAGIC_CHUNK_BYTE] [Consts.MAGIC_CHUNK_BYTE]) with true.
  cbn [negb].
  rewrite parse_enc_meta by assumption. reflexivity.
Qed.

Lemma term_read d f bit :
  bit mod 8 = 0 ->
  read_chunk_meta d f bit (put 8 Frozen.MAGIC_TERMINATION_BYTE) = Ok (None, []).
Proof.
  intros Hb.
  change (put 8 Frozen.MAGIC_TERMINATION_BYTE) with (bytes_to_bits [Consts.MAGIC_TERMINATION_BYTE]).
  apply term_byte_read. exact Hb.
Qed.

Lemma simple_loop_grammar d f : forall cs fuel st acc,
  Forall (wf_chunk f d) cs ->
  at_suffix st (flat_map (enc_chunk f d) cs ++ put 8 Frozen.MAGIC_TERMINATION_BYTE) ->
  r_flags st = Some f -> r_cbd st = None -> r_term st = false ->
  (length cs < fuel)%nat ->
  snd (simple_loop fuel d st acc) = Ok (acc ++ flat_map (chunk_nums f d) cs).
Proof.
  induction cs as [|c cs IH]; intros fuel st acc Hok Hat Hf Hc Ht Hfuel.
  - cbn [flat_map app] in *.
    destruct fuel as [|fuel]; [lia|]. cbn [simple_loop].
    assert (Hbit : r_bit st mod 8 = 0) by (apply (at_suffix_bit_mod st _ Hat); reflexivity).
    rewrite (r_step_meta_none d st f []); try assumption.
    + cbn [snd]. rewrite app_nil_r. reflexivity.
    + rewrite (at_suffix_stream st _ Hat). apply term_read. exact Hbit.
  - inversion Hok as [|? ? Hok1 Hokt]; subst.
    destruct fuel as [|fuel]; [lia|]. cbn [length] in Hfuel.
    cbn [flat_map] in Hat. rewrite <- app_assoc in Hat.
    set (rest := flat_map (enc_chunk f d) cs ++ put 8 Frozen.MAGIC_TERMINATION_BYTE) in *.
    assert (Hrl : Nlen rest mod 8 = 0 /\ 8 <= Nlen rest).
    { unfold rest. rewrite Nlen_app, put_length.
      pose proof (enc_chunks_len f d cs) as H1.
      set (A := Nlen (flat_map (enc_chunk f d) cs)) in *. clearbody A. lia. }
    destruct Hrl as [Hrm Hr8].
    assert (Hbit : r_bit st mod 8 = 0).
    { apply (at_suffix_bit_mod st _ Hat). rewrite Nlen_app.
      pose proof (enc_chunk_len f d c) as H1.
      set (A := Nlen (enc_chunk f d c)) in *. set (B := Nlen rest) in *. clearbody A B. lia. }
    destruct (chunk_body_decoded f d c rest Hok1 Hr8 Hrm) as (cb & Hnew & Hbody).
    destruct (enc_chunk_body_split f d c) as (mb & Hmb).
    cbn [simple_loop].
    rewrite (r_step_meta_some d st f (chunk_meta_of c) cb (enc_body c ++ rest)); try assumption;
      [|rewrite (at_suffix_stream st _ Hat); apply chunk_meta_read; assumption].
    set (st1 := mkR (r_bytes st) (pos_after st (enc_body c ++ rest)) (r_flags st) (Some cb) (r_term st)).
    assert (Hat1 : at_suffix st1 (enc_body c ++ rest)).
    { apply (at_suffix_advance st mb). rewrite app_assoc, <- Hmb. exact Hat. }
    destruct (Hbody (total_bits st1)) as (fin & c' & Hb).
    rewrite (r_step_body_ok d st1 f cb (chunk_nums f d c) fin c' rest); try assumption; try reflexivity;
      [|rewrite (at_suffix_stream st1 _ Hat1); exact Hb].
    set (st2 := mkR (r_bytes st1) (pos_after st1 rest) (r_flags st1) None (r_term st1)).
    assert (Hat2 : at_suffix st2 rest) by (apply (at_suffix_advance st1 (enc_body c)); exact Hat1).
    rewrite (IH fuel st2 (acc ++ chunk_nums f d c)); try assumption; try lia; try reflexivity.
    cbn [flat_map]. rewrite app_assoc. reflexivity.
Qed.

Lemma chunks_bits_count f d cs : (8 * length cs <= length (flat_map (enc_chunk f d) cs))%nat.
Proof.
  induction cs as [|c cs IH]; [cbn; lia|].
  cbn [flat_map length]. rewrite app_length, enc_chunk_split, app_length.
  unfold put. rewrite putn_length. change (N.to_nat 8) with 8%nat. lia.
Qed.

Lemma header_bits d s :
  flat_map (put 8) Frozen.MAGIC_HEADER ++ put 8 (hdr d) ++ s
  = bytes_to_bits (Consts.MAGIC_HEADER ++ [hdr d]) ++ s.
Proof.
  rewrite bytes_to_bits_app, <- app_assoc.
  change (flat_map (put 8) Frozen.MAGIC_HEADER) with (bytes_to_bits Consts.MAGIC_HEADER).
  reflexivity.
Qed.

Theorem reader_decodes_grammar : forall a, wf_file a ->
  decode_file (sf_dt a) (bits_to_bytes (enc_file a)) = Ok (file_nums a).
Proof.
  intros a [Ho Hcs].
  set (d := sf_dt a). set (f := sf_flags a) in *.
  set (bytes := bits_to_bytes (enc_file a)).
  pose proof (enc_file_len a) as Hlen.
  assert (Hbits : bytes_to_bits bytes = enc_file a) by (apply bytes_to_bits_to_bytes; exact Hlen).
  set (tail := flat_map (enc_chunk f d) (sf_chunks a) ++ put 8 Frozen.MAGIC_TERMINATION_BYTE).
  assert (Hfile : enc_file a
                  = (bytes_to_bits (Consts.MAGIC_HEADER ++ [hdr d]) ++ enc_flags f (sf_extra_flag_bytes a))
                    ++ tail).
  { unfold enc_file. fold d f. rewrite header_bits, <- app_assoc. reflexivity. }
  unfold decode_file, simple_decompress.
  set (st0 := mkR bytes 0 None None false).
  assert (Hat0 : at_suffix st0 ((bytes_to_bits (Consts.MAGIC_HEADER ++ [hdr d])
                                 ++ enc_flags f (sf_extra_flag_bytes a)) ++ tail)).
  { exists []. split; [cbn [r_bytes st0 app]; rewrite Hbits; exact Hfile|reflexivity]. }
  rewrite (r_step_header_ok d st0 f tail); try reflexivity.
  2:{ rewrite (at_suffix_stream st0 _ Hat0), <- app_assoc.
      change (r_bit st0) with 0.
      rewrite read_header_typed, dtype_eqb_refl. apply parse_enc_flags. exact Ho. }
  set (st1 := mkR (r_bytes st0) (pos_after st0 tail) (Some f) (r_cbd st0) (r_term st0)).
  assert (Hat1 : at_suffix st1 tail) by (eapply (at_suffix_advance st0); exact Hat0).
  pose proof (simple_loop_grammar d f (sf_chunks a) (S (length (r_bytes st0))) st1 [] Hcs Hat1
                eq_refl eq_refl eq_refl) as Hloop.
  destruct (simple_loop (S (length (r_bytes st0))) d st1 []) as [st2 res].
  cbn [snd] in Hloop. rewrite Hloop; [reflexivity|].
  cbn [r_bytes st0].
  pose proof (chunks_bits_count f d (sf_chunks a)) as Hc.
  pose proof (bytes_to_bits_length bytes) as Hbl. rewrite Hbits in Hbl.
  rewrite Hfile in Hbl. unfold tail in Hbl. rewrite !app_length in Hbl. lia.
Qed.

(* non-vacuity: the example file of SpecL (both gcd modes, a jumpstart, continuation flag
   bytes, an empty chunk) is decoded by the reader model to the numbers it denotes *)
Example reader_decodes_a0 :
  decode_file DI32 (bits_to_bytes (enc_file SpecL.Example.a0)) = Ok (file_nums SpecL.Example.a0).
Proof. apply (reader_decodes_grammar SpecL.Example.a0). apply SpecL.Example.wf_a0. Qed.

Print Assumptions parse_enc_flags.
Print Assumptions read_enc_varint.
Print Assumptions read_enc_offset.
Print Assumptions s_tree_ok_table_ok.
Print Assumptions parse_enc_meta.
Print Assumptions read_enc_blocks.
Print Assumptions chunk_body_decoded.
Print Assumptions reader_decodes_grammar.
