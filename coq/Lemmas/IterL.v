(* IterL.v — streaming iteration, random access by metadata, and sub-sequences of chunks,
   for files written by the model's writer:
     (1) draining the iterator (RNext) with any batch limit >= 1 yields the flags, then per
         chunk its metadata and its numbers cut into consecutive pieces of [limit] numbers,
         then the footer, then nothing, for every data type and delta order 0..7;
     (2) RMeta followed by RBody or RSkip, per chunk in any combination, never fails: a skip
         lands exactly on the next chunk and a decoded chunk yields exactly its own numbers;
     (3) any list made of chunks of a good file is again a good file. *)
From Coq Require Import Sorting.Permutation.
From QCo.Lemmas Require Import Tactics BitsL DTypeL DeltaL FlagsL CodecL MetaL BodyL HeaderL ReaderL FileL.
From QCo.Model Require Import Base Consts DType Codec Writer Reader.
Open Scope N_scope.

(* ================================================================== *)
(* 0. decoders return a suffix of their input                          *)
(* ================================================================== *)
(* (ReaderL has the corresponding length facts; positions computed with [pos_after]
   need the stronger statement) *)

Definition suf (r s : bits) : Prop := exists a, s = a ++ r.

Lemma suf_refl s : suf s s.
Proof. exists []. reflexivity. Qed.

Lemma suf_trans a b c : suf a b -> suf b c -> suf a c.
Proof. intros (x & ->) (y & ->). exists (y ++ x). rewrite app_assoc. reflexivity. Qed.

Lemma suf_cons x r s : suf r s -> suf r (x :: s).
Proof. intros (a & ->). exists (x :: a). reflexivity. Qed.

Lemma suf_skipn k s : suf (skipn k s) s.
Proof. exists (firstn k s). symmetry. apply firstn_skipn. Qed.

Lemma suf_Nlen r s : suf r s -> Nlen r <= Nlen s /\ Nlen s - Nlen r + Nlen r = Nlen s.
Proof. intros (a & ->). rewrite Nlen_app. lia. Qed.

Lemma take_bits_suf n : forall s h r, take_bits n s = Some (h, r) -> suf r s.
Proof.
  induction n as [|n IH]; intros s h r H; cbn [take_bits] in H.
  - inversion H; subst. apply suf_refl.
  - destruct s as [|b t]; [discriminate|].
    destruct (take_bits n t) as [[h' r']|] eqn:E; [|discriminate].
    inversion H; subst. apply suf_cons. eapply IH; eassumption.
Qed.

Lemma get_bits_suf n s h r : get_bits n s = Ok (h, r) -> suf r s.
Proof.
  unfold get_bits. intros H.
  destruct (take_bits (N.to_nat n) s) as [[h' r']|] eqn:E; [|discriminate].
  inversion H; subst. eapply take_bits_suf; eassumption.
Qed.

Lemma getn_acc_suf n : forall acc s v r, getn_acc n acc s = Some (v, r) -> suf r s.
Proof.
  induction n as [|n IH]; intros acc s v r H; cbn [getn_acc] in H.
  - inversion H; subst. apply suf_refl.
  - destruct s as [|b t]; [discriminate|]. apply suf_cons. eapply IH; eassumption.
Qed.

Lemma get_suf n s v r : get n s = Ok (v, r) -> suf r s.
Proof.
  unfold get, getn. intros H.
  destruct (getn_acc (N.to_nat n) 0 s) as [[v' r']|] eqn:E; [|discriminate].
  inversion H; subst. eapply getn_acc_suf; eassumption.
Qed.

Lemma get1_suf s b r : get1 s = Ok (b, r) -> suf r s.
Proof. destruct s; cbn [get1]; intros H; inversion H; subst. apply suf_cons, suf_refl. Qed.

Lemma drain_pad_suf s r : drain_pad s = Ok r -> suf r s.
Proof.
  unfold drain_pad. intros H. destruct (existsb _ _); [discriminate|].
  inversion H; subst. apply suf_skipn.
Qed.

(* close a goal [suf r s] from hypotheses [suf _ _] by transitivity *)
Ltac suf_chain :=
  first [ apply suf_refl | assumption
        | match goal with
          | H : suf ?x ?s |- suf ?r ?s => apply (suf_trans r x s); [suf_chain | exact H]
          end ].

Ltac sufH H := first
  [ apply get_suf in H | apply get1_suf in H | apply get_bits_suf in H | apply drain_pad_suf in H ].
Ltac sufs := repeat match goal with H : _ = _ |- _ => sufH H end.

Lemma read_offset_suf w p s u r : read_offset w p s = Ok (u, r) -> suf r s.
Proof. unfold read_offset. intros H. inv; sufs; suf_chain. Qed.

Lemma read_offsets_suf w p reps : forall s l r st,
  read_offsets w p reps s = (l, r, st) -> suf r s.
Proof.
  induction reps as [|reps IH]; intros s l r st H; cbn [read_offsets] in H.
  - inv. apply suf_refl.
  - inv; try apply suf_refl.
    match goal with H : read_offset _ _ _ = _ |- _ => apply read_offset_suf in H end.
    match goal with H : read_offsets _ _ _ _ = _ |- _ => apply IH in H end. suf_chain.
Qed.

Lemma read_varint_cont_suf left : forall i acc s v r,
  read_varint_cont left i acc s = Ok (v, r) -> suf r s.
Proof.
  induction left as [|left IH]; intros i acc s v r H; cbn [read_varint_cont] in H.
  - inv. apply suf_refl.
  - inv; sufs; try (apply IH in H); suf_chain.
Qed.

Lemma read_varint_suf j s v r : read_varint j s = Ok (v, r) -> suf r s.
Proof.
  unfold read_varint. intros H. inv. apply read_varint_cont_suf in H. sufs. suf_chain.
Qed.

Lemma read_code_at_suf tb ps s p r : read_code_at tb ps s = Ok (p, r) -> suf r s.
Proof.
  unfold read_code_at. intros H.
  destruct (tsearch 33 tb ps 0 s) as [q|k|]; cbn [bind] in H; try discriminate.
  destruct (Nat.leb (length (p_code q)) _); [|discriminate].
  inversion H; subst; clear H. apply suf_skipn.
Qed.

Ltac sufH H ::= first
  [ apply get_suf in H | apply get1_suf in H | apply get_bits_suf in H | apply drain_pad_suf in H
  | apply read_offset_suf in H | apply read_offsets_suf in H | apply read_varint_suf in H
  | apply read_code_at_suf in H ].

Lemma read_blocks_suf w tb ps fuel : forall room s l r inc st,
  read_blocks fuel w tb ps room s = (l, r, inc, st) -> suf r s.
Proof.
  induction fuel as [|fuel IH]; intros room s l r inc st H; cbn [read_blocks] in H.
  - inv. apply suf_refl.
  - inv; try apply suf_refl;
    repeat match goal with H : read_blocks _ _ _ _ _ _ = _ |- _ => apply IH in H end;
    sufs; suf_chain.
Qed.

Lemma read_batch_suf w tb ps n_left inc limit eoi s :
  suf (b_rest (read_batch w tb ps n_left inc limit eoi s)) s.
Proof.
  unfold read_batch. cbv zeta beta.
  repeat match goal with
  | |- context [match ?x with _ => _ end] => destruct x eqn:?
  end; cbn [b_rest];
  repeat match goal with H : read_blocks _ _ _ _ _ _ = _ |- _ => apply read_blocks_suf in H end;
  sufs; suf_chain.
Qed.

(* ================================================================== *)
(* 3. sub-sequences of chunks                                          *)
(* ================================================================== *)

(* the chunk section of a file is the concatenation of per-chunk byte strings, each of
   which depends only on (d, f, xs, table) *)
Definition chunk_bytes (d : dtype) (f : flags) (c : list Z * list prefix) : res (list N) :=
  do '(_, bs) <- chunk_payload d f (snd c) (fst c);
  Ok ([Consts.MAGIC_CHUNK_BYTE] ++ bs).

Lemma chunks_bytes_cons d f c t :
  chunks_bytes d f (c :: t) =
  (do x <- chunk_bytes d f c; do r <- chunks_bytes d f t; Ok (x ++ r)).
Proof.
  destruct c as [xs table]. cbn [chunks_bytes]. unfold chunk_bytes. cbn [fst snd].
  destruct (chunk_payload d f table xs) as [[m bs]|k|]; cbn [bind]; reflexivity.
Qed.

Theorem chunks_bytes_app d f : forall a b,
  chunks_bytes d f (a ++ b) =
  (do x <- chunks_bytes d f a; do y <- chunks_bytes d f b; Ok (x ++ y)).
Proof.
  induction a as [|c a IH]; intros b.
  - cbn [app chunks_bytes bind]. destruct (chunks_bytes d f b); reflexivity.
  - rewrite <- app_comm_cons, !chunks_bytes_cons, IH.
    destruct (chunk_bytes d f c) as [x|k|]; cbn [bind]; try reflexivity.
    destruct (chunks_bytes d f a) as [r|k|]; cbn [bind]; try reflexivity.
    destruct (chunks_bytes d f b) as [y|k|]; cbn [bind]; try reflexivity.
    rewrite app_assoc. reflexivity.
Qed.

(* any list whose members are chunks of a good file — a sub-list, a reordering, with or
   without repetitions — is a good file again and decodes to exactly those chunks *)
Theorem subfile_roundtrip : forall d order gcds chunks sub,
  order <= 7 ->
  Forall (chunk_ok d (writer_flags order gcds)) chunks ->
  incl sub chunks ->
  Forall (chunk_ok d (writer_flags order gcds)) sub /\
  exists bytes, file_bytes d (writer_flags order gcds) sub = Ok bytes /\
                decode_file d bytes = Ok (concat (map fst sub)).
Proof.
  intros d order gcds chunks sub Ho Hok Hin.
  assert (Hs : Forall (chunk_ok d (writer_flags order gcds)) sub)
    by (eapply incl_Forall; eassumption).
  split; [exact Hs|]. apply file_roundtrip_ex; assumption.
Qed.

(* order-preserving sub-lists *)
Inductive sublist {A} : list A -> list A -> Prop :=
| sl_nil : sublist [] []
| sl_skip x l1 l2 : sublist l1 l2 -> sublist l1 (x :: l2)
| sl_keep x l1 l2 : sublist l1 l2 -> sublist (x :: l1) (x :: l2).

Lemma sublist_incl {A} (l1 l2 : list A) : sublist l1 l2 -> incl l1 l2.
Proof.
  induction 1 as [|x l1 l2 _ IH|x l1 l2 _ IH].
  - apply incl_refl.
  - apply incl_tl. exact IH.
  - apply incl_cons; [left; reflexivity|apply incl_tl; exact IH].
Qed.

Corollary sublist_roundtrip : forall d order gcds chunks sub,
  order <= 7 -> Forall (chunk_ok d (writer_flags order gcds)) chunks -> sublist sub chunks ->
  exists bytes, file_bytes d (writer_flags order gcds) sub = Ok bytes /\
                decode_file d bytes = Ok (concat (map fst sub)).
Proof.
  intros d order gcds chunks sub Ho Hok Hs.
  apply (subfile_roundtrip d order gcds chunks sub Ho Hok (sublist_incl _ _ Hs)).
Qed.

Corollary permuted_roundtrip : forall d order gcds chunks sub,
  order <= 7 -> Forall (chunk_ok d (writer_flags order gcds)) chunks -> Permutation chunks sub ->
  exists bytes, file_bytes d (writer_flags order gcds) sub = Ok bytes /\
                decode_file d bytes = Ok (concat (map fst sub)).
Proof.
  intros d order gcds chunks sub Ho Hok Hp.
  apply (subfile_roundtrip d order gcds chunks sub Ho Hok).
  intros x Hx. apply Permutation_sym in Hp. eapply Permutation_in; eassumption.
Qed.

(* ================================================================== *)
(* A. the layout of one written chunk, as the reader sees it           *)
(* ================================================================== *)

(* the metadata the reader reports for a chunk: the writer's, with the normalised table *)
Definition reader_meta (d : dtype) (f : flags) (c : list Z * list prefix) : meta :=
  match chunk_payload d f (snd c) (fst c) with
  | Ok (m, _) => mkMeta (m_n m) (m_body m) (m_moments m) (norm_table f (pdt f d) (m_table m))
  | _ => mkMeta 0 0 [] []
  end.

Definition cbd0 (f : flags) (m : meta) : cbd :=
  mkCbd (m_n m - ford f) (m_n m) (m_body m) (m_table m) (m_moments m) 0 (mkNd 0 0 None).

Lemma new_cbd_inv f m c : new_cbd f m = Ok c -> c = cbd0 f m.
Proof.
  unfold new_cbd, cbd0. destruct (_ && _); [discriminate|]. destruct (negb _); [discriminate|].
  congruence.
Qed.

(* FileL.chunk_roundtrip with the body exposed: [pad8 b] where [b] encodes the chunk's
   unsigneds under the reader's table *)
Lemma chunk_layout d f xs table m bs :
  chunk_ok d f (xs, table) -> chunk_payload d f table xs = Ok (m, bs) ->
  let us := chunk_unsigneds d (ford f) xs in
  let qs := norm_table f (pdt f d) table in
  exists (b : bits) (bodyn : N),
    let m' := mkMeta (Nlen xs) bodyn (chunk_moments d (ford f) xs) qs in
    reader_meta d f (xs, table) = m' /\
    wf_table (ubits (pdt f d)) qs /\ Forall (good qs) us /\ enc qs us b /\
    bodyn * 8 = Nlen (pad8 b) /\
    new_cbd f m' = Ok (cbd0 f m') /\
    (exists mbits, bytes_to_bits ([Consts.MAGIC_CHUNK_BYTE] ++ bs) = mbits ++ pad8 b) /\
    forall bit rest, bit mod 8 = 0 -> 8 <= Nlen rest -> Nlen rest mod 8 = 0 ->
      read_chunk_meta d f bit (bytes_to_bits ([Consts.MAGIC_CHUNK_BYTE] ++ bs) ++ rest)
        = Ok (Some m', pad8 b ++ rest).
Proof.
  intros Hok Hp us qs.
  assert (Hrm : reader_meta d f (xs, table)
                = mkMeta (m_n m) (m_body m) (m_moments m) (norm_table f (pdt f d) (m_table m))).
  { unfold reader_meta. cbn [fst snd]. rewrite Hp. reflexivity. }
  unfold chunk_payload in Hp. fold us in Hp.
  destruct (write_body table us) as [body| |] eqn:Eb; cbn [bind] in Hp; try discriminate.
  pose proof (chunk_wf_meta d f xs table body Hok Eb) as Hwfm.
  set (m0 := mkMeta (Nlen xs) (Nlen (bits_to_bytes body)) (chunk_moments d (ford f) xs) table) in *.
  destruct (write_meta f d m0) as [mb| |] eqn:Em; cbn [bind] in Hp; try discriminate.
  inversion Hp; subst m bs; clear Hp.
  pose proof (write_meta_aligned f d m0 mb Em) as Hmb8.
  unfold chunk_ok in Hok. cbn [fst snd] in Hok.
  destruct Hok as (Hn & Hrep & Hwf & Hg & Hnt & Hmp & Hno & Hcg).
  fold us in Hg.
  assert (Hpos : Forall (fun p => 1 <= p_gcd p) table).
  { destruct Hwf as (_ & Hwp & _). eapply Forall_impl; [|exact Hwp].
    intros p (Hp1 & _). lia. }
  destruct (norm_table_body f (pdt f d) (ubits (pdt f d)) table us Hpos Hno Hwf Hg)
    as (Hwfq & Hgq & Hnil & Hsame).
  fold qs in Hwfq, Hgq, Hnil, Hsame.
  unfold write_body in Eb.
  destruct (write_body_fuel (length us) table us) as [b| |] eqn:Ebf; cbn [bind] in Eb; try discriminate.
  inversion Eb; subst body; clear Eb.
  assert (He : enc qs us b).
  { exists (length us). split; [lia|]. rewrite Hsame. exact Ebf. }
  assert (Hul : Nlen us = Nlen xs - ford f) by apply chunk_unsigneds_Nlen.
  pose proof (pad8_length b) as Hb8.
  pose proof (bits_to_bytes_Nlen (pad8 b) Hb8) as Hbn.
  exists b, (Nlen (bits_to_bytes (pad8 b))). cbv zeta.
  split; [exact Hrm|].
  split; [exact Hwfq|]. split; [exact Hgq|]. split; [exact He|]. split; [lia|].
  split.
  { unfold new_cbd, cbd0. cbn [m_table m_n m_body m_moments].
    assert (E1 : is_nil qs && (0 <? Nlen xs - ford f) = false).
    { destruct qs as [|q qs'] eqn:Eq; [|reflexivity].
      assert (Ht : table = []) by (apply Hnil; reflexivity).
      rewrite Ht in Hg. apply good_nil_table in Hg. rewrite <- Hul, Hg. reflexivity. }
    rewrite E1. destruct Hwfq as (Htok & _). rewrite Htok. cbn [negb]. reflexivity. }
  split.
  { exists (bytes_to_bits [Consts.MAGIC_CHUNK_BYTE] ++ mb).
    rewrite !bytes_to_bits_app.
    rewrite (bytes_to_bits_to_bytes mb Hmb8), (bytes_to_bits_to_bytes (pad8 b) Hb8).
    rewrite <- !app_assoc. reflexivity. }
  intros bit rest Hbit Hr8 Hrm8.
  rewrite !bytes_to_bits_app.
  rewrite (bytes_to_bits_to_bytes mb Hmb8), (bytes_to_bits_to_bytes (pad8 b) Hb8).
  rewrite <- !app_assoc.
  unfold read_chunk_meta.
  rewrite (read_aligned_bytes_at bit [Consts.MAGIC_CHUNK_BYTE] 1);
    [|exact Hbit|repeat constructor|reflexivity].
  cbn [bind].
  change (list_eqb N.eqb [Consts.MAGIC_CHUNK_BYTE] [Consts.MAGIC_TERMINATION_BYTE]) with false.
  change (list_eqb N.eqb [Consts.MAGIC_CHUNK_BYTE] [Consts.MAGIC_CHUNK_BYTE]) with true.
  cbn [negb].
  rewrite (meta_roundtrip f d m0 mb (pad8 b ++ rest) Hwfm Em).
  + cbn [bind]. reflexivity.
  + rewrite Nlen_app. set (A := Nlen (pad8 b)) in *. set (B := Nlen rest) in *.
    clearbody A B. lia.
Qed.

(* ================================================================== *)
(* B. reader states between chunks                                     *)
(* ================================================================== *)

(* the header has been read, no chunk is open, and the reader stands at the suffix [s] *)
Definition boundary (f : flags) (st : rstate) (s : bits) : Prop :=
  at_suffix st s /\ r_flags st = Some f /\ r_cbd st = None /\ r_term st = false.

Lemma at_suffix_total st s : at_suffix st s -> r_bit st + Nlen s = total_bits st.
Proof.
  intros (pre & E & Hb). unfold total_bits. rewrite <- bytes_to_bits_Nlen, E, Nlen_app. lia.
Qed.

Lemma at_suffix_skip st a s' fl cb tm :
  at_suffix st (a ++ s') -> at_suffix (mkR (r_bytes st) (r_bit st + Nlen a) fl cb tm) s'.
Proof.
  intros (pre & E & Hb). exists (pre ++ a). cbn [r_bytes r_bit].
  split; [rewrite E, app_assoc; reflexivity|]. rewrite Nlen_app. lia.
Qed.

Lemma at_suffix_suf st s s1 fl cb tm :
  at_suffix st s -> suf s1 s -> at_suffix (mkR (r_bytes st) (pos_after st s1) fl cb tm) s1.
Proof. intros Hat (a & ->). apply (at_suffix_advance st a). exact Hat. Qed.

Definition tail_bits (r : list N) : bits := bytes_to_bits (r ++ [Consts.MAGIC_TERMINATION_BYTE]).

Lemma tail_bits_len r : 8 <= Nlen (tail_bits r) /\ Nlen (tail_bits r) mod 8 = 0.
Proof.
  unfold tail_bits. rewrite bytes_to_bits_Nlen, Nlen_app.
  change (Nlen [Consts.MAGIC_TERMINATION_BYTE]) with 1.
  set (X := Nlen r). clearbody X. lia.
Qed.

(* the reader at the start of a chunk: what it will see *)
Lemma chunk_split d f xs table t cb st :
  chunk_ok d f (xs, table) -> chunks_bytes d f ((xs, table) :: t) = Ok cb ->
  boundary f st (tail_bits cb) ->
  let us := chunk_unsigneds d (ford f) xs in
  let qs := norm_table f (pdt f d) table in
  exists (b : bits) (bodyn : N) (r : list N),
    let m' := mkMeta (Nlen xs) bodyn (chunk_moments d (ford f) xs) qs in
    let rest := tail_bits r in
    chunks_bytes d f t = Ok r /\
    reader_meta d f (xs, table) = m' /\
    wf_table (ubits (pdt f d)) qs /\ Forall (good qs) us /\ enc qs us b /\
    bodyn * 8 = Nlen (pad8 b) /\
    new_cbd f m' = Ok (cbd0 f m') /\
    read_chunk_meta d f (r_bit st) (stream st) = Ok (Some m', pad8 b ++ rest) /\
    (forall fl c tm,
       at_suffix (mkR (r_bytes st) (pos_after st (pad8 b ++ rest)) fl c tm) (pad8 b ++ rest)).
Proof.
  intros Hok Hcb (Hat & Hf & Hc & Ht) us qs.
  cbn [chunks_bytes] in Hcb.
  destruct (chunk_payload d f table xs) as [[m bs]| |] eqn:Ep; cbn [bind] in Hcb; try discriminate.
  destruct (chunks_bytes d f t) as [r| |] eqn:Er; cbn [bind] in Hcb; try discriminate.
  inversion Hcb; subst cb; clear Hcb.
  destruct (chunk_layout d f xs table m bs Hok Ep)
    as (b & bodyn & Hrm & Hwf & Hg & He & Hbn & Hnew & (mbits & Hmb) & Hread).
  fold us qs in Hrm, Hwf, Hg, He, Hnew, Hread.
  exists b, bodyn, r. cbv zeta.
  destruct (tail_bits_len r) as [Hr8 Hrm8].
  assert (Hsplit : tail_bits ([Consts.MAGIC_CHUNK_BYTE] ++ bs ++ r)
                   = bytes_to_bits ([Consts.MAGIC_CHUNK_BYTE] ++ bs) ++ tail_bits r).
  { unfold tail_bits. rewrite <- bytes_to_bits_app. f_equal. rewrite <- !app_assoc. reflexivity. }
  assert (Hbit : r_bit st mod 8 = 0).
  { apply (at_suffix_bit_mod st _ Hat). apply tail_bits_len. }
  assert (Hat' : at_suffix st (bytes_to_bits ([Consts.MAGIC_CHUNK_BYTE] ++ bs) ++ tail_bits r))
    by (rewrite <- Hsplit; exact Hat).
  clear Hat; rename Hat' into Hat.
  split; [reflexivity|]. split; [exact Hrm|].
  split; [exact Hwf|]. split; [exact Hg|]. split; [exact He|]. split; [exact Hbn|].
  split; [exact Hnew|].
  split.
  - rewrite (at_suffix_stream st _ Hat). apply Hread; assumption.
  - intros fl c tm. apply (at_suffix_advance st mbits). rewrite app_assoc, <- Hmb. exact Hat.
Qed.

(* the reader at the footer *)
Lemma footer_split d f st :
  boundary f st (tail_bits []) ->
  read_chunk_meta d f (r_bit st) (stream st) = Ok (None, []).
Proof.
  intros (Hat & _). rewrite (at_suffix_stream st _ Hat).
  apply term_byte_read. apply (at_suffix_bit_mod st _ Hat). reflexivity.
Qed.

(* ================================================================== *)
(* 2. random access: metadata, then body or skip, per chunk            *)
(* ================================================================== *)

Definition pick_op (b : bool) : rop := if b then RBody else RSkip.
Definition ra_ops (choice : list bool) : list rop :=
  RHeader :: flat_map (fun b => [RMeta; pick_op b]) choice ++ [RMeta].

Definition pick_out (c : list Z * list prefix) (b : bool) : rout :=
  if b then RONums (fst c) else ROUnit.
Definition ra_outs (d : dtype) (f : flags) (chunks : list (list Z * list prefix)) (choice : list bool)
  : list rout :=
  ROFlags f
  :: flat_map (fun cb => [ROMeta (Some (reader_meta d f (fst cb))); pick_out (fst cb) (snd cb)])
              (combine chunks choice)
  ++ [ROMeta None].

Lemma r_run_cons d st o t st1 out :
  r_do d st o = (st1, out) ->
  r_run d st (o :: t) = (fst (r_run d st1 t), out :: snd (r_run d st1 t)).
Proof. intros H. cbn [r_run]. rewrite H. destruct (r_run d st1 t). reflexivity. Qed.

Lemma r_step_skip_ok d st c :
  r_term st = false -> r_cbd st = Some c -> nd_bproc (c_nd c) = 0 ->
  r_bit st + c_body c * 8 <= total_bits st ->
  r_step d st RSkip
  = (mkR (r_bytes st) (r_bit st + c_body c * 8) (r_flags st) None (r_term st), ROUnit).
Proof.
  intros Ht Hc Hb Hle. unfold r_step. rewrite Ht, Hc, Hb, N.sub_0_r.
  replace (c_body c * 8 <? 0) with false by (symmetry; apply N.ltb_ge; lia).
  replace (r_bit st + c_body c * 8 <=? total_bits st) with true
    by (symmetry; apply N.leb_le; exact Hle).
  reflexivity.
Qed.

Lemma ra_chunks d f : forall chunks choice cb st,
  Forall (chunk_ok d f) chunks -> chunks_bytes d f chunks = Ok cb ->
  length choice = length chunks ->
  boundary f st (tail_bits cb) ->
  let ops := flat_map (fun b => [RMeta; pick_op b]) choice ++ [RMeta] in
  snd (r_run d st ops)
  = flat_map (fun cb => [ROMeta (Some (reader_meta d f (fst cb))); pick_out (fst cb) (snd cb)])
             (combine chunks choice) ++ [ROMeta None]
  /\ at_suffix (fst (r_run d st ops)) [].
Proof.
  induction chunks as [|[xs table] t IH]; intros choice cb st Hok Hcb Hlen Hb; cbv zeta.
  - destruct choice; [|discriminate]. cbn [flat_map app combine].
    cbn [chunks_bytes] in Hcb. inversion Hcb; subst cb.
    pose proof (footer_split d f st Hb) as Hr. destruct Hb as (Hat & Hf & Hc & Ht).
    rewrite (r_run_cons d st RMeta [] _ _ (r_step_meta_none d st f [] Ht Hf Hc Hr)).
    cbn [r_run fst snd]. split; [reflexivity|].
    unfold set_pos. apply (at_suffix_advance st (tail_bits [])). rewrite app_nil_r. exact Hat.
  - destruct choice as [|ch choice]; [discriminate|]. cbn [length] in Hlen.
    inversion Hok as [|? ? Hok1 Hokt]; subst.
    destruct (chunk_split d f xs table t cb st Hok1 Hcb Hb)
      as (b & bodyn & r & Hr & Hrm & Hwf & Hg & He & Hbn & Hnew & Hread & Hat1).
    cbv zeta in Hr, Hrm, Hnew, Hread, Hat1.
    destruct (tail_bits_len r) as [Hr8 Hrm8].
    destruct Hb as (Hat & Hf & Hc & Ht).
    cbn [flat_map combine fst snd]. rewrite <- !app_assoc. cbn [app].
    rewrite Hrm.
    set (m' := mkMeta (Nlen xs) bodyn (chunk_moments d (ford f) xs) (norm_table f (pdt f d) table)) in *.
    rewrite (r_run_cons d st RMeta _ _ _
               (r_step_meta_some d st f m' (cbd0 f m') _ Ht Hf Hc Hread Hnew)).
    set (st1 := mkR (r_bytes st) (pos_after st (pad8 b ++ tail_bits r)) (r_flags st)
                    (Some (cbd0 f m')) (r_term st)).
    specialize (Hat1 (r_flags st) (Some (cbd0 f m')) (r_term st)). fold st1 in Hat1.
    assert (Hnext : exists st2 out, r_do d st1 (pick_op ch) = (st2, out) /\
                      out = pick_out (xs, table) ch /\ boundary f st2 (tail_bits r)).
    { destruct ch; cbn [pick_op pick_out fst r_do].
      - (* decode the body *)
        unfold chunk_ok in Hok1. cbn [fst snd] in Hok1.
        destruct Hok1 as (Hn & Hrep & _).
        destruct (cbd_batch_whole d f (total_bits st1) _ xs b bodyn (tail_bits r)
                    Hn Hrep Hwf Hg He Hr8 Hrm8 Hbn) as (c' & Hbody).
        eexists. eexists. split.
        + apply (r_step_body_ok d st1 f (cbd0 f m') xs true c' (tail_bits r)); try reflexivity;
            try assumption.
          rewrite (at_suffix_stream st1 _ Hat1). exact Hbody.
        + split; [reflexivity|].
          split; [apply (at_suffix_advance st1 (pad8 b)); exact Hat1|].
          cbn [r_flags r_cbd r_term st1]. auto.
      - (* skip it, using the body size of the metadata only *)
        pose proof (at_suffix_total st1 _ Hat1) as Htot. rewrite Nlen_app in Htot.
        eexists. eexists. split.
        + apply (r_step_skip_ok d st1 (cbd0 f m')); try reflexivity; try assumption.
          cbn [cbd0 c_body m_body m']. lia.
        + split; [reflexivity|]. cbn [cbd0 c_body m_body m']. rewrite Hbn.
          split; [apply (at_suffix_skip st1 (pad8 b)); exact Hat1|].
          cbn [r_flags r_cbd r_term st1]. auto. }
    destruct Hnext as (st2 & out & Hdo & -> & Hb2).
    rewrite (r_run_cons d st1 _ _ _ _ Hdo). cbn [fst snd].
    destruct (IH choice r st2 Hokt Hr ltac:(lia) Hb2) as [IH1 IH2]. cbv zeta in IH1, IH2.
    rewrite IH1. split; [reflexivity|exact IH2].
Qed.

Definition fresh (bytes : list N) : rstate := mkR bytes 0 None None false.

(* the reader of a written file: its header *)
Lemma file_header_split d order gcds chunks bytes :
  order <= 7 ->
  file_bytes d (writer_flags order gcds) chunks = Ok bytes ->
  let f := writer_flags order gcds in
  exists cb,
    chunks_bytes d f chunks = Ok cb /\
    read_header d (r_bit (fresh bytes)) (stream (fresh bytes)) = Ok (f, tail_bits cb) /\
    boundary f (mkR bytes (pos_after (fresh bytes) (tail_bits cb)) (Some f) None false) (tail_bits cb).
Proof.
  intros Ho Hfb f. unfold file_bytes in Hfb. fold f in Hfb.
  destruct (header_bytes d f) as [hb| |] eqn:Eh; cbn [bind] in Hfb; try discriminate.
  destruct (chunks_bytes d f chunks) as [cb| |] eqn:Ec; cbn [bind] in Hfb; try discriminate.
  inversion Hfb; subst bytes; clear Hfb.
  exists cb. split; [reflexivity|].
  set (tail := cb ++ [Consts.MAGIC_TERMINATION_BYTE]).
  destruct (header_roundtrip d order gcds hb tail Ho Eh) as (Hrh & hbits & Hsplit).
  fold f in Hrh.
  set (st0 := fresh (hb ++ tail)).
  assert (Hat0 : at_suffix st0 (hbits ++ bytes_to_bits tail)).
  { exists []. split; [exact Hsplit|reflexivity]. }
  split.
  - rewrite (at_suffix_stream st0 _ Hat0), <- Hsplit. exact Hrh.
  - split; [|cbn [r_flags r_cbd r_term]; auto].
    apply (at_suffix_advance st0 hbits). exact Hat0.
Qed.

(* 2. random access *)
Theorem random_access : forall d order gcds chunks bytes choice,
  order <= 7 ->
  Forall (chunk_ok d (writer_flags order gcds)) chunks ->
  file_bytes d (writer_flags order gcds) chunks = Ok bytes ->
  length choice = length chunks ->
  let r := r_run d (fresh bytes) (ra_ops choice) in
  snd r = ra_outs d (writer_flags order gcds) chunks choice /\
  r_bit (fst r) = total_bits (fst r).
Proof.
  intros d order gcds chunks bytes choice Ho Hok Hfb Hlen. cbv zeta.
  destruct (file_header_split d order gcds chunks bytes Ho Hfb) as (cb & Hcb & Hrh & Hb).
  cbv zeta in Hcb, Hrh, Hb.
  set (f := writer_flags order gcds) in *.
  unfold ra_ops, ra_outs.
  rewrite (r_run_cons d (fresh bytes) RHeader _ _ _
             (r_step_header_ok d (fresh bytes) f (tail_bits cb) eq_refl eq_refl Hrh)).
  cbn [fst snd].
  destruct (ra_chunks d f chunks choice cb _ Hok Hcb Hlen Hb) as [H1 H2]. cbv zeta in H1, H2.
  split; [f_equal; exact H1|].
  pose proof (at_suffix_total _ _ H2) as Ht. rewrite Nlen_nil, N.add_0_r in Ht. exact Ht.
Qed.

(* in particular nothing fails *)
Corollary random_access_no_failure : forall d order gcds chunks bytes choice,
  order <= 7 ->
  Forall (chunk_ok d (writer_flags order gcds)) chunks ->
  file_bytes d (writer_flags order gcds) chunks = Ok bytes ->
  length choice = length chunks ->
  Forall (fun o => rfail o = false) (snd (r_run d (fresh bytes) (ra_ops choice))).
Proof.
  intros d order gcds chunks bytes choice Ho Hok Hfb Hlen.
  destruct (random_access d order gcds chunks bytes choice Ho Hok Hfb Hlen) as [-> _].
  unfold ra_outs. constructor; [reflexivity|]. apply Forall_app. split.
  - apply Forall_forall. intros o Ho'. apply in_flat_map in Ho'.
    destruct Ho' as ([c b] & _ & [<-|[<-|[]]]); [reflexivity|]. destruct b; reflexivity.
  - repeat constructor.
Qed.

(* ================================================================== *)
(* C. one batch of the number decompressor, from any state inside a body *)
(* ================================================================== *)

(* BodyL.read_batch_gen also when nothing is left *)
Lemma read_batch_gen0 w tb ps rest : wf_table w ps -> enough_rest ps rest ->
  forall us inc s limit eoi,
  Forall (good ps) us -> Nlen us < 2 ^ 24 -> stream_inv ps inc us s rest -> 0 < limit ->
  let m := N.to_nat (N.min (Nlen us) limit) in
  exists s' inc',
    read_batch w tb ps (Nlen us) inc limit eoi s
    = mkBatch (firstn m us) s' inc' (Nlen us <=? limit) SOk
    /\ stream_inv ps inc' (skipn m us) s' rest.
Proof.
  intros Hwf Hrest us inc s limit eoi Hg Hlen Hinv Hlim m.
  destruct us as [|u t].
  - exists s, inc. subst m. rewrite Nlen_nil. unfold read_batch. cbv zeta.
    replace (N.min 0 limit) with 0 by lia. cbn [N.eqb N.to_nat firstn skipn].
    split; [reflexivity|exact Hinv].
  - apply read_batch_gen; try assumption. rewrite Nlen_cons. lia.
Qed.

(* the number decompressor inside the body of a chunk: [ur] are the unsigneds still to
   come, [s] is the stream, [rest] what follows the body's padding *)
Definition nd_inv (w : N) (qs : list prefix) (n body : N) (nd : nd_state) (ur : list N)
           (s rest : bits) : Prop :=
  wf_table w qs /\ Forall (good qs) ur /\ Nlen ur < 2 ^ 24 /\
  nd_nproc nd + Nlen ur = n /\
  8 <= Nlen rest /\ Nlen rest mod 8 = 0 /\
  nd_bproc nd + Nlen s = body * 8 + Nlen rest /\
  exists k, k < 8 /\
    stream_inv qs (nd_incomplete nd) ur s (repeat false (N.to_nat k) ++ rest).

Lemma enc_nil_nil ps : enc ps [] [].
Proof. exists O. split; [cbn [length]; lia|reflexivity]. Qed.

Lemma nd_batch_step w tb c ur s rest limit :
  nd_inv w (c_table c) (c_n c) (c_body c) (c_nd c) ur s rest -> 0 < limit ->
  let m := N.to_nat (N.min (Nlen ur) limit) in
  exists nd' s1,
    nd_batch w tb c limit false s = Ok (firstn m ur, Nlen ur <=? limit, nd', s1) /\
    suf s1 s /\
    nd_inv w (c_table c) (c_n c) (c_body c) nd' (skipn m ur) s1 rest /\
    (Nlen ur <= limit -> s1 = rest).
Proof.
  intros (Hwf & Hg & Hlen & Hnp & Hr8 & Hrm & Hbp & k & Hk & Hinv) Hlim m.
  set (R := repeat false (N.to_nat k) ++ rest) in *.
  assert (HR : enough_rest (c_table c) R).
  { apply enough_rest_8. unfold R. rewrite Nlen_app. lia. }
  destruct (read_batch_gen0 w tb (c_table c) R Hwf HR ur (nd_incomplete (c_nd c)) s limit false
              Hg Hlen Hinv Hlim) as (s' & inc' & Hrb & Hinv').
  fold m in Hrb, Hinv'.
  pose proof (read_batch_suf w tb (c_table c) (Nlen ur) (nd_incomplete (c_nd c)) limit false s) as Hsuf.
  rewrite Hrb in Hsuf. cbn [b_rest] in Hsuf.
  assert (Hm : (m <= length ur)%nat) by (unfold m, Nlen; lia).
  assert (Hfl : Nlen (firstn m ur) = N.of_nat m).
  { unfold Nlen. rewrite firstn_length. lia. }
  assert (Hsk : Nlen (skipn m ur) = Nlen ur - N.of_nat m) by apply Nlen_skipn.
  unfold nd_batch. cbv zeta.
  replace (c_n c <? nd_nproc (c_nd c)) with false by (symmetry; apply N.ltb_ge; lia).
  replace (c_n c - nd_nproc (c_nd c)) with (Nlen ur) by lia.
  rewrite Hrb. cbn [b_status b_finished b_rest b_nums b_incomplete].
  destruct (Nlen ur <=? limit) eqn:Efin.
  - (* the body is finished by this batch: the padding is drained *)
    apply N.leb_le in Efin.
    assert (Hall : m = length ur) by (unfold m, Nlen in *; lia).
    assert (Hsk0 : skipn m ur = []) by (rewrite Hall; apply skipn_all).
    rewrite Hsk0 in Hinv'. apply stream_inv_nil in Hinv'. destruct Hinv' as [-> ->].
    unfold R. rewrite (drain_pad_pad k rest Hk Hrm). cbn [bind].
    pose proof (suf_Nlen _ _ Hsuf) as [HL1 HL2]. unfold R in HL1, HL2. rewrite Nlen_app in HL1, HL2.
    assert (Hrs : Nlen rest <= Nlen s) by lia.
    assert (Hbody : c_body c * 8 = nd_bproc (c_nd c) + (Nlen s - Nlen rest)) by lia.
    rewrite <- Hbody, N.eqb_refl. cbn [negb andb].
    eexists. exists rest. split; [reflexivity|].
    split.
    { apply (suf_trans rest R s); [|exact Hsuf]. exists (repeat false (N.to_nat k)). reflexivity. }
    split; [|intros _; reflexivity].
    rewrite Hsk0. unfold nd_inv. cbn [nd_nproc nd_bproc nd_incomplete].
    split; [exact Hwf|]. split; [constructor|]. split; [rewrite Nlen_nil; lia|].
    split; [rewrite Nlen_nil, Hfl; unfold Nlen in *; lia|].
    split; [exact Hr8|]. split; [exact Hrm|]. split; [reflexivity|].
    exists 0. split; [lia|]. cbn [N.to_nat repeat app stream_inv].
    exists []. split; [apply enc_nil_nil|reflexivity].
  - apply N.leb_gt in Efin. cbn [bind andb].
    pose proof (suf_Nlen _ _ Hsuf) as [HL1 HL2].
    eexists. exists s'. split; [reflexivity|]. split; [exact Hsuf|].
    split; [|intros; lia].
    unfold nd_inv. cbn [nd_nproc nd_bproc nd_incomplete].
    split; [exact Hwf|]. split; [apply Forall_skipn; exact Hg|].
    split; [rewrite Hsk; lia|].
    split; [rewrite Hsk, Hfl; unfold Nlen in *; lia|].
    split; [exact Hr8|]. split; [exact Hrm|]. split; [lia|].
    exists k. split; [exact Hk|exact Hinv'].
Qed.

(* ================================================================== *)
(* D. delta reconstruction in pieces                                   *)
(* ================================================================== *)

Lemma skipn_nil' {A} k : skipn k (@nil A) = [].
Proof. destruct k; reflexivity. Qed.

Lemma firstn_nil' {A} k : firstn k (@nil A) = [].
Proof. destruct k; reflexivity. Qed.

(* reconstructing [a + b] numbers = reconstructing [a], then [b] more from the moments
   reached and the deltas not yet used *)
Lemma reconstruct_split d : forall a b ms ds,
  reconstruct d (a + b) ms ds =
  (fst (reconstruct d a ms ds)
     ++ fst (reconstruct d b (snd (reconstruct d a ms ds)) (skipn a ds)),
   snd (reconstruct d b (snd (reconstruct d a ms ds)) (skipn a ds))).
Proof.
  induction a as [|a IH]; intros b ms ds.
  - cbn [Nat.add reconstruct fst snd skipn app]. destruct (reconstruct d b ms ds); reflexivity.
  - change (S a + b)%nat with (S (a + b)). rewrite !reconstruct_S. cbn [fst snd].
    rewrite IH.
    replace (skipn (S a) ds) with (skipn a (tl ds))
      by (destruct ds; [cbn [tl]; rewrite skipn_nil'; reflexivity|reflexivity]).
    reflexivity.
Qed.

(* only the first [a] deltas matter *)
Lemma reconstruct_firstn d : forall a ms ds,
  reconstruct d a ms (firstn a ds) = reconstruct d a ms ds.
Proof.
  induction a as [|a IH]; intros ms ds; [reflexivity|].
  rewrite !reconstruct_S.
  replace (hd_opt (firstn (S a) ds)) with (hd_opt ds) by (destruct ds; reflexivity).
  replace (tl (firstn (S a) ds)) with (firstn a (tl ds))
    by (destruct ds; [cbn [tl]; rewrite firstn_nil'; reflexivity|reflexivity]).
  rewrite IH. reflexivity.
Qed.

Lemma reconstruct_batch d bs m ms (D : list Z) :
  (m = bs \/ (length D <= m /\ length D <= bs))%nat ->
  reconstruct d bs ms (firstn m D) = reconstruct d bs ms D /\ skipn m D = skipn bs D.
Proof.
  intros [->|[H1 H2]].
  - split; [apply reconstruct_firstn|reflexivity].
  - rewrite (firstn_all2 D H1), (skipn_all2 D H1), (skipn_all2 D H2). auto.
Qed.

(* ================================================================== *)
(* E. one batch of the chunk body decompressor                         *)
(* ================================================================== *)

(* inside the body of a chunk: [xr] are the numbers still to be produced *)
Definition cbd_inv (d : dtype) (f : flags) (c : cbd) (xr : list Z) (s rest : bits) : Prop :=
  exists ur,
    nd_inv (ubits (pdt f d)) (c_table c) (c_n c) (c_body c) (c_nd c) ur s rest /\
    if ford f =? 0 then xr = map (of_u d) ur
    else c_numsproc c + Nlen xr = c_total c /\ (length ur <= length xr)%nat /\
         fst (reconstruct d (length xr) (c_moments c) (map (of_u (sdt d)) ur)) = xr.

Lemma cbd_batch_step d f tb c xr s rest limit :
  cbd_inv d f c xr s rest -> 0 < limit ->
  let bs := N.to_nat (N.min (Nlen xr) limit) in
  exists c' s1,
    cbd_batch d f tb c limit false s = Ok (firstn bs xr, Nlen xr <=? limit, c', s1) /\
    suf s1 s /\
    (Nlen xr <= limit -> s1 = rest) /\
    (limit < Nlen xr -> cbd_inv d f c' (skipn bs xr) s1 rest).
Proof.
  intros (ur & Hnd & Hx) Hlim bs.
  destruct (nd_batch_step (ubits (pdt f d)) tb c ur s rest limit Hnd Hlim)
    as (nd' & s1 & Hnb & Hsuf & Hnd' & Hfin).
  set (m := N.to_nat (N.min (Nlen ur) limit)) in *.
  unfold cbd_batch. rewrite Hnb. cbn [bind].
  destruct (ford f =? 0) eqn:Eo.
  - (* Simple *)
    subst xr. assert (Hl : Nlen (map (of_u d) ur) = Nlen ur) by (unfold Nlen; rewrite map_length; reflexivity).
    assert (Hbm : bs = m) by (unfold bs, m; rewrite Hl; reflexivity).
    rewrite Hbm, Hl, firstn_map.
    eexists. exists s1. split; [reflexivity|]. split; [exact Hsuf|]. split; [exact Hfin|].
    intros Hlt. exists (skipn m ur). cbn [c_table c_n c_body c_nd]. split; [exact Hnd'|].
    rewrite Eo. apply skipn_map.
  - (* Delta *)
    destruct Hx as (Hnp & Hlen & Hrec).
    replace (c_total c <? c_numsproc c) with false by (symmetry; apply N.ltb_ge; lia).
    assert (Hm : (m <= length ur)%nat) by (unfold m, Nlen; lia).
    assert (Hfl : Nlen (firstn m ur) = N.of_nat m) by (unfold Nlen; rewrite firstn_length; lia).
    assert (HbsN : (if Nlen ur <=? limit then N.min limit (c_total c - c_numsproc c)
                    else Nlen (firstn m ur)) = N.of_nat bs).
    { destruct (Nlen ur <=? limit) eqn:E.
      - unfold bs. replace (c_total c - c_numsproc c) with (Nlen xr) by lia. lia.
      - apply N.leb_gt in E. rewrite Hfl. unfold bs, m, Nlen in *. lia. }
    rewrite HbsN, Nat2N.id.
    set (D := map (of_u (sdt d)) ur) in *.
    assert (HD : length D = length ur) by (unfold D; apply map_length).
    assert (Hcase : (m = bs \/ (length D <= m /\ length D <= bs))%nat).
    { rewrite HD. unfold bs, m, Nlen in *. lia. }
    destruct (reconstruct_batch d bs m (c_moments c) D Hcase) as [HR1 HR2].
    rewrite <- firstn_map. fold D. rewrite HR1.
    assert (Hbl : (bs <= length xr)%nat) by (unfold bs, Nlen; lia).
    assert (Hxl : length xr = (bs + (length xr - bs))%nat) by lia.
    rewrite Hxl, reconstruct_split in Hrec. cbn [fst] in Hrec.
    destruct (reconstruct d bs (c_moments c) D) as [xb ms'] eqn:ER.
    cbn [fst snd] in Hrec.
    assert (Hxbl : length xb = bs).
    { pose proof (reconstruct_length d bs (c_moments c) D) as H. rewrite ER in H. exact H. }
    assert (Hf1 : firstn bs xr = xb).
    { rewrite <- Hrec, <- Hxbl, firstn_app, Nat.sub_diag, firstn_all. cbn [firstn]. apply app_nil_r. }
    assert (Hs1 : skipn bs xr
                  = fst (reconstruct d (length xr - bs) ms' (skipn bs D))).
    { rewrite <- Hrec at 1. rewrite <- Hxbl at 1. rewrite skipn_app, Nat.sub_diag, skipn_all.
      reflexivity. }
    rewrite Hf1.
    replace (c_numsproc c + N.of_nat bs =? c_total c) with (Nlen xr <=? limit).
    2:{ unfold bs, Nlen in *. destruct (N.of_nat (length xr) <=? limit) eqn:E;
          [apply N.leb_le in E; symmetry; apply N.eqb_eq; lia
          |apply N.leb_gt in E; symmetry; apply N.eqb_neq; lia]. }
    eexists. exists s1. split; [reflexivity|]. split; [exact Hsuf|].
    split.
    { intros Hle. apply Hfin. unfold Nlen in *. lia. }
    intros Hlt. exists (skipn m ur).
    cbn [c_table c_n c_body c_nd c_numsproc c_total c_moments]. split; [exact Hnd'|].
    rewrite Eo.
    assert (Hskl : length (skipn bs xr) = (length xr - bs)%nat) by apply skipn_length.
    split; [unfold Nlen in *; rewrite Hskl; lia|].
    split; [rewrite !skipn_length; unfold bs, m, Nlen in *; lia|].
    rewrite Hskl, <- skipn_map. fold D. rewrite HR2. symmetry. exact Hs1.
Qed.

(* ================================================================== *)
(* F. one call of the iterator                                         *)
(* ================================================================== *)

(* a chunk is open and [xr] are the numbers it still has to produce *)
Definition mid (d : dtype) (f : flags) (st : rstate) (xr : list Z) (rest : bits) : Prop :=
  r_term st = false /\ r_flags st = Some f /\
  exists c s, r_cbd st = Some c /\ at_suffix st s /\ cbd_inv d f c xr s rest.

(* between chunks as the iterator sees it: no chunk is open, or an open chunk has nothing
   (more) to produce *)
Definition pre_boundary (d : dtype) (f : flags) (st : rstate) (rest : bits) : Prop :=
  boundary f st rest \/ mid d f st [] rest.

Lemma firstn_min_len {A} (l : list A) limit :
  firstn (N.to_nat (N.min (Nlen l) limit)) l = firstn (N.to_nat limit) l.
Proof.
  destruct (N.le_gt_cases (Nlen l) limit) as [H|H].
  - rewrite N.min_l by exact H. rewrite Nlen_to_nat, firstn_all.
    symmetry. apply firstn_all2. unfold Nlen in H. lia.
  - rewrite N.min_r by lia. reflexivity.
Qed.

Lemma skipn_min_len {A} (l : list A) limit :
  skipn (N.to_nat (N.min (Nlen l) limit)) l = skipn (N.to_nat limit) l.
Proof.
  destruct (N.le_gt_cases (Nlen l) limit) as [H|H].
  - rewrite N.min_l by exact H. rewrite Nlen_to_nat, skipn_all.
    symmetry. apply skipn_all2. unfold Nlen in H. lia.
  - rewrite N.min_r by lia. reflexivity.
Qed.

(* inside a chunk with numbers left: the next piece *)
Lemma r_step_next_mid d f st xr rest limit :
  mid d f st xr rest -> xr <> [] -> 0 < limit ->
  exists st1,
    r_step d st (RNext limit) = (st1, ROItem (INums (firstn (N.to_nat limit) xr))) /\
    (Nlen xr <= limit -> boundary f st1 rest) /\
    (limit < Nlen xr -> mid d f st1 (skipn (N.to_nat limit) xr) rest).
Proof.
  intros (Ht & Hf & c & s & Hc & Hat & Hinv) Hne Hlim.
  destruct (cbd_batch_step d f (total_bits st) c xr s rest limit Hinv Hlim)
    as (c' & s1 & Hcb & Hsuf & Hfin & Hcont).
  cbv zeta in Hcb, Hcont. rewrite firstn_min_len in Hcb. rewrite skipn_min_len in Hcont.
  assert (Hnn : is_nil (firstn (N.to_nat limit) xr) = false).
  { destruct xr as [|x t]; [congruence|]. destruct (N.to_nat limit) eqn:E; [lia|reflexivity]. }
  unfold r_step. rewrite Ht, Hf, Hc, (at_suffix_stream st s Hat), Hcb, Hnn.
  eexists. split; [reflexivity|]. split.
  - intros Hle. rewrite (proj2 (N.leb_le _ _) Hle). rewrite <- (Hfin Hle).
    split; [apply (at_suffix_suf st s s1); assumption|]. cbn [r_flags r_cbd r_term]. auto.
  - intros Hlt. rewrite (proj2 (N.leb_gt _ _) Hlt).
    split; [reflexivity|]. split; [reflexivity|]. exists c', s1. cbn [r_cbd].
    split; [reflexivity|]. split; [apply (at_suffix_suf st s s1); assumption|exact (Hcont Hlt)].
Qed.

(* between chunks: the call behaves as the metadata step from the boundary *)
Lemma r_step_next_pre d f st rest limit :
  pre_boundary d f st rest -> 0 < limit ->
  exists stB, boundary f stB rest /\
    forall st2 i, next_meta d stB f = (st2, ROItem i) ->
                  r_step d st (RNext limit) = (st2, ROItem i).
Proof.
  intros [Hb|(Ht & Hf & c & s & Hc & Hat & Hinv)] Hlim.
  - exists st. split; [exact Hb|]. intros st2 i Hn.
    destruct Hb as (_ & Hf & Hc & Ht). unfold r_step. rewrite Ht, Hf, Hc. exact Hn.
  - destruct (cbd_batch_step d f (total_bits st) c [] s rest limit Hinv Hlim)
      as (c' & s1 & Hcb & Hsuf & Hfin & _).
    cbv zeta in Hcb. rewrite Nlen_nil in Hcb, Hfin.
    replace (0 <=? limit) with true in Hcb by (symmetry; apply N.leb_le; lia).
    rewrite firstn_nil' in Hcb. rewrite (Hfin ltac:(lia)) in Hcb, Hsuf.
    exists (mkR (r_bytes st) (pos_after st rest) (r_flags st) None (r_term st)).
    split.
    { split; [apply (at_suffix_suf st s rest); assumption|]. cbn [r_flags r_cbd r_term]. auto. }
    intros st2 i Hn. unfold r_step. rewrite Ht, Hf, Hc, (at_suffix_stream st s Hat), Hcb.
    cbn [is_nil]. rewrite <- Ht at 1. rewrite <- Hf at 1. rewrite Hn. reflexivity.
Qed.

(* the metadata step at the start of a chunk *)
Lemma next_meta_chunk d f xs table t cb stB :
  chunk_ok d f (xs, table) -> chunks_bytes d f ((xs, table) :: t) = Ok cb ->
  boundary f stB (tail_bits cb) ->
  exists st1 r,
    chunks_bytes d f t = Ok r /\
    next_meta d stB f = (st1, ROItem (IMeta (reader_meta d f (xs, table)))) /\
    mid d f st1 xs (tail_bits r).
Proof.
  intros Hok Hcb Hb.
  destruct (chunk_split d f xs table t cb stB Hok Hcb Hb)
    as (b & bodyn & r & Hr & Hrm & Hwf & Hg & He & Hbn & Hnew & Hread & Hat1).
  cbv zeta in Hr, Hrm, Hnew, Hread, Hat1.
  destruct (tail_bits_len r) as [Hr8 Hrm8].
  destruct Hb as (Hat & Hf & Hc & Ht).
  unfold chunk_ok in Hok. cbn [fst snd] in Hok. destruct Hok as (Hn & Hrep & _).
  set (us := chunk_unsigneds d (ford f) xs) in *.
  set (qs := norm_table f (pdt f d) table) in *.
  set (m' := mkMeta (Nlen xs) bodyn (chunk_moments d (ford f) xs) qs) in *.
  assert (Hul : Nlen us = Nlen xs - ford f) by apply chunk_unsigneds_Nlen.
  eexists. exists r. split; [exact Hr|]. split.
  { unfold next_meta. rewrite Hread, Hnew, Hrm. reflexivity. }
  split; [exact Ht|]. split; [exact Hf|].
  exists (cbd0 f m'), (pad8 b ++ tail_bits r). cbn [r_cbd].
  split; [reflexivity|]. split; [apply Hat1|].
  exists us. unfold cbd0. cbn [c_table c_n c_body c_nd c_numsproc c_total c_moments m_n m_body m_table m_moments m'].
  split.
  - unfold nd_inv. cbn [nd_nproc nd_bproc nd_incomplete].
    split; [exact Hwf|]. split; [exact Hg|]. split; [lia|]. split; [lia|].
    split; [exact Hr8|]. split; [exact Hrm8|].
    split; [rewrite Nlen_app; lia|].
    exists (pad_len (Nlen b)). split; [apply pad_len_lt|].
    cbn [stream_inv]. exists b. split; [exact He|].
    unfold pad8. rewrite <- app_assoc. reflexivity.
  - destruct (ford f =? 0) eqn:Eo.
    + unfold us, chunk_unsigneds. rewrite Eo. symmetry. apply map_of_u_to_u. exact Hrep.
    + apply N.eqb_neq in Eo. split; [lia|]. split; [unfold Nlen in Hul; lia|].
      unfold us, chunk_unsigneds, chunk_moments.
      replace (ford f =? 0) with false by (symmetry; apply N.eqb_neq; exact Eo).
      apply delta_decode; [lia|exact Hrep].
Qed.

(* the metadata step at the footer *)
Lemma next_meta_footer d f stB :
  boundary f stB (tail_bits []) ->
  exists stE, next_meta d stB f = (stE, ROItem IFooter) /\ r_term stE = true.
Proof.
  intros Hb. pose proof (footer_split d f stB Hb) as Hr.
  eexists. split; [unfold next_meta; rewrite Hr; reflexivity|reflexivity].
Qed.

(* ================================================================== *)
(* G. draining the iterator                                            *)
(* ================================================================== *)

Lemma drain_iter_item d limit st st1 i fuel :
  r_step d st (RNext limit) = (st1, ROItem i) ->
  drain_iter (S fuel) d limit st
  = (fst (drain_iter fuel d limit st1), ROItem i :: snd (drain_iter fuel d limit st1)).
Proof.
  intros H. cbn [drain_iter]. rewrite H. destruct (drain_iter fuel d limit st1). reflexivity.
Qed.

Lemma drain_iter_term d limit st fuel : r_term st = true -> drain_iter fuel d limit st = (st, []).
Proof.
  intros H. destruct fuel; [reflexivity|]. cbn [drain_iter]. unfold r_step. rewrite H. reflexivity.
Qed.

(* a list cut into consecutive pieces of [n] elements (the last one may be shorter) *)
Fixpoint chop (fuel n : nat) (xs : list Z) : list (list Z) :=
  match fuel with
  | O => []
  | S k => match xs with
           | [] => []
           | _ => firstn n xs :: chop k n (skipn n xs)
           end
  end.

Definition batches_of (limit : N) (xs : list Z) : list (list Z) :=
  chop (length xs) (N.to_nat limit) xs.

Lemma chop_spec n : (1 <= n)%nat -> forall k xs, (length xs <= k)%nat ->
  concat (chop k n xs) = xs /\
  Forall (fun b => b <> [] /\ (length b <= n)%nat) (chop k n xs) /\
  (length (chop k n xs) <= length xs)%nat.
Proof.
  intros Hn. induction k as [|k IH]; intros xs Hl.
  - destruct xs; [|cbn [length] in Hl; lia]. cbn [chop concat length]. auto.
  - destruct xs as [|x t]; [cbn [chop concat length]; auto|].
    cbn [chop]. set (xs := x :: t) in *.
    assert (Hsl : length (skipn n xs) = (length xs - n)%nat) by apply skipn_length.
    destruct (IH (skipn n xs)) as (H1 & H2 & H3); [unfold xs in *; cbn [length] in *; lia|].
    cbn [concat length]. rewrite H1, firstn_skipn.
    split; [reflexivity|]. split.
    + constructor; [|exact H2]. split; [|apply firstn_le_length].
      unfold xs. destruct n; [lia|]. discriminate.
    + unfold xs in *. cbn [length] in *. lia.
Qed.

Lemma chop_fuel n : (1 <= n)%nat -> forall k1 k2 xs,
  (length xs <= k1)%nat -> (length xs <= k2)%nat -> chop k1 n xs = chop k2 n xs.
Proof.
  intros Hn. induction k1 as [|k1 IH]; intros k2 xs H1 H2.
  - destruct xs; [destruct k2; reflexivity|cbn [length] in H1; lia].
  - destruct xs as [|x t]; [destruct k2; reflexivity|].
    destruct k2 as [|k2]; [cbn [length] in H2; lia|]. cbn [chop].
    assert (Hsl : (length (skipn n (x :: t)) <= length t)%nat).
    { rewrite skipn_length. cbn [length]. lia. }
    cbn [length] in H1, H2. rewrite (IH k2) by lia. reflexivity.
Qed.

Lemma chop_S n k xs : xs <> [] -> chop (S k) n xs = firstn n xs :: chop k n (skipn n xs).
Proof. destruct xs; [congruence|reflexivity]. Qed.

(* the rest of an open chunk *)
Lemma drain_mid d f limit rest : 0 < limit -> forall k st xr,
  (length xr <= k)%nat -> xr <> [] -> mid d f st xr rest ->
  exists st', boundary f st' rest /\
    forall fuel',
      drain_iter (length (chop k (N.to_nat limit) xr) + fuel') d limit st
      = (fst (drain_iter fuel' d limit st'),
         map ROItem (map INums (chop k (N.to_nat limit) xr)) ++ snd (drain_iter fuel' d limit st')).
Proof.
  intros Hlim. induction k as [|k IH]; intros st xr Hl Hne Hmid.
  - destruct xr; [congruence|cbn [length] in Hl; lia].
  - destruct (r_step_next_mid d f st xr rest limit Hmid Hne Hlim) as (st1 & Hstep & Hfin & Hcont).
    rewrite (chop_S _ k xr Hne).
    destruct (N.le_gt_cases (Nlen xr) limit) as [Hle|Hgt].
    + (* last piece *)
      assert (Hsk : skipn (N.to_nat limit) xr = []) by (apply skipn_all2; unfold Nlen in Hle; lia).
      rewrite Hsk. assert (Hc0 : chop k (N.to_nat limit) [] = []) by (destruct k; reflexivity).
      rewrite Hc0. exists st1. split; [exact (Hfin Hle)|].
      intros fuel'. cbn [length Nat.add map app].
      apply drain_iter_item. exact Hstep.
    + assert (Hsl : length (skipn (N.to_nat limit) xr) = (length xr - N.to_nat limit)%nat)
        by apply skipn_length.
      destruct (IH st1 (skipn (N.to_nat limit) xr)) as (st' & Hb' & Hd').
      * lia.
      * intros E. rewrite E in Hsl. unfold Nlen in Hgt. cbn [length] in Hsl. lia.
      * exact (Hcont Hgt).
      * exists st'. split; [exact Hb'|]. intros fuel'. cbn [length Nat.add map app].
        rewrite (drain_iter_item d limit st st1 _ _ Hstep), Hd'. reflexivity.
Qed.

(* ================================================================== *)
(* 1. streaming iteration                                              *)
(* ================================================================== *)

(* what the iterator yields for a file: flags; per chunk its metadata and its numbers in
   pieces of [limit]; the footer *)
Definition chunk_items (d : dtype) (f : flags) (limit : N) (c : list Z * list prefix) : list item :=
  IMeta (reader_meta d f c) :: map INums (batches_of limit (fst c)).

Definition iter_items (d : dtype) (f : flags) (limit : N) (chunks : list (list Z * list prefix))
  : list item :=
  IFlags f :: flat_map (chunk_items d f limit) chunks ++ [IFooter].

Lemma drain_chunks d f limit : 0 < limit -> forall chunks cb st,
  Forall (chunk_ok d f) chunks -> chunks_bytes d f chunks = Ok cb ->
  pre_boundary d f st (tail_bits cb) ->
  exists stE, r_term stE = true /\
    forall extra,
      drain_iter (length (flat_map (chunk_items d f limit) chunks ++ [IFooter]) + extra) d limit st
      = (stE, map ROItem (flat_map (chunk_items d f limit) chunks ++ [IFooter])).
Proof.
  intros Hlim. induction chunks as [|[xs table] t IH]; intros cb st Hok Hcb Hpre.
  - cbn [chunks_bytes] in Hcb. inversion Hcb; subst cb.
    destruct (r_step_next_pre d f st _ limit Hpre Hlim) as (stB & HB & Hstep).
    destruct (next_meta_footer d f stB HB) as (stE & Hnm & HtE).
    exists stE. split; [exact HtE|]. intros extra. cbn [flat_map app length Nat.add map].
    rewrite (drain_iter_item d limit st stE _ _ (Hstep _ _ Hnm)).
    rewrite (drain_iter_term d limit stE extra HtE). reflexivity.
  - inversion Hok as [|? ? Hok1 Hokt]; subst.
    destruct (r_step_next_pre d f st _ limit Hpre Hlim) as (stB & HB & Hstep).
    destruct (next_meta_chunk d f xs table t cb stB Hok1 Hcb HB) as (st1 & r & Hr & Hnm & Hmid).
    specialize (Hstep _ _ Hnm).
    assert (Hnext : exists st',
      pre_boundary d f st' (tail_bits r) /\
      forall fuel',
        drain_iter (length (batches_of limit xs) + fuel') d limit st1
        = (fst (drain_iter fuel' d limit st'),
           map ROItem (map INums (batches_of limit xs)) ++ snd (drain_iter fuel' d limit st'))).
    { destruct xs as [|x xs'].
      - exists st1. split; [right; exact Hmid|]. intros fuel'.
        cbn [batches_of length chop map app Nat.add]. destruct (drain_iter fuel' d limit st1); reflexivity.
      - destruct (drain_mid d f limit (tail_bits r) Hlim (length (x :: xs')) st1 (x :: xs'))
          as (st' & Hb' & Hd'); [lia|discriminate|exact Hmid|].
        exists st'. split; [left; exact Hb'|exact Hd']. }
    destruct Hnext as (st' & Hpre' & Hd').
    destruct (IH r st' Hokt Hr Hpre') as (stE & HtE & HdE).
    exists stE. split; [exact HtE|]. intros extra.
    cbn [flat_map]. unfold chunk_items at 1 3. cbn [fst]. rewrite <- !app_assoc. cbn [app].
    set (itemsT := flat_map (chunk_items d f limit) t ++ [IFooter]) in *.
    set (bl := batches_of limit xs) in *.
    replace (length (IMeta (reader_meta d f (xs, table)) :: map INums bl ++ itemsT) + extra)%nat
      with (S (length bl + (length itemsT + extra))).
    2:{ cbn [length]. rewrite app_length, map_length. lia. }
    rewrite (drain_iter_item d limit st st1 _ _ Hstep), Hd', HdE. cbn [fst snd map].
    rewrite map_app. reflexivity.
Qed.

(* 1. the iterator, drained with any batch limit *)
Theorem iteration : forall d order gcds chunks bytes limit fuel,
  order <= 7 ->
  Forall (chunk_ok d (writer_flags order gcds)) chunks ->
  file_bytes d (writer_flags order gcds) chunks = Ok bytes ->
  1 <= limit ->
  (length (iter_items d (writer_flags order gcds) limit chunks) <= fuel)%nat ->
  let r := drain_iter fuel d limit (fresh bytes) in
  snd r = map ROItem (iter_items d (writer_flags order gcds) limit chunks) /\
  r_term (fst r) = true /\
  forall l, r_step d (fst r) (RNext l) = (fst r, RONone).
Proof.
  intros d order gcds chunks bytes limit fuel Ho Hok Hfb Hlim Hfuel. cbv zeta.
  destruct (file_header_split d order gcds chunks bytes Ho Hfb) as (cb & Hcb & Hrh & Hb).
  cbv zeta in Hcb, Hrh, Hb.
  set (f := writer_flags order gcds) in *.
  set (st1 := mkR bytes (pos_after (fresh bytes) (tail_bits cb)) (Some f) None false) in *.
  assert (Hstep : r_step d (fresh bytes) (RNext limit) = (st1, ROItem (IFlags f))).
  { unfold r_step. cbn [r_term r_flags fresh]. fold (fresh bytes). rewrite Hrh. reflexivity. }
  destruct (drain_chunks d f limit ltac:(lia) chunks cb st1 Hok Hcb (or_introl Hb))
    as (stE & HtE & HdE).
  unfold iter_items in *. cbn [length] in Hfuel.
  set (items := flat_map (chunk_items d f limit) chunks ++ [IFooter]) in *.
  replace fuel with (S (length items + (fuel - S (length items)))) by lia.
  rewrite (drain_iter_item d limit (fresh bytes) st1 _ _ Hstep), HdE. cbn [fst snd map].
  split; [reflexivity|]. split; [exact HtE|].
  intros l. unfold r_step. rewrite HtE. reflexivity.
Qed.

(* ---- the pieces ---- *)

(* the requested shape of the pieces of one chunk *)
Definition good_batches (limit : N) (xs : list Z) (bl : list (list Z)) : Prop :=
  concat bl = xs /\ Forall (fun b => b <> [] /\ Nlen b <= limit) bl /\ (bl = [] <-> xs = []).

Lemma batches_of_spec limit xs : 1 <= limit ->
  good_batches limit xs (batches_of limit xs) /\ (length (batches_of limit xs) <= length xs)%nat.
Proof.
  intros Hlim. unfold batches_of, good_batches.
  destruct (chop_spec (N.to_nat limit) ltac:(lia) (length xs) xs (le_n _)) as (H1 & H2 & H3).
  split; [|exact H3]. split; [exact H1|]. split.
  - eapply Forall_impl; [|exact H2]. intros b [Hb Hl]. split; [exact Hb|]. unfold Nlen. lia.
  - split.
    + intros E. rewrite E in H1. symmetry. exact H1.
    + intros ->. reflexivity.
Qed.

(* the item list in relational form: some pieces per chunk, each list of pieces good *)
Definition iter_spec (d : dtype) (f : flags) (limit : N) (chunks : list (list Z * list prefix))
           (outs : list item) : Prop :=
  exists bls : list (list (list Z)),
    Forall2 (fun c bl => good_batches limit (fst c) bl) chunks bls /\
    outs = IFlags f
           :: flat_map (fun cb => IMeta (reader_meta d f (fst cb)) :: map INums (snd cb))
                       (combine chunks bls)
           ++ [IFooter].

Lemma iter_items_spec d f limit chunks : 1 <= limit ->
  iter_spec d f limit chunks (iter_items d f limit chunks).
Proof.
  intros Hlim. exists (map (fun c => batches_of limit (fst c)) chunks). split.
  - induction chunks as [|c t IH]; cbn [map]; constructor; [|exact IH].
    apply batches_of_spec. exact Hlim.
  - unfold iter_items. f_equal. f_equal.
    induction chunks as [|c t IH]; [reflexivity|].
    cbn [map combine flat_map fst snd]. rewrite IH. reflexivity.
Qed.

Lemma iter_items_length d f limit chunks : 1 <= limit ->
  (length (iter_items d f limit chunks) <= 2 + length chunks + length (concat (map fst chunks)))%nat.
Proof.
  intros Hlim. unfold iter_items. cbn [length]. rewrite app_length. cbn [length].
  assert (H : (length (flat_map (chunk_items d f limit) chunks)
               <= length chunks + length (concat (map fst chunks)))%nat).
  { induction chunks as [|c t IH]; [cbn [flat_map length]; lia|].
    cbn [flat_map map concat length]. rewrite !app_length. unfold chunk_items at 1.
    cbn [length]. rewrite map_length.
    pose proof (proj2 (batches_of_spec limit (fst c) Hlim)). lia. }
  lia.
Qed.

(* the numbers carried by an output *)
Definition out_nums (o : rout) : list Z :=
  match o with ROItem (INums xs) => xs | _ => [] end.

Lemma iter_items_nums d f limit chunks : 1 <= limit ->
  flat_map out_nums (map ROItem (iter_items d f limit chunks)) = concat (map fst chunks).
Proof.
  intros Hlim. unfold iter_items. cbn [map flat_map out_nums app].
  rewrite map_app, flat_map_app. cbn [map flat_map out_nums app]. rewrite app_nil_r.
  induction chunks as [|c t IH]; [reflexivity|].
  cbn [flat_map map concat]. rewrite map_app, flat_map_app, IH. f_equal.
  unfold chunk_items. cbn [map flat_map out_nums app].
  pose proof (proj1 (proj1 (batches_of_spec limit (fst c) Hlim))) as Hc.
  rewrite <- Hc at 2. generalize (batches_of limit (fst c)). intros bl.
  induction bl as [|b bl IHb]; [reflexivity|]. cbn [map flat_map out_nums concat]. rewrite IHb.
  reflexivity.
Qed.

(* 1, as asked: with the explicit fuel bound, in relational form, and the data *)
Theorem iteration_spec : forall d order gcds chunks bytes limit fuel,
  order <= 7 ->
  Forall (chunk_ok d (writer_flags order gcds)) chunks ->
  file_bytes d (writer_flags order gcds) chunks = Ok bytes ->
  1 <= limit ->
  (2 + 2 * length chunks + length (concat (map fst chunks)) <= fuel)%nat ->
  let r := drain_iter fuel d limit (fresh bytes) in
  exists outs,
    snd r = map ROItem outs /\
    iter_spec d (writer_flags order gcds) limit chunks outs /\
    r_term (fst r) = true /\
    (forall l, r_step d (fst r) (RNext l) = (fst r, RONone)) /\
    flat_map out_nums (snd r) = concat (map fst chunks) /\
    decode_file d bytes = Ok (flat_map out_nums (snd r)).
Proof.
  intros d order gcds chunks bytes limit fuel Ho Hok Hfb Hlim Hfuel. cbv zeta.
  pose proof (iter_items_length d (writer_flags order gcds) limit chunks Hlim) as Hlen.
  destruct (iteration d order gcds chunks bytes limit fuel Ho Hok Hfb Hlim ltac:(lia))
    as (H1 & H2 & H3). cbv zeta in H1, H2, H3.
  exists (iter_items d (writer_flags order gcds) limit chunks).
  split; [exact H1|]. split; [apply iter_items_spec; exact Hlim|].
  split; [exact H2|]. split; [exact H3|].
  rewrite H1, iter_items_nums by exact Hlim. split; [reflexivity|].
  apply (file_roundtrip d order gcds chunks bytes Ho Hok Hfb).
Qed.

(* the data does not depend on the batch limit (nor on the fuel, once sufficient) *)
Corollary iteration_limit_independent : forall d order gcds chunks bytes l1 l2 fuel1 fuel2,
  order <= 7 ->
  Forall (chunk_ok d (writer_flags order gcds)) chunks ->
  file_bytes d (writer_flags order gcds) chunks = Ok bytes ->
  1 <= l1 -> 1 <= l2 ->
  (2 + 2 * length chunks + length (concat (map fst chunks)) <= fuel1)%nat ->
  (2 + 2 * length chunks + length (concat (map fst chunks)) <= fuel2)%nat ->
  flat_map out_nums (snd (drain_iter fuel1 d l1 (fresh bytes)))
  = flat_map out_nums (snd (drain_iter fuel2 d l2 (fresh bytes))).
Proof.
  intros d order gcds chunks bytes l1 l2 fuel1 fuel2 Ho Hok Hfb H1 H2 F1 F2.
  destruct (iteration_spec d order gcds chunks bytes l1 fuel1 Ho Hok Hfb H1 F1)
    as (_ & _ & _ & _ & _ & E1 & _).
  destruct (iteration_spec d order gcds chunks bytes l2 fuel2 Ho Hok Hfb H2 F2)
    as (_ & _ & _ & _ & _ & E2 & _).
  cbv zeta in E1, E2. rewrite E1, E2. reflexivity.
Qed.

(* ---- a concrete run, the empty chunk included: FileL's example file, batch limit 2 ---- *)
Example iteration_example :
  exists bytes,
    file_bytes DI32 (writer_flags 0 true) [(ex_xs, ex_table); ([], []); (ex_xs, ex_table)] = Ok bytes /\
    map out_nums (snd (drain_iter 20 DI32 2 (fresh bytes)))
    = [[]; []; [5; 7]; [9; 9]; [100]; []; []; [5; 7]; [9; 9]; [100]; []]%Z.
Proof. eexists. split; [vm_compute; reflexivity|]. vm_compute. reflexivity. Qed.

Print Assumptions chunks_bytes_app.
Print Assumptions subfile_roundtrip.
Print Assumptions random_access.
Print Assumptions random_access_no_failure.
Print Assumptions iteration.
Print Assumptions iteration_spec.
Print Assumptions iteration_limit_independent.
