(* HuffL.v — the literal Huffman table of Model/Huff.v (huffman_decoding.rs +
   bit_reader.rs read_prefix_table_idx) against the abstractions used by the rest of the
   development: Codec.tsearch / Codec.read_code_at (checked search) and Codec.read_code
   (unchecked search, far from the end of the words). *)
From QCo.Lemmas Require Import Tactics BitsL CodecL BodyL TruncL FastL WordsL.
From QCo.Model Require Import Base Consts Codec Words Huff.
Open Scope N_scope.

Arguments N.add : simpl never.
Arguments N.sub : simpl never.
Arguments N.mul : simpl never.
Arguments N.pow : simpl never.
Arguments N.shiftl : simpl never.
Arguments N.shiftr : simpl never.
Arguments N.land : simpl never.
Arguments N.lor : simpl never.
Arguments N.div : simpl never.
Arguments N.modulo : simpl never.
Arguments Nat.pow : simpl never.

(* ================================================================== *)
(* 0. sanity: the literal table and searches, computed                   *)
(* ================================================================== *)
Definition t_mkp (c : bits) : prefix := mkPrefix 1 0 0 c None 1.
Definition t_bs (l : list N) : bits := map (fun x => negb (x =? 0)) l.
(* code lengths 1,2,3,4,4 *)
Definition t_tbl5 : list prefix :=
  map t_mkp [t_bs [0]; t_bs [1;0]; t_bs [1;1;0]; t_bs [1;1;1;0]; t_bs [1;1;1;1]].
(* 1^k 0 for k < n, and 1^n: deeper than one [stride]-bit table when n > stride *)
Definition t_comb (n : nat) : list prefix :=
  map t_mkp (map (fun k => repeat true k ++ [false]) (seq 0 n) ++ [repeat true n]).
(* an irregular complete tree *)
Fixpoint t_gen (fuel : nat) (seed : N) (path : bits) : list bits :=
  match fuel with
  | O => [path]
  | S f =>
    let h := (seed * 1103515245 + 12345) mod 2147483648 in
    if (h / 65536) mod 4 =? 0 then [path]
    else t_gen f (h + 1) (path ++ [false]) ++ t_gen f (h * 3 + 7) (path ++ [true])
  end.
Definition t_rtbl (fuel : nat) (seed : N) : list prefix := map t_mkp (t_gen fuel seed []).
Fixpoint t_rbytes (n : nat) (seed : N) : list N :=
  match n with
  | O => []
  | S m => let h := (seed * 1103515245 + 12345) mod 2147483648 in
           (h / 65536) mod 256 :: t_rbytes m h
  end.

Example t_build5 :
  hfrom 32 t_tbl5 =
  Ok (HNode 4 (repeat (HLeaf (t_mkp (t_bs [0]))) 8 ++ repeat (HLeaf (t_mkp (t_bs [1;0]))) 4
               ++ repeat (HLeaf (t_mkp (t_bs [1;1;0]))) 2
               ++ [HLeaf (t_mkp (t_bs [1;1;1;0])); HLeaf (t_mkp (t_bs [1;1;1;1]))])).
Proof. vm_compute. reflexivity. Qed.

(* depth stride + 3 (9 for the stride 6 of the repository): a [stride]-bit root table whose
   last entry is a 3-bit table.  Computed with the generated constant, whatever it is. *)
Example t_build_comb9 :
  let n := stride in
  match hfrom 32 (t_comb (n + 3)) with
  | Ok (HNode k ch) =>
      k = N.of_nat n /\
      length ch = (2 ^ n)%nat /\
      nth 0 ch (HNode 0 []) = HLeaf (t_mkp [false]) /\
      nth (2 ^ n - 2) ch (HNode 0 []) = HLeaf (t_mkp (repeat true (n - 1) ++ [false])) /\
      nth (2 ^ n - 1) ch (HNode 0 []) =
        HNode 3 (repeat (HLeaf (t_mkp (repeat true n ++ [false]))) 4
                 ++ repeat (HLeaf (t_mkp (repeat true (n + 1) ++ [false]))) 2
                 ++ [HLeaf (t_mkp (repeat true (n + 2) ++ [false]));
                     HLeaf (t_mkp (repeat true (n + 3)))])
  | _ => False
  end.
Proof. vm_compute. repeat split; reflexivity. Qed.

(* tables the validation rejects: the build panics (unwrap on an empty max, or the
   recursion never ends) — and the empty table is a default leaf *)
Example t_build_bad :
  hfrom 32 (map t_mkp [t_bs [0]; t_bs [1;0]]) = Panic /\         (* incomplete *)
  hfrom 32 (map t_mkp [t_bs [0]; t_bs [0]]) = Panic /\            (* duplicate *)
  hfrom 32 [] = Ok (HLeaf (hdefault_prefix 32)).
Proof. vm_compute. repeat split; reflexivity. Qed.

(* observables: (code found, new bit position) *)
Definition t_obs_h (tbl : htable) (ws : list N) (tb i j : N) : res (bits * N) :=
  match hsearch_checked ws i j tb tbl with
  | Ok (p, (i', j')) => Ok (p_code p, 64 * i' + j')
  | Err k => Err k
  | Panic => Panic
  end.
Definition t_obs_t (ps : list prefix) (ws : list N) (tb pos : N) : res (bits * N) :=
  match read_code_at tb ps (rd_stream ws tb pos) with
  | Ok (p, r) => Ok (p_code p, tb - Nlen r)
  | Err k => Err k
  | Panic => Panic
  end.
Definition t_res_eqb (a b : res (bits * N)) : bool :=
  match a, b with
  | Ok (c, x), Ok (d, y) => list_eqb Bool.eqb c d && (x =? y)
  | Err k, Err k' => ekind_eqb k k'
  | _, _ => false
  end.
(* at position pos, with both representations (i, 0) and (i - 1, 64) of a word boundary *)
Definition t_agree_at (ps : list prefix) (tbl : htable) (ws : list N) (tb pos : N) : bool :=
  let i := pos / 64 in let j := pos mod 64 in
  t_res_eqb (t_obs_h tbl ws tb i j) (t_obs_t ps ws tb pos)
  && (if (j =? 0) && (0 <? i)
      then t_res_eqb (t_obs_h tbl ws tb (i - 1) 64) (t_obs_t ps ws tb pos) else true).
(* every truncation of [bytes] to whole bytes (as BitWords holds them), given positions *)
Definition t_sweep_bytes (ps : list prefix) (bytes : list N) (poss : list N) : bool :=
  match hfrom 32 ps with
  | Ok tbl =>
    forallb (fun k => let '(ws, tb) := bw_extend [] 0 (firstn k bytes) in
                      forallb (fun pos => (tb <? pos) || t_agree_at ps tbl ws tb pos) poss)
            (seq 0 (S (length bytes)))
  | _ => false
  end.

(* plenty of data, alignments j = 0, 30, 59 .. 64 *)
Example t_search5 :
  let '(ws, tb) := bw_extend [] 0 (t_rbytes 24 1) in
  match hfrom 32 t_tbl5 with
  | Ok tbl =>
    map (fun '(i, j) => t_obs_h tbl ws tb i j) [(0,0); (0,30); (0,59); (0,60); (0,61); (0,62); (0,63); (0,64); (1,0)]
    = map (fun pos => t_obs_t t_tbl5 ws tb pos) [0; 30; 59; 60; 61; 62; 63; 64; 64]
    /\ t_obs_h tbl ws tb 0 62 = Ok (t_bs [1;1;0], 65)      (* a code across the word boundary *)
  | _ => False
  end.
Proof. vm_compute. split; reflexivity. Qed.

Example t_search_comb9 :
  let '(ws, tb) := bw_extend [] 0 (repeat 255 24) in
  match hfrom 32 (t_comb 9) with
  | Ok tbl =>
    map (fun '(i, j) => t_obs_h tbl ws tb i j) [(0,0); (0,30); (0,59); (0,60); (0,61); (0,62); (0,63); (0,64); (1,0)]
    = map (fun pos => Ok (repeat true 9, pos + 9)) [0; 30; 59; 60; 61; 62; 63; 64; 64]
  | _ => False
  end.
Proof. vm_compute. reflexivity. Qed.

(* all byte truncations (data ending inside the code included), all positions *)
Example t_sweep5 : t_sweep_bytes t_tbl5 (t_rbytes 18 2) (map N.of_nat (seq 0 145)) = true.
Proof. vm_compute. reflexivity. Qed.
Example t_sweep_comb9 :
  t_sweep_bytes (t_comb 9) (repeat 255 18) (map N.of_nat (seq 0 145)) = true.
Proof. vm_compute. reflexivity. Qed.
Example t_sweep_comb13 :
  t_sweep_bytes (t_comb 13) (t_rbytes 4 3 ++ repeat 255 13) (map N.of_nat (seq 0 137)) = true.
Proof. vm_compute. reflexivity. Qed.
Example t_sweep_irregular :
  (table_ok (t_rtbl 12 4), length (t_rtbl 12 4), max_code_len (t_rtbl 12 4))
    = (true, 189%nat, 12%nat) /\
  t_sweep_bytes (t_rtbl 12 4) (t_rbytes 17 5) (map N.of_nat (seq 0 137)) = true.
Proof. vm_compute. split; reflexivity. Qed.

(* The quirk of the third case of read_prefix_table_idx, on 8 bytes 00 00 00 00 00 00 00 02
   read from bit 62: the two bits left are the code 10, in full; the 4-bit stride crosses
   into a word that does not exist, the code is found from the 2 bits read, but the reader
   is left at (i, j) = (1, 64), bit 128 of 64.  Every continuation is a checked read, so
   the block fails with InsufficientData — which is what read_code_at answers. *)
Example t_case_c :
  let '(ws, tb) := bw_extend [] 0 [0;0;0;0;0;0;0;2] in
  match hfrom 32 t_tbl5 with
  | Ok tbl =>
    hsearch ws 0 62 tb tbl = Ok (t_mkp (t_bs [1;0]), (1, 64)) /\
    hsearch_checked ws 0 62 tb tbl = Err InsufficientData /\
    read_code_at tb t_tbl5 (rd_stream ws tb 62) = Err InsufficientData /\
    read_code t_tbl5 (rd_stream ws tb 62) = Ok (t_mkp (t_bs [1;0]), [])
  | _ => False
  end.
Proof. vm_compute. repeat split; reflexivity. Qed.

(* short reads and padding bits.  1 byte 80 read from bit 7, the last real bit: the 4-bit
   stride reads 0 and three padding zeros; a short read, accepted because it ends exactly
   on the leaf 0.  With 65 bits held (not a whole number of bytes: a BitWords never does,
   the theorems allow it) and 111 from bit 62: the stride crosses into the second word,
   reads 111 and one padding zero and finds 1110, a code that is not there in full: the
   search succeeds, beyond the end of the data. *)
Example t_padding :
  match hfrom 32 t_tbl5 with
  | Ok tbl =>
    (let '(ws, tb) := bw_extend [] 0 [128] in
     hsearch ws 0 7 tb tbl = Ok (t_mkp (t_bs [0]), (0, 8))) /\
    hsearch [3; 2 ^ 63] 0 62 65 tbl = Ok (t_mkp (t_bs [1;1;1;0]), (1, 2)) /\
    hsearch_checked [3; 2 ^ 63] 0 62 65 tbl = Err InsufficientData /\
    read_code_at 65 t_tbl5 (rd_stream [3; 2 ^ 63] 65 62) = Err InsufficientData
  | _ => False
  end.
Proof. vm_compute. repeat split; reflexivity. Qed.

(* Why the theorems assume the BitWords invariant [bw_ok] (exactly ceil(tb/64) words,
   zero padding) and a position inside the data.  Both states below are impossible for a
   BitReader made from a BitWords; in both the literal search and read_code_at differ:
   - a spare word after the data: the stride crosses into it (second case) and succeeds;
   - a one-leaf table beyond the end of the data: the leaf is returned without any read. *)
Example t_needs_invariant :
  match hfrom 32 t_tbl5, hfrom 32 [t_mkp []] with
  | Ok tbl, Ok tbl1 =>
    hsearch_checked [2; 0] 0 62 64 tbl = Ok (t_mkp (t_bs [1;0]), (1, 0)) /\
    read_code_at 64 t_tbl5 (rd_stream [2; 0] 64 62) = Err InsufficientData /\
    hsearch_checked [0] 1 6 64 tbl1 = Err InsufficientData /\
    read_code_at 64 [t_mkp []] (rd_stream [0] 64 70) = Ok (t_mkp [], [])
  | _, _ => False
  end.
Proof. vm_compute. repeat split; reflexivity. Qed.

(* garbage instead of zeros after total_bits does not change the observable outcome either
   (not proved in general; every position and bit-granular truncation of this stream) *)
Fixpoint t_words_of (fuel : nat) (padbit : bool) (s : bits) : list N :=
  match fuel with
  | O => []
  | S f => match s with
           | [] => []
           | _ => bits_val (firstn 64 (s ++ repeat padbit 64))
                  :: t_words_of f padbit (skipn 64 s)
           end
  end.
Definition t_sweep_bits (padbit : bool) (ps : list prefix) (data : bits) : bool :=
  match hfrom 32 ps with
  | Ok tbl =>
    forallb (fun tb => let s := firstn tb data in
                       let ws := t_words_of (S tb) padbit s in
                       forallb (fun pos => t_agree_at ps tbl ws (N.of_nat tb) (N.of_nat pos))
                               (seq 0 (S tb)))
            (seq 0 (S (length data)))
  | _ => false
  end.
Example t_sweep_bits_zero :
  t_sweep_bits false (t_comb 9) (bytes_to_bits (t_rbytes 2 7 ++ repeat 255 7 ++ t_rbytes 3 8)) = true.
Proof. vm_compute. reflexivity. Qed.
Example t_sweep_bits_garbage :
  t_sweep_bits true (t_comb 9) (bytes_to_bits (t_rbytes 2 7 ++ repeat 255 7 ++ t_rbytes 3 8)) = true
  /\ t_sweep_bits true t_tbl5 (bytes_to_bits (t_rbytes 11 9)) = true.
Proof. vm_compute. split; reflexivity. Qed.

(* ================================================================== *)
(* 1. build_from_prefixes_recursive                                    *)
(* ================================================================== *)
Lemma land1_testbit x k : (0 <? N.land (N.shiftr x k) 1) = N.testbit x k.
Proof. rewrite land1_odd. rewrite <- N.bit0_odd, N.shiftr_spec'. f_equal. Qed.

(* sub_bits are the table_size_log bits of idx, most significant first *)
Lemma hsub_bits_putn : forall t idx, hsub_bits t idx = putn t idx.
Proof.
  unfold hsub_bits. induction t as [|m IH]; intros idx; [reflexivity|].
  cbn [seq map putn]. rewrite land1_testbit. f_equal; [f_equal; lia|].
  rewrite <- seq_shift, map_map. rewrite <- IH. apply map_ext. intros k.
  do 3 f_equal. lia.
Qed.

Lemma skipn_cons_nth {A} (d : A) : forall n l x r,
  skipn n l = x :: r -> (n < length l)%nat /\ nth n l d = x /\ skipn (S n) l = r.
Proof.
  induction n as [|n IH]; intros l x r H.
  - destruct l as [|y l]; [discriminate|]. cbn [skipn] in H. inversion H; subst.
    cbn [length nth skipn]. repeat split. lia.
  - destruct l as [|y l]; [discriminate|]. cbn [skipn] in H.
    destruct (IH l x r H) as (H1 & H2 & H3). cbn [length nth]. repeat split; try assumption. lia.
Qed.

(* the filter closure is Codec.compatible on the part of the code below [depth] *)
Lemma hpossible_gen depth code : forall sb k,
  forallb (fun '(depth_incr, bit) =>
             let total_depth := (depth + depth_incr)%nat in
             negb ((total_depth <? length code)%nat
                   && negb (Bool.eqb (nth total_depth code false) bit)))
          (combine (seq k (length sb)) sb)
  = compatible (skipn (depth + k) code) sb.
Proof.
  induction sb as [|b r IH]; intros k.
  - cbn [length seq combine forallb]. rewrite compatible_nil_r. reflexivity.
  - cbn [length seq combine forallb]. rewrite IH. cbv zeta.
    destruct (skipn (depth + k) code) as [|x c'] eqn:E.
    + assert (Hl : (length code <= depth + k)%nat).
      { pose proof (skipn_length (depth + k) code) as L. rewrite E in L. cbn [length] in L. lia. }
      replace (depth + k <? length code)%nat with false by (symmetry; apply Nat.ltb_ge; lia).
      cbn [andb negb]. rewrite skipn_all2 by lia. reflexivity.
    + destruct (skipn_cons_nth false _ _ _ _ E) as (H1 & H2 & H3).
      replace (depth + k <? length code)%nat with true by (symmetry; apply Nat.ltb_lt; lia).
      rewrite H2. replace (depth + S k)%nat with (S (depth + k)) by lia. rewrite H3.
      cbn [compatible andb]. rewrite negb_involutive. reflexivity.
Qed.

Lemma hpossible_compatible depth sb p :
  hpossible depth sb p = compatible (skipn depth (p_code p)) sb.
Proof.
  pose proof (hpossible_gen depth (p_code p) sb 0) as H. rewrite Nat.add_0_r in H. exact H.
Qed.

Lemma hcollect_ok {A} : forall (l : list (res A)) cs, hcollect l = Ok cs -> l = map Ok cs.
Proof.
  induction l as [|r l IH]; intros cs H; cbn [hcollect] in H.
  - inversion H. reflexivity.
  - destruct r as [c|k|]; cbn [bind] in H; try discriminate.
    destruct (hcollect l) as [cs'|k|]; cbn [bind] in H; try discriminate.
    inversion H; subst. cbn [map]. f_equal. apply IH. reflexivity.
Qed.

Lemma hcollect_map_ok {A} : forall (cs : list A), hcollect (map Ok cs) = Ok cs.
Proof.
  induction cs as [|c cs IH]; [reflexivity|]. cbn [map hcollect bind]. rewrite IH. reflexivity.
Qed.

(* the candidate filter of one stride, as Codec.tsearch writes it *)
Definition hfilter (cands : list prefix) (dpt : nat) (idxbits : bits) : list prefix :=
  filter (fun p => compatible (skipn dpt (p_code p)) idxbits) cands.

Definition hstride (cands : list prefix) (dpt : nat) : nat :=
  Nat.min stride (max_code_len cands - dpt).

Lemma hbuild_single f p d : hbuild f [p] d = Ok (HLeaf p).
Proof. destruct f; reflexivity. Qed.

Lemma hbuild_nil f d : hbuild f [] d = Panic.
Proof. destruct f; reflexivity. Qed.

Lemma hbuild_unfold f cands dpt : (2 <= length cands)%nat ->
  hbuild (S f) cands dpt =
    (if (max_code_len cands <? dpt)%nat then Panic else
     do children <- hcollect (map (fun idx =>
          hbuild f (filter (hpossible dpt (hsub_bits (hstride cands dpt) (N.of_nat idx))) cands)
                 (dpt + hstride cands dpt)) (seq 0 (2 ^ hstride cands dpt)));
     Ok (HNode (N.of_nat (hstride cands dpt)) children)).
Proof.
  intros H. destruct cands as [|q [|q2 r]]; cbn [length] in H; try lia.
  unfold hstride. rewrite <- stride_to_nat. reflexivity.
Qed.

(* inversion of a successful build on a list that is not a singleton *)
Lemma hbuild_node_inv fuel cands dpt node :
  (forall q, cands <> [q]) ->
  hbuild fuel cands dpt = Ok node ->
  exists f children,
    fuel = S f /\ (2 <= length cands)%nat /\ (dpt <= max_code_len cands)%nat /\
    node = HNode (N.of_nat (hstride cands dpt)) children /\
    forall idx, idx < 2 ^ N.of_nat (hstride cands dpt) ->
      exists c, nth_error children (N.to_nat idx) = Some c /\
                hbuild f (hfilter cands dpt (putn (hstride cands dpt) idx))
                       (dpt + hstride cands dpt) = Ok c.
Proof.
  intros Hns H.
  assert (Hlen : (2 <= length cands)%nat).
  { destruct cands as [|q [|q2 r]]; [rewrite hbuild_nil in H; discriminate
                                    | exfalso; apply (Hns q); reflexivity
                                    | cbn [length]; lia]. }
  destruct fuel as [|f].
  { destruct cands as [|q [|q2 r]]; cbn [length] in Hlen; try lia. discriminate. }
  rewrite (hbuild_unfold f cands dpt Hlen) in H.
  destruct (Nat.ltb_spec (max_code_len cands) dpt) as [Hlt|Hge]; [discriminate|].
  destruct (hcollect _) as [children|k|] eqn:EC; cbn [bind] in H; try discriminate.
  inversion H; subst node. clear H.
  exists f, children. split; [reflexivity|]. split; [exact Hlen|].
  split; [exact Hge|]. split; [reflexivity|].
  intros idx Hidx. apply hcollect_ok in EC.
  set (t := hstride cands dpt) in *.
  assert (Hpow : N.of_nat (2 ^ t) = 2 ^ N.of_nat t).
  { clear. induction t as [|t IH]; [reflexivity|].
    rewrite Nat2N.inj_succ, N.pow_succ_r', <- IH. rewrite Nat.pow_succ_r'. lia. }
  assert (Hi : (N.to_nat idx < 2 ^ t)%nat) by lia.
  pose proof (f_equal (fun l => nth_error l (N.to_nat idx)) EC) as EN. cbv beta in EN.
  assert (Eseq : nth_error (seq 0 (2 ^ t)) (N.to_nat idx) = Some (N.to_nat idx)).
  { rewrite nth_error_nth' with (d := O) by (rewrite seq_length; exact Hi).
    rewrite seq_nth by exact Hi. reflexivity. }
  rewrite (map_nth_error _ _ _ Eseq) in EN.
  destruct (nth_error children (N.to_nat idx)) as [c|] eqn:Ec.
  - rewrite (map_nth_error _ _ _ Ec) in EN. inversion EN as [EN']. exists c. split; [reflexivity|].
    rewrite <- EN'. unfold hfilter. rewrite N2Nat.id. f_equal.
    apply filter_ext. intros p. rewrite hpossible_compatible, hsub_bits_putn. reflexivity.
  - exfalso. apply nth_error_None in Ec.
    assert (L : length (map (@Ok htable) children) = (2 ^ t)%nat).
    { rewrite <- EC, map_length, seq_length. reflexivity. }
    rewrite map_length in L. lia.
Qed.

Lemma hbuild_leaf_inv fuel cands dpt p : hbuild fuel cands dpt = Ok (HLeaf p) -> cands = [p].
Proof.
  intros H. destruct cands as [|q [|q2 r]].
  - rewrite hbuild_nil in H. discriminate.
  - rewrite hbuild_single in H. inversion H. reflexivity.
  - destruct (hbuild_node_inv fuel (q :: q2 :: r) dpt _ ltac:(intros; discriminate) H)
      as (f & ch & _ & _ & _ & E & _). discriminate.
Qed.

(* ================================================================== *)
(* 2. read_prefix_table_idx / unchecked_read_prefix_table_idx           *)
(* ================================================================== *)
Lemma land_mask_word w j : w < 2 ^ 64 -> j <= 64 ->
  N.land w (N.shiftr usize_max j) = w mod 2 ^ (64 - j).
Proof.
  intros Hw Hj. rewrite <- (land_mask w j Hj). unfold trunc_word, word_mod.
  rewrite N.mod_small by exact Hw. reflexivity.
Qed.

(* rd_unchecked_read_diff on at most two words *)
Lemma diff_one_word ws i j t : j < 64 -> 1 <= t -> t + j <= 64 ->
  rd_unchecked_read_diff ws i j t
  = (N.shiftr (N.land (rd_word ws i) (N.shiftr usize_max j)) (64 - (t + j)), (i, t + j)).
Proof.
  intros Hj Ht Hle. unfold rd_unchecked_read_diff, rd_refresh, WORD_SIZE.
  destruct (N.eqb_spec t 0) as [E|_]; [lia|].
  destruct (N.eqb_spec j 64) as [E|_]; [lia|].
  destruct (N.leb_spec (t + j) 64) as [_|H]; [reflexivity|lia].
Qed.

Lemma diff_two_words ws i j t : j < 64 -> 64 < t + j -> t + j - 64 < 64 ->
  rd_unchecked_read_diff ws i j t
  = (N.lor (N.shiftl (N.land (rd_word ws i) (N.shiftr usize_max j)) (t + j - 64))
           (N.shiftr (rd_word ws (i + 1)) (64 - (t + j - 64))), (i + 1, t + j - 64)).
Proof.
  intros Hj Hgt Hlt. unfold rd_unchecked_read_diff, rd_refresh, WORD_SIZE.
  destruct (N.eqb_spec t 0) as [E|_]; [lia|].
  destruct (N.eqb_spec j 64) as [E|_]; [lia|].
  destruct (N.leb_spec (t + j) 64) as [H|_]; [lia|].
  rewrite (N.div_small (t + j - 64) 64) by exact Hlt. cbn [N.to_nat rd_diff_loop].
  destruct (N.ltb_spec 0 (t + j - 64)) as [_|H]; [reflexivity|lia].
Qed.

Lemma diff_value ws i j t :
  words_ok ws -> j <= 64 -> 64 * i + j + t <= 64 * Nlen ws ->
  fst (rd_unchecked_read_diff ws i j t)
  = bits_val (seg ws (N.to_nat (64 * i + j)) (N.to_nat t)).
Proof.
  intros Hok Hj Hfit. pose proof (rd_unchecked_read_diff_spec ws i j t Hok Hj Hfit) as S.
  destruct (rd_unchecked_read_diff ws i j t) as [v [i' j']]. destruct S as (G & _).
  rewrite get_ok_firstn in G.
  - inversion G as [[Hv Hs]]. reflexivity.
  - rewrite skipn_length, words_bits_length. unfold Nlen in Hfit. lia.
Qed.

(* the padded stream under the BitWords invariant *)
Lemma bw_tb_le ws tb : bw_ok ws tb -> tb <= 64 * Nlen ws /\ 64 * Nlen ws < tb + 64.
Proof. intros (_ & Hl & _). unfold ceil_div in Hl. lia. Qed.

Lemma bw_stream_pad ws tb pos : bw_ok ws tb -> pos <= tb ->
  skipn (N.to_nat pos) (words_bits ws)
  = rd_stream ws tb pos ++ zeros (N.to_nat (64 * Nlen ws - tb)).
Proof.
  intros Hbw Hp. pose proof (bw_tb_le ws tb Hbw) as [Hle _].
  destruct Hbw as (_ & _ & Hz). rewrite Hz at 1. unfold rd_stream.
  assert (L : length (bw_bits ws tb) = N.to_nat tb).
  { unfold bw_bits. rewrite firstn_length_le; [reflexivity|].
    rewrite words_bits_length. unfold Nlen in Hle. lia. }
  rewrite skipn_app, L. replace (N.to_nat pos - N.to_nat tb)%nat with O by lia. reflexivity.
Qed.

Lemma firstn_app_zeros : forall t s k, (t <= length s + k)%nat ->
  firstn t (s ++ zeros k) = zpad t s.
Proof.
  induction t as [|t IH]; intros s k H; [reflexivity|].
  destruct s as [|x s].
  - destruct k as [|k]; [cbn [length] in H; lia|].
    cbn [app zeros repeat firstn zpad]. f_equal.
    apply (IH [] k). cbn [length] in *. lia.
  - cbn [app firstn zpad]. f_equal. apply IH. cbn [length] in H. lia.
Qed.

Lemma zpad_short : forall t s, (length s <= t)%nat -> zpad t s = s ++ zeros (t - length s).
Proof.
  induction t as [|t IH]; intros s H.
  - destruct s; [reflexivity|cbn [length] in H; lia].
  - destruct s as [|x s].
    + cbn [zpad length app Nat.sub zeros repeat]. f_equal. rewrite (IH [] ltac:(cbn; lia)).
      cbn [length app]. rewrite Nat.sub_0_r. reflexivity.
    + cbn [zpad length app Nat.sub]. f_equal. apply IH. cbn [length] in H. lia.
Qed.

Lemma seg_zpad ws tb pos t : bw_ok ws tb -> pos <= tb -> pos + t <= 64 * Nlen ws ->
  seg ws (N.to_nat pos) (N.to_nat t) = zpad (N.to_nat t) (rd_stream ws tb pos).
Proof.
  intros Hbw Hp Hfit. unfold seg. rewrite (bw_stream_pad ws tb pos Hbw Hp).
  apply firstn_app_zeros. pose proof (bw_tb_le ws tb Hbw) as [Hle _].
  rewrite rd_stream_length by exact Hle. lia.
Qed.

Lemma rd_refresh_cases i j : j <= 64 ->
  exists i1 j1, rd_refresh i j = (i1, j1) /\ 64 * i1 + j1 = 64 * i + j /\ j1 < 64 /\
                j1 = (64 * i + j) mod 64.
Proof.
  intros H. unfold rd_refresh, WORD_SIZE. destruct (N.eqb_spec j 64) as [->|Hne].
  - exists (i + 1), 0. repeat split; lia.
  - exists i, j. repeat split; lia.
Qed.

(* -------- unchecked: a t-bit read inside the words -------- *)
Lemma rd_unchecked_read_prefix_table_idx_spec ws i j t :
  words_ok ws -> j <= 64 -> 1 <= t <= 64 -> 64 * i + j + t <= 64 * Nlen ws ->
  exists i' j',
    rd_unchecked_read_prefix_table_idx ws i j t
    = Ok (bits_val (seg ws (N.to_nat (64 * i + j)) (N.to_nat t)), (i', j')) /\
    64 * i' + j' = 64 * i + j + t /\ j' <= 64.
Proof.
  intros Hok Hj Ht Hfit. unfold rd_unchecked_read_prefix_table_idx.
  destruct (rd_refresh_cases i j Hj) as (i1 & j1 & -> & Hp1 & Hj1 & _).
  rewrite <- Hp1 in *. unfold WORD_SIZE.
  assert (Hi1 : i1 < Nlen ws) by lia.
  pose proof (diff_value ws i1 j1 t Hok ltac:(lia) Hfit) as DV.
  unfold rd_word_chk. destruct (N.ltb_spec i1 (Nlen ws)) as [_|H]; [|lia]. cbn [bind].
  destruct (N.leb_spec (t + j1) 64) as [Hle|Hgt].
  - unfold shr_chk, WORD_SIZE. destruct (N.leb_spec 64 (64 - (t + j1))) as [H|_]; [lia|].
    cbn [bind]. rewrite diff_one_word in DV by lia. cbn [fst] in DV. rewrite DV.
    exists i1, (t + j1). split; [reflexivity|]. lia.
  - destruct (N.ltb_spec (i1 + 1) (Nlen ws)) as [_|H]; [|lia]. cbn [bind].
    rewrite diff_two_words in DV by lia. cbn [fst] in DV. rewrite <- DV.
    exists (i1 + 1), (t + j1 - 64). split; [|lia]. do 3 f_equal.
    unfold lshift_word, trunc_word, word_mod. apply N.mod_small.
    rewrite land_mask_word by (try apply rd_word_lt; try exact Hok; lia).
    rewrite N.shiftl_mul_pow2.
    apply N.lt_le_trans with (2 ^ (64 - j1) * 2 ^ (t + j1 - 64)).
    + apply N.mul_lt_mono_pos_r; [apply pow2_pos|]. apply N.mod_lt. apply pow2_nz.
    + rewrite <- N.pow_add_r. apply N.pow_le_mono_r; lia.
Qed.

(* -------- checked: the three cases -------- *)
(* [V] is the index every case produces: the t bits of the zero padded stream *)
Lemma rd_read_prefix_table_idx_spec ws tb i j t :
  bw_ok ws tb -> j <= 64 -> 1 <= t <= 64 ->
  let pos := 64 * i + j in
  let jr := pos mod 64 in
  let a := tb - pos in
  let V := bits_val (zpad (N.to_nat t) (rd_stream ws tb pos)) in
  if tb <=? pos then rd_read_prefix_table_idx ws i j tb t = Err InsufficientData
  else if t + jr <=? 64 then
    exists i' j', rd_read_prefix_table_idx ws i j tb t = Ok ((N.min t a, V), (i', j')) /\
                  64 * i' + j' = pos + N.min t a /\ j' <= 64
  else if a <=? 64 - jr then
    exists i', rd_read_prefix_table_idx ws i j tb t = Ok ((64 - jr, V), (i', 64)) /\
               tb < 64 * i' + 64
  else
    exists i' j', rd_read_prefix_table_idx ws i j tb t = Ok ((t, V), (i', j')) /\
                  64 * i' + j' = pos + t /\ j' <= 64.
Proof.
  intros Hbw Hj Ht. cbv zeta.
  pose proof (bw_tb_le ws tb Hbw) as [Hle Hex].
  assert (Hok : words_ok ws) by (destruct Hbw; assumption).
  unfold rd_read_prefix_table_idx, rd_bit_idx, WORD_SIZE.
  destruct (N.leb_spec tb (64 * i + j)) as [Hend|Hin]; [reflexivity|].
  destruct (rd_refresh_cases i j Hj) as (i1 & j1 & -> & Hp1 & Hj1 & Hjr).
  rewrite <- Hjr. rewrite <- Hp1 in *.
  assert (Hi1 : i1 < Nlen ws) by lia.
  unfold rd_word_chk. destruct (N.ltb_spec i1 (Nlen ws)) as [_|H]; [|lia]. cbn [bind].
  destruct (N.leb_spec (t + j1) 64) as [HA|HBC].
  - (* A *)
    unfold shr_chk, WORD_SIZE. destruct (N.leb_spec 64 (64 - (t + j1))) as [H|_]; [lia|].
    cbn [bind]. exists i1, (j1 + N.min t (tb - (64 * i1 + j1))). split; [|lia].
    do 3 f_equal.
    pose proof (diff_value ws i1 j1 t Hok ltac:(lia) ltac:(lia)) as DV.
    rewrite diff_one_word in DV by lia. cbn [fst] in DV. rewrite DV.
    rewrite (seg_zpad ws tb (64 * i1 + j1) t Hbw) by lia. reflexivity.
  - destruct (N.ltb_spec (i1 + 1) (Nlen ws)) as [Hnext|Hlast].
    + (* B *)
      destruct (N.leb_spec (tb - (64 * i1 + j1)) (64 - j1)) as [H|_]; [lia|].
      exists (i1 + 1), (t + j1 - 64). split; [|lia]. do 3 f_equal.
      pose proof (diff_value ws i1 j1 t Hok ltac:(lia) ltac:(lia)) as DV.
      rewrite diff_two_words in DV by lia. cbn [fst] in DV.
      rewrite <- (seg_zpad ws tb (64 * i1 + j1) t Hbw) by lia. rewrite <- DV. f_equal.
      unfold lshift_word, trunc_word, word_mod. apply N.mod_small.
      rewrite land_mask_word by (try apply rd_word_lt; try exact Hok; lia).
      rewrite N.shiftl_mul_pow2.
      apply N.lt_le_trans with (2 ^ (64 - j1) * 2 ^ (t + j1 - 64)).
      * apply N.mul_lt_mono_pos_r; [apply pow2_pos|]. apply N.mod_lt. apply pow2_nz.
      * rewrite <- N.pow_add_r. apply N.pow_le_mono_r; lia.
    + (* C *)
      destruct (N.leb_spec (tb - (64 * i1 + j1)) (64 - j1)) as [Hshort|H]; [|lia].
      exists (i1 + 1). split; [|lia].
      replace (t - (t + j1 - 64)) with (64 - j1) by lia. do 3 f_equal.
      pose proof (diff_value ws i1 j1 (64 - j1) Hok ltac:(lia) ltac:(lia)) as DV.
      rewrite diff_one_word in DV by lia. cbn [fst] in DV.
      replace (64 - (64 - j1 + j1)) with 0 in DV by lia. rewrite N.shiftr_0_r in DV.
      rewrite DV. rewrite (seg_zpad ws tb (64 * i1 + j1) (64 - j1) Hbw) by lia.
      set (s := rd_stream ws tb (64 * i1 + j1)).
      assert (Ls : length s = N.to_nat (tb - (64 * i1 + j1)))
        by (apply rd_stream_length; exact Hle).
      replace (N.to_nat t) with (N.to_nat (64 - j1) + N.to_nat (t + j1 - 64))%nat by lia.
      rewrite (zpad_add (N.to_nat (64 - j1)) (N.to_nat (t + j1 - 64)) s).
      rewrite (skipn_all2 s) by lia.
      rewrite (zpad_short (N.to_nat (t + j1 - 64)) []) by (cbn [length]; lia).
      cbn [length app]. rewrite Nat.sub_0_r.
      rewrite bits_val_app, zeros_length, bits_val_zeros, N.add_0_r, N2Nat.id.
      unfold lshift_word, trunc_word, word_mod. rewrite N.shiftl_mul_pow2.
      apply N.mod_small.
      pose proof (bits_val_lt (zpad (N.to_nat (64 - j1)) s)) as B. rewrite zpad_length in B.
      rewrite N2Nat.id in B.
      apply N.lt_le_trans with (2 ^ (64 - j1) * 2 ^ (t + j1 - 64)).
      * apply N.mul_lt_mono_pos_r; [apply pow2_pos|exact B].
      * rewrite <- N.pow_add_r. apply N.pow_le_mono_r; lia.
Qed.

(* ================================================================== *)
(* 3. one stride of Codec.tsearch, with the real position              *)
(* ================================================================== *)
(* Codec.tsearch looks at the position only when fewer than 64 + stride bits are left; with the
   position computed always the three cases of read_prefix_table_idx are plain to see *)
Definition tstep (f : nat) (tb : N) (cands : list prefix) (dpt : nat) (s : bits) : res prefix :=
  let t := hstride cands dpt in
  let a := length s in
  let j := N.to_nat ((tb - Nlen s) mod 64) in
  let cands' := hfilter cands dpt (zpad t s) in
  if Nat.eqb a 0 then Err InsufficientData
  else if Nat.leb (t + j) 64 then
    if Nat.leb t a then tsearch f tb cands' (dpt + t) (skipn t s)
    else match cands' with
         | [p] => if Nat.eqb (length (p_code p)) (dpt + a) then Ok p else Err InsufficientData
         | _ => Err InsufficientData
         end
  else if Nat.leb a (64 - j) then Err InsufficientData
  else tsearch f tb cands' (dpt + t) (skipn t s).

Lemma tsearch_tstep f tb cands dpt s : (forall q, cands <> [q]) ->
  tsearch (S f) tb cands dpt s = tstep f tb cands dpt s.
Proof.
  intros Hns. unfold tstep, hstride, hfilter.
  pose proof stride_le_footer as Hs8.
  destruct cands as [|q [|q2 r]]; [ | exfalso; apply (Hns q); reflexivity | ];
  cbn [tsearch]; cbv zeta; rewrite firstn_zpad, firstn_length;
  set (t := Nat.min stride (max_code_len _ - dpt));
  assert (Ht : (t <= stride)%nat) by (unfold t; lia);
  set (cands' := filter _ _); clearbody cands' t;
  set (jr := N.to_nat ((tb - Nlen s) mod 64));
  assert (Hjr : (jr < 64)%nat) by (unfold jr; lia); clearbody jr;
  set (a := length s); clearbody a;
  (destruct (Nat.eqb_spec (Nat.min (64 + stride) a) 0) as [E0|E0];
   destruct (Nat.eqb_spec a 0) as [E1|E1]; try lia; [reflexivity|]);
  (destruct (Nat.ltb_spec (Nat.min (64 + stride) a) (64 + stride)) as [Hlt|Hge];
   [ replace (Nat.min (64 + stride) a) with a by lia;
     destruct (Nat.leb_spec (t + jr) 64) as [HA|HA]; cbn [negb andb];
     [ destruct (Nat.eqb_spec (Nat.min t a) t) as [E2|E2];
       destruct (Nat.leb_spec t a) as [E3|E3]; try lia; [reflexivity|];
       replace (Nat.min t a) with a by lia; reflexivity
     | destruct (Nat.ltb_spec (64 - jr) a) as [E2|E2];
       destruct (Nat.leb_spec a (64 - jr)) as [E3|E3]; try lia; cbn [negb];
       [rewrite Nat.eqb_refl; reflexivity | reflexivity] ]
   | destruct (Nat.leb_spec (t + 0) 64) as [HA|HA]; [|lia]; cbn [negb andb];
     destruct (Nat.eqb_spec (Nat.min t (Nat.min (64 + stride) a)) t) as [E2|E2]; [|lia];
     destruct (Nat.leb_spec (t + jr) 64) as [HB|HB];
     [ destruct (Nat.leb_spec t a) as [E3|E3]; [reflexivity|lia]
     | destruct (Nat.leb_spec a (64 - jr)) as [E3|E3]; [lia|reflexivity] ] ]).
Qed.

(* ================================================================== *)
(* 4. search_with_reader against Codec.tsearch                          *)
(* ================================================================== *)
Definition hnode_cont (ws : list N) (tb t bits_read read_depth1 i1 j1 : N) (c : htable)
  : res (prefix * (N * N)) :=
  if negb (bits_read =? t) then
    match c with
    | HLeaf info => if hdepth info =? read_depth1 then Ok (info, (i1, j1))
                    else Err InsufficientData
    | HNode _ _ => Err InsufficientData
    end
  else hsearch_loop ws tb c read_depth1 i1 j1.

Lemma hsearch_loop_node ws tb t children rd i j :
  hsearch_loop ws tb (HNode t children) rd i j =
  do '((bits_read, idx), (i1, j1)) <- rd_read_prefix_table_idx ws i j tb t;
  match nth_error children (N.to_nat idx) with
  | Some c => hnode_cont ws tb t bits_read (rd + bits_read) i1 j1 c
  | None => Panic
  end.
Proof.
  cbn [hsearch_loop].
  destruct (rd_read_prefix_table_idx ws i j tb t) as [[[br idx] [i1 j1]]|k|];
    cbn [bind]; try reflexivity.
  generalize (N.to_nat idx). induction children as [|c r IH]; intros k; destruct k;
    cbn [nth_error]; try reflexivity. apply IH.
Qed.

Lemma compatible_short_prefix : forall c B,
  compatible c B = true -> (length c <= length B)%nat -> is_prefix_of c B = true.
Proof.
  induction c as [|x c IH]; intros B H Hl; [reflexivity|].
  destruct B as [|y B]; [cbn [length] in Hl; lia|].
  cbn [compatible is_prefix_of length] in *. apply andb_true_iff in H. destruct H as [-> H].
  cbn [andb]. apply IH; [exact H|lia].
Qed.

(* two candidates compatible with the same path: the path is shorter than their codes *)
Lemma several_depth ps B cands : table_ok ps = true ->
  cands = filter (fun q => compatible (p_code q) B) ps -> (2 <= length cands)%nat ->
  (length B < max_code_len cands)%nat.
Proof.
  intros Hok Hc Hl.
  assert (HP : pairwise_nonprefix (map p_code cands)).
  { rewrite Hc. apply pairwise_filter. apply table_ok_pairwise. exact Hok. }
  assert (HC : forall q, In q cands -> compatible (p_code q) B = true).
  { intros q Hq. rewrite Hc in Hq. apply filter_In in Hq. tauto. }
  destruct cands as [|q [|q2 r]]; cbn [length] in Hl; try lia.
  pose proof (HC q ltac:(left; reflexivity)) as Hq.
  pose proof (HC q2 ltac:(right; left; reflexivity)) as Hq2.
  rewrite max_code_len_cons.
  destruct (Nat.lt_ge_cases (length B) (length (p_code q))) as [H|H]; [lia|exfalso].
  pose proof (compatible_short_prefix _ _ Hq H) as Hp.
  cbn [map pairwise_nonprefix] in HP. destruct HP as [HF _].
  inversion HF as [|? ? [N1 N2] _]; subst.
  destruct (prefix_compatible_cases B _ _ Hp Hq2); congruence.
Qed.

(* outcome of the literal search against the outcome of tsearch, [p0] = start of the code *)
Definition hrel (tb p0 : N) (h : res (prefix * (N * N))) (tr : res prefix) : Prop :=
  match h with
  | Ok (p, (i', j')) =>
      j' <= 64 /\
      ((tr = Ok p /\ 64 * i' + j' = p0 + Nlen (p_code p))
       \/ (tr = Err InsufficientData /\ tb < 64 * i' + j'))
  | Err k => k = InsufficientData /\ tr = Err InsufficientData
  | Panic => False
  end.

Lemma skipn_rd_stream ws tb p0 dpt :
  skipn dpt (rd_stream ws tb p0) = rd_stream ws tb (p0 + N.of_nat dpt).
Proof. rewrite <- (Nat2N.id dpt) at 1. apply rd_stream_skipn. Qed.

Lemma hsearch_loop_sim ws tb ps p0 :
  bw_ok ws tb -> table_ok ps = true ->
  forall fb ft cands dpt node i j,
  (max_code_len cands - dpt <= stride * ft)%nat ->
  hbuild fb cands dpt = Ok node ->
  cands = filter (fun q => compatible (p_code q) (zpad dpt (rd_stream ws tb p0))) ps ->
  j <= 64 -> 64 * i + j = p0 + N.of_nat dpt ->
  hrel tb p0 (hsearch_loop ws tb node (N.of_nat dpt) i j)
       (tsearch ft tb cands dpt (skipn dpt (rd_stream ws tb p0))).
Proof.
  intros Hbw Hok. set (orig := rd_stream ws tb p0).
  pose proof stride_pos as Hs1. pose proof stride_le_footer as Hs8.
  pose proof (bw_tb_le ws tb Hbw) as [Hle Hex].
  induction fb as [|f IH]; intros ft cands dpt node i j Hfuel Hb Hc Hj Hpos.
  - (* no build fuel: only a leaf can have been built *)
    destruct cands as [|q [|q2 r]]; [rewrite hbuild_nil in Hb; discriminate| |discriminate].
    rewrite hbuild_single in Hb. inversion Hb; subst node. clear Hb.
    pose proof (single_depth ps _ q Hok (eq_sym Hc)) as SD. rewrite zpad_length in SD.
    cbn [hsearch_loop]. unfold hdepth, Nlen.
    destruct (N.ltb_spec (N.of_nat dpt) (N.of_nat (length (p_code q)))) as [H|_]; [lia|].
    unfold rd_rewind, rd_bit_idx, WORD_SIZE.
    destruct (N.ltb_spec (64 * i + j) (N.of_nat dpt - N.of_nat (length (p_code q)))) as [H|_];
      [lia|]. cbn [bind]. unfold rd_seek_to, WORD_SIZE. cbn [hrel].
    split; [lia|]. left. split; [apply tsearch_single|]. unfold Nlen. lia.
  - destruct cands as [|q [|q2 r]]; [rewrite hbuild_nil in Hb; discriminate| |].
    + (* leaf *)
      rewrite hbuild_single in Hb. inversion Hb; subst node. clear Hb.
      pose proof (single_depth ps _ q Hok (eq_sym Hc)) as SD. rewrite zpad_length in SD.
      cbn [hsearch_loop]. unfold hdepth, Nlen.
      destruct (N.ltb_spec (N.of_nat dpt) (N.of_nat (length (p_code q)))) as [H|_]; [lia|].
      unfold rd_rewind, rd_bit_idx, WORD_SIZE.
      destruct (N.ltb_spec (64 * i + j) (N.of_nat dpt - N.of_nat (length (p_code q)))) as [H|_];
        [lia|]. cbn [bind]. unfold rd_seek_to, WORD_SIZE. cbn [hrel].
      split; [lia|]. left. split; [apply tsearch_single|]. unfold Nlen. lia.
    + (* table node *)
      set (cands := q :: q2 :: r) in *.
      assert (Hns : forall x, cands <> [x]) by (intros x; unfold cands; discriminate).
      destruct (hbuild_node_inv _ _ _ _ Hns Hb) as (f' & children & Ef & Hlen & Hd & -> & Hch).
      inversion Ef; subst f'. clear Ef.
      pose proof (several_depth ps _ cands Hok Hc Hlen) as HSD. rewrite zpad_length in HSD.
      destruct ft as [|ft]; [lia|].
      set (t := hstride cands dpt) in *.
      assert (Ht : (1 <= t <= stride)%nat) by (unfold t, hstride; lia).
      assert (Ht2 : (max_code_len cands - (dpt + t) <= stride * ft)%nat) by (unfold t, hstride; lia).
      rewrite (tsearch_tstep ft tb cands dpt _ Hns). unfold tstep. fold t. cbv zeta.
      assert (Hs : skipn dpt orig = rd_stream ws tb (64 * i + j)).
      { unfold orig. rewrite skipn_rd_stream, Hpos. reflexivity. }
      set (s := skipn dpt orig) in *.
      assert (Ls : length s = N.to_nat (tb - (64 * i + j))).
      { rewrite Hs. apply rd_stream_length. exact Hle. }
      assert (LsN : Nlen s = tb - (64 * i + j)) by (unfold Nlen; lia).
      set (cands' := hfilter cands dpt (zpad t s)).
      assert (Hc' : cands' = filter (fun x => compatible (p_code x) (zpad (dpt + t) orig)) ps).
      { unfold cands', hfilter, s. rewrite Hc. apply cands_step. }
      (* the child reached *)
      set (V := bits_val (zpad t s)).
      assert (HV : V < 2 ^ N.of_nat t).
      { unfold V. pose proof (bits_val_lt (zpad t s)) as B. rewrite zpad_length in B. exact B. }
      destruct (Hch V HV) as (c & Hnth & Hbc).
      replace (putn t V) with (zpad t s) in Hbc
        by (symmetry; apply putn_bits_val_len; apply zpad_length).
      fold cands' in Hbc.
      (* a full stride goes on with the child *)
      assert (Hcont : forall i' j', j' <= 64 -> 64 * i' + j' = 64 * i + j + N.of_nat t ->
                hrel tb p0 (hsearch_loop ws tb c (N.of_nat dpt + N.of_nat t) i' j')
                     (tsearch ft tb cands' (dpt + t) (skipn t s))).
      { intros i' j' Hj' Hp'. unfold s. rewrite skipn_skipn', <- Nat2N.inj_add.
        apply IH; try assumption; [|lia].
        pose proof (max_code_len_filter
                      (fun p => compatible (skipn dpt (p_code p)) (zpad t (skipn dpt orig))) cands) as MF.
        fold (hfilter cands dpt (zpad t (skipn dpt orig))) in MF. fold s in MF. fold cands' in MF.
        lia. }
      (* a short read ends the search at once *)
      assert (Hshort : forall br i' j', br <> N.of_nat t ->
                hnode_cont ws tb (N.of_nat t) br (N.of_nat dpt + br) i' j' c
                = match cands' with
                  | [p] => if Nlen (p_code p) =? N.of_nat dpt + br then Ok (p, (i', j'))
                           else Err InsufficientData
                  | _ => Err InsufficientData
                  end).
      { intros br i' j' Hbr. unfold hnode_cont.
        destruct (N.eqb_spec br (N.of_nat t)) as [E|_]; [congruence|]. cbn [negb].
        destruct c as [pl|t2 ch2].
        - rewrite (hbuild_leaf_inv _ _ _ _ Hbc). reflexivity.
        - destruct cands' as [|p' [|p'' r']]; try reflexivity.
          rewrite hbuild_single in Hbc. discriminate. }
      rewrite hsearch_loop_node.
      pose proof (rd_read_prefix_table_idx_spec ws tb i j (N.of_nat t) Hbw Hj ltac:(lia)) as R. cbv zeta in R.
      rewrite Nat2N.id in R. rewrite <- Hs in R. fold V in R.
      destruct (N.leb_spec tb (64 * i + j)) as [Hend|Hin].
      { rewrite R. cbn [bind hrel].
        destruct (Nat.eqb_spec (length s) 0) as [_|E]; [split; reflexivity|lia]. }
      destruct (Nat.eqb_spec (length s) 0) as [E|_]; [lia|].
      rewrite LsN. replace (tb - (tb - (64 * i + j))) with (64 * i + j) by lia.
      set (jr := (64 * i + j) mod 64) in *.
      assert (Hjr : jr < 64) by (unfold jr; lia).
      destruct (N.leb_spec (N.of_nat t + jr) 64) as [HA|HBC].
      * (* A: inside the current word *)
        destruct R as (i' & j' & -> & Hp' & Hj'). cbn [bind]. rewrite Hnth.
        destruct (Nat.leb_spec (t + N.to_nat jr) 64) as [_|H]; [|lia].
        destruct (Nat.leb_spec t (length s)) as [Hfull|Hcut].
        -- rewrite N.min_l in * by lia. unfold hnode_cont. rewrite N.eqb_refl. cbn [negb].
           apply Hcont; assumption.
        -- rewrite N.min_r in * by lia. rewrite Hshort by lia.
           destruct cands' as [|p' [|p'' r']]; cbn [hrel]; try (split; reflexivity).
           unfold Nlen.
           destruct (N.eqb_spec (N.of_nat (length (p_code p'))) (N.of_nat dpt + (tb - (64 * i + j))))
             as [E|E];
           destruct (Nat.eqb_spec (length (p_code p')) (dpt + length s)) as [E'|E']; try lia;
             cbn [hrel]; [|split; reflexivity].
           split; [exact Hj'|]. left. split; [reflexivity|]. unfold Nlen. lia.
      * destruct (Nat.leb_spec (t + N.to_nat jr) 64) as [H|_]; [lia|].
        destruct (N.leb_spec (tb - (64 * i + j)) (64 - jr)) as [HC|HB].
        -- (* C: the stride crosses into a word that does not exist *)
           destruct R as (i' & -> & Hp'). cbn [bind]. rewrite Hnth.
           destruct (Nat.leb_spec (length s) (64 - N.to_nat jr)) as [_|H]; [|lia].
           rewrite Hshort by lia.
           destruct cands' as [|p' [|p'' r']]; cbn [hrel]; try (split; reflexivity).
           destruct (Nlen (p_code p') =? N.of_nat dpt + (64 - jr)); cbn [hrel];
             [|split; reflexivity].
           split; [lia|]. right. split; [reflexivity|exact Hp'].
        -- (* B: the stride crosses into the next word *)
           destruct R as (i' & j' & -> & Hp' & Hj'). cbn [bind]. rewrite Hnth.
           destruct (Nat.leb_spec (length s) (64 - N.to_nat jr)) as [H|_]; [lia|].
           unfold hnode_cont. rewrite N.eqb_refl. cbn [negb].
           apply Hcont; assumption.
Qed.

(* ================================================================== *)
(* 5. a validated table is built without panic                          *)
(* ================================================================== *)
Lemma hcollect_all_ok {A B} (g : A -> res B) : forall l,
  (forall x, In x l -> exists c, g x = Ok c) -> exists cs, hcollect (map g l) = Ok cs.
Proof.
  induction l as [|x l IH]; intros H; [exists []; reflexivity|].
  destruct (H x ltac:(left; reflexivity)) as (c & Ec).
  destruct IH as (cs & Ecs); [intros y Hy; apply H; right; exact Hy|].
  exists (c :: cs). cbn [map hcollect]. rewrite Ec, Ecs. reflexivity.
Qed.

(* completeness: every path is compatible with some code *)
Lemma filter_compat_nonempty ps B : ps <> [] -> table_ok ps = true ->
  filter (fun q => compatible (p_code q) B) ps <> [].
Proof.
  intros Hne Hok E.
  destruct (table_ok_complete ps Hne Hok (B ++ repeat false (S (max_code_len ps))))
    as (p & Hin & Hp).
  - rewrite app_length, repeat_length. lia.
  - apply is_prefix_compatible in Hp. rewrite compatible_app in Hp.
    apply andb_true_iff in Hp. destruct Hp as [Hp _].
    assert (I : In p (filter (fun q => compatible (p_code q) B) ps))
      by (apply filter_In; split; assumption).
    rewrite E in I. destruct I.
Qed.

Lemma hfilter_path ps B idxbits :
  hfilter (filter (fun q => compatible (p_code q) B) ps) (length B) idxbits
  = filter (fun q => compatible (p_code q) (B ++ idxbits)) ps.
Proof.
  unfold hfilter. rewrite filter_filter'. apply filter_ext. intros q.
  rewrite compatible_app. reflexivity.
Qed.

Lemma hbuild_total ps : ps <> [] -> table_ok ps = true ->
  forall fuel B, (S (max_code_len ps) <= fuel + length B)%nat ->
  exists node, hbuild fuel (filter (fun q => compatible (p_code q) B) ps) (length B) = Ok node.
Proof.
  intros Hne Hok. induction fuel as [|f IH]; intros B Hf.
  - pose proof (filter_compat_nonempty ps B Hne Hok) as Hn.
    destruct (filter _ ps) as [|q [|q2 r]] eqn:E; [congruence|eexists; reflexivity|].
    pose proof (several_depth ps B _ Hok (eq_sym E) ltac:(cbn [length]; lia)) as SD.
    pose proof (max_code_len_filter (fun q => compatible (p_code q) B) ps) as MF.
    rewrite E in MF. lia.
  - pose proof (filter_compat_nonempty ps B Hne Hok) as Hn.
    destruct (filter _ ps) as [|q [|q2 r]] eqn:E; [congruence|eexists; reflexivity|].
    set (cands := q :: q2 :: r) in *.
    assert (Hl : (2 <= length cands)%nat) by (unfold cands; cbn [length]; lia).
    pose proof (several_depth ps B cands Hok (eq_sym E) Hl) as SD.
    pose proof (max_code_len_filter (fun q => compatible (p_code q) B) ps) as MF.
    rewrite E in MF.
    rewrite (hbuild_unfold f cands (length B) Hl).
    destruct (Nat.ltb_spec (max_code_len cands) (length B)) as [H|_]; [lia|].
    set (t := hstride cands (length B)).
    assert (Ht : (1 <= t)%nat) by (pose proof stride_pos; unfold t, hstride; lia).
    destruct (hcollect_all_ok
      (fun idx => hbuild f (filter (hpossible (length B) (hsub_bits t (N.of_nat idx))) cands)
                         (length B + t)) (seq 0 (2 ^ t))) as (cs & Ecs).
    + intros idx _.
      replace (filter (hpossible (length B) (hsub_bits t (N.of_nat idx))) cands)
        with (hfilter cands (length B) (putn t (N.of_nat idx))).
      2:{ unfold hfilter. apply filter_ext. intros p.
          rewrite hpossible_compatible, hsub_bits_putn. reflexivity. }
      rewrite <- E, hfilter_path.
      replace (length B + t)%nat with (length (B ++ putn t (N.of_nat idx)))
        by (rewrite app_length, putn_length; reflexivity).
      apply IH. rewrite app_length, putn_length. lia.
    + rewrite Ecs. cbn [bind]. eexists. reflexivity.
Qed.

Theorem hfrom_total w ps : table_ok ps = true -> exists tbl, hfrom w ps = Ok tbl.
Proof.
  intros Hok. destruct ps as [|p0 t] eqn:E; [eexists; reflexivity|]. rewrite <- E in *.
  assert (Hne : ps <> []) by (rewrite E; discriminate).
  destruct (hbuild_total ps Hne Hok (S (max_code_len ps)) [] ltac:(cbn [length]; lia))
    as (node & Hb).
  rewrite filter_nil_compat in Hb. cbn [length] in Hb.
  exists node. unfold hfrom. rewrite E in *. exact Hb.
Qed.

(* ================================================================== *)
(* 6. main theorem (a): search_with_reader = tsearch / read_code_at     *)
(* ================================================================== *)
Lemma hfrom_build w ps tbl : ps <> [] -> hfrom w ps = Ok tbl ->
  hbuild (S (max_code_len ps)) ps 0 = Ok tbl.
Proof. intros Hne H. destruct ps; [congruence|exact H]. Qed.

(* The raw outcomes.  Ok with the position at the end of the code and tsearch finding the
   same prefix; or InsufficientData on both sides; or — the third case of
   read_prefix_table_idx, a stride that crosses into a word that does not exist —
   the literal search returns a prefix with the reader left beyond total_bits where
   tsearch already reports the InsufficientData of the next read. *)
Theorem hsearch_eq_tsearch w ps tbl ws tb i j :
  table_ok ps = true -> ps <> [] -> (max_code_len ps <= 40)%nat ->
  hfrom w ps = Ok tbl ->
  bw_ok ws tb -> j <= 64 ->
  hrel tb (64 * i + j) (hsearch ws i j tb tbl)
       (tsearch 33 tb ps 0 (rd_stream ws tb (64 * i + j))).
Proof.
  intros Hok Hne HM Hfrom Hbw Hj.
  pose proof (hfrom_build w ps tbl Hne Hfrom) as Hb.
  pose proof (hsearch_loop_sim ws tb ps (64 * i + j) Hbw Hok (S (max_code_len ps)) 33 ps 0 tbl i j
                ltac:(pose proof stride_reach; lia) Hb) as S.
  cbn [zpad skipn N.of_nat] in S. unfold hsearch. apply S.
  - symmetry. apply filter_nil_compat.
  - exact Hj.
  - lia.
Qed.

Theorem hsearch_eq_read_code_at w ps tbl ws tb i j :
  table_ok ps = true -> ps <> [] -> (max_code_len ps <= 40)%nat ->
  hfrom w ps = Ok tbl ->
  bw_ok ws tb -> j <= 64 -> 64 * i + j <= tb ->
  match hsearch_checked ws i j tb tbl with
  | Ok (p, (i', j')) =>
      read_code_at tb ps (rd_stream ws tb (64 * i + j)) = Ok (p, rd_stream ws tb (64 * i' + j'))
      /\ 64 * i' + j' = 64 * i + j + Nlen (p_code p) /\ j' <= 64 /\ 64 * i' + j' <= tb
  | Err k => read_code_at tb ps (rd_stream ws tb (64 * i + j)) = Err k
  | Panic => False
  end.
Proof.
  intros Hok Hne HM Hfrom Hbw Hj Hpos.
  pose proof (hsearch_eq_tsearch w ps tbl ws tb i j Hok Hne HM Hfrom Hbw Hj) as R.
  pose proof (bw_tb_le ws tb Hbw) as [Hle _].
  rewrite rca_eq. unfold rca, hsearch_checked.
  set (s := rd_stream ws tb (64 * i + j)) in *.
  assert (Ls : length s = N.to_nat (tb - (64 * i + j))) by (apply rd_stream_length; exact Hle).
  destruct (hsearch ws i j tb tbl) as [[p [i' j']]|k|]; cbn [hrel bind] in *.
  - destruct R as [Hj' R]. unfold rd_insufficient, rd_bit_idx, WORD_SIZE.
    destruct (N.ltb_spec tb (64 * i' + j' + 0)) as [Hover|Hin].
    + destruct R as [[T Hp']|[T _]]; rewrite T; cbn [bind]; [|reflexivity].
      destruct (Nat.leb_spec (length (p_code p)) (length (firstn 40 s))) as [H|_]; [|reflexivity].
      rewrite firstn_length in H. unfold Nlen in Hp'. lia.
    + destruct R as [[T Hp']|[_ H]]; [|lia]. rewrite T. cbn [bind].
      destruct (tsearch_sound0 tb ps s 33 p Hok T) as [Hinp _].
      pose proof (max_code_len_In ps p Hinp) as HL.
      destruct (Nat.leb_spec (length (p_code p)) (length (firstn 40 s))) as [_|H].
      * split; [|split; [exact Hp'|split; [exact Hj'|lia]]]. do 2 f_equal.
        unfold s. rewrite Hp'.
        rewrite <- (rd_stream_skipn ws tb (64 * i + j) (Nlen (p_code p))).
        f_equal. unfold Nlen. lia.
      * rewrite firstn_length in H. unfold Nlen in Hp'. lia.
  - destruct R as [-> T]. rewrite T. reflexivity.
  - exact R.
Qed.

(* ================================================================== *)
(* 7. main theorem (b): unchecked_search_with_reader = read_code        *)
(* ================================================================== *)
Lemma hsearch_unchecked_loop_node ws t children rd i j :
  hsearch_unchecked_loop ws (HNode t children) rd i j =
  do '(idx, (i1, j1)) <- rd_unchecked_read_prefix_table_idx ws i j t;
  match nth_error children (N.to_nat idx) with
  | Some c => hsearch_unchecked_loop ws c (rd + t) i1 j1
  | None => Panic
  end.
Proof.
  cbn [hsearch_unchecked_loop].
  destruct (rd_unchecked_read_prefix_table_idx ws i j t) as [[idx [i1 j1]]|k|];
    cbn [bind]; try reflexivity.
  generalize (N.to_nat idx). induction children as [|c r IH]; intros k; destruct k;
    cbn [nth_error]; try reflexivity. apply IH.
Qed.

Lemma hsearch_unchecked_sim ws ps p0 :
  words_ok ws -> table_ok ps = true ->
  p0 + N.of_nat (max_code_len ps) <= 64 * Nlen ws ->
  forall fb cands dpt node i j,
  hbuild fb cands dpt = Ok node ->
  cands = filter (fun q => compatible (p_code q)
                             (zpad dpt (skipn (N.to_nat p0) (words_bits ws)))) ps ->
  j <= 64 -> 64 * i + j = p0 + N.of_nat dpt ->
  exists p i' j',
    hsearch_unchecked_loop ws node (N.of_nat dpt) i j = Ok (p, (i', j')) /\
    In p ps /\ is_prefix_of (p_code p) (skipn (N.to_nat p0) (words_bits ws)) = true /\
    64 * i' + j' = p0 + Nlen (p_code p) /\ j' <= 64.
Proof.
  intros Hwok Hok Hfit. set (u := skipn (N.to_nat p0) (words_bits ws)).
  pose proof stride_pos as Hs1. pose proof stride_le_footer as Hs8.
  assert (Lu : (max_code_len ps <= length u)%nat).
  { unfold u. rewrite skipn_length, words_bits_length. unfold Nlen in Hfit. lia. }
  assert (Leaf : forall q dpt i j,
            [q] = filter (fun x => compatible (p_code x) (zpad dpt u)) ps ->
            j <= 64 -> 64 * i + j = p0 + N.of_nat dpt ->
            exists p i' j',
              hsearch_unchecked_loop ws (HLeaf q) (N.of_nat dpt) i j = Ok (p, (i', j')) /\
              In p ps /\ is_prefix_of (p_code p) u = true /\
              64 * i' + j' = p0 + Nlen (p_code p) /\ j' <= 64).
  { intros q dpt i j Hc Hj Hpos.
    pose proof (single_depth ps _ q Hok (eq_sym Hc)) as SD. rewrite zpad_length in SD.
    destruct (cands_single ps u dpt q Hok (eq_sym Hc)) as [Hin Hpre].
    pose proof (max_code_len_In ps q Hin) as HL.
    cbn [hsearch_unchecked_loop]. unfold hdepth, Nlen.
    destruct (N.ltb_spec (N.of_nat dpt) (N.of_nat (length (p_code q)))) as [H|_]; [lia|].
    unfold rd_rewind, rd_bit_idx, WORD_SIZE.
    destruct (N.ltb_spec (64 * i + j) (N.of_nat dpt - N.of_nat (length (p_code q)))) as [H|_];
      [lia|]. cbn [bind]. unfold rd_seek_to, WORD_SIZE.
    eexists q, _, _. split; [reflexivity|]. split; [exact Hin|]. split; [apply Hpre; lia|].
    unfold Nlen. lia. }
  induction fb as [|f IH]; intros cands dpt node i j Hb Hc Hj Hpos.
  - destruct cands as [|q [|q2 r]]; [rewrite hbuild_nil in Hb; discriminate| |discriminate].
    rewrite hbuild_single in Hb. inversion Hb; subst node. apply Leaf; assumption.
  - destruct cands as [|q [|q2 r]]; [rewrite hbuild_nil in Hb; discriminate| |].
    + rewrite hbuild_single in Hb. inversion Hb; subst node. apply Leaf; assumption.
    + set (cands := q :: q2 :: r) in *.
      assert (Hns : forall x, cands <> [x]) by (intros x; unfold cands; discriminate).
      destruct (hbuild_node_inv _ _ _ _ Hns Hb) as (f' & children & Ef & Hlen & Hd & -> & Hch).
      inversion Ef; subst f'. clear Ef.
      pose proof (several_depth ps _ cands Hok Hc Hlen) as HSD. rewrite zpad_length in HSD.
      pose proof (max_code_len_filter (fun x => compatible (p_code x) (zpad dpt u)) ps) as MF.
      rewrite <- Hc in MF.
      set (t := hstride cands dpt) in *.
      assert (Ht : (1 <= t <= stride /\ dpt + t <= max_code_len ps)%nat) by (unfold t, hstride; lia).
      set (s := skipn dpt u).
      assert (Ls : (t <= length s)%nat) by (unfold s; rewrite skipn_length; lia).
      assert (Hseg : seg ws (N.to_nat (64 * i + j)) (N.to_nat (N.of_nat t)) = zpad t s).
      { unfold seg. rewrite Nat2N.id, Hpos.
        replace (N.to_nat (p0 + N.of_nat dpt)) with (N.to_nat p0 + dpt)%nat by lia.
        rewrite <- skipn_skipn'. fold u. fold s. symmetry. apply zpad_firstn. exact Ls. }
      set (cands' := hfilter cands dpt (zpad t s)).
      assert (Hc' : cands' = filter (fun x => compatible (p_code x) (zpad (dpt + t) u)) ps).
      { unfold cands', hfilter, s. rewrite Hc. apply cands_step. }
      set (V := bits_val (zpad t s)).
      assert (HV : V < 2 ^ N.of_nat t).
      { unfold V. pose proof (bits_val_lt (zpad t s)) as B. rewrite zpad_length in B. exact B. }
      destruct (Hch V HV) as (c & Hnth & Hbc).
      replace (putn t V) with (zpad t s) in Hbc
        by (symmetry; apply putn_bits_val_len; apply zpad_length).
      fold cands' in Hbc.
      rewrite hsearch_unchecked_loop_node.
      destruct (rd_unchecked_read_prefix_table_idx_spec ws i j (N.of_nat t) Hwok Hj ltac:(lia) ltac:(lia))
        as (i' & j' & -> & Hp' & Hj').
      cbn [bind]. rewrite Hseg. fold V. rewrite Hnth. rewrite <- Nat2N.inj_add.
      apply (IH cands' (dpt + t)%nat c i' j' Hbc Hc' Hj'). lia.
Qed.

(* With max_code_len ps bits inside the words from the position on (the strides never read
   further) the unchecked search neither indexes out of bounds nor underflows, returns the
   prefix whose code heads the stream of word bits and advances by the length of the code. *)
Theorem hsearch_unchecked_eq w ps tbl ws i j :
  table_ok ps = true -> ps <> [] -> hfrom w ps = Ok tbl ->
  words_ok ws -> j <= 64 ->
  64 * i + j + N.of_nat (max_code_len ps) <= 64 * Nlen ws ->
  exists p i' j',
    hsearch_unchecked ws i j tbl = Ok (p, (i', j')) /\
    read_code ps (skipn (N.to_nat (64 * i + j)) (words_bits ws))
      = Ok (p, skipn (N.to_nat (64 * i' + j')) (words_bits ws)) /\
    64 * i' + j' = 64 * i + j + Nlen (p_code p) /\ j' <= 64.
Proof.
  intros Hok Hne Hfrom Hwok Hj Hfit.
  pose proof (hfrom_build w ps tbl Hne Hfrom) as Hb.
  destruct (hsearch_unchecked_sim ws ps (64 * i + j) Hwok Hok Hfit
              (S (max_code_len ps)) ps 0 tbl i j Hb) as (p & i' & j' & E & Hin & Hpre & Hp' & Hj').
  - cbn [zpad]. symmetry. apply filter_nil_compat.
  - exact Hj.
  - cbn [N.of_nat]. lia.
  - exists p, i', j'. split; [exact E|]. split; [|split; assumption].
    rewrite (is_prefix_of_split _ _ Hpre) at 1. rewrite (read_code_app ps p _ Hok Hin).
    do 2 f_equal. rewrite skipn_skipn'. f_equal. rewrite Hp'. unfold Nlen. lia.
Qed.

(* the same against the model of the fast path (Fast.u_read_code on the padded stream) *)
Corollary hsearch_unchecked_eq_fast w ps tbl ws i j :
  table_ok ps = true -> ps <> [] -> (max_code_len ps <= 40)%nat -> hfrom w ps = Ok tbl ->
  words_ok ws -> j <= 64 ->
  64 * i + j + N.of_nat (max_code_len ps) <= 64 * Nlen ws ->
  exists p i' j',
    hsearch_unchecked ws i j tbl = Ok (p, (i', j')) /\
    Fast.u_read_code ps (skipn (N.to_nat (64 * i + j)) (words_bits ws))
      = Ok (p, skipn (N.to_nat (64 * i' + j')) (words_bits ws)) /\
    64 * i' + j' = 64 * i + j + Nlen (p_code p) /\ j' <= 64.
Proof.
  intros Hok Hne HM Hfrom Hwok Hj Hfit.
  destruct (hsearch_unchecked_eq w ps tbl ws i j Hok Hne Hfrom Hwok Hj Hfit)
    as (p & i' & j' & E & RC & Hp' & Hj').
  exists p, i', j'. split; [exact E|]. split; [|split; assumption].
  set (u := skipn (N.to_nat (64 * i + j)) (words_bits ws)) in *.
  unfold read_code in RC. destruct (find_code ps u) as [q|] eqn:F; [|discriminate].
  assert (Eq : q = p) by congruence. subst q.
  assert (Er : skipn (length (p_code p)) u = skipn (N.to_nat (64 * i' + j')) (words_bits ws))
    by congruence.
  assert (Hin : In p ps /\ is_prefix_of (p_code p) u = true).
  { clear - F. induction ps as [|q t IH]; [discriminate|]. cbn [find_code] in F.
    destruct (is_prefix_of (p_code q) u) eqn:P.
    - inversion F; subst. split; [left; reflexivity|exact P].
    - destruct (IH F) as [A B]. split; [right; exact A|exact B]. }
  destruct Hin as [Hin Hpre].
  assert (Lu : length u = N.to_nat (64 * Nlen ws - (64 * i + j))).
  { unfold u. rewrite skipn_length, words_bits_length. unfold Nlen. lia. }
  pose proof (f_equal (@length bool) Er) as Lr. rewrite skipn_length in Lr.
  assert (Eu : u = p_code p ++ skipn (N.to_nat (64 * i' + j')) (words_bits ws)).
  { rewrite <- Er. apply is_prefix_of_split. exact Hpre. }
  clearbody u. rewrite Eu.
  apply FastL.u_read_code_enough5; try assumption.
  rewrite <- Lr. pose proof (max_code_len_In ps p Hin). lia.
Qed.

Print Assumptions hfrom_total.
Print Assumptions hsearch_eq_tsearch.
Print Assumptions hsearch_eq_read_code_at.
Print Assumptions hsearch_unchecked_eq.
Print Assumptions hsearch_unchecked_eq_fast.
