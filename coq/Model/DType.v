(* DType.v — the 15 data types and their mappings (data_types/*.rs).
   A number of type d is modelled by its "raw" integer (Z):
     integers, timestamps : the integer / the part count
     floats               : the IEEE bit pattern (0 .. 2^w-1)
     bool                 : 0 / 1
   The unsigned image ("U") is an N below 2^(ubits d). *)
From QCo.Model Require Import Base Consts.
Open Scope N_scope.

Inductive dtype :=
| DBool | DI16 | DI32 | DI64 | DI128 | DU16 | DU32 | DU64 | DU128
| DF32 | DF64 | DTsMicros | DTsNanos | DTsMicros96 | DTsNanos96.

Definition all_dtypes : list dtype :=
  [DBool; DI16; DI32; DI64; DI128; DU16; DU32; DU64; DU128; DF32; DF64;
   DTsMicros; DTsNanos; DTsMicros96; DTsNanos96].

Inductive dkind := KBool | KSigned | KUnsigned | KFloat | KTs64 | KTs96.

Definition kind (d : dtype) : dkind :=
  match d with
  | DBool => KBool
  | DI16 | DI32 | DI64 | DI128 => KSigned
  | DU16 | DU32 | DU64 | DU128 => KUnsigned
  | DF32 | DF64 => KFloat
  | DTsMicros | DTsNanos => KTs64
  | DTsMicros96 | DTsNanos96 => KTs96
  end.

Definition hdr (d : dtype) : N :=
  match d with
  | DBool => Consts.HDR_bool | DI16 => Consts.HDR_i16 | DI32 => Consts.HDR_i32
  | DI64 => Consts.HDR_i64 | DI128 => Consts.HDR_i128 | DU16 => Consts.HDR_u16
  | DU32 => Consts.HDR_u32 | DU64 => Consts.HDR_u64 | DU128 => Consts.HDR_u128
  | DF32 => Consts.HDR_f32 | DF64 => Consts.HDR_f64
  | DTsMicros => Consts.HDR_TimestampMicros | DTsNanos => Consts.HDR_TimestampNanos
  | DTsMicros96 => Consts.HDR_TimestampMicros96 | DTsNanos96 => Consts.HDR_TimestampNanos96
  end.

Definition phys (d : dtype) : N :=
  match d with
  | DBool => Consts.PHYS_bool | DI16 => Consts.PHYS_i16 | DI32 => Consts.PHYS_i32
  | DI64 => Consts.PHYS_i64 | DI128 => Consts.PHYS_i128 | DU16 => Consts.PHYS_u16
  | DU32 => Consts.PHYS_u32 | DU64 => Consts.PHYS_u64 | DU128 => Consts.PHYS_u128
  | DF32 => Consts.PHYS_f32 | DF64 => Consts.PHYS_f64
  | DTsMicros => Consts.PHYS_TimestampMicros | DTsNanos => Consts.PHYS_TimestampNanos
  | DTsMicros96 => Consts.PHYS_TimestampMicros96 | DTsNanos96 => Consts.PHYS_TimestampNanos96
  end.

Definition ubits (d : dtype) : N :=
  match d with
  | DBool => Consts.UBITS_bool | DI16 => Consts.UBITS_i16 | DI32 => Consts.UBITS_i32
  | DI64 => Consts.UBITS_i64 | DI128 => Consts.UBITS_i128 | DU16 => Consts.UBITS_u16
  | DU32 => Consts.UBITS_u32 | DU64 => Consts.UBITS_u64 | DU128 => Consts.UBITS_u128
  | DF32 => Consts.UBITS_f32 | DF64 => Consts.UBITS_f64
  | DTsMicros => Consts.UBITS_TimestampMicros | DTsNanos => Consts.UBITS_TimestampNanos
  | DTsMicros96 => Consts.UBITS_TimestampMicros96 | DTsNanos96 => Consts.UBITS_TimestampNanos96
  end.

(* the signed companion type (NumberLike::Signed) *)
Definition sdt (d : dtype) : dtype :=
  match d with
  | DBool => DBool
  | DI16 | DU16 => DI16
  | DI32 | DU32 | DF32 => DI32
  | DI64 | DU64 | DF64 | DTsMicros | DTsNanos => DI64
  | DI128 | DU128 | DTsMicros96 | DTsNanos96 => DI128
  end.

Definition pps (d : dtype) : Z :=
  match d with
  | DTsMicros => Z.of_N Consts.PPS_TimestampMicros
  | DTsNanos => Z.of_N Consts.PPS_TimestampNanos
  | DTsMicros96 => Z.of_N Consts.PPS_TimestampMicros96
  | DTsNanos96 => Z.of_N Consts.PPS_TimestampNanos96
  | _ => 1%Z
  end.

Definition zpow2 (n : N) : Z := (2 ^ Z.of_N n)%Z.

(* 96-bit timestamps: documented range *)
Definition ts96_min (d : dtype) : Z := (pps d * - zpow2 63)%Z.
Definition ts96_max (d : dtype) : Z := (pps d * zpow2 63 - 1)%Z.

(* which raw integers are values of the type *)
Definition valid (d : dtype) (x : Z) : bool :=
  let w := ubits d in
  match kind d with
  | KBool => (x =? 0)%Z || (x =? 1)%Z
  | KSigned | KTs64 => (- zpow2 (w - 1) <=? x)%Z && (x <? zpow2 (w - 1))%Z
  | KUnsigned | KFloat => (0 <=? x)%Z && (x <? zpow2 w)%Z
  | KTs96 => (ts96_min d <=? x)%Z && (x <=? ts96_max d)%Z
  end.

(* the raw integers the Rust representation type can hold (i128 for 96-bit timestamps) *)
Definition representable (d : dtype) (x : Z) : bool :=
  let w := ubits d in
  match kind d with
  | KTs96 => (- zpow2 (w - 1) <=? x)%Z && (x <? zpow2 (w - 1))%Z
  | _ => valid d x
  end.

(* NumberLike::to_unsigned *)
Definition to_u (d : dtype) (x : Z) : N :=
  let w := ubits d in
  match kind d with
  | KBool => Z.to_N x
  | KSigned | KTs64 | KTs96 => Z.to_N ((x + zpow2 (w - 1)) mod zpow2 w)
  | KUnsigned => Z.to_N x
  | KFloat =>
      let b := Z.to_N x in
      if pow2 (w - 1) <=? b then pow2 w - 1 - b else b + pow2 (w - 1)
  end.

(* NumberLike::from_unsigned *)
Definition of_u (d : dtype) (u : N) : Z :=
  let w := ubits d in
  match kind d with
  | KBool => if 0 <? u then 1%Z else 0%Z
  | KSigned | KTs64 | KTs96 => (Z.of_N u - zpow2 (w - 1))%Z
  | KUnsigned => Z.of_N u
  | KFloat => if pow2 (w - 1) <=? u then Z.of_N (u - pow2 (w - 1)) else Z.of_N (pow2 w - 1 - u)
  end.

(* wrap an integer into the signed range of width w *)
Definition swrap (w : N) (x : Z) : Z :=
  ((x + zpow2 (w - 1)) mod zpow2 w - zpow2 (w - 1))%Z.

(* NumberLike::to_signed : value of type [sdt d] *)
Definition to_s (d : dtype) (x : Z) : Z :=
  let w := ubits d in
  match kind d with
  | KBool | KSigned | KTs64 | KTs96 => x
  | KUnsigned => (x - zpow2 (w - 1))%Z
  | KFloat => if (zpow2 (w - 1) <=? x)%Z then (x - zpow2 w)%Z else x
  end.

(* NumberLike::from_signed *)
Definition of_s (d : dtype) (s : Z) : Z :=
  let w := ubits d in
  match kind d with
  | KBool | KSigned | KTs64 | KTs96 => s
  | KUnsigned => (s + zpow2 (w - 1))%Z
  | KFloat => if (s <? 0)%Z then (s + zpow2 w)%Z else s
  end.

(* SignedLike::wrapping_add / wrapping_sub on type [sdt d] (xor for bool) *)
Definition s_add (d : dtype) (a b : Z) : Z :=
  match kind d with
  | KBool => ((a + b) mod 2)%Z
  | _ => swrap (ubits d) (a + b)
  end.
Definition s_sub (d : dtype) (a b : Z) : Z :=
  match kind d with
  | KBool => ((a + b) mod 2)%Z
  | _ => swrap (ubits d) (a - b)
  end.

(* NumberLike::to_bytes : big-endian, phys/8 bytes.  For the 96-bit timestamps Rust
   computes (self.0 - MIN) with a plain i128 subtraction: overflow is a panic in a debug
   build; we model that as Panic. *)
Definition to_bytes (d : dtype) (x : Z) : res (list N) :=
  let w := ubits d in
  let nb := N.to_nat (phys d / 8) in
  match kind d with
  | KBool => Ok [Z.to_N x]
  | KSigned | KTs64 => Ok (be_bytes nb (Z.to_N (x mod zpow2 w)))
  | KUnsigned | KFloat => Ok (be_bytes nb (Z.to_N x))
  | KTs96 =>
      let y := (x - ts96_min d)%Z in
      if (y <? zpow2 (w - 1))%Z && (- zpow2 (w - 1) <=? y)%Z
      then Ok (be_bytes nb (Z.to_N (y mod zpow2 w)))
      else Panic
  end.

(* NumberLike::from_bytes (given exactly phys/8 bytes) *)
Definition of_bytes (d : dtype) (bs : list N) : res Z :=
  let w := ubits d in
  let v := be_val bs in
  match kind d with
  | KBool => Ok (if v =? 0 then 0%Z else 1%Z)
  | KSigned | KTs64 => Ok (swrap w (Z.of_N v))
  | KUnsigned | KFloat => Ok (Z.of_N v)
  | KTs96 =>
      let parts := (Z.of_N v + ts96_min d)%Z in
      if valid d parts then Ok parts else Err InvalidArgument
  end.

(* natural order of the type on raw values, defined independently of to_u:
   integers / timestamps / bool: integer order;
   floats: sign-magnitude order on bit patterns
     (-NaN ... < -inf < ... < -0 < +0 < ... < +inf < +NaN ...) *)
Definition float_key (w : N) (b : Z) : Z :=
  if (zpow2 (w - 1) <=? b)%Z then (- (b - zpow2 (w - 1)) - 1)%Z else b.
Definition nat_lt (d : dtype) (x y : Z) : Prop :=
  match kind d with
  | KFloat => (float_key (ubits d) x < float_key (ubits d) y)%Z
  | _ => (x < y)%Z
  end.

Scheme Equality for dtype.
Definition dtype_eqb (a b : dtype) : bool := dtype_beq a b.

(* raw uncompressed write/read of one number in the stream *)
Definition write_num (d : dtype) (x : Z) : res bits :=
  do bs <- to_bytes d x; Ok (bytes_to_bits bs).

Definition read_num (d : dtype) (s : bits) : res (Z * bits) :=
  do '(bl, s') <- get_bits (phys d) s;
  do x <- of_bytes d (bits_to_bytes bl);
  Ok (x, s').
