(* NumOps.v — the NumberLike / SignedLike conversions of data_types/*.rs transcribed
   LITERALLY as bit operations and wrapping arithmetic on fixed-width machine words.
   Definitions only, executable, total.  Lemmas/NumOpsL.v proves every function here
   equal to the arithmetic model of DType.v on the whole type.

   Coding.
   * A w-bit word (u8/u16/.../u128, and the memory image of i16/.../i128) is the N
     in [0, 2^w) whose binary digits are the bits of the word.
   * A Rust SIGNED value v of width w is, as in DType.v, the integer v : Z; its word is
     [enc w v] = v mod 2^w (two's complement) and a word p denotes the signed value
     [dec w p] = p - 2^w if the top bit (bit w-1) of p is set, p otherwise.
     `x as $unsigned` / `x as $signed` between equal widths keep the word unchanged.
   * floats: DType's raw value IS the word f.to_bits() (as a Z);  from_bits is the
     identity on words.
   * bool: raw 0 / 1 (false / true).
   * timestamps: raw value = the signed `parts` field (i64 / i128). *)
From QCo.Model Require Import Base Consts DType.
Open Scope N_scope.

(* ------------------------------------------------------------------ *)
(* w-bit words                                                          *)
(* ------------------------------------------------------------------ *)

Definition wnot (w x : N) : N := N.lxor x (N.ones w).            (* !x            *)
Definition wxor (x y : N) : N := N.lxor x y.                       (* x ^ y         *)
Definition wand (x y : N) : N := N.land x y.                       (* x & y         *)
Definition wshl1 (k : N) : N := N.shiftl 1 k.                      (* 1 << k        *)
Definition wtrunc (w x : N) : N := N.land x (N.ones w).           (* keep low w bits (narrowing `as`) *)
Definition wadd (w x y : N) : N := (x + y) mod 2 ^ w.             (* wrapping_add  *)
Definition wsub (w x y : N) : N := (x + (2 ^ w - y mod 2 ^ w)) mod 2 ^ w.   (* wrapping_sub  *)
Definition wmul (w x y : N) : N := (x * y) mod 2 ^ w.             (* wrapping_mul  *)
Definition wgt0 (x : N) : bool := 0 <? x.                          (* x > 0 (unsigned) *)

(* signed value <-> word *)
Definition enc (w : N) (v : Z) : N := Z.to_N (v mod 2 ^ Z.of_N w).
Definition wsign (w p : N) : bool := N.testbit p (w - 1).
Definition dec (w p : N) : Z :=
  if wsign w p then (Z.of_N p - 2 ^ Z.of_N w)%Z else Z.of_N p.

(* casts.  same width, signed <-> unsigned: the word is unchanged *)
Definition cast_same (p : N) : N := p.
(* widening from an unsigned type: zero extension, the word is unchanged *)
Definition zext (p : N) : N := p.
(* widening from a signed type of width w to width w' (w <= w'): sign extension *)
Definition sext (w w' p : N) : N :=
  if wsign w p then N.lor p (N.shiftl (N.ones (w' - w)) w) else p.

(* signed comparison on words *)
Definition wsle (w a b : N) : bool := (dec w a <=? dec w b)%Z.

(* `a + b` / `a - b` on signed words in a build with overflow checks: None = panic.
   (Overflow is by definition "the mathematical result is not a value of the type".) *)
Definition in_srange (w : N) (z : Z) : bool :=
  ((- 2 ^ Z.of_N (w - 1) <=? z) && (z <? 2 ^ Z.of_N (w - 1)))%Z.
Definition chk_sadd (w a b : N) : option N :=
  let r := (dec w a + dec w b)%Z in if in_srange w r then Some (enc w r) else None.
Definition chk_ssub (w a b : N) : option N :=
  let r := (dec w a - dec w b)%Z in if in_srange w r then Some (enc w r) else None.

(* x.to_be_bytes() for an nb-byte word: [(x >> 8(nb-1)) & 0xff, ..., (x >> 8) & 0xff, x & 0xff] *)
Definition to_be_bytes (nb : nat) (x : N) : list N :=
  map (fun i => N.land (N.shiftr x (8 * N.of_nat i)) 255) (rev (seq 0 nb)).
(* T::from_be_bytes(arr) : ((b0 << 8 | b1) << 8 | b2) ... *)
Definition from_be_bytes (bs : list N) : N :=
  fold_left (fun acc b => N.lor (N.shiftl acc 8) b) bs 0.
(* bytes.try_into().unwrap() into [u8; nb]: panics unless exactly nb bytes *)
Definition try_into_arr (nb : nat) (bs : list N) : res (list N) :=
  if Nat.eqb (length bs) nb then Ok bs else Panic.

(* ------------------------------------------------------------------ *)
(* signeds.rs : impl_signed!($t, $unsigned, _)   (w = $t::BITS)         *)
(* ------------------------------------------------------------------ *)

(* the word of $t::MIN *)
Definition smin (w : N) : N := enc w (- 2 ^ Z.of_N (w - 1)).

(* self.wrapping_sub(Self::MIN) as $unsigned *)
Definition signed_to_unsigned (w : N) (x : Z) : N :=
  cast_same (wsub w (enc w x) (smin w)).
(* Self::MIN.wrapping_add(off as $t) *)
Definition signed_from_unsigned (w : N) (off : N) : Z :=
  dec w (wadd w (smin w) (cast_same off)).
Definition signed_to_signed (w : N) (x : Z) : Z := x.
Definition signed_from_signed (w : N) (s : Z) : Z := s.
(* self.to_be_bytes().to_vec() *)
Definition signed_to_bytes (w : N) (x : Z) : res (list N) :=
  Ok (to_be_bytes (N.to_nat (w / 8)) (enc w x)).
(* Ok(Self::from_be_bytes(bytes.try_into().unwrap())) *)
Definition signed_from_bytes (w : N) (bs : list N) : res Z :=
  do arr <- try_into_arr (N.to_nat (w / 8)) bs;
  Ok (dec w (from_be_bytes arr)).
(* SignedLike::wrapping_add / wrapping_sub *)
Definition signed_wrapping_add (w : N) (a b : Z) : Z := dec w (wadd w (enc w a) (enc w b)).
Definition signed_wrapping_sub (w : N) (a b : Z) : Z := dec w (wsub w (enc w a) (enc w b)).

(* ------------------------------------------------------------------ *)
(* unsigneds.rs : impl_unsigned_number!($t, $signed, _)                 *)
(* ------------------------------------------------------------------ *)

Definition unsigned_to_unsigned (w : N) (x : Z) : N := Z.to_N x.
Definition unsigned_from_unsigned (w : N) (off : N) : Z := Z.of_N off.
(* (self as $signed).wrapping_add(<$signed>::MIN) *)
Definition unsigned_to_signed (w : N) (x : Z) : Z :=
  dec w (wadd w (cast_same (Z.to_N x)) (smin w)).
(* signed.wrapping_sub(<$signed>::MIN) as Self *)
Definition unsigned_from_signed (w : N) (s : Z) : Z :=
  Z.of_N (cast_same (wsub w (enc w s) (smin w))).
Definition unsigned_to_bytes (w : N) (x : Z) : res (list N) :=
  Ok (to_be_bytes (N.to_nat (w / 8)) (Z.to_N x)).
Definition unsigned_from_bytes (w : N) (bs : list N) : res Z :=
  do arr <- try_into_arr (N.to_nat (w / 8)) bs;
  Ok (Z.of_N (from_be_bytes arr)).

(* ------------------------------------------------------------------ *)
(* floats.rs : impl_float_number!($t, $signed, $unsigned, $bits, 1 << ($bits-1), _) *)
(* ------------------------------------------------------------------ *)

Definition sign_bit_mask (w : N) : N := wshl1 (w - 1).

(* let mem_layout = self.to_bits();
   if mem_layout & MASK > 0 { !mem_layout } else { mem_layout ^ MASK } *)
Definition float_to_unsigned (w : N) (x : Z) : N :=
  let mem_layout := Z.to_N x in
  if wgt0 (wand mem_layout (sign_bit_mask w))
  then wnot w mem_layout
  else wxor mem_layout (sign_bit_mask w).
(* if off & MASK > 0 { from_bits(off ^ MASK) } else { from_bits(!off) } *)
Definition float_from_unsigned (w : N) (off : N) : Z :=
  if wgt0 (wand off (sign_bit_mask w))
  then Z.of_N (wxor off (sign_bit_mask w))
  else Z.of_N (wnot w off).
(* self.to_bits() as Self::Signed *)
Definition float_to_signed (w : N) (x : Z) : Z := dec w (cast_same (Z.to_N x)).
(* Self::from_bits(signed as Self::Unsigned) *)
Definition float_from_signed (w : N) (s : Z) : Z := Z.of_N (cast_same (enc w s)).
(* self.to_be_bytes() on a float = to_bits().to_be_bytes() *)
Definition float_to_bytes (w : N) (x : Z) : res (list N) :=
  Ok (to_be_bytes (N.to_nat (w / 8)) (Z.to_N x)).
Definition float_from_bytes (w : N) (bs : list N) : res Z :=
  do arr <- try_into_arr (N.to_nat (w / 8)) bs;
  Ok (Z.of_N (from_be_bytes arr)).

(* ------------------------------------------------------------------ *)
(* boolean.rs                                                           *)
(* ------------------------------------------------------------------ *)

Definition bool_of_raw (x : Z) : bool := negb (x =? 0)%Z.
Definition raw_of_bool (b : bool) : Z := if b then 1%Z else 0%Z.
Definition bool_as_u8 (b : bool) : N := if b then 1 else 0.        (* self as u8 *)

Definition bool_to_unsigned (x : Z) : N := bool_as_u8 (bool_of_raw x).
Definition bool_from_unsigned (off : N) : Z := raw_of_bool (wgt0 off).       (* off > 0 *)
Definition bool_to_signed (x : Z) : Z := x.
Definition bool_from_signed (s : Z) : Z := s.
Definition bool_to_bytes (x : Z) : res (list N) := Ok [bool_as_u8 (bool_of_raw x)].
(* Ok(u8::from_be_bytes(bytes.try_into().unwrap()) != 0) *)
Definition bool_from_bytes (bs : list N) : res Z :=
  do arr <- try_into_arr 1 bs;
  Ok (raw_of_bool (negb (from_be_bytes arr =? 0))).
(* self ^ other *)
Definition bool_wrapping (a b : Z) : Z := raw_of_bool (xorb (bool_of_raw a) (bool_of_raw b)).

(* ------------------------------------------------------------------ *)
(* timestamps.rs : impl_timestamp!  — struct $t(i64); every NumberLike method is the
   i64 one applied to self.0                                            *)
(* ------------------------------------------------------------------ *)

Definition ts64_to_unsigned (x : Z) : N := cast_same (wsub 64 (enc 64 x) (smin 64)).
Definition ts64_from_unsigned (off : N) : Z := dec 64 (wadd 64 (smin 64) (cast_same off)).
Definition ts64_to_signed (x : Z) : Z := x.
Definition ts64_from_signed (s : Z) : Z := s.
Definition ts64_to_bytes (x : Z) : res (list N) := Ok (to_be_bytes 8 (enc 64 x)).
Definition ts64_from_bytes (bs : list N) : res Z :=
  do arr <- try_into_arr 8 bs; Ok (dec 64 (from_be_bytes arr)).

(* ------------------------------------------------------------------ *)
(* timestamps_96.rs : impl_timestamp_96!($t, $parts_per_sec : u32, _, _) — struct $t(i128) *)
(* ------------------------------------------------------------------ *)

(* const MAX: i128 = $parts_per_sec as i128 * (i64::MAX as i128 + 1) - 1;
   const MIN: i128 = $parts_per_sec as i128 * (i64::MIN as i128);
   (constant expressions: an overflow would be a compile error, so wrapping = exact) *)
Definition i64_MAX : N := enc 64 (2 ^ 63 - 1).
Definition i64_MIN : N := smin 64.
Definition ts96_MAX (pps : N) : N :=
  wsub 128 (wmul 128 (zext pps) (wadd 128 (sext 64 128 i64_MAX) 1)) 1.
Definition ts96_MIN (pps : N) : N :=
  wmul 128 (zext pps) (sext 64 128 i64_MIN).

(* fn is_valid(parts: i128) -> bool { parts <= Self::MAX && parts >= Self::MIN } *)
Definition ts96_is_valid (pps : N) (parts : N) : bool :=
  wsle 128 parts (ts96_MAX pps) && wsle 128 (ts96_MIN pps) parts.

(* pub fn new(parts) -> QCompressResult<Self> *)
Definition ts96_new (pps : N) (parts : N) : res Z :=
  if ts96_is_valid pps parts then Ok (dec 128 parts) else Err InvalidArgument.

Definition ts96_to_unsigned (x : Z) : N := cast_same (wsub 128 (enc 128 x) (smin 128)).
Definition ts96_from_unsigned (off : N) : Z := dec 128 (wadd 128 (smin 128) (cast_same off)).
Definition ts96_to_signed (x : Z) : Z := x.
Definition ts96_from_signed (s : Z) : Z := s.
(* ((self.0 - Self::MIN) as u128).to_be_bytes()[4..].to_vec()
   `-` is the overflow-checked i128 subtraction *)
Definition ts96_to_bytes (pps : N) (x : Z) : res (list N) :=
  match chk_ssub 128 (enc 128 x) (ts96_MIN pps) with
  | None => Panic
  | Some y => Ok (skipn 4 (to_be_bytes 16 (cast_same y)))
  end.
(* let mut full_bytes = vec![0; 4]; full_bytes.extend(bytes);
   let parts = (u128::from_be_bytes(full_bytes.try_into().unwrap()) as i128) + Self::MIN;
   Self::new(parts) *)
Definition ts96_from_bytes (pps : N) (bs : list N) : res Z :=
  let full_bytes := repeat 0 4 ++ bs in
  do arr <- try_into_arr 16 full_bytes;
  match chk_sadd 128 (cast_same (from_be_bytes arr)) (ts96_MIN pps) with
  | None => Panic
  | Some parts => ts96_new pps parts
  end.

(* ------------------------------------------------------------------ *)
(* the macro instantiations                                             *)
(* ------------------------------------------------------------------ *)

(* $t::BITS / $bits / width of the struct field, as written in the sources *)
Definition rbits (d : dtype) : N :=
  match d with
  | DBool => 8                      (* type Unsigned = u8 *)
  | DI16 | DU16 => 16
  | DI32 | DU32 | DF32 => 32
  | DI64 | DU64 | DF64 | DTsMicros | DTsNanos => 64
  | DI128 | DU128 | DTsMicros96 | DTsNanos96 => 128
  end.

(* $parts_per_sec of the 96-bit timestamps (BILLION_U32, 1_000_000_u32) *)
Definition rpps (d : dtype) : N :=
  match d with
  | DTsNanos96 => 1000000000
  | DTsMicros96 => 1000000
  | _ => 1
  end.

Definition ops_to_unsigned (d : dtype) (x : Z) : N :=
  match d with
  | DBool => bool_to_unsigned x
  | DI16 | DI32 | DI64 | DI128 => signed_to_unsigned (rbits d) x
  | DU16 | DU32 | DU64 | DU128 => unsigned_to_unsigned (rbits d) x
  | DF32 | DF64 => float_to_unsigned (rbits d) x
  | DTsMicros | DTsNanos => ts64_to_unsigned x
  | DTsMicros96 | DTsNanos96 => ts96_to_unsigned x
  end.

Definition ops_from_unsigned (d : dtype) (u : N) : Z :=
  match d with
  | DBool => bool_from_unsigned u
  | DI16 | DI32 | DI64 | DI128 => signed_from_unsigned (rbits d) u
  | DU16 | DU32 | DU64 | DU128 => unsigned_from_unsigned (rbits d) u
  | DF32 | DF64 => float_from_unsigned (rbits d) u
  | DTsMicros | DTsNanos => ts64_from_unsigned u
  | DTsMicros96 | DTsNanos96 => ts96_from_unsigned u
  end.

Definition ops_to_signed (d : dtype) (x : Z) : Z :=
  match d with
  | DBool => bool_to_signed x
  | DI16 | DI32 | DI64 | DI128 => signed_to_signed (rbits d) x
  | DU16 | DU32 | DU64 | DU128 => unsigned_to_signed (rbits d) x
  | DF32 | DF64 => float_to_signed (rbits d) x
  | DTsMicros | DTsNanos => ts64_to_signed x
  | DTsMicros96 | DTsNanos96 => ts96_to_signed x
  end.

Definition ops_from_signed (d : dtype) (s : Z) : Z :=
  match d with
  | DBool => bool_from_signed s
  | DI16 | DI32 | DI64 | DI128 => signed_from_signed (rbits d) s
  | DU16 | DU32 | DU64 | DU128 => unsigned_from_signed (rbits d) s
  | DF32 | DF64 => float_from_signed (rbits d) s
  | DTsMicros | DTsNanos => ts64_from_signed s
  | DTsMicros96 | DTsNanos96 => ts96_from_signed s
  end.

Definition ops_to_bytes (d : dtype) (x : Z) : res (list N) :=
  match d with
  | DBool => bool_to_bytes x
  | DI16 | DI32 | DI64 | DI128 => signed_to_bytes (rbits d) x
  | DU16 | DU32 | DU64 | DU128 => unsigned_to_bytes (rbits d) x
  | DF32 | DF64 => float_to_bytes (rbits d) x
  | DTsMicros | DTsNanos => ts64_to_bytes x
  | DTsMicros96 | DTsNanos96 => ts96_to_bytes (rpps d) x
  end.

Definition ops_from_bytes (d : dtype) (bs : list N) : res Z :=
  match d with
  | DBool => bool_from_bytes bs
  | DI16 | DI32 | DI64 | DI128 => signed_from_bytes (rbits d) bs
  | DU16 | DU32 | DU64 | DU128 => unsigned_from_bytes (rbits d) bs
  | DF32 | DF64 => float_from_bytes (rbits d) bs
  | DTsMicros | DTsNanos => ts64_from_bytes bs
  | DTsMicros96 | DTsNanos96 => ts96_from_bytes (rpps d) bs
  end.

(* <T::Signed as SignedLike>::wrapping_add / wrapping_sub, T::Signed = sdt d *)
Definition ops_s_add (d : dtype) (a b : Z) : Z :=
  match d with
  | DBool => bool_wrapping a b
  | _ => signed_wrapping_add (rbits d) a b
  end.
Definition ops_s_sub (d : dtype) (a b : Z) : Z :=
  match d with
  | DBool => bool_wrapping a b
  | _ => signed_wrapping_sub (rbits d) a b
  end.

(* TimestampXxx96::is_valid on a raw i128 value *)
Definition ops_is_valid96 (d : dtype) (x : Z) : bool :=
  ts96_is_valid (rpps d) (enc 128 x).
