(* Auto.v — automatic configuration (q_compress/src/auto.rs): the delta-order chooser
   `auto_delta_encoding_order` and `auto_compressor_config`, as total functions over the
   Writer model.  The trial compression's prefix-table policy is an oracle
   [table_of : N -> list prefix] (one table per trial order), an ordinary argument.
   Definitions only. *)
From QCo.Model Require Import Base Consts DType Codec Writer.
Open Scope N_scope.

(* usize::MAX (64-bit); only the never-returned initial value of best_order *)
Definition USIZE_MAX : N := 18446744073709551615.

(* CompressorConfig::default().with_delta_encoding_order(order)
     .with_compression_level(min(level, MAX_AUTO_DELTA_COMPRESSION_LEVEL)).with_use_gcds(false) *)
Definition trial_cfg (level order : N) : wcfg :=
  mkWcfg (N.min level Consts.MAX_AUTO_DELTA_COMPRESSION_LEVEL) order false.

(* a Result::Err (or a panic) under `.unwrap()` *)
Definition wout_fails (o : wout) : bool :=
  match o with WErr _ | WPanic => true | _ => false end.

(* let mut compressor = Compressor::from_config(config);
   compressor.header().unwrap(); compressor.chunk(head).unwrap(); compressor.byte_size() *)
Definition trial (table_of : N -> list prefix) (d : dtype) (level order : N) (head : list Z)
  : res N :=
  let c := trial_cfg level order in
  let '(st1, o1) := w_step c d w_init WHeader in
  if wout_fails o1 then Panic else
  let '(st2, o2) := w_step c d st1 (WChunk head (table_of order)) in
  if wout_fails o2 then Panic else
  match snd (w_step c d st2 WByteSize) with
  | WSize n => Ok n
  | _ => Panic
  end.

(* `size < best_size`, best_size = usize::MAX initially (None) *)
Definition improves (size : N) (best_size : option N) : bool :=
  match best_size with
  | None => true
  | Some b => size <? b
  end.

(* `for delta_encoding_order in order .. order + n { ... }` with the mutable
   best_order / best_size and `break` on the first non-improvement *)
Fixpoint auto_loop (size_of : N -> res N) (n : nat) (order : N)
    (best_order : N) (best_size : option N) : res N :=
  match n with
  | O => Ok best_order
  | S n' =>
    do size <- size_of order;
    if improves size best_size
    then auto_loop size_of n' (order + 1) order (Some size)
    else Ok best_order
  end.

(* head_nums: the first AUTO_DELTA_LIMIT numbers *)
Definition auto_head (xs : list Z) : list Z := firstn (N.to_nat Consts.AUTO_DELTA_LIMIT) xs.

(* auto_delta_encoding_order(nums, compression_level) *)
Definition auto_order (table_of : N -> list prefix) (d : dtype) (level : N) (xs : list Z)
  : res N :=
  match xs with
  | [] => Ok 0
  | _ =>
    auto_loop (fun order => trial table_of d level order (auto_head xs))
              8 0 USIZE_MAX None
  end.

(* auto_compressor_config(nums, compression_level): (level, delta order, use_gcds);
   use_gcds keeps its default, true *)
Definition auto_config (table_of : N -> list prefix) (d : dtype) (level : N) (xs : list Z)
  : res (N * N * bool) :=
  do order <- auto_order table_of d level xs;
  Ok (level, order, true).
