(* Time.v — SystemTime <-> timestamp conversions
   (data_types/timestamps.rs, data_types/timestamps_96.rs, as FIXED in /repo: wrapping_neg
   for ceil_secs, i128 arithmetic + i64::try_from in the 64-bit from_secs_and_nanos,
   unsigned_abs / -(seconds + 1) in TryFrom<Timestamp96> for SystemTime), transcribed line
   by line with explicit casts and explicit panics.  Definitions only; total and computable.

   A Rust SystemTime on Linux is a Timespec { tv_sec : i64, tv_nsec : 0..10^9 }.
   We model it as a pair (sec, nanos) : Z * Z, the instant sec + nanos/10^9 seconds
   after the Unix epoch, with -2^63 <= sec < 2^63 and 0 <= nanos < 10^9  ([st_ok]).

   Build assumptions: debug profile (overflow-checks on): +,-,*, unary - on fixed width
   integers panic on overflow ([dbg]); `as` casts wrap ([as_i64] ...); checked_* return
   None ([checked]).  std itself is as shipped (sys/pal/unix/time.rs):
     Timespec::sub_timespec, checked_add_duration, checked_sub_duration
   (the latter two use checked_add_unsigned / checked_sub_unsigned). *)
From QCo.Model Require Import Base Consts DType.
Open Scope Z_scope.

(* ---------- fixed width integers ---------- *)
Definition in_i64 (x : Z) : bool := (- 2 ^ 63 <=? x) && (x <? 2 ^ 63).
Definition in_u64 (x : Z) : bool := (0 <=? x) && (x <? 2 ^ 64).
Definition in_u32 (x : Z) : bool := (0 <=? x) && (x <? 2 ^ 32).
Definition in_i128 (x : Z) : bool := (- 2 ^ 127 <=? x) && (x <? 2 ^ 127).

(* `x as i64`, `x as u64`, `x as u32` : wrap *)
Definition as_i64 (x : Z) : Z := (x + 2 ^ 63) mod 2 ^ 64 - 2 ^ 63.
Definition as_u64 (x : Z) : Z := x mod 2 ^ 64.
Definition as_u32 (x : Z) : Z := x mod 2 ^ 32.

(* result of an arithmetic operator in a debug build: panic when out of range *)
Definition dbg (ok : Z -> bool) (x : Z) : res Z := if ok x then Ok x else Panic.
(* result of a checked_* operation *)
Definition checked (ok : Z -> bool) (x : Z) : option Z := if ok x then Some x else None.

(* unary minus on i64 *)
Definition neg_i64 (x : Z) : res Z := dbg in_i64 (- x).
(* i64::wrapping_neg, i64::unsigned_abs *)
Definition wrapping_neg_i64 (x : Z) : Z := as_i64 (- x).
Definition unsigned_abs (x : Z) : Z := Z.abs x.

(* ---------- constants ---------- *)
Definition BILLION : Z := 1000000000.          (* BILLION_I64 / BILLION_U32 / NSEC_PER_SEC *)
(* NS_PER_PART = BILLION / $parts_per_sec  (integer division of positive constants) *)
Definition ns_per_part (d : dtype) : Z := Z.quot BILLION (pps d).

(* ---------- std::time ---------- *)
Definition st_ok (sec nanos : Z) : bool :=
  in_i64 sec && (0 <=? nanos) && (nanos <? BILLION).

(* system_time.duration_since(UNIX_EPOCH):
     inl (secs, subsec) = Ok(dur);  inr (secs, subsec) = Err(e) with dur = e.duration().
   Timespec::sub_timespec with other = (0,0):  self >= other  iff  sec >= 0;
   otherwise the result is epoch - self:
     nanos = 0 : (0 - sec) as u64 (wrapping_sub, cast_unsigned), 0
     nanos > 0 : (0 - 1 - sec) as u64, 0 + 10^9 - nanos                          *)
Definition duration_since_epoch (sec nanos : Z) : (Z * Z) + (Z * Z) :=
  if 0 <=? sec then inl (as_u64 sec, nanos)
  else if 0 <=? - nanos            (* epoch.tv_nsec >= self.tv_nsec *)
       then inr (as_u64 (0 - sec), 0 - nanos)
       else inr (as_u64 (0 - 1 - sec), 0 + BILLION - nanos).

(* Duration::new(secs : u64, nanos : u32): carries whole seconds out of nanos,
   `secs.checked_add(..).expect("overflow in Duration::new")` *)
Definition duration_new (secs nanos : Z) : res (Z * Z) :=
  do s <- dbg in_u64 (secs + nanos / BILLION);
  Ok (s, nanos mod BILLION).

(* UNIX_EPOCH + dur : checked_add_duration(..).expect(..) on Timespec (0,0) *)
Definition epoch_add (dur : Z * Z) : res (Z * Z) :=
  let '(s, n) := dur in
  match checked in_i64 (0 + s) with          (* checked_add_unsigned *)
  | None => Panic
  | Some secs =>
      let nsec := n + 0 in
      if BILLION <=? nsec
      then match checked in_i64 (secs + 1) with
           | None => Panic
           | Some secs' => Ok (secs', nsec - BILLION)
           end
      else Ok (secs, nsec)
  end.

(* UNIX_EPOCH - dur : checked_sub_duration(..).expect(..) on Timespec (0,0) *)
Definition epoch_sub (dur : Z * Z) : res (Z * Z) :=
  let '(s, n) := dur in
  match checked in_i64 (0 - s) with          (* checked_sub_unsigned *)
  | None => Panic
  | Some secs =>
      let nsec := 0 - n in
      if nsec <? 0
      then match checked in_i64 (secs - 1) with
           | None => Panic
           | Some secs' => Ok (secs', nsec + BILLION)
           end
      else Ok (secs, nsec)
  end.

(* ---------- timestamps.rs (64-bit) ---------- *)

(* $t::from_secs_and_nanos(seconds : i64, subsec_nanos : i64):
     let parts = seconds as i128 * pps as i128 + (subsec_nanos / NS_PER_PART) as i128;
     i64::try_from(parts) ... map_err(invalid_argument) *)
Definition from_secs_and_nanos64 (d : dtype) (seconds subsec_nanos : Z) : res Z :=
  do m <- dbg in_i128 (seconds * pps d);
  do parts <- dbg in_i128 (m + Z.quot subsec_nanos (ns_per_part d));
  if in_i64 parts then Ok parts else Err InvalidArgument.

(* the `match system_time.duration_since(UNIX_EPOCH)` block of TryFrom<SystemTime> *)
Definition st_split64 (sec nanos : Z) : res (Z * Z) :=
  match duration_since_epoch sec nanos with
  | inl (secs, subsec) => Ok (as_i64 secs, subsec)
  | inr (secs, subsec) =>
      let complement_nanos := subsec in
      let ceil_secs := wrapping_neg_i64 (as_i64 secs) in (* (dur.as_secs() as i64).wrapping_neg() *)
      if complement_nanos =? 0 then Ok (ceil_secs, 0)
      else
        do s1 <- dbg in_i64 (ceil_secs - 1);
        do n1 <- dbg in_i64 (BILLION - complement_nanos);
        Ok (s1, n1)
  end.

(* $t::to_secs_and_nanos *)
Definition to_secs_and_nanos64 (d : dtype) (parts : Z) : res (Z * Z) :=
  let seconds := parts / pps d in                                   (* div_euclid *)
  do subsec_nanos <- dbg in_i64 ((parts mod pps d) * ns_per_part d); (* rem_euclid * NS *)
  Ok (seconds, subsec_nanos).

(* the `if seconds >= 0 { .. } else { .. }` block of From<$t> for SystemTime (unchanged) *)
Definition st_build64 (seconds subsec_nanos : Z) : res (Z * Z) :=
  if 0 <=? seconds then
    do dur <- duration_new (as_u64 seconds) (as_u32 subsec_nanos);
    epoch_add dur
  else
    do dur <-
      (if subsec_nanos =? 0 then
         do m <- neg_i64 seconds;
         duration_new (as_u64 m) 0
       else
         do m <- neg_i64 seconds;
         do m1 <- dbg in_i64 (m - 1);
         do c <- dbg in_i64 (BILLION - subsec_nanos);
         duration_new (as_u64 m1) (as_u32 c));
    epoch_sub dur.

(* From<$t> for SystemTime *)
Definition ts2st64 (d : dtype) (parts : Z) : res (Z * Z) :=
  do '(seconds, subsec_nanos) <- to_secs_and_nanos64 d parts;
  st_build64 seconds subsec_nanos.

(* ---------- timestamps_96.rs ---------- *)

(* $t::from_secs_and_nanos(seconds : i64, subsec_nanos : u32) -> Self (i128 arithmetic) *)
Definition from_secs_and_nanos96 (d : dtype) (seconds subsec_nanos : Z) : res Z :=
  do m <- dbg in_i128 (seconds * pps d);
  dbg in_i128 (m + Z.quot subsec_nanos (ns_per_part d)).

(* the `match` block of From<SystemTime> (u32 sub-second arithmetic) *)
Definition st_split96 (sec nanos : Z) : res (Z * Z) :=
  match duration_since_epoch sec nanos with
  | inl (secs, subsec) => Ok (as_i64 secs, subsec)
  | inr (secs, subsec) =>
      let complement_nanos := subsec in
      let ceil_secs := wrapping_neg_i64 (as_i64 secs) in
      if complement_nanos =? 0 then Ok (ceil_secs, 0)
      else
        do s1 <- dbg in_i64 (ceil_secs - 1);
        do n1 <- dbg in_u32 (BILLION - complement_nanos);
        Ok (s1, n1)
  end.

(* $t::to_secs_and_nanos *)
Definition to_secs_and_nanos96 (d : dtype) (parts : Z) : res (Z * Z) :=
  let seconds := as_i64 (parts / pps d) in
  do subsec_nanos <- dbg in_u32 (as_u32 (parts mod pps d) * ns_per_part d);
  Ok (seconds, subsec_nanos).

(* the `if seconds >= 0 { .. } else { .. }` block of TryFrom<$t> for SystemTime (fixed) *)
Definition st_build96 (seconds subsec_nanos : Z) : res (Z * Z) :=
  if 0 <=? seconds then
    do dur <- duration_new (as_u64 seconds) subsec_nanos;
    epoch_add dur
  else
    do dur <-
      (if subsec_nanos =? 0 then
         duration_new (unsigned_abs seconds) 0
       else
         do s1 <- dbg in_i64 (seconds + 1);
         do m <- neg_i64 s1;                            (* -(seconds + 1) *)
         do c <- dbg in_u32 (BILLION - subsec_nanos);
         duration_new (as_u64 m) c);
    epoch_sub dur.

(* TryFrom<$t> for SystemTime *)
Definition ts2st96 (d : dtype) (parts : Z) : res (Z * Z) :=
  if negb (valid d parts) then Err Corruption else               (* value.validate()? *)
  do '(seconds, subsec_nanos) <- to_secs_and_nanos96 d parts;
  st_build96 seconds subsec_nanos.

(* ---------- the public conversions ---------- *)

(* TryFrom<SystemTime> (64-bit) / From<SystemTime> (96-bit) *)
Definition st2ts (d : dtype) (sec nanos : Z) : res Z :=
  match kind d with
  | KTs64 => do '(s, n) <- st_split64 sec nanos; from_secs_and_nanos64 d s n
  | KTs96 => do '(s, n) <- st_split96 sec nanos; from_secs_and_nanos96 d s n
  | _ => Err InvalidArgument
  end.

(* From<Timestamp> for SystemTime (64-bit) / TryFrom<Timestamp96> for SystemTime *)
Definition ts2st (d : dtype) (parts : Z) : res (Z * Z) :=
  match kind d with
  | KTs64 => ts2st64 d parts
  | KTs96 => ts2st96 d parts
  | _ => Err InvalidArgument
  end.

(* Timestamp96::new *)
Definition ts96_new (d : dtype) (parts : Z) : res Z :=
  match kind d with
  | KTs96 => if valid d parts then Ok parts else Err InvalidArgument
  | _ => Err InvalidArgument
  end.
