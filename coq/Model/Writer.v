(* Writer.v — W: the compressor as a state machine (compressor.rs), parameterised by
   the prefix table chosen for each chunk (the policy is an oracle: see Policy.v).
   Definitions only. *)
From QCo.Model Require Import Base Consts DType Codec.
Open Scope N_scope.

Record wcfg := mkWcfg { w_level : N; w_order : N; w_gcds : bool }.

Record wstate := mkW {
  w_hdr : bool;             (* has_written_header *)
  w_ftr : bool;             (* has_written_footer *)
  w_pending : list N }.     (* bytes written and not yet drained *)

Definition w_init : wstate := mkW false false [].

Definition cfg_flags (c : wcfg) : flags := writer_flags (w_order c) (w_gcds c).

(* header bytes: magic, dtype byte, flag bytes *)
Definition header_bytes (d : dtype) (f : flags) : res (list N) :=
  do fb <- write_flags f;
  Ok (Consts.MAGIC_HEADER ++ [hdr d] ++ bits_to_bytes fb).

(* unsigned images the chunk's table is trained on and the body encodes *)
Definition chunk_unsigneds (d : dtype) (order : N) (xs : list Z) : list N :=
  if order =? 0 then map (to_u d) xs else delta_unsigneds d order xs.

Definition chunk_moments (d : dtype) (order : N) (xs : list Z) : list Z :=
  if order =? 0 then [] else delta_moments d order xs.

(* metadata + body bytes of one chunk (without the magic chunk byte), and the metadata *)
Definition chunk_payload (d : dtype) (f : flags) (table : list prefix) (xs : list Z)
  : res (meta * list N) :=
  let us := chunk_unsigneds d (ford f) xs in
  do body <- write_body table us;
  let body_bytes := bits_to_bytes body in
  let m := mkMeta (Nlen xs) (Nlen body_bytes) (chunk_moments d (ford f) xs) table in
  do mb <- write_meta f d m;
  Ok (m, bits_to_bytes mb ++ body_bytes).

Inductive wop :=
| WHeader
| WChunk (xs : list Z) (table : list prefix)
| WFooter
| WDrain
| WByteSize.

Inductive wout :=
| WUnit
| WMeta (m : meta)
| WBytes (bs : list N)
| WSize (n : N)
| WErr (k : ekind)
| WPanic.

(* validation performed by Compressor::chunk and train_prefixes *)
Definition chunk_args_ok (c : wcfg) (d : dtype) (xs : list Z) : bool :=
  let us := chunk_unsigneds d (w_order c) xs in
  negb (is_nil xs)
  && (is_nil us || ((w_level c <=? Consts.MAX_COMPRESSION_LEVEL) && (Nlen xs <=? Consts.MAX_ENTRIES))).

Definition w_step (c : wcfg) (d : dtype) (st : wstate) (o : wop) : wstate * wout :=
  match o with
  | WHeader =>
    if w_hdr st || w_ftr st then (st, WErr InvalidArgument) else
    match header_bytes d (cfg_flags c) with
    | Ok hb => (mkW true (w_ftr st) (w_pending st ++ hb), WUnit)
    | Err k => (st, WErr k)
    | Panic => (st, WPanic)
    end
  | WChunk xs table =>
    if negb (w_hdr st) || w_ftr st then (st, WErr InvalidArgument) else
    if negb (chunk_args_ok c d xs) then (st, WErr InvalidArgument) else
    match chunk_payload d (cfg_flags c) table xs with
    | Ok (m, bs) =>
        (mkW (w_hdr st) (w_ftr st) (w_pending st ++ [Consts.MAGIC_CHUNK_BYTE] ++ bs), WMeta m)
    | Err k => (st, WErr k)
    | Panic => (st, WPanic)
    end
  | WFooter =>
    if negb (w_hdr st) || w_ftr st then (st, WErr InvalidArgument)
    else (mkW (w_hdr st) true (w_pending st ++ [Consts.MAGIC_TERMINATION_BYTE]), WUnit)
  | WDrain => (mkW (w_hdr st) (w_ftr st) [], WBytes (w_pending st))
  | WByteSize => (st, WSize (Nlen (w_pending st)))
  end.

Fixpoint w_run (c : wcfg) (d : dtype) (st : wstate) (ops : list wop) : wstate * list wout :=
  match ops with
  | [] => (st, [])
  | o :: t => let '(st1, out) := w_step c d st o in
              let '(st2, outs) := w_run c d st1 t in
              (st2, out :: outs)
  end.

(* whole file for given chunks and their tables *)
Fixpoint chunks_bytes (d : dtype) (f : flags) (chunks : list (list Z * list prefix)) : res (list N) :=
  match chunks with
  | [] => Ok []
  | (xs, table) :: t =>
    do '(_, bs) <- chunk_payload d f table xs;
    do r <- chunks_bytes d f t;
    Ok ([Consts.MAGIC_CHUNK_BYTE] ++ bs ++ r)
  end.

Definition file_bytes (d : dtype) (f : flags) (chunks : list (list Z * list prefix)) : res (list N) :=
  do hb <- header_bytes d f;
  do cb <- chunks_bytes d f chunks;
  Ok (hb ++ cb ++ [Consts.MAGIC_TERMINATION_BYTE]).
