(* Policy.v — how the compressor chooses the prefix table (compressor.rs train_prefixes:
   choose_unoptimized_prefixes / push_pref, prefix_optimization.rs optimize_prefixes,
   huffman_encoding.rs make_huffman_code, gcd_utils.rs pair_gcd / gcd /
   fold_prefix_gcds_left).

   ORACLE-PARAMETERISED: the integer skeleton is transcribed exactly; every decision the
   real code takes with f64 arithmetic or with an unspecified tie-break is an explicit
   argument:
     rl     : the run-length decision of push_pref (f64 frequency test + jumpstart choice)
     fg     : use_gcd_prefix_optimize (a bool; an integer transcription is given below)
     path   : the (j,i) ranges chosen by the f64 dynamic programme of optimize_prefixes
     merges : which two live items each step of the Huffman BinaryHeap pops
   Definitions only, computable, total.  Proofs live in Lemmas/PolicyL.v. *)
From QCo.Model Require Import Base Consts Codec.
Open Scope N_scope.

(* ---------------- gcd_utils.rs ---------------- *)

(* pair_gcd: loop { a %= b; if a == 0 {return b}; b %= a; if b == 0 {return a} }.
   Requires b > 0.  [fuel] bounds the number of loop iterations; 0 on exhaustion (never
   reached from [pgcd], see PolicyL.pgcd_spec: b at least halves per iteration). *)
Fixpoint pair_gcd (fuel : nat) (a b : N) : N :=
  match fuel with
  | O => 0
  | S f =>
    let a' := a mod b in
    if a' =? 0 then b else
    let b' := b mod a' in
    if b' =? 0 then a' else pair_gcd f a' b'
  end.
Definition pgcd (a b : N) : N := pair_gcd (S (N.to_nat (N.size b))) a b.

(* gcd(sorted): the loop over sorted.iter().skip(1) with the early exit at res == 1 *)
Fixpoint gcd_loop (lower res : N) (l : list N) : N :=
  match l with
  | [] => res
  | x :: t => if res =? 1 then res else gcd_loop lower (pgcd (x - lower) res) t
  end.
(* the real code indexes sorted[0]: it is never called on an empty slice; 1 there *)
Definition gcd_sorted (l : list N) : N :=
  match l with
  | [] => 1
  | lower :: t =>
    let upper := last l lower in
    if lower =? upper then 1 else gcd_loop lower (upper - lower) t
  end.

(* fold_prefix_gcds_left *)
Definition fold_left_gcd (left_lower left_upper left_gcd right_upper : N) (acc : option N)
  : option N :=
  let acc1 :=
      if negb (left_upper =? right_upper) then
        Some (match acc with
              | Some g => pgcd (right_upper - left_upper) g
              | None => right_upper - left_upper
              end)
      else acc in
  if negb (left_upper =? left_lower) then
    Some (match acc1 with
          | Some g => pgcd left_gcd g
          | None => left_gcd
          end)
  else acc1.

(* ---------------- weighted prefixes (prefix.rs WeightedPrefix, code not yet assigned) *)
Record wpref := mkW {
  w_count : N;
  w_weight : N;
  w_lower : N;           (* unsigned image *)
  w_upper : N;           (* unsigned image *)
  w_jump : option N;     (* run_len_jumpstart *)
  w_gcd : N }.

(* ---------------- compressor.rs: choose_max_n_prefixes ----------------
   (n as f64).log2().floor() is N.log2 n for 1 <= n <= MAX_ENTRIES *)
Definition choose_max_n_prefixes (comp_level n : N) : N :=
  let log_n := N.log2 n in
  let max_level_for_n := N.min Consts.MAX_COMPRESSION_LEVEL (log_n / 2 + 5) in
  let real_level := comp_level - (Consts.MAX_COMPRESSION_LEVEL - max_level_for_n) in
  N.min (2 ^ real_level) n.

(* ---------------- compressor.rs: choose_unoptimized_prefixes ---------------- *)
Definition nthN (l : list N) (i : N) : N := nth (N.to_nat i) l 0.
(* sorted[i..j] *)
Definition slice (i j : N) (l : list N) : list N :=
  firstn (N.to_nat (j - i)) (skipn (N.to_nat i) l).

(* the run-length oracle: [rl count n] is None for an ordinary prefix
   (n < MIN_N_TO_USE_RUN_LEN || frequency < MIN_FREQUENCY_TO_USE_RUN_LEN || count == n)
   and Some (weight, jumpstart) = choose_run_len_jumpstart(count, n) otherwise *)
Definition rl_oracle := N -> N -> option (N * N).

(* the prefix pushed by push_pref(buffer, i, j) *)
Definition push_pref (sorted : list N) (n : N) (use_gcd : bool) (rl : rl_oracle) (i j : N)
  : wpref :=
  let count := j - i in
  let lower := nthN sorted i in
  let upper := nthN sorted (j - 1) in
  let g := if use_gcd then gcd_sorted (slice i j sorted) else 1 in
  match rl count n with
  | None => mkW count count lower upper None g
  | Some (weight, jumpstart) => mkW count weight lower upper (Some jumpstart) g
  end.

(* loop state: *prefix_idx, i, backup_j and the (i, j) arguments of the push_pref calls so
   far, latest first *)
Record ust := mkU {
  u_pidx : N;
  u_i : N;
  u_backup : N;
  u_cuts : list (N * N) }.

Definition u_target (n maxp : N) (st : ust) : N := ((u_pidx st + 1) * n) / maxp.

(* push_pref(i, j); i = j   (only the index bookkeeping: the prefix itself is built by
   [push_pref] from the recorded (i, j)) *)
Definition u_push (n maxp : N) (st : ust) (j : N) : ust :=
  mkU (N.max (u_pidx st + 1) ((j * maxp) / n)) j (u_backup st) ((u_i st, j) :: u_cuts st).

(* one iteration of `for j in 0..n_unsigneds`; [same] = j > 0 && sorted[j] == sorted[j-1] *)
Definition u_step (n maxp : N) (st : ust) (j : N) (same : bool) : ust :=
  let target := u_target n maxp st in
  if same then
    if (target <=? j) && (target - u_backup st <=? j - target) && (u_i st <? u_backup st)
    then u_push n maxp st (u_backup st)
    else st
  else
    let st' := mkU (u_pidx st) (u_i st) j (u_cuts st) in
    if target <=? j then u_push n maxp st' j else st'.

(* iterations j, j+1, ... over the remaining elements; [prev] = sorted[j-1] *)
Fixpoint u_loop (n maxp : N) (st : ust) (j : N) (prev : N) (l : list N) : ust :=
  match l with
  | [] => st
  | x :: t => u_loop n maxp (u_step n maxp st j (x =? prev)) (j + 1) x t
  end.

Definition u_init : ust := mkU 0 0 0 [].

(* the (i, j) arguments of all push_pref calls, in order, the final push_pref(i, n) included *)
Definition unopt_cuts (sorted : list N) (maxp : N) : list (N * N) :=
  match sorted with
  | [] => []
  | x0 :: t =>
    let n := Nlen sorted in
    let st := u_loop n maxp (u_step n maxp u_init 0 false) 1 x0 t in
    rev ((u_i st, n) :: u_cuts st)
  end.

(* choose_unoptimized_prefixes.  The real function is only called on a non-empty slice
   (train_prefixes returns early); [] there.  It is called with
   1 <= max_n_pref <= n (choose_max_n_prefixes). *)
Definition choose_unoptimized (sorted : list N) (maxp : N) (use_gcd : bool) (rl : rl_oracle)
  : list wpref :=
  let n := Nlen sorted in
  map (fun c => push_pref sorted n use_gcd rl (fst c) (snd c)) (unopt_cuts sorted maxp).

(* ---------------- prefix_optimization.rs ---------------- *)

(* gcd_utils::use_gcd_prefix_optimize on unsigned images (the real code compares
   pi.lower == pi.upper on T: for floats that differs from the unsigned comparison on
   [-0.0, 0.0]; hence [apply_path] takes the result as the argument fg) *)
Fixpoint adj_trivial_gap (ps : list wpref) : bool :=
  match ps with
  | pj :: ((pi :: _) as t) =>
      ((w_lower pi =? w_upper pi) && (w_lower pj =? w_upper pj)
       && (w_upper pj + 1 <? w_lower pi))
      || adj_trivial_gap t
  | _ => false
  end.
Definition use_gcd_prefix_optimize (use_gcds : bool) (ps : list wpref) : bool :=
  use_gcds && (existsb (fun p => 1 <? w_gcd p) ps || adj_trivial_gap ps).

Definition sumN (l : list N) : N := fold_right N.add 0 l.

(* the final loop of optimize_prefixes for one (j, i) of the path;
   [ms] = prefixes[j..=i] (non-empty).  The real loop runs k from i down to j, which is
   fold_right over ms. *)
Definition merge_members (fg : bool) (ms : list wpref) : wpref :=
  let dflt := mkW 0 0 0 0 None 1 in
  let first := hd dflt ms in
  let lst := last ms dflt in
  let up := w_upper lst in
  let acc :=
      if fg then
        fold_right (fun p acc => fold_left_gcd (w_lower p) (w_upper p) (w_gcd p) up acc) None ms
      else None in
  mkW (sumN (map w_count ms))
      (sumN (map w_weight ms))                 (* cum_weight[i+1] - cum_weight[j] *)
      (w_lower first) up (w_jump lst)
      (match acc with Some g => g | None => 1 end).

(* l[j..=i] *)
Definition range {A} (l : list A) (ji : nat * nat) : list A :=
  firstn (S (snd ji) - fst ji) (skipn (fst ji) l).

Definition apply_path (fg : bool) (raws : list wpref) (path : list (nat * nat)) : list wpref :=
  map (fun ji => merge_members fg (range raws ji)) path.

(* the pairs tile start..n-1 contiguously, in order *)
Fixpoint tiles (start n : nat) (path : list (nat * nat)) : bool :=
  match path with
  | [] => Nat.eqb start n
  | (j, i) :: t => Nat.eqb j start && Nat.leb j i && Nat.ltb i n && tiles (S i) n t
  end.

(* maybe_rep_idx: position of the first prefix with a run-length jumpstart *)
Fixpoint rep_idx (ps : list wpref) : option nat :=
  match ps with
  | [] => None
  | p :: t => match w_jump p with
              | Some _ => Some O
              | None => match rep_idx t with Some k => Some (S k) | None => None end
              end
  end.

(* start_j: a range that contains the run-length prefix is that prefix alone *)
Definition rep_alone (rep : option nat) (path : list (nat * nat)) : bool :=
  match rep with
  | None => true
  | Some r => forallb (fun ji => negb (Nat.leb (fst ji) r && Nat.leb r (snd ji))
                                 || (Nat.eqb (fst ji) r && Nat.eqb (snd ji) r)) path
  end.

(* the paths optimize_prefixes can produce for [raws] *)
Definition valid_path (raws : list wpref) (path : list (nat * nat)) : bool :=
  tiles 0 (length raws) path && rep_alone (rep_idx raws) path.

(* ---------------- huffman_encoding.rs ---------------- *)
Inductive htree := HLeaf (id : nat) | HNode (l r : htree).

(* remove element k *)
Definition pop {A} (k : nat) (l : list A) : option (A * list A) :=
  match nth_error l k with
  | Some x => Some (x, firstn k l ++ skipn (S k) l)
  | None => None
  end.

(* one iteration: small0 = pop, small1 = pop, push the parent (left = small0).
   The oracle gives the position of small0 among the live items and the position of
   small1 among the remaining ones.  A step whose indices are out of range is a no-op. *)
Definition hstep (live : list (N * htree)) (m : nat * nat) : list (N * htree) :=
  match pop (fst m) live with
  | Some ((w0, t0), live1) =>
    match pop (snd m) live1 with
    | Some ((w1, t1), live2) => live2 ++ [(w0 + w1, HNode t0 t1)]
    | None => live
    end
  | None => live
  end.

Definition hinit (weights : list N) : list (N * htree) :=
  combine weights (map HLeaf (seq 0 (length weights))).

Definition hrun (weights : list N) (merges : list (nat * nat)) : list (N * htree) :=
  fold_left hstep merges (hinit weights).

(* all indices of the oracle are in range *)
Fixpoint hvalid (live : list (N * htree)) (merges : list (nat * nat)) : bool :=
  match merges with
  | [] => true
  | m :: t => Nat.ltb (fst m) (length live) && Nat.ltb (S (snd m)) (length live)
              && hvalid (hstep live m) t
  end.

(* the choices a min-heap can make: small0 has minimal weight, small1 has minimal weight
   among the rest *)
Definition is_min_at (live : list (N * htree)) (k : nat) : bool :=
  match nth_error live k with
  | Some (w, _) => forallb (fun x => w <=? fst x) live
  | None => false
  end.
Fixpoint hminimal (live : list (N * htree)) (merges : list (nat * nat)) : bool :=
  match merges with
  | [] => true
  | m :: t =>
    is_min_at live (fst m)
    && match pop (fst m) live with
       | Some (_, live1) => is_min_at live1 (snd m)
       | None => false
       end
    && hminimal (hstep live m) t
  end.

(* create_bits_from: the code of leaf [id], read root first; left = false, right = true *)
Fixpoint hcode (t : htree) (id : nat) : option bits :=
  match t with
  | HLeaf k => if Nat.eqb k id then Some [] else None
  | HNode l r =>
    match hcode l id with
    | Some c => Some (false :: c)
    | None => match hcode r id with
              | Some c => Some (true :: c)
              | None => None
              end
    end
  end.
Fixpoint fcode (live : list (N * htree)) (id : nat) : bits :=
  match live with
  | [] => []
  | (_, t) :: r => match hcode t id with Some c => c | None => fcode r id end
  end.

(* make_huffman_code: codes of the leaves in the original order.  With n leaves the real
   code performs n - 1 merges and is left with one tree. *)
Definition huffman (weights : list N) (merges : list (nat * nat)) : list bits :=
  map (fcode (hrun weights merges)) (seq 0 (length weights)).

(* ---------------- train_prefixes ---------------- *)
Definition to_prefix (w : wpref) (code : bits) : prefix :=
  mkPrefix (w_count w) (w_lower w) (w_upper w) code (w_jump w) (w_gcd w).

Fixpoint assign_codes (ws : list wpref) (codes : list bits) : list prefix :=
  match ws with
  | [] => []
  | w :: t => to_prefix w (hd [] codes) :: assign_codes t (tl codes)
  end.

Definition train_table (sorted : list N) (maxp : N) (use_gcd : bool) (rl : rl_oracle)
           (fg : bool) (path : list (nat * nat)) (merges : list (nat * nat)) : list prefix :=
  let raws := choose_unoptimized sorted maxp use_gcd rl in
  let opt := apply_path fg raws path in
  assign_codes opt (huffman (map w_weight opt) merges).
