(* Frozen.v — the .qco format constants as frozen at q_compress 0.11 (hand-written, never
   regenerated).  Sources: README ".qco File Format", constants.rs and data_types/*.rs
   of the pinned tree, validated against the shipped 0.4–0.10 asset files. *)
From Coq Require Import NArith List.
Import ListNotations.
Open Scope N_scope.
Module Frozen.
Definition MAGIC_HEADER : list N := [113; 99; 111; 33].   (* "qco!" *)
Definition MAGIC_CHUNK_BYTE : N := 44.                     (* "," *)
Definition MAGIC_TERMINATION_BYTE : N := 46.               (* "." *)
Definition MAX_DELTA_ENCODING_ORDER : N := 7.
Definition BITS_TO_ENCODE_DELTA_ENCODING_ORDER : N := 3.
Definition MAX_ENTRIES : N := 16777215.
Definition BITS_TO_ENCODE_N_ENTRIES : N := 24.
Definition BITS_TO_ENCODE_N_PREFIXES : N := 15.
Definition MAX_JUMPSTART : N := 24.
Definition BITS_TO_ENCODE_JUMPSTART : N := 5.
Definition BITS_TO_ENCODE_COMPRESSED_BODY_SIZE : N := 32.
Definition CODE_LEN_BITS_5 : N := 5.
Definition CODE_LEN_BITS_4 : N := 4.
Definition FLAG_PAYLOAD_BITS_PER_BYTE : N := 7.
Definition N_KNOWN_FLAG_BITS : N := 6.

(* scalar constants in the order of Consts.format_constants *)
Definition format_constants : list N :=
  MAGIC_HEADER ++
  [ MAGIC_CHUNK_BYTE; MAGIC_TERMINATION_BYTE; MAX_DELTA_ENCODING_ORDER;
    BITS_TO_ENCODE_DELTA_ENCODING_ORDER; MAX_ENTRIES; BITS_TO_ENCODE_N_ENTRIES;
    BITS_TO_ENCODE_N_PREFIXES; MAX_JUMPSTART; BITS_TO_ENCODE_JUMPSTART;
    BITS_TO_ENCODE_COMPRESSED_BODY_SIZE; CODE_LEN_BITS_5; CODE_LEN_BITS_4;
    (* flag payload positions: 5-bit code len, delta order (3 bits), min count, gcds *)
    0; 1; 4; 5; N_KNOWN_FLAG_BITS; FLAG_PAYLOAD_BITS_PER_BYTE;
    (* what the current writer sets: use_5_bit_code_len, use_min_count_encoding *)
    1; 1;
    (* header bytes: bool i16 i32 i64 i128 u16 u32 u64 u128 f32 f64 TsMicros TsNanos TsMicros96 TsNanos96 *)
    7; 13; 3; 1; 10; 12; 4; 2; 11; 6; 5; 15; 14; 9; 8;
    (* physical bits *)
    8; 16; 32; 64; 128; 16; 32; 64; 128; 32; 64; 64; 64; 96; 96;
    (* unsigned widths *)
    8; 16; 32; 64; 128; 16; 32; 64; 128; 32; 64; 64; 64; 128; 128;
    (* header byte of the signed companion type *)
    7; 13; 3; 1; 10; 13; 3; 1; 10; 3; 1; 1; 1; 10; 10 ].
End Frozen.
