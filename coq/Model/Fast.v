(* Fast.v — the UNCHECKED fast path of num_decompressor.rs
   (decompress_unsigneds_limited_dirty, unchecked_decompress_num_block,
   unchecked_decompress_offsets; huffman_decoding.rs unchecked_search_with_reader;
   bit_reader.rs unchecked_read_diff / unchecked_read_one / unchecked_read_varint /
   unchecked_read_prefix_table_idx).  Definitions only; proofs in Lemmas/FastL.v.

   Reader model.  The checked model (Codec.v) works on the list [s] of the REAL bits that
   remain (up to total_bits).  The unchecked reads work on the 64-bit word buffer and are
   not bounds-checked against total_bits: the bits between total_bits and the end of the
   last word are zero padding, and indexing past the last word panics.  So an unchecked
   read sees the padded stream [upad tb s = s ++ zeros]; it returns Panic when fewer bits
   than requested remain in the padded stream.

   Model conventions (each is noted where it is used):
   - an empty table has max_bits_per_num_block = max_overshoot_per_num_block = usize::MAX
     in the Rust; here the maxima are [option N], None = empty table, and the guard then
     yields 0 safe blocks (bits_remaining.saturating_sub(MAX) / MAX = 0);
   - `offset |= most_significant` is written `off + ms`: off < 2^k and ms is 0 or 2^k;
   - the walk over the table tree has fuel 33 like Codec.tsearch (strides of up to
     [stride] bits, code lengths <= 40 need at most 7 of them when the stride is 6, and 33
     suffice from a stride of 2 on: CodecL.stride_reach); running out of fuel is Panic (never
     happens for a validated table);
   - a reader position beyond total_bits when the fast path hands back to the checked
     code ([ustrip]) is Panic: `bits_remaining()` computes total_bits - bit_idx, which
     overflows (debug: panic; release: wraps to a huge count and the next unchecked read
     indexes past the buffer). *)
From QCo.Model Require Import Base Consts Codec.
Open Scope N_scope.

(* ---------------- the bounds the guard uses (num_decompressor.rs) ---------------- *)
(* KInfo.only_k_bits_lower = diff - only_k_bits_upper, exact integers *)
Definition only_k_bits_lower (p : prefix) : N := p_range p - (pow2 (p_k p) - 1).

Definition max_bits_per_offset (p : prefix) : N :=
  if only_k_bits_lower p =? 0 then p_k p else p_k p + 1.

(* fn max_bits_read.  [w] = U::BITS only bounds the k loop of k_info; with the exact
   integer k it plays no role (kept for the signature). *)
Definition max_bits_read (w : N) (p : prefix) : N :=
  let '(max_reps, max_jumpstart_bits) :=
      match p_jump p with
      | None => (1, 0)
      | Some _ => (Consts.MAX_ENTRIES, 2 * Consts.BITS_TO_ENCODE_N_ENTRIES)
      end in
  Nlen (p_code p) + max_jumpstart_bits + max_reps * max_bits_per_offset p.

(* fn max_bits_overshot: (MAX_PREFIX_TABLE_SIZE_LOG - 1).saturating_sub(k); N subtraction
   saturates *)
Definition max_bits_overshot (p : prefix) : N :=
  if is_nil (p_code p) then 0 else (Consts.MAX_PREFIX_TABLE_SIZE_LOG - 1) - p_k p.

(* .max() of an iterator: None on the empty table (the Rust then takes usize::MAX) *)
Fixpoint list_max_opt (l : list N) : option N :=
  match l with
  | [] => None
  | x :: t => match list_max_opt t with
              | None => Some x
              | Some m => Some (N.max x m)
              end
  end.
Definition max_bits_block (w : N) (ps : list prefix) : option N :=
  list_max_opt (map (max_bits_read w) ps).
Definition max_overshoot (ps : list prefix) : option N :=
  list_max_opt (map max_bits_overshot ps).

(* ---------------- the padded stream and the unchecked primitive reads ---------------- *)
(* number of zero bits between total_bits and the end of the last word *)
Definition pad_of (tb : N) : N := (64 - tb mod 64) mod 64.
(* [s] is the suffix of the held bits at absolute position tb - Nlen s; the padded length
   is 64 * ceil(tb/64) - (tb - Nlen s) = Nlen s + pad_of tb *)
Definition upad (tb : N) (s : bits) : bits := s ++ repeat false (N.to_nat (pad_of tb)).

(* back to the real stream.  Position beyond total_bits: Panic (see header). *)
Definition ustrip (tb : N) (u : bits) : res bits :=
  let k := N.to_nat (pad_of tb) in
  if Nat.leb k (length u) then Ok (firstn (length u - k) u) else Panic.

(* unchecked_read_diff(n) / read_usize: the next n bits of the padded stream; Panic when
   fewer than n remain (index past the last word); n = 0 touches nothing *)
Definition uget (n : N) (u : bits) : res (N * bits) :=
  match getn (N.to_nat n) u with
  | Some r => Ok r
  | None => Panic
  end.

(* unchecked_read_one *)
Definition uget1 (u : bits) : res (bool * bits) :=
  match u with
  | [] => Panic
  | b :: t => Ok (b, t)
  end.

(* ---------------- unchecked_search_with_reader ---------------- *)
(* Walk of the table tree: at a node with candidate set [cands] reached after [dpt] bits,
   the stride t = min stride (longest candidate code - dpt) is always read in full
   (unchecked_read_prefix_table_idx); at a leaf the reader is rewound to the leaf's depth
   (`rewind(read_depth - depth)`: usize underflow = Panic).  [u0] is the stream at the
   start of the code; the current position is [skipn dpt u0].  Same candidate filter as
   Codec.tsearch (build_from_prefixes_recursive). *)
Fixpoint usearch (fuel : nat) (cands : list prefix) (dpt : nat) (u0 : bits)
  : res (prefix * bits) :=
  match cands with
  | [p] => if Nat.leb (length (p_code p)) dpt then Ok (p, skipn (length (p_code p)) u0)
           else Panic
  | _ =>
    match fuel with
    | O => Panic
    | S f =>
      let t := Nat.min stride (max_code_len cands - dpt) in
      let cur := skipn dpt u0 in
      if Nat.ltb (length cur) t then Panic else
      let idxbits := firstn t cur in
      let cands' := filter (fun p => compatible (skipn dpt (p_code p)) idxbits) cands in
      usearch f cands' (dpt + t) u0
    end
  end.
Definition u_read_code (ps : list prefix) (u : bits) : res (prefix * bits) :=
  usearch 33 ps 0 u.

(* ---------------- unchecked_read_varint ---------------- *)
Fixpoint u_read_varint_cont (left : nat) (i : N) (acc : N) (u : bits) : res (N * bits) :=
  match left with
  | O => Ok (acc, u)
  | S l =>
    do '(b, u1) <- uget1 u;
    if b then
      do '(b2, u2) <- uget1 u1;
      u_read_varint_cont l (i + 1) (if b2 then acc + pow2 i else acc) u2
    else Ok (acc, u1)
  end.
Definition u_read_varint (j : N) (u : bits) : res (N * bits) :=
  do '(v, u1) <- uget j u;
  u_read_varint_cont (N.to_nat (Consts.BITS_TO_ENCODE_N_ENTRIES - j)) j v u1.

(* ---------------- unchecked_decompress_offsets ---------------- *)
(* one iteration of the general loop.  [phys] = T::PHYSICAL_BITS:
   PrefixDecompressionInfo.most_significant is 0 when k = PHYSICAL_BITS and 1 << k
   otherwise, whereas the checked decompress_offset_dirty always uses 1 << k.
   Hazards as in Codec.read_offset: k_range - offset underflow, lower + offset*gcd
   overflow. *)
Definition u_read_offset (w phys : N) (p : prefix) (u : bits) : res (N * bits) :=
  let r := p_range p in
  let k := k_of_range r in
  let ms := if k =? phys then 0 else pow2 k in
  do '(off, u1) <- uget k u;
  do '(off', u2) <-
    (if k <? w then
       if r <? off then Panic
       else if ms <=? r - off then
         do '(b, u2) <- uget1 u1; Ok (if b then off + ms else off, u2)
       else Ok (off, u1)
     else Ok (off, u1));
  let x := p_lower p + off' * p_gcd p in
  if x <=? umax w then Ok (x, u2) else Panic.

Fixpoint u_offsets_loop (w phys : N) (p : prefix) (reps : nat) (u : bits)
  : res (list N * bits) :=
  match reps with
  | O => Ok ([], u)
  | S r =>
    do '(x, u1) <- u_read_offset w phys p u;
    do '(l, u2) <- u_offsets_loop w phys p r u1;
    Ok (x :: l, u2)
  end.

(* `if reps > 1 && p.k == 0 { push lower reps times }` else the loop *)
Definition u_read_offsets (w phys : N) (p : prefix) (reps : N) (u : bits)
  : res (list N * bits) :=
  if (1 <? reps) && (p_k p =? 0) then Ok (repeat (p_lower p) (N.to_nat reps), u)
  else u_offsets_loop w phys p (N.to_nat reps) u.

(* ---------------- unchecked_decompress_num_block ---------------- *)
(* [room] = batch_size - unsigneds.len().  Returns the numbers pushed, the padded stream,
   what limit_reps stored in incomplete_prefix (None = left unchanged) and the new room. *)
Definition u_read_block (w phys : N) (ps : list prefix) (room : N) (u : bits)
  : res (list N * bits * option (prefix * N) * N) :=
  do '(p, u1) <- u_read_code ps u;
  match p_jump p with
  | None =>
    do '(l, u2) <- u_read_offsets w phys p 1 u1;
    Ok (l, u2, None, room - Nlen l)
  | Some j =>
    do '(v, u2) <- u_read_varint j u1;
    let full := v + 1 in
    let reps := N.min full room in
    do '(l, u3) <- u_read_offsets w phys p reps u2;
    Ok (l, u3, (if room <? full then Some (p, full - room) else None), room - Nlen l)
  end.

(* incomplete_prefix is a field: a later Some overwrites, None leaves it *)
Definition inc_merge (later earlier : option (prefix * N)) : option (prefix * N) :=
  match later with Some _ => later | None => earlier end.

(* `while block_idx < guaranteed_safe_num_blocks && unsigneds.len() < batch_size` *)
Fixpoint u_blocks (m : nat) (w phys : N) (ps : list prefix) (room : N) (u : bits)
  : res (list N * bits * option (prefix * N) * N) :=
  match m with
  | O => Ok ([], u, None, room)
  | S m' =>
    if room =? 0 then Ok ([], u, None, room) else
    do '(l, u1, inc, room1) <- u_read_block w phys ps room u;
    do '(l', u2, inc', room2) <- u_blocks m' w phys ps room1 u1;
    Ok (l ++ l', u2, inc_merge inc' inc, room2)
  end.

(* guaranteed_safe_num_blocks = min(remaining_unsigneds,
     bits_remaining.saturating_sub(max_overshoot) / max_bits_per_num_block) *)
Definition safe_blocks (mb mo room bits_remaining : N) : N :=
  N.min room ((bits_remaining - mo) / mb).

(* `loop { ...; if safe >= UNCHECKED_NUM_THRESHOLD { unchecked blocks } else break }`.
   Every round with safe >= 30 pushes at least one number, so fuel = room suffices; the
   fuel-exhausted branch just leaves the loop. *)
Fixpoint fast_loop (fuel : nat) (w phys tb : N) (ps : list prefix) (mb mo : N)
         (room : N) (s : bits) : res (list N * bits * option (prefix * N) * N) :=
  match fuel with
  | O => Ok ([], s, None, room)
  | S f =>
    let safe := safe_blocks mb mo room (Nlen s) in
    if Consts.UNCHECKED_NUM_THRESHOLD <=? safe then
      do '(l, u1, inc, room1) <- u_blocks (N.to_nat safe) w phys ps room (upad tb s);
      do s1 <- ustrip tb u1;
      do '(l', s2, inc', room2) <- fast_loop f w phys tb ps mb mo room1 s1;
      Ok (l ++ l', s2, inc_merge inc' inc, room2)
    else Ok ([], s, None, room)
  end.

(* everything after the incomplete-prefix part of decompress_unsigneds_limited_dirty:
   the constant case, or the unchecked loop followed by the checked `while`.
   Same result type as Codec.read_blocks. *)
Definition fast_blocks (w phys tb : N) (ps : list prefix) (room : N) (s : bits)
  : list N * bits * option (prefix * N) * status :=
  match max_bits_block w ps, max_overshoot ps with
  | Some 0, _ =>
    (* `if self.max_bits_per_num_block == 0`: one unchecked block into `temp` with
       batch_size 1 (even when the batch is already full), then temp[0] repeated *)
    match (do '(l0, u1, inc0, _) <- u_read_block w phys ps 1 (upad tb s);
           do s1 <- ustrip tb u1; Ok (l0, s1, inc0)) with
    | Ok (c :: _, s1, inc0) => (repeat c (N.to_nat room), s1, inc0, SOk)
    | Ok ([], _, _) => ([], s, None, SPanic)           (* temp[0] out of bounds *)
    | Err k => ([], s, None, SErr k)
    | Panic => ([], s, None, SPanic)
    end
  | Some mb, Some mo =>
    match fast_loop (S (N.to_nat room)) w phys tb ps mb mo room s with
    | Ok (l, s1, inc, room1) =>
      let '(l', s2, inc', st) := read_blocks (N.to_nat room1) w tb ps room1 s1 in
      (l ++ l', s2, inc_merge inc' inc, st)
    | Err k => ([], s, None, SErr k)
    | Panic => ([], s, None, SPanic)
    end
  | _, _ => read_blocks (N.to_nat room) w tb ps room s    (* empty table: guard gives 0 *)
  end.

(* One call of decompress_unsigneds_limited_dirty INCLUDING the unchecked fast path:
   Codec.read_batch with the block loop replaced by [fast_blocks]. *)
Definition fast_batch (w phys tb : N) (ps : list prefix) (n_left : N)
           (inc : option (prefix * N)) (limit : N) (eoi : bool) (s : bits) : batch_out :=
  let batch_size := N.min n_left limit in
  let completed := n_left <=? limit in
  if batch_size =? 0 then mkBatch [] s inc completed SOk else
  let finish (l : list N) (s' : bits) (inc' : option (prefix * N)) (st : status) :=
      match st with
      | SOk => mkBatch l s' inc' completed SOk
      | SErr InsufficientData =>
          if eoi then mkBatch l s' inc' completed st
          else mkBatch l s' inc' false SOk
      | _ => mkBatch l s' inc' completed st
      end in
  match inc with
  | Some (p, remaining) =>
    let reps := N.min remaining batch_size in
    let '(l, s1, st) := read_offsets w p (N.to_nat reps) s in
    let rem' := remaining - Nlen l in
    let inc1 := if rem' =? 0 then None else Some (p, rem') in
    match st with
    | SOk =>
      let '(l2, s2, inc2, st2) := fast_blocks w phys tb ps (batch_size - Nlen l) s1 in
      finish (l ++ l2) s2 (match inc2 with Some _ => inc2 | None => inc1 end) st2
    | _ => finish l s1 inc1 st
    end
  | None =>
    let '(l, s1, inc1, st) := fast_blocks w phys tb ps batch_size s in
    finish l s1 inc1 st
  end.
