(* Huff.v — the Huffman decoding table and its two lookups, transcribed literally:
     huffman_decoding.rs   HuffmanTable, From<&Vec<Prefix>>, build_from_prefixes_recursive,
                           search_with_reader, unchecked_search_with_reader
     bit_reader.rs         read_prefix_table_idx, unchecked_read_prefix_table_idx, rewind
     prefix.rs             PrefixDecompressionInfo (depth = code.len())
   Definitions only, executable, total.  Proofs (equality with Codec.tsearch / read_code_at
   and with Codec.read_code) live in Lemmas/HuffL.v.

   Conventions.
   - Words are N values < 2^64 as in Words.v; a reader is (words, i, j, total_bits), its
     position is 64*i + j.
   - A leaf stores the [prefix] itself: PrefixDecompressionInfo::from(p) is a function of p
     and its [depth] is p.code.len() ([hdepth]).
   - Everything that panics (or never returns) in the Rust is [Panic]:
       * `.max().unwrap()` on an empty prefix list (an index of a table with no compatible
         prefix: incomplete tree);
       * `max_depth - depth` underflow (debug build);
       * unbounded recursion of build_from_prefixes_recursive (two prefixes that no bit
         separates: table_size_log = 0 and the single child gets the same list again):
         the model recursion has fuel and returns Panic when it runs out;
       * words[i] and children[idx] out of bounds;
       * `read_depth - depth` and `bit_idx - n` underflow (rewind);
       * `x >> 64` (table_size_log = 0 at j = 0; debug build).
     None of these is reachable for a table accepted by validate_prefix_tree
     (HuffL.hfrom_total, HuffL.hsearch_eq_read_code_at, HuffL.hsearch_unchecked_eq). *)
From Coq Require Import List NArith Bool.
From QCo.Model Require Import Consts Base Codec Words.
Import ListNotations.
Open Scope N_scope.

(* ---------------- HuffmanTable ---------------- *)
Inductive htable :=
| HLeaf (info : prefix)
| HNode (table_size_log : N) (children : list htable).

(* PrefixDecompressionInfo.depth *)
Definition hdepth (p : prefix) : N := Nlen (p_code p).

(* PrefixDecompressionInfo::default(): lower 0, k_range U::MAX, k U::BITS, depth 0, no
   jumpstart, gcd 1 — the info of this prefix ([w] = U::BITS) *)
Definition hdefault_prefix (w : N) : prefix := mkPrefix 0 0 (umax w) [] None 1.

(* ---------------- build_from_prefixes_recursive ---------------- *)
(* sub_bits: `(idx >> (table_size_log - 1 - depth_incr)) & 1 > 0` for depth_incr in
   0..table_size_log *)
Definition hsub_bits (t : nat) (idx : N) : bits :=
  map (fun depth_incr => 0 <? N.land (N.shiftr idx (N.of_nat (t - 1 - depth_incr))) 1)
      (seq 0 t).

(* the filter closure: false as soon as `p.code.len() > total_depth &&
   p.code[total_depth] != bit` for some (depth_incr, bit) *)
Definition hpossible (depth : nat) (sub_bits : bits) (p : prefix) : bool :=
  forallb (fun '(depth_incr, bit) =>
             let total_depth := (depth + depth_incr)%nat in
             negb ((total_depth <? length (p_code p))%nat
                   && negb (Bool.eqb (nth total_depth (p_code p) false) bit)))
          (combine (seq 0 (length sub_bits)) sub_bits).

(* the children are built eagerly, in index order: the first panic is the outcome *)
Fixpoint hcollect {A} (l : list (res A)) : res (list A) :=
  match l with
  | [] => Ok []
  | r :: t => do c <- r; do cs <- hcollect t; Ok (c :: cs)
  end.

Fixpoint hbuild (fuel : nat) (prefixes : list prefix) (depth : nat) : res htable :=
  match prefixes with
  | [p] => Ok (HLeaf p)                            (* prefixes.len() == 1 *)
  | [] => Panic                                    (* .max().unwrap() on None *)
  | _ =>
    match fuel with
    | O => Panic                                   (* unbounded recursion *)
    | S f =>
      let max_depth := max_code_len prefixes in
      if (max_depth <? depth)%nat then Panic else  (* max_depth - depth *)
      let table_size_log :=
          Nat.min (N.to_nat Consts.MAX_PREFIX_TABLE_SIZE_LOG) (max_depth - depth) in
      let table_size := (2 ^ table_size_log)%nat in
      do children <-
         hcollect (map (fun idx =>
                          let sub_bits := hsub_bits table_size_log (N.of_nat idx) in
                          let possible_prefixes := filter (hpossible depth sub_bits) prefixes in
                          hbuild f possible_prefixes (depth + table_size_log))
                       (seq 0 table_size));
      Ok (HNode (N.of_nat table_size_log) children)
    end
  end.

(* impl From<&Vec<Prefix<T>>> for HuffmanTable.  Every non-leaf level below the root starts
   at a strictly larger depth unless table_size_log = 0, and table_size_log = 0 is the
   unbounded recursion; a non-leaf at depth > max code length underflows.  So the fuel
   S (max code length) is never the reason for a Panic that the Rust would not have. *)
Definition hfrom (w : N) (prefixes : list prefix) : res htable :=
  match prefixes with
  | [] => Ok (HLeaf (hdefault_prefix w))
  | _ => hbuild (S (max_code_len prefixes)) prefixes 0
  end.

(* ---------------- BitReader ---------------- *)
(* self.words[self.i] *)
Definition rd_word_chk (words : list N) (i : N) : res N :=
  if i <? Nlen words then Ok (rd_word words i) else Panic.

(* usize `>>` with the shift amount check of a debug build *)
Definition shr_chk (x s : N) : res N :=
  if WORD_SIZE <=? s then Panic else Ok (N.shiftr x s).

(* read_prefix_table_idx: Ok ((bits_read, idx), (i', j')) *)
Definition rd_read_prefix_table_idx (words : list N) (i j total_bits table_size_log : N)
  : res ((N * N) * (N * N)) :=
  let bit_idx := rd_bit_idx i j in
  if total_bits <=? bit_idx then Err InsufficientData else
  let '(i, j) := rd_refresh i j in
  let n_plus_j := table_size_log + j in
  if n_plus_j <=? WORD_SIZE then
    let rshift := WORD_SIZE - n_plus_j in
    do w <- rd_word_chk words i;
    do res <- shr_chk (N.land w (N.shiftr usize_max j)) rshift;
    let bits_read := N.min table_size_log (total_bits - bit_idx) in
    Ok ((bits_read, res), (i, j + bits_read))
  else
    let remaining := n_plus_j - WORD_SIZE in
    do w <- rd_word_chk words i;
    let res := lshift_word (N.land w (N.shiftr usize_max j)) remaining in
    let i := i + 1 in
    if i <? Nlen words then
      let shift := WORD_SIZE - remaining in
      Ok ((table_size_log, N.lor res (N.shiftr (rd_word words i) shift)), (i, remaining))
    else
      (* no next word: the position is left at (i + 1, WORD_SIZE), a whole word beyond
         the bits actually read *)
      Ok ((table_size_log - remaining, res), (i, WORD_SIZE)).

(* unchecked_read_prefix_table_idx: Ok (idx, (i', j')) *)
Definition rd_unchecked_read_prefix_table_idx (words : list N) (i j table_size_log : N)
  : res (N * (N * N)) :=
  let '(i, j) := rd_refresh i j in
  let n_plus_j := table_size_log + j in
  if n_plus_j <=? WORD_SIZE then
    let shift := WORD_SIZE - n_plus_j in
    do w <- rd_word_chk words i;
    do res <- shr_chk (N.land w (N.shiftr usize_max j)) shift;
    Ok (res, (i, n_plus_j))
  else
    let remaining := n_plus_j - WORD_SIZE in
    do w <- rd_word_chk words i;
    let res := lshift_word (N.land w (N.shiftr usize_max j)) remaining in
    let i := i + 1 in
    let shift := WORD_SIZE - remaining in
    do w2 <- rd_word_chk words i;
    Ok (N.lor res (N.shiftr w2 shift), (i, remaining)).

(* rewind(n) = seek_to(bit_idx - n) *)
Definition rd_rewind (i j n : N) : res (N * N) :=
  let bit_idx := rd_bit_idx i j in
  if bit_idx <? n then Panic else Ok (rd_seek_to (bit_idx - n)).

(* ---------------- search_with_reader ---------------- *)
(* the `loop`; structural on the node (the Rust walks down the finite tree).  The inner
   [pick] is `node = &children[idx]` followed by the rest of the iteration. *)
Fixpoint hsearch_loop (words : list N) (total_bits : N) (node : htable) (read_depth i j : N)
         {struct node} : res (prefix * (N * N)) :=
  match node with
  | HLeaf info =>
    if read_depth <? hdepth info then Panic else
    do ij <- rd_rewind i j (read_depth - hdepth info);
    Ok (info, ij)
  | HNode table_size_log children =>
    do '((bits_read, idx), (i1, j1)) <-
       rd_read_prefix_table_idx words i j total_bits table_size_log;
    let read_depth1 := read_depth + bits_read in
    (fix pick (l : list htable) (k : nat) {struct l} : res (prefix * (N * N)) :=
       match l with
       | [] => Panic
       | c :: r =>
         match k with
         | S k' => pick r k'
         | O =>
           if negb (bits_read =? table_size_log) then
             match c with
             | HLeaf info =>
               if hdepth info =? read_depth1 then Ok (info, (i1, j1))
               else Err InsufficientData          (* ran out of data (reached leaf) *)
             | HNode _ _ => Err InsufficientData  (* ran out of data (reached parent) *)
             end
           else hsearch_loop words total_bits c read_depth1 i1 j1
         end
       end) children (N.to_nat idx)
  end.

Definition hsearch (words : list N) (i j total_bits : N) (table : htable)
  : res (prefix * (N * N)) :=
  hsearch_loop words total_bits table 0 i j.

(* Every caller of search_with_reader (num_decompressor.rs decompress_num_block_dirty)
   goes on with a checked read — read_varint(jumpstart) or read_diff(k), k possibly 0 —
   whose first action is insufficient_data_check: `bit_idx + n > total_bits` is an
   InsufficientData error.  This is that check for n = 0, the weakest one.  It is what turns
   a prefix found with the help of padding bits, and the word-too-far position of the third
   case of read_prefix_table_idx, into errors. *)
Definition hsearch_checked (words : list N) (i j total_bits : N) (table : htable)
  : res (prefix * (N * N)) :=
  do '(p, (i', j')) <- hsearch words i j total_bits table;
  if rd_insufficient i' j' 0 total_bits then Err InsufficientData else Ok (p, (i', j')).

(* ---------------- unchecked_search_with_reader ---------------- *)
Fixpoint hsearch_unchecked_loop (words : list N) (node : htable) (read_depth i j : N)
         {struct node} : res (prefix * (N * N)) :=
  match node with
  | HLeaf info =>
    if read_depth <? hdepth info then Panic else
    do ij <- rd_rewind i j (read_depth - hdepth info);
    Ok (info, ij)
  | HNode table_size_log children =>
    do '(idx, (i1, j1)) <- rd_unchecked_read_prefix_table_idx words i j table_size_log;
    (fix pick (l : list htable) (k : nat) {struct l} : res (prefix * (N * N)) :=
       match l with
       | [] => Panic
       | c :: r =>
         match k with
         | S k' => pick r k'
         | O => hsearch_unchecked_loop words c (read_depth + table_size_log) i1 j1
         end
       end) children (N.to_nat idx)
  end.

Definition hsearch_unchecked (words : list N) (i j : N) (table : htable)
  : res (prefix * (N * N)) :=
  hsearch_unchecked_loop words table 0 i j.
