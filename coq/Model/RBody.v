(* RBody.v — the decompressor's decoding of a chunk BODY as a program over the 64-bit-word
   BitReader (Words.v / RFile.v) and the literal HuffmanTable (Huff.v): the sequence of
   BitReader / HuffmanTable calls made by num_decompressor.rs
       decompress_offset_dirty, NumDecompressor::decompress_offsets,
       limit_reps, decompress_num_block_dirty, decompress_num_block,
       decompress_unsigneds_limited_dirty (checked `while` loop)
   and by bit_reader.rs read_varint, call by call, with the same widths, the same order, the
   same error kinds and the same saves / restores of the reader position.

   A reader is (words, total_bits) — fixed during a batch, the parameters [ws] [tb] — and
   its position [(i, j)] : rpos (RFile.v).  The mutable state of the Rust is threaded
   explicitly:
     reader position           st   : rpos
     state.incomplete_prefix   inc  : option (prefix * N)      (prefix, remaining_reps)
     unsigneds (the Vec)       the numbers pushed by a call are RETURNED, in order; what the
                               Rust computes from `unsigneds.len()` is computed here from
                               [room] = batch_size - unsigneds.len() at the call.
   Outcomes of functions that push numbers before failing are triples/quadruples with a
   [status] (Codec.v): SOk, SErr kind, SPanic; everything else is a [res].

   Conventions.
   - A table leaf stores the [prefix] itself (Huff.v): PrefixDecompressionInfo::from(p) is a
     function of p.  Its fields are the pure helpers of Codec.v:
         lower_unsigned = p_lower p     k_range = p_range p     k = p_k p
         gcd = p_gcd p                  run_len_jumpstart = p_jump p    depth = hdepth p
     (the field most_significant is not used by the checked path, which recomputes
     `U::ONE << p.k`).
   - U arithmetic that panics in a debug build (and wraps in a release build) is [Panic]:
     `k_range - offset` underflow, `offset * gcd` and `lower + offset * gcd` overflow.
   - This file models the checked path only: the loop `while unsigneds.len() < batch_size
     { decompress_num_block }`.  The branch `max_bits_per_num_block == 0` and the unchecked
     blocks under the guard `guaranteed_safe_num_blocks >= UNCHECKED_NUM_THRESHOLD` are
     modelled in Fast.v (and proved equal to the checked path in FastL.v).
   Nothing below converts the words to a bit list or calls the bit-list decoders
   [read_offset] / [read_varint] / [read_code_at] / [read_blocks] / [read_batch] of Codec.v;
   that the two agree is Lemmas/RBodyL.v.  Definitions only, executable, total. *)
From Coq Require Import List NArith Bool.
From QCo.Model Require Import Base Consts Codec Words Huff RFile.
Import ListNotations.
Open Scope N_scope.

(* ---------------- BitReader methods, on a position ---------------- *)
(* bit_idx() *)
Definition rb_bit_idx (st : rpos) : N := rd_bit_idx (fst st) (snd st).
(* seek_to(bit_idx) *)
Definition rb_seek_to (bit_idx : N) : rpos := rd_seek_to bit_idx.

(* read_varint(jumpstart):
     let mut res = self.read_usize(jumpstart)?;
     for i in jumpstart..BITS_TO_ENCODE_N_ENTRIES {
       if self.read_one()? { if self.read_one()? { res |= 1 << i } } else { break; }
     }
   [cnt] = iterations left, [i] = the loop variable *)
Fixpoint rb_varint_loop (cnt : nat) (ws : list N) (tb : N) (i res : N) (st : rpos)
  : Base.res (N * rpos) :=
  match cnt with
  | O => Ok (res, st)
  | S c =>
    do '(more, st) <- rf_read_one ws tb st;
    if more then
      do '(b, st) <- rf_read_one ws tb st;
      rb_varint_loop c ws tb (i + 1) (if b then N.lor res (N.shiftl 1 i) else res) st
    else Ok (res, st)                                                         (* break *)
  end.
Definition rb_read_varint (ws : list N) (tb : N) (st : rpos) (jumpstart : N)
  : Base.res (N * rpos) :=
  do '(res, st) <- rf_read_usize ws tb st jumpstart;
  rb_varint_loop (N.to_nat (Consts.BITS_TO_ENCODE_N_ENTRIES - jumpstart)) ws tb jumpstart res st.

(* ---------------- decompress_offset_dirty ---------------- *)
(*   let mut offset = reader.read_diff(p.k)?;
     if p.k < U::BITS {
       let most_significant = U::ONE << p.k;
       if p.k_range - offset >= most_significant && reader.read_one()? {
         offset |= most_significant;
       }
     }
     let unsigned = p.lower_unsigned + offset * p.gcd;
     unsigneds.push(unsigned);
   [w] = U::BITS.  Returns the number pushed and the new position. *)
Definition rb_offset_dirty (w : N) (ws : list N) (tb : N) (p : prefix) (st : rpos)
  : res (N * rpos) :=
  let k := p_k p in
  do '(offset, st) <- rf_read_diff w ws tb st k;
  do '(offset, st) <-
     (if k <? w then
        let most_significant := N.shiftl 1 k in
        if p_range p <? offset then Panic                    (* k_range - offset *)
        else if most_significant <=? p_range p - offset then
          do '(b, st) <- rf_read_one ws tb st;                (* && short-circuits *)
          Ok (if b then N.lor offset most_significant else offset, st)
        else Ok (offset, st)
      else Ok (offset, st));
  let prod := offset * p_gcd p in
  if umax w <? prod then Panic else                          (* offset * p.gcd *)
  let unsigned := p_lower p + prod in
  if umax w <? unsigned then Panic else                      (* p.lower_unsigned + _ *)
  Ok (unsigned, st).

(* ---------------- NumDecompressor::decompress_offsets ---------------- *)
(*   for _ in 0..reps {
       let start_bit_idx = reader.bit_idx();
       let maybe_err = decompress_offset_dirty(reader, unsigneds, p);
       if maybe_err.is_err() { reader.seek_to(start_bit_idx); return maybe_err; }
     }
   Returns the numbers pushed, the new position and the status.  (After a panic nothing
   is observable; the position returned then is arbitrary.) *)
Fixpoint rb_offsets (w : N) (ws : list N) (tb : N) (p : prefix) (reps : nat) (st : rpos)
  : list N * rpos * status :=
  match reps with
  | O => ([], st, SOk)
  | S r =>
    let start_bit_idx := rb_bit_idx st in
    match rb_offset_dirty w ws tb p st with
    | Ok (u, st1) =>
      let '(l, st2, s) := rb_offsets w ws tb p r st1 in (u :: l, st2, s)
    | Err k => ([], rb_seek_to start_bit_idx, SErr k)
    | Panic => ([], st, SPanic)
    end
  end.

(* ---------------- limit_reps ---------------- *)
(*   if full_reps > limit {
       self.state.incomplete_prefix = Some(IncompletePrefix { prefix, remaining_reps: full_reps - limit });
       limit
     } else { full_reps }
   Returns (incomplete_prefix afterwards, reps). *)
Definition rb_limit_reps (inc : option (prefix * N)) (p : prefix) (full_reps limit : N)
  : option (prefix * N) * N :=
  if limit <? full_reps then (Some (p, full_reps - limit), limit) else (inc, full_reps).

(* ---------------- decompress_num_block (with decompress_num_block_dirty inlined) -------- *)
(*   let start_bit_idx = reader.bit_idx();
     let start_len = unsigneds.len();
     let mut block = None;
     let res = self.decompress_num_block_dirty(reader, unsigneds, batch_size, &mut block);
     if res.is_err() {
       let n_decoded = unsigneds.len() - start_len;
       match block {
         Some((prefix, full_reps)) if n_decoded > 0 =>
           self.state.incomplete_prefix = Some(IncompletePrefix { prefix, remaining_reps: full_reps - n_decoded }),
         _ => { reader.seek_to(start_bit_idx); self.state.incomplete_prefix = None; },
       }
     }
     res
   with decompress_num_block_dirty:
     let p = self.huffman_table.search_with_reader(reader)?;
     let reps = match p.run_len_jumpstart {
       None => 1,
       Some(jumpstart) => {
         let full_reps = reader.read_varint(jumpstart)? + 1;
         *block = Some((p, full_reps));
         self.limit_reps(p, full_reps, batch_size - unsigneds.len())
       },
     };
     self.decompress_offsets(reader, unsigneds, p, reps)

   [room] = batch_size - unsigneds.len() at the call.  Where search_with_reader or
   read_varint fail, the reader has been moved by the reads done so far; [block] is still
   None then, so decompress_num_block seeks back to start_bit_idx: the intermediate
   position is never observed and is not tracked (hsearch / rb_read_varint return no
   position with an error).
   Returns (numbers pushed, position, incomplete_prefix, status). *)
Definition rb_num_block (w : N) (ws : list N) (tb : N) (table : htable)
           (inc : option (prefix * N)) (room : N) (st : rpos)
  : list N * rpos * option (prefix * N) * status :=
  let start_bit_idx := rb_bit_idx st in
  match hsearch ws (fst st) (snd st) tb table with
  | Err k => ([], rb_seek_to start_bit_idx, None, SErr k)            (* block = None *)
  | Panic => ([], st, inc, SPanic)
  | Ok (p, st1) =>
    match p_jump p with
    | None =>
      (* reps = 1; block = None *)
      match rb_offsets w ws tb p 1 st1 with
      | (l, st2, SOk) => (l, st2, inc, SOk)
      | (l, _, SErr k) => (l, rb_seek_to start_bit_idx, None, SErr k)
      | (l, st2, SPanic) => (l, st2, inc, SPanic)
      end
    | Some jumpstart =>
      match rb_read_varint ws tb st1 jumpstart with
      | Err k => ([], rb_seek_to start_bit_idx, None, SErr k)        (* block = None *)
      | Panic => ([], st, inc, SPanic)
      | Ok (v, st2) =>
        let full_reps := v + 1 in
        (* block = Some (p, full_reps) *)
        let '(inc1, reps) := rb_limit_reps inc p full_reps room in
        match rb_offsets w ws tb p (N.to_nat reps) st2 with
        | (l, st3, SOk) => (l, st3, inc1, SOk)
        | (l, st3, SErr k) =>
          let n_decoded := Nlen l in
          if 0 <? n_decoded then (l, st3, Some (p, full_reps - n_decoded), SErr k)
          else (l, rb_seek_to start_bit_idx, None, SErr k)
        | (l, st3, SPanic) => (l, st3, inc1, SPanic)
        end
      end
    end
  end.

(* ---------------- the checked loop of decompress_unsigneds_limited_dirty ------------- *)
(*   while unsigneds.len() < batch_size {
       match self.decompress_num_block(reader, unsigneds, batch_size) {
         Ok(_) => (),
         Err(e) if matches!(e.kind, ErrorKind::InsufficientData) => return mark_insufficient(numbers, e),
         Err(e) => return Err(e),
       }
     }
   A block that succeeds pushes at least one number (reps >= 1 as room >= 1), so the loop
   runs at most [room] times: [fuel] only makes the function total (RBodyL.rb_blocks_fuel).
   The status is handed to the caller, which applies mark_insufficient. *)
Fixpoint rb_blocks (fuel : nat) (w : N) (ws : list N) (tb : N) (table : htable)
         (inc : option (prefix * N)) (room : N) (st : rpos)
  : list N * rpos * option (prefix * N) * status :=
  match fuel with
  | O => ([], st, inc, SOk)
  | S f =>
    if room =? 0 then ([], st, inc, SOk) else
    match rb_num_block w ws tb table inc room st with
    | (l, st1, inc1, SOk) =>
      let '(l', st2, inc2, s) := rb_blocks f w ws tb table inc1 (room - Nlen l) st1 in
      (l ++ l', st2, inc2, s)
    | (l, st1, inc1, s) => (l, st1, inc1, s)
    end
  end.

(* ---------------- decompress_unsigneds_limited_dirty (checked path) ---------------- *)
(* the same shape as Codec.batch_out, with the reader position for the remaining stream *)
Record rb_out := mkRb {
  rb_nums : list N;
  rb_pos : rpos;
  rb_incomplete : option (prefix * N);
  rb_finished : bool;
  rb_status : status }.

(* what the function returns for a status: Ok(numbers) / mark_insufficient / Err(e) *)
Definition rb_finish (completed_body eoi : bool) (l : list N) (st : rpos)
           (inc : option (prefix * N)) (s : status) : rb_out :=
  match s with
  | SOk => mkRb l st inc completed_body SOk
  | SErr InsufficientData =>
    (* mark_insufficient: Err(e) if error_on_insufficient_data, otherwise
       numbers.finished_chunk_body = false; Ok(numbers) *)
    if eoi then mkRb l st inc completed_body s else mkRb l st inc false SOk
  | _ => mkRb l st inc completed_body s
  end.

(*   let batch_size = min(self.n - self.state.n_processed, limit);
     let completed_body = limit >= self.n - self.state.n_processed;
     if batch_size == 0 { return Ok(numbers); }
     if let Some(IncompletePrefix { prefix, remaining_reps }) = self.state.incomplete_prefix {
       let reps = min(remaining_reps, batch_size);
       let incomplete_res = self.decompress_offsets(reader, unsigneds, prefix, reps);
       let remaining_reps = remaining_reps - unsigneds.len();
       if remaining_reps == 0 { self.state.incomplete_prefix = None; }
       else { self.state.incomplete_prefix.as_mut().unwrap().remaining_reps = remaining_reps; }
       match incomplete_res { Ok(_) => (), Err(e) if InsufficientData => return mark_insufficient(numbers, e), Err(e) => return Err(e) };
     }
     ... while unsigneds.len() < batch_size { ... }
     Ok(numbers)
   [n_left] = self.n - self.state.n_processed, [eoi] = error_on_insufficient_data. *)
Definition rb_batch (w : N) (ws : list N) (tb : N) (table : htable) (n_left : N)
           (inc : option (prefix * N)) (limit : N) (eoi : bool) (st : rpos) : rb_out :=
  let batch_size := N.min n_left limit in
  let completed_body := n_left <=? limit in
  if batch_size =? 0 then mkRb [] st inc completed_body SOk else
  match inc with
  | Some (prefix, remaining_reps) =>
    let reps := N.min remaining_reps batch_size in
    let '(l, st1, s) := rb_offsets w ws tb prefix (N.to_nat reps) st in
    let remaining_reps' := remaining_reps - Nlen l in
    let inc1 := if remaining_reps' =? 0 then None else Some (prefix, remaining_reps') in
    match s with
    | SOk =>
      let '(l2, st2, inc2, s2) :=
          rb_blocks (N.to_nat (batch_size - Nlen l)) w ws tb table inc1 (batch_size - Nlen l) st1 in
      rb_finish completed_body eoi (l ++ l2) st2 inc2 s2
    | _ => rb_finish completed_body eoi l st1 inc1 s
    end
  | None =>
    let '(l, st1, inc1, s) := rb_blocks (N.to_nat batch_size) w ws tb table None batch_size st in
    rb_finish completed_body eoi l st1 inc1 s
  end.

(* ---------------- on freshly loaded bytes ---------------- *)
(* BitWords::from(bytes), BitReader::from, seek_to(bit_idx), HuffmanTable::from(prefixes);
   Panic when the table construction panics (never for a validated table: HuffL.hfrom_total) *)
Definition rb_batch_bytes (w : N) (prefixes : list prefix) (bytes : list N) (bit_idx : N)
           (n_left : N) (inc : option (prefix * N)) (limit : N) (eoi : bool) : res rb_out :=
  let '(ws, tb) := bw_extend [] 0 bytes in
  do table <- hfrom w prefixes;
  Ok (rb_batch w ws tb table n_left inc limit eoi (rb_seek_to bit_idx)).
