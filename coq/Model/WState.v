(* WState.v — the real `Compressor` (compressor.rs) as a state machine over the 64-bit-word
   BitWriter (Words.v), operation by operation, INCLUDING draining at arbitrary times.

     struct Compressor<T> { internal_config, flags, writer: BitWriter, state: State, .. }
     struct State { has_written_header: bool, has_written_footer: bool }

   The state [wwstate] is the writer and the two flags; the configuration (compression
   level, Flags) never changes and is the parameter [c : wcfg] (+ the data type [d]), as in
   Writer.v.  The operations and outputs are those of Writer.v ([wop] / [wout]); the prefix
   table chosen by train_prefixes is the oracle argument of [WChunk], as in Writer.v.

   Every operation is the sequence of BitWriter calls the Rust makes (the programs of
   WFile.v: [wf_header], [wf_aligned_byte], [wf_write_meta], [wf_write_body], [wf_footer],
   and [wr_overwrite] for the back-patch), with the checks in the order of the Rust.
   What matters here and is invisible at the bit-list level (Writer.v):
     - `pre_meta_bit_idx = self.writer.bit_size()` is an index into the CURRENT word
       vector: it counts the bytes written by earlier calls that have not been drained;
       `overwrite_usize(pre_meta_bit_idx + 24, ..)` therefore lands on a word/bit position
       that depends on when the caller drained;
     - `drain_bytes` truncates words_to_bytes(words) to byte_size() and resets the writer
       to (words = [], j = WORD_SIZE);
     - `byte_size()` is words.len() * 8 - (64 - j) / 8 of the current writer.

   Definitions only, executable, total.  Lemmas/WStateL.v proves the simulation with
   Writer.w_step. *)
From Coq Require Import List NArith ZArith Bool.
From QCo.Model Require Import Base Consts DType Codec Words Writer WFile.
Import ListNotations.
Open Scope N_scope.

Record wwstate := mkWW {
  ww_wr  : wr;               (* writer: BitWriter *)
  ww_hdr : bool;             (* state.has_written_header *)
  ww_ftr : bool }.           (* state.has_written_footer *)

(* Compressor::from_config: writer: BitWriter::default(), state: State::default() *)
Definition ww_init : wwstate := mkWW wr_default false false.

(* ---------------- train_prefixes: the checks made before training ---------------- *)
(* if unsigneds.is_empty() { return Ok(Vec::new()) }
   if comp_level > MAX_COMPRESSION_LEVEL { return Err(invalid_argument) }
   if n > MAX_ENTRIES { return Err(invalid_argument) }
   ... the trained table is the oracle argument of WChunk. *)
Definition train_prefixes_check (level n : N) (us : list N) : res unit :=
  if is_nil us then Ok tt else
  if Consts.MAX_COMPRESSION_LEVEL <? level then Err InvalidArgument else
  if Consts.MAX_ENTRIES <? n then Err InvalidArgument else
  Ok tt.

(* ---------------- Compressor::chunk, after train_prefixes ---------------- *)
(* WFile.wf_chunk_with, returning also the ChunkMetadata the Rust returns:
     self.writer.write_aligned_byte(MAGIC_CHUNK_BYTE)?;
     let pre_meta_bit_idx = self.writer.bit_size();
     let metadata = ChunkMetadata { n, compressed_body_size: 0, prefix_metadata, .. };
     metadata.write_to(&mut self.writer, &self.flags);
     let post_meta_idx = self.writer.byte_size();
     trained_compress_chunk_nums(&prefixes, &unsigneds, &mut self.writer)?;
     metadata.compressed_body_size = self.writer.byte_size() - post_meta_byte_idx;
     metadata.update_write_compressed_body_size(&mut self.writer, pre_meta_bit_idx);
     Ok(metadata)
   (WStateL.ww_chunk_with_fst: the writer is the one of wf_chunk_with). *)
Definition ww_chunk_with (body : wr -> dtype -> list prefix -> list N -> res wr)
           (w : wr) (d : dtype) (f : flags) (table : list prefix) (xs : list Z)
  : res (wr * meta) :=
  let us := chunk_unsigneds d (ford f) xs in
  do w <- wf_aligned_byte w Consts.MAGIC_CHUNK_BYTE;
  let pre_meta_bit_idx := wr_bit_size w in
  let metadata := mkMeta (Nlen xs) 0 (chunk_moments d (ford f) xs) table in
  do w <- wf_write_meta w f d metadata;
  let post_meta_byte_idx := wr_byte_size w in
  do w <- body w (pdt f d) table us;
  let compressed_body_size := wr_byte_size w - post_meta_byte_idx in
  Ok (wr_overwrite w (pre_meta_bit_idx + Consts.BITS_TO_ENCODE_N_ENTRIES)
                   compressed_body_size Consts.BITS_TO_ENCODE_COMPRESSED_BODY_SIZE,
      mkMeta (Nlen xs) compressed_body_size (chunk_moments d (ford f) xs) table).

Definition ww_chunk := ww_chunk_with wf_write_body.

(* What the writer holds when `chunk` returns an error AFTER it started writing.  The only
   `?` after train_prefixes that can fail on an aligned writer is the table lookup in
   compress_nums (`self.table.search(unsigned)?`, "not trained to include number"): the
   magic byte, the whole metadata (with the zero placeholder) and the numbers encoded so
   far stay in the writer, finish_byte is not reached.  With the table the real
   train_prefixes returns this cannot happen; with an arbitrary oracle table it can, and
   the model keeps what the Rust keeps. *)
Fixpoint wf_body_loop_stop (fuel : nat) (search : N -> option prefix) (general : bool)
         (w : wr) (us : list N) : wr :=
  match fuel with
  | O => w
  | S fl =>
    match us with
    | [] => w
    | u :: t =>
      match search u with
      | None => w                                  (* `?` returns here *)
      | Some p =>
        let w := wr_write_usize w (bits_to_usize (p_code p)) (Nlen (p_code p)) in
        match p_jump p with
        | None => wf_body_loop_stop fl search general (wf_write_offset w general p u) t
        | Some jumpstart =>
          let extra := run_len p t in
          match wr_write_varint w (N.of_nat extra) jumpstart with
          | Ok w =>
            let w := fold_left (fun w u' => wf_write_offset w general p u')
                               (u :: firstn extra t) w in
            wf_body_loop_stop fl search general w (skipn extra t)
          | _ => w                                 (* panic in write_varint *)
          end
        end
      end
    end
  end.

Definition ww_chunk_failed_wr (w : wr) (d : dtype) (f : flags) (table : list prefix)
           (xs : list Z) : wr :=
  let us := chunk_unsigneds d (ford f) xs in
  match wf_aligned_byte w Consts.MAGIC_CHUNK_BYTE with
  | Ok w1 =>
    match wf_write_meta w1 f d (mkMeta (Nlen xs) 0 (chunk_moments d (ford f) xs) table) with
    | Ok w2 => wf_body_loop_stop (length us) (find_prefix table)
                                 (use_gcd_arith (pdt f d) table) w2 us
    | _ => w1
    end
  | _ => w            (* write_aligned_bytes checks the alignment before writing anything *)
  end.

(* ---------------- the operations ---------------- *)
Definition ww_step (c : wcfg) (d : dtype) (st : wwstate) (o : wop) : wwstate * wout :=
  let w := ww_wr st in
  let f := cfg_flags c in
  match o with
  | WHeader =>
    (* if self.state.has_written_header { return Err(..) } *)
    if ww_hdr st then (st, WErr InvalidArgument) else
    (* if self.state.has_written_footer { return Err(..) } *)
    if ww_ftr st then (st, WErr InvalidArgument) else
    (* let _: Vec<bool> = (&self.flags).try_into()?;  write_aligned_bytes(&MAGIC_HEADER)?;
       write_aligned_byte(T::HEADER_BYTE)?;  self.flags.write(&mut self.writer)?;
       (wf_header; it fails only in its first two steps, before anything is written:
        WStateL.wf_header_fails_early) *)
    match wf_header w d f with
    | Ok w' => (mkWW w' true (ww_ftr st), WUnit)       (* has_written_header = true *)
    | Err k => (st, WErr k)
    | Panic => (st, WPanic)
    end
  | WChunk xs table =>
    if negb (ww_hdr st) then (st, WErr InvalidArgument) else
    if ww_ftr st then (st, WErr InvalidArgument) else
    (* if nums.is_empty() { return Err(..) } *)
    if is_nil xs then (st, WErr InvalidArgument) else
    (* let n = nums.len(); let order = self.flags.delta_encoding_order;
       unsigneds (of the numbers or of their deltas); train_prefixes(..)? *)
    let us := chunk_unsigneds d (ford f) xs in
    match train_prefixes_check (w_level c) (Nlen xs) us with
    | Err k => (st, WErr k)
    | Panic => (st, WPanic)
    | Ok _ =>
      match ww_chunk w d f table xs with
      | Ok (w', m) => (mkWW w' (ww_hdr st) (ww_ftr st), WMeta m)
      | Err k => (mkWW (ww_chunk_failed_wr w d f table xs) (ww_hdr st) (ww_ftr st), WErr k)
      | Panic => (st, WPanic)
      end
    end
  | WFooter =>
    if negb (ww_hdr st) then (st, WErr InvalidArgument) else
    if ww_ftr st then (st, WErr InvalidArgument) else
    (* self.writer.write_aligned_byte(MAGIC_TERMINATION_BYTE)?; has_written_footer = true *)
    match wf_footer w with
    | Ok w' => (mkWW w' (ww_hdr st) true, WUnit)
    | Err k => (st, WErr k)
    | Panic => (st, WPanic)
    end
  | WDrain =>
    (* BitWriter::drain_bytes: res = words_to_bytes(words); res.truncate(byte_size);
       words.clear(); j = WORD_SIZE *)
    (mkWW wr_default (ww_hdr st) (ww_ftr st), WBytes (wr_drain_bytes w))
  | WByteSize =>
    (st, WSize (wr_byte_size w))
  end.

Fixpoint ww_run (c : wcfg) (d : dtype) (st : wwstate) (ops : list wop)
  : wwstate * list wout :=
  match ops with
  | [] => (st, [])
  | o :: t => let '(st1, out) := ww_step c d st o in
              let '(st2, outs) := ww_run c d st1 t in
              (st2, out :: outs)
  end.
