(* Words.v — the 64-bit word level of the codec: BitWriter, BitWords, BitReader,
   CompressionTable.  Transcriptions of bit_writer.rs, bit_words.rs, bit_reader.rs,
   compression_table.rs.  Definitions only (proofs live in Lemmas/WordsL.v).
   Words are N values < 2^64 (usize on the 64-bit targets the crate is built for). *)
From Coq Require Import List NArith Bool.
From QCo.Model Require Import Consts Base Codec.
Import ListNotations.
Open Scope N_scope.

(* ---------- usize arithmetic ---------- *)
Definition WORD_SIZE : N := 64.
Definition BYTES_PER_WORD : N := 8.
Definition word_mod : N := 2 ^ 64.
Definition usize_max : N := 2 ^ 64 - 1.
Definition base_bit_mask : N := 2 ^ 63.        (* bits::BASE_BIT_MASK *)

Definition trunc_word (x : N) : N := x mod word_mod.
(* UnsignedLike::lshift_word / rshift_word: shift, keep the low 64 bits.
   (For U::BITS <= 64 the Rust is `(x as usize) << s` / `(x as usize) >> s`, for u128
   `((x << s) & usize::MAX) as usize` / `((x >> s) & usize::MAX) as usize`; with
   x < 2^U::BITS all of these are the functions below.) *)
Definition lshift_word (x s : N) : N := trunc_word (N.shiftl x s).
Definition rshift_word (x s : N) : N := trunc_word (N.shiftr x s).

Definition ceil_div (x d : N) : N := (x + d - 1) / d.      (* bits::ceil_div *)

(* big-endian bit expansion of a word list: the abstraction of Vec<usize> *)
Definition word_bits (x : N) : bits := putn 64 x.
Definition words_bits (ws : list N) : bits := flat_map word_bits ws.

(* in-place update of words.last_mut().unwrap(); on an empty vector the Rust panics, which
   never happens under the writer invariant (see WordsL.wr_refresh_nonempty) *)
Definition upd_last (f : N -> N) (ws : list N) : list N :=
  match ws with
  | [] => []
  | _ => removelast ws ++ [f (last ws 0)]
  end.

Fixpoint upd_nth (i : nat) (f : N -> N) (ws : list N) : list N :=
  match ws with
  | [] => []
  | w :: t => match i with
              | O => f w :: t
              | S i' => w :: upd_nth i' f t
              end
  end.

(* ---------- BitWriter ---------- *)
Record wr := mkWr { w_words : list N; w_j : N }.

Definition wr_default : wr := mkWr [] 64.

Definition wr_byte_size (w : wr) : N :=
  Nlen (w_words w) * BYTES_PER_WORD - (WORD_SIZE - w_j w) / 8.
Definition wr_bit_size (w : wr) : N :=
  Nlen (w_words w) * WORD_SIZE - (WORD_SIZE - w_j w).

(* abstraction function *)
Definition wr_bits (w : wr) : bits :=
  firstn (N.to_nat (wr_bit_size w)) (words_bits (w_words w)).

Definition wr_refresh (w : wr) : wr :=
  if w_j w =? WORD_SIZE then mkWr (w_words w ++ [0]) 0 else w.

Definition wr_write_one (w : wr) (b : bool) : wr :=
  let w := wr_refresh w in
  let j := w_j w in
  let ws := if b then upd_last (fun l => N.lor l (N.shiftr base_bit_mask j)) (w_words w)
            else w_words w in
  mkWr ws (j + 1).

Fixpoint wr_write (w : wr) (bs : list bool) : wr :=
  match bs with
  | [] => w
  | b :: t => wr_write (wr_write_one w b) t
  end.

(* the `while remaining > WORD_SIZE` loop of write_diff *)
Fixpoint wr_diff_loop (fuel : nat) (x : N) (ws : list N) (remaining : N) : list N * N :=
  match fuel with
  | O => (ws, remaining)
  | S f =>
    if WORD_SIZE <? remaining then
      let rshift := remaining - WORD_SIZE in
      wr_diff_loop f x (ws ++ [rshift_word x rshift]) (remaining - WORD_SIZE)
    else (ws, remaining)
  end.

Definition wr_write_diff (w : wr) (x n : N) : wr :=
  if n =? 0 then w else
  let w := wr_refresh w in
  let j := w_j w in
  let n_plus_j := n + j in
  if n_plus_j <=? WORD_SIZE then
    let lshift := WORD_SIZE - n_plus_j in
    mkWr (upd_last (fun l => N.lor l (N.land (lshift_word x lshift) (N.shiftr usize_max j)))
                   (w_words w))
         n_plus_j
  else
    let rshift := n_plus_j - WORD_SIZE in
    let ws1 := upd_last (fun l => N.lor l (N.land (rshift_word x rshift) (N.shiftr usize_max j)))
                        (w_words w) in
    let remaining := n + j - WORD_SIZE in
    let '(ws2, remaining) := wr_diff_loop (N.to_nat remaining) x ws1 remaining in
    let lshift := WORD_SIZE - remaining in
    mkWr (ws2 ++ [lshift_word x lshift]) remaining.

Definition wr_write_usize (w : wr) (x n : N) : wr := wr_write_diff w x n.

Definition wr_aligned_byte_step (w : wr) (byte : N) : wr :=
  let w := wr_refresh w in
  mkWr (upd_last (fun l => N.lor l (N.shiftl byte (WORD_SIZE - 8 - w_j w))) (w_words w))
       (w_j w + 8).

Definition wr_write_aligned_bytes (w : wr) (bytes : list N) : res wr :=
  if w_j w mod 8 =? 0 then Ok (fold_left wr_aligned_byte_step bytes w)
  else Err InvalidArgument.

Definition wr_finish_byte (w : wr) : wr :=
  mkWr (w_words w) (ceil_div (w_j w) 8 * 8).

(* write_varint (after the MAX_ENTRIES check, which panics) *)
Fixpoint wr_varint_loop (cnt : nat) (w : wr) (x : N) : wr :=
  match cnt with
  | O => w
  | S c =>
    if 0 <? x then
      let w := wr_write_one w true in
      let w := wr_write_one w (0 <? N.land x 1) in
      wr_varint_loop c w (N.shiftr x 1)
    else wr_write_one w false
  end.
Definition wr_write_varint (w : wr) (x jumpstart : N) : res wr :=
  if Consts.MAX_ENTRIES <? x then Panic else
  let w := wr_write_usize w x jumpstart in
  Ok (wr_varint_loop (N.to_nat (Consts.BITS_TO_ENCODE_N_ENTRIES - jumpstart)) w
                     (N.shiftr x jumpstart)).

(* overwrite_usize: the `for k in 0..n` loop; state (words, i, j), [cnt] = n - k *)
Fixpoint wr_overwrite_loop (cnt : nat) (x n k : N) (ws : list N) (i j : N) : list N :=
  match cnt with
  | O => ws
  | S c =>
    let b := 0 <? N.land (N.shiftr x (n - k - 1)) 1 in
    let '(i, j) := if j =? WORD_SIZE then (i + 1, 0) else (i, j) in
    let shift := WORD_SIZE - 1 - j in
    let mask := N.shiftl 1 shift in
    let shifted_bit := N.shiftl (N.b2n b) shift in
    let ws' := upd_nth (N.to_nat i)
                 (fun wd => if N.land wd mask =? shifted_bit then wd else N.lxor wd shifted_bit)
                 ws in
    wr_overwrite_loop c x n (k + 1) ws' i (j + 1)
  end.

Definition wr_overwrite (w : wr) (bit_idx x n : N) : wr :=
  mkWr (wr_overwrite_loop (N.to_nat n) x n 0 (w_words w)
          (bit_idx / WORD_SIZE) (bit_idx mod WORD_SIZE))
       (w_j w).

(* bits::words_to_bytes *)
Definition words_to_bytes (ws : list N) : list N := flat_map (be_bytes 8) ws.

(* drain_bytes: the returned bytes (the writer is reset to wr_default) *)
Definition wr_drain_bytes (w : wr) : list N :=
  firstn (N.to_nat (wr_byte_size w)) (words_to_bytes (w_words w)).

(* ---------- BitWords ---------- *)
(* the `for i in 0..first_word_end` loop *)
Fixpoint bw_fill (cnt : nat) (i alignment : N) (bytes : list N) (ws : list N) : list N :=
  match cnt with
  | O => ws
  | S c =>
    let lshift := 8 * (alignment - i - 1) in
    bw_fill c (i + 1) alignment bytes
      (upd_last (fun l => N.lor l (N.shiftl (nth (N.to_nat i) bytes 0) lshift)) ws)
  end.

(* slice.chunks_exact(8) *)
Fixpoint chunks8 (fuel : nat) (l : list N) : list (list N) :=
  match fuel with
  | O => []
  | S f => if (length l <? 8)%nat then [] else firstn 8 l :: chunks8 f (skipn 8 l)
  end.

(* usize::from_be_bytes *)
Definition word_of_be_bytes (bs : list N) : N := be_val bs.

Definition bw_extend (words : list N) (initial_bits : N) (bytes : list N) : list N * N :=
  let blen := Nlen bytes in
  let total_bits := initial_bits + 8 * blen in
  let n_words := ceil_div total_bits WORD_SIZE in
  let initial_bytes := initial_bits / 8 in
  let alignment := (BYTES_PER_WORD - initial_bytes mod BYTES_PER_WORD) mod BYTES_PER_WORD in
  let first_word_end := N.min alignment blen in
  let last_aligned_byte :=
    alignment + (blen - first_word_end) / BYTES_PER_WORD * BYTES_PER_WORD in
  let ws1 := bw_fill (N.to_nat first_word_end) 0 alignment bytes words in
  let ws2 :=
    if first_word_end <? blen then
      let slice := firstn (N.to_nat (last_aligned_byte - first_word_end))
                          (skipn (N.to_nat first_word_end) bytes) in
      ws1 ++ map word_of_be_bytes (chunks8 (length slice) slice)
    else ws1 in
  let ws3 :=
    if Nlen ws2 <? n_words then
      let last_bytes := skipn (N.to_nat last_aligned_byte) bytes in
      let padded := last_bytes ++ repeat 0 (8 - length last_bytes) in
      ws2 ++ [word_of_be_bytes padded]
    else ws2 in
  (ws3, total_bits).

Definition bw_truncate_left (words : list N) (total_bits : N) (words_to_free : N) : list N * N :=
  (skipn (N.to_nat words_to_free) words, total_bits - words_to_free * WORD_SIZE).

(* abstraction *)
Definition bw_bits (words : list N) (total_bits : N) : bits :=
  firstn (N.to_nat total_bits) (words_bits words).

(* ---------- BitReader ---------- *)
(* state: words, i, j (and total_bits for the checked reads); position = 64*i + j *)
Definition rd_bit_idx (i j : N) : N := WORD_SIZE * i + j.
Definition rd_refresh (i j : N) : N * N := if j =? WORD_SIZE then (i + 1, 0) else (i, j).
Definition rd_word (words : list N) (i : N) : N := nth (N.to_nat i) words 0.
Definition bit_from_word (word j : N) : bool := 0 <? N.land word (N.shiftr base_bit_mask j).

(* the `while remaining >= WORD_SIZE` loop of unchecked_read_diff *)
Fixpoint rd_diff_loop (fuel : nat) (words : list N) (i remaining res : N) : N * N * N :=
  match fuel with
  | O => (i, remaining, res)
  | S f =>
    if WORD_SIZE <=? remaining then
      let i := i + 1 in
      let remaining := remaining - WORD_SIZE in
      rd_diff_loop f words i remaining (N.lor res (N.shiftl (rd_word words i) remaining))
    else (i, remaining, res)
  end.

(* returns (value, (i', j')).  U is unbounded here; see rd_unchecked_read_diff_u for the
   variant truncating to U::BITS = ub at every `from_word` and `<<`. *)
Definition rd_unchecked_read_diff (words : list N) (i j n : N) : N * (N * N) :=
  if n =? 0 then (0, (i, j)) else
  let '(i, j) := rd_refresh i j in
  let n_plus_j := n + j in
  if n_plus_j <=? WORD_SIZE then
    let shift := WORD_SIZE - n_plus_j in
    (N.shiftr (N.land (rd_word words i) (N.shiftr usize_max j)) shift, (i, n_plus_j))
  else
    let remaining := n_plus_j - WORD_SIZE in
    let res := N.shiftl (N.land (rd_word words i) (N.shiftr usize_max j)) remaining in
    let '(i, remaining, res) := rd_diff_loop (N.to_nat (remaining / WORD_SIZE)) words i remaining res in
    if 0 <? remaining then
      let i := i + 1 in
      let shift := WORD_SIZE - remaining in
      (N.lor res (N.shiftr (rd_word words i) shift), (i, remaining))
    else (res, (i, WORD_SIZE)).

(* the same with U::BITS = ub: from_word truncates, `<<` on U drops high bits *)
Definition trunc_u (ub x : N) : N := x mod 2 ^ ub.
Fixpoint rd_diff_loop_u (ub : N) (fuel : nat) (words : list N) (i remaining res : N) : N * N * N :=
  match fuel with
  | O => (i, remaining, res)
  | S f =>
    if WORD_SIZE <=? remaining then
      let i := i + 1 in
      let remaining := remaining - WORD_SIZE in
      rd_diff_loop_u ub f words i remaining
        (N.lor res (trunc_u ub (N.shiftl (trunc_u ub (rd_word words i)) remaining)))
    else (i, remaining, res)
  end.
Definition rd_unchecked_read_diff_u (ub : N) (words : list N) (i j n : N) : N * (N * N) :=
  if n =? 0 then (0, (i, j)) else
  let '(i, j) := rd_refresh i j in
  let n_plus_j := n + j in
  if n_plus_j <=? WORD_SIZE then
    let shift := WORD_SIZE - n_plus_j in
    (trunc_u ub (N.shiftr (N.land (rd_word words i) (N.shiftr usize_max j)) shift), (i, n_plus_j))
  else
    let remaining := n_plus_j - WORD_SIZE in
    let res := trunc_u ub (N.shiftl (trunc_u ub (N.land (rd_word words i) (N.shiftr usize_max j)))
                                    remaining) in
    let '(i, remaining, res) :=
      rd_diff_loop_u ub (N.to_nat (remaining / WORD_SIZE)) words i remaining res in
    if 0 <? remaining then
      let i := i + 1 in
      let shift := WORD_SIZE - remaining in
      (N.lor res (trunc_u ub (N.shiftr (rd_word words i) shift)), (i, remaining))
    else (res, (i, WORD_SIZE)).

(* checked reads *)
Definition rd_insufficient (i j n total_bits : N) : bool := total_bits <? rd_bit_idx i j + n.

Definition rd_read_diff (words : list N) (i j total_bits n : N) : res (N * (N * N)) :=
  if rd_insufficient i j n total_bits then Err InsufficientData
  else Ok (rd_unchecked_read_diff words i j n).

Definition rd_read_one (words : list N) (i j total_bits : N) : res (bool * (N * N)) :=
  if rd_insufficient i j 1 total_bits then Err InsufficientData else
  let '(i, j) := rd_refresh i j in
  Ok (bit_from_word (rd_word words i) j, (i, j + 1)).

(* read(n): note `let mut word = self.unchecked_word()` indexes words[i] before the loop,
   even when n = 0; with i = words.len() (reachable by seek_to/read_aligned_bytes to the end
   of word-aligned data) that is an out-of-bounds panic. *)
Fixpoint rd_read_loop (cnt : nat) (words : list N) (i j : N) : list bool * (N * N) :=
  match cnt with
  | O => ([], (i, j))
  | S c =>
    let '(i, j) := rd_refresh i j in
    let b := bit_from_word (rd_word words i) j in
    let '(l, st) := rd_read_loop c words i (j + 1) in
    (b :: l, st)
  end.
Definition rd_read (words : list N) (i j total_bits n : N) : res (list bool * (N * N)) :=
  if rd_insufficient i j n total_bits then Err InsufficientData else
  if Nlen words <=? i then Panic else
  Ok (rd_read_loop (N.to_nat n) words i j).

Definition rd_seek_to (bit_idx : N) : N * N := (bit_idx / WORD_SIZE, bit_idx mod WORD_SIZE).

(* drain_empty_byte: Err (the caller's error, always a Corruption) when a padding bit is set *)
Definition rd_drain_empty_byte (words : list N) (i j : N) : res (N * N) :=
  if j mod 8 =? 0 then Ok (i, j) else
  let end_j := 8 * ceil_div j 8 in
  if 0 <? N.land (N.land (rd_word words i) (N.shiftr usize_max j))
                 (trunc_word (N.shiftl usize_max (WORD_SIZE - end_j)))
  then Err Corruption
  else Ok (i, end_j).

(* read_aligned_bytes *)
Definition rd_read_aligned_bytes (words : list N) (i j total_bits n : N)
  : res (list N * (N * N)) :=
  let '(i, j) := rd_refresh i j in
  if j mod 8 =? 0 then
    let byte_idx := i * BYTES_PER_WORD + j / 8 in
    let new_byte_idx := byte_idx + n in
    let byte_size := ceil_div total_bits 8 in
    if byte_size <? new_byte_idx then Err InsufficientData else
    let end_word_idx := ceil_div new_byte_idx BYTES_PER_WORD in
    let start_word := byte_idx / BYTES_PER_WORD in
    let padded := words_to_bytes
                    (firstn (N.to_nat (end_word_idx - start_word))
                            (skipn (N.to_nat start_word) words)) in
    let start := byte_idx mod BYTES_PER_WORD in
    Ok (firstn (N.to_nat n) (skipn (N.to_nat start) padded),
        rd_seek_to (rd_bit_idx i j + n * 8))
  else Err InvalidArgument.

(* ---------- CompressionTable ---------- *)
Definition TARGET_BRANCHING_FACTOR : N := 16.

Inductive ctable :=
| CLeaf (p : prefix)
| CNode (items : list (N * ctable)).      (* (upper, table) *)

(* PrefixCompressionInfo::default(): count 0, lower 0, upper U::MAX *)
Definition ct_default_prefix (umax : N) : prefix := mkPrefix 0 0 umax [] None 1.

(* the inner `while cumulative < target` loop, on the not yet consumed suffix
   prefixes[idx..]: returns (consumed, rest, cumulative).  (With idx = len the Rust would
   index out of bounds; unreachable since then cumulative = total >= target.) *)
Fixpoint ct_take (target cum : N) (rest : list prefix) : list prefix * list prefix * N :=
  match rest with
  | [] => ([], [], cum)
  | p :: r =>
    if (cum <? target) && (p_count p <? 2 * target - cum) then
      let '(t, r', c) := ct_take target (cum + p_count p) r in (p :: t, r', c)
    else ([], rest, cum)
  end.

(* the `for i in 0..TARGET_BRANCHING_FACTOR` loop; between iterations last_idx = idx *)
Fixpoint ct_children (rec : list prefix -> option ctable) (cnt : nat) (i total cum : N)
         (rest : list prefix) : option (list (N * ctable)) :=
  match cnt with
  | O => Some []
  | S c =>
    let target := (total * (i + 1)) / TARGET_BRANCHING_FACTOR in
    let '(taken, rest', cum') := ct_take target cum rest in
    match taken with
    | [] => ct_children rec c (i + 1) total cum' rest'
    | p0 :: _ =>
      match rec taken with
      | None => None
      | Some child =>
        match ct_children rec c (i + 1) total cum' rest' with
        | None => None
        | Some others => Some ((p_upper (last taken p0), child) :: others)
        end
      end
    end
  end.

Definition sum_counts (ps : list prefix) : N := fold_right (fun p a => p_count p + a) 0 ps.

(* from_sorted; None = out of fuel *)
Fixpoint ct_from_sorted (fuel : nat) (umax : N) (ps : list prefix) : option ctable :=
  match fuel with
  | O => None
  | S f =>
    match ps with
    | [] => Some (CLeaf (ct_default_prefix umax))
    | [p] => Some (CLeaf p)
    | _ =>
      match ct_children (ct_from_sorted f umax) (N.to_nat TARGET_BRANCHING_FACTOR) 0
                        (sum_counts ps) 0 ps with
      | Some items => Some (CNode items)
      | None => None
      end
    end
  end.

(* search: None = Err(invalid_argument "not trained to include number") *)
Fixpoint ct_search_tree (t : ctable) (u : N) : option prefix :=
  match t with
  | CLeaf p => if contains p u then Some p else None
  | CNode items =>
    (fix scan (l : list (N * ctable)) : option prefix :=
       match l with
       | [] => None
       | (upper, c) :: r => if u <=? upper then ct_search_tree c u else scan r
       end) items
  end.

(* table built from the (sorted) prefix list, then searched *)
Definition ct_search (umax : N) (table : list prefix) (u : N) : option prefix :=
  match ct_from_sorted (S (length table)) umax table with
  | Some t => ct_search_tree t u
  | None => None
  end.
