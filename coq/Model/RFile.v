(* RFile.v — the decompressor's parsing of the header and of a chunk's metadata as a
   program over the 64-bit-word BitReader (Words.v): the sequence of BitReader calls made
   by decompressor.rs::read_header / read_chunk_meta, Flags::parse_from and
   TryFrom<Vec<bool>> for Flags (flags.rs), ChunkMetadata::parse_from and parse_prefixes
   (chunk_metadata.rs), DeltaMoments::parse_from (delta_encoding.rs),
   NumberLike::read_from (data_types/mod.rs), gcd_utils::read_gcd and
   BitReader::drain_empty_byte, call by call, with the same widths, the same order and the
   same error kinds.

   A reader is (words, total_bits) — fixed during a parse, the parameters [ws] [tb] — and
   its position [(i, j)] : rpos.  A parse returns the value and the new position.

   Pure computations that read nothing are shared with Codec.v / DType.v: count_bits
   (Flags::bits_to_encode_count), code_len_bits, gcd_bits (gcd_bits_required), of_bytes
   (NumberLike::from_bytes), to_u (to_unsigned), bits_to_bytes, hdr, phys, ubits, sdt.

   Every [rf_xxx] below is built from the Words.v operations only; none of them converts
   the words to a bit list or calls the bit-list parser [read_xxx] of Codec.v / Reader.v.
   That the two agree is Lemmas/RFileL.v.  Definitions only. *)
From Coq Require Import List NArith ZArith Bool.
From QCo.Model Require Import Base Consts DType Codec Words.
Import ListNotations.
Open Scope N_scope.

Definition rpos : Type := (N * N)%type.          (* BitReader::{i, j} *)

(* ---------------- BitReader methods, on a position ---------------- *)
(* aligned_byte_idx (no refresh: j = 64 counts as aligned) *)
Definition rf_aligned_byte_idx (st : rpos) : res N :=
  if snd st mod 8 =? 0 then Ok (fst st * BYTES_PER_WORD + snd st / 8)
  else Err InvalidArgument.

Definition rf_read_aligned_bytes (ws : list N) (tb : N) (st : rpos) (n : N)
  : res (list N * rpos) :=
  rd_read_aligned_bytes ws (fst st) (snd st) tb n.

Definition rf_read_one (ws : list N) (tb : N) (st : rpos) : res (bool * rpos) :=
  rd_read_one ws (fst st) (snd st) tb.

Definition rf_read (ws : list N) (tb : N) (st : rpos) (n : N) : res (bits * rpos) :=
  rd_read ws (fst st) (snd st) tb n.

(* read_diff::<U>(n) with U::BITS = ub: insufficient_data_check, then the U-typed
   unchecked_read_diff *)
Definition rf_read_diff (ub : N) (ws : list N) (tb : N) (st : rpos) (n : N)
  : res (N * rpos) :=
  if rd_insufficient (fst st) (snd st) n tb then Err InsufficientData
  else Ok (rd_unchecked_read_diff_u ub ws (fst st) (snd st) n).

(* read_usize(n) = read_diff::<u64>(n)? as usize *)
Definition rf_read_usize (ws : list N) (tb : N) (st : rpos) (n : N) : res (N * rpos) :=
  rf_read_diff 64 ws tb st n.

Definition rf_drain_empty_byte (ws : list N) (st : rpos) : res rpos :=
  rd_drain_empty_byte ws (fst st) (snd st).

(* ---------------- TryFrom<Vec<bool>> for Flags (flags.rs) ---------------- *)
(* bools.iter().next() *)
Definition it_next (it : bits) : option bool * bits :=
  match it with
  | [] => (None, [])
  | b :: t => (Some b, t)
  end.
Definition is_some_true (o : option bool) : bool :=           (* == Some(&true) *)
  match o with Some true => true | _ => false end.
Definition unwrap_or_false (o : option bool) : bool :=        (* .cloned().unwrap_or(false) *)
  match o with Some b => b | None => false end.

(* while delta_encoding_bits.len() < BITS_TO_ENCODE_DELTA_ENCODING_ORDER { push(next) } *)
Fixpoint rf_take_order_bits (cnt : nat) (it : bits) : bits * bits :=
  match cnt with
  | O => ([], it)
  | S c =>
    let '(o, it) := it_next it in
    let '(l, it) := rf_take_order_bits c it in
    (unwrap_or_false o :: l, it)
  end.

Definition rf_flags_try_from (bools : bits) : res flags :=
  let it := bools in
  let '(o, it) := it_next it in
  let use_5_bit_code_len := is_some_true o in
  let '(delta_encoding_bits, it) :=
    rf_take_order_bits (N.to_nat Consts.BITS_TO_ENCODE_DELTA_ENCODING_ORDER) it in
  let delta_encoding_order := bits_val delta_encoding_bits in      (* bits::bits_to_usize *)
  let '(o, it) := it_next it in
  let use_min_count_encoding := is_some_true o in
  let '(o, it) := it_next it in
  let use_gcds := is_some_true o in
  (* for &bit in bit_iter { if bit { return Err(compatibility) } } *)
  if existsb (fun bit => bit) it then Err Compatibility
  else Ok (mkFlags use_5_bit_code_len delta_encoding_order use_min_count_encoding use_gcds).

(* ---------------- Flags::parse_from ---------------- *)
(* loop { bools.extend(reader.read(7)?); if !reader.read_one()? { break; } }
   Every iteration consumes 8 bits, so the loop runs at most bits_remaining/8 + 1 times;
   [fuel] only makes the function total. *)
Fixpoint rf_flags_loop (fuel : nat) (ws : list N) (tb : N) (bools : bits) (st : rpos)
  : res (bits * rpos) :=
  match fuel with
  | O => Err InsufficientData
  | S f =>
    do '(c, st) <- rf_read ws tb st Consts.FLAG_PAYLOAD_BITS_PER_BYTE;
    let bools := bools ++ c in
    do '(more, st) <- rf_read_one ws tb st;
    if more then rf_flags_loop f ws tb bools st else Ok (bools, st)
  end.

Definition rf_parse_flags (ws : list N) (tb : N) (st : rpos) : res (flags * rpos) :=
  do _aligned <- rf_aligned_byte_idx st;               (* assert it's byte-aligned *)
  do '(bools, st) <-
     rf_flags_loop (S (N.to_nat (tb - rd_bit_idx (fst st) (snd st)))) ws tb [] st;
  do f <- rf_flags_try_from bools;
  Ok (f, st).

(* ---------------- decompressor.rs::read_header ---------------- *)
Definition rf_header (ws : list N) (tb : N) (d : dtype) (st : rpos) : res (flags * rpos) :=
  do '(bytes, st) <- rf_read_aligned_bytes ws tb st (Nlen Consts.MAGIC_HEADER);
  if negb (list_eqb N.eqb bytes Consts.MAGIC_HEADER) then Err Corruption else
  do '(bytes, st) <- rf_read_aligned_bytes ws tb st 1;
  let byte := nth 0 bytes 0 in
  if negb (byte =? hdr d) then Err Corruption else
  rf_parse_flags ws tb st.

(* ---------------- NumberLike::read_from (data_types/mod.rs) ---------------- *)
(* let bools = reader.read(Self::PHYSICAL_BITS)?; Self::from_bytes(bits::bits_to_bytes(bools)) *)
Definition rf_read_num (ws : list N) (tb : N) (d : dtype) (st : rpos) : res (Z * rpos) :=
  do '(bools, st) <- rf_read ws tb st (phys d);
  do x <- of_bytes d (bits_to_bytes bools);
  Ok (x, st).

(* ---------------- DeltaMoments::parse_from ---------------- *)
(* for _ in 0..order { moments.push(T::Signed::read_from(reader)?); } *)
Fixpoint rf_read_moments (ws : list N) (tb : N) (sd : dtype) (cnt : nat) (st : rpos)
  : res (list Z * rpos) :=
  match cnt with
  | O => Ok ([], st)
  | S c =>
    do '(m, st) <- rf_read_num ws tb sd st;
    do '(r, st) <- rf_read_moments ws tb sd c st;
    Ok (m :: r, st)
  end.

(* ---------------- gcd_utils::read_gcd::<U>, U::BITS = ub ---------------- *)
Definition rf_read_gcd (ws : list N) (tb : N) (ub : N) (range : N) (st : rpos)
  : res (N * rpos) :=
  do '(nontrivial, st) <- rf_read_one ws tb st;
  if nontrivial then
    do '(gcd_minus_one, st) <- rf_read_diff ub ws tb st (gcd_bits range);
    if range <=? gcd_minus_one then Err Corruption        (* gcd_minus_one >= range *)
    else Ok (gcd_minus_one + 1, st)
  else Ok (1, st).

(* ---------------- chunk_metadata.rs::parse_prefixes ---------------- *)
(* the `for _ in 0..n_pref` loop.  Bounds are kept as their unsigned images
   (lower.to_unsigned(), upper.to_unsigned()), like Codec.prefix does. *)
Fixpoint rf_prefix_loop (ws : list N) (tb : N) (f : flags) (pd : dtype) (n : N)
         (maybe_common_gcd : option N) (cnt : nat) (st : rpos) : res (list prefix * rpos) :=
  match cnt with
  | O => Ok ([], st)
  | S c =>
    do '(count, st) <- rf_read_usize ws tb st (count_bits f n);
    do '(lower, st) <- rf_read_num ws tb pd st;
    do '(upper, st) <- rf_read_num ws tb pd st;
    if to_u pd upper <? to_u pd lower then Err Corruption else
    do '(code_len, st) <- rf_read_usize ws tb st (code_len_bits f);
    do '(code, st) <- rf_read ws tb st code_len;
    do '(has_jumpstart, st) <- rf_read_one ws tb st;
    do '(run_len_jumpstart, st) <-
       (if has_jumpstart then
          do '(j, st) <- rf_read_usize ws tb st Consts.BITS_TO_ENCODE_JUMPSTART;
          Ok (Some j, st)
        else Ok (None, st));
    do '(gcd, st) <-
       (match maybe_common_gcd with
        | Some common_gcd => Ok (common_gcd, st)
        | None => rf_read_gcd ws tb (ubits pd) (to_u pd upper - to_u pd lower) st
        end);
    do '(rest, st) <- rf_prefix_loop ws tb f pd n maybe_common_gcd c st;
    Ok (mkPrefix count (to_u pd lower) (to_u pd upper) code run_len_jumpstart gcd :: rest, st)
  end.

Definition rf_parse_prefixes (ws : list N) (tb : N) (f : flags) (pd : dtype) (n : N)
           (st : rpos) : res (list prefix * rpos) :=
  do '(n_pref, st) <- rf_read_usize ws tb st Consts.BITS_TO_ENCODE_N_PREFIXES;
  do '(maybe_common_gcd, st) <-
     (if fgcd f then
        do '(b, st) <- rf_read_one ws tb st;
        if b then
          do '(g, st) <- rf_read_gcd ws tb (ubits pd) (umax (ubits pd)) st;   (* U::MAX *)
          Ok (Some g, st)
        else Ok (None, st)
      else Ok (Some 1, st));
  rf_prefix_loop ws tb f pd n maybe_common_gcd (N.to_nat n_pref) st.

(* ---------------- ChunkMetadata::parse_from ---------------- *)
(* PrefixMetadata::Simple is the record with no moments *)
Definition rf_parse_meta (ws : list N) (tb : N) (f : flags) (d : dtype) (st : rpos)
  : res (meta * rpos) :=
  do '(n, st) <- rf_read_usize ws tb st Consts.BITS_TO_ENCODE_N_ENTRIES;
  do '(compressed_body_size, st) <-
     rf_read_usize ws tb st Consts.BITS_TO_ENCODE_COMPRESSED_BODY_SIZE;
  if ford f =? 0 then
    do '(prefixes, st) <- rf_parse_prefixes ws tb f d n st;
    Ok (mkMeta n compressed_body_size [] prefixes, st)
  else
    do '(delta_moments, st) <- rf_read_moments ws tb (sdt d) (N.to_nat (ford f)) st;
    do '(prefixes, st) <- rf_parse_prefixes ws tb f (sdt d) n st;
    Ok (mkMeta n compressed_body_size delta_moments prefixes, st).

(* ---------------- decompressor.rs::read_chunk_meta ---------------- *)
Definition rf_chunk_meta (ws : list N) (tb : N) (d : dtype) (f : flags) (st : rpos)
  : res (option meta * rpos) :=
  do '(bytes, st) <- rf_read_aligned_bytes ws tb st 1;
  let magic_byte := nth 0 bytes 0 in
  if magic_byte =? Consts.MAGIC_TERMINATION_BYTE then Ok (None, st) else
  if negb (magic_byte =? Consts.MAGIC_CHUNK_BYTE) then Err Corruption else
  do '(metadata, st) <- rf_parse_meta ws tb f d st;
  do st <- rf_drain_empty_byte ws st;
  Ok (Some metadata, st).

(* ---------------- Decompressor::with_reader on freshly written bytes ---------------- *)
(* BitWords::from(bytes) (= extend_bytes on the empty BitWords), BitReader::from,
   reader.seek_to(bit_idx) *)
Definition rf_header_bytes (d : dtype) (bytes : list N) (bit_idx : N) : res (flags * rpos) :=
  let '(ws, tb) := bw_extend [] 0 bytes in
  rf_header ws tb d (rd_seek_to bit_idx).

Definition rf_chunk_meta_bytes (d : dtype) (f : flags) (bytes : list N) (bit_idx : N)
  : res (option meta * rpos) :=
  let '(ws, tb) := bw_extend [] 0 bytes in
  rf_chunk_meta ws tb d f (rd_seek_to bit_idx).
