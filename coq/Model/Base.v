(* Base.v — outcome monad, bit strings, fixed-width put/get, bytes.
   Definitions only (proofs live in Lemmas/). Stdlib only. *)
From Coq Require Export List NArith ZArith Bool.
Export ListNotations.
Open Scope N_scope.

(* ---------- outcomes ---------- *)
Inductive ekind := Compatibility | Corruption | InsufficientData | InvalidArgument.

Inductive res (A : Type) :=
| Ok (a : A)
| Err (k : ekind)
| Panic.
Arguments Ok {A} a.
Arguments Err {A} k.
Arguments Panic {A}.

Definition bind {A B} (r : res A) (f : A -> res B) : res B :=
  match r with Ok a => f a | Err k => Err k | Panic => Panic end.
Notation "'do' x <- r ; k" := (bind r (fun x => k))
  (at level 200, x name, r at level 100, k at level 200, right associativity).
Notation "'do' ' p <- r ; k" := (bind r (fun x => match x with p => k end))
  (at level 200, p pattern, r at level 100, k at level 200, right associativity).

Definition ekind_eqb (a b : ekind) : bool :=
  match a, b with
  | Compatibility, Compatibility | Corruption, Corruption
  | InsufficientData, InsufficientData | InvalidArgument, InvalidArgument => true
  | _, _ => false
  end.

(* ---------- bits ---------- *)
Definition bits := list bool.

(* low [n] bits of [x], most significant first (BitWriter::write_diff / write_usize) *)
Fixpoint putn (n : nat) (x : N) : bits :=
  match n with
  | O => []
  | S m => N.testbit x (N.of_nat m) :: putn m x
  end.

Fixpoint getn_acc (n : nat) (acc : N) (s : bits) : option (N * bits) :=
  match n with
  | O => Some (acc, s)
  | S m => match s with
           | [] => None
           | b :: t => getn_acc m (2 * acc + N.b2n b) t
           end
  end.
Definition getn (n : nat) (s : bits) : option (N * bits) := getn_acc n 0 s.

Definition put (n : N) (x : N) : bits := putn (N.to_nat n) x.

(* a checked read: insufficient data when fewer than n bits remain *)
Definition get (n : N) (s : bits) : res (N * bits) :=
  match getn (N.to_nat n) s with
  | Some r => Ok r
  | None => Err InsufficientData
  end.

Definition get1 (s : bits) : res (bool * bits) :=
  match s with
  | [] => Err InsufficientData
  | b :: t => Ok (b, t)
  end.

Fixpoint take_bits (n : nat) (s : bits) : option (bits * bits) :=
  match n with
  | O => Some ([], s)
  | S m => match s with
           | [] => None
           | b :: t => match take_bits m t with
                       | Some (h, r) => Some (b :: h, r)
                       | None => None
                       end
           end
  end.

Definition get_bits (n : N) (s : bits) : res (bits * bits) :=
  match take_bits (N.to_nat n) s with
  | Some r => Ok r
  | None => Err InsufficientData
  end.

(* value of a bit list read MSB first *)
Fixpoint bits_val_acc (acc : N) (s : bits) : N :=
  match s with
  | [] => acc
  | b :: t => bits_val_acc (2 * acc + N.b2n b) t
  end.
Definition bits_val (s : bits) : N := bits_val_acc 0 s.

(* ---------- bytes ---------- *)
Definition byte_bits (b : N) : bits := putn 8 b.
Definition bytes_to_bits (bs : list N) : bits := flat_map byte_bits bs.

(* zero padding up to the next multiple of 8, given the current length *)
Definition pad_len (len : N) : N := (8 - len mod 8) mod 8.
Definition pad8 (s : bits) : bits :=
  s ++ repeat false (N.to_nat (pad_len (N.of_nat (length s)))).

(* bits -> bytes, zero padding the last byte (bits::bits_to_bytes) *)
Fixpoint bits_to_bytes_fuel (fuel : nat) (s : bits) : list N :=
  match fuel with
  | O => []
  | S f =>
    match s with
    | [] => []
    | _ => let chunk := firstn 8 s in
           let padded := chunk ++ repeat false (8 - length chunk) in
           bits_val padded :: bits_to_bytes_fuel f (skipn 8 s)
    end
  end.
Definition bits_to_bytes (s : bits) : list N := bits_to_bytes_fuel (S (length s)) s.

(* big-endian bytes of x, [nb] of them *)
Fixpoint be_bytes (nb : nat) (x : N) : list N :=
  match nb with
  | O => []
  | S m => (N.shiftr x (8 * N.of_nat m)) mod 256 :: be_bytes m x
  end.

Fixpoint be_val_acc (acc : N) (bs : list N) : N :=
  match bs with
  | [] => acc
  | b :: t => be_val_acc (256 * acc + b) t
  end.
Definition be_val (bs : list N) : N := be_val_acc 0 bs.

(* aligned byte read: reader must be at a byte boundary; we track position by the
   number of bits consumed so far *)
Definition pow2 (n : N) : N := 2 ^ n.

Fixpoint list_eqb {A} (eqb : A -> A -> bool) (a b : list A) : bool :=
  match a, b with
  | [], [] => true
  | x :: a', y :: b' => eqb x y && list_eqb eqb a' b'
  | _, _ => false
  end.

Definition opt_eqb {A} (eqb : A -> A -> bool) (a b : option A) : bool :=
  match a, b with
  | None, None => true
  | Some x, Some y => eqb x y
  | _, _ => false
  end.

Definition Nlen {A} (l : list A) : N := N.of_nat (length l).
