(* Cli.v — the pure list logic of the command-line handlers (q_compress_cli/src):
   compress_handler.rs (chunk buffering, auto-order head collection),
   decompress_handler.rs (--limit), inspect_handler.rs (totals).
   Definitions only.  Everything is polymorphic in the element type. *)
From QCo.Model Require Import Base.
Open Scope nat_scope.

(* ---------- compress: the num_buffer loop ----------
     let mut num_buffer = Vec::new();
     while let Some(batch) = reader.next_batch() {
       num_buffer.extend(&batch);
       if num_buffer.len() >= opt.chunk_size {
         write_chunk(.., &num_buffer[..opt.chunk_size], ..);
         num_buffer = num_buffer[opt.chunk_size..].to_vec();
       }
     }
     if !num_buffer.is_empty() { write_chunk(.., &num_buffer, ..); }
   The result is the list of slices passed to write_chunk, in order. *)
Fixpoint buffer_loop {A : Type} (chunk_size : nat) (buf : list A) (batches : list (list A))
  : list (list A) :=
  match batches with
  | [] => match buf with [] => [] | _ => [buf] end
  | batch :: t =>
    let buf' := buf ++ batch in
    if chunk_size <=? length buf'
    then firstn chunk_size buf' :: buffer_loop chunk_size (skipn chunk_size buf') t
    else buffer_loop chunk_size buf' t
  end.

Definition buffer_chunks {A : Type} (chunk_size : nat) (batches : list (list A))
  : list (list A) :=
  buffer_loop chunk_size [] batches.

(* ---------- decompress: the remaining_limit loop ----------
     let mut remaining_limit = opt.limit.unwrap_or(usize::MAX);
     loop {
       if remaining_limit == 0 { break; }
       if let Some(_) = decompressor.chunk_metadata()? {
         let nums = decompressor.chunk_body()?;
         let num_slice = if nums.len() <= remaining_limit {
           remaining_limit -= nums.len(); nums.as_slice()
         } else {
           let res = &nums[0..remaining_limit]; remaining_limit = 0; res
         };
         writer.write(num_slice)?;
       } else { break; }
     }
   [chunks] are the decoded chunks of the file; the result is the list of slices written. *)
Fixpoint limit_slices {A : Type} (remaining : nat) (chunks : list (list A)) {struct chunks}
  : list (list A) :=
  if remaining =? 0 then [] else
  match chunks with
  | [] => []
  | nums :: t =>
    if length nums <=? remaining
    then nums :: limit_slices (remaining - length nums) t
    else firstn remaining nums :: limit_slices 0 t
  end.

(* opt.limit = None is remaining_limit = usize::MAX: see CliL.limit_slices_no_limit
   (a limit above the total count writes every chunk whole). *)

(* ---------- compress: head_nums for the automatic delta order ----------
     let mut head_nums = Vec::with_capacity(AUTO_DELTA_LIMIT);
     while let Some(batch) = reader.next_batch() {
       head_nums.extend(batch);
       if head_nums.len() >= AUTO_DELTA_LIMIT { break; }
     }
     if head_nums.len() > AUTO_DELTA_LIMIT { head_nums = head_nums[0..AUTO_DELTA_LIMIT].to_vec(); } *)
Fixpoint head_loop {A : Type} (limit : nat) (acc : list A) (batches : list (list A)) : list A :=
  match batches with
  | [] => acc
  | batch :: t =>
    let acc' := acc ++ batch in
    if limit <=? length acc' then acc' else head_loop limit acc' t
  end.

Definition head_nums {A : Type} (limit : nat) (batches : list (list A)) : list A :=
  let h := head_loop limit [] batches in
  if limit <? length h then firstn limit h else h.

(* compress_handler.rs's own AUTO_DELTA_LIMIT *)
Definition CLI_AUTO_DELTA_LIMIT : nat := 1000.

(* ---------- inspect: totals ----------
   one record per chunk, as gathered by the `while let Some(meta) = chunk_metadata()` loop:
   the bit length of the chunk's metadata section (bit_idx - start_bit_idx), and the
   metadata's compressed_body_size and n *)
Record chunk_info := mkChunkInfo {
  ci_meta_bits : N;
  ci_body_bytes : N;
  ci_n : N }.

Definition Nsum (l : list N) : N := fold_right N.add 0%N l.

(* metadatas.len() *)
Definition inspect_n_chunks (infos : list chunk_info) : N := Nlen infos.

(* metadatas.iter().map(|m| m.n).sum() — Iterator::sum folds from the left from 0 *)
Definition inspect_total_n (infos : list chunk_info) : N :=
  fold_left (fun acc i => (acc + ci_n i)%N) infos 0%N.

(* metadata_size += (bit_idx - start_bit_idx) / 8  per chunk *)
Definition inspect_metadata_size (infos : list chunk_info) : N :=
  fold_left (fun acc i => (acc + ci_meta_bits i / 8)%N) infos 0%N.

(* metadatas.iter().map(|m| m.compressed_body_size).sum() *)
Definition inspect_body_size (infos : list chunk_info) : N :=
  fold_left (fun acc i => (acc + ci_body_bytes i)%N) infos 0%N.

(* T::PHYSICAL_BITS / 8 * total_n *)
Definition inspect_uncompressed_size (physical_bits : N) (infos : list chunk_info) : N :=
  (physical_bits / 8 * inspect_total_n infos)%N.
