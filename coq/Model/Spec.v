(* Spec.v — the frozen .qco grammar: an AST, its serialisation [enc_file] and an
   independent recursive-descent decoder [dec_file].
   Written from the README's format section plus the frozen constants (Frozen.v); it shares
   only the record types ([flags], [prefix], [meta]) and the bit/number primitives with
   the rest of the model, none of Codec.v's encoders/decoders.  Definitions only. *)
From QCo.Model Require Import Base Frozen DType.
From QCo.Model Require Codec.
Open Scope N_scope.

Notation flags := Codec.flags.
Notation prefix := Codec.prefix.
Notation mkFlags := Codec.mkFlags.
Notation mkPrefix := Codec.mkPrefix.
Notation f5 := Codec.f5.
Notation ford := Codec.ford.
Notation fmin := Codec.fmin.
Notation fgcd := Codec.fgcd.
Notation p_count := Codec.p_count.
Notation p_lower := Codec.p_lower.
Notation p_upper := Codec.p_upper.
Notation p_code := Codec.p_code.
Notation p_jump := Codec.p_jump.
Notation p_gcd := Codec.p_gcd.

(* ---- AST ---- *)
Record sblock := mkBlock {
  sb_idx : nat;              (* which prefix of the chunk's table *)
  sb_offsets : list N }.     (* one offset per repetition (exactly one if no jumpstart) *)

Record schunk := mkChunk {
  sc_n : N;
  sc_moments : list Z;           (* delta moments (signed companion type); length = order *)
  sc_common : option N;          (* Some g: one gcd written for the whole table;
                                    None: a gcd per prefix (only with the gcd flag) *)
  sc_table : list prefix;
  sc_blocks : list sblock }.

Record sfile := mkFile {
  sf_dt : dtype;
  sf_flags : flags;
  sf_extra_flag_bytes : nat;     (* all-zero continuation bytes after the first flag byte *)
  sf_chunks : list schunk }.

(* ---- widths ---- *)
Definition s_code_len_bits (f : flags) : N :=
  if f5 f then Frozen.CODE_LEN_BITS_5 else Frozen.CODE_LEN_BITS_4.
Definition s_count_bits (f : flags) (n : N) : N :=
  if fmin f then N.log2_up (n + 1) else Frozen.BITS_TO_ENCODE_N_ENTRIES.
Definition s_gcd_bits (range : N) : N := if range =? 0 then 0 else N.log2_up range.
Definition s_pdt (f : flags) (d : dtype) : dtype := if ford f =? 0 then d else sdt d.
Definition s_range (p : prefix) : N := (p_upper p - p_lower p) / p_gcd p.

(* ---- encoder ---- *)
Definition s_pad (s : bits) : bits := s ++ repeat false (N.to_nat ((8 - Nlen s mod 8) mod 8)).

Definition enc_flags (f : flags) (extra : nat) : bits :=
  (* 7 payload bits, MSB first: 5-bit-code-len, 3 bits delta order, min-count, gcds, 0;
     then the continuation bit; continuation bytes carry 7 zero payload bits *)
  let payload := [f5 f] ++ put 3 (ford f) ++ [fmin f; fgcd f; false] in
  match extra with
  | O => payload ++ [false]
  | S e => payload ++ [true]
           ++ flat_map (fun _ => repeat false 7 ++ [true]) (seq 0 e)
           ++ repeat false 8
  end.

Definition enc_gcd (range g : N) : bits :=
  if g =? 1 then [false] else true :: put (s_gcd_bits range) (g - 1).

Definition enc_unum (pd : dtype) (u : N) : bits :=
  match to_bytes pd (of_u pd u) with
  | Ok bs => bytes_to_bits bs
  | _ => []
  end.

Definition enc_prefix (f : flags) (pd : dtype) (n : N) (common : option N) (p : prefix) : bits :=
  put (s_count_bits f n) (p_count p)
  ++ enc_unum pd (p_lower p) ++ enc_unum pd (p_upper p)
  ++ put (s_code_len_bits f) (Nlen (p_code p)) ++ p_code p
  ++ (match p_jump p with None => [false] | Some j => true :: put Frozen.BITS_TO_ENCODE_JUMPSTART j end)
  ++ (match common with Some _ => [] | None => enc_gcd (p_upper p - p_lower p) (p_gcd p) end).

Definition enc_snum (sd : dtype) (x : Z) : bits :=
  match to_bytes sd x with Ok bs => bytes_to_bits bs | _ => [] end.

(* varint: j low bits, then (1, bit) pairs for the higher bits, least significant first,
   ended by a 0 unless 24 bits have been written in all *)
Fixpoint enc_varint_pairs (left : nat) (x : N) : bits :=
  match left with
  | O => []
  | S l => if x =? 0 then [false] else true :: N.odd x :: enc_varint_pairs l (x / 2)
  end.
Definition enc_varint (x j : N) : bits :=
  put j x ++ enc_varint_pairs (N.to_nat (Frozen.BITS_TO_ENCODE_N_ENTRIES - j)) (x / 2 ^ j).

(* offset in 0..=r: k = floor(log2(r+1)) low bits; the values that cannot be told apart
   by k bits get bit k appended *)
Definition enc_offset (r off : N) : bits :=
  let k := N.log2 (r + 1) in
  let low := off mod 2 ^ k in
  put k low ++ (if 2 ^ k <=? r - low then [2 ^ k <=? off] else []).

Definition enc_block (table : list prefix) (b : sblock) : bits :=
  match nth_error table (sb_idx b) with
  | None => []
  | Some p =>
    p_code p
    ++ (match p_jump p with
        | None => []
        | Some j => enc_varint (Nlen (sb_offsets b) - 1) j
        end)
    ++ flat_map (enc_offset (s_range p)) (sb_offsets b)
  end.

Definition enc_body (c : schunk) : bits := s_pad (flat_map (enc_block (sc_table c)) (sc_blocks c)).

Definition enc_chunk (f : flags) (d : dtype) (c : schunk) : bits :=
  let pd := s_pdt f d in
  let body := enc_body c in
  let gcd_hdr :=
      if fgcd f then
        match sc_common c with
        | None => [false]
        | Some g => true :: enc_gcd (2 ^ ubits pd - 1) g
        end
      else [] in
  let common := if fgcd f then sc_common c else Some 1 in
  put 8 Frozen.MAGIC_CHUNK_BYTE
  ++ s_pad (put Frozen.BITS_TO_ENCODE_N_ENTRIES (sc_n c)
            ++ put Frozen.BITS_TO_ENCODE_COMPRESSED_BODY_SIZE (Nlen body / 8)
            ++ flat_map (enc_snum (sdt d)) (sc_moments c)
            ++ put Frozen.BITS_TO_ENCODE_N_PREFIXES (Nlen (sc_table c))
            ++ gcd_hdr
            ++ flat_map (enc_prefix f pd (sc_n c) common) (sc_table c))
  ++ body.

Definition enc_file (a : sfile) : bits :=
  flat_map (put 8) Frozen.MAGIC_HEADER ++ put 8 (hdr (sf_dt a))
  ++ enc_flags (sf_flags a) (sf_extra_flag_bytes a)
  ++ flat_map (enc_chunk (sf_flags a) (sf_dt a)) (sf_chunks a)
  ++ put 8 Frozen.MAGIC_TERMINATION_BYTE.

(* ---- decoder (option: None = not a well-formed file) ---- *)
Definition obind {A B} (o : option A) (f : A -> option B) : option B :=
  match o with Some a => f a | None => None end.
Notation "'let?' x := o 'in' k" := (obind o (fun x => k))
  (at level 200, x name, o at level 100, k at level 200, right associativity).
Notation "'let?' ' p := o 'in' k" := (obind o (fun x => match x with p => k end))
  (at level 200, p pattern, o at level 100, k at level 200, right associativity).

Definition rd (n : N) (s : bits) : option (N * bits) := getn (N.to_nat n) s.
Definition rd1 (s : bits) : option (bool * bits) :=
  match s with [] => None | b :: t => Some (b, t) end.
Definition rd_bits (n : N) (s : bits) : option (bits * bits) := take_bits (N.to_nat n) s.

(* all flag bytes: payload bits of byte 0 are the six known flags and a zero; any further
   payload bit that is set makes the file unreadable for this version *)
Fixpoint dec_flag_tail (fuel : nat) (cont : bool) (s : bits) : option (nat * bits) :=
  if negb cont then Some (O, s) else
  match fuel with
  | O => None
  | S f =>
    let? '(v, s1) := rd 7 s in
    let? '(c, s2) := rd1 s1 in
    if negb (v =? 0) then None else
    let? '(k, s3) := dec_flag_tail f c s2 in
    Some (S k, s3)
  end.
Definition dec_flags (s : bits) : option (flags * nat * bits) :=
  let? '(b5, s1) := rd1 s in
  let? '(ord, s2) := rd 3 s1 in
  let? '(bmin, s3) := rd1 s2 in
  let? '(bgcd, s4) := rd1 s3 in
  let? '(unk, s5) := rd1 s4 in
  let? '(cont, s6) := rd1 s5 in
  if unk then None else
  let? '(extra, s7) := dec_flag_tail (length s6) cont s6 in
  Some (mkFlags b5 ord bmin bgcd, extra, s7).

Definition dec_gcd (range : N) (s : bits) : option (N * bits) :=
  let? '(b, s1) := rd1 s in
  if b then
    let? '(g1, s2) := rd (s_gcd_bits range) s1 in
    if g1 <? range then Some (g1 + 1, s2) else None
  else Some (1, s1).

Definition dec_unum (pd : dtype) (s : bits) : option (N * bits) :=
  let? '(bl, s1) := rd_bits (phys pd) s in
  match of_bytes pd (bits_to_bytes bl) with
  | Ok x => Some (to_u pd x, s1)
  | _ => None
  end.
Definition dec_snum (sd : dtype) (s : bits) : option (Z * bits) :=
  let? '(bl, s1) := rd_bits (phys sd) s in
  match of_bytes sd (bits_to_bytes bl) with
  | Ok x => Some (x, s1)
  | _ => None
  end.

Definition dec_prefix (f : flags) (pd : dtype) (n : N) (common : option N) (s : bits)
  : option (prefix * bits) :=
  let? '(cnt, s1) := rd (s_count_bits f n) s in
  let? '(lo, s2) := dec_unum pd s1 in
  let? '(up, s3) := dec_unum pd s2 in
  if up <? lo then None else
  let? '(cl, s4) := rd (s_code_len_bits f) s3 in
  let? '(code, s5) := rd_bits cl s4 in
  let? '(hj, s6) := rd1 s5 in
  let? '(jump, s7) := (if hj then let? '(j, s7) := rd Frozen.BITS_TO_ENCODE_JUMPSTART s6 in Some (Some j, s7)
                       else Some (None, s6)) in
  let? '(g, s8) := (match common with Some g => Some (g, s7) | None => dec_gcd (up - lo) s7 end) in
  Some (mkPrefix cnt lo up code jump g, s8).

Fixpoint dec_prefixes (cnt : nat) (f : flags) (pd : dtype) (n : N) (common : option N) (s : bits)
  : option (list prefix * bits) :=
  match cnt with
  | O => Some ([], s)
  | S c => let? '(p, s1) := dec_prefix f pd n common s in
           let? '(r, s2) := dec_prefixes c f pd n common s1 in
           Some (p :: r, s2)
  end.

Fixpoint dec_moments (cnt : nat) (sd : dtype) (s : bits) : option (list Z * bits) :=
  match cnt with
  | O => Some ([], s)
  | S c => let? '(m, s1) := dec_snum sd s in
           let? '(r, s2) := dec_moments c sd s1 in
           Some (m :: r, s2)
  end.

(* Huffman code: extend the bits read so far until they equal one of the codes *)
Definition bits_eqb (a b : bits) : bool := list_eqb Bool.eqb a b.
Fixpoint index_of_code (table : list prefix) (c : bits) (i : nat) : option (nat * prefix) :=
  match table with
  | [] => None
  | p :: t => if bits_eqb (p_code p) c then Some (i, p) else index_of_code t c (S i)
  end.
Fixpoint dec_code (fuel : nat) (table : list prefix) (acc : bits) (s : bits)
  : option (nat * prefix * bits) :=
  match index_of_code table acc O with
  | Some (i, p) => Some (i, p, s)
  | None =>
    match fuel with
    | O => None
    | S f => match s with
             | [] => None
             | b :: t => dec_code f table (acc ++ [b]) t
             end
    end
  end.

Fixpoint dec_varint_pairs (left : nat) (i : N) (acc : N) (s : bits) : option (N * bits) :=
  match left with
  | O => Some (acc, s)
  | S l =>
    let? '(c, s1) := rd1 s in
    if c then
      let? '(b, s2) := rd1 s1 in
      dec_varint_pairs l (i + 1) (acc + (if b then 2 ^ i else 0)) s2
    else Some (acc, s1)
  end.
Definition dec_varint (j : N) (s : bits) : option (N * bits) :=
  let? '(v, s1) := rd j s in
  dec_varint_pairs (N.to_nat (Frozen.BITS_TO_ENCODE_N_ENTRIES - j)) j v s1.

Definition dec_offset (r : N) (s : bits) : option (N * bits) :=
  let k := N.log2 (r + 1) in
  let? '(v, s1) := rd k s in
  if r <? v then None else
  if 2 ^ k <=? r - v then
    let? '(b, s2) := rd1 s1 in Some (if b then v + 2 ^ k else v, s2)
  else Some (v, s1).

Fixpoint dec_offsets (cnt : nat) (r : N) (s : bits) : option (list N * bits) :=
  match cnt with
  | O => Some ([], s)
  | S c => let? '(o, s1) := dec_offset r s in
           let? '(l, s2) := dec_offsets c r s1 in
           Some (o :: l, s2)
  end.

(* blocks until exactly [left] numbers have been produced; a run may not overshoot *)
Fixpoint dec_blocks (fuel : nat) (table : list prefix) (left : N) (s : bits)
  : option (list sblock * bits) :=
  if left =? 0 then Some ([], s) else
  match fuel with
  | O => None
  | S f =>
    let? '(i, p, s1) := dec_code 32 table [] s in
    let? '(reps, s2) := (match p_jump p with
                         | None => Some (1, s1)
                         | Some j => let? '(v, s2) := dec_varint j s1 in Some (v + 1, s2)
                         end) in
    if left <? reps then None else
    let? '(offs, s3) := dec_offsets (N.to_nat reps) (s_range p) s2 in
    let? '(bl, s4) := dec_blocks f table (left - reps) s3 in
    Some (mkBlock i offs :: bl, s4)
  end.

(* the codes of a table form a complete prefix-free tree: Kraft sum = 1 and no code is a
   prefix of another *)
Fixpoint s_is_prefix (a b : bits) : bool :=
  match a, b with
  | [], _ => true
  | x :: a', y :: b' => Bool.eqb x y && s_is_prefix a' b'
  | _, _ => false
  end.
Fixpoint prefix_free (codes : list bits) : bool :=
  match codes with
  | [] => true
  | c :: t => forallb (fun c' => negb (s_is_prefix c c') && negb (s_is_prefix c' c)) t && prefix_free t
  end.
Definition kraft_ok (codes : list bits) : bool :=
  fold_right (fun c acc => acc + 2 ^ (32 - Nlen c)) 0 codes =? 2 ^ 32.
Definition s_tree_ok (table : list prefix) : bool :=
  match table with
  | [] => true
  | _ => let codes := map p_code table in
         forallb (fun c => Nlen c <=? 31) codes && kraft_ok codes && prefix_free codes
  end.

Definition aligned_skip (s : bits) : option bits :=
  (* skip zero padding up to the byte boundary; files are whole bytes, so the padding
     length is (remaining length) mod 8 *)
  let k := N.to_nat (Nlen s mod 8) in
  if existsb (fun b => b) (firstn k s) then None else Some (skipn k s).

Definition dec_chunk (f : flags) (d : dtype) (s : bits) : option (schunk * N * bits) :=
  let pd := s_pdt f d in
  let? '(n, s1) := rd Frozen.BITS_TO_ENCODE_N_ENTRIES s in
  let? '(bsz, s2) := rd Frozen.BITS_TO_ENCODE_COMPRESSED_BODY_SIZE s1 in
  let? '(mo, s3) := dec_moments (N.to_nat (ford f)) (sdt d) s2 in
  let? '(np, s4) := rd Frozen.BITS_TO_ENCODE_N_PREFIXES s3 in
  let? '(common, s5) :=
     (if fgcd f then
        let? '(b, s5) := rd1 s4 in
        if b then let? '(g, s6) := dec_gcd (2 ^ ubits pd - 1) s5 in Some (Some g, s6)
        else Some (None, s5)
      else Some (Some 1, s4)) in
  let? '(table, s6) := dec_prefixes (N.to_nat np) f pd n common s5 in
  let? s7 := aligned_skip s6 in
  if negb (s_tree_ok table) then None else
  let n' := n - ford f in
  if (0 <? n') && (match table with [] => true | _ => false end) then None else
  let? '(blocks, s8) := dec_blocks (N.to_nat n') table n' s7 in
  let? s9 := aligned_skip s8 in
  if negb (Nlen s7 - Nlen s9 =? 8 * bsz) then None else
  Some (mkChunk n mo (if fgcd f then common else Some 1) table blocks, bsz, s9).

Fixpoint dec_chunks (fuel : nat) (f : flags) (d : dtype) (s : bits) : option (list (schunk * N) * bits) :=
  match fuel with
  | O => None
  | S fu =>
    let? '(mb, s1) := rd 8 s in
    if mb =? Frozen.MAGIC_TERMINATION_BYTE then Some ([], s1) else
    if negb (mb =? Frozen.MAGIC_CHUNK_BYTE) then None else
    let? '(c, bsz, s2) := dec_chunk f d s1 in
    let? '(r, s3) := dec_chunks fu f d s2 in
    Some ((c, bsz) :: r, s3)
  end.

Fixpoint dec_magic (m : list N) (s : bits) : option bits :=
  match m with
  | [] => Some s
  | b :: t => let? '(v, s1) := rd 8 s in if v =? b then dec_magic t s1 else None
  end.

(* decode a whole file: the AST, the body byte size recorded for each chunk, and whatever
   follows the termination byte *)
Definition dec_file (d : dtype) (s : bits) : option (sfile * list N * bits) :=
  let? s1 := dec_magic Frozen.MAGIC_HEADER s in
  let? '(tb, s2) := rd 8 s1 in
  if negb (tb =? hdr d) then None else
  let? '(f, extra, s3) := dec_flags s2 in
  if Frozen.MAX_DELTA_ENCODING_ORDER <? ford f then None else
  let? '(cs, s4) := dec_chunks (S (length s3)) f d s3 in
  Some (mkFile d f extra (map fst cs), map snd cs, s4).

(* ---- meaning of an AST: the numbers it encodes ---- *)
Definition block_unsigneds (table : list prefix) (b : sblock) : list N :=
  match nth_error table (sb_idx b) with
  | None => []
  | Some p => map (fun o => p_lower p + o * p_gcd p) (sb_offsets b)
  end.
Definition chunk_unsigneds (c : schunk) : list N := flat_map (block_unsigneds (sc_table c)) (sc_blocks c).

(* integrate: x0 = init, x(i+1) = x(i) + d(i)  (wrapping, in the signed companion type) *)
Fixpoint integrate (d : dtype) (init : Z) (ds : list Z) : list Z :=
  match ds with
  | [] => [init]
  | a :: t => init :: integrate d (s_add d init a) t
  end.
Definition chunk_nums (f : flags) (d : dtype) (c : schunk) : list Z :=
  if ford f =? 0 then map (of_u d) (chunk_unsigneds c)
  else
    let deltas := map (of_u (sdt d)) (chunk_unsigneds c) in
    let signed := fold_right (fun m acc => integrate d m acc) deltas (sc_moments c) in
    map (of_s d) (firstn (N.to_nat (sc_n c)) signed).

Definition file_nums (a : sfile) : list Z :=
  flat_map (chunk_nums (sf_flags a) (sf_dt a)) (sf_chunks a).

(* metadata view of a chunk, for comparison with what the library reports *)
Definition chunk_meta (c : schunk) (body_bytes : N) : Codec.meta :=
  Codec.mkMeta (sc_n c) body_bytes (sc_moments c) (sc_table c).
