(* Reader.v — R: the decompressor as a state machine (decompressor.rs,
   chunk_body_decompressor.rs, num_decompressor.rs), on received bytes.
   Every operation either succeeds and commits, or fails and leaves the state as it was
   (this is what the repaired code is meant to do; the correspondence run checks it).
   Definitions only. *)
From QCo.Model Require Import Base Consts DType Codec.
Open Scope N_scope.

Record cbd := mkCbd {
  c_n : N;                 (* NumDecompressor::n  (= metadata n minus order, saturating) *)
  c_total : N;             (* metadata n *)
  c_body : N;              (* compressed_body_size, bytes *)
  c_table : list prefix;
  c_moments : list Z;      (* current delta moments; [] when order = 0 *)
  c_numsproc : N;          (* numbers emitted so far (Delta::nums_processed) *)
  c_nd : nd_state }.

Record rstate := mkR {
  r_bytes : list N;        (* bytes held (after left truncation) *)
  r_bit : N;               (* state.bit_idx *)
  r_flags : option flags;
  r_cbd : option cbd;
  r_term : bool }.

Definition r_init : rstate := mkR [] 0 None None false.

Inductive item :=
| IFlags (f : flags)
| IMeta (m : meta)
| INums (xs : list Z)
| IFooter.

Inductive rop :=
| RWrite (bs : list N)
| RHeader
| RMeta
| RBody
| RSkip
| RNext (limit : N)
| RFree
| RSimple.

Inductive rout :=
| ROUnit
| ROFlags (f : flags)
| ROMeta (m : option meta)
| RONums (xs : list Z)
| ROItem (i : item)
| RONone
| ROErr (k : ekind)
| ROPanic.

Definition total_bits (st : rstate) : N := 8 * Nlen (r_bytes st).
Definition stream (st : rstate) : bits := skipn (N.to_nat (r_bit st)) (bytes_to_bits (r_bytes st)).
Definition pos_after (st : rstate) (s' : bits) : N := total_bits st - Nlen s'.

(* read_aligned_bytes(n) on a stream whose position is [bit] *)
Definition read_aligned (bit : N) (n : N) (s : bits) : res (list N * bits) :=
  if negb (bit mod 8 =? 0) then Err InvalidArgument else
  do '(bl, s') <- get_bits (8 * n) s;
  Ok (bits_to_bytes bl, s').

(* decompressor.rs::read_header *)
Definition read_header (d : dtype) (bit : N) (s : bits) : res (flags * bits) :=
  do '(mg, s1) <- read_aligned bit 4 s;
  if negb (list_eqb N.eqb mg Consts.MAGIC_HEADER) then Err Corruption else
  do '(tb, s2) <- read_aligned bit 1 s1;
  if negb (list_eqb N.eqb tb [hdr d]) then Err Corruption else
  parse_flags s2.

(* decompressor.rs::read_chunk_meta *)
Definition read_chunk_meta (d : dtype) (f : flags) (bit : N) (s : bits) : res (option meta * bits) :=
  do '(mb, s1) <- read_aligned bit 1 s;
  if list_eqb N.eqb mb [Consts.MAGIC_TERMINATION_BYTE] then Ok (None, s1) else
  if negb (list_eqb N.eqb mb [Consts.MAGIC_CHUNK_BYTE]) then Err Corruption else
  do '(m, s2) <- parse_meta f d s1;
  Ok (Some m, s2).

(* ChunkBodyDecompressor::new / NumDecompressor::new *)
Definition new_cbd (f : flags) (m : meta) : res cbd :=
  let order := ford f in
  let n' := m_n m - order in            (* saturating_sub; order = 0 for Simple *)
  if is_nil (m_table m) && (0 <? n') then Err Corruption else
  if negb (table_ok (m_table m)) then Err Corruption else
  Ok (mkCbd n' (m_n m) (m_body m) (m_table m) (m_moments m) 0 (mkNd 0 0 None)).

(* NumDecompressor::decompress_unsigneds_limited: state is updated only on success *)
Definition nd_batch (w tb : N) (c : cbd) (limit : N) (eoi : bool) (s : bits)
  : res (list N * bool * nd_state * bits) :=
  let nd := c_nd c in
  if c_n c <? nd_nproc nd then Panic else
  let out := read_batch w tb (c_table c) (c_n c - nd_nproc nd) (nd_incomplete nd) limit eoi s in
  match b_status out with
  | SPanic => Panic
  | SErr k => Err k
  | SOk =>
    do s1 <- (if b_finished out then drain_pad (b_rest out) else Ok (b_rest out));
    let bproc := nd_bproc nd + (Nlen s - Nlen s1) in
    if b_finished out && negb (c_body c * 8 =? bproc) then Err Corruption else
    Ok (b_nums out, b_finished out,
        mkNd (nd_nproc nd + Nlen (b_nums out)) bproc (b_incomplete out), s1)
  end.

(* ChunkBodyDecompressor::decompress_next_batch.
   Returns the numbers (raw), whether the chunk body is finished, the new cbd, the rest *)
Definition cbd_batch (d : dtype) (f : flags) (tb : N) (c : cbd) (limit : N) (eoi : bool) (s : bits)
  : res (list Z * bool * cbd * bits) :=
  let pd := pdt f d in
  do '(us, fin, nd', s1) <- nd_batch (ubits pd) tb c limit eoi s;
  if ford f =? 0 then
    Ok (map (of_u d) us, fin,
        mkCbd (c_n c) (c_total c) (c_body c) (c_table c) (c_moments c)
              (c_numsproc c + Nlen us) nd', s1)
  else
    if c_total c <? c_numsproc c then Panic else
    let bs := if fin then N.min limit (c_total c - c_numsproc c) else Nlen us in
    let '(xs, ms') := reconstruct d (N.to_nat bs) (c_moments c) (map (of_u (sdt d)) us) in
    let np := c_numsproc c + bs in
    Ok (xs, np =? c_total c,
        mkCbd (c_n c) (c_total c) (c_body c) (c_table c) ms' np nd', s1).

Definition set_pos (st : rstate) (bit : N) : rstate :=
  mkR (r_bytes st) bit (r_flags st) (r_cbd st) (r_term st).

(* the iterator's step for the "between chunks" state *)
Definition next_meta (d : dtype) (st : rstate) (f : flags) : rstate * rout :=
  match read_chunk_meta d f (r_bit st) (stream st) with
  | Ok (Some m, s') =>
    match new_cbd f m with
    | Ok c => (mkR (r_bytes st) (pos_after st s') (r_flags st) (Some c) (r_term st),
               ROItem (IMeta m))
    | Err k => (st, ROErr k)
    | Panic => (st, ROPanic)
    end
  | Ok (None, s') =>
    (mkR (r_bytes st) (pos_after st s') (r_flags st) None true, ROItem IFooter)
  | Err InsufficientData => (st, RONone)
  | Err k => (st, ROErr k)
  | Panic => (st, ROPanic)
  end.

Definition r_step (d : dtype) (st : rstate) (o : rop) : rstate * rout :=
  match o with
  | RWrite bs =>
    (mkR (r_bytes st ++ bs) (r_bit st) (r_flags st) (r_cbd st) (r_term st), ROUnit)
  | RHeader =>
    if r_term st then (st, ROErr InvalidArgument) else
    match r_flags st with
    | Some _ => (st, ROErr InvalidArgument)
    | None =>
      match read_header d (r_bit st) (stream st) with
      | Ok (f, s') =>
        (mkR (r_bytes st) (pos_after st s') (Some f) (r_cbd st) (r_term st), ROFlags f)
      | Err k => (st, ROErr k)
      | Panic => (st, ROPanic)
      end
    end
  | RMeta =>
    if r_term st then (st, ROErr InvalidArgument) else
    match r_flags st, r_cbd st with
    | None, _ => (st, ROErr InvalidArgument)
    | Some _, Some _ => (st, ROErr InvalidArgument)
    | Some f, None =>
      match read_chunk_meta d f (r_bit st) (stream st) with
      | Ok (Some m, s') =>
        match new_cbd f m with
        | Ok c => (mkR (r_bytes st) (pos_after st s') (r_flags st) (Some c) (r_term st),
                   ROMeta (Some m))
        | Err k => (st, ROErr k)
        | Panic => (st, ROPanic)
        end
      | Ok (None, s') => (set_pos st (pos_after st s'), ROMeta None)
      | Err k => (st, ROErr k)
      | Panic => (st, ROPanic)
      end
    end
  | RBody =>
    if r_term st then (st, ROErr InvalidArgument) else
    match r_flags st, r_cbd st with
    | Some f, Some c =>
      match cbd_batch d f (total_bits st) c (pow2 64 - 1) true (stream st) with
      | Ok (xs, _, _, s') =>
        (mkR (r_bytes st) (pos_after st s') (r_flags st) None (r_term st), RONums xs)
      | Err k => (st, ROErr k)
      | Panic => (st, ROPanic)
      end
    | _, _ => (st, ROErr InvalidArgument)
    end
  | RSkip =>
    if r_term st then (st, ROErr InvalidArgument) else
    match r_cbd st with
    | None => (st, ROErr InvalidArgument)
    | Some c =>
      if c_body c * 8 <? nd_bproc (c_nd c) then (st, ROErr Corruption) else
      let target := r_bit st + (c_body c * 8 - nd_bproc (c_nd c)) in
      if target <=? total_bits st
      then (mkR (r_bytes st) target (r_flags st) None (r_term st), ROUnit)
      else (st, ROErr InsufficientData)
    end
  | RNext limit =>
    if r_term st then (st, RONone) else
    match r_flags st with
    | None =>
      match read_header d (r_bit st) (stream st) with
      | Ok (f, s') =>
        (mkR (r_bytes st) (pos_after st s') (Some f) (r_cbd st) (r_term st), ROItem (IFlags f))
      | Err InsufficientData => (st, RONone)
      | Err k => (st, ROErr k)
      | Panic => (st, ROPanic)
      end
    | Some f =>
      match r_cbd st with
      | None => next_meta d st f
      | Some c =>
        match cbd_batch d f (total_bits st) c limit false (stream st) with
        | Ok (xs, fin, c', s') =>
          if is_nil xs then
            if fin
            then (* a chunk holding no numbers: finish it and move on; if the next
                    metadata cannot be produced, nothing changes *)
              match next_meta d (mkR (r_bytes st) (pos_after st s') (r_flags st) None (r_term st)) f with
              | (st2, ROItem i) => (st2, ROItem i)
              | (_, out) => (st, out)
              end
            else (st, RONone)
          else
            (mkR (r_bytes st) (pos_after st s') (r_flags st)
                 (if fin then None else Some c') (r_term st),
             ROItem (INums xs))
        | Err k => (st, ROErr k)
        | Panic => (st, ROPanic)
        end
      end
    end
  | RFree =>
    let words := r_bit st / 64 in
    (mkR (skipn (N.to_nat (8 * words)) (r_bytes st)) (r_bit st - 64 * words)
         (r_flags st) (r_cbd st) (r_term st), ROUnit)
  | RSimple => (st, ROErr InvalidArgument)   (* defined below as simple_decompress *)
  end.

(* Decompressor::simple_decompress : header, then (metadata, body)* until the footer.
   On any error the decompressor is left as it was. *)
Fixpoint simple_loop (fuel : nat) (d : dtype) (st : rstate) (acc : list Z) : rstate * res (list Z) :=
  match fuel with
  | O => (st, Err InsufficientData)
  | S f =>
    match r_step d st RMeta with
    | (st1, ROMeta None) => (st1, Ok acc)
    | (st1, ROMeta (Some _)) =>
      match r_step d st1 RBody with
      | (st2, RONums xs) => simple_loop f d st2 (acc ++ xs)
      | (_, ROErr k) => (st, Err k)
      | (_, _) => (st, Panic)
      end
    | (_, ROErr k) => (st, Err k)
    | (_, _) => (st, Panic)
    end
  end.

Definition simple_decompress (d : dtype) (st : rstate) : rstate * res (list Z) :=
  match r_step d st RHeader with
  | (st1, ROFlags _) =>
    match simple_loop (S (length (r_bytes st))) d st1 [] with
    | (st2, Ok xs) => (st2, Ok xs)
    | (_, Err k) => (st, Err k)
    | (_, Panic) => (st, Panic)
    end
  | (_, ROErr k) => (st, Err k)
  | (_, _) => (st, Panic)
  end.

Definition r_do (d : dtype) (st : rstate) (o : rop) : rstate * rout :=
  match o with
  | RSimple =>
    match simple_decompress d st with
    | (st', Ok xs) => (st', RONums xs)
    | (st', Err k) => (st', ROErr k)
    | (st', Panic) => (st', ROPanic)
    end
  | _ => r_step d st o
  end.

Fixpoint r_run (d : dtype) (st : rstate) (ops : list rop) : rstate * list rout :=
  match ops with
  | [] => (st, [])
  | o :: t => let '(st1, out) := r_do d st o in
              let '(st2, outs) := r_run d st1 t in
              (st2, out :: outs)
  end.

(* auto_decompress: fresh decompressor, write everything, simple_decompress *)
Definition decode_file (d : dtype) (bytes : list N) : res (list Z) :=
  snd (simple_decompress d (mkR bytes 0 None None false)).

(* drain the iterator: call next until it yields nothing (or [fuel] items) *)
Fixpoint drain_iter (fuel : nat) (d : dtype) (limit : N) (st : rstate) : rstate * list rout :=
  match fuel with
  | O => (st, [])
  | S f =>
    match r_step d st (RNext limit) with
    | (st1, RONone) => (st1, [])
    | (st1, (ROErr _) as e) => (st1, [e])
    | (st1, ROPanic) => (st1, [ROPanic])
    | (st1, out) => let '(st2, outs) := drain_iter f d limit st1 in (st2, out :: outs)
    end
  end.
