(* Codec.v — format-level encoders/decoders shared by the writer (W) and reader (R)
   models: flags, varint, offsets (k / most-significant-bit-last rule), gcd fields,
   chunk metadata, prefix-tree validation, number blocks.
   Code-shaped: same case splits and error kinds as flags.rs, bit_writer.rs,
   bit_reader.rs, prefix.rs, gcd_utils.rs, chunk_metadata.rs, num_decompressor.rs.
   Definitions only. *)
From QCo.Model Require Import Base Consts DType.
Open Scope N_scope.

(* ---------------- flags (flags.rs) ---------------- *)
Record flags := mkFlags { f5 : bool; ford : N; fmin : bool; fgcd : bool }.

Definition flags_eqb (a b : flags) : bool :=
  Bool.eqb (f5 a) (f5 b) && (ford a =? ford b) && Bool.eqb (fmin a) (fmin b) && Bool.eqb (fgcd a) (fgcd b).

(* drop trailing false bits (rposition of the last true bit) *)
Fixpoint strip_trailing_false (l : bits) : bits :=
  match l with
  | [] => []
  | b :: t => match strip_trailing_false t with
              | [] => if b then [true] else []
              | t' => b :: t'
              end
  end.

(* TryInto<Vec<bool>> for &Flags *)
Definition flags_payload (f : flags) : res bits :=
  if Consts.MAX_DELTA_ENCODING_ORDER <? ford f then Err InvalidArgument
  else Ok (strip_trailing_false
             ([f5 f] ++ put Consts.BITS_TO_ENCODE_DELTA_ENCODING_ORDER (ford f) ++ [fmin f; fgcd f])).

(* Flags::write : 7 payload bits per byte, then a continuation bit; finish_byte *)
Fixpoint flag_chunks (fuel : nat) (p : bits) : bits :=
  match fuel with
  | O => []
  | S f => let c := firstn 7 p in
           match skipn 7 p with
           | [] => c
           | r => c ++ [true] ++ flag_chunks f r
           end
  end.
Definition write_flags (f : flags) : res bits :=
  do p <- flags_payload f; Ok (pad8 (flag_chunks (S (length p)) p)).

(* Flags::parse_from : gather payload bits *)
Fixpoint read_flag_payload (fuel : nat) (acc : bits) (s : bits) : res (bits * bits) :=
  match fuel with
  | O => Err InsufficientData
  | S f =>
    do '(c, s1) <- get_bits Consts.FLAG_PAYLOAD_BITS_PER_BYTE s;
    do '(b, s2) <- get1 s1;
    if b then read_flag_payload f (acc ++ c) s2 else Ok (acc ++ c, s2)
  end.

(* TryFrom<Vec<bool>> for Flags *)
Definition nth_bit (l : bits) (i : nat) : bool := nth i l false.
Definition flags_of_payload (p : bits) : res flags :=
  let f5 := nth_bit p 0 in
  let ord := bits_val [nth_bit p 1; nth_bit p 2; nth_bit p 3] in
  let fmin := nth_bit p 4 in
  let fgcd := nth_bit p 5 in
  if existsb (fun b => b) (skipn 6 p) then Err Compatibility
  else Ok (mkFlags f5 ord fmin fgcd).

Definition parse_flags (s : bits) : res (flags * bits) :=
  do '(p, s') <- read_flag_payload (S (length s)) [] s;
  do f <- flags_of_payload p;
  Ok (f, s').

Definition code_len_bits (f : flags) : N :=
  if f5 f then Consts.CODE_LEN_BITS_5 else Consts.CODE_LEN_BITS_4.

(* Flags::bits_to_encode_count, with the exact integer ceil(log2(n+1)) *)
Definition count_bits (f : flags) (n : N) : N :=
  if fmin f then N.log2_up (n + 1) else Consts.BITS_TO_ENCODE_N_ENTRIES.

(* flags the compressor writes for a config *)
Definition writer_flags (order : N) (use_gcds : bool) : flags :=
  mkFlags (negb (Consts.WRITER_USE_5_BIT =? 0)) order (negb (Consts.WRITER_USE_MIN_COUNT =? 0)) use_gcds.

(* ---------------- varint (bit_writer.rs / bit_reader.rs) ---------------- *)
(* continuation pairs for the bits of x above the jumpstart; [left] = how many
   more bits may be emitted before the 24-bit limit *)
Fixpoint varint_cont (left : nat) (x : N) : bits :=
  match left with
  | O => []                              (* all 24 bits written: no terminator *)
  | S l => if x =? 0 then [false]
           else true :: N.odd x :: varint_cont l (N.div2 x)
  end.
Definition write_varint (x j : N) : bits :=
  put j x ++ varint_cont (N.to_nat (Consts.BITS_TO_ENCODE_N_ENTRIES - j)) (N.shiftr x j).

Fixpoint read_varint_cont (left : nat) (i : N) (acc : N) (s : bits) : res (N * bits) :=
  match left with
  | O => Ok (acc, s)
  | S l =>
    do '(b, s1) <- get1 s;
    if b then
      do '(b2, s2) <- get1 s1;
      read_varint_cont l (i + 1) (if b2 then acc + pow2 i else acc) s2
    else Ok (acc, s1)
  end.
Definition read_varint (j : N) (s : bits) : res (N * bits) :=
  do '(v, s1) <- get j s;
  read_varint_cont (N.to_nat (Consts.BITS_TO_ENCODE_N_ENTRIES - j)) j v s1.

(* ---------------- prefixes ---------------- *)
Record prefix := mkPrefix {
  p_count : N;
  p_lower : N;            (* unsigned image *)
  p_upper : N;            (* unsigned image *)
  p_code : bits;
  p_jump : option N;
  p_gcd : N }.

Definition umax (w : N) : N := pow2 w - 1.

(* Prefix::k_info with the exact integer floor(log2(diff+1)) *)
Definition p_range (p : prefix) : N := (p_upper p - p_lower p) / p_gcd p.
Definition k_of_range (r : N) : N := N.log2 (r + 1).
Definition p_k (p : prefix) : N := k_of_range (p_range p).

(* compress_offset_bits_w_prefix *)
Definition write_offset (r : N) (off : N) : bits :=
  let k := k_of_range r in
  let upper_k := pow2 k - 1 in
  let lower_k := r - upper_k in
  put k off ++ (if (off <? lower_k) || (upper_k <? off) then [N.testbit off k] else []).

(* decompress_offset_dirty; w = U::BITS. Panic = arithmetic hazard in the real code
   (k_range - offset underflow; lower + offset*gcd overflow) *)
Definition read_offset (w : N) (p : prefix) (s : bits) : res (N * bits) :=
  let r := p_range p in
  let k := k_of_range r in
  do '(off, s1) <- get k s;
  do '(off', s2) <-
    (if k <? w then
       if r <? off then Panic
       else if pow2 k <=? r - off then
         do '(b, s2) <- get1 s1; Ok (if b then off + pow2 k else off, s2)
       else Ok (off, s1)
     else Ok (off, s1));
  let u := p_lower p + off' * p_gcd p in
  if u <=? umax w then Ok (u, s2) else Panic.

(* gcd_utils::gcd_bits_required with the exact integer ceil(log2 range) *)
Definition gcd_bits (range : N) : N := if range =? 0 then 0 else N.log2_up range.

Definition write_gcd (range g : N) : bits :=
  if g =? 1 then [false] else true :: put (gcd_bits range) (g - 1).

Definition read_gcd (range : N) (s : bits) : res (N * bits) :=
  do '(b, s1) <- get1 s;
  if b then
    do '(g1, s2) <- get (gcd_bits range) s1;
    if range <=? g1 then Err Corruption else Ok (g1 + 1, s2)
  else Ok (1, s1).

(* whether a prefix's range holds more than one value: bounds compared as unsigneds *)
Definition val_neq (pd : dtype) (lo up : N) : bool := negb (lo =? up).

(* gcd_utils::common_gcd_for_chunk_meta *)
Fixpoint common_gcd_scan (pd : dtype) (ps : list prefix) (g : option N) (share : bool)
  : option N * bool :=
  match ps with
  | [] => (g, share)
  | p :: t =>
    if val_neq pd (p_lower p) (p_upper p) then
      match g with
      | None => common_gcd_scan pd t (Some (p_gcd p)) share
      | Some _ => common_gcd_scan pd t g false
      end
    else common_gcd_scan pd t g share
  end.
Definition common_gcd (pd : dtype) (ps : list prefix) : option N :=
  match ps with
  | [] => None
  | _ => match common_gcd_scan pd ps None true with
         | (_, false) => None
         | (Some g, true) => Some g
         | (None, true) => Some 1
         end
  end.

(* gcd_utils::use_gcd_arithmetic *)
Definition use_gcd_arith (pd : dtype) (ps : list prefix) : bool :=
  existsb (fun p => (1 <? p_gcd p) && val_neq pd (p_lower p) (p_upper p)) ps.

(* number written raw in the metadata: value of type pd with unsigned image u *)
Definition write_unum (pd : dtype) (u : N) : res bits := write_num pd (of_u pd u).
Definition read_unum (pd : dtype) (s : bits) : res (N * bits) :=
  do '(x, s') <- read_num pd s; Ok (to_u pd x, s').

Definition write_jump (j : option N) : bits :=
  match j with
  | None => [false]
  | Some v => true :: put Consts.BITS_TO_ENCODE_JUMPSTART v
  end.

Fixpoint write_prefix_list (f : flags) (pd : dtype) (n : N) (common : option N)
         (ps : list prefix) : res bits :=
  match ps with
  | [] => Ok []
  | p :: t =>
    do lo <- write_unum pd (p_lower p);
    do up <- write_unum pd (p_upper p);
    do rest <- write_prefix_list f pd n common t;
    Ok (put (count_bits f n) (p_count p) ++ lo ++ up
        ++ put (code_len_bits f) (Nlen (p_code p)) ++ p_code p
        ++ write_jump (p_jump p)
        ++ (match common with
            | None => write_gcd (p_upper p - p_lower p) (p_gcd p)
            | Some _ => []
            end)
        ++ rest)
  end.

(* chunk_metadata.rs::write_prefixes *)
Definition write_prefixes (f : flags) (pd : dtype) (n : N) (ps : list prefix) : res bits :=
  let common := if fgcd f then common_gcd pd ps else Some 1 in
  let hdr_bits :=
      put Consts.BITS_TO_ENCODE_N_PREFIXES (Nlen ps)
      ++ (if fgcd f then
            match common with
            | None => [false]
            | Some g => true :: write_gcd (umax (ubits pd)) g
            end
          else []) in
  do body <- write_prefix_list f pd n common ps;
  Ok (hdr_bits ++ body).

Fixpoint read_prefix_list (f : flags) (pd : dtype) (n : N) (common : option N)
         (cnt : nat) (s : bits) : res (list prefix * bits) :=
  match cnt with
  | O => Ok ([], s)
  | S c =>
    do '(count, s1) <- get (count_bits f n) s;
    do '(lo, s2) <- read_unum pd s1;
    do '(up, s3) <- read_unum pd s2;
    if up <? lo then Err Corruption else
    do '(cl, s4) <- get (code_len_bits f) s3;
    do '(code, s5) <- get_bits cl s4;
    do '(hasj, s6) <- get1 s5;
    do '(jump, s7) <-
       (if hasj then do '(j, s7) <- get Consts.BITS_TO_ENCODE_JUMPSTART s6; Ok (Some j, s7)
        else Ok (None, s6));
    do '(g, s8) <-
       (match common with
        | Some g => Ok (g, s7)
        | None => read_gcd (up - lo) s7
        end);
    do '(rest, s9) <- read_prefix_list f pd n common c s8;
    Ok (mkPrefix count lo up code jump g :: rest, s9)
  end.

(* chunk_metadata.rs::parse_prefixes *)
Definition read_prefixes (f : flags) (pd : dtype) (n : N) (s : bits) : res (list prefix * bits) :=
  do '(np, s1) <- get Consts.BITS_TO_ENCODE_N_PREFIXES s;
  do '(common, s2) <-
     (if fgcd f then
        do '(b, s2) <- get1 s1;
        if b then do '(g, s3) <- read_gcd (umax (ubits pd)) s2; Ok (Some g, s3)
        else Ok (None, s2)
      else Ok (Some 1, s1));
  read_prefix_list f pd n common (N.to_nat np) s2.

(* ---------------- chunk metadata ---------------- *)
Record meta := mkMeta {
  m_n : N;
  m_body : N;               (* compressed_body_size in bytes *)
  m_moments : list Z;       (* values of type sdt d; empty when order = 0 *)
  m_table : list prefix }.

(* type of the prefixes of a chunk *)
Definition pdt (f : flags) (d : dtype) : dtype := if ford f =? 0 then d else sdt d.

Fixpoint write_moments (sd : dtype) (ms : list Z) : res bits :=
  match ms with
  | [] => Ok []
  | m :: t => do b <- write_num sd m; do r <- write_moments sd t; Ok (b ++ r)
  end.

Fixpoint read_moments (sd : dtype) (cnt : nat) (s : bits) : res (list Z * bits) :=
  match cnt with
  | O => Ok ([], s)
  | S c => do '(m, s1) <- read_num sd s;
           do '(r, s2) <- read_moments sd c s1;
           Ok (m :: r, s2)
  end.

(* ChunkMetadata::write_to (ends with finish_byte; the stream is byte aligned before) *)
Definition write_meta (f : flags) (d : dtype) (m : meta) : res bits :=
  do mo <- write_moments (sdt d) (m_moments m);
  do ps <- write_prefixes f (pdt f d) (m_n m) (m_table m);
  Ok (pad8 (put Consts.BITS_TO_ENCODE_N_ENTRIES (m_n m)
            ++ put Consts.BITS_TO_ENCODE_COMPRESSED_BODY_SIZE (m_body m)
            ++ mo ++ ps)).

(* drain_empty_byte: the stream's total length is a multiple of 8, so the number of
   padding bits is (length of what remains) mod 8 *)
Definition drain_pad (s : bits) : res bits :=
  let padn := N.to_nat (Nlen s mod 8) in
  if existsb (fun b => b) (firstn padn s) then Err Corruption
  else Ok (skipn padn s).

(* ChunkMetadata::parse_from followed by drain_empty_byte *)
Definition parse_meta (f : flags) (d : dtype) (s : bits) : res (meta * bits) :=
  do '(n, s1) <- get Consts.BITS_TO_ENCODE_N_ENTRIES s;
  do '(body, s2) <- get Consts.BITS_TO_ENCODE_COMPRESSED_BODY_SIZE s1;
  do '(mo, s3) <- (if ford f =? 0 then Ok ([], s2)
                   else read_moments (sdt d) (N.to_nat (ford f)) s2);
  do '(ps, s4) <- read_prefixes f (pdt f d) n s3;
  do s5 <- drain_pad s4;
  Ok (mkMeta n body mo ps, s5).

(* ---------------- prefix tree validation (validate_prefix_tree) ---------------- *)
Definition is_nil {A} (l : list A) : bool := match l with [] => true | _ => false end.
Fixpoint tails_with (b : bool) (codes : list bits) : list bits :=
  match codes with
  | [] => []
  | [] :: t => tails_with b t
  | (x :: c) :: t => if Bool.eqb x b then c :: tails_with b t else tails_with b t
  end.
(* the codes form a complete prefix-free binary tree *)
Fixpoint tree_ok (fuel : nat) (codes : list bits) : bool :=
  match codes with
  | [] => false
  | [[]] => true
  | _ => match fuel with
         | O => false
         | S f => negb (existsb is_nil codes)
                  && tree_ok f (tails_with false codes)
                  && tree_ok f (tails_with true codes)
         end
  end.
Definition max_code_len (ps : list prefix) : nat :=
  fold_right (fun p m => Nat.max (length (p_code p)) m) O ps.
Definition table_ok (ps : list prefix) : bool :=
  match ps with
  | [] => true
  | _ => tree_ok (S (max_code_len ps)) (map p_code ps)
  end.

(* Huffman search: the prefix whose code is a prefix of the stream.  (The real reader
   uses a tree of tables with strides of up to [stride] bits; on a complete prefix-free tree
   with the code fully available the result is the same.) *)
Fixpoint is_prefix_of (c s : bits) : bool :=
  match c, s with
  | [], _ => true
  | x :: c', y :: s' => Bool.eqb x y && is_prefix_of c' s'
  | _ :: _, [] => false
  end.
Fixpoint find_code (ps : list prefix) (s : bits) : option prefix :=
  match ps with
  | [] => None
  | p :: t => if is_prefix_of (p_code p) s then Some p else find_code t s
  end.
Definition read_code (ps : list prefix) (s : bits) : res (prefix * bits) :=
  match find_code ps s with
  | Some p => Ok (p, skipn (length (p_code p)) s)
  | None => Err InsufficientData
  end.

(* Huffman search as the real reader performs it (huffman_decoding.rs, bit_reader.rs
   read_prefix_table_idx): a tree of tables with strides of up to [stride] bits.  With
   plenty of data this is [read_code]; near the end of the available data the outcome depends on how
   many bits are left for the current stride and on where the 64-bit word boundary falls:
     - stride fits in the current word: min(stride, bits left) bits are read;
     - stride crosses into a word that exists: the whole stride is read (zero padding
       included);
     - stride crosses into a word that does not exist yet: the rest of this word is read,
       but the position is left a word too far, so the block fails for lack of data.
   A short read succeeds only if it ends exactly on a leaf.  [tb] is the number of bits
   held (words are aligned to bit 0 of the held bytes). *)
Fixpoint compatible (c b : bits) : bool :=
  match c, b with
  | x :: c', y :: b' => Bool.eqb x y && compatible c' b'
  | _, _ => true
  end.
(* the widest stride of the table tree: MAX_PREFIX_TABLE_SIZE_LOG (constants.rs), taken from
   the generated Consts.v (6 in the repository).  About its value the proofs use only the
   bounds stride_pos, stride_le_footer, stride_reach of Lemmas/CodecL.v. *)
Definition stride : nat := N.to_nat Consts.MAX_PREFIX_TABLE_SIZE_LOG.
Fixpoint tsearch (fuel : nat) (tb : N) (cands : list prefix) (dpt : nat) (s : bits) : res prefix :=
  match cands with
  | [p] => Ok p
  | _ =>
    match fuel with
    | O => Err InsufficientData
    | S f =>
      let t := Nat.min stride (max_code_len cands - dpt) in
      (* only the first 64 + stride bits matter: with that many or more bits left every stride
         is read in full wherever the word boundary is, so the position is not even computed
         then *)
      let a := length (firstn (64 + stride) s) in
      if Nat.eqb a 0 then Err InsufficientData else
      let j := if Nat.ltb a (64 + stride) then N.to_nat ((tb - Nlen s) mod 64) else O in
      let e := (64 - j)%nat in
      if negb (Nat.leb (t + j) 64) && negb (Nat.ltb e a) then
        (* the short read at the end of the last word leaves the reader's position a whole
           word too far, so the bounds check of whatever is read next fails *)
        Err InsufficientData
      else
      let bits_read := if Nat.leb (t + j) 64 then Nat.min t a else t in
      let idxbits := firstn t (firstn t s ++ repeat false t) in
      let cands' := filter (fun p => compatible (skipn dpt (p_code p)) idxbits) cands in
      if Nat.eqb bits_read t then tsearch f tb cands' (dpt + t) (skipn t s)
      else match cands' with
           | [p] => if Nat.eqb (length (p_code p)) (dpt + bits_read) then Ok p
                    else Err InsufficientData
           | _ => Err InsufficientData
           end
    end
  end.
Definition read_code_at (tb : N) (ps : list prefix) (s : bits) : res (prefix * bits) :=
  do p <- tsearch 33 tb ps 0 s;
  (* the next read is bounds-checked: a code found with the help of padding bits fails there *)
  if Nat.leb (length (p_code p)) (length (firstn 40 s)) then Ok (p, skipn (length (p_code p)) s)
  else Err InsufficientData.

(* ---------------- number blocks: writer side (compress_nums) ---------------- *)
Definition contains (p : prefix) (u : N) : bool := (p_lower p <=? u) && (u <=? p_upper p).
Definition find_prefix (ps : list prefix) (u : N) : option prefix := find (fun p => contains p u) ps.

Definition offset_of (p : prefix) (u : N) : N := (u - p_lower p) / p_gcd p.
Definition write_num_offset (p : prefix) (u : N) : bits := write_offset (p_range p) (offset_of p u).

(* how many of the leading elements of l are contained in p *)
Fixpoint run_len (p : prefix) (l : list N) : nat :=
  match l with
  | [] => O
  | u :: t => if contains p u then S (run_len p t) else O
  end.

(* encode the number sequence; Err InvalidArgument when a number has no prefix
   ("chunk compressor was not trained to include number") *)
Fixpoint write_body_fuel (fuel : nat) (ps : list prefix) (us : list N) : res bits :=
  match fuel with
  | O => Ok []
  | S f =>
    match us with
    | [] => Ok []
    | u :: t =>
      match find_prefix ps u with
      | None => Err InvalidArgument
      | Some p =>
        match p_jump p with
        | None =>
          do r <- write_body_fuel f ps t;
          Ok (p_code p ++ write_num_offset p u ++ r)
        | Some j =>
          let extra := run_len p t in
          let run := u :: firstn extra t in
          do r <- write_body_fuel f ps (skipn extra t);
          Ok (p_code p ++ write_varint (N.of_nat extra) j
              ++ flat_map (write_num_offset p) run ++ r)
        end
      end
    end
  end.
Definition write_body (ps : list prefix) (us : list N) : res bits :=
  do b <- write_body_fuel (length us) ps us; Ok (pad8 b).

(* ---------------- number blocks: reader side ---------------- *)
(* decompress_offsets: up to [reps] offsets of prefix p; on failure the reader stays at
   the start of the failing number.  Returns emitted numbers (in order), remaining
   stream and status. *)
Inductive status := SOk | SErr (k : ekind) | SPanic.

Fixpoint read_offsets (w : N) (p : prefix) (reps : nat) (s : bits) : list N * bits * status :=
  match reps with
  | O => ([], s, SOk)
  | S r =>
    match read_offset w p s with
    | Ok (u, s1) => let '(l, s2, st) := read_offsets w p r s1 in (u :: l, s2, st)
    | Err k => ([], s, SErr k)
    | Panic => ([], s, SPanic)
    end
  end.

Record nd_state := mkNd {
  nd_nproc : N;
  nd_bproc : N;
  nd_incomplete : option (prefix * N) }.

(* One call of decompress_unsigneds_limited_dirty (checked reads).
   Returns: emitted unsigneds, remaining stream, the `incomplete_prefix` afterwards,
   finished flag, status.  [n_left] = n - n_processed. *)
Record batch_out := mkBatch {
  b_nums : list N;
  b_rest : bits;
  b_incomplete : option (prefix * N);
  b_finished : bool;
  b_status : status }.

(* the block loop: [room] numbers still wanted in this batch *)
Fixpoint read_blocks (fuel : nat) (w tb : N) (ps : list prefix) (room : N) (s : bits)
  : list N * bits * option (prefix * N) * status :=
  match fuel with
  | O => ([], s, None, SOk)
  | S f =>
    if room =? 0 then ([], s, None, SOk) else
    match read_code_at tb ps s with
    | Err k => ([], s, None, SErr k)
    | Panic => ([], s, None, SPanic)
    | Ok (p, s1) =>
      match p_jump p with
      | None =>
        match read_offsets w p 1 s1 with
        | (l, s2, SOk) =>
            let '(l', s3, inc, st) := read_blocks f w tb ps (room - 1) s2 in
            (l ++ l', s3, inc, st)
        | (_, _, st) => ([], s, None, st)     (* block not started: stay at block start *)
        end
      | Some j =>
        match read_varint j s1 with
        | Err k => ([], s, None, SErr k)
        | Panic => ([], s, None, SPanic)
        | Ok (v, s2) =>
          let full := v + 1 in
          let reps := N.min full room in
          match read_offsets w p (N.to_nat reps) s2 with
          | (l, s3, SOk) =>
              if room <? full then (l, s3, Some (p, full - room), SOk)
              else
                let '(l', s4, inc, st) := read_blocks f w tb ps (room - reps) s3 in
                (l ++ l', s4, inc, st)
          | (l, s3, st) =>
              match l with
              | [] => ([], s, None, st)      (* nothing of the block decoded: rewind *)
              | _ => (l, s3, Some (p, full - Nlen l), st)
              end
          end
        end
      end
    end
  end.

Definition read_batch (w tb : N) (ps : list prefix) (n_left : N) (inc : option (prefix * N))
           (limit : N) (eoi : bool) (s : bits) : batch_out :=
  let batch_size := N.min n_left limit in
  let completed := n_left <=? limit in
  if batch_size =? 0 then mkBatch [] s inc completed SOk else
  let finish (l : list N) (s' : bits) (inc' : option (prefix * N)) (st : status) :=
      match st with
      | SOk => mkBatch l s' inc' completed SOk
      | SErr InsufficientData =>
          if eoi then mkBatch l s' inc' completed st
          else mkBatch l s' inc' false SOk
      | _ => mkBatch l s' inc' completed st
      end in
  match inc with
  | Some (p, remaining) =>
    let reps := N.min remaining batch_size in
    let '(l, s1, st) := read_offsets w p (N.to_nat reps) s in
    let rem' := remaining - Nlen l in
    let inc1 := if rem' =? 0 then None else Some (p, rem') in
    match st with
    | SOk =>
      let '(l2, s2, inc2, st2) :=
          read_blocks (N.to_nat (batch_size - Nlen l)) w tb ps (batch_size - Nlen l) s1 in
      finish (l ++ l2) s2 (match inc2 with Some _ => inc2 | None => inc1 end) st2
    | _ => finish l s1 inc1 st
    end
  | None =>
    let '(l, s1, inc1, st) := read_blocks (N.to_nat batch_size) w tb ps batch_size s in
    finish l s1 inc1 st
  end.

(* ---------------- delta encoding (delta_encoding.rs) ---------------- *)
(* first-order deltas of signed values of type sdt d *)
Fixpoint deltas1 (d : dtype) (l : list Z) : list Z :=
  match l with
  | a :: ((b :: _) as t) => s_sub d b a :: deltas1 d t
  | _ => []
  end.
Fixpoint deltas_n (d : dtype) (order : nat) (l : list Z) : list Z :=
  match order with
  | O => l
  | S o => deltas_n d o (deltas1 d l)
  end.
(* nth_order_moments: first element of each successive difference of the first
   `order` numbers; zero when exhausted *)
Fixpoint moments_of (d : dtype) (order : nat) (l : list Z) : list Z :=
  match order with
  | O => []
  | S o => match l with
           | [] => 0%Z :: moments_of d o []
           | a :: _ => a :: moments_of d o (deltas1 d l)
           end
  end.
Definition delta_moments (d : dtype) (order : N) (xs : list Z) : list Z :=
  moments_of d (N.to_nat order) (firstn (N.to_nat order) (map (to_s d) xs)).
Definition delta_unsigneds (d : dtype) (order : N) (xs : list Z) : list N :=
  map (to_u (sdt d)) (deltas_n d (N.to_nat order) (map (to_s d) xs)).

(* one step of reconstruct_nums: moments[o] += moments[o+1] for o < order-1;
   moments[order-1] += delta (if any) *)
Fixpoint advance_moments (d : dtype) (ms : list Z) (delta : option Z) : list Z :=
  match ms with
  | [] => []
  | [m] => [match delta with Some x => s_add d m x | None => m end]
  | m :: ((m2 :: _) as t) => s_add d m m2 :: advance_moments d t delta
  end.
(* produce [cnt] numbers; returns numbers (raw) and the updated moments *)
Fixpoint reconstruct (d : dtype) (cnt : nat) (ms : list Z) (deltas : list Z) : list Z * list Z :=
  match cnt with
  | O => ([], ms)
  | S c =>
    let x := of_s d (hd 0%Z ms) in
    let '(dl, rest) := match deltas with [] => (None, []) | a :: t => (Some a, t) end in
    let '(xs, ms') := reconstruct d c (advance_moments d ms dl) rest in
    (x :: xs, ms')
  end.
