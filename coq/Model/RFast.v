(* RFast.v — the COMPLETE decompress_unsigneds_limited_dirty of num_decompressor.rs as a
   program over the 64-bit-word BitReader (Words.v / RFile.v / RBody.v) and the literal
   HuffmanTable (Huff.v), including the UNCHECKED fast path:
       num_decompressor.rs   max_bits_read, max_bits_overshot and the three derived fields of
                             NumDecompressor::new (max_bits_per_num_block,
                             max_overshoot_per_num_block, use_gcd),
                             unchecked_decompress_offsets, unchecked_decompress_num_block,
                             decompress_unsigneds_limited_dirty (all of it: incomplete prefix,
                             the `max_bits_per_num_block == 0` branch, the guarded `loop` of
                             unchecked blocks, the checked `while`, mark_insufficient)
       bit_reader.rs         bits_remaining, unchecked_read_one, unchecked_read_diff,
                             unchecked_read_varint
       gcd_utils.rs          use_gcd_arithmetic, TrivialGcdOp / GeneralGcdOp ::get_diff
       prefix.rs             PrefixDecompressionInfo.most_significant
   call by call, with the same widths, the same order and the same state updates.  The
   checked parts (decompress_offsets, decompress_num_block, limit_reps, mark_insufficient)
   are the definitions of RBody.v; the unchecked table walk is Huff.hsearch_unchecked.

   State.  As in RBody.v: the reader is (words, total_bits) = [ws] [tb] with position
   [(i, j)] : rpos; state.incomplete_prefix is threaded as [inc]; the numbers pushed by a
   call are returned in order and [room] = batch_size - unsigneds.len() at the call.

   Panics.  Everything that panics in the Rust is [Panic] (status [SPanic] at the top):
     - `self.words[self.i]` out of bounds: EVERY `unchecked_word()` of the unchecked reads
       goes through Huff.rd_word_chk, which is Panic for i >= words.len().  This is the
       memory-safety content of the fast path (RFastL.rfa_batch_in_bounds);
     - `total_bits - bit_idx` underflow in bits_remaining() (debug build; a release build
       wraps to a huge count);
     - `p.k_range - offset` underflow, `offset * gcd` and `lower + _` overflow (debug build),
       as in RBody.rb_offset_dirty;
     - `temp[0]` on an empty `temp`;
     - the panics of the table walk (Huff.v).
   None of them is reachable under the hypotheses of RFastL.rfa_batch_eq.

   The final `compressed_body_size` consistency check is NOT in this function: it is made
   by the caller decompress_unsigneds_limited (Reader.nd_batch), after drain_empty_byte.

   Nothing below converts the words to a bit list or calls a bit-list decoder of Codec.v /
   Fast.v; that the two levels agree is Lemmas/RFastL.v.  Definitions only, executable,
   total. *)
From Coq Require Import List NArith Bool.
From QCo.Model Require Import Base Consts Codec Fast Words Huff RFile RBody.
Import ListNotations.
Open Scope N_scope.

(* ---------------- NumDecompressor::new: the fields the fast path uses ---------------- *)
(* fn max_bits_read / fn max_bits_overshot are Fast.max_bits_read / Fast.max_bits_overshot
   (already literal: prefix_bits + max_jumpstart_bits + max_reps * max_bits_per_offset, and
   `(MAX_PREFIX_TABLE_SIZE_LOG - 1).saturating_sub(k)` or 0 for the empty code).
     prefixes.iter().map(max_bits_read).max().unwrap_or(usize::MAX)
     prefixes.iter().map(max_bits_overshot).max().unwrap_or(usize::MAX) *)
Definition rfa_max_bits_per_num_block (w : N) (prefixes : list prefix) : N :=
  match max_bits_block w prefixes with Some m => m | None => usize_max end.
Definition rfa_max_overshoot_per_num_block (prefixes : list prefix) : N :=
  match max_overshoot prefixes with Some m => m | None => usize_max end.

(* gcd_utils::use_gcd_arithmetic:
     prefixes.iter().any(|p| p.gcd > ONE && p.upper.to_unsigned() != p.lower.to_unsigned()) *)
Definition rfa_use_gcd (prefixes : list prefix) : bool :=
  existsb (fun p => (1 <? p_gcd p) && negb (p_upper p =? p_lower p)) prefixes.

(* PrefixDecompressionInfo.most_significant:
     if k == T::PHYSICAL_BITS { ZERO } else { ONE << k }
   [phys] = T::PHYSICAL_BITS.  (For k = U::BITS <> PHYSICAL_BITS the Rust shift overflows
   when the table is built; the field is then never used, the guard `p.k < U::BITS` comes
   first.) *)
Definition rfa_most_significant (phys : N) (p : prefix) : N :=
  if p_k p =? phys then 0 else N.shiftl 1 (p_k p).

(* GcdOp::get_diff(offset, gcd): TrivialGcdOp returns the offset, GeneralGcdOp
   `offset * gcd` (U overflow = Panic).  [w] = U::BITS. *)
Definition rfa_get_diff (w : N) (use_gcd : bool) (offset gcd : N) : res N :=
  if use_gcd then
    let prod := offset * gcd in
    if umax w <? prod then Panic else Ok prod
  else Ok offset.

(* ---------------- BitReader: the unchecked reads, with the index checks ---------------- *)
(* bits_remaining(): total_bits - bit_idx() *)
Definition rfa_bits_remaining (tb : N) (st : rpos) : res N :=
  if tb <? rb_bit_idx st then Panic else Ok (tb - rb_bit_idx st).

(* unchecked_read_one:
     self.refresh_if_needed();
     let res = bits::bit_from_word(self.unchecked_word(), self.j);
     self.j += 1; *)
Definition rfa_unchecked_read_one (ws : list N) (st : rpos) : res (bool * rpos) :=
  let '(i, j) := rd_refresh (fst st) (snd st) in
  do word <- rd_word_chk ws i;
  Ok (bit_from_word word j, (i, j + 1)).

(* the `while remaining >= WORD_SIZE` loop of unchecked_read_diff (Words.rd_diff_loop_u
   with the index check) *)
Fixpoint rfa_diff_loop (ub : N) (fuel : nat) (ws : list N) (i remaining res : N)
  : Base.res (N * N * N) :=
  match fuel with
  | O => Ok (i, remaining, res)
  | S f =>
    if WORD_SIZE <=? remaining then
      let i := i + 1 in
      let remaining := remaining - WORD_SIZE in
      do word <- rd_word_chk ws i;
      rfa_diff_loop ub f ws i remaining
        (N.lor res (trunc_u ub (N.shiftl (trunc_u ub word) remaining)))
    else Ok (i, remaining, res)
  end.

(* unchecked_read_diff::<U>(n), U::BITS = ub (Words.rd_unchecked_read_diff_u with the index
   checks; RFastL.rfa_unchecked_read_diff_in_bounds) *)
Definition rfa_unchecked_read_diff (ub : N) (ws : list N) (st : rpos) (n : N)
  : res (N * rpos) :=
  if n =? 0 then Ok (0, (fst st, snd st)) else
  let '(i, j) := rd_refresh (fst st) (snd st) in
  let n_plus_j := n + j in
  if n_plus_j <=? WORD_SIZE then
    let shift := WORD_SIZE - n_plus_j in
    do word <- rd_word_chk ws i;
    Ok (trunc_u ub (N.shiftr (N.land word (N.shiftr usize_max j)) shift), (i, n_plus_j))
  else
    let remaining := n_plus_j - WORD_SIZE in
    do word <- rd_word_chk ws i;
    let res := trunc_u ub (N.shiftl (trunc_u ub (N.land word (N.shiftr usize_max j)))
                                    remaining) in
    do '(i, remaining, res) <-
       rfa_diff_loop ub (N.to_nat (remaining / WORD_SIZE)) ws i remaining res;
    if 0 <? remaining then
      let i := i + 1 in
      let shift := WORD_SIZE - remaining in
      do word <- rd_word_chk ws i;
      Ok (N.lor res (trunc_u ub (N.shiftr word shift)), (i, remaining))
    else Ok (res, (i, WORD_SIZE)).

(* unchecked_read_varint(jumpstart):
     let mut res = self.unchecked_read_diff::<u64>(jumpstart) as usize;
     for i in jumpstart..BITS_TO_ENCODE_N_ENTRIES {
       if self.unchecked_read_one() { if self.unchecked_read_one() { res |= 1 << i } }
       else { break; }
     } *)
Fixpoint rfa_u_varint_loop (cnt : nat) (ws : list N) (i res : N) (st : rpos)
  : Base.res (N * rpos) :=
  match cnt with
  | O => Ok (res, st)
  | S c =>
    do '(more, st) <- rfa_unchecked_read_one ws st;
    if more then
      do '(b, st) <- rfa_unchecked_read_one ws st;
      rfa_u_varint_loop c ws (i + 1) (if b then N.lor res (N.shiftl 1 i) else res) st
    else Ok (res, st)                                                         (* break *)
  end.
Definition rfa_unchecked_read_varint (ws : list N) (st : rpos) (jumpstart : N)
  : res (N * rpos) :=
  do '(res, st) <- rfa_unchecked_read_diff 64 ws st jumpstart;
  rfa_u_varint_loop (N.to_nat (Consts.BITS_TO_ENCODE_N_ENTRIES - jumpstart)) ws jumpstart res st.

(* ---------------- unchecked_decompress_offsets ---------------- *)
(* one iteration of the general loop:
     let mut offset = reader.unchecked_read_diff(p.k);
     if p.k < U::BITS &&
       p.k_range - offset >= p.most_significant &&
       reader.unchecked_read_one() {
       offset |= p.most_significant;
     }
     let unsigned = p.lower_unsigned + GcdOp::get_diff(offset, p.gcd);
     unsigneds.push(unsigned); *)
Definition rfa_u_offset (w phys : N) (use_gcd : bool) (ws : list N) (p : prefix) (st : rpos)
  : res (N * rpos) :=
  let k := p_k p in
  let most_significant := rfa_most_significant phys p in
  do '(offset, st) <- rfa_unchecked_read_diff w ws st k;
  do '(offset, st) <-
     (if k <? w then
        if p_range p <? offset then Panic                    (* k_range - offset *)
        else if most_significant <=? p_range p - offset then
          do '(b, st) <- rfa_unchecked_read_one ws st;         (* && short-circuits *)
          Ok (if b then N.lor offset most_significant else offset, st)
        else Ok (offset, st)
      else Ok (offset, st));
  do diff <- rfa_get_diff w use_gcd offset (p_gcd p);
  let unsigned := p_lower p + diff in
  if umax w <? unsigned then Panic else                      (* p.lower_unsigned + _ *)
  Ok (unsigned, st).

(* `for _ in 0..reps { ... }` *)
Fixpoint rfa_u_offsets_loop (w phys : N) (use_gcd : bool) (ws : list N) (p : prefix)
         (reps : nat) (st : rpos) : res (list N * rpos) :=
  match reps with
  | O => Ok ([], st)
  | S r =>
    do '(u, st) <- rfa_u_offset w phys use_gcd ws p st;
    do '(l, st) <- rfa_u_offsets_loop w phys use_gcd ws p r st;
    Ok (u :: l, st)
  end.

(*   if reps > 1 && p.k == 0 {
       for _ in 0..reps { unsigneds.push(p.lower_unsigned); }
     } else { for _ in 0..reps { ... } } *)
Definition rfa_u_offsets (w phys : N) (use_gcd : bool) (ws : list N) (p : prefix)
           (reps : N) (st : rpos) : res (list N * rpos) :=
  if (1 <? reps) && (p_k p =? 0) then Ok (repeat (p_lower p) (N.to_nat reps), st)
  else rfa_u_offsets_loop w phys use_gcd ws p (N.to_nat reps) st.

(* ---------------- unchecked_decompress_num_block ---------------- *)
(*   let p = self.huffman_table.unchecked_search_with_reader(reader);
     match p.run_len_jumpstart {
       None => unchecked_decompress_offsets::<U, GcdOp>(reader, unsigneds, p, 1),
       Some(jumpstart) => {
         let full_reps = reader.unchecked_read_varint(jumpstart) + 1;
         let reps = self.limit_reps(p, full_reps, batch_size - unsigneds.len());
         unchecked_decompress_offsets::<U, GcdOp>(reader, unsigneds, p, reps);
       },
     };
   [room] = batch_size - unsigneds.len().  Returns (numbers pushed, position,
   incomplete_prefix afterwards). *)
Definition rfa_u_num_block (w phys : N) (use_gcd : bool) (ws : list N) (table : htable)
           (inc : option (prefix * N)) (room : N) (st : rpos)
  : res (list N * rpos * option (prefix * N)) :=
  do '(p, st) <- hsearch_unchecked ws (fst st) (snd st) table;
  match p_jump p with
  | None =>
    do '(l, st) <- rfa_u_offsets w phys use_gcd ws p 1 st;
    Ok (l, st, inc)
  | Some jumpstart =>
    do '(v, st) <- rfa_unchecked_read_varint ws st jumpstart;
    let full_reps := v + 1 in
    let '(inc, reps) := rb_limit_reps inc p full_reps room in
    do '(l, st) <- rfa_u_offsets w phys use_gcd ws p reps st;
    Ok (l, st, inc)
  end.

(* ---------------- the unchecked blocks of one round ---------------- *)
(*   let mut block_idx = 0;
     while block_idx < guaranteed_safe_num_blocks && unsigneds.len() < batch_size {
       self.unchecked_decompress_num_block::<GcdOp>(reader, unsigneds, batch_size);
       block_idx += 1;
     }
   [m] = guaranteed_safe_num_blocks - block_idx.  Returns (numbers pushed, position,
   incomplete_prefix, room afterwards). *)
Fixpoint rfa_u_blocks (m : nat) (w phys : N) (use_gcd : bool) (ws : list N) (table : htable)
         (inc : option (prefix * N)) (room : N) (st : rpos)
  : res (list N * rpos * option (prefix * N) * N) :=
  match m with
  | O => Ok ([], st, inc, room)
  | S m' =>
    if room =? 0 then Ok ([], st, inc, room) else
    do '(l, st, inc) <- rfa_u_num_block w phys use_gcd ws table inc room st;
    do '(l', st, inc, room) <-
       rfa_u_blocks m' w phys use_gcd ws table inc (room - Nlen l) st;
    Ok (l ++ l', st, inc, room)
  end.

(* ---------------- the guarded `loop` ---------------- *)
(*   loop {
       let remaining_unsigneds = batch_size - unsigneds.len();
       let guaranteed_safe_num_blocks = min(
         remaining_unsigneds,
         reader.bits_remaining().saturating_sub(self.max_overshoot_per_num_block) /
           self.max_bits_per_num_block,
       );
       if guaranteed_safe_num_blocks >= UNCHECKED_NUM_THRESHOLD { <unchecked blocks> }
       else { break; }
     }
   [mb] = max_bits_per_num_block (nonzero here), [mo] = max_overshoot_per_num_block; N
   subtraction saturates.  Every round that does not break pushes at least one number
   (30 <= safe <= room, and a block pushes reps >= 1 numbers), so the loop runs at most
   [room] + 1 times: [fuel] only makes the function total (as in Fast.fast_loop). *)
Fixpoint rfa_fast_loop (fuel : nat) (w phys : N) (use_gcd : bool) (ws : list N) (tb : N)
         (table : htable) (mb mo : N) (inc : option (prefix * N)) (room : N) (st : rpos)
  : res (list N * rpos * option (prefix * N) * N) :=
  match fuel with
  | O => Ok ([], st, inc, room)
  | S f =>
    let remaining_unsigneds := room in
    do bits_remaining <- rfa_bits_remaining tb st;
    let guaranteed_safe_num_blocks :=
        N.min remaining_unsigneds ((bits_remaining - mo) / mb) in
    if Consts.UNCHECKED_NUM_THRESHOLD <=? guaranteed_safe_num_blocks then
      do '(l, st, inc, room) <-
         rfa_u_blocks (N.to_nat guaranteed_safe_num_blocks) w phys use_gcd ws table inc room st;
      do '(l', st, inc, room) <- rfa_fast_loop f w phys use_gcd ws tb table mb mo inc room st;
      Ok (l ++ l', st, inc, room)
    else Ok ([], st, inc, room)                                               (* break *)
  end.

(* ---------------- everything after the incomplete-prefix part ---------------- *)
(*   if self.max_bits_per_num_block == 0 {
       let mut temp = Vec::with_capacity(1);
       self.unchecked_decompress_num_block::<GcdOp>(reader, &mut temp, 1);
       let constant_num = temp[0];
       while unsigneds.len() < batch_size { unsigneds.push(constant_num); }
     } else {
       loop { ... }
       while unsigneds.len() < batch_size {
         match self.decompress_num_block(reader, unsigneds, batch_size) { ... }
       }
     }
   [room] = batch_size - unsigneds.len() on entry (0 when the incomplete prefix filled the
   batch: the constant branch still decodes its block then).  Returns (numbers pushed,
   position, incomplete_prefix, status); the checked `while` is RBody.rb_blocks. *)
Definition rfa_blocks (w phys : N) (use_gcd : bool) (ws : list N) (tb : N) (table : htable)
           (mb mo : N) (inc : option (prefix * N)) (room : N) (st : rpos)
  : list N * rpos * option (prefix * N) * status :=
  if mb =? 0 then
    match rfa_u_num_block w phys use_gcd ws table inc 1 st with
    | Ok (temp, st1, inc1) =>
      match temp with
      | constant_num :: _ => (repeat constant_num (N.to_nat room), st1, inc1, SOk)
      | [] => ([], st1, inc1, SPanic)                                 (* temp[0] *)
      end
    | Err k => ([], st, inc, SErr k)              (* no unchecked operation returns Err *)
    | Panic => ([], st, inc, SPanic)
    end
  else
    match rfa_fast_loop (S (N.to_nat room)) w phys use_gcd ws tb table mb mo inc room st with
    | Ok (l, st1, inc1, room1) =>
      let '(l', st2, inc2, s) := rb_blocks (N.to_nat room1) w ws tb table inc1 room1 st1 in
      (l ++ l', st2, inc2, s)
    | Err k => ([], st, inc, SErr k)              (* no unchecked operation returns Err *)
    | Panic => ([], st, inc, SPanic)
    end.

(* ---------------- decompress_unsigneds_limited_dirty, complete ---------------- *)
(* RBody.rb_batch with the block part replaced by [rfa_blocks]:
     let batch_size = min(self.n - self.state.n_processed, limit);
     let completed_body = limit >= self.n - self.state.n_processed;
     if batch_size == 0 { return Ok(numbers); }
     if let Some(IncompletePrefix { prefix, remaining_reps }) = self.state.incomplete_prefix {
       let reps = min(remaining_reps, batch_size);
       let incomplete_res = self.decompress_offsets(reader, unsigneds, prefix, reps);
       let remaining_reps = remaining_reps - unsigneds.len();
       if remaining_reps == 0 { self.state.incomplete_prefix = None; }
       else { ...remaining_reps = remaining_reps; }
       match incomplete_res { Ok(_) => (), Err(e) if InsufficientData =>
         return mark_insufficient(numbers, e), Err(e) => return Err(e) };
     }
     <rfa_blocks>
     Ok(numbers)
   [table] [mb] [mo] [use_gcd] are the fields huffman_table, max_bits_per_num_block,
   max_overshoot_per_num_block, use_gcd of the NumDecompressor (use_gcd selects the GcdOp
   instance); [n_left] = self.n - self.state.n_processed; [eoi] =
   error_on_insufficient_data.  Same output shape as RBody.rb_batch. *)
Definition rfa_batch (w phys : N) (ws : list N) (tb : N) (table : htable) (mb mo : N)
           (use_gcd : bool) (n_left : N) (inc : option (prefix * N)) (limit : N) (eoi : bool)
           (st : rpos) : rb_out :=
  let batch_size := N.min n_left limit in
  let completed_body := n_left <=? limit in
  if batch_size =? 0 then mkRb [] st inc completed_body SOk else
  match inc with
  | Some (prefix, remaining_reps) =>
    let reps := N.min remaining_reps batch_size in
    let '(l, st1, s) := rb_offsets w ws tb prefix (N.to_nat reps) st in
    let remaining_reps' := remaining_reps - Nlen l in
    let inc1 := if remaining_reps' =? 0 then None else Some (prefix, remaining_reps') in
    match s with
    | SOk =>
      let '(l2, st2, inc2, s2) :=
          rfa_blocks w phys use_gcd ws tb table mb mo inc1 (batch_size - Nlen l) st1 in
      rb_finish completed_body eoi (l ++ l2) st2 inc2 s2
    | _ => rb_finish completed_body eoi l st1 inc1 s
    end
  | None =>
    let '(l, st1, inc1, s) :=
        rfa_blocks w phys use_gcd ws tb table mb mo None batch_size st in
    rb_finish completed_body eoi l st1 inc1 s
  end.

(* ---------------- NumDecompressor::new + one call, on freshly loaded bytes ---------------- *)
(* BitWords::from(bytes), BitReader::from, seek_to(bit_idx); HuffmanTable::from(prefixes)
   and the three derived fields as NumDecompressor::new computes them *)
Definition rfa_batch_bytes (w phys : N) (prefixes : list prefix) (bytes : list N) (bit_idx : N)
           (n_left : N) (inc : option (prefix * N)) (limit : N) (eoi : bool) : res rb_out :=
  let '(ws, tb) := bw_extend [] 0 bytes in
  do table <- hfrom w prefixes;
  Ok (rfa_batch w phys ws tb table
                (rfa_max_bits_per_num_block w prefixes)
                (rfa_max_overshoot_per_num_block prefixes)
                (rfa_use_gcd prefixes)
                n_left inc limit eoi (rb_seek_to bit_idx)).
