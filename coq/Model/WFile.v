(* WFile.v — the compressor as a program over the 64-bit-word BitWriter (Words.v):
   the sequence of BitWriter calls made by Compressor::header / chunk / footer /
   drain_bytes (compressor.rs), Flags::write (flags.rs), ChunkMetadata::write_to and
   write_prefixes (chunk_metadata.rs), DeltaMoments::write_to (delta_encoding.rs),
   NumberLike::write_to (data_types/mod.rs), gcd_utils::write_gcd and
   TrainedChunkCompressor::compress_nums / compress_offset_bits_w_prefix, call by call,
   with the same widths, the same order, the compressed-body-size placeholder and its
   back-patch by overwrite_usize.

   Pure computations that write nothing are shared with Codec.v / Writer.v: the flag
   payload (TryInto<Vec<bool>>), count_bits, code_len_bits, common_gcd, gcd_bits,
   use_gcd_arith, k_of_range / p_range (Prefix::k_info), run_len (the `reps` loop),
   to_bytes / of_u, chunk_unsigneds / chunk_moments, find_prefix.

   Every [wf_write_xxx] below is built from the Words.v operations only; none of them
   calls the bit-list encoder [write_xxx] of Codec.v.  That the two agree is
   Lemmas/WFileL.v.  Definitions only. *)
From Coq Require Import List NArith ZArith Bool.
From QCo.Model Require Import Base Consts DType Codec Words Writer.
Import ListNotations.
Open Scope N_scope.

(* BitWriter::write_aligned_byte *)
Definition wf_aligned_byte (w : wr) (b : N) : res wr := wr_write_aligned_bytes w [b].

(* NumberLike::write_to : writer.write(&bits::bytes_to_bits(self.to_bytes()))
   (to_bytes may panic for the 96-bit timestamps: DType.to_bytes) *)
Definition wf_write_num (w : wr) (d : dtype) (x : Z) : res wr :=
  do bs <- to_bytes d x; Ok (wr_write w (bytes_to_bits bs)).

(* ---------------- Flags::write (flags.rs) ---------------- *)
(* for i in 0..(bools.len() / 7) + 1 {
     let start = i * 7; let end = min(start + 7, bools.len());
     writer.write(&bools[start..end]);
     if end < bools.len() { writer.write_one(true); } }
   [cnt] = iterations left *)
Fixpoint wf_flags_loop (cnt : nat) (i : N) (bools : bits) (w : wr) : wr :=
  match cnt with
  | O => w
  | S c =>
    let start := i * 7 in
    let end_ := N.min (start + 7) (Nlen bools) in
    let w := wr_write w (firstn (N.to_nat (end_ - start)) (skipn (N.to_nat start) bools)) in
    let w := if end_ <? Nlen bools then wr_write_one w true else w in
    wf_flags_loop c (i + 1) bools w
  end.

Definition wf_write_flags (w : wr) (f : flags) : res wr :=
  do bools <- flags_payload f;
  let w := wf_flags_loop (N.to_nat (Nlen bools / 7 + 1)) 0 bools w in
  Ok (wr_finish_byte w).

(* ---------------- Compressor::header ---------------- *)
Definition wf_header (w : wr) (d : dtype) (f : flags) : res wr :=
  do validated <- flags_payload f;      (* let _: Vec<bool> = (&self.flags).try_into()?; *)
  do w <- wr_write_aligned_bytes w Consts.MAGIC_HEADER;
  do w <- wf_aligned_byte w (hdr d);
  wf_write_flags w f.

(* ---------------- gcd_utils::write_gcd ---------------- *)
Definition wf_write_gcd (w : wr) (range g : N) : wr :=
  let nontrivial := negb (g =? 1) in
  let w := wr_write_one w nontrivial in
  if nontrivial then wr_write_diff w (g - 1) (gcd_bits range) else w.

(* ---------------- chunk_metadata.rs::write_prefixes ---------------- *)
Definition wf_write_jump (w : wr) (j : option N) : wr :=
  match j with
  | None => wr_write_one w false
  | Some v => wr_write_usize (wr_write_one w true) v Consts.BITS_TO_ENCODE_JUMPSTART
  end.

(* the `for pref in prefixes` loop; bounds are held as unsigned images, the value of type
   T written is from_unsigned of them (as in Codec.write_unum) *)
Fixpoint wf_write_prefix_list (w : wr) (f : flags) (pd : dtype) (n : N) (common : option N)
         (ps : list prefix) : res wr :=
  match ps with
  | [] => Ok w
  | p :: t =>
    let w := wr_write_usize w (p_count p) (count_bits f n) in
    do w <- wf_write_num w pd (of_u pd (p_lower p));
    do w <- wf_write_num w pd (of_u pd (p_upper p));
    let w := wr_write_usize w (Nlen (p_code p)) (code_len_bits f) in
    let w := wr_write w (p_code p) in
    let w := wf_write_jump w (p_jump p) in
    let w := match common with
             | None => wf_write_gcd w (p_upper p - p_lower p) (p_gcd p)
             | Some _ => w
             end in
    wf_write_prefix_list w f pd n common t
  end.

Definition wf_write_prefixes (w : wr) (f : flags) (pd : dtype) (n : N) (ps : list prefix)
  : res wr :=
  let w := wr_write_usize w (Nlen ps) Consts.BITS_TO_ENCODE_N_PREFIXES in
  let '(w, common) :=
    if fgcd f then
      let c := common_gcd pd ps in
      let w := wr_write_one w (match c with Some _ => true | None => false end) in
      (match c with
       | Some g => wf_write_gcd w (umax (ubits pd)) g
       | None => w
       end, c)
    else (w, Some 1) in
  wf_write_prefix_list w f pd n common ps.

(* ---------------- DeltaMoments::write_to ---------------- *)
Fixpoint wf_write_moments (w : wr) (sd : dtype) (ms : list Z) : res wr :=
  match ms with
  | [] => Ok w
  | m :: t => do w <- wf_write_num w sd m; wf_write_moments w sd t
  end.

(* ---------------- ChunkMetadata::write_to ---------------- *)
(* PrefixMetadata::Simple is the record with no moments (delta order 0) *)
Definition wf_write_meta (w : wr) (f : flags) (d : dtype) (m : meta) : res wr :=
  let w := wr_write_usize w (m_n m) Consts.BITS_TO_ENCODE_N_ENTRIES in
  let w := wr_write_usize w (m_body m) Consts.BITS_TO_ENCODE_COMPRESSED_BODY_SIZE in
  do w <- wf_write_moments w (sdt d) (m_moments m);
  do w <- wf_write_prefixes w f (pdt f d) (m_n m) (m_table m);
  Ok (wr_finish_byte w).

(* ---------------- TrainedChunkCompressor ---------------- *)
(* bits::bits_to_usize of a Huffman code (PrefixCompressionInfo::code); code lengths are
   below 64, so nothing is lost in the usize *)
Definition bits_to_usize (c : bits) : N := bits_val c.

(* GcdOperator::get_offset: GeneralGcdOp divides, TrivialGcdOp does not *)
Definition gcd_get_offset (general : bool) (diff g : N) : N :=
  if general then diff / g else diff.

(* compress_offset_bits_w_prefix; k, only_k_bits_lower, only_k_bits_upper are
   Prefix::k_info (Codec.p_range / k_of_range) *)
Definition wf_write_offset (w : wr) (general : bool) (p : prefix) (u : N) : wr :=
  let r := p_range p in
  let k := k_of_range r in
  let only_k_bits_upper := pow2 k - 1 in
  let only_k_bits_lower := r - only_k_bits_upper in
  let off := gcd_get_offset general (u - p_lower p) (p_gcd p) in
  let w := wr_write_diff w off k in
  if (off <? only_k_bits_lower) || (only_k_bits_upper <? off)
  then wr_write_one w (0 <? N.land off (N.shiftl 1 k))
  else w.

(* compress_nums: the `while i < unsigneds.len()` loop on the not yet encoded suffix.
   [search] is CompressionTable::search. *)
Fixpoint wf_body_loop (fuel : nat) (search : N -> option prefix) (general : bool)
         (w : wr) (us : list N) : res wr :=
  match fuel with
  | O => Ok w
  | S fl =>
    match us with
    | [] => Ok w
    | u :: t =>
      match search u with
      | None => Err InvalidArgument
      | Some p =>
        let w := wr_write_usize w (bits_to_usize (p_code p)) (Nlen (p_code p)) in
        match p_jump p with
        | None => wf_body_loop fl search general (wf_write_offset w general p u) t
        | Some jumpstart =>
          let extra := run_len p t in                       (* reps - 1 *)
          do w <- wr_write_varint w (N.of_nat extra) jumpstart;
          let w := fold_left (fun w u' => wf_write_offset w general p u')
                             (u :: firstn extra t) w in     (* skip(i).take(reps) *)
          wf_body_loop fl search general w (skipn extra t)
        end
      end
    end
  end.

(* trained_compress_chunk_nums, with the table lookup given *)
Definition wf_write_body_with (search : N -> option prefix) (w : wr) (pd : dtype)
           (ps : list prefix) (us : list N) : res wr :=
  do w <- wf_body_loop (length us) search (use_gcd_arith pd ps) w us;
  Ok (wr_finish_byte w).

(* lookup by the specification function ... *)
Definition wf_write_body (w : wr) (pd : dtype) (ps : list prefix) (us : list N) : res wr :=
  wf_write_body_with (find_prefix ps) w pd ps us.
(* ... and by the transcription of CompressionTable (for a table already sorted by upper
   bound; WordsL.ct_search_correct relates the two) *)
Definition wf_write_body_ct (w : wr) (pd : dtype) (ps : list prefix) (us : list N) : res wr :=
  wf_write_body_with (ct_search (umax (ubits pd)) ps) w pd ps us.

(* ---------------- Compressor::chunk (after train_prefixes) ---------------- *)
Definition wf_chunk_with (body : wr -> dtype -> list prefix -> list N -> res wr)
           (w : wr) (d : dtype) (f : flags) (table : list prefix) (xs : list Z) : res wr :=
  let us := chunk_unsigneds d (ford f) xs in
  do w <- wf_aligned_byte w Consts.MAGIC_CHUNK_BYTE;
  let pre_meta_bit_idx := wr_bit_size w in
  let metadata := mkMeta (Nlen xs) 0 (chunk_moments d (ford f) xs) table in
  do w <- wf_write_meta w f d metadata;
  let post_meta_byte_idx := wr_byte_size w in
  do w <- body w (pdt f d) table us;
  let compressed_body_size := wr_byte_size w - post_meta_byte_idx in
  (* update_write_compressed_body_size *)
  Ok (wr_overwrite w (pre_meta_bit_idx + Consts.BITS_TO_ENCODE_N_ENTRIES)
                   compressed_body_size Consts.BITS_TO_ENCODE_COMPRESSED_BODY_SIZE).

Definition wf_chunk := wf_chunk_with wf_write_body.
Definition wf_chunk_ct := wf_chunk_with wf_write_body_ct.

Fixpoint wf_chunks_with (chunk : wr -> dtype -> flags -> list prefix -> list Z -> res wr)
         (w : wr) (d : dtype) (f : flags) (chunks : list (list Z * list prefix)) : res wr :=
  match chunks with
  | [] => Ok w
  | (xs, table) :: t => do w <- chunk w d f table xs; wf_chunks_with chunk w d f t
  end.
Definition wf_chunks := wf_chunks_with wf_chunk.

(* ---------------- Compressor::footer ---------------- *)
Definition wf_footer (w : wr) : res wr := wf_aligned_byte w Consts.MAGIC_TERMINATION_BYTE.

(* ---------------- header, chunks, footer, drain_bytes ---------------- *)
Definition wfile_bytes_with (chunk : wr -> dtype -> flags -> list prefix -> list Z -> res wr)
           (d : dtype) (f : flags) (chunks : list (list Z * list prefix)) : res (list N) :=
  do w <- wf_header wr_default d f;
  do w <- wf_chunks_with chunk w d f chunks;
  do w <- wf_footer w;
  Ok (wr_drain_bytes w).

Definition wfile_bytes := wfile_bytes_with wf_chunk.
Definition wfile_bytes_ct := wfile_bytes_with wf_chunk_ct.
