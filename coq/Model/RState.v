(* RState.v — the whole `Decompressor` as a state machine over the 64-bit-word BitWords:
       decompressor.rs             State, Write::write, with_reader, header, chunk_metadata,
                                   skip_chunk_body, chunk_body, simple_decompress(_dirty),
                                   free_compressed_memory, next_chunk_meta_item, Iterator::next
       chunk_body_decompressor.rs  ChunkBodyDecompressor::new, decompress_next_batch,
                                   bits_remaining
       num_decompressor.rs         NumDecompressor::new, decompress_unsigneds_limited (the
                                   non-dirty wrapper: n_processed / bits_processed, the
                                   drain_empty_byte and compressed_body_size check when the
                                   body finishes, the restore on Err), bits_remaining
       bit_words.rs                extend_bytes, truncate_left   (Words.bw_extend / bw_truncate_left)
   on top of the word-level pieces already transcribed: RFile.rf_header / rf_chunk_meta
   (read_header / read_chunk_meta), Huff.hfrom (HuffmanTable::from) and RFast.rfa_batch (the
   complete decompress_unsigneds_limited_dirty, unchecked fast path included).

   The point of this file is the words / positions / commit discipline:
     - the compressed data is a BitWords (words : Vec<usize>, total_bits), extended by
       `write` and truncated on the left by `free_compressed_memory`;
     - every reading method runs inside `with_reader`: a BitReader is created on the words,
       seek_to(state.bit_idx), the closure runs, and ONLY if it returns Ok is
       state.bit_idx := reader.bit_idx() committed.  What the closure itself did to the
       other state fields (flags, chunk_body_decompressor, terminated) stays, whatever it
       returns: below every method says which fields it has written at each exit.
   The non-bit parts (validate_prefix_tree and the other checks of NumDecompressor::new,
   delta reconstruction, from_unsigned) are the pure helpers of Reader.v / Codec.v.

   Panics of the Rust (slice index out of range, usize underflow in a debug build) are
   [Panic] / [ROPanic].  Lemmas/RStateL.v shows none is reachable and that this machine and
   the bit-list machine Reader.r_step produce the same outputs and corresponding states.
   Definitions only, executable, total. *)
From Coq Require Import List NArith ZArith Bool.
From QCo.Model Require Import Base Consts DType Codec Words Huff Reader RFile RBody RFast.
Import ListNotations.
Open Scope N_scope.

(* ---------------- the state ---------------- *)
(* NumDecompressor, the known information about the chunk that is derived from the
   prefixes: huffman_table, max_bits_per_num_block, max_overshoot_per_num_block, use_gcd.
   (n and compressed_body_size are c_n / c_body of the pure part.) *)
Record wnum := mkWnum {
  wn_table : htable;
  wn_mb : N;
  wn_mo : N;
  wn_gcd : bool }.

(* ChunkBodyDecompressor: Reader.cbd for n, compressed_body_size, the prefixes, the delta
   moments, nums_processed and NumDecompressor::state; plus the derived fields.  The enum
   variant (Simple / Delta) is a function of the flags the metadata was parsed with
   (delta_encoding_order = 0 or not): it is read off the flags, as in Reader.v. *)
Record wcbd := mkWcbd {
  wc_pure : cbd;
  wc_num : wnum }.

(* Decompressor { words: BitWords { words, total_bits }, state: State { bit_idx, flags,
   chunk_body_decompressor, terminated } }.  (config.numbers_limit_per_item is the argument
   of RNext.) *)
Record wstate := mkWs {
  ws_words : list N;
  ws_tb : N;
  ws_bit : N;
  ws_flags : option flags;
  ws_cbd : option wcbd;
  ws_term : bool }.

(* Decompressor::default() *)
Definition ws_init : wstate := mkWs [] 0 0 None None false.

(* the same BitWords with other State fields *)
Definition ws_set (st : wstate) (bit : N) (fl : option flags) (cb : option wcbd) (tm : bool)
  : wstate :=
  mkWs (ws_words st) (ws_tb st) bit fl cb tm.

(* with_reader:  let mut reader = BitReader::from(&self.words);
                 reader.seek_to(self.state.bit_idx); *)
Definition ws_reader (st : wstate) : rpos := rb_seek_to (ws_bit st).

(* ---------------- NumDecompressor::new / ChunkBodyDecompressor::new ---------------- *)
(* the derived fields.  [w] = U::BITS.  HuffmanTable::from panics only on tables that
   validate_prefix_tree rejects (HuffL.hfrom_total). *)
Definition wnum_new (w : N) (prefixes : list prefix) : res wnum :=
  do table <- hfrom w prefixes;
  Ok (mkWnum table
             (rfa_max_bits_per_num_block w prefixes)
             (rfa_max_overshoot_per_num_block prefixes)
             (rfa_use_gcd prefixes)).

(* ChunkBodyDecompressor::new(&meta): the checks of NumDecompressor::new (no prefixes but
   n > 0, validate_prefix_tree) and the initial pure state are Reader.new_cbd; then the
   table is built. *)
Definition wcbd_new (d : dtype) (f : flags) (m : meta) : res wcbd :=
  do c <- new_cbd f m;
  do nd <- wnum_new (ubits (pdt f d)) (m_table m);
  Ok (mkWcbd c nd).

(* ---------------- NumDecompressor::decompress_unsigneds_limited ---------------- *)
(*   let initial_reader = reader.clone();
     let initial_state = self.state.clone();
     let res = if self.use_gcd { dirty::<GeneralGcdOp>(..) } else { dirty::<TrivialGcdOp>(..) };
     let res = res.and_then(|numbers| {
       self.state.n_processed += numbers.unsigneds.len();
       if numbers.finished_chunk_body { reader.drain_empty_byte(corruption)?; }
       self.state.bits_processed += reader.bit_idx() - initial_reader.bit_idx();
       if numbers.finished_chunk_body {
         if self.compressed_body_size * 8 != self.state.bits_processed { return Err(corruption) }
       }
       Ok(numbers)
     });
     if res.is_err() { *reader = initial_reader; self.state = initial_state; }
     res
   Ok: (unsigneds, finished_chunk_body, the new NumDecompressor::state, the reader).
   Err: reader and state are the initial ones again, so nothing else is returned.
   [w] = U::BITS, [ph] = T::PHYSICAL_BITS, [r] = the reader's position at the call. *)
Definition wnd_batch (w ph : N) (ws : list N) (tb : N) (c : cbd) (nd : wnum)
           (limit : N) (eoi : bool) (r : rpos) : res (list N * bool * nd_state * rpos) :=
  let st := c_nd c in
  if c_n c <? nd_nproc st then Panic else                (* self.n - self.state.n_processed *)
  let out := rfa_batch w ph ws tb (wn_table nd) (wn_mb nd) (wn_mo nd) (wn_gcd nd)
                       (c_n c - nd_nproc st) (nd_incomplete st) limit eoi r in
  match rb_status out with
  | SPanic => Panic
  | SErr k => Err k
  | SOk =>
    do r1 <- (if rb_finished out then rf_drain_empty_byte ws (rb_pos out)
              else Ok (rb_pos out));
    if rb_bit_idx r1 <? rb_bit_idx r then Panic else     (* bit_idx() - initial bit_idx() *)
    let bproc := nd_bproc st + (rb_bit_idx r1 - rb_bit_idx r) in
    if rb_finished out && negb (c_body c * 8 =? bproc) then Err Corruption else
    Ok (rb_nums out, rb_finished out,
        mkNd (nd_nproc st + Nlen (rb_nums out)) bproc (rb_incomplete out), r1)
  end.

(* ---------------- ChunkBodyDecompressor::decompress_next_batch ---------------- *)
(* what follows the `?` on decompress_unsigneds_limited: pure.
     Simple:  nums = unsigneds.map(T::from_unsigned), finished_chunk_body as returned
     Delta:   batch_size = if u_deltas.finished_chunk_body { min(limit, n - nums_processed) }
                           else { u_deltas.unsigneds.len() };
              nums = reconstruct_nums(delta_moments, signeds, batch_size);
              nums_processed += batch_size; finished_chunk_body = nums_processed == n
   (Reader.cbd_batch is nd_batch followed by this, RStateL.cbd_batch_split — except that
   Reader.v treats nums_processed > n as a panic in every Delta call, while the Rust
   evaluates `*n - *nums_processed` only when the unsigneds are finished; nums_processed
   <= n in every state NoPanicL.cbd_sane describes.) *)
Definition cbd_after (d : dtype) (f : flags) (c : cbd) (limit : N)
           (us : list N) (fin : bool) (nd' : nd_state) : res (list Z * bool * cbd) :=
  if ford f =? 0 then
    Ok (map (of_u d) us, fin,
        mkCbd (c_n c) (c_total c) (c_body c) (c_table c) (c_moments c)
              (c_numsproc c + Nlen us) nd')
  else
    do bs <- (if fin then
                if c_total c <? c_numsproc c then Panic    (* *n - *nums_processed *)
                else Ok (N.min limit (c_total c - c_numsproc c))
              else Ok (Nlen us));
    let '(xs, ms') := reconstruct d (N.to_nat bs) (c_moments c) (map (of_u (sdt d)) us) in
    let np := c_numsproc c + bs in
    Ok (xs, np =? c_total c,
        mkCbd (c_n c) (c_total c) (c_body c) (c_table c) ms' np nd').

(* Ok: (nums, finished_chunk_body, the chunk body decompressor afterwards, the reader).
   Err: the chunk body decompressor is as before (the only fallible step is
   decompress_unsigneds_limited, which restores). *)
Definition wcbd_batch (d : dtype) (f : flags) (ws : list N) (tb : N) (wc : wcbd)
           (limit : N) (eoi : bool) (r : rpos) : res (list Z * bool * wcbd * rpos) :=
  let pd := pdt f d in
  do '(us, fin, nd', r1) <-
     wnd_batch (ubits pd) (phys pd) ws tb (wc_pure wc) (wc_num wc) limit eoi r;
  do '(xs, fin', c') <- cbd_after d f (wc_pure wc) limit us fin nd';
  Ok (xs, fin', mkWcbd c' (wc_num wc), r1).

(* ---------------- next_chunk_meta_item ---------------- *)
(*   match read_chunk_meta::<T>(reader, state.flags.as_ref().unwrap()) {
       Ok(Some(meta)) => match ChunkBodyDecompressor::new(&meta) {
         Ok(cbd) => { state.chunk_body_decompressor = Some(cbd); Ok(Some(ChunkMetadata(meta))) }
         Err(e) => Err(e) },
       Ok(None) => { state.terminated = true; Ok(Some(Footer)) },
       Err(e) if InsufficientData => Ok(None),
       Err(e) => Err(e),
     }
   Both callers have state.chunk_body_decompressor = None at the call.  Only the
   Ok(Some(_)) exits write the state: returned are the item, the new
   chunk_body_decompressor, the new terminated and the reader. *)
Definition ws_next_meta (d : dtype) (st : wstate) (f : flags) (r : rpos)
  : res (option (item * option wcbd * bool * rpos)) :=
  match rf_chunk_meta (ws_words st) (ws_tb st) d f r with
  | Ok (Some m, r') =>
    match wcbd_new d f m with
    | Ok wc => Ok (Some (IMeta m, Some wc, ws_term st, r'))
    | Err k => Err k
    | Panic => Panic
    end
  | Ok (None, r') => Ok (Some (IFooter, None, true, r'))
  | Err InsufficientData => Ok None
  | Err k => Err k
  | Panic => Panic
  end.

(* ---------------- the methods ---------------- *)
Definition ws_step (d : dtype) (st : wstate) (o : rop) : wstate * rout :=
  match o with
  (* Write::write: self.words.extend_bytes(buf) *)
  | RWrite bs =>
    let '(ws', tb') := bw_extend (ws_words st) (ws_tb st) bs in
    (mkWs ws' tb' (ws_bit st) (ws_flags st) (ws_cbd st) (ws_term st), ROUnit)

  (* header: check_not_terminated, flags.is_some() => invalid argument;
     with_reader(|reader, state, _| { let flags = read_header::<T>(reader)?;
                                      state.flags = Some(flags.clone()); Ok(flags) }) *)
  | RHeader =>
    if ws_term st then (st, ROErr InvalidArgument) else
    match ws_flags st with
    | Some _ => (st, ROErr InvalidArgument)
    | None =>
      match rf_header (ws_words st) (ws_tb st) d (ws_reader st) with
      | Ok (f, r') => (ws_set st (rb_bit_idx r') (Some f) (ws_cbd st) (ws_term st), ROFlags f)
      | Err k => (st, ROErr k)
      | Panic => (st, ROPanic)
      end
    end

  (* chunk_metadata: check_not_terminated, flags.is_none(), chunk_body_decompressor.is_some()
     => invalid argument;
     with_reader(|reader, state, _| {
       let maybe_meta = read_chunk_meta(reader, flags)?;
       if let Some(meta) = &maybe_meta {
         state.chunk_body_decompressor = Some(ChunkBodyDecompressor::new(meta)?) }
       Ok(maybe_meta) })
     (the footer does not set `terminated` here) *)
  | RMeta =>
    if ws_term st then (st, ROErr InvalidArgument) else
    match ws_flags st, ws_cbd st with
    | None, _ => (st, ROErr InvalidArgument)
    | Some _, Some _ => (st, ROErr InvalidArgument)
    | Some f, None =>
      match rf_chunk_meta (ws_words st) (ws_tb st) d f (ws_reader st) with
      | Ok (Some m, r') =>
        match wcbd_new d f m with
        | Ok wc => (ws_set st (rb_bit_idx r') (ws_flags st) (Some wc) (ws_term st),
                    ROMeta (Some m))
        | Err k => (st, ROErr k)
        | Panic => (st, ROPanic)
        end
      | Ok (None, r') =>
        (ws_set st (rb_bit_idx r') (ws_flags st) (ws_cbd st) (ws_term st), ROMeta None)
      | Err k => (st, ROErr k)
      | Panic => (st, ROPanic)
      end
    end

  (* chunk_body: check_in_chunk_body (terminated, chunk_body_decompressor.is_none() =>
     invalid argument);
     with_reader(|reader, state, _| {
       let numbers = cbd.decompress_next_batch(reader, usize::MAX, true)?;
       state.chunk_body_decompressor = None;
       Ok(numbers.nums) })
     On Err the chunk body decompressor has been restored by decompress_unsigneds_limited.
     (A chunk body decompressor without flags does not exist: the variant it would have is
     unknown, and the model answers like Reader.v.) *)
  | RBody =>
    if ws_term st then (st, ROErr InvalidArgument) else
    match ws_cbd st, ws_flags st with
    | Some wc, Some f =>
      match wcbd_batch d f (ws_words st) (ws_tb st) wc usize_max true (ws_reader st) with
      | Ok (xs, _, _, r') =>
        (ws_set st (rb_bit_idx r') (ws_flags st) None (ws_term st), RONums xs)
      | Err k => (st, ROErr k)
      | Panic => (st, ROPanic)
      end
    | _, _ => (st, ROErr InvalidArgument)
    end

  (* skip_chunk_body: check_in_chunk_body;
       let skipped_bit_idx = self.state.bit_idx + cbd.bits_remaining()?;
         bits_remaining = (compressed_body_size * 8).checked_sub(bits_processed) or corruption
       if skipped_bit_idx <= self.words.total_bits {
         self.state.bit_idx = skipped_bit_idx; self.state.chunk_body_decompressor = None; Ok(()) }
       else { Err(insufficient_data) }
     No reader is involved. *)
  | RSkip =>
    if ws_term st then (st, ROErr InvalidArgument) else
    match ws_cbd st with
    | None => (st, ROErr InvalidArgument)
    | Some wc =>
      let c := wc_pure wc in
      if c_body c * 8 <? nd_bproc (c_nd c) then (st, ROErr Corruption) else
      let skipped_bit_idx := ws_bit st + (c_body c * 8 - nd_bproc (c_nd c)) in
      if skipped_bit_idx <=? ws_tb st
      then (ws_set st skipped_bit_idx (ws_flags st) None (ws_term st), ROUnit)
      else (st, ROErr InsufficientData)
    end

  (* Iterator::next, numbers_limit_per_item = limit:
       let initial_bit_idx = self.state.bit_idx;
       let res = self.with_reader(|reader, state, config| { ... });
       match res {
         Ok(Some(x)) => Some(Ok(x)),                         bit_idx committed
         Ok(None) => { self.state.bit_idx = initial_bit_idx; None },
         Err(e) => Some(Err(e)) }                            bit_idx not committed
     The closure:
       terminated                      => Ok(None)
       flags.is_none()                 => read_header: Ok => state.flags = Some(flags),
                                          InsufficientData => Ok(None), other Err => Err
       chunk_body_decompressor.is_none() => next_chunk_meta_item
       otherwise  decompress_next_batch(reader, limit, false) on the chunk body
                  decompressor IN PLACE (as_mut), then
         Ok, nums empty and finished => let cbd = state.chunk_body_decompressor.take();
                                        let res = next_chunk_meta_item(reader, state);
                                        if !matches!(res, Ok(Some(_))) {
                                          state.chunk_body_decompressor = cbd; }
                                        res
         Ok, nums empty              => Ok(None)
         Ok                          => if finished { chunk_body_decompressor = None }
                                        Ok(Some(Numbers(nums)))
         Err(e)                      => Err(e)
     So in the two exits `Ok(None)` / `Err` that follow a successful decompress_next_batch
     the state keeps the chunk body decompressor as that call left it ([wc'] below) while
     bit_idx stays the initial one.  RStateL.wcbd_batch_nothing shows wc' = wc there. *)
  | RNext limit =>
    let initial_bit_idx := ws_bit st in
    if ws_term st then (st, RONone) else
    match ws_flags st with
    | None =>
      match rf_header (ws_words st) (ws_tb st) d (ws_reader st) with
      | Ok (f, r') =>
        (ws_set st (rb_bit_idx r') (Some f) (ws_cbd st) (ws_term st), ROItem (IFlags f))
      | Err InsufficientData => (st, RONone)
      | Err k => (st, ROErr k)
      | Panic => (st, ROPanic)
      end
    | Some f =>
      match ws_cbd st with
      | None =>
        match ws_next_meta d st f (ws_reader st) with
        | Ok (Some (i, cb', tm', r')) =>
          (ws_set st (rb_bit_idx r') (ws_flags st) cb' tm', ROItem i)
        | Ok None => (st, RONone)
        | Err k => (st, ROErr k)
        | Panic => (st, ROPanic)
        end
      | Some wc =>
        match wcbd_batch d f (ws_words st) (ws_tb st) wc limit false (ws_reader st) with
        | Ok (xs, fin, wc', r1) =>
          if is_nil xs && fin then
            match ws_next_meta d st f r1 with
            | Ok (Some (i, cb', tm', r2)) =>
              (ws_set st (rb_bit_idx r2) (ws_flags st) cb' tm', ROItem i)
            | Ok None =>
              (ws_set st initial_bit_idx (ws_flags st) (Some wc') (ws_term st), RONone)
            | Err k =>
              (ws_set st initial_bit_idx (ws_flags st) (Some wc') (ws_term st), ROErr k)
            | Panic => (st, ROPanic)
            end
          else if is_nil xs then
            (ws_set st initial_bit_idx (ws_flags st) (Some wc') (ws_term st), RONone)
          else
            (ws_set st (rb_bit_idx r1) (ws_flags st)
                    (if fin then None else Some wc') (ws_term st),
             ROItem (INums xs))
        | Err k => (st, ROErr k)
        | Panic => (st, ROPanic)
        end
      end
    end

  (* free_compressed_memory:
       let words_to_free = self.state.bit_idx / WORD_SIZE;
       if words_to_free > 0 {
         self.words.truncate_left(words_to_free);
           self.words = self.words[words_to_free..].to_vec();     slice index
           self.total_bits -= words_to_free * WORD_SIZE;          usize subtraction
         self.state.bit_idx -= words_to_free * WORD_SIZE; } *)
  | RFree =>
    let words_to_free := ws_bit st / WORD_SIZE in
    if 0 <? words_to_free then
      if Nlen (ws_words st) <? words_to_free then (st, ROPanic) else
      if ws_tb st <? words_to_free * WORD_SIZE then (st, ROPanic) else
      let '(ws', tb') := bw_truncate_left (ws_words st) (ws_tb st) words_to_free in
      (mkWs ws' tb' (ws_bit st - words_to_free * WORD_SIZE)
           (ws_flags st) (ws_cbd st) (ws_term st), ROUnit)
    else (st, ROUnit)

  | RSimple => (st, ROErr InvalidArgument)      (* ws_simple below, as in Reader.v *)
  end.

(* ---------------- simple_decompress ---------------- *)
(* simple_decompress_dirty:
     self.header()?;
     while self.chunk_metadata()?.is_some() { let nums = self.chunk_body()?; res.extend(nums) }
     Ok(res.unwrap_or_default())
   Each iteration consumes at least the magic byte, so the loop runs at most
   total_bits / 8 + 1 times: [fuel] only makes the function total (as Reader.simple_loop). *)
Fixpoint ws_simple_loop (fuel : nat) (d : dtype) (st : wstate) (acc : list Z)
  : wstate * res (list Z) :=
  match fuel with
  | O => (st, Err InsufficientData)
  | S f =>
    match ws_step d st RMeta with
    | (st1, ROMeta None) => (st1, Ok acc)
    | (st1, ROMeta (Some _)) =>
      match ws_step d st1 RBody with
      | (st2, RONums xs) => ws_simple_loop f d st2 (acc ++ xs)
      | (_, ROErr k) => (st, Err k)
      | (_, _) => (st, Panic)
      end
    | (_, ROErr k) => (st, Err k)
    | (_, _) => (st, Panic)
    end
  end.

(* simple_decompress:
     let initial_state = self.state.clone();
     let res = self.simple_decompress_dirty();
     if res.is_err() { self.state = initial_state; }
   (the words are not touched by any of the methods involved) *)
Definition ws_simple (d : dtype) (st : wstate) : wstate * res (list Z) :=
  match ws_step d st RHeader with
  | (st1, ROFlags _) =>
    match ws_simple_loop (S (N.to_nat (ws_tb st / 8))) d st1 [] with
    | (st2, Ok xs) => (st2, Ok xs)
    | (_, Err k) => (st, Err k)
    | (_, Panic) => (st, Panic)
    end
  | (_, ROErr k) => (st, Err k)
  | (_, _) => (st, Panic)
  end.

Definition ws_do (d : dtype) (st : wstate) (o : rop) : wstate * rout :=
  match o with
  | RSimple =>
    match ws_simple d st with
    | (st', Ok xs) => (st', RONums xs)
    | (st', Err k) => (st', ROErr k)
    | (st', Panic) => (st', ROPanic)
    end
  | _ => ws_step d st o
  end.

Fixpoint ws_run (d : dtype) (st : wstate) (ops : list rop) : wstate * list rout :=
  match ops with
  | [] => (st, [])
  | o :: t => let '(st1, out) := ws_do d st o in
              let '(st2, outs) := ws_run d st1 t in
              (st2, out :: outs)
  end.

(* auto_decompress: a fresh decompressor, write_all(bytes), simple_decompress *)
Definition ws_decode_file (d : dtype) (bytes : list N) : res (list Z) :=
  snd (ws_simple d (fst (ws_step d ws_init (RWrite bytes)))).
