// qco_harness: line-oriented driver around the real q_compress library.
// One command per stdin line, one answer per stdout line. Every command runs under
// catch_unwind; a panic is reported as "panic <message>".
use std::convert::TryFrom;
use std::io::{BufRead, Write};
use std::panic::{catch_unwind, AssertUnwindSafe};

use q_compress::data_types::{
  NumberLike, TimestampMicros, TimestampMicros96, TimestampNanos, TimestampNanos96, UnsignedLike,
};
use q_compress::errors::{ErrorKind, QCompressError};
use q_compress::verif_hooks as hk;
use q_compress::{
  ChunkMetadata, Compressor, CompressorConfig, DecompressedItem, Decompressor, DecompressorConfig,
  Flags, Prefix, PrefixMetadata,
};

mod time_cmds;
mod unit_cmds;

pub trait UParse: UnsignedLike {
  fn parse_u(s: &str) -> Self;
}
macro_rules! impl_uparse {
  ($($t:ty),*) => {$(impl UParse for $t { fn parse_u(s: &str) -> Self { s.parse::<$t>().expect("bad unsigned") } })*}
}
impl_uparse!(u8, u16, u32, u64, u128);

pub trait Raw: NumberLike {
  fn from_raw(s: &str) -> Self;
  fn to_raw(&self) -> String;
  // b is the immediate successor of a in the type's natural order
  fn succ_ok(a: &Self, b: &Self) -> bool;
}
macro_rules! impl_raw_int {
  ($($t:ty),*) => {$(impl Raw for $t {
    fn from_raw(s: &str) -> Self { s.parse::<$t>().expect("bad int") }
    fn to_raw(&self) -> String { self.to_string() }
    fn succ_ok(a: &Self, b: &Self) -> bool { a.checked_add(1) == Some(*b) }
  })*}
}
impl_raw_int!(i16, i32, i64, i128, u16, u32, u64, u128);
impl Raw for f32 {
  fn from_raw(s: &str) -> Self { f32::from_bits(s.parse::<u32>().expect("bad f32 bits")) }
  fn to_raw(&self) -> String { self.to_bits().to_string() }
  fn succ_ok(a: &Self, b: &Self) -> bool {
    let key = |x: f32| { let b = x.to_bits() as i64; if b >= (1i64 << 31) { -(b - (1i64 << 31)) - 1 } else { b } };
    key(*a) + 1 == key(*b)
  }
}
impl Raw for f64 {
  fn from_raw(s: &str) -> Self { f64::from_bits(s.parse::<u64>().expect("bad f64 bits")) }
  fn to_raw(&self) -> String { self.to_bits().to_string() }
  fn succ_ok(a: &Self, b: &Self) -> bool {
    let key = |x: f64| { let b = x.to_bits() as i128; if b >= (1i128 << 63) { -(b - (1i128 << 63)) - 1 } else { b } };
    key(*a) + 1 == key(*b)
  }
}
impl Raw for bool {
  fn from_raw(s: &str) -> Self { s != "0" }
  fn to_raw(&self) -> String { (*self as u8).to_string() }
  fn succ_ok(a: &Self, b: &Self) -> bool { !*a && *b }
}
impl Raw for TimestampMicros {
  fn from_raw(s: &str) -> Self { TimestampMicros::new(s.parse::<i64>().expect("bad ts")) }
  fn to_raw(&self) -> String { self.to_total_parts().to_string() }
  fn succ_ok(a: &Self, b: &Self) -> bool { a.to_total_parts().checked_add(1) == Some(b.to_total_parts()) }
}
impl Raw for TimestampNanos {
  fn from_raw(s: &str) -> Self { TimestampNanos::new(s.parse::<i64>().expect("bad ts")) }
  fn to_raw(&self) -> String { self.to_total_parts().to_string() }
  fn succ_ok(a: &Self, b: &Self) -> bool { a.to_total_parts().checked_add(1) == Some(b.to_total_parts()) }
}
impl Raw for TimestampMicros96 {
  fn from_raw(s: &str) -> Self { <Self as NumberLike>::from_signed(s.parse::<i128>().expect("bad ts96")) }
  fn to_raw(&self) -> String { self.to_total_parts().to_string() }
  fn succ_ok(a: &Self, b: &Self) -> bool { a.to_total_parts().checked_add(1) == Some(b.to_total_parts()) }
}
impl Raw for TimestampNanos96 {
  fn from_raw(s: &str) -> Self { <Self as NumberLike>::from_signed(s.parse::<i128>().expect("bad ts96")) }
  fn to_raw(&self) -> String { self.to_total_parts().to_string() }
  fn succ_ok(a: &Self, b: &Self) -> bool { a.to_total_parts().checked_add(1) == Some(b.to_total_parts()) }
}

pub fn kind_str(k: ErrorKind) -> &'static str {
  match k {
    ErrorKind::Compatibility => "Compatibility",
    ErrorKind::Corruption => "Corruption",
    ErrorKind::InsufficientData => "InsufficientData",
    ErrorKind::InvalidArgument => "InvalidArgument",
  }
}
pub fn err_str(e: &QCompressError) -> String { format!("err {}", kind_str(e.kind)) }

pub fn hex(bytes: &[u8]) -> String {
  if bytes.is_empty() { return "-".to_string(); }
  let mut s = String::with_capacity(bytes.len() * 2);
  for b in bytes { s.push_str(&format!("{:02x}", b)); }
  s
}
pub fn unhex(s: &str) -> Vec<u8> {
  if s == "-" { return Vec::new(); }
  (0..s.len() / 2).map(|i| u8::from_str_radix(&s[2 * i..2 * i + 2], 16).expect("bad hex")).collect()
}
pub fn bits_str(bits: &[bool]) -> String {
  let mut s = String::from("b");
  for &b in bits { s.push(if b { '1' } else { '0' }); }
  s
}
pub fn parse_bits(s: &str) -> Vec<bool> { s[1..].chars().map(|c| c == '1').collect() }

pub struct Toks<'a> { v: Vec<&'a str>, i: usize }
impl<'a> Toks<'a> {
  pub fn new(line: &'a str) -> Self { Toks { v: line.split_whitespace().collect(), i: 0 } }
  pub fn next(&mut self) -> &'a str { let t = self.v[self.i]; self.i += 1; t }
  pub fn usize(&mut self) -> usize { self.next().parse().expect("bad usize") }
  pub fn done(&self) -> bool { self.i >= self.v.len() }
}

fn flags_str(f: &Flags) -> String {
  format!("{} {} {} {}", f.use_5_bit_code_len as u8, f.delta_encoding_order, f.use_min_count_encoding as u8, f.use_gcds as u8)
}

fn prefixes_str<P: NumberLike>(ps: &[Prefix<P>]) -> String {
  let mut s = format!("{}", ps.len());
  for p in ps {
    s.push_str(&format!(
      " {} {} {} {} {} {}",
      p.count,
      p.lower.to_unsigned(),
      p.upper.to_unsigned(),
      bits_str(&p.code),
      match p.run_len_jumpstart { None => -1i64, Some(j) => j as i64 },
      p.gcd
    ));
  }
  s
}

pub fn meta_str<T: Raw>(m: &ChunkMetadata<T>) -> String where T::Signed: Raw {
  match &m.prefix_metadata {
    PrefixMetadata::Simple { prefixes } => format!("{} {} 0 {}", m.n, m.compressed_body_size, prefixes_str(prefixes)),
    PrefixMetadata::Delta { prefixes, delta_moments } => {
      let mut s = format!("{} {} {}", m.n, m.compressed_body_size, delta_moments.moments.len());
      for mo in &delta_moments.moments { s.push(' '); s.push_str(&mo.to_raw()); }
      s.push(' ');
      s.push_str(&prefixes_str(prefixes));
      s
    }
  }
}

fn nums_str<T: Raw>(xs: &[T]) -> String {
  let mut s = format!("{}", xs.len());
  for x in xs { s.push(' '); s.push_str(&x.to_raw()); }
  s
}

fn read_nums<T: Raw>(t: &mut Toks) -> Vec<T> {
  let n = t.usize();
  (0..n).map(|_| T::from_raw(t.next())).collect()
}

fn config(level: usize, order: usize, gcds: bool) -> CompressorConfig {
  CompressorConfig::default().with_compression_level(level).with_delta_encoding_order(order).with_use_gcds(gcds)
}

// ---------------- commands generic in the data type ----------------

fn cmd_conv<T: Raw>(t: &mut Toks) -> String where T::Signed: Raw, T::Unsigned: UParse {
  let x = T::from_raw(t.next());
  let u = x.to_unsigned();
  let s = x.to_signed();
  let by = x.to_bytes();
  let fu = T::from_unsigned(u);
  let fs = T::from_signed(s);
  let fb = match T::from_bytes(by.clone()) { Ok(v) => v.to_raw(), Err(e) => err_str(&e).replace(' ', ":") };
  format!("{} {} {} {} {} {}", u, s.to_raw(), hex(&by), fu.to_raw(), fs.to_raw(), fb)
}

// fromu <dt> <u> : from_unsigned on an arbitrary unsigned image, and to_unsigned back
fn cmd_fromu<T: Raw>(t: &mut Toks) -> String where T::Unsigned: UParse {
  let u = T::Unsigned::parse_u(t.next());
  let x = T::from_unsigned(u);
  format!("{} {}", x.to_raw(), x.to_unsigned())
}

// sweep <dt> <ustart> <count> : the property's own oracle over a contiguous range of unsigned
// images: from_unsigned/to_unsigned, signed and byte inverses, and that consecutive unsigned
// images are consecutive in the natural order (hence strict monotonicity on the range)
fn cmd_sweep<T: Raw>(t: &mut Toks) -> String where T::Signed: Raw, T::Unsigned: UParse {
  let mut u = T::Unsigned::parse_u(t.next());
  let count: u64 = t.next().parse().unwrap();
  let mut prev: Option<T> = None;
  for i in 0..count {
    let x = T::from_unsigned(u);
    if x.to_unsigned() != u { return format!("fail {} to_unsigned(from_unsigned)", u); }
    if !T::from_signed(x.to_signed()).num_eq(&x) { return format!("fail {} signed", u); }
    match T::from_bytes(x.to_bytes()) {
      Ok(y) if y.num_eq(&x) => (),
      _ => return format!("fail {} bytes", u),
    }
    if x.to_bytes().len() * 8 != T::PHYSICAL_BITS { return format!("fail {} byte length", u); }
    if let Some(p) = prev { if !T::succ_ok(&p, &x) { return format!("fail {} order", u); } }
    prev = Some(x);
    if i + 1 < count { u = u + T::Unsigned::ONE; }
  }
  format!("ok {}", count)
}

// compress <level> <order> <gcds> <nchunks> (<n> xs..)*  via header/chunk*/footer/drain
fn cmd_compress<T: Raw>(t: &mut Toks) -> String where T::Signed: Raw {
  let level = t.usize();
  let order = t.usize();
  let gcds = t.usize() != 0;
  let nchunks = t.usize();
  let mut c = Compressor::<T>::from_config(config(level, order, gcds));
  if let Err(e) = c.header() { return err_str(&e); }
  let mut metas = Vec::new();
  for _ in 0..nchunks {
    let xs = read_nums::<T>(t);
    match c.chunk(&xs) {
      Ok(m) => metas.push(meta_str(&m)),
      Err(e) => return err_str(&e),
    }
  }
  if let Err(e) = c.footer() { return err_str(&e); }
  let bytes = c.drain_bytes();
  let mut s = format!("ok {} {} {}", hex(&bytes), flags_str(c.flags()), metas.len());
  for m in metas { s.push(' '); s.push_str(&m); }
  s
}

// bigrun <dt> <level> <value> <count> <tail> : `count` copies of value followed by one tail
// value, compressed as one chunk and decompressed again; only the verdict is printed
fn cmd_bigrun<T: Raw>(t: &mut Toks) -> String where T::Signed: Raw {
  let level = t.usize();
  let v = T::from_raw(t.next());
  let count = t.usize();
  let tail = T::from_raw(t.next());
  let mut xs = vec![v; count];
  xs.push(tail);
  let mut c = Compressor::<T>::from_config(config(level, 0, true));
  c.header().unwrap();
  let meta = match c.chunk(&xs) { Ok(m) => m, Err(e) => return err_str(&e) };
  c.footer().unwrap();
  let bytes = c.drain_bytes();
  let res = match q_compress::auto_decompress::<T>(&bytes) {
    Ok(ys) => format!("decoded={} equal={}", ys.len(), ys.len() == xs.len() && ys.iter().zip(xs.iter()).all(|(a, b)| a.num_eq(b))),
    Err(e) => err_str(&e),
  };
  format!("ok bytes={} body={} {}", bytes.len(), meta.compressed_body_size, res)
}

// fibcounts <dt> <level> <nvals> <spacing_log> : value i (spaced 2^spacing_log apart) occurs
// fib(i) times; shuffled deterministically; reports the longest Huffman code and the round trip
fn cmd_fibcounts<T: Raw>(t: &mut Toks) -> String where T::Signed: Raw, T::Unsigned: UParse {
  let level = t.usize();
  let nvals = t.usize();
  let spacing = t.usize();
  let mut xs: Vec<T> = Vec::new();
  let (mut a, mut b) = (1usize, 1usize);
  for i in 0..nvals {
    let u = T::Unsigned::parse_u(&format!("{}", (i as u128) << spacing));
    let x = T::from_unsigned(u);
    for _ in 0..a { xs.push(x); }
    let c = a + b; a = b; b = c;
  }
  // deterministic interleave so that no long runs exist
  let n = xs.len();
  let mut ys = Vec::with_capacity(n);
  let mut idx = 0usize;
  let step = 7_919usize;
  let mut seen = vec![false; n];
  for _ in 0..n {
    while seen[idx] { idx = (idx + 1) % n; }
    seen[idx] = true;
    ys.push(xs[idx]);
    idx = (idx + step) % n;
  }
  let mut c = Compressor::<T>::from_config(config(level, 0, true));
  c.header().unwrap();
  let meta = match c.chunk(&ys) { Ok(m) => m, Err(e) => return err_str(&e) };
  c.footer().unwrap();
  let bytes = c.drain_bytes();
  let maxlen = match &meta.prefix_metadata {
    PrefixMetadata::Simple { prefixes } => prefixes.iter().map(|p| p.code.len()).max().unwrap_or(0),
    PrefixMetadata::Delta { prefixes, .. } => prefixes.iter().map(|p| p.code.len()).max().unwrap_or(0),
  };
  let res = match q_compress::auto_decompress::<T>(&bytes) {
    Ok(zs) => format!("decoded={} equal={}", zs.len(), zs.len() == ys.len() && zs.iter().zip(ys.iter()).all(|(a, b)| a.num_eq(b))),
    Err(e) => err_str(&e),
  };
  format!("ok n={} max_code_len={} bytes={} {}", n, maxlen, bytes.len(), res)
}

// chunkbytes <level> <order> <gcds> <nchunks> chunks.. : header bytes, each chunk's bytes from
// one compressor drained after every call, whether each chunk compressed alone in a fresh
// compressor gives the same bytes, and whether 8 concurrent threads give the same bytes
fn cmd_chunkbytes<T: Raw + Send + Sync>(t: &mut Toks) -> String where T::Signed: Raw {
  let level = t.usize();
  let order = t.usize();
  let gcds = t.usize() != 0;
  let nchunks = t.usize();
  let chunks: Vec<Vec<T>> = (0..nchunks).map(|_| read_nums::<T>(t)).collect();
  let one = |chunks: &Vec<Vec<T>>| -> Result<(Vec<u8>, Vec<Vec<u8>>, Vec<u8>), String> {
    let mut c = Compressor::<T>::from_config(config(level, order, gcds));
    c.header().map_err(|e| err_str(&e))?;
    let hdr = c.drain_bytes();
    let mut cb = Vec::new();
    for ch in chunks {
      c.chunk(ch).map_err(|e| err_str(&e))?;
      cb.push(c.drain_bytes());
    }
    c.footer().map_err(|e| err_str(&e))?;
    Ok((hdr, cb, c.drain_bytes()))
  };
  let (hdr, cb, ftr) = match one(&chunks) { Ok(x) => x, Err(e) => return e };
  let mut fresh_equal = true;
  for (i, ch) in chunks.iter().enumerate() {
    let mut c = Compressor::<T>::from_config(config(level, order, gcds));
    c.header().unwrap();
    c.drain_bytes();
    c.chunk(ch).unwrap();
    if c.drain_bytes() != cb[i] { fresh_equal = false; }
  }
  // undrained single compressor
  let mut c = Compressor::<T>::from_config(config(level, order, gcds));
  c.header().unwrap();
  for ch in &chunks { c.chunk(ch).unwrap(); }
  c.footer().unwrap();
  let whole = c.drain_bytes();
  let mut cat = hdr.clone();
  for b in &cb { cat.extend(b); }
  cat.extend(&ftr);
  let undrained_equal = whole == cat;
  let chunks_ref = &chunks;
  let results: Vec<Vec<Vec<u8>>> = std::thread::scope(|s| {
    let hs: Vec<_> = (0..8).map(|_| s.spawn(move || {
      let mut c = Compressor::<T>::from_config(config(level, order, gcds));
      c.header().unwrap();
      c.drain_bytes();
      chunks_ref.iter().map(|ch| { c.chunk(ch).unwrap(); c.drain_bytes() }).collect::<Vec<_>>()
    })).collect();
    hs.into_iter().map(|h| h.join().unwrap()).collect()
  });
  let threads_equal = results.iter().all(|r| *r == cb);
  let mut s = format!("ok {} {} fresh={} undrained={} threads={} {}", hex(&hdr), hex(&ftr), fresh_equal, undrained_equal, threads_equal, cb.len());
  for b in &cb { s.push(' '); s.push_str(&hex(b)); }
  s
}

// autosizes <level> <n> xs : byte_size after header+chunk(head 1000) at the trial settings of
// auto_delta_encoding_order, for delta orders 0..=7
fn cmd_autosizes<T: Raw>(t: &mut Toks) -> String {
  let level = t.usize();
  let xs = read_nums::<T>(t);
  let head = if xs.len() < 1000 { &xs[..] } else { &xs[0..1000] };
  let mut s = String::from("ok");
  for order in 0..8 {
    let mut c = Compressor::<T>::from_config(config(std::cmp::min(level, 6), order, false));
    c.header().unwrap();
    match c.chunk(head) { Ok(_) => s.push_str(&format!(" {}", c.byte_size())), Err(_) => s.push_str(" err") }
  }
  s
}

// bigchunk <dt> <level> <order> <count> : header, then one chunk of `count` numbers (two values
// alternating in long runs); reports the result kind, byte_size before/after, and for an accepted
// chunk whether the finished file decodes to the same count
fn cmd_bigchunk<T: Raw>(t: &mut Toks) -> String where T::Signed: Raw, T::Unsigned: UParse {
  let level = t.usize();
  let order = t.usize();
  let count = t.usize();
  let a = T::from_unsigned(T::Unsigned::parse_u("3"));
  let b = T::from_unsigned(T::Unsigned::parse_u("1"));
  let xs: Vec<T> = (0..count).map(|i| if (i / 1000) % 2 == 0 { a } else { b }).collect();
  let mut c = Compressor::<T>::from_config(config(level, order, true));
  c.header().unwrap();
  let before = c.byte_size();
  match c.chunk(&xs) {
    Err(e) => format!("{} size {} -> {}", err_str(&e), before, c.byte_size()),
    Ok(m) => {
      c.footer().unwrap();
      let bytes = c.drain_bytes();
      let res = match q_compress::auto_decompress::<T>(&bytes) {
        Ok(ys) => format!("decoded={} equal={}", ys.len(), ys.len() == xs.len() && ys.iter().zip(xs.iter()).all(|(p, q)| p.num_eq(q))),
        Err(e) => err_str(&e),
      };
      format!("ok n={} {}", m.n, res)
    }
  }
}

fn cmd_simple<T: Raw>(t: &mut Toks) -> String {
  let level = t.usize();
  let order = t.usize();
  let gcds = t.usize() != 0;
  let xs = read_nums::<T>(t);
  let mut c = Compressor::<T>::from_config(config(level, order, gcds));
  format!("ok {}", hex(&c.simple_compress(&xs)))
}

fn cmd_auto<T: Raw>(t: &mut Toks) -> String {
  let level = t.usize();
  let xs = read_nums::<T>(t);
  let cfg = q_compress::auto_compressor_config(&xs, level);
  let bytes = q_compress::auto_compress(&xs, level);
  format!("ok {} {} {} {}", cfg.compression_level, cfg.delta_encoding_order, cfg.use_gcds as u8, hex(&bytes))
}

fn cmd_rdec<T: Raw>(t: &mut Toks) -> String {
  let bytes = unhex(t.next());
  match q_compress::auto_decompress::<T>(&bytes) {
    Ok(xs) => format!("ok {}", nums_str(&xs)),
    Err(e) => err_str(&e),
  }
}

fn item_str<T: Raw>(it: &DecompressedItem<T>) -> String where T::Signed: Raw {
  match it {
    DecompressedItem::Flags(f) => format!("F {}", flags_str(f)),
    DecompressedItem::ChunkMetadata(m) => format!("M {}", meta_str(m)),
    DecompressedItem::Numbers(xs) => format!("N {}", nums_str(xs)),
    DecompressedItem::Footer => "Z".to_string(),
  }
}

// canonical rendering of the decompressor's Debug output: words -> bytes are rendered by
// Debug as decimal usizes; we keep the text but it is only compared between clones.
fn dbg_state<T: NumberLike>(d: &Decompressor<T>) -> String { format!("{:?}", d) }

// rhist <limit> <ops..> : ops  w:<hex> h m b s n f S
// answer: per op  "<out>@<bit_idx>" joined by " ; "
// With "atom" as first token after limit, additionally checks after every failed call that
// the Debug rendering of the decompressor is unchanged (reported as !MUTATED).
fn cmd_rhist<T: Raw>(t: &mut Toks) -> String where T::Signed: Raw {
  let limit = t.usize();
  let mut d = Decompressor::<T>::from_config(DecompressorConfig::default().with_numbers_limit_per_item(limit));
  let mut outs: Vec<String> = Vec::new();
  while !t.done() {
    let op = t.next();
    let before = dbg_state(&d);
    let mut failed = false;
    let out = if let Some(h) = op.strip_prefix("w:") {
      d.write_all(&unhex(h)).unwrap();
      "u".to_string()
    } else {
      match op {
        "h" => match d.header() { Ok(f) => format!("F {}", flags_str(&f)), Err(e) => { failed = true; err_str(&e) } },
        "m" => match d.chunk_metadata() {
          Ok(Some(m)) => format!("M {}", meta_str(&m)),
          Ok(None) => "M none".to_string(),
          Err(e) => { failed = true; err_str(&e) }
        },
        "b" => match d.chunk_body() { Ok(xs) => format!("N {}", nums_str(&xs)), Err(e) => { failed = true; err_str(&e) } },
        "s" => match d.skip_chunk_body() { Ok(()) => "u".to_string(), Err(e) => { failed = true; err_str(&e) } },
        "n" => match (&mut d).next() {
          Some(Ok(it)) => format!("I {}", item_str(&it)),
          Some(Err(e)) => { failed = true; err_str(&e) }
          None => { failed = true; "none".to_string() }
        },
        "f" => { d.free_compressed_memory(); "u".to_string() }
        "S" => match d.simple_decompress() { Ok(xs) => format!("N {}", nums_str(&xs)), Err(e) => { failed = true; err_str(&e) } },
        _ => panic!("bad rhist op {}", op),
      }
    };
    let mut o = format!("{} @{}", out, d.bit_idx());
    if failed && dbg_state(&d) != before { o.push_str(" !MUTATED"); }
    outs.push(o);
  }
  outs.join(" ; ")
}

// whist <level> <order> <gcds> <ops..> : ops H, C <n> xs.., F, D, Z
fn cmd_whist<T: Raw>(t: &mut Toks) -> String where T::Signed: Raw {
  let level = t.usize();
  let order = t.usize();
  let gcds = t.usize() != 0;
  let mut c = Compressor::<T>::from_config(config(level, order, gcds));
  let mut outs: Vec<String> = Vec::new();
  while !t.done() {
    let op = t.next();
    let out = match op {
      "H" => match c.header() { Ok(()) => "u".to_string(), Err(e) => err_str(&e) },
      "C" => { let xs = read_nums::<T>(t); match c.chunk(&xs) { Ok(m) => format!("M {}", meta_str(&m)), Err(e) => err_str(&e) } },
      "F" => match c.footer() { Ok(()) => "u".to_string(), Err(e) => err_str(&e) },
      "D" => format!("B {}", hex(&c.drain_bytes())),
      "Z" => format!("S {}", c.byte_size()),
      _ => panic!("bad whist op {}", op),
    };
    outs.push(out);
  }
  outs.join(" ; ")
}

fn dispatch<T: Raw + Send + Sync>(cmd: &str, t: &mut Toks) -> String where T::Signed: Raw, T::Unsigned: UParse {
  match cmd {
    "conv" => cmd_conv::<T>(t),
    "fromu" => cmd_fromu::<T>(t),
    "sweep" => cmd_sweep::<T>(t),
    "compress" => cmd_compress::<T>(t),
    "simple" => cmd_simple::<T>(t),
    "chunkbytes" => cmd_chunkbytes::<T>(t),
    "autosizes" => cmd_autosizes::<T>(t),
    "bigrun" => cmd_bigrun::<T>(t),
    "bigchunk" => cmd_bigchunk::<T>(t),
    "fibcounts" => cmd_fibcounts::<T>(t),
    "auto" => cmd_auto::<T>(t),
    "rdec" => cmd_rdec::<T>(t),
    "rhist" => cmd_rhist::<T>(t),
    "whist" => cmd_whist::<T>(t),
    _ => unit_cmds::dispatch::<T>(cmd, t),
  }
}

fn run_line(line: &str) -> String {
  let mut t = Toks::new(line);
  let cmd = t.next();
  if let Some(r) = time_cmds::dispatch(cmd, &mut t) { return r; }
  if let Some(r) = unit_cmds::dispatch_untyped(cmd, &mut t) { return r; }
  let dt = t.next();
  match dt {
    "bool" => dispatch::<bool>(cmd, &mut t),
    "i16" => dispatch::<i16>(cmd, &mut t),
    "i32" => dispatch::<i32>(cmd, &mut t),
    "i64" => dispatch::<i64>(cmd, &mut t),
    "i128" => dispatch::<i128>(cmd, &mut t),
    "u16" => dispatch::<u16>(cmd, &mut t),
    "u32" => dispatch::<u32>(cmd, &mut t),
    "u64" => dispatch::<u64>(cmd, &mut t),
    "u128" => dispatch::<u128>(cmd, &mut t),
    "f32" => dispatch::<f32>(cmd, &mut t),
    "f64" => dispatch::<f64>(cmd, &mut t),
    "tsmicros" => dispatch::<TimestampMicros>(cmd, &mut t),
    "tsnanos" => dispatch::<TimestampNanos>(cmd, &mut t),
    "tsmicros96" => dispatch::<TimestampMicros96>(cmd, &mut t),
    "tsnanos96" => dispatch::<TimestampNanos96>(cmd, &mut t),
    _ => panic!("unknown dtype {}", dt),
  }
}

fn main() {
  std::panic::set_hook(Box::new(|_| {}));
  let stdin = std::io::stdin();
  let stdout = std::io::stdout();
  let mut out = std::io::BufWriter::new(stdout.lock());
  for line in stdin.lock().lines() {
    let line = line.unwrap();
    if line.trim().is_empty() { continue; }
    let res = catch_unwind(AssertUnwindSafe(|| run_line(&line)));
    let ans = match res {
      Ok(s) => s,
      Err(p) => {
        let msg = if let Some(s) = p.downcast_ref::<&str>() { s.to_string() }
          else if let Some(s) = p.downcast_ref::<String>() { s.clone() } else { "?".to_string() };
        format!("panic {}", msg.replace('\n', " "))
      }
    };
    writeln!(out, "{}", ans).unwrap();
    out.flush().unwrap();
  }
  let _ = TimestampNanos::try_from(std::time::UNIX_EPOCH);
}
