// leaf-function commands through the verif hooks
use crate::{bits_str, err_str, hex, unhex, Raw, Toks, UParse};
use q_compress::data_types::NumberLike;
use q_compress::verif_hooks as hk;

fn opt_usize(s: &str) -> Option<usize> { if s == "-1" { None } else { Some(s.parse().unwrap()) } }

pub fn dispatch<T: Raw>(cmd: &str, t: &mut Toks) -> String where T::Unsigned: UParse {
  match cmd {
    // kinfo <dt> <lower_u> <upper_u> <gcd>
    "kinfo" => {
      let lo = T::Unsigned::parse_u(t.next());
      let up = T::Unsigned::parse_u(t.next());
      let g = T::Unsigned::parse_u(t.next());
      let p = hk::new_prefix::<T>(1, vec![], T::from_unsigned(lo), T::from_unsigned(up), None, g);
      let (k, lk, uk) = hk::k_info(&p);
      format!("{} {} {}", k, lk, uk)
    }
    "gcdbits" => {
      let r = T::Unsigned::parse_u(t.next());
      format!("{}", hk::gcd_bits_required(r))
    }
    "pairgcd" => {
      let a = T::Unsigned::parse_u(t.next());
      let b = T::Unsigned::parse_u(t.next());
      format!("{}", hk::pair_gcd(a, b))
    }
    "gcd" => {
      let n = t.usize();
      let v: Vec<T::Unsigned> = (0..n).map(|_| T::Unsigned::parse_u(t.next())).collect();
      format!("{}", hk::gcd(&v))
    }
    // unopt <dt> <level> <gcds> <n> sorted..
    "unopt" => {
      let level = t.usize();
      let gcds = t.usize() != 0;
      let n = t.usize();
      let v: Vec<T::Unsigned> = (0..n).map(|_| T::Unsigned::parse_u(t.next())).collect();
      let flags = hk::new_flags(true, 0, true, gcds);
      let ps = hk::choose_unoptimized_prefixes::<T>(&v, level, &flags);
      let mut s = format!("{}", ps.len());
      for (count, weight, lo, up, j, g) in ps {
        s.push_str(&format!(" {} {} {} {} {} {}", count, weight, lo, up, match j { None => -1i64, Some(x) => x as i64 }, g));
      }
      s
    }
    // wdiff <dt> <pre> <x> <n> : `pre` one-bits, then write_diff(x, n); bits back, and both reads
    "wdiff" => {
      let pre = t.usize();
      let x = T::Unsigned::parse_u(t.next());
      let n = t.usize();
      let mut w = hk::BitWriter::default();
      for _ in 0..pre { w.write_one(true); }
      hk::writer_write_diff(&mut w, x, n);
      let nbits = w.bit_size();
      hk::writer_finish_byte(&mut w);
      let bytes = w.drain_bytes();
      let words = hk::BitWords::from(&bytes);
      let mut r = hk::BitReader::from(&words);
      r.seek(pre);
      let checked = match hk::reader_read_diff::<T::Unsigned>(&mut r, n) { Ok(v) => format!("{}", v), Err(e) => err_str(&e).replace(' ', ":") };
      let c_idx = hk::reader_bit_idx(&r);
      let mut r2 = hk::BitReader::from(&words);
      r2.seek(pre);
      let unchecked = hk::reader_unchecked_read_diff::<T::Unsigned>(&mut r2, n);
      format!("{} {} {} {} {} {}", nbits, hex(&bytes), checked, c_idx, unchecked, hk::reader_bit_idx(&r2))
    }
    _ => panic!("unknown command {}", cmd),
  }
}

pub fn dispatch_untyped(cmd: &str, t: &mut Toks) -> Option<String> {
  Some(match cmd {
    "countbits" => {
      let fmin = t.usize() != 0;
      let n = t.usize();
      let f = hk::new_flags(true, 0, fmin, true);
      format!("{}", hk::bits_to_encode_count(&f, n))
    }
    "maxpref" => {
      let level = t.usize();
      let n = t.usize();
      format!("{}", hk::choose_max_n_prefixes(level, n))
    }
    // varint <pre> <x> <j> : written bits (as bit string), then checked and unchecked read back
    "varint" => {
      let pre = t.usize();
      let x = t.usize();
      let j = t.usize();
      let mut w = hk::BitWriter::default();
      for _ in 0..pre { w.write_one(true); }
      hk::writer_write_varint(&mut w, x, j);
      let nbits = w.bit_size();
      // trailing one-bits so that a reader that reads too far sees ones, not padding
      for _ in 0..70 { w.write_one(true); }
      hk::writer_finish_byte(&mut w);
      let bytes = w.drain_bytes();
      let words = hk::BitWords::from(&bytes);
      let mut r = hk::BitReader::from(&words);
      r.seek(pre);
      let v = match hk::reader_read_varint(&mut r, j) { Ok(v) => format!("{}", v), Err(e) => err_str(&e).replace(' ', ":") };
      let used = hk::reader_bit_idx(&r) - pre;
      let mut r2 = hk::BitReader::from(&words);
      r2.seek(pre);
      let v2 = hk::reader_unchecked_read_varint(&mut r2, j);
      let used2 = hk::reader_bit_idx(&r2) - pre;
      let mut r3 = hk::BitReader::from(&words);
      r3.seek(pre);
      let written = r3.read(nbits - pre).unwrap();
      format!("{} {} {} {} {}", bits_str(&written), v, used, v2, used2)
    }
    // flagsparse <hex>
    "flagsparse" => {
      let bytes = unhex(t.next());
      let words = hk::BitWords::from(&bytes);
      let mut r = hk::BitReader::from(&words);
      match hk::flags_parse_from(&mut r) {
        Ok(f) => format!("ok {} {} {} {} @{}", f.use_5_bit_code_len as u8, f.delta_encoding_order, f.use_min_count_encoding as u8, f.use_gcds as u8, hk::reader_bit_idx(&r)),
        Err(e) => err_str(&e),
      }
    }
    // flagswrite <f5> <ord> <fmin> <fgcd>
    "flagswrite" => {
      let f = hk::new_flags(t.usize() != 0, t.usize(), t.usize() != 0, t.usize() != 0);
      let mut w = hk::BitWriter::default();
      match hk::flags_write(&f, &mut w) { Ok(()) => format!("ok {}", hex(&w.drain_bytes())), Err(e) => err_str(&e) }
    }
    _ => return None,
  })
}
