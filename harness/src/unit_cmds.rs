// leaf-function commands through the verif hooks
use crate::{bits_str, err_str, hex, unhex, Raw, Toks, UParse};
use q_compress::data_types::{NumberLike, UnsignedLike};
use std::panic::{catch_unwind, AssertUnwindSafe};
use q_compress::verif_hooks as hk;

fn opt_usize(s: &str) -> Option<usize> { if s == "-1" { None } else { Some(s.parse().unwrap()) } }

pub fn dispatch<T: Raw>(cmd: &str, t: &mut Toks) -> String where T::Unsigned: UParse {
  match cmd {
    // kinfo <dt> <lower_u> <upper_u> <gcd>
    "kinfo" => {
      let lo = T::Unsigned::parse_u(t.next());
      let up = T::Unsigned::parse_u(t.next());
      let g = T::Unsigned::parse_u(t.next());
      let p = hk::new_prefix::<T>(1, vec![], T::from_unsigned(lo), T::from_unsigned(up), None, g);
      let (k, lk, uk) = hk::k_info(&p);
      format!("{} {} {}", k, lk, uk)
    }
    "gcdbits" => {
      let r = T::Unsigned::parse_u(t.next());
      format!("{}", hk::gcd_bits_required(r))
    }
    "pairgcd" => {
      let a = T::Unsigned::parse_u(t.next());
      let b = T::Unsigned::parse_u(t.next());
      format!("{}", hk::pair_gcd(a, b))
    }
    "gcd" => {
      let n = t.usize();
      let v: Vec<T::Unsigned> = (0..n).map(|_| T::Unsigned::parse_u(t.next())).collect();
      format!("{}", hk::gcd(&v))
    }
    // unopt <dt> <level> <gcds> <n> sorted..
    "unopt" => {
      let level = t.usize();
      let gcds = t.usize() != 0;
      let n = t.usize();
      let v: Vec<T::Unsigned> = (0..n).map(|_| T::Unsigned::parse_u(t.next())).collect();
      let flags = hk::new_flags(true, 0, true, gcds);
      let ps = hk::choose_unoptimized_prefixes::<T>(&v, level, &flags);
      let mut s = format!("{}", ps.len());
      for (count, weight, lo, up, j, g) in ps {
        s.push_str(&format!(" {} {} {} {} {} {}", count, weight, lo, up, match j { None => -1i64, Some(x) => x as i64 }, g));
      }
      s
    }
    // wdiff <dt> <pre> <x> <n> : `pre` one-bits, then write_diff(x, n); bits back, and both reads
    "wdiff" => {
      let pre = t.usize();
      let x = T::Unsigned::parse_u(t.next());
      let n = t.usize();
      let mut w = hk::BitWriter::default();
      for _ in 0..pre { w.write_one(true); }
      hk::writer_write_diff(&mut w, x, n);
      let nbits = w.bit_size();
      hk::writer_finish_byte(&mut w);
      let bytes = w.drain_bytes();
      let words = hk::BitWords::from(&bytes);
      let mut r = hk::BitReader::from(&words);
      r.seek(pre);
      let checked = match hk::reader_read_diff::<T::Unsigned>(&mut r, n) { Ok(v) => format!("{}", v), Err(e) => err_str(&e).replace(' ', ":") };
      let c_idx = hk::reader_bit_idx(&r);
      let mut r2 = hk::BitReader::from(&words);
      r2.seek(pre);
      let unchecked = hk::reader_unchecked_read_diff::<T::Unsigned>(&mut r2, n);
      format!("{} {} {} {} {} {}", nbits, hex(&bytes), checked, c_idx, unchecked, hk::reader_bit_idx(&r2))
    }
    // ctsearch <dt> <np> (<count> <lower_u> <upper_u>)*np <nq> <q_u>*nq : the compressor's lookup
    // table over the prefixes (in the given order); answer "<shape> ; <lower-upper | none>*nq"
    "ctsearch" => {
      let np = t.usize();
      let ps: Vec<_> = (0..np).map(|_| {
        let count = t.usize();
        let lo = T::Unsigned::parse_u(t.next());
        let up = T::Unsigned::parse_u(t.next());
        hk::new_prefix::<T>(count, vec![], T::from_unsigned(lo), T::from_unsigned(up), None, T::Unsigned::ONE)
      }).collect();
      let nq = t.usize();
      let qs: Vec<T::Unsigned> = (0..nq).map(|_| T::Unsigned::parse_u(t.next())).collect();
      let (shape, found) = hk::table_search::<T>(&ps, &qs);
      let fs: Vec<String> = found.iter().map(|f| match f { Some((lo, up)) => format!("{}-{}", lo, up), None => "none".to_string() }).collect();
      format!("{} ; {}", shape, if fs.is_empty() { "-".to_string() } else { fs.join(" ") })
    }
    _ => panic!("unknown command {}", cmd),
  }
}

pub fn dispatch_untyped(cmd: &str, t: &mut Toks) -> Option<String> {
  Some(match cmd {
    "countbits" => {
      let fmin = t.usize() != 0;
      let n = t.usize();
      let f = hk::new_flags(true, 0, fmin, true);
      format!("{}", hk::bits_to_encode_count(&f, n))
    }
    "maxpref" => {
      let level = t.usize();
      let n = t.usize();
      format!("{}", hk::choose_max_n_prefixes(level, n))
    }
    // varint <pre> <x> <j> : written bits (as bit string), then checked and unchecked read back
    "varint" => {
      let pre = t.usize();
      let x = t.usize();
      let j = t.usize();
      let mut w = hk::BitWriter::default();
      for _ in 0..pre { w.write_one(true); }
      hk::writer_write_varint(&mut w, x, j);
      let nbits = w.bit_size();
      // trailing one-bits so that a reader that reads too far sees ones, not padding
      for _ in 0..70 { w.write_one(true); }
      hk::writer_finish_byte(&mut w);
      let bytes = w.drain_bytes();
      let words = hk::BitWords::from(&bytes);
      let mut r = hk::BitReader::from(&words);
      r.seek(pre);
      let v = match hk::reader_read_varint(&mut r, j) { Ok(v) => format!("{}", v), Err(e) => err_str(&e).replace(' ', ":") };
      let used = hk::reader_bit_idx(&r) - pre;
      let mut r2 = hk::BitReader::from(&words);
      r2.seek(pre);
      let v2 = hk::reader_unchecked_read_varint(&mut r2, j);
      let used2 = hk::reader_bit_idx(&r2) - pre;
      let mut r3 = hk::BitReader::from(&words);
      r3.seek(pre);
      let written = r3.read(nbits - pre).unwrap();
      format!("{} {} {} {} {}", bits_str(&written), v, used, v2, used2)
    }
    // flagsparse <hex>
    "flagsparse" => {
      let bytes = unhex(t.next());
      let words = hk::BitWords::from(&bytes);
      let mut r = hk::BitReader::from(&words);
      match hk::flags_parse_from(&mut r) {
        Ok(f) => format!("ok {} {} {} {} @{}", f.use_5_bit_code_len as u8, f.delta_encoding_order, f.use_min_count_encoding as u8, f.use_gcds as u8, hk::reader_bit_idx(&r)),
        Err(e) => err_str(&e),
      }
    }
    // flagswrite <f5> <ord> <fmin> <fgcd>
    "flagswrite" => {
      let f = hk::new_flags(t.usize() != 0, t.usize(), t.usize() != 0, t.usize() != 0);
      let mut w = hk::BitWriter::default();
      match hk::flags_write(&f, &mut w) { Ok(()) => format!("ok {}", hex(&w.drain_bytes())), Err(e) => err_str(&e) }
    }
    "wordops" => cmd_wordops(t),
    _ => return None,
  })
}

fn guarded<R>(f: impl FnOnce() -> R) -> Option<R> { catch_unwind(AssertUnwindSafe(f)).ok() }

fn bits01(bits: &[bool]) -> String {
  if bits.is_empty() { return "-".to_string(); }
  bits.iter().map(|&b| if b { '1' } else { '0' }).collect()
}

// wordops <writer ops> | <BitWords ops> <reader ops> : one BitWriter, then one BitReader over the
// drained bytes (grammar in props/words_corr.py).  Every op runs under catch_unwind.
// answer: "<bit size> <hex> <writer events | ok> ; <result>@<bit_idx> ..."
fn cmd_wordops(t: &mut Toks) -> String {
  let mut w = hk::BitWriter::default();
  let mut events: Vec<String> = Vec::new();
  let mut k = 0usize;
  while !t.done() {
    let op = t.next();
    if op == "|" { break; }
    let f: Vec<&str> = op.split(':').collect();
    let r: Option<Option<String>> = guarded(|| match f[0] {
      "o" => { w.write_one(true); None }
      "z" => { w.write_one(false); None }
      "w" => { let bs: Vec<bool> = if f[1] == "-" { vec![] } else { f[1].chars().map(|c| c == '1').collect() }; w.write(&bs); None }
      "u" => { hk::writer_write_usize(&mut w, f[2].parse::<u64>().expect("bad u64") as usize, f[1].parse().unwrap()); None }
      "d" => { hk::writer_write_diff::<u128>(&mut w, f[2].parse().expect("bad u128"), f[1].parse().unwrap()); None }
      "D" => { hk::writer_write_diff::<u64>(&mut w, f[2].parse().expect("bad u64"), f[1].parse().unwrap()); None }
      "v" => { hk::writer_write_varint(&mut w, f[1].parse().unwrap(), f[2].parse().unwrap()); None }
      "f" => { hk::writer_finish_byte(&mut w); None }
      "a" => match w.write_aligned_bytes(&unhex(f[1])) { Ok(()) => None, Err(e) => Some(format!("e{}:{}", k, crate::kind_str(e.kind))) },
      "O" => { hk::writer_overwrite_usize(&mut w, f[1].parse().unwrap(), f[2].parse::<u64>().expect("bad u64") as usize, f[3].parse().unwrap()); None }
      "q" => Some(format!("q{}:{}/{}", k, w.bit_size(), w.byte_size())),
      _ => { eprintln!("bad wordops writer op {}", op); std::process::abort() }
    });
    match r { Some(None) => (), Some(Some(e)) => events.push(e), None => events.push(format!("p{}", k)) }
    k += 1;
  }
  let nbits = w.bit_size();
  hk::writer_finish_byte(&mut w);
  let bytes = w.drain_bytes();
  let head = format!("{} {} {}", nbits, hex(&bytes), if events.is_empty() { "ok".to_string() } else { events.join(",") });
  // BitWords ops come first; the reader borrows the words afterwards
  let mut words = hk::BitWords::from(&bytes);
  let mut outs: Vec<String> = Vec::new();
  let mut rest: Vec<&str> = Vec::new();
  while !t.done() {
    let op = t.next();
    let f: Vec<&str> = op.split(':').collect();
    if !rest.is_empty() || (f[0] != "x" && f[0] != "t") { rest.push(op); continue; }
    let ok = guarded(|| match f[0] {
      "x" => words.extend_bytes(unhex(f[1])),
      _ => words.truncate_left(f[1].parse().unwrap()),
    });
    let total = hk::BitReader::from(&words).bits_remaining();
    outs.push(format!("{}@{}", if ok.is_some() { f[0] } else { "panic" }, total));
  }
  let mut r = hk::BitReader::from(&words);
  for op in rest {
    let f: Vec<&str> = op.split(':').collect();
    let n: usize = if f.len() > 1 { f[1].parse().unwrap() } else { 0 };
    let kind = |e: q_compress::errors::QCompressError| crate::kind_str(e.kind).to_string();
    let out = guarded(|| match f[0] {
      "1" => match r.read_one() { Ok(b) => (b as u8).to_string(), Err(e) => kind(e) },
      "b" => match r.read(n) { Ok(bs) => bits01(&bs), Err(e) => kind(e) },
      "r" => match hk::reader_read_diff::<u128>(&mut r, n) { Ok(v) => v.to_string(), Err(e) => kind(e) },
      "R" => match hk::reader_read_diff::<u64>(&mut r, n) { Ok(v) => v.to_string(), Err(e) => kind(e) },
      "U" => hk::reader_unchecked_read_diff::<u128>(&mut r, n).to_string(),
      "V" => hk::reader_unchecked_read_diff::<u64>(&mut r, n).to_string(),
      "s" => { r.seek(n); "s".to_string() }
      "S" => { r.seek_to(n); "S".to_string() }
      "A" => match r.read_aligned_bytes(n) { Ok(bs) => hex(&bs), Err(e) => kind(e) },
      "T" => match hk::reader_read_prefix_table_idx(&mut r, n) { Ok((bits_read, idx)) => format!("{}/{}", bits_read, idx), Err(e) => kind(e) },
      _ => { eprintln!("bad wordops reader op {}", op); std::process::abort() }
    });
    outs.push(format!("{}@{}", out.unwrap_or_else(|| "panic".to_string()), hk::reader_bit_idx(&r)));
  }
  format!("{} ; {}", head, if outs.is_empty() { "-".to_string() } else { outs.join(" ") })
}
