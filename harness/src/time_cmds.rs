// SystemTime <-> timestamp conversions (C15)
use std::convert::TryFrom;
use std::time::{Duration, SystemTime, UNIX_EPOCH};
use crate::{err_str, Toks};
use q_compress::data_types::{TimestampMicros, TimestampMicros96, TimestampNanos, TimestampNanos96};

fn mk_time(sec: i64, nanos: u32) -> Option<SystemTime> {
  let base = if sec >= 0 {
    UNIX_EPOCH.checked_add(Duration::new(sec as u64, 0))?
  } else {
    UNIX_EPOCH.checked_sub(Duration::new(sec.unsigned_abs(), 0))?
  };
  base.checked_add(Duration::new(0, nanos))
}

fn time_str(t: SystemTime) -> String {
  match t.duration_since(UNIX_EPOCH) {
    Ok(d) => format!("{} {}", d.as_secs(), d.subsec_nanos()),
    Err(e) => {
      let d = e.duration();
      if d.subsec_nanos() == 0 { format!("-{} 0", d.as_secs()) }
      else { format!("{} {}", -(d.as_secs() as i128) - 1, 1_000_000_000 - d.subsec_nanos()) }
    }
  }
}

pub fn dispatch(cmd: &str, t: &mut Toks) -> Option<String> {
  Some(match cmd {
    // st2ts <type> <sec> <nanos>
    "st2ts" => {
      let ty = t.next();
      let sec: i64 = t.next().parse().unwrap();
      let nanos: u32 = t.next().parse().unwrap();
      let st = match mk_time(sec, nanos) { Some(s) => s, None => return Some("unrepresentable".to_string()) };
      match ty {
        "tsmicros" => match TimestampMicros::try_from(st) { Ok(x) => format!("ok {}", x.to_total_parts()), Err(e) => err_str(&e) },
        "tsnanos" => match TimestampNanos::try_from(st) { Ok(x) => format!("ok {}", x.to_total_parts()), Err(e) => err_str(&e) },
        "tsmicros96" => format!("ok {}", TimestampMicros96::from(st).to_total_parts()),
        "tsnanos96" => format!("ok {}", TimestampNanos96::from(st).to_total_parts()),
        _ => panic!("bad ts type"),
      }
    }
    // ts2st <type> <parts>
    "ts2st" => {
      let ty = t.next();
      let parts: i128 = t.next().parse().unwrap();
      match ty {
        "tsmicros" => format!("ok {}", time_str(SystemTime::from(TimestampMicros::new(parts as i64)))),
        "tsnanos" => format!("ok {}", time_str(SystemTime::from(TimestampNanos::new(parts as i64)))),
        "tsmicros96" => {
          let x = <TimestampMicros96 as q_compress::data_types::NumberLike>::from_signed(parts);
          match SystemTime::try_from(x) { Ok(s) => format!("ok {}", time_str(s)), Err(e) => err_str(&e) }
        }
        "tsnanos96" => {
          let x = <TimestampNanos96 as q_compress::data_types::NumberLike>::from_signed(parts);
          match SystemTime::try_from(x) { Ok(s) => format!("ok {}", time_str(s)), Err(e) => err_str(&e) }
        }
        _ => panic!("bad ts type"),
      }
    }
    // ts96new <type> <parts>
    "ts96new" => {
      let ty = t.next();
      let parts: i128 = t.next().parse().unwrap();
      match ty {
        "tsmicros96" => match TimestampMicros96::new(parts) { Ok(x) => format!("ok {}", x.to_total_parts()), Err(e) => err_str(&e) },
        "tsnanos96" => match TimestampNanos96::new(parts) { Ok(x) => format!("ok {}", x.to_total_parts()), Err(e) => err_str(&e) },
        _ => panic!("bad ts type"),
      }
    }
    _ => return None,
  })
}
