"""Random well-formed .qco ASTs (C03 domain): legal files biased to what the current
compressor never emits."""
import random
import lib
import numgen


def random_tree(rng, leaves, max_depth):
    """codes of a random complete binary tree with the given number of leaves"""
    codes = [""]
    while len(codes) < leaves:
        cand = [c for c in codes if len(c) < max_depth]
        if not cand:
            break
        # bias to deep combs sometimes
        c = max(cand, key=len) if rng.random() < 0.4 else rng.choice(cand)
        codes.remove(c)
        codes += [c + "0", c + "1"]
    rng.shuffle(codes)
    return codes


def gen_chunk(rng, dt, flags, allow_empty=True, max_nums=120, max_depth=None):
    f5, order, fmin, fgcd = flags
    pd = dt if order == 0 else lib.SIGNED_OF[dt]
    w = lib.UBITS[pd]
    ulo, uhi = numgen.u_range(pd)
    if pd == "bool":
        ulo, uhi = 0, 1
    span = uhi - ulo
    depth_cap = 15 if not f5 else (max_depth or 20)
    nprime = 0 if (allow_empty and rng.random() < 0.07) else rng.randint(1, max_nums)
    if nprime == 0 and rng.random() < 0.5:
        table_codes = []
    else:
        table_codes = random_tree(rng, rng.choice([1, 1, 2, 3, 5, 8, 17, 40]), depth_cap)
    # common gcd choice
    if fgcd:
        common = rng.choice([-1, -1, 1, 1, rng.choice([2, 3, 10, 1000])])
    else:
        common = 1
    table = []
    for code in table_codes:
        shape = rng.random()
        if shape < 0.25 or span == 0:
            lo = rng.randint(ulo, uhi); up = lo
        elif shape < 0.7:
            k = rng.randint(0, max(0, span.bit_length() - 1))
            width = max(0, min(span, (1 << k) + rng.choice([-2, -1, 0, 1, 2])))
            lo = rng.randint(ulo, uhi - width); up = lo + width
        elif shape < 0.8:
            lo, up = ulo, uhi
        else:
            a, b = rng.randint(ulo, uhi), rng.randint(ulo, uhi)
            lo, up = min(a, b), max(a, b)
        rngw = up - lo
        if common == -1:
            if rngw >= 1 and rng.random() < 0.6:
                g = rng.choice([rngw, max(1, rngw // 2), 2, 3, 7, 1000, rng.randint(1, rngw)])
                g = max(1, min(g, rngw))
            else:
                g = 1
        else:
            g = common
        jump = rng.choice([-1, -1, -1, 0, 24, rng.randint(0, 24)]) if rng.random() < 0.5 else -1
        table.append(dict(count=0, lower=lo, upper=up, code="b" + code, jump=jump, gcd=g))
    # blocks
    blocks = []
    left = nprime
    if not table:
        nprime = 0
        left = 0
    while left > 0:
        i = rng.randrange(len(table))
        p = table[i]
        r = (p["upper"] - p["lower"]) // p["gcd"]
        if p["jump"] >= 0:
            reps = min(left, rng.choice([1, 1, 2, 3, 30, 31, 64, left]))
        else:
            reps = 1
        offs = [rng.choice([0, r, r // 2, rng.randint(0, r)]) for _ in range(reps)]
        blocks.append((i, offs))
        p["count"] += reps
        left -= reps
    n = nprime + order if (nprime > 0 or rng.random() < 0.5) else rng.randint(0, order)
    if nprime == 0 and n > order:
        n = order
    cb = (n + 1 - 1).bit_length() if fmin else 24
    for p in table:
        p["count"] = min(p["count"], (1 << cb) - 1) if cb > 0 else 0
    slo, shi = numgen.raw_range(lib.SIGNED_OF[dt])
    moments = [rng.choice([0, 1, -1 if slo < 0 else 0, slo, shi, rng.randint(slo, shi)]) for _ in range(order)]
    return dict(n=n, moments=moments, common=common, table=table, blocks=blocks)


def gen_file(rng, dt=None, max_depth=None):
    dt = dt or rng.choice(lib.DTYPES)
    f5 = rng.randint(0, 1)
    order = rng.choice([0, 0, 0, 1, 2, 7, rng.randint(0, 7)])
    flags = (f5, order, rng.randint(0, 1), rng.randint(0, 1))
    extra = rng.choice([0, 0, 0, 1, 2])
    nch = rng.choice([0, 1, 1, 1, 2, 3])
    chunks = [gen_chunk(rng, dt, flags, max_depth=max_depth) for _ in range(nch)]
    return dict(dt=dt, flags=flags, extra=extra, chunks=chunks)


def gen_tight_end_file(rng, dt=None):
    """A legal file whose last number leaves as few bits as possible behind it: a comb-shaped code
    tree 10..20 levels deep, every range single-valued (no offset bits, no run length), the body a
    whole number of bytes and its last number carrying the 1-bit code -- so that after the last
    code only the 8 bits of the footer byte remain.  (A decoder whose table lookup wants more
    bits than that at once must not mistake this for missing data.)"""
    dt = dt or rng.choice([d for d in lib.DTYPES if d != "bool"])
    fmin = rng.randint(0, 1)
    flags = (1, 0, fmin, 0)
    ulo, uhi = numgen.u_range(dt)
    depth = rng.randint(10, 20)
    codes = ["1" * i + "0" for i in range(depth)] + ["1" * depth]
    vals = rng.sample(range(ulo, min(uhi, ulo + 10 ** 6) + 1), len(codes))
    table = [dict(count=0, lower=v, upper=v, code="b" + c, jump=-1, gcd=1) for c, v in zip(codes, vals)]
    blocks = []
    bits = 0
    for _ in range(rng.randint(0, 40)):
        i = rng.randrange(len(table)) if rng.random() < 0.5 else rng.randrange(min(4, len(table)))
        blocks.append((i, [0])); table[i]["count"] += 1; bits += len(codes[i])
    while True:
        blocks.append((0, [0])); table[0]["count"] += 1; bits += 1
        if bits % 8 == 0:
            break
    n = len(blocks)
    chunk = dict(n=n, moments=[], common=1, table=table, blocks=blocks)
    return dict(dt=dt, flags=flags, extra=0, chunks=[chunk])


def specenc_query(a):
    f = a["flags"]
    parts = ["specenc", a["dt"], str(f[0]), str(f[1]), str(f[2]), str(f[3]), str(a["extra"]), str(len(a["chunks"]))]
    for c in a["chunks"]:
        parts += [str(c["n"]), str(len(c["moments"]))] + [str(m) for m in c["moments"]]
        parts += [str(c["common"]), str(len(c["table"]))]
        for p in c["table"]:
            parts += [str(p["count"]), str(p["lower"]), str(p["upper"]), p["code"], str(p["jump"]), str(p["gcd"])]
        parts += [str(len(c["blocks"]))]
        for (i, offs) in c["blocks"]:
            parts += [str(i), str(len(offs))] + [str(o) for o in offs]
    return " ".join(parts)
