"""Structured, boundary-dense generators of number sequences (as raw integers per dtype)."""
import random
import lib

W = lib.UBITS


def raw_range(dt):
    w = W[dt]
    if dt == "bool":
        return (0, 1)
    if dt[0] in "uf":
        return (0, (1 << w) - 1)
    if dt == "tsmicros96":
        return (-(10 ** 6) * (1 << 63), 10 ** 6 * (1 << 63) - 1)
    if dt == "tsnanos96":
        return (-(10 ** 9) * (1 << 63), 10 ** 9 * (1 << 63) - 1)
    return (-(1 << (w - 1)), (1 << (w - 1)) - 1)


def to_u(dt, x):
    w = W[dt]
    if dt == "bool":
        return x
    if dt[0] == "u":
        return x
    if dt[0] == "f":
        s = 1 << (w - 1)
        return ((1 << w) - 1 - x) if x >= s else x + s
    return (x + (1 << (w - 1))) % (1 << w)


def of_u(dt, u):
    w = W[dt]
    if dt == "bool":
        return 1 if u > 0 else 0
    if dt[0] == "u":
        return u
    if dt[0] == "f":
        s = 1 << (w - 1)
        return u - s if u >= s else (1 << w) - 1 - u
    return u - (1 << (w - 1))


def u_range(dt):
    lo, hi = raw_range(dt)
    if dt[0] == "f":
        return (0, (1 << W[dt]) - 1)
    return (to_u(dt, lo), to_u(dt, hi))


def clampu(dt, u):
    lo, hi = u_range(dt)
    return max(lo, min(hi, u))


# run-length prefix spanning more than one value (offsets of the run take bits): a low value under
# 20%, a long duplicate run reaching >= 80% cumulative, then outliers; needs few prefixes (low level)
# rl_range: one value holding 80-95% with a few values just below and just above it (with a
# budget of two ranges the run-length range is [lowest .. dominant], i.e. not single-valued);
# rl_range_cum: the same shape in the first differences (integer types, wrapping)
EXTRA_SHAPES = ["rl_wide", "rl_range", "rl_range_cum"]
SHAPES = ["constant", "two_pow2", "extremes", "lattice", "sparse", "poly", "uniform", "small", "clusters",
          "sorted_dups", "floats_special", "two_lattices", "near_full", "walk", "zipf"]


def gen(dt, shape, n, rng):
    """Return a list of n raw values of dtype dt."""
    ulo, uhi = u_range(dt)
    w = W[dt]
    if dt == "bool":
        if shape == "constant":
            return [rng.randint(0, 1)] * n
        if shape == "sparse":
            p = rng.choice([0.01, 0.05, 0.1, 0.2])
            d = rng.randint(0, 1)
            return [d if rng.random() > p else 1 - d for _ in range(n)]
        return [rng.randint(0, 1) for _ in range(n)]
    span = uhi - ulo
    if shape == "constant":
        c = rng.randint(ulo, uhi)
        us = [c] * n
    elif shape == "two_pow2":
        k = rng.randint(0, span.bit_length() - 1)
        dlt = rng.choice([-2, -1, 0, 1, 2])
        width = max(1, min(span, (1 << k) + dlt))
        a = rng.randint(ulo, uhi - width)
        us = [a if rng.random() < 0.5 else a + width for _ in range(n)]
        if n >= 3 and rng.random() < 0.5:
            us[rng.randrange(n)] = a + rng.randint(0, width)
    elif shape == "extremes":
        pool = [ulo, uhi, ulo + 1, uhi - 1, (ulo + uhi) // 2, (ulo + uhi) // 2 + 1]
        us = [rng.choice(pool) for _ in range(n)]
    elif shape == "lattice":
        g = rng.choice([2, 3, 5, 7, 10, 100, 1000, (1 << rng.randint(1, max(1, span.bit_length() - 4))) + rng.choice([-1, 0, 1])])
        g = max(2, min(g, max(2, span // 4)))
        m = max(1, min(span // g, rng.choice([3, 10, 1000, 10 ** 6])))
        a = rng.randint(ulo, uhi - g * m)
        us = [a + g * rng.randint(0, m) for _ in range(n)]
    elif shape == "two_lattices":
        g1 = rng.choice([2, 3, 6, 10, 15, 100])
        g2 = rng.choice([4, 9, 14, 21, 1000])
        m = max(1, min(span // (4 * max(g1, g2)), 500))
        a = rng.randint(ulo, uhi - 4 * max(g1, g2) * m)
        b = a + 2 * max(g1, g2) * m + rng.randint(0, 5)
        us = [(a + g1 * rng.randint(0, m)) if rng.random() < 0.5 else (b + g2 * rng.randint(0, m)) for _ in range(n)]
    elif shape == "sparse":
        dom = rng.randint(ulo, uhi)
        p = rng.choice([0.001, 0.01, 0.05, 0.1, 0.19, 0.21])
        kind = rng.choice(["const", "cluster", "full"])
        us = []
        while len(us) < n:
            if rng.random() < 0.3:
                us += [dom] * rng.randint(1, 200)
            if rng.random() < p * 5:
                o = {"const": clampu(dt, dom + 7), "cluster": clampu(dt, dom + rng.randint(-50, 50)), "full": rng.randint(ulo, uhi)}[kind]
                us.append(o)
            else:
                us.append(dom)
        us = us[:n]
    elif shape == "poly":
        deg = rng.randint(0, 4)
        coef = [rng.randint(-50, 50) for _ in range(deg + 1)]
        base = rng.choice([ulo, uhi, (ulo + uhi) // 2, rng.randint(ulo, uhi)])
        noise = rng.choice([0, 0, 1, 3])
        us = []
        for i in range(n):
            v = base + sum(c * i ** j for j, c in enumerate(coef)) + (rng.randint(-noise, noise) if noise else 0)
            us.append(ulo + (v - ulo) % (span + 1))
    elif shape == "uniform":
        us = [rng.randint(ulo, uhi) for _ in range(n)]
    elif shape == "small":
        r = rng.choice([1, 2, 3, 7, 8, 9, 255, 256, 257, 1000])
        r = min(r, span)
        a = rng.randint(ulo, uhi - r)
        us = [a + rng.randint(0, r) for _ in range(n)]
    elif shape == "clusters":
        nc = rng.randint(2, 40)
        cs = [rng.randint(ulo, uhi) for _ in range(nc)]
        wd = rng.choice([0, 1, 2, 10])
        us = [clampu(dt, rng.choice(cs) + rng.randint(0, wd)) for _ in range(n)]
    elif shape == "sorted_dups":
        pool = sorted(rng.randint(ulo, uhi) for _ in range(max(1, n // rng.randint(1, 10))))
        us = sorted(rng.choice(pool) for _ in range(n))
    elif shape == "near_full":
        us = [rng.choice([ulo, uhi]) if rng.random() < 0.3 else rng.randint(ulo, uhi) for _ in range(n)]
        if n >= 2:
            us[0], us[-1] = ulo, uhi
    elif shape == "walk":
        v = rng.randint(ulo, uhi)
        step = rng.choice([1, 3, 1000, 1 << max(1, w // 2)])
        us = []
        for _ in range(n):
            v = ulo + (v + rng.randint(-step, step) - ulo) % (span + 1)
            us.append(v)
    elif shape == "zipf":
        # few distinct (single-valued-range) values with geometric frequencies: Huffman codes of
        # different lengths on zero-width ranges
        k = rng.randint(3, 12)
        vals = sorted(set(rng.randint(ulo, uhi) for _ in range(k)))
        if rng.random() < 0.5:
            vals = [min(uhi, vals[0] + i * rng.choice([1, 2, 1000])) for i in range(len(vals))]
        order = list(vals)
        rng.shuffle(order)
        us = []
        for _ in range(n):
            i = 0
            while i < len(order) - 1 and rng.random() < 0.5:
                i += 1
            us.append(order[i])
    elif shape == "rl_wide":
        n = max(n, 1100)
        a = rng.randint(ulo, max(ulo, uhi - 1000))
        dlt = rng.choice([1, 2, 3, 7])
        na = int(n * rng.uniform(0.10, 0.19))
        nb = int(n * rng.uniform(0.62, 0.75))
        us = [a] * na + [min(uhi, a + dlt)] * nb
        while len(us) < n:
            us.append(rng.choice([min(uhi, a + rng.randint(8, 900)), rng.randint(ulo, uhi)]))
        rng.shuffle(us)
    elif shape in ("rl_range", "rl_range_cum"):
        n = max(n, rng.randint(1050, 2600))
        v = rng.randint(ulo + min(1000, span // 4), uhi - min(1000, span // 4))
        nb = int(n * rng.uniform(0.8, 0.95))
        spread = rng.choice([3, 9, 60])
        us = [v] * nb
        while len(us) < n:
            us.append(clampu(dt, v + rng.choice([-1, 1]) * rng.randint(1, spread)))
        rng.shuffle(us)
        if shape == "rl_range_cum" and dt[0] in "iu" or dt in ("tsmicros", "tsnanos"):
            acc = rng.randint(ulo, uhi)
            out = []
            for u in us:
                out.append(acc)
                acc = (acc + (u - v) + rng.choice([0, 1000])) % (1 << w) if False else (acc + (u - v) + 1000) % (1 << w)
            us = out
    elif shape == "floats_special":
        if dt[0] != "f":
            return gen(dt, "uniform", n, rng)
        m = 23 if dt == "f32" else 52
        e = w - 1 - m
        expmax = ((1 << e) - 1) << m
        pool = []
        for s in (0, 1):
            b = s << (w - 1)
            pool += [b, b + 1, b + expmax, b + expmax + 1, b + expmax + (1 << (m - 1)), b + expmax + (1 << m) - 1,
                     b + (1 << m), b + (1 << m) - 1, b + (127 << m if dt == "f32" else 1023 << m)]
        return [rng.choice(pool) for _ in range(n)]
    else:
        raise ValueError(shape)
    return [of_u(dt, clampu(dt, u)) for u in us]


def random_case(dt, rng, max_n=300):
    shape = rng.choice(SHAPES)
    nchoice = rng.random()
    if nchoice < 0.25:
        n = rng.randint(1, 9)
    elif nchoice < 0.8:
        n = rng.randint(10, max_n)
    else:
        n = rng.randint(max_n, max_n * 10)
    return shape, gen(dt, shape, n, rng)
