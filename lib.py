"""Shared machinery of the /verif checks: build, prove, run implementation and model,
compare, decide, write evidence."""
import fcntl, hashlib, json, os, random, re, subprocess, sys, time
from concurrent.futures import ThreadPoolExecutor

ROOT = os.path.dirname(os.path.abspath(__file__))
COQ = os.path.join(ROOT, "coq")
OCAML = os.path.join(ROOT, "ocaml")
HARNESS = os.path.join(ROOT, "harness")
WORK = os.path.join(ROOT, "work")
REPLAYS = os.path.join(ROOT, "replays")
EVIDENCE = os.path.join(ROOT, "evidence")
REPO = "/repo"
NPROC = 16

ENV = dict(os.environ, CARGO_NET_OFFLINE="true", CARGO_TERM_COLOR="never")

FORBIDDEN = re.compile(r"\b(Admitted|admit|Axiom|Axioms|Parameter|Parameters|Conjecture|Conjectures|Hypothesis|Variable|Variables|Hypotheses)\b|Unset\s+Guard|Unset\s+Positivity|Unset\s+Universe|bypass_check|type-in-type|impredicative-set|Admit\s+Obligations")

DTYPES = ["bool", "i16", "i32", "i64", "i128", "u16", "u32", "u64", "u128", "f32", "f64",
          "tsmicros", "tsnanos", "tsmicros96", "tsnanos96"]
UBITS = {"bool": 8, "i16": 16, "i32": 32, "i64": 64, "i128": 128, "u16": 16, "u32": 32, "u64": 64,
         "u128": 128, "f32": 32, "f64": 64, "tsmicros": 64, "tsnanos": 64, "tsmicros96": 128, "tsnanos96": 128}
SIGNED_OF = {"bool": "bool", "i16": "i16", "u16": "i16", "i32": "i32", "u32": "i32", "f32": "i32",
             "i64": "i64", "u64": "i64", "f64": "i64", "tsmicros": "i64", "tsnanos": "i64",
             "i128": "i128", "u128": "i128", "tsmicros96": "i128", "tsnanos96": "i128"}


class BuildBroken(Exception):
    def __init__(self, stage, detail):
        super().__init__(f"{stage}: {detail[:400]}")
        self.stage = stage
        self.detail = detail


def sh(cmd, cwd=None, timeout=3600, check=False):
    p = subprocess.run(cmd, cwd=cwd, shell=isinstance(cmd, str), env=ENV, stdout=subprocess.PIPE,
                       stderr=subprocess.STDOUT, timeout=timeout, text=True)
    if check and p.returncode != 0:
        raise BuildBroken(str(cmd)[:80], p.stdout[-4000:])
    return p.returncode, p.stdout


class Lock:
    def __enter__(self):
        os.makedirs(WORK, exist_ok=True)
        self.f = open(os.path.join(WORK, ".lock"), "w")
        fcntl.flock(self.f, fcntl.LOCK_EX)
        return self

    def __exit__(self, *a):
        fcntl.flock(self.f, fcntl.LOCK_UN)
        self.f.close()


def newest_mtime(paths):
    m = 0
    for p in paths:
        if os.path.exists(p):
            m = max(m, os.path.getmtime(p))
    return m


def model_sources():
    d = os.path.join(COQ, "Model")
    return [os.path.join(d, f) for f in sorted(os.listdir(d)) if f.endswith(".v")]


def build_translate():
    rc, out = sh([sys.executable, os.path.join(ROOT, "tools", "gen_consts.py")])
    if rc != 0:
        raise BuildBroken("translate", out)
    rc2, out2 = sh([sys.executable, os.path.join(ROOT, "tools", "gen_assets.py")])
    if rc2 != 0:
        raise BuildBroken("translate-assets", out2)
    return (out.strip() + "; " + out2.strip())


def coq_make(targets, timeout=3000):
    """Full .vo build of the given targets (never -vos)."""
    mk = os.path.join(COQ, "Makefile")
    proj = os.path.join(COQ, "_CoqProject")
    if not os.path.exists(mk) or os.path.getmtime(mk) < os.path.getmtime(proj):
        sh("coq_makefile -f _CoqProject -o Makefile", cwd=COQ, check=True)
    rc, out = sh(["make", "-j%d" % NPROC] + targets, cwd=COQ, timeout=timeout)
    if rc != 0:
        raise BuildBroken("coq", out[-6000:])
    return out


def build_model():
    """Coq model -> extracted OCaml -> native driver."""
    coq_make(["Model/%s.vo" % os.path.basename(f)[:-2] for f in model_sources()])
    ml = os.path.join(OCAML, "qco_model.ml")
    drv = os.path.join(OCAML, "driver")
    vos = [f + "o" for f in model_sources()] + [os.path.join(COQ, "Extract.v")]
    if not os.path.exists(ml) or os.path.getmtime(ml) < newest_mtime(vos):
        rc, out = sh("coqc -Q ../coq QCo ../coq/Extract.v", cwd=OCAML, timeout=600)
        if rc != 0:
            raise BuildBroken("extraction", out[-4000:])
    if not os.path.exists(drv) or os.path.getmtime(drv) < newest_mtime([ml, os.path.join(OCAML, "driver.ml")]):
        rc, out = sh("ocamlfind ocamlopt -O2 -package zarith,unix -linkpkg qco_model.mli qco_model.ml driver.ml -o driver",
                     cwd=OCAML, timeout=600)
        if rc != 0 or not os.path.exists(drv):
            raise BuildBroken("ocaml", out[-4000:])


def build_harness(release=False):
    lock = os.path.join(HARNESS, "Cargo.lock")
    if not os.path.exists(lock):
        sh(["cp", os.path.join(REPO, "Cargo.lock"), lock])
    cmd = ["cargo", "build", "--offline"] + (["--release"] if release else [])
    rc, out = sh(cmd, cwd=HARNESS, timeout=1800)
    if rc != 0:
        raise BuildBroken("harness", out[-6000:])


def harness_bin(release=False):
    return os.path.join(HARNESS, "target", "release" if release else "debug", "qco_harness")


MODEL_BIN = os.path.join(OCAML, "driver")


def _run_lines(binary, lines, timeout, line_timeout=None):
    if not lines:
        return []
    env = ENV if line_timeout is None else dict(ENV, VERIF_MODEL_LINE_TIMEOUT=str(line_timeout))
    p = subprocess.run(["bash", "-c", "ulimit -s unlimited 2>/dev/null; exec " + binary], input="\n".join(lines) + "\n", stdout=subprocess.PIPE,
                       stderr=subprocess.PIPE, text=True, timeout=timeout, env=env)
    out = p.stdout.split("\n")
    if out and out[-1] == "":
        out.pop()
    if len(out) != len(lines):
        # the process died (abort, stack overflow, OOM): find the line it died on
        k = len(out)
        out = out + ["crash rc=%s %s" % (p.returncode, p.stderr.strip()[-200:].replace("\n", " "))]
        if k + 1 < len(lines):
            out = out + _run_lines(binary, lines[k + 1:], timeout, line_timeout)
    return out


def run_many(binary, lines, shards=NPROC, timeout=1800, line_timeout=None):
    """Run command lines through `binary`, sharded over processes, preserving order."""
    n = len(lines)
    if n == 0:
        return []
    shards = max(1, min(shards, n))
    # round-robin shards: expensive neighbours (mutants of one file) spread over all processes
    parts = [lines[i::shards] for i in range(shards)]
    with ThreadPoolExecutor(max_workers=len(parts)) as ex:
        res = list(ex.map(lambda part: _run_lines(binary, part, timeout, line_timeout), parts))
    out = [None] * n
    for i, part in enumerate(res):
        out[i::shards] = part
    return out


def run_impl(lines, release=False, **kw):
    return run_many(harness_bin(release), lines, **kw)


def run_model(lines, **kw):
    return run_many(MODEL_BIN, lines, **kw)


# ---------------------------------------------------------------- proofs

def scan_forbidden():
    bad = []
    for dp, _, fs in os.walk(COQ):
        for f in fs:
            if f.endswith(".v"):
                p = os.path.join(dp, f)
                txt = open(p).read()
                txt = re.sub(r"\(\*.*?\*\)", "", txt, flags=re.S)
                for i, line in enumerate(txt.split("\n")):
                    if FORBIDDEN.search(line):
                        bad.append("%s:%d:%s" % (os.path.relpath(p, ROOT), i + 1, line.strip()[:100]))
    return bad


ALLOWED_AXIOMS = set()  # the development is axiom-free


def prove(prop, theorems, timeout=3000):
    """Build Props/<prop>.vo from the regenerated constants and audit the assumptions of
    every listed theorem.  Returns (ok, details)."""
    details = {"theorems": theorems}
    bad = scan_forbidden()
    if bad:
        details["forbidden"] = bad
        return False, details
    try:
        coq_make(["Props/%s.vo" % prop], timeout=timeout)
    except BuildBroken as e:
        details["coq_error"] = e.detail[-3000:]
        m = re.search(r'File "\./([^"]+)", line (\d+)', e.detail)
        if m:
            details["failed_at"] = "%s:%s" % (m.group(1), m.group(2))
        return False, details
    os.makedirs(WORK, exist_ok=True)
    audit = os.path.join(WORK, "Audit_%s.v" % prop)
    with open(audit, "w") as f:
        f.write("From QCo.Props Require Import %s.\n" % prop)
        for t in theorems:
            f.write('Print Assumptions %s.\n' % t)
    rc, out = sh(["coqc", "-Q", COQ, "QCo", audit], cwd=WORK, timeout=600)
    details["audit_output"] = out[-3000:]
    if rc != 0:
        details["coq_error"] = out[-3000:]
        return False, details
    closed = out.count("Closed under the global context")
    axioms = []
    if closed != len(theorems):
        for line in out.split("\n"):
            m = re.match(r"^\s*([A-Za-z_][\w.']*)\s*:", line)
            if m and m.group(1) not in ALLOWED_AXIOMS:
                axioms.append(m.group(1))
        if axioms:
            details["unexpected_axioms"] = axioms
            return False, details
    details["assumptions"] = "Closed under the global context (x%d)" % closed
    return True, details


def coqchk(prop, timeout=3000):
    rc, out = sh("coqchk -o -silent -Q . QCo QCo.Props.%s" % prop, cwd=COQ, timeout=timeout)
    return rc == 0, out[-3000:]


# ---------------------------------------------------------------- verdicts

class Result:
    def __init__(self, prop, tier, seed):
        self.prop = prop
        self.tier = tier
        self.seed = seed
        self.t0 = time.time()
        self.obligations = []   # (name, kind 'T'|'K'|'O', ok, note)
        self.violations = []    # dicts: what, case, replay
        self.broken = []        # obligations broken without failing input
        self.evaluations = 0
        self.nontrivial = set()
        self.samples = []
        self.dist = {}
        self.notes = []
        self.known_hits = []

    def oblige(self, name, kind, ok, note=""):
        self.obligations.append((name, kind, bool(ok), note))

    def count(self, key, n=1):
        self.dist[key] = self.dist.get(key, 0) + n

    def sample(self, s, limit=6):
        if len(self.samples) < limit:
            self.samples.append(s if len(str(s)) < 600 else str(s)[:600] + "...")

    def seen(self, case_key, nontrivial=True):
        self.evaluations += 1
        if nontrivial:
            self.nontrivial.add(hashlib.sha1(str(case_key).encode()).hexdigest()[:16])


def load_known():
    p = os.path.join(ROOT, "known_findings.json")
    if not os.path.exists(p):
        return []
    return json.load(open(p)).get("findings", [])


def match_known(prop, tags):
    """A violation is a known finding iff an *open* entry for the property lists a class
    tag the violation carries."""
    for k in load_known():
        if k.get("property") == prop and k.get("status") == "open" and k.get("class") in tags:
            return k
    return None


def write_replay(prop, payload):
    os.makedirs(REPLAYS, exist_ok=True)
    h = hashlib.sha1(json.dumps(payload, sort_keys=True, default=str).encode()).hexdigest()[:12]
    p = os.path.join(REPLAYS, "%s-%s.json" % (prop, h))
    with open(p, "w") as f:
        json.dump(payload, f, indent=1, default=str)
    return p


def finish(res, level_text, trusted_base, checker_cmd, assumptions, extra_cov=None):
    """Print verdict lines, write the evidence file, return the exit code."""
    rc = 0
    # violations with a failing input: the property's own oracle fails on the real code.
    # Disagreements between model and implementation (tags ending in -diff, or the
    # extraction cross-check) are broken correspondences, not failing inputs of the property.
    def is_corr(v):
        return any(t.endswith("-diff") or t == "extraction" for t in v.get("tags", []))
    reported = set()
    corr = [v for v in res.violations if is_corr(v)]
    for v in res.violations:
        if is_corr(v):
            continue
        k = match_known(res.prop, v.get("tags", []))
        if k is not None:
            key = k.get("class")
            if key not in reported:
                print("KNOWN-FINDING: property=%s %s" % (res.prop, k.get("what", key)))
                reported.add(key)
            res.known_hits.append(key)
            continue
        path = write_replay(res.prop, v)
        print("VIOLATION property=%s replay=%s" % (res.prop, path))
        rc = 1
    if corr and rc == 0:
        # the correspondence no longer checks and the search (every generated case through the
        # property's oracle on the real code) found no input on which the property itself fails
        for v in corr[:3]:
            v = dict(v)
            v["explanation"] = ("broken correspondence: model and implementation disagree on this input; the property's own "
                                "oracle held on all %d evaluated cases, so no failing input of the property was found" % res.evaluations)
            v["broken_obligations"] = [{"name": n, "kind": k, "note": note} for (n, k, ok, note) in res.obligations if not ok]
            path = write_replay(res.prop, v)
            print("VIOLATION property=%s replay=%s no-failing-input-found" % (res.prop, path))
        rc = 1
    unknown_viol = rc
    # obligations broken without a failing input
    failed = [(n, k, note) for (n, k, ok, note) in res.obligations if not ok]
    if failed and not unknown_viol:
        # broken obligations explained by a known finding are reported as such
        remaining = []
        for (n, k, note) in failed:
            kf = match_known(res.prop, ["obligation:" + n])
            if kf is not None:
                if kf.get("class") not in reported:
                    print("KNOWN-FINDING: property=%s %s" % (res.prop, kf.get("what", n)))
                    reported.add(kf.get("class"))
            else:
                remaining.append((n, k, note))
        if remaining:
            path = write_replay(res.prop, {"property": res.prop, "broken_obligations":
                                           [{"name": n, "kind": k, "note": note} for (n, k, note) in remaining],
                                           "searched": res.evaluations,
                                           "explanation": "these theorems / correspondence classes no longer check; "
                                                          "the search over the model and the implementation found no failing input"})
            print("VIOLATION property=%s replay=%s no-failing-input-found" % (res.prop, path))
            rc = 1
    os.makedirs(EVIDENCE, exist_ok=True)
    nobl = len(res.obligations)
    ndis = sum(1 for o in res.obligations if o[2])
    cov = {
        "obligations": max(nobl, 1),
        "discharged": ndis,
        "checker_cmd": checker_cmd,
        "trusted_base": trusted_base,
        "obligation_list": [{"name": n, "kind": k, "ok": ok, "note": note} for (n, k, ok, note) in res.obligations],
        "evaluations": res.evaluations,
        "distinct_nontrivial": len(res.nontrivial),
        "rule": level_text,
        "samples": res.samples if res.samples else ["(no correspondence cases in this run)"],
        "input_distribution": res.dist,
        "known_findings_hit": sorted(set(res.known_hits)),
        "notes": res.notes,
    }
    if extra_cov:
        cov.update(extra_cov)
    ev = {
        "property_id": res.prop,
        "tier": res.tier,
        "seed": res.seed,
        "level": "proof",
        "coverage": cov,
        "assumptions": assumptions,
        "wall_s": round(time.time() - res.t0, 2),
        "violations": len([v for v in res.violations if match_known(res.prop, v.get("tags", [])) is None]) + (1 if rc and not unknown_viol else 0),
    }
    with open(os.path.join(EVIDENCE, "%s.json" % res.prop), "w") as f:
        json.dump(ev, f, indent=1, default=str)
    if rc == 0:
        print("OK property=%s tier=%s obligations=%d/%d evaluations=%d nontrivial=%d wall=%.1fs" % (
            res.prop, res.tier, ndis, nobl, res.evaluations, len(res.nontrivial), time.time() - res.t0))
    return rc


COMMON_TRUSTED = [
    "Coq 8.16.1 kernel (coqc; full .vo build, no -vos); vm_compute used only for finite closed computations; no native_compute",
    "axioms: none (Print Assumptions of every property theorem = 'Closed under the global context')",
    "translator tools/gen_consts.py (regex-level copy of constants and data-type tables from /repo into coq/Model/Consts.v on every run)",
    "extraction: ExtrOcamlBasic only (bool/option/unit/list/prod/sumbool/sumor mapped to OCaml natives; nat, positive, N, Z stay inductive; no Extract Constant); OCaml 4.13.1 ocamlopt; zarith used only in the driver for decimal I/O",
    "correspondence harness (Rust crate qco_harness built against /repo's working tree with feature qco_verif, OCaml driver, Python comparison): differential testing, bounded by generator quality",
    "hand transcriptions of the 64-bit-word code (Model/Words.v BitWriter/BitWords/BitReader/CompressionTable, Huff.v HuffmanTable, WFile.v compressor call sequence, RFile.v header/metadata parse, RBody.v checked body batch, RFast.v complete batch with unchecked reads, Fast.v bit-list fast path), each PROVED equal to the bit-list model the property theorems are about; the transcriptions themselves are tied to the real code by the wordops/ctsearch operation scripts through the hooks and, end to end, by the byte/step correspondence of the bit-list model",
    "modelled, not verified: all f64 policy decisions and BinaryHeap order (oracle, universally quantified in the theorems), allocation, time, threads, rustc",
]


# ---------------------------------------------------------------- in-Coq shard (checks the extraction)
COQ_DT = {"bool": "DBool", "i16": "DI16", "i32": "DI32", "i64": "DI64", "i128": "DI128", "u16": "DU16", "u32": "DU32",
          "u64": "DU64", "u128": "DU128", "f32": "DF32", "f64": "DF64", "tsmicros": "DTsMicros", "tsnanos": "DTsNanos",
          "tsmicros96": "DTsMicros96", "tsnanos96": "DTsNanos96"}


def coq_shard_decode(tag, cases, timeout=900):
    """cases: list of (dtype name, hex).  Evaluates Reader.decode_file inside Coq with vm_compute
    (kernel reduction, no extraction) and returns answers in the driver's `rdec` format."""
    os.makedirs(WORK, exist_ok=True)
    path = os.path.join(WORK, "cases_%s.v" % tag)
    with open(path, "w") as f:
        f.write("From QCo.Model Require Import Base DType Codec Reader.\nFrom Coq Require Import List ZArith NArith.\nImport ListNotations.\nOpen Scope N_scope.\n")
        for i, (dt, hx) in enumerate(cases):
            bs = "; ".join(str(b) for b in (bytes.fromhex(hx) if hx != "-" else b""))
            f.write("Definition c%d := decode_file %s [%s].\nEval vm_compute in (%d, c%d).\n" % (i, COQ_DT[dt], bs, i, i))
    rc, out = sh(["coqc", "-Q", COQ, "QCo", path], cwd=WORK, timeout=timeout)
    if rc != 0:
        raise BuildBroken("coq-shard", out[-2000:])
    res = {}
    for m in re.finditer(r"=\s*\((\d+)(?:%N)?,\s*(.*?)\)\s*:\s*N \*", out, flags=re.S):
        i = int(m.group(1))
        body = " ".join(m.group(2).split())
        if body.startswith("Ok"):
            nums = re.findall(r"(-?\d+)%Z|\(\s*(-\s*\d+)\s*\)%Z", body)
            vals = []
            for a, b in nums:
                vals.append(int((a or b).replace(" ", "")))
            res[i] = "ok " + " ".join([str(len(vals))] + [str(v) for v in vals])
        elif body.startswith("Err"):
            res[i] = "err " + body.split()[1]
        else:
            res[i] = "panic model"
    return [res.get(i, "missing") for i in range(len(cases))]
